(* Proofs about Model/Fit.v (C12). *)
From Coq Require Import Lia Permutation.
From Mokaverif Require Import Model.Base Model.Tdc Proofs.BaseP Proofs.TdcP Model.Fit.
Open Scope Z_scope.

(* ====================== l[idx] without failure: specification-level selection ====================== *)
Definition sel {A} (idx : list nat) (l : list A) : list A :=
  flat_map (fun i => match nth_error l i with Some a => [a] | None => [] end) idx.

Notation in_range n idx := (Forall (fun i => (i < n)%nat) idx).

Lemma perm_in_range sigma n : Permutation sigma (seq 0 n) -> in_range n sigma.
Proof.
  intros H. apply Forall_forall. intros i Hi.
  apply (Permutation_in _ H) in Hi. apply in_seq in Hi. lia.
Qed.

Lemma perm_length sigma n : Permutation sigma (seq 0 n) -> length sigma = n.
Proof. intros H. rewrite (Permutation_length H). apply seq_length. Qed.

Lemma sel_cons {A} i idx (l : list A) a :
  nth_error l i = Some a -> sel (i :: idx) l = a :: sel idx l.
Proof. intros H. unfold sel. simpl. rewrite H. reflexivity. Qed.

Lemma nth_error_some_lt {A} (l : list A) i : (i < length l)%nat -> exists a, nth_error l i = Some a.
Proof.
  intros H. destruct (nth_error l i) eqn:E; [eexists; reflexivity|].
  apply nth_error_None in E. lia.
Qed.

Lemma gather_sel {A} idx (l : list A) : in_range (length l) idx -> fit_gather idx l = Ok (sel idx l).
Proof.
  induction idx as [|i idx IH]; intros H; [reflexivity|].
  inversion H as [|? ? Hi Hr]; subst.
  destruct (nth_error_some_lt l i Hi) as [a Ea].
  cbn [fit_gather]. rewrite Ea, (IH Hr), (sel_cons _ _ _ _ Ea). reflexivity.
Qed.

Lemma sel_length {A} idx (l : list A) : in_range (length l) idx -> length (sel idx l) = length idx.
Proof.
  induction idx as [|i idx IH]; intros H; [reflexivity|].
  inversion H as [|? ? Hi Hr]; subst.
  destruct (nth_error_some_lt l i Hi) as [a Ea].
  rewrite (sel_cons _ _ _ _ Ea). simpl. rewrite (IH Hr). reflexivity.
Qed.

Lemma sel_map {A B} (f : A -> B) idx (l : list A) : sel idx (map f l) = map f (sel idx l).
Proof.
  unfold sel. induction idx as [|i idx IH]; [reflexivity|]. simpl.
  rewrite map_app, <- IH. f_equal.
  rewrite nth_error_map. destruct (nth_error l i); reflexivity.
Qed.

Lemma sel_nil {A} (l : list A) : sel [] l = [].
Proof. reflexivity. Qed.

Lemma sel_shift {A} idx (x : A) l : sel (map S idx) (x :: l) = sel idx l.
Proof.
  unfold sel. induction idx as [|i idx IH]; [reflexivity|]. simpl. rewrite IH. reflexivity.
Qed.

Lemma sel_seq {A} (l : list A) : sel (seq 0 (length l)) l = l.
Proof.
  induction l as [|x l IH]; [reflexivity|].
  cbn [length seq]. rewrite (sel_cons 0%nat _ (x :: l) x eq_refl).
  rewrite <- seq_shift, sel_shift, IH. reflexivity.
Qed.

Lemma nth_error_sel {A} idx (l : list A) j :
  in_range (length l) idx ->
  nth_error (sel idx l) j = match nth_error idx j with Some i => nth_error l i | None => None end.
Proof.
  revert j. induction idx as [|i idx IH]; intros j H.
  - destruct j; reflexivity.
  - inversion H as [|? ? Hi Hr]; subst.
    destruct (nth_error_some_lt l i Hi) as [a Ea].
    rewrite (sel_cons _ _ _ _ Ea). destruct j; simpl; [symmetry; exact Ea | apply IH; exact Hr].
Qed.

Lemma sel_in_range n idx (pi : list nat) :
  in_range (length pi) idx -> in_range n pi -> in_range n (sel idx pi).
Proof.
  intros Hi Hp. apply Forall_forall. intros x Hx.
  apply In_nth_error in Hx. destruct Hx as [j Hj].
  rewrite (nth_error_sel _ _ _ Hi) in Hj.
  destruct (nth_error idx j) as [i|]; [|discriminate].
  apply nth_error_In in Hj. rewrite Forall_forall in Hp. apply Hp. exact Hj.
Qed.

Lemma sel_sel {A} idx pi (l : list A) :
  in_range (length pi) idx -> in_range (length l) pi -> sel idx (sel pi l) = sel (sel idx pi) l.
Proof.
  intros Hi Hp. induction idx as [|i idx IH]; [reflexivity|].
  inversion Hi as [|? ? Hi0 Hr]; subst.
  destruct (nth_error_some_lt pi i Hi0) as [p Ep].
  assert (p < length l)%nat as Hp0.
  { rewrite Forall_forall in Hp. apply Hp. eapply nth_error_In. exact Ep. }
  destruct (nth_error_some_lt l p Hp0) as [a Ea].
  assert (nth_error (sel pi l) i = Some a) as E1.
  { rewrite (nth_error_sel _ _ _ Hp), Ep. exact Ea. }
  rewrite (sel_cons _ _ _ _ E1), (sel_cons _ _ _ _ Ep), (sel_cons _ _ _ _ Ea), (IH Hr). reflexivity.
Qed.

Lemma sel_combine {A B} idx (a : list A) (b : list B) :
  length a = length b -> sel idx (combine a b) = combine (sel idx a) (sel idx b).
Proof.
  intros Hl. induction idx as [|i idx IH]; [reflexivity|].
  unfold sel in *. cbn [flat_map]. rewrite IH. clear IH.
  assert (forall (a : list A) (b : list B) i, length a = length b ->
            nth_error (combine a b) i = match nth_error a i, nth_error b i with
                                        | Some x, Some y => Some (x, y) | _, _ => None end
            /\ (nth_error a i = None <-> nth_error b i = None)) as G.
  { clear. induction a as [|x a IH]; intros [|y b] i H; simpl in H; try lia.
    - destruct i; simpl; split; tauto.
    - destruct i; simpl; [split; [reflexivity|split; discriminate]|]. apply IH. lia. }
  destruct (G a b i Hl) as [G1 G2]. rewrite G1.
  destruct (nth_error a i) as [x|], (nth_error b i) as [y|]; try reflexivity.
  - destruct G2 as [_ G2]. specialize (G2 eq_refl). discriminate.
  - destruct G2 as [G2 _]. specialize (G2 eq_refl). discriminate.
Qed.

Lemma sel_perm {A} idx (l : list A) : Permutation idx (seq 0 (length l)) -> Permutation (sel idx l) l.
Proof.
  intros H. apply Permutation_trans with (sel (seq 0 (length l)) l).
  - unfold sel. apply Permutation_flat_map. exact H.
  - rewrite sel_seq. reflexivity.
Qed.

Lemma sel_perm_idx n idx pi :
  Permutation idx (seq 0 n) -> Permutation pi (seq 0 n) -> Permutation (sel idx pi) (seq 0 n).
Proof.
  intros Hi Hp. apply Permutation_trans with pi; [|exact Hp].
  apply sel_perm. rewrite (perm_length _ _ Hp). exact Hi.
Qed.

(* np.argsort of a permutation undoes it *)
Lemma sel_argsort_self sigma n : Permutation sigma (seq 0 n) -> sel (fit_argsort sigma) sigma = seq 0 n.
Proof.
  intros H. unfold fit_argsort. rewrite (perm_length _ _ H).
  assert (forall r, In r (seq 0 n) -> nth_error sigma (index_of r sigma) = Some r) as G.
  { intros r Hr. apply (Permutation_in _ (Permutation_sym H)) in Hr.
    destruct (index_of_spec r sigma 0%nat Hr) as [Hlt Hn].
    rewrite (nth_error_nth' _ 0%nat Hlt), Hn. reflexivity. }
  revert G. generalize (seq 0 n). intros l. induction l as [|r l IH]; intros G; [reflexivity|].
  cbn [map]. rewrite (sel_cons _ _ _ _ (G r (or_introl eq_refl))). f_equal.
  apply IH. intros r' Hr'. apply G. right. exact Hr'.
Qed.

Lemma argsort_in_range sigma n : Permutation sigma (seq 0 n) -> in_range n (fit_argsort sigma).
Proof.
  intros H. unfold fit_argsort. rewrite (perm_length _ _ H).
  apply Forall_forall. intros i Hi. apply in_map_iff in Hi. destruct Hi as (r & <- & Hr).
  apply (Permutation_in _ (Permutation_sym H)) in Hr.
  destruct (index_of_spec r sigma 0%nat Hr) as [Hlt _]. rewrite (perm_length _ _ H) in Hlt. exact Hlt.
Qed.

Lemma sel_argsort {A} sigma (l : list A) :
  Permutation sigma (seq 0 (length l)) -> sel (fit_argsort sigma) (sel sigma l) = l.
Proof.
  intros H. rewrite sel_sel.
  - rewrite (sel_argsort_self _ _ H). apply sel_seq.
  - rewrite (perm_length _ _ H). apply argsort_in_range. exact H.
  - apply perm_in_range. exact H.
Qed.

(* ====================== counting and training rows ====================== *)
Lemma count1_perm l l' : Permutation l l' -> fit_count1 l = fit_count1 l'.
Proof.
  intros H. unfold fit_count1. f_equal. apply Permutation_length.
  induction H as [|x l l' H IH|x y l|l l' l'' H1 IH1 H2 IH2]; simpl.
  - constructor.
  - destruct (x =? 1); [constructor|]; exact IH.
  - destruct (x =? 1), (y =? 1); try reflexivity. apply perm_swap.
  - etransitivity; eassumption.
Qed.

Lemma count1_sel idx l : Permutation idx (seq 0 (length l)) -> fit_count1 (sel idx l) = fit_count1 l.
Proof. intros H. apply count1_perm, sel_perm, H. Qed.

Lemma filter_perm {A} (f : A -> bool) l l' : Permutation l l' -> Permutation (filter f l) (filter f l').
Proof.
  intros H. induction H as [|x l l' H IH|x y l|l l' l'' H1 IH1 H2 IH2]; simpl.
  - constructor.
  - destruct (f x); [constructor|]; exact IH.
  - destruct (f x), (f y); try reflexivity. apply perm_swap.
  - etransitivity; eassumption.
Qed.

Section Rows.
Variable X : Type.

Lemma train_rows_perm (xs xs' : list X) (L L' : list Z) :
  Permutation (combine xs L) (combine xs' L') ->
  Permutation (fit_train_rows X xs L) (fit_train_rows X xs' L').
Proof. intros H. unfold fit_train_rows. apply Permutation_map, filter_perm, H. Qed.

Lemma train_rows_sel idx (xs : list X) (L : list Z) :
  length xs = length L -> Permutation idx (seq 0 (length xs)) ->
  Permutation (fit_train_rows X (sel idx xs) (sel idx L)) (fit_train_rows X xs L).
Proof.
  intros Hl H. apply train_rows_perm. rewrite <- sel_combine by exact Hl.
  apply sel_perm. rewrite combine_length, <- Hl, Nat.min_id. exact H.
Qed.

(* the pairs handed to estimator.fit: the rows of [idx] whose label is not 0, in that order, each
   with its own features and its own label *)
Definition handed_ok (xs : list X) (L : list Z) (idx : list nat) (tr : list (X * bool)) : Prop :=
  Forall2 (fun r p => nth_error xs r = Some (fst p) /\ snd p = (nth r L 0 =? 1))
          (filter (fun r => negb (nth r L 0 =? 0)) idx) tr.

Lemma handed_spec idx (xs : list X) (L : list Z) :
  length xs = length L -> in_range (length xs) idx ->
  handed_ok xs L idx (fit_train_rows X (sel idx xs) (sel idx L)).
Proof.
  intros Hl H. unfold handed_ok. induction idx as [|i idx IH]; [constructor|].
  inversion H as [|? ? Hi Hr]; subst.
  destruct (nth_error_some_lt xs i Hi) as [x Ex].
  assert (i < length L)%nat as Hi' by lia.
  destruct (nth_error_some_lt L i Hi') as [v Ev].
  rewrite (sel_cons _ _ _ _ Ex), (sel_cons _ _ _ _ Ev).
  assert (nth i L 0 = v) as En by (apply nth_error_nth; exact Ev).
  unfold fit_train_rows. cbn [combine filter snd fst]. rewrite En.
  destruct (v =? 0) eqn:E0; cbn [negb map].
  - apply IH. exact Hr.
  - constructor; [|apply IH; exact Hr]. cbn [fst snd]. rewrite En. split; [exact Ex|reflexivity].
Qed.
End Rows.

(* ====================== more selection lemmas ====================== *)
Lemma nth_sel {A} idx (l : list A) j d :
  in_range (length l) idx -> (j < length idx)%nat -> nth j (sel idx l) d = nth (nth j idx 0%nat) l d.
Proof.
  intros H Hj. pose proof (nth_error_sel idx l j H) as E.
  rewrite (nth_error_nth' idx 0%nat Hj) in E.
  assert (nth j idx 0%nat < length l)%nat as Hb.
  { rewrite Forall_forall in H. apply H. apply nth_In. exact Hj. }
  rewrite (nth_error_nth' l d Hb) in E. apply nth_error_nth. exact E.
Qed.

Lemma Forall2_of_nth {A B} (P : A -> B -> Prop) l l' d d' :
  length l = length l' -> (forall j, (j < length l)%nat -> P (nth j l d) (nth j l' d')) -> Forall2 P l l'.
Proof.
  revert l'. induction l as [|x l IH]; intros [|y l'] Hl H; simpl in Hl; try lia; constructor.
  - apply (H 0%nat). simpl. lia.
  - apply IH; [lia|]. intros j Hj. apply (H (S j)). simpl. lia.
Qed.

(* ====================== labels follow the rows when rows are permuted ====================== *)
Lemma label_map_qeq thr (qs qs' : list Q) (tg : list bool) :
  Forall2 Qeq qs qs' ->
  map (fun qt => tdc_label thr (fst qt) (snd qt)) (combine qs tg)
  = map (fun qt => tdc_label thr (fst qt) (snd qt)) (combine qs' tg).
Proof.
  intros H. revert tg. induction H as [|q q' qs qs' Hq H IH]; intros tg; [reflexivity|].
  destruct tg as [|t tg]; [reflexivity|]. cbn [combine map fst snd]. rewrite IH. f_equal.
  unfold tdc_label. rewrite Hq. reflexivity.
Qed.

Lemma update_labels_sel desc pi sc tg thr :
  Permutation pi (seq 0 (length sc)) -> length tg = length sc ->
  update_labels desc (sel pi sc) (sel pi tg) thr
  = match update_labels desc sc tg thr with Ok l => Ok (sel pi l) | Err e => Err e end.
Proof.
  intros Hp Hl.
  pose proof (perm_in_range _ _ Hp) as Hr. pose proof (perm_length _ _ Hp) as Hpl.
  assert (in_range (length tg) pi) as Hr' by (rewrite Hl; exact Hr).
  assert (length (sel pi sc) = length sc) as L1 by (rewrite sel_length by exact Hr; exact Hpl).
  assert (length (sel pi tg) = length sc) as L2 by (rewrite sel_length by exact Hr'; exact Hpl).
  unfold update_labels. rewrite L1, L2, Hl, Nat.eqb_refl. cbn [negb]. f_equal.
  destruct (tdc_core_spec desc sc tg (eq_sym Hl)) as [Q1 S1].
  destruct (tdc_core_spec desc (sel pi sc) (sel pi tg) (eq_trans L1 (eq_sym L2))) as [Q2 S2].
  rewrite sel_map, sel_combine by (rewrite Q1; symmetry; exact Hl).
  apply label_map_qeq.
  apply (Forall2_of_nth _ _ _ 1%Q 1%Q).
  - rewrite Q2, L1, sel_length by (rewrite Q1; exact Hr). symmetry. exact Hpl.
  - intros j Hj. rewrite Q2, L1 in Hj.
    assert (j < length pi)%nat as Hj' by lia.
    rewrite (nth_sel pi (tdc_core desc sc tg)) by (rewrite ?Q1; assumption).
    assert (nth j pi 0%nat < length sc)%nat as Hb.
    { rewrite Forall_forall in Hr. apply Hr. apply nth_In. exact Hj'. }
    eapply is_qvalue_unique.
    + apply S2. rewrite L1. exact Hj.
    + rewrite (nth_sel pi sc) by assumption.
      eapply is_qvalue_perm; [|apply S1; exact Hb].
      rewrite <- sel_combine by (symmetry; exact Hl). symmetry. apply sel_perm.
      rewrite combine_length, Hl, Nat.min_id. exact Hp.
Qed.

Lemma update_labels_length desc sc tg thr l : update_labels desc sc tg thr = Ok l -> length l = length sc.
Proof. intros H. apply (update_labels_spec _ _ _ _ _ H). Qed.

(* ====================== the loop against a loop without index bookkeeping ====================== *)
(* declarative content of one label update *)
Definition labels_ok (scores : list Z) (targets : list bool) (thr : Q) (L : list Z) : Prop :=
  length L = length scores /\
  forall r, (r < length scores)%nat ->
    exists q, is_qvalue true (combine scores targets) (nth r scores 0) q /\
      (nth r L 0 = 1 <-> nth r targets false = true /\ (q <= thr)%Q) /\
      (nth r L 0 = -1 <-> nth r targets false = false) /\
      (nth r L 0 = 0 <-> nth r targets false = true /\ ~ (q <= thr)%Q).

Lemma update_labels_ok sc tg thr l : update_labels true sc tg thr = Ok l -> labels_ok sc tg thr l.
Proof.
  intros H. destruct (update_labels_spec _ _ _ _ _ H) as [Hl Hs]. split; [exact Hl|].
  intros r Hr. specialize (Hs r Hr). cbv zeta in Hs. eexists. exact Hs.
Qed.

Section Loop.
Variables (X G : Type).
Variable learn : list (X * bool) -> G.
Variable score : G -> X -> Z.
Variable coscore : G -> X -> Z.

Lemma get_scores_ok k g xs : length xs <> 1%nat ->
  fit_get_scores X G score coscore k g xs = Ok (map (score g) xs).
Proof.
  intros H. destruct k; cbn [fit_get_scores]; [reflexivity| |];
    destruct xs as [|x [|y r]]; try reflexivity; simpl in H; lia.
Qed.

(* the rows handed to estimator.fit when the table order is [ord] and the labels are [L] *)
Definition handed (ord : list nat) (xs : list X) (L : list Z) : list (X * bool) :=
  fit_train_rows X (sel ord xs) (sel ord L).

(* the loop in table order: no shuffling, no un-shuffling; [ord] only fixes the order of the
   training list.  Returns the label vectors in force at each iteration. *)
Fixpoint ref_loop (iters : nat) (ord : list nat) (xs : list X) (targets : list bool) (thr : Q)
         (L : list Z) (last : option (G * Z)) : list (list Z) * result (option (G * Z)) :=
  match iters with
  | O => ([], Ok last)
  | S it =>
      let g := learn (handed ord xs L) in
      match update_labels true (map (score g) xs) targets thr with
      | Err e => ([L], Err e)
      | Ok L' =>
          if fit_count1 L' =? 0 then ([L], Err ERuntime)
          else let (t, r) := ref_loop it ord xs targets thr L' (Some (g, fit_count1 L')) in (L :: t, r)
      end
  end.

Definition ref_final (start : list Z) (fp : Z) (ov : bool) (r : result (option (G * Z))) : result G :=
  match r with
  | Err e => Err e
  | Ok None => Err EIndex
  | Ok (Some (g, np)) =>
      if (np <? fit_count1 start) || (np <? fp) then (if ov then Ok g else Err ERuntime) else Ok g
  end.

Definition ord_of (sigma : list nat) (shuffle : bool) (n : nat) : list nat :=
  if shuffle then sigma else seq 0 n.

Lemma ord_of_perm sigma shuffle n : Permutation sigma (seq 0 n) -> Permutation (ord_of sigma shuffle n) (seq 0 n).
Proof. intros H. destruct shuffle; [exact H|reflexivity]. Qed.

Lemma loop_ref iters : forall k sigma xs targets thr L last,
  Permutation sigma (seq 0 (length xs)) -> length L = length xs -> length xs <> 1%nat ->
  fit_loop X G learn score coscore iters k (sel sigma xs) sigma (fit_argsort sigma) targets thr (sel sigma L) last
  = (let (Ls, r) := ref_loop iters sigma xs targets thr L last in (map (handed sigma xs) Ls, r)).
Proof.
  induction iters as [|it IH]; intros k sigma xs targets thr L last Hp HL Hn; [reflexivity|].
  pose proof (perm_in_range _ _ Hp) as Hr. pose proof (perm_length _ _ Hp) as Hpl.
  cbn [fit_loop ref_loop]. fold (handed sigma xs L).
  set (g := learn (handed sigma xs L)).
  unfold fit_step.
  rewrite get_scores_ok by (rewrite sel_length by exact Hr; lia).
  rewrite <- sel_map.
  rewrite gather_sel
    by (rewrite sel_length by (rewrite map_length; exact Hr); rewrite Hpl; apply argsort_in_range; exact Hp).
  rewrite sel_argsort by (rewrite map_length; exact Hp).
  destruct (update_labels true (map (score g) xs) targets thr) as [labs|e] eqn:EU; [|reflexivity].
  assert (length labs = length xs) as Hll.
  { rewrite (update_labels_length _ _ _ _ _ EU). apply map_length. }
  rewrite gather_sel by (rewrite Hll; exact Hr).
  rewrite count1_sel by (rewrite Hll; exact Hp).
  destruct (fit_count1 labs =? 0); [reflexivity|].
  rewrite (IH k sigma xs targets thr labs _ Hp Hll Hn).
  destruct (ref_loop it sigma xs targets thr labs (Some (g, fit_count1 labs))) as [t r]. reflexivity.
Qed.

Theorem train_ref k xs targets start fp sigma shuffle thr mi ov :
  Permutation sigma (seq 0 (length xs)) -> length start = length xs -> length xs <> 1%nat ->
  fit_train X G learn score coscore k xs targets start fp sigma shuffle thr mi ov
  = (let ord := ord_of sigma shuffle (length xs) in
     let (Ls, r) := ref_loop mi ord xs targets thr start None in
     (map (handed ord xs) Ls, ref_final start fp ov r)).
Proof.
  intros Hp HL Hn. unfold fit_train. cbv zeta.
  assert (forall ord, Permutation ord (seq 0 (length xs)) ->
            fit_train_core X G learn score coscore k (sel ord xs) (sel ord start) ord targets fp thr mi ov
            = (let (Ls, r) := ref_loop mi ord xs targets thr start None in
               (map (handed ord xs) Ls, ref_final start fp ov r))) as Core.
  { intros ord Ho. unfold fit_train_core.
    rewrite (loop_ref mi k ord xs targets thr start None Ho HL Hn).
    destruct (ref_loop mi ord xs targets thr start None) as [Ls r].
    rewrite count1_sel by (rewrite HL; exact Ho). reflexivity. }
  destruct shuffle; cbn [ord_of].
  - rewrite !gather_sel by (rewrite ?HL; apply perm_in_range; exact Hp). apply Core. exact Hp.
  - rewrite HL. specialize (Core (seq 0 (length xs)) (Permutation_refl _)).
    assert (sel (seq 0 (length xs)) start = start) as E by (rewrite <- HL; apply sel_seq).
    rewrite sel_seq, E in Core. exact Core.
Qed.

(* ---------- what the label history satisfies ---------- *)
Lemma ref_loop_hist iters : forall ord xs targets thr L last Ls r,
  ref_loop iters ord xs targets thr L last = (Ls, r) -> length L = length xs ->
  (forall L0, nth_error Ls 0 = Some L0 -> L0 = L) /\
  (forall i Li, nth_error Ls i = Some Li ->
     length Li = length xs /\
     forall L', nth_error Ls (S i) = Some L' ->
       labels_ok (map (score (learn (handed ord xs Li))) xs) targets thr L').
Proof.
  induction iters as [|it IH]; intros ord xs targets thr L last Ls r H HL.
  - cbn [ref_loop] in H. injection H as <- <-. split; [intros L0 E; discriminate|].
    intros i Li E. destruct i; discriminate.
  - cbn [ref_loop] in H.
    set (g := learn (handed ord xs L)) in *.
    destruct (update_labels true (map (score g) xs) targets thr) as [labs|e] eqn:EU.
    2:{ injection H as <- <-. split; [intros L0 E; injection E as <-; reflexivity|].
        intros [|i] Li E; [|destruct i; discriminate]. injection E as <-. split; [exact HL|].
        intros L' E'. discriminate. }
    destruct (fit_count1 labs =? 0).
    { injection H as <- <-. split; [intros L0 E; injection E as <-; reflexivity|].
      intros [|i] Li E; [|destruct i; discriminate]. injection E as <-. split; [exact HL|].
      intros L' E'. discriminate. }
    destruct (ref_loop it ord xs targets thr labs (Some (g, fit_count1 labs))) as [t r'] eqn:ER.
    injection H as <- <-.
    assert (length labs = length xs) as Hll.
    { rewrite (update_labels_length _ _ _ _ _ EU). apply map_length. }
    destruct (IH _ _ _ _ _ _ _ _ ER Hll) as [H0 HS].
    split; [intros L0 E; injection E as <-; reflexivity|].
    intros [|i] Li E.
    + injection E as <-. split; [exact HL|]. intros L' E'. cbn [nth_error] in E'.
      rewrite (H0 _ E'). apply update_labels_ok. exact EU.
    + cbn [nth_error] in E. destruct (HS i Li E) as [Hlen Hnext]. split; [exact Hlen|].
      intros L' E'. apply Hnext. exact E'.
Qed.

(* ---------- C12_aligned ---------- *)
Theorem fit_aligned k xs targets start fp sigma shuffle thr mi ov trace res :
  length start = length xs -> length xs <> 1%nat -> Permutation sigma (seq 0 (length xs)) ->
  fit_train X G learn score coscore k xs targets start fp sigma shuffle thr mi ov = (trace, res) ->
  exists Ls : list (list Z),
    length Ls = length trace /\
    (forall L, nth_error Ls 0 = Some L -> L = start) /\
    forall i L tr, nth_error Ls i = Some L -> nth_error trace i = Some tr ->
      length L = length xs /\
      handed_ok X xs L (if shuffle then sigma else seq 0 (length xs)) tr /\
      forall L', nth_error Ls (S i) = Some L' ->
        labels_ok (map (score (learn tr)) xs) targets thr L'.
Proof.
  intros HL Hn Hp H. rewrite (train_ref _ _ _ _ _ _ _ _ _ _ Hp HL Hn) in H. cbv zeta in H.
  fold (ord_of sigma shuffle (length xs)).
  set (ord := ord_of sigma shuffle (length xs)) in *.
  pose proof (ord_of_perm sigma shuffle _ Hp) as Ho. fold ord in Ho.
  destruct (ref_loop mi ord xs targets thr start None) as [Ls r] eqn:ER.
  injection H as <- <-. exists Ls.
  destruct (ref_loop_hist _ _ _ _ _ _ _ _ _ ER HL) as [H0 HS].
  split; [rewrite map_length; reflexivity|]. split; [exact H0|].
  intros i L tr EL Etr. rewrite (map_nth_error _ _ _ EL) in Etr. injection Etr as <-.
  destruct (HS i L EL) as [Hlen Hnext]. split; [exact Hlen|]. split.
  - apply handed_spec; [symmetry; exact Hlen | apply perm_in_range; exact Ho].
  - exact Hnext.
Qed.

(* ---------- row order: permuting the table = composing the shuffle ---------- *)
Lemma ref_loop_rows iters : forall pi ord xs targets thr L last,
  Permutation pi (seq 0 (length xs)) -> Permutation ord (seq 0 (length xs)) ->
  length L = length xs -> length targets = length xs ->
  ref_loop iters ord (sel pi xs) (sel pi targets) thr (sel pi L) last
  = (let (Ls, r) := ref_loop iters (sel ord pi) xs targets thr L last in (map (sel pi) Ls, r)).
Proof.
  induction iters as [|it IH]; intros pi ord xs targets thr L last Hp Ho HL HT; [reflexivity|].
  pose proof (perm_in_range _ _ Hp) as Hr. pose proof (perm_length _ _ Hp) as Hpl.
  pose proof (perm_in_range _ _ Ho) as Hro.
  cbn [ref_loop]. unfold handed.
  rewrite !sel_sel by (rewrite ?Hpl, ?HL; assumption).
  set (g := learn (fit_train_rows X (sel (sel ord pi) xs) (sel (sel ord pi) L))).
  rewrite <- sel_map.
  rewrite update_labels_sel by (rewrite map_length; assumption).
  destruct (update_labels true (map (score g) xs) targets thr) as [labs|e] eqn:EU; [|reflexivity].
  assert (length labs = length xs) as Hll.
  { rewrite (update_labels_length _ _ _ _ _ EU). apply map_length. }
  rewrite count1_sel by (rewrite Hll; exact Hp).
  destruct (fit_count1 labs =? 0); [reflexivity|].
  rewrite (IH pi ord xs targets thr labs _ Hp Ho Hll HT).
  destruct (ref_loop it (sel ord pi) xs targets thr labs (Some (g, fit_count1 labs))) as [t r]. reflexivity.
Qed.

(* ---------- order-independent learners ---------- *)
Section Invariant.
Hypothesis learn_inv : forall l l', Permutation l l' -> learn l = learn l'.

Lemma handed_perm ord xs L :
  Permutation ord (seq 0 (length xs)) -> length L = length xs ->
  Permutation (handed ord xs L) (fit_train_rows X xs L).
Proof. intros Ho HL. apply train_rows_sel; [symmetry; exact HL|exact Ho]. Qed.

Lemma ref_loop_ord iters : forall ord1 ord2 xs targets thr L last,
  Permutation ord1 (seq 0 (length xs)) -> Permutation ord2 (seq 0 (length xs)) -> length L = length xs ->
  ref_loop iters ord1 xs targets thr L last = ref_loop iters ord2 xs targets thr L last.
Proof.
  induction iters as [|it IH]; intros ord1 ord2 xs targets thr L last H1 H2 HL; [reflexivity|].
  cbn [ref_loop].
  assert (learn (handed ord1 xs L) = learn (handed ord2 xs L)) as ->.
  { apply learn_inv. rewrite (handed_perm _ _ _ H1 HL), (handed_perm _ _ _ H2 HL). reflexivity. }
  set (g := learn (handed ord2 xs L)).
  destruct (update_labels true (map (score g) xs) targets thr) as [labs|e] eqn:EU; [|reflexivity].
  assert (length labs = length xs) as Hll.
  { rewrite (update_labels_length _ _ _ _ _ EU). apply map_length. }
  destruct (fit_count1 labs =? 0); [reflexivity|].
  rewrite (IH ord1 ord2 xs targets thr labs _ H1 H2 Hll). reflexivity.
Qed.

Lemma ref_loop_lengths iters : forall ord xs targets thr L last Ls r,
  ref_loop iters ord xs targets thr L last = (Ls, r) -> length L = length xs ->
  Forall (fun L0 => length L0 = length xs) Ls.
Proof.
  intros ord xs targets thr L last Ls r H HL.
  destruct (ref_loop_hist _ _ _ _ _ _ _ _ _ H HL) as [_ HS].
  apply Forall_forall. intros L0 Hin. apply In_nth_error in Hin. destruct Hin as [i Ei].
  apply (HS i L0 Ei).
Qed.

(* C12_order_invariant on the generic loop: rows permuted by [pi], any two shuffles, shuffle on or off *)
Theorem fit_order_invariant k xs targets start fp pi sigma1 sh1 sigma2 sh2 thr mi ov :
  length start = length xs -> length targets = length xs -> length xs <> 1%nat ->
  Permutation pi (seq 0 (length xs)) ->
  Permutation sigma1 (seq 0 (length xs)) -> Permutation sigma2 (seq 0 (length xs)) ->
  forall tr1 r1 tr2 r2,
  fit_train X G learn score coscore k (sel pi xs) (sel pi targets) (sel pi start) fp sigma1 sh1 thr mi ov = (tr1, r1) ->
  fit_train X G learn score coscore k xs targets start fp sigma2 sh2 thr mi ov = (tr2, r2) ->
  r1 = r2 /\ Forall2 (@Permutation (X * bool)) tr1 tr2.
Proof.
  intros HL HT Hn Hp H1 H2 tr1 r1 tr2 r2 E1 E2.
  pose proof (perm_in_range _ _ Hp) as Hr. pose proof (perm_length _ _ Hp) as Hpl.
  assert (length (sel pi xs) = length xs) as Lx by (rewrite sel_length by exact Hr; exact Hpl).
  assert (length (sel pi start) = length xs) as Ls0 by (rewrite sel_length by (rewrite HL; exact Hr); exact Hpl).
  rewrite train_ref in E1 by (rewrite ?Lx; assumption).
  rewrite train_ref in E2 by assumption.
  cbv zeta in E1, E2. rewrite Lx in E1.
  set (o1 := ord_of sigma1 sh1 (length xs)) in *. set (o2 := ord_of sigma2 sh2 (length xs)) in *.
  assert (Permutation o1 (seq 0 (length xs))) as Ho1 by (apply ord_of_perm; exact H1).
  assert (Permutation o2 (seq 0 (length xs))) as Ho2 by (apply ord_of_perm; exact H2).
  rewrite (ref_loop_rows mi pi o1 xs targets thr start None Hp Ho1 HL HT) in E1.
  assert (Permutation (sel o1 pi) (seq 0 (length xs))) as Ho1' by (apply sel_perm_idx; assumption).
  rewrite (ref_loop_ord mi (sel o1 pi) o2 xs targets thr start None Ho1' Ho2 HL) in E1.
  destruct (ref_loop mi o2 xs targets thr start None) as [Ls r] eqn:ER.
  pose proof (ref_loop_lengths _ _ _ _ _ _ _ _ _ ER HL) as Hlens.
  injection E1 as <- <-. injection E2 as <- <-. split.
  - unfold ref_final. destruct r as [[[g np]|]|e]; try reflexivity.
    rewrite count1_sel by (rewrite HL; exact Hp). reflexivity.
  - rewrite map_map. clear ER. induction Ls as [|L0 Ls IH]; [constructor|].
    inversion Hlens as [|? ? HL0 Hrest]; subst. constructor; [|apply IH; exact Hrest].
    unfold handed. rewrite !sel_sel by (rewrite ?Hpl, ?HL0; try assumption; apply perm_in_range; assumption).
    fold (handed (sel o1 pi) xs L0). fold (handed o2 xs L0).
    rewrite (handed_perm _ _ _ Ho1' HL0), (handed_perm _ _ _ Ho2 HL0). reflexivity.
Qed.
End Invariant.
End Loop.
