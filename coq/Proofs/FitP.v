(* Proofs about Model/Fit.v (C12). *)
From Coq Require Import Lia Permutation.
From Mokaverif Require Import Model.Base Model.Tdc Proofs.BaseP Proofs.TdcP Model.Fit.
Open Scope Z_scope.

(* ====================== l[idx] without failure: specification-level selection ====================== *)
Definition sel {A} (idx : list nat) (l : list A) : list A :=
  flat_map (fun i => match nth_error l i with Some a => [a] | None => [] end) idx.

Notation in_range n idx := (Forall (fun i => (i < n)%nat) idx).

Lemma perm_in_range sigma n : Permutation sigma (seq 0 n) -> in_range n sigma.
Proof.
  intros H. apply Forall_forall. intros i Hi.
  apply (Permutation_in _ H) in Hi. apply in_seq in Hi. lia.
Qed.

Lemma perm_length sigma n : Permutation sigma (seq 0 n) -> length sigma = n.
Proof. intros H. rewrite (Permutation_length H). apply seq_length. Qed.

Lemma sel_cons {A} i idx (l : list A) a :
  nth_error l i = Some a -> sel (i :: idx) l = a :: sel idx l.
Proof. intros H. unfold sel. simpl. rewrite H. reflexivity. Qed.

Lemma nth_error_some_lt {A} (l : list A) i : (i < length l)%nat -> exists a, nth_error l i = Some a.
Proof.
  intros H. destruct (nth_error l i) eqn:E; [eexists; reflexivity|].
  apply nth_error_None in E. lia.
Qed.

Lemma gather_sel {A} idx (l : list A) : in_range (length l) idx -> fit_gather idx l = Ok (sel idx l).
Proof.
  induction idx as [|i idx IH]; intros H; [reflexivity|].
  inversion H as [|? ? Hi Hr]; subst.
  destruct (nth_error_some_lt l i Hi) as [a Ea].
  cbn [fit_gather]. rewrite Ea, (IH Hr), (sel_cons _ _ _ _ Ea). reflexivity.
Qed.

Lemma sel_length {A} idx (l : list A) : in_range (length l) idx -> length (sel idx l) = length idx.
Proof.
  induction idx as [|i idx IH]; intros H; [reflexivity|].
  inversion H as [|? ? Hi Hr]; subst.
  destruct (nth_error_some_lt l i Hi) as [a Ea].
  rewrite (sel_cons _ _ _ _ Ea). simpl. rewrite (IH Hr). reflexivity.
Qed.

Lemma sel_map {A B} (f : A -> B) idx (l : list A) : sel idx (map f l) = map f (sel idx l).
Proof.
  unfold sel. induction idx as [|i idx IH]; [reflexivity|]. simpl.
  rewrite map_app, <- IH. f_equal.
  rewrite nth_error_map. destruct (nth_error l i); reflexivity.
Qed.

Lemma sel_nil {A} (l : list A) : sel [] l = [].
Proof. reflexivity. Qed.

Lemma sel_shift {A} idx (x : A) l : sel (map S idx) (x :: l) = sel idx l.
Proof.
  unfold sel. induction idx as [|i idx IH]; [reflexivity|]. simpl. rewrite IH. reflexivity.
Qed.

Lemma sel_seq {A} (l : list A) : sel (seq 0 (length l)) l = l.
Proof.
  induction l as [|x l IH]; [reflexivity|].
  cbn [length seq]. rewrite (sel_cons 0%nat _ (x :: l) x eq_refl).
  rewrite <- seq_shift, sel_shift, IH. reflexivity.
Qed.

Lemma nth_error_sel {A} idx (l : list A) j :
  in_range (length l) idx ->
  nth_error (sel idx l) j = match nth_error idx j with Some i => nth_error l i | None => None end.
Proof.
  revert j. induction idx as [|i idx IH]; intros j H.
  - destruct j; reflexivity.
  - inversion H as [|? ? Hi Hr]; subst.
    destruct (nth_error_some_lt l i Hi) as [a Ea].
    rewrite (sel_cons _ _ _ _ Ea). destruct j; simpl; [symmetry; exact Ea | apply IH; exact Hr].
Qed.

Lemma sel_in_range n idx (pi : list nat) :
  in_range (length pi) idx -> in_range n pi -> in_range n (sel idx pi).
Proof.
  intros Hi Hp. apply Forall_forall. intros x Hx.
  apply In_nth_error in Hx. destruct Hx as [j Hj].
  rewrite (nth_error_sel _ _ _ Hi) in Hj.
  destruct (nth_error idx j) as [i|]; [|discriminate].
  apply nth_error_In in Hj. rewrite Forall_forall in Hp. apply Hp. exact Hj.
Qed.

Lemma sel_sel {A} idx pi (l : list A) :
  in_range (length pi) idx -> in_range (length l) pi -> sel idx (sel pi l) = sel (sel idx pi) l.
Proof.
  intros Hi Hp. induction idx as [|i idx IH]; [reflexivity|].
  inversion Hi as [|? ? Hi0 Hr]; subst.
  destruct (nth_error_some_lt pi i Hi0) as [p Ep].
  assert (p < length l)%nat as Hp0.
  { rewrite Forall_forall in Hp. apply Hp. eapply nth_error_In. exact Ep. }
  destruct (nth_error_some_lt l p Hp0) as [a Ea].
  assert (nth_error (sel pi l) i = Some a) as E1.
  { rewrite (nth_error_sel _ _ _ Hp), Ep. exact Ea. }
  rewrite (sel_cons _ _ _ _ E1), (sel_cons _ _ _ _ Ep), (sel_cons _ _ _ _ Ea), (IH Hr). reflexivity.
Qed.

Lemma sel_combine {A B} idx (a : list A) (b : list B) :
  length a = length b -> sel idx (combine a b) = combine (sel idx a) (sel idx b).
Proof.
  intros Hl. induction idx as [|i idx IH]; [reflexivity|].
  unfold sel in *. cbn [flat_map]. rewrite IH. clear IH.
  assert (forall (a : list A) (b : list B) i, length a = length b ->
            nth_error (combine a b) i = match nth_error a i, nth_error b i with
                                        | Some x, Some y => Some (x, y) | _, _ => None end
            /\ (nth_error a i = None <-> nth_error b i = None)) as G.
  { clear. induction a as [|x a IH]; intros [|y b] i H; simpl in H; try lia.
    - destruct i; simpl; split; tauto.
    - destruct i; simpl; [split; [reflexivity|split; discriminate]|]. apply IH. lia. }
  destruct (G a b i Hl) as [G1 G2]. rewrite G1.
  destruct (nth_error a i) as [x|], (nth_error b i) as [y|]; try reflexivity.
  - destruct G2 as [_ G2]. specialize (G2 eq_refl). discriminate.
  - destruct G2 as [G2 _]. specialize (G2 eq_refl). discriminate.
Qed.

Lemma sel_perm {A} idx (l : list A) : Permutation idx (seq 0 (length l)) -> Permutation (sel idx l) l.
Proof.
  intros H. apply Permutation_trans with (sel (seq 0 (length l)) l).
  - unfold sel. apply Permutation_flat_map. exact H.
  - rewrite sel_seq. reflexivity.
Qed.

Lemma sel_perm_idx n idx pi :
  Permutation idx (seq 0 n) -> Permutation pi (seq 0 n) -> Permutation (sel idx pi) (seq 0 n).
Proof.
  intros Hi Hp. apply Permutation_trans with pi; [|exact Hp].
  apply sel_perm. rewrite (perm_length _ _ Hp). exact Hi.
Qed.

(* np.argsort of a permutation undoes it *)
Lemma sel_argsort_self sigma n : Permutation sigma (seq 0 n) -> sel (fit_argsort sigma) sigma = seq 0 n.
Proof.
  intros H. unfold fit_argsort. rewrite (perm_length _ _ H).
  assert (forall r, In r (seq 0 n) -> nth_error sigma (index_of r sigma) = Some r) as G.
  { intros r Hr. apply (Permutation_in _ (Permutation_sym H)) in Hr.
    destruct (index_of_spec r sigma 0%nat Hr) as [Hlt Hn].
    rewrite (nth_error_nth' _ 0%nat Hlt), Hn. reflexivity. }
  revert G. generalize (seq 0 n). intros l. induction l as [|r l IH]; intros G; [reflexivity|].
  cbn [map]. rewrite (sel_cons _ _ _ _ (G r (or_introl eq_refl))). f_equal.
  apply IH. intros r' Hr'. apply G. right. exact Hr'.
Qed.

Lemma argsort_in_range sigma n : Permutation sigma (seq 0 n) -> in_range n (fit_argsort sigma).
Proof.
  intros H. unfold fit_argsort. rewrite (perm_length _ _ H).
  apply Forall_forall. intros i Hi. apply in_map_iff in Hi. destruct Hi as (r & <- & Hr).
  apply (Permutation_in _ (Permutation_sym H)) in Hr.
  destruct (index_of_spec r sigma 0%nat Hr) as [Hlt _]. rewrite (perm_length _ _ H) in Hlt. exact Hlt.
Qed.

Lemma sel_argsort {A} sigma (l : list A) :
  Permutation sigma (seq 0 (length l)) -> sel (fit_argsort sigma) (sel sigma l) = l.
Proof.
  intros H. rewrite sel_sel.
  - rewrite (sel_argsort_self _ _ H). apply sel_seq.
  - rewrite (perm_length _ _ H). apply argsort_in_range. exact H.
  - apply perm_in_range. exact H.
Qed.

(* ====================== counting and training rows ====================== *)
Lemma count1_perm l l' : Permutation l l' -> fit_count1 l = fit_count1 l'.
Proof.
  intros H. unfold fit_count1. f_equal. apply Permutation_length.
  induction H as [|x l l' H IH|x y l|l l' l'' H1 IH1 H2 IH2]; simpl.
  - constructor.
  - destruct (x =? 1); [constructor|]; exact IH.
  - destruct (x =? 1), (y =? 1); try reflexivity. apply perm_swap.
  - etransitivity; eassumption.
Qed.

Lemma count1_sel idx l : Permutation idx (seq 0 (length l)) -> fit_count1 (sel idx l) = fit_count1 l.
Proof. intros H. apply count1_perm, sel_perm, H. Qed.

Lemma filter_perm {A} (f : A -> bool) l l' : Permutation l l' -> Permutation (filter f l) (filter f l').
Proof.
  intros H. induction H as [|x l l' H IH|x y l|l l' l'' H1 IH1 H2 IH2]; simpl.
  - constructor.
  - destruct (f x); [constructor|]; exact IH.
  - destruct (f x), (f y); try reflexivity. apply perm_swap.
  - etransitivity; eassumption.
Qed.

Section Rows.
Variable X : Type.

Lemma train_rows_perm (xs xs' : list X) (L L' : list Z) :
  Permutation (combine xs L) (combine xs' L') ->
  Permutation (fit_train_rows X xs L) (fit_train_rows X xs' L').
Proof. intros H. unfold fit_train_rows. apply Permutation_map, filter_perm, H. Qed.

Lemma train_rows_sel idx (xs : list X) (L : list Z) :
  length xs = length L -> Permutation idx (seq 0 (length xs)) ->
  Permutation (fit_train_rows X (sel idx xs) (sel idx L)) (fit_train_rows X xs L).
Proof.
  intros Hl H. apply train_rows_perm. rewrite <- sel_combine by exact Hl.
  apply sel_perm. rewrite combine_length, <- Hl, Nat.min_id. exact H.
Qed.

(* the pairs handed to estimator.fit: the rows of [idx] whose label is not 0, in that order, each
   with its own features and its own label *)
Definition handed_ok (xs : list X) (L : list Z) (idx : list nat) (tr : list (X * bool)) : Prop :=
  Forall2 (fun r p => nth_error xs r = Some (fst p) /\ snd p = (nth r L 0 =? 1))
          (filter (fun r => negb (nth r L 0 =? 0)) idx) tr.

Lemma handed_spec idx (xs : list X) (L : list Z) :
  length xs = length L -> in_range (length xs) idx ->
  handed_ok xs L idx (fit_train_rows X (sel idx xs) (sel idx L)).
Proof.
  intros Hl H. unfold handed_ok. induction idx as [|i idx IH]; [constructor|].
  inversion H as [|? ? Hi Hr]; subst.
  destruct (nth_error_some_lt xs i Hi) as [x Ex].
  assert (i < length L)%nat as Hi' by lia.
  destruct (nth_error_some_lt L i Hi') as [v Ev].
  rewrite (sel_cons _ _ _ _ Ex), (sel_cons _ _ _ _ Ev).
  assert (nth i L 0 = v) as En by (apply nth_error_nth; exact Ev).
  unfold fit_train_rows. cbn [combine filter snd fst]. rewrite En.
  destruct (v =? 0) eqn:E0; cbn [negb map].
  - apply IH. exact Hr.
  - constructor; [|apply IH; exact Hr]. cbn [fst snd]. rewrite En. split; [exact Ex|reflexivity].
Qed.
End Rows.

(* ====================== more selection lemmas ====================== *)
Lemma nth_sel {A} idx (l : list A) j d :
  in_range (length l) idx -> (j < length idx)%nat -> nth j (sel idx l) d = nth (nth j idx 0%nat) l d.
Proof.
  intros H Hj. pose proof (nth_error_sel idx l j H) as E.
  rewrite (nth_error_nth' idx 0%nat Hj) in E.
  assert (nth j idx 0%nat < length l)%nat as Hb.
  { rewrite Forall_forall in H. apply H. apply nth_In. exact Hj. }
  rewrite (nth_error_nth' l d Hb) in E. apply nth_error_nth. exact E.
Qed.

Lemma Forall2_of_nth {A B} (P : A -> B -> Prop) l l' d d' :
  length l = length l' -> (forall j, (j < length l)%nat -> P (nth j l d) (nth j l' d')) -> Forall2 P l l'.
Proof.
  revert l'. induction l as [|x l IH]; intros [|y l'] Hl H; simpl in Hl; try lia; constructor.
  - apply (H 0%nat). simpl. lia.
  - apply IH; [lia|]. intros j Hj. apply (H (S j)). simpl. lia.
Qed.

(* ====================== labels follow the rows when rows are permuted ====================== *)
Lemma label_map_qeq thr (qs qs' : list Q) (tg : list bool) :
  Forall2 Qeq qs qs' ->
  map (fun qt => tdc_label thr (fst qt) (snd qt)) (combine qs tg)
  = map (fun qt => tdc_label thr (fst qt) (snd qt)) (combine qs' tg).
Proof.
  intros H. revert tg. induction H as [|q q' qs qs' Hq H IH]; intros tg; [reflexivity|].
  destruct tg as [|t tg]; [reflexivity|]. cbn [combine map fst snd]. rewrite IH. f_equal.
  unfold tdc_label. rewrite Hq. reflexivity.
Qed.

Lemma update_labels_sel desc pi sc tg thr :
  Permutation pi (seq 0 (length sc)) -> length tg = length sc ->
  update_labels desc (sel pi sc) (sel pi tg) thr
  = match update_labels desc sc tg thr with Ok l => Ok (sel pi l) | Err e => Err e end.
Proof.
  intros Hp Hl.
  pose proof (perm_in_range _ _ Hp) as Hr. pose proof (perm_length _ _ Hp) as Hpl.
  assert (in_range (length tg) pi) as Hr' by (rewrite Hl; exact Hr).
  assert (length (sel pi sc) = length sc) as L1 by (rewrite sel_length by exact Hr; exact Hpl).
  assert (length (sel pi tg) = length sc) as L2 by (rewrite sel_length by exact Hr'; exact Hpl).
  unfold update_labels. rewrite L1, L2, Hl, Nat.eqb_refl. cbn [negb]. f_equal.
  destruct (tdc_core_spec desc sc tg (eq_sym Hl)) as [Q1 S1].
  destruct (tdc_core_spec desc (sel pi sc) (sel pi tg) (eq_trans L1 (eq_sym L2))) as [Q2 S2].
  rewrite sel_map, sel_combine by (rewrite Q1; symmetry; exact Hl).
  apply label_map_qeq.
  apply (Forall2_of_nth _ _ _ 1%Q 1%Q).
  - rewrite Q2, L1, sel_length by (rewrite Q1; exact Hr). symmetry. exact Hpl.
  - intros j Hj. rewrite Q2, L1 in Hj.
    assert (j < length pi)%nat as Hj' by lia.
    rewrite (nth_sel pi (tdc_core desc sc tg)) by (rewrite ?Q1; assumption).
    assert (nth j pi 0%nat < length sc)%nat as Hb.
    { rewrite Forall_forall in Hr. apply Hr. apply nth_In. exact Hj'. }
    eapply is_qvalue_unique.
    + apply S2. rewrite L1. exact Hj.
    + rewrite (nth_sel pi sc) by assumption.
      eapply is_qvalue_perm; [|apply S1; exact Hb].
      rewrite <- sel_combine by (symmetry; exact Hl). symmetry. apply sel_perm.
      rewrite combine_length, Hl, Nat.min_id. exact Hp.
Qed.

Lemma update_labels_length desc sc tg thr l : update_labels desc sc tg thr = Ok l -> length l = length sc.
Proof. intros H. apply (update_labels_spec _ _ _ _ _ H). Qed.

(* ====================== the loop against a loop without index bookkeeping ====================== *)
(* declarative content of one label update *)
Definition labels_ok (desc : bool) (scores : list Z) (targets : list bool) (thr : Q) (L : list Z) : Prop :=
  length L = length scores /\
  forall r, (r < length scores)%nat ->
    exists q, is_qvalue desc (combine scores targets) (nth r scores 0) q /\
      (nth r L 0 = 1 <-> nth r targets false = true /\ (q <= thr)%Q) /\
      (nth r L 0 = -1 <-> nth r targets false = false) /\
      (nth r L 0 = 0 <-> nth r targets false = true /\ ~ (q <= thr)%Q).

Lemma update_labels_ok desc sc tg thr l : update_labels desc sc tg thr = Ok l -> labels_ok desc sc tg thr l.
Proof.
  intros H. destruct (update_labels_spec _ _ _ _ _ H) as [Hl Hs]. split; [exact Hl|].
  intros r Hr. specialize (Hs r Hr). cbv zeta in Hs. eexists. exact Hs.
Qed.

Section Loop.
Variables (X G : Type).
Variable learn : list (X * bool) -> G.
Variable score : G -> X -> Z.

Lemma get_scores_ok k g xs : fit_get_scores X G score k g xs = Ok (map (score g) xs).
Proof. destruct k; reflexivity. Qed.

(* the rows handed to estimator.fit when the table order is [ord] and the labels are [L] *)
Definition handed (ord : list nat) (xs : list X) (L : list Z) : list (X * bool) :=
  fit_train_rows X (sel ord xs) (sel ord L).

(* the loop in table order: no shuffling, no un-shuffling; [ord] only fixes the order of the
   training list.  Returns the label vectors in force at each iteration. *)
Fixpoint ref_loop (iters : nat) (ord : list nat) (xs : list X) (targets : list bool) (thr : Q)
         (L : list Z) (last : option (G * Z)) : list (list Z) * result (option (G * Z)) :=
  match iters with
  | O => ([], Ok last)
  | S it =>
      let g := learn (handed ord xs L) in
      match update_labels true (map (score g) xs) targets thr with
      | Err e => ([L], Err e)
      | Ok L' =>
          if fit_count1 L' =? 0 then ([L], Err ERuntime)
          else let (t, r) := ref_loop it ord xs targets thr L' (Some (g, fit_count1 L')) in (L :: t, r)
      end
  end.

Definition ref_final (start : list Z) (fp : Z) (ov : bool) (r : result (option (G * Z))) : result G :=
  match r with
  | Err e => Err e
  | Ok None => Err EIndex
  | Ok (Some (g, np)) =>
      if (np <? fit_count1 start) || (np <? fp) then (if ov then Ok g else Err ERuntime) else Ok g
  end.

Definition ord_of (sigma : list nat) (shuffle : bool) (n : nat) : list nat :=
  if shuffle then sigma else seq 0 n.

Lemma ord_of_perm sigma shuffle n : Permutation sigma (seq 0 n) -> Permutation (ord_of sigma shuffle n) (seq 0 n).
Proof. intros H. destruct shuffle; [exact H|reflexivity]. Qed.

Lemma loop_ref iters : forall k sigma xs targets thr L last,
  Permutation sigma (seq 0 (length xs)) -> length L = length xs ->
  fit_loop X G learn score iters k (sel sigma xs) sigma (fit_argsort sigma) targets thr (sel sigma L) last
  = (let (Ls, r) := ref_loop iters sigma xs targets thr L last in (map (handed sigma xs) Ls, r)).
Proof.
  induction iters as [|it IH]; intros k sigma xs targets thr L last Hp HL; [reflexivity|].
  pose proof (perm_in_range _ _ Hp) as Hr. pose proof (perm_length _ _ Hp) as Hpl.
  cbn [fit_loop ref_loop]. fold (handed sigma xs L).
  set (g := learn (handed sigma xs L)).
  unfold fit_step.
  rewrite get_scores_ok.
  rewrite <- sel_map.
  rewrite gather_sel
    by (rewrite sel_length by (rewrite map_length; exact Hr); rewrite Hpl; apply argsort_in_range; exact Hp).
  rewrite sel_argsort by (rewrite map_length; exact Hp).
  destruct (update_labels true (map (score g) xs) targets thr) as [labs|e] eqn:EU; [|reflexivity].
  assert (length labs = length xs) as Hll.
  { rewrite (update_labels_length _ _ _ _ _ EU). apply map_length. }
  rewrite gather_sel by (rewrite Hll; exact Hr).
  rewrite count1_sel by (rewrite Hll; exact Hp).
  destruct (fit_count1 labs =? 0); [reflexivity|].
  rewrite (IH k sigma xs targets thr labs _ Hp Hll).
  destruct (ref_loop it sigma xs targets thr labs (Some (g, fit_count1 labs))) as [t r]. reflexivity.
Qed.

Theorem train_ref k xs targets start fp sigma shuffle thr mi ov :
  Permutation sigma (seq 0 (length xs)) -> length start = length xs ->
  fit_train X G learn score k xs targets start fp sigma shuffle thr mi ov
  = (let ord := ord_of sigma shuffle (length xs) in
     let (Ls, r) := ref_loop mi ord xs targets thr start None in
     (map (handed ord xs) Ls, ref_final start fp ov r)).
Proof.
  intros Hp HL. unfold fit_train. cbv zeta.
  assert (forall ord, Permutation ord (seq 0 (length xs)) ->
            fit_train_core X G learn score k (sel ord xs) (sel ord start) ord targets fp thr mi ov
            = (let (Ls, r) := ref_loop mi ord xs targets thr start None in
               (map (handed ord xs) Ls, ref_final start fp ov r))) as Core.
  { intros ord Ho. unfold fit_train_core.
    rewrite (loop_ref mi k ord xs targets thr start None Ho HL).
    destruct (ref_loop mi ord xs targets thr start None) as [Ls r].
    rewrite count1_sel by (rewrite HL; exact Ho). reflexivity. }
  destruct shuffle; cbn [ord_of].
  - rewrite !gather_sel by (rewrite ?HL; apply perm_in_range; exact Hp). apply Core. exact Hp.
  - rewrite HL. specialize (Core (seq 0 (length xs)) (Permutation_refl _)).
    assert (sel (seq 0 (length xs)) start = start) as E by (rewrite <- HL; apply sel_seq).
    rewrite sel_seq, E in Core. exact Core.
Qed.

(* ---------- what the label history satisfies ---------- *)
Lemma ref_loop_hist iters : forall ord xs targets thr L last Ls r,
  ref_loop iters ord xs targets thr L last = (Ls, r) -> length L = length xs ->
  (forall L0, nth_error Ls 0 = Some L0 -> L0 = L) /\
  (forall i Li, nth_error Ls i = Some Li ->
     length Li = length xs /\
     forall L', nth_error Ls (S i) = Some L' ->
       labels_ok true (map (score (learn (handed ord xs Li))) xs) targets thr L').
Proof.
  induction iters as [|it IH]; intros ord xs targets thr L last Ls r H HL.
  - cbn [ref_loop] in H. injection H as <- <-. split; [intros L0 E; discriminate|].
    intros i Li E. destruct i; discriminate.
  - cbn [ref_loop] in H.
    set (g := learn (handed ord xs L)) in *.
    destruct (update_labels true (map (score g) xs) targets thr) as [labs|e] eqn:EU.
    2:{ injection H as <- <-. split; [intros L0 E; injection E as <-; reflexivity|].
        intros [|i] Li E; [|destruct i; discriminate]. injection E as <-. split; [exact HL|].
        intros L' E'. discriminate. }
    destruct (fit_count1 labs =? 0).
    { injection H as <- <-. split; [intros L0 E; injection E as <-; reflexivity|].
      intros [|i] Li E; [|destruct i; discriminate]. injection E as <-. split; [exact HL|].
      intros L' E'. discriminate. }
    destruct (ref_loop it ord xs targets thr labs (Some (g, fit_count1 labs))) as [t r'] eqn:ER.
    injection H as <- <-.
    assert (length labs = length xs) as Hll.
    { rewrite (update_labels_length _ _ _ _ _ EU). apply map_length. }
    destruct (IH _ _ _ _ _ _ _ _ ER Hll) as [H0 HS].
    split; [intros L0 E; injection E as <-; reflexivity|].
    intros [|i] Li E.
    + injection E as <-. split; [exact HL|]. intros L' E'. cbn [nth_error] in E'.
      rewrite (H0 _ E'). apply update_labels_ok. exact EU.
    + cbn [nth_error] in E. destruct (HS i Li E) as [Hlen Hnext]. split; [exact Hlen|].
      intros L' E'. apply Hnext. exact E'.
Qed.

(* ---------- C12_aligned ---------- *)
Theorem fit_aligned k xs targets start fp sigma shuffle thr mi ov trace res :
  length start = length xs -> Permutation sigma (seq 0 (length xs)) ->
  fit_train X G learn score k xs targets start fp sigma shuffle thr mi ov = (trace, res) ->
  exists Ls : list (list Z),
    length Ls = length trace /\
    (forall L, nth_error Ls 0 = Some L -> L = start) /\
    forall i L tr, nth_error Ls i = Some L -> nth_error trace i = Some tr ->
      length L = length xs /\
      handed_ok X xs L (if shuffle then sigma else seq 0 (length xs)) tr /\
      forall L', nth_error Ls (S i) = Some L' ->
        labels_ok true (map (score (learn tr)) xs) targets thr L'.
Proof.
  intros HL Hp H. rewrite (train_ref _ _ _ _ _ _ _ _ _ _ Hp HL) in H. cbv zeta in H.
  fold (ord_of sigma shuffle (length xs)).
  set (ord := ord_of sigma shuffle (length xs)) in *.
  pose proof (ord_of_perm sigma shuffle _ Hp) as Ho. fold ord in Ho.
  destruct (ref_loop mi ord xs targets thr start None) as [Ls r] eqn:ER.
  injection H as <- <-. exists Ls.
  destruct (ref_loop_hist _ _ _ _ _ _ _ _ _ ER HL) as [H0 HS].
  split; [rewrite map_length; reflexivity|]. split; [exact H0|].
  intros i L tr EL Etr. rewrite (map_nth_error _ _ _ EL) in Etr. injection Etr as <-.
  destruct (HS i L EL) as [Hlen Hnext]. split; [exact Hlen|]. split.
  - apply handed_spec; [symmetry; exact Hlen | apply perm_in_range; exact Ho].
  - exact Hnext.
Qed.

(* ---------- row order: permuting the table = composing the shuffle ---------- *)
Lemma ref_loop_rows iters : forall pi ord xs targets thr L last,
  Permutation pi (seq 0 (length xs)) -> Permutation ord (seq 0 (length xs)) ->
  length L = length xs -> length targets = length xs ->
  ref_loop iters ord (sel pi xs) (sel pi targets) thr (sel pi L) last
  = (let (Ls, r) := ref_loop iters (sel ord pi) xs targets thr L last in (map (sel pi) Ls, r)).
Proof.
  induction iters as [|it IH]; intros pi ord xs targets thr L last Hp Ho HL HT; [reflexivity|].
  pose proof (perm_in_range _ _ Hp) as Hr. pose proof (perm_length _ _ Hp) as Hpl.
  pose proof (perm_in_range _ _ Ho) as Hro.
  cbn [ref_loop]. unfold handed.
  rewrite !sel_sel by (rewrite ?Hpl, ?HL; assumption).
  set (g := learn (fit_train_rows X (sel (sel ord pi) xs) (sel (sel ord pi) L))).
  rewrite <- sel_map.
  rewrite update_labels_sel by (rewrite map_length; assumption).
  destruct (update_labels true (map (score g) xs) targets thr) as [labs|e] eqn:EU; [|reflexivity].
  assert (length labs = length xs) as Hll.
  { rewrite (update_labels_length _ _ _ _ _ EU). apply map_length. }
  rewrite count1_sel by (rewrite Hll; exact Hp).
  destruct (fit_count1 labs =? 0); [reflexivity|].
  rewrite (IH pi ord xs targets thr labs _ Hp Ho Hll HT).
  destruct (ref_loop it (sel ord pi) xs targets thr labs (Some (g, fit_count1 labs))) as [t r]. reflexivity.
Qed.

(* ---------- order-independent learners ---------- *)
Section Invariant.
Hypothesis learn_inv : forall l l', Permutation l l' -> learn l = learn l'.

Lemma handed_perm ord xs L :
  Permutation ord (seq 0 (length xs)) -> length L = length xs ->
  Permutation (handed ord xs L) (fit_train_rows X xs L).
Proof. intros Ho HL. apply train_rows_sel; [symmetry; exact HL|exact Ho]. Qed.

Lemma ref_loop_ord iters : forall ord1 ord2 xs targets thr L last,
  Permutation ord1 (seq 0 (length xs)) -> Permutation ord2 (seq 0 (length xs)) -> length L = length xs ->
  ref_loop iters ord1 xs targets thr L last = ref_loop iters ord2 xs targets thr L last.
Proof.
  induction iters as [|it IH]; intros ord1 ord2 xs targets thr L last H1 H2 HL; [reflexivity|].
  cbn [ref_loop].
  assert (learn (handed ord1 xs L) = learn (handed ord2 xs L)) as ->.
  { apply learn_inv. rewrite (handed_perm _ _ _ H1 HL), (handed_perm _ _ _ H2 HL). reflexivity. }
  set (g := learn (handed ord2 xs L)).
  destruct (update_labels true (map (score g) xs) targets thr) as [labs|e] eqn:EU; [|reflexivity].
  assert (length labs = length xs) as Hll.
  { rewrite (update_labels_length _ _ _ _ _ EU). apply map_length. }
  destruct (fit_count1 labs =? 0); [reflexivity|].
  rewrite (IH ord1 ord2 xs targets thr labs _ H1 H2 Hll). reflexivity.
Qed.

Lemma ref_loop_lengths iters : forall ord xs targets thr L last Ls r,
  ref_loop iters ord xs targets thr L last = (Ls, r) -> length L = length xs ->
  Forall (fun L0 => length L0 = length xs) Ls.
Proof.
  intros ord xs targets thr L last Ls r H HL.
  destruct (ref_loop_hist _ _ _ _ _ _ _ _ _ H HL) as [_ HS].
  apply Forall_forall. intros L0 Hin. apply In_nth_error in Hin. destruct Hin as [i Ei].
  apply (HS i L0 Ei).
Qed.

(* C12_order_invariant on the generic loop: rows permuted by [pi], any two shuffles, shuffle on or off *)
Theorem fit_order_invariant k xs targets start fp pi sigma1 sh1 sigma2 sh2 thr mi ov :
  length start = length xs -> length targets = length xs ->
  Permutation pi (seq 0 (length xs)) ->
  Permutation sigma1 (seq 0 (length xs)) -> Permutation sigma2 (seq 0 (length xs)) ->
  forall tr1 r1 tr2 r2,
  fit_train X G learn score k (sel pi xs) (sel pi targets) (sel pi start) fp sigma1 sh1 thr mi ov = (tr1, r1) ->
  fit_train X G learn score k xs targets start fp sigma2 sh2 thr mi ov = (tr2, r2) ->
  r1 = r2 /\ Forall2 (@Permutation (X * bool)) tr1 tr2.
Proof.
  intros HL HT Hp H1 H2 tr1 r1 tr2 r2 E1 E2.
  pose proof (perm_in_range _ _ Hp) as Hr. pose proof (perm_length _ _ Hp) as Hpl.
  assert (length (sel pi xs) = length xs) as Lx by (rewrite sel_length by exact Hr; exact Hpl).
  assert (length (sel pi start) = length xs) as Ls0 by (rewrite sel_length by (rewrite HL; exact Hr); exact Hpl).
  rewrite train_ref in E1 by (rewrite ?Lx; assumption).
  rewrite train_ref in E2 by assumption.
  cbv zeta in E1, E2. rewrite Lx in E1.
  set (o1 := ord_of sigma1 sh1 (length xs)) in *. set (o2 := ord_of sigma2 sh2 (length xs)) in *.
  assert (Permutation o1 (seq 0 (length xs))) as Ho1 by (apply ord_of_perm; exact H1).
  assert (Permutation o2 (seq 0 (length xs))) as Ho2 by (apply ord_of_perm; exact H2).
  rewrite (ref_loop_rows mi pi o1 xs targets thr start None Hp Ho1 HL HT) in E1.
  assert (Permutation (sel o1 pi) (seq 0 (length xs))) as Ho1' by (apply sel_perm_idx; assumption).
  rewrite (ref_loop_ord mi (sel o1 pi) o2 xs targets thr start None Ho1' Ho2 HL) in E1.
  destruct (ref_loop mi o2 xs targets thr start None) as [Ls r] eqn:ER.
  pose proof (ref_loop_lengths _ _ _ _ _ _ _ _ _ ER HL) as Hlens.
  injection E1 as <- <-. injection E2 as <- <-. split.
  - unfold ref_final. destruct r as [[[g np]|]|e]; try reflexivity.
    rewrite count1_sel by (rewrite HL; exact Hp). reflexivity.
  - rewrite map_map. clear ER. induction Ls as [|L0 Ls IH]; [constructor|].
    inversion Hlens as [|? ? HL0 Hrest]; subst. constructor; [|apply IH; exact Hrest].
    unfold handed. rewrite !sel_sel by (rewrite ?Hpl, ?HL0; try assumption; apply perm_in_range; assumption).
    fold (handed (sel o1 pi) xs L0). fold (handed o2 xs L0).
    rewrite (handed_perm _ _ _ Ho1' HL0), (handed_perm _ _ _ Ho2 HL0). reflexivity.
Qed.
End Invariant.
End Loop.

(* ====================== any reordering is a selection by an index permutation ====================== *)
Lemma perm_sel {A} (l' l : list A) :
  Permutation l' l -> exists pi, Permutation pi (seq 0 (length l)) /\ l' = sel pi l.
Proof.
  intros H. induction H as [|x l' l H IH|x y l|l' lm l H1 IH1 H2 IH2].
  - exists []. split; [constructor|reflexivity].
  - destruct IH as (pi & Hp & ->). exists (0%nat :: map S pi). split.
    + cbn [length seq]. constructor. rewrite <- seq_shift. apply Permutation_map. exact Hp.
    + rewrite (sel_cons 0%nat _ (x :: l) x eq_refl), sel_shift. reflexivity.
  - exists (1%nat :: 0%nat :: map S (map S (seq 0 (length l)))). split.
    + cbn [length seq]. rewrite <- !seq_shift. apply perm_swap.
    + rewrite (sel_cons 1%nat _ (x :: y :: l) y eq_refl), (sel_cons 0%nat _ (x :: y :: l) x eq_refl).
      rewrite !sel_shift, sel_seq. reflexivity.
  - destruct IH1 as (p1 & Hp1 & ->). destruct IH2 as (p2 & Hp2 & ->).
    assert (length (sel p2 l) = length l) as E.
    { rewrite sel_length by (apply perm_in_range; exact Hp2). apply perm_length. exact Hp2. }
    rewrite E in Hp1. exists (sel p1 p2). split.
    + apply sel_perm_idx; assumption.
    + apply sel_sel; [rewrite (perm_length _ _ Hp2)|]; apply perm_in_range; assumption.
Qed.

Lemma map_snd_combine {A B} (a : list A) (b : list B) : length a = length b -> map snd (combine a b) = b.
Proof.
  revert b; induction a as [|x a IH]; intros [|y b] H; simpl in *; try lia; [reflexivity|].
  rewrite IH by lia. reflexivity.
Qed.

Lemma combine_inj {A B} (a a' : list A) (b b' : list B) :
  length a = length b -> length a' = length b' -> combine a b = combine a' b' -> a = a' /\ b = b'.
Proof.
  intros H H' E. split.
  - rewrite <- (map_fst_combine a b H), <- (map_fst_combine a' b' H'), E. reflexivity.
  - rewrite <- (map_snd_combine a b H), <- (map_snd_combine a' b' H'), E. reflexivity.
Qed.

(* ====================== prediction: columns are taken by stored name ====================== *)
Lemma lookup_cons s y names c0 cols :
  fit_lookup s (y :: names) (c0 :: cols) = if str_eqb s y then Some c0 else fit_lookup s names cols.
Proof.
  unfold fit_lookup. cbn [index_str]. destruct (str_eqb s y); [reflexivity|].
  destruct (index_str s names); reflexivity.
Qed.

Lemma lookup_in s names cols c :
  NoDup names -> length names = length cols ->
  (fit_lookup s names cols = Some c <-> In (s, c) (combine names cols)).
Proof.
  revert cols. induction names as [|y names IH]; intros [|c0 cols] Hnd Hl; simpl in Hl; try lia.
  - unfold fit_lookup. simpl. split; [discriminate|intros []].
  - inversion Hnd as [|? ? Hy Hnd']; subst. rewrite lookup_cons. cbn [combine In].
    destruct (str_eqb s y) eqn:E.
    + apply b_str_eqb_eq in E. subst y. split.
      * intros H. injection H as <-. left. reflexivity.
      * intros [H|H]; [injection H as <-; reflexivity|].
        exfalso. apply Hy. eapply in_combine_l. exact H.
    + rewrite (IH cols Hnd') by lia. split; [intros H; right; exact H|].
      intros [H|H]; [|exact H]. injection H as <- <-. rewrite b_str_eqb_refl in E. discriminate.
Qed.

Lemma lookup_none s names cols :
  length names = length cols -> (fit_lookup s names cols = None <-> ~ In s names).
Proof.
  revert cols. induction names as [|y names IH]; intros [|c0 cols] Hl; simpl in Hl; try lia.
  - unfold fit_lookup. simpl. split; [intros _ []|reflexivity].
  - rewrite lookup_cons. destruct (str_eqb s y) eqn:E.
    + apply b_str_eqb_eq in E. subst y. split; [discriminate|]. intros H. exfalso. apply H. left. reflexivity.
    + rewrite (IH cols) by lia. cbn [In]. split.
      * intros H [H'|H']; [subst y; rewrite b_str_eqb_refl in E; discriminate|exact (H H')].
      * intros H H'. apply H. right. exact H'.
Qed.

Lemma assoc_unique {A B} (l : list (A * B)) s c c' :
  NoDup (map fst l) -> In (s, c) l -> In (s, c') l -> c = c'.
Proof.
  induction l as [|[a b] l IH]; intros Hnd H H'; [destruct H|].
  cbn [map fst] in Hnd. inversion Hnd as [|? ? Ha Hnd']; subst.
  destruct H as [H|H], H' as [H'|H'].
  - congruence.
  - injection H as -> ->. exfalso. apply Ha. apply in_map_iff. exists (s, c'). split; [reflexivity|exact H'].
  - injection H' as -> ->. exfalso. apply Ha. apply in_map_iff. exists (s, c). split; [reflexivity|exact H].
  - apply IH; assumption.
Qed.

Lemma forallb_ext_all {A} (f g : A -> bool) l : (forall x, f x = g x) -> forallb f l = forallb g l.
Proof. intros H. induction l as [|x l IH]; [reflexivity|]. simpl. rewrite H, IH. reflexivity. Qed.

Section ByName.
Variables (names names' : list str) (cols cols' : list (list Z)).
Hypothesis Hnd : NoDup names.
Hypothesis Hl : length names = length cols.
Hypothesis Hl' : length names' = length cols'.
Hypothesis Hperm : Permutation (combine names cols) (combine names' cols').

Lemma byname_names : Permutation names names'.
Proof.
  rewrite <- (map_fst_combine names cols Hl), <- (map_fst_combine names' cols' Hl').
  apply Permutation_map. exact Hperm.
Qed.

Lemma byname_lookup s : fit_lookup s names' cols' = fit_lookup s names cols.
Proof.
  pose proof byname_names as Hn.
  assert (NoDup names') as Hnd' by (eapply Permutation_NoDup; eassumption).
  destruct (fit_lookup s names cols) as [c|] eqn:E.
  - apply (lookup_in _ _ _ _ Hnd' Hl'). apply (Permutation_in _ Hperm).
    apply (lookup_in _ _ _ _ Hnd Hl). exact E.
  - apply (lookup_none _ _ _ Hl'). apply (lookup_none _ _ _ Hl) in E.
    intros H. apply E. apply (Permutation_in _ (Permutation_sym Hn)). exact H.
Qed.

Lemma byname_select stored : fit_select stored names' cols' = fit_select stored names cols.
Proof.
  induction stored as [|s r IH]; [reflexivity|]. cbn [fit_select]. rewrite byname_lookup, IH. reflexivity.
Qed.

Lemma byname_subset stored :
  fit_subset names' stored = fit_subset names stored /\ fit_subset stored names' = fit_subset stored names.
Proof.
  pose proof byname_names as Hn. unfold fit_subset. split.
  - destruct (forallb (fun x => mem_str x stored) names) eqn:E.
    + apply forallb_forall. intros x Hx. rewrite forallb_forall in E. apply E.
      apply (Permutation_in _ (Permutation_sym Hn)). exact Hx.
    + destruct (forallb (fun x => mem_str x stored) names') eqn:E'; [|reflexivity].
      rewrite <- E. symmetry. apply forallb_forall. intros x Hx. rewrite forallb_forall in E'. apply E'.
      apply (Permutation_in _ Hn). exact Hx.
  - apply forallb_ext_all. intros x.
    destruct (mem_str x names) eqn:E.
    + apply b_mem_str_in. apply (Permutation_in _ Hn). apply b_mem_str_in. exact E.
    + apply b_mem_str_notin. apply b_mem_str_notin in E. intros H. apply E.
      apply (Permutation_in _ (Permutation_sym Hn)). exact H.
Qed.
End ByName.

Section Decision.
Variable G : Type.
Variable score : G -> list Z -> Z.

(* C12_by_name: the table may present its feature columns in any order *)
Theorem decision_by_name trained stored k g names cols names' cols' n :
  NoDup names -> length names = length cols -> length names' = length cols' ->
  Permutation (combine names cols) (combine names' cols') ->
  fit_decision G score trained stored k g names' cols' n
  = fit_decision G score trained stored k g names cols n.
Proof.
  intros Hnd Hl Hl' Hp. unfold fit_decision.
  destruct (byname_subset names names' cols cols' Hl Hl' Hp stored) as [-> ->].
  rewrite (byname_select names names' cols cols' Hnd Hl Hl' Hp). reflexivity.
Qed.

(* a table with another set of feature names is rejected *)
Theorem decision_wrong_set stored k g names cols n :
  (exists x, (In x names /\ ~ In x stored) \/ (In x stored /\ ~ In x names)) ->
  fit_decision G score true stored k g names cols n = Err EValue.
Proof.
  intros (x & H). unfold fit_decision. cbn [negb].
  assert (fit_subset names stored && fit_subset stored names = false) as ->; [|reflexivity].
  apply andb_false_iff. unfold fit_subset. destruct H as [[Hin Hnot]|[Hin Hnot]]; [left|right].
  - destruct (forallb (fun y => mem_str y stored) names) eqn:E; [|reflexivity].
    rewrite forallb_forall in E. specialize (E x Hin). apply b_mem_str_in in E. contradiction.
  - destruct (forallb (fun y => mem_str y names) stored) eqn:E; [|reflexivity].
    rewrite forallb_forall in E. specialize (E x Hin). apply b_mem_str_in in E. contradiction.
Qed.

Lemma select_spec stored names cols :
  NoDup names -> length names = length cols -> (forall s, In s stored -> In s names) ->
  exists selc, fit_select stored names cols = Some selc /\
               Forall2 (fun s c => In (s, c) (combine names cols)) stored selc.
Proof.
  intros Hnd Hl. induction stored as [|s r IH]; intros Hsub.
  - exists []. split; [reflexivity|constructor].
  - destruct IH as (t & Et & Ft); [intros s' Hs'; apply Hsub; right; exact Hs'|].
    destruct (fit_lookup s names cols) as [c|] eqn:E.
    + exists (c :: t). cbn [fit_select]. rewrite E, Et. split; [reflexivity|].
      constructor; [apply (lookup_in _ _ _ _ Hnd Hl); exact E|exact Ft].
    + apply (lookup_none _ _ _ Hl) in E. exfalso. apply E. apply Hsub. left. reflexivity.
Qed.

(* with the right feature set the estimator sees, for every stored name in stored order, the
   column carrying that name *)
Theorem decision_selects stored k g names cols n :
  NoDup names -> length names = length cols ->
  (forall s, In s stored <-> In s names) ->
  exists selc, Forall2 (fun s c => In (s, c) (combine names cols)) stored selc /\
    fit_decision G score true stored k g names cols n
    = match fit_rows selc n with
      | Ok rows => fit_get_scores (list Z) G score k g rows
      | Err e => Err e
      end.
Proof.
  intros Hnd Hl Hset.
  destruct (select_spec stored names cols Hnd Hl (fun s H => proj1 (Hset s) H)) as (selc & Es & Fs).
  exists selc. split; [exact Fs|]. unfold fit_decision. cbn [negb].
  assert (fit_subset names stored && fit_subset stored names = true) as ->.
  { apply andb_true_iff. unfold fit_subset. split; apply forallb_forall; intros x Hx; apply b_mem_str_in; apply Hset; exact Hx. }
  cbn [negb]. rewrite Es. reflexivity.
Qed.
End Decision.

(* ====================== feature tables ====================== *)
Section MapM.
Context {A B : Type}.
Implicit Types (f g : A -> result B).

Lemma mapM_length f l r : fit_mapM f l = Ok r -> length r = length l.
Proof.
  revert r. induction l as [|a l IH]; intros r H; cbn [fit_mapM] in H.
  - injection H as <-. reflexivity.
  - destruct (f a) as [b|e]; [|discriminate]. destruct (fit_mapM f l) as [t|e]; [|discriminate].
    injection H as <-. simpl. rewrite (IH t eq_refl). reflexivity.
Qed.

Lemma mapM_nth f l r i a :
  fit_mapM f l = Ok r -> nth_error l i = Some a -> exists b, f a = Ok b /\ nth_error r i = Some b.
Proof.
  revert r i. induction l as [|a0 l IH]; intros r i H Hi; [destruct i; discriminate|].
  cbn [fit_mapM] in H. destruct (f a0) as [b0|e] eqn:E0; [|discriminate].
  destruct (fit_mapM f l) as [t|e]; [|discriminate]. injection H as <-.
  destruct i; cbn [nth_error] in *.
  - injection Hi as <-. exists b0. split; [exact E0|reflexivity].
  - apply (IH t i eq_refl Hi).
Qed.

Lemma mapM_ext f g l : (forall a, In a l -> f a = g a) -> fit_mapM f l = fit_mapM g l.
Proof.
  induction l as [|a l IH]; intros H; [reflexivity|]. cbn [fit_mapM].
  rewrite (H a (or_introl eq_refl)), IH; [reflexivity|]. intros a' Ha'. apply H. right. exact Ha'.
Qed.

Lemma mapM_ok_map f (h : A -> B) l : (forall a, In a l -> f a = Ok (h a)) -> fit_mapM f l = Ok (map h l).
Proof.
  induction l as [|a l IH]; intros H; [reflexivity|]. cbn [fit_mapM map].
  rewrite (H a (or_introl eq_refl)), IH; [reflexivity|]. intros a' Ha'. apply H. right. exact Ha'.
Qed.
End MapM.

Lemma mapM_map {A B C} (f : B -> result C) (h : A -> B) l :
  fit_mapM f (map h l) = fit_mapM (fun a => f (h a)) l.
Proof. induction l as [|a l IH]; [reflexivity|]. cbn [fit_mapM map]. rewrite IH. reflexivity. Qed.

Definition table_wf (n : nat) (cols : list (list Z)) : Prop := Forall (fun c => length c = n) cols.

Definition row_of (cols : list (list Z)) (i : nat) : list Z := map (fun c => nth i c 0) cols.

Lemma row_at_wf n i cols : table_wf n cols -> (i < n)%nat -> fit_row_at i cols = Some (row_of cols i).
Proof.
  intros H Hi. induction H as [|c cols Hc H IH]; [reflexivity|]. cbn [fit_row_at row_of map].
  rewrite (nth_error_nth' c 0) by lia. fold (row_of cols i). rewrite IH. reflexivity.
Qed.

Lemma rows_wf n cols : table_wf n cols -> fit_rows cols n = Ok (map (row_of cols) (seq 0 n)).
Proof.
  intros H. unfold fit_rows. apply mapM_ok_map. intros i Hi. apply in_seq in Hi.
  rewrite (row_at_wf n) by (try assumption; lia). reflexivity.
Qed.

Lemma rows_length cols n rows : fit_rows cols n = Ok rows -> length rows = n.
Proof. intros H. unfold fit_rows in H. rewrite (mapM_length _ _ _ H). apply seq_length. Qed.

Lemma sel_seq_idx n pi : in_range n pi -> sel pi (seq 0 n) = pi.
Proof.
  induction pi as [|i pi IH]; intros H; [reflexivity|]. inversion H as [|? ? Hi Hr]; subst.
  assert (nth_error (seq 0 n) i = Some i) as E.
  { rewrite (nth_error_nth' _ 0%nat) by (rewrite seq_length; exact Hi). rewrite seq_nth by exact Hi. reflexivity. }
  rewrite (sel_cons _ _ _ _ E), (IH Hr). reflexivity.
Qed.

Lemma map_nth_seq {A} (l : list A) d : map (fun j => nth j l d) (seq 0 (length l)) = l.
Proof.
  induction l as [|x l IH]; [reflexivity|]. cbn [length seq map nth]. f_equal.
  rewrite <- seq_shift, map_map. exact IH.
Qed.

Lemma table_wf_sel n pi cols : Permutation pi (seq 0 n) -> table_wf n cols -> table_wf n (map (sel pi) cols).
Proof.
  intros Hp H. unfold table_wf in *. rewrite Forall_map. eapply Forall_impl; [|exact H].
  intros c Hc. cbv beta. rewrite sel_length by (rewrite Hc; apply perm_in_range; exact Hp). apply perm_length. exact Hp.
Qed.

Lemma rows_sel n pi cols :
  Permutation pi (seq 0 n) -> table_wf n cols ->
  fit_rows (map (sel pi) cols) n = Ok (sel pi (map (row_of cols) (seq 0 n))).
Proof.
  intros Hp H. pose proof (perm_in_range _ _ Hp) as Hr. pose proof (perm_length _ _ Hp) as Hpl.
  rewrite (rows_wf n) by (apply table_wf_sel; assumption). f_equal.
  rewrite sel_map, (sel_seq_idx _ _ Hr).
  rewrite <- (map_nth_seq pi 0%nat) at 2. rewrite Hpl, map_map.
  apply map_ext_in. intros j Hj. apply in_seq in Hj.
  unfold row_of. rewrite map_map. apply map_ext_in. intros c Hc.
  unfold table_wf in H. rewrite Forall_forall in H. specialize (H c Hc).
  apply nth_sel; [rewrite H; exact Hr|lia].
Qed.

(* ====================== starting labels follow the rows ====================== *)
Lemma update_labels_length_t desc sc tg thr l : update_labels desc sc tg thr = Ok l -> length l = length tg.
Proof.
  intros H. pose proof (update_labels_length _ _ _ _ _ H) as E. rewrite E.
  unfold update_labels in H. destruct (Nat.eqb_spec (length sc) (length tg)); [assumption|discriminate].
Qed.

Lemma existsb_perm {A} (f : A -> bool) l l' : Permutation l l' -> existsb f l = existsb f l'.
Proof.
  intros H. induction H as [|x l l' H IH|x y l|l l' l'' H1 IH1 H2 IH2]; simpl.
  - reflexivity.
  - rewrite IH. reflexivity.
  - destruct (f x), (f y); reflexivity.
  - congruence.
Qed.

Section StartSel.
Variables (n : nat) (pi : list nat) (cols : list (list Z)) (targets : list bool) (thr : Q).
Hypothesis Hp : Permutation pi (seq 0 n).
Hypothesis Hwf : table_wf n cols.
Hypothesis HT : length targets = n.

Lemma col_update_sel desc col :
  length col = n ->
  update_labels desc (sel pi col) (sel pi targets) thr
  = match update_labels desc col targets thr with Ok l => Ok (sel pi l) | Err e => Err e end.
Proof. intros Hc. apply update_labels_sel; rewrite Hc; assumption. Qed.

Lemma col_count_sel desc col :
  length col = n ->
  match update_labels desc (sel pi col) (sel pi targets) thr with Ok l => Ok (fit_count1 l) | Err e => Err e end
  = match update_labels desc col targets thr with Ok l => Ok (fit_count1 l) | Err e => Err e end.
Proof.
  intros Hc. rewrite (col_update_sel desc col Hc).
  destruct (update_labels desc col targets thr) as [l|e] eqn:E; [|reflexivity].
  rewrite count1_sel; [reflexivity|]. rewrite (update_labels_length_t _ _ _ _ _ E), HT. exact Hp.
Qed.

Lemma counts_sel desc :
  fit_counts desc (map (sel pi) cols) (sel pi targets) thr = fit_counts desc cols targets thr.
Proof.
  unfold fit_counts. rewrite mapM_map. apply mapM_ext. intros col Hc.
  apply col_count_sel. unfold table_wf in Hwf. rewrite Forall_forall in Hwf. apply Hwf. exact Hc.
Qed.

Definition bmap (b : nat * Z * list Z * bool) : nat * Z * list Z * bool :=
  match b with (i, c, l, d) => (i, c, sel pi l, d) end.

Lemma best_pass_sel desc best :
  fit_best_pass desc (map (sel pi) cols) (sel pi targets) thr (option_map bmap best)
  = match fit_best_pass desc cols targets thr best with
    | Ok o => Ok (option_map bmap o) | Err e => Err e end.
Proof.
  unfold fit_best_pass. rewrite counts_sel.
  destruct (fit_counts desc cols targets thr) as [counts|e]; [|reflexivity].
  destruct (fit_idxmax counts) as [i|]; [|reflexivity].
  destruct (nth_error counts i) as [c|]; [|reflexivity].
  rewrite nth_error_map. destruct (nth_error cols i) as [col|] eqn:Ec; cbn [option_map]; [|reflexivity].
  assert (length col = n) as Hc.
  { unfold table_wf in Hwf. rewrite Forall_forall in Hwf. apply Hwf. eapply nth_error_In. exact Ec. }
  assert (match option_map bmap best with Some (_, b, _, _) => b | None => 0 end
          = match best with Some (_, b, _, _) => b | None => 0 end) as ->.
  { destruct best as [[[[? ?] ?] ?]|]; reflexivity. }
  destruct (_ <? c); [|reflexivity].
  rewrite (col_update_sel desc col Hc).
  destruct (update_labels desc col targets thr); reflexivity.
Qed.

Lemma best_feature_sel :
  fit_best_feature (map (sel pi) cols) (sel pi targets) thr
  = match fit_best_feature cols targets thr with Ok b => Ok (bmap b) | Err e => Err e end.
Proof.
  unfold fit_best_feature.
  pose proof (best_pass_sel true None) as H1. cbn [option_map] in H1. rewrite H1.
  destruct (fit_best_pass true cols targets thr None) as [b1|e]; [|reflexivity].
  rewrite (best_pass_sel false b1).
  destruct (fit_best_pass false cols targets thr b1) as [[b|]|e]; reflexivity.
Qed.

Lemma direction_labels_sel col :
  length col = n ->
  fit_direction_labels (sel pi col) (sel pi targets) thr
  = match fit_direction_labels col targets thr with
    | Ok (l, c, d) => Ok (sel pi l, c, d) | Err e => Err e end.
Proof.
  intros Hc. unfold fit_direction_labels. rewrite !(col_update_sel _ col Hc).
  destruct (update_labels true col targets thr) as [d|e] eqn:Ed.
  2:{ destruct (update_labels false col targets thr); reflexivity. }
  destruct (update_labels false col targets thr) as [a|e] eqn:Ea; [|reflexivity].
  rewrite !count1_sel
    by (rewrite ?(update_labels_length_t _ _ _ _ _ Ed), ?(update_labels_length_t _ _ _ _ _ Ea), HT; exact Hp).
  destruct (fit_count1 a <=? fit_count1 d); reflexivity.
Qed.

Lemma lookup_sel name names :
  fit_lookup name names (map (sel pi) cols) = option_map (sel pi) (fit_lookup name names cols).
Proof.
  unfold fit_lookup. destruct (index_str name names) as [i|]; [|reflexivity]. apply nth_error_map.
Qed.
End StartSel.

Section Table.
Variable G : Type.
Variable learn : list (list Z * bool) -> G.
Variable score : G -> list Z -> Z.

Lemma starting_sel n pi k st names cols rows targets thr :
  Permutation pi (seq 0 n) -> table_wf n cols -> length targets = n -> length rows = n ->
  fit_starting G score k st names (map (sel pi) cols) (sel pi rows) (sel pi targets) thr
  = match fit_starting G score k st names cols rows targets thr with
    | Ok (l, c, d, b) => Ok (sel pi l, c, d, b)
    | Err e => Err e
    end.
Proof.
  intros Hp Hwf HT HR. unfold fit_starting.
  assert (forall l, length l = n -> fit_count1 (sel pi l) = fit_count1 l) as Hcnt.
  { intros l Hl. apply count1_sel. rewrite Hl. exact Hp. }
  destruct st as [|name|g0].
  - rewrite (best_feature_sel n pi cols targets thr Hp Hwf HT).
    destruct (fit_best_feature cols targets thr) as [[[[i c] l] d]|e] eqn:E; [|reflexivity].
    cbn [bmap].
    assert (length l = n) as Hl.
    { unfold fit_best_feature in E.
      assert (forall desc best o, fit_best_pass desc cols targets thr best = Ok o ->
                (forall b, best = Some b -> length (snd (fst b)) = n) ->
                forall b, o = Some b -> length (snd (fst b)) = n) as Pass.
      { intros desc best o Hpass Hbest b ->. unfold fit_best_pass in Hpass.
        destruct (fit_counts desc cols targets thr); [|discriminate].
        destruct (fit_idxmax l0); [|discriminate].
        destruct (nth_error l0 n0); [|discriminate]. destruct (nth_error cols n0); [|discriminate].
        destruct (_ <? z).
        - destruct (update_labels desc l1 targets thr) as [l2|] eqn:EU; [|discriminate].
          injection Hpass as <-. cbn [fst snd]. rewrite (update_labels_length_t _ _ _ _ _ EU). exact HT.
        - injection Hpass as ->. apply Hbest. reflexivity. }
      destruct (fit_best_pass true cols targets thr None) as [b1|] eqn:E1; [|discriminate].
      destruct (fit_best_pass false cols targets thr b1) as [[b|]|] eqn:E2; try discriminate.
      injection E as ->.
      apply (Pass false b1 _ E2 (fun b Hb => Pass true None _ E1 (fun b' Hb' => ltac:(discriminate)) b Hb) _ eq_refl). }
    rewrite (Hcnt l Hl). destruct (fit_count1 l =? 0); reflexivity.
  - rewrite lookup_sel. destruct (fit_lookup name names cols) as [col|] eqn:E; cbn [option_map]; [|reflexivity].
    assert (length col = n) as Hc.
    { unfold fit_lookup in E. destruct (index_str name names); [|discriminate].
      unfold table_wf in Hwf. rewrite Forall_forall in Hwf. apply Hwf. eapply nth_error_In. exact E. }
    rewrite (direction_labels_sel n pi targets thr Hp HT col Hc).
    destruct (fit_direction_labels col targets thr) as [[[l c] d]|e] eqn:Ed; [|reflexivity].
    assert (length l = n) as Hl.
    { unfold fit_direction_labels in Ed.
      destruct (update_labels true col targets thr) as [dl|] eqn:E1; [|discriminate].
      destruct (update_labels false col targets thr) as [al|] eqn:E2; [|discriminate].
      destruct (_ <=? _); injection Ed as <- _ _;
        [rewrite (update_labels_length_t _ _ _ _ _ E1)|rewrite (update_labels_length_t _ _ _ _ _ E2)]; exact HT. }
    rewrite (Hcnt l Hl). destruct (fit_count1 l =? 0); reflexivity.
  - unfold fit_pre_scores. rewrite !(get_scores_ok (list Z) G score). rewrite <- sel_map.
    rewrite update_labels_sel by (rewrite map_length, ?HR; assumption).
    destruct (update_labels true (map (score g0) rows) targets thr) as [l|e] eqn:E; [|reflexivity].
    rewrite (Hcnt l) by (rewrite (update_labels_length_t _ _ _ _ _ E); exact HT).
    destruct (fit_count1 l =? 0); reflexivity.
Qed.

(* where the starting labels come from: the label rule applied to some score vector *)
Lemma starting_spec k st names cols rows targets thr l c d b :
  fit_starting G score k st names cols rows targets thr = Ok (l, c, d, b) ->
  (exists desc sc, update_labels desc sc targets thr = Ok l) /\ fit_count1 l <> 0.
Proof.
  unfold fit_starting. intros H.
  match type of H with (match ?S with _ => _ end) = _ => destruct S as [[[[l0 c0] d0] b0]|e] eqn:ES end; [|discriminate].
  destruct (Z.eqb_spec (fit_count1 l0) 0) as [|Hne]; [discriminate|]. injection H as -> -> -> ->.
  split; [|exact Hne].
  destruct st as [|name|g0].
  - destruct (fit_best_feature cols targets thr) as [[[[i c1] l1] d1]|] eqn:E; [|discriminate].
    injection ES as -> -> _ _. unfold fit_best_feature in E.
    assert (forall desc best o, fit_best_pass desc cols targets thr best = Ok o ->
              (forall x, best = Some x -> exists ds sc, update_labels ds sc targets thr = Ok (snd (fst x))) ->
              forall x, o = Some x -> exists ds sc, update_labels ds sc targets thr = Ok (snd (fst x))) as Pass.
    { intros desc best o Hpass Hbest x ->. unfold fit_best_pass in Hpass.
      destruct (fit_counts desc cols targets thr); [|discriminate].
      destruct (fit_idxmax l0); [|discriminate].
      destruct (nth_error l0 n); [|discriminate]. destruct (nth_error cols n) as [col|]; [|discriminate].
      destruct (_ <? z).
      - destruct (update_labels desc col targets thr) as [l2|] eqn:EU; [|discriminate].
        injection Hpass as <-. cbn [fst snd]. exists desc, col. exact EU.
      - injection Hpass as ->. apply Hbest. reflexivity. }
    destruct (fit_best_pass true cols targets thr None) as [b1|] eqn:E1; [|discriminate].
    destruct (fit_best_pass false cols targets thr b1) as [[x|]|] eqn:E2; try discriminate.
    injection E as ->.
    apply (Pass false b1 _ E2 (fun y Hy => Pass true None _ E1 (fun y' Hy' => ltac:(discriminate)) y Hy) _ eq_refl).
  - destruct (fit_lookup name names cols) as [col|]; [|discriminate].
    destruct (fit_direction_labels col targets thr) as [[[l1 c1] d1]|] eqn:Ed; [|discriminate].
    injection ES as -> _ _ _. unfold fit_direction_labels in Ed.
    destruct (update_labels true col targets thr) as [dl|] eqn:E1; [|discriminate].
    destruct (update_labels false col targets thr) as [al|] eqn:E2; [|discriminate].
    destruct (_ <=? _); injection Ed as <- _ _; [exists true, col|exists false, col]; assumption.
  - destruct (fit_pre_scores G score k g0 rows) as [sc|]; [|discriminate].
    destruct (update_labels true sc targets thr) as [l1|] eqn:E; [|discriminate].
    injection ES as -> _ _ _. exists true, sc. exact E.
Qed.
End Table.

(* ====================== Model.fit on a feature table ====================== *)
Section Fit.
Variable G : Type.
Variable learn : list (list Z * bool) -> G.
Variable score : G -> list Z -> Z.

(* C12_aligned for Model.fit *)
Theorem fit_fit_aligned k st names cols targets sigma shuffle thr mi ov trace res :
  Permutation sigma (seq 0 (length targets)) ->
  fit_fit G learn score true k st names cols targets sigma shuffle thr mi ov = (trace, res) ->
  trace = [] \/
  exists rows Ls,
    fit_rows cols (length targets) = Ok rows /\ length Ls = length trace /\
    (forall L, nth_error Ls 0 = Some L -> exists desc sc, labels_ok desc sc targets thr L) /\
    forall i L tr, nth_error Ls i = Some L -> nth_error trace i = Some tr ->
      length L = length targets /\
      handed_ok (list Z) rows L (if shuffle then sigma else seq 0 (length targets)) tr /\
      forall L', nth_error Ls (S i) = Some L' ->
        labels_ok true (map (score (learn tr)) rows) targets thr L'.
Proof.
  intros Hp H. unfold fit_fit in H.
  destruct (existsb (fun t => t) targets) eqn:ET; cbn [negb] in H; [|injection H as <- _; left; reflexivity].
  destruct (existsb negb targets) eqn:ED; cbn [negb] in H; [|injection H as <- _; left; reflexivity].
  destruct (fit_rows cols (length targets)) as [rows|e] eqn:ER; [|injection H as <- _; left; reflexivity].
  pose proof (rows_length _ _ _ ER) as HR.
  destruct (fit_starting G score k st names cols rows targets thr) as [[[[start fp] d] b]|e] eqn:ES;
    [|injection H as <- _; left; reflexivity].
  destruct (starting_spec _ _ _ _ _ _ _ _ _ _ _ _ _ ES) as [(desc & sc & EU) _].
  assert (length start = length rows) as HL by (rewrite (update_labels_length_t _ _ _ _ _ EU), HR; reflexivity).
  destruct (fit_train (list Z) G learn score k rows targets start fp sigma shuffle thr mi ov)
    as [tr r] eqn:EF.
  injection H as <- _. right.
  rewrite <- HR in Hp.
  destruct (fit_aligned _ _ learn score _ _ _ _ _ _ _ _ _ _ _ _ HL Hp EF) as (Ls & Hlen & H0 & HS).
  exists rows, Ls. split; [reflexivity|]. split; [exact Hlen|]. split.
  - intros L EL. rewrite (H0 L EL). exists desc, sc. apply update_labels_ok. exact EU.
  - intros i L tr0 EL Etr. destruct (HS i L tr0 EL Etr) as (A & B & C). rewrite HR in A, B.
    split; [exact A|]. split; [exact B|exact C].
Qed.

(* C12_order_invariant for Model.fit: rows of the table permuted by [pi], any seeds, shuffle on or off *)
Theorem fit_fit_order_invariant :
  (forall l l', Permutation l l' -> learn l = learn l') ->
  forall k st names cols targets pi sigma1 sh1 sigma2 sh2 thr mi ov,
  table_wf (length targets) cols ->
  Permutation pi (seq 0 (length targets)) ->
  Permutation sigma1 (seq 0 (length targets)) -> Permutation sigma2 (seq 0 (length targets)) ->
  forall tr1 r1 tr2 r2,
  fit_fit G learn score true k st names (map (sel pi) cols) (sel pi targets) sigma1 sh1 thr mi ov = (tr1, r1) ->
  fit_fit G learn score true k st names cols targets sigma2 sh2 thr mi ov = (tr2, r2) ->
  r1 = r2 /\ Forall2 (@Permutation (list Z * bool)) tr1 tr2.
Proof.
  intros Hinv k st names cols targets pi sigma1 sh1 sigma2 sh2 thr mi ov Hwf Hp H1 H2 tr1 r1 tr2 r2 E1 E2.
  pose proof (perm_in_range _ _ Hp) as Hr. pose proof (perm_length _ _ Hp) as Hpl.
  assert (length (sel pi targets) = length targets) as LT by (rewrite sel_length by exact Hr; exact Hpl).
  unfold fit_fit in E1, E2. rewrite LT in E1.
  rewrite !(existsb_perm _ _ _ (sel_perm pi targets Hp)) in E1.
  destruct (existsb (fun t => t) targets) eqn:ET; cbn [negb] in E1, E2;
    [|injection E1 as <- <-; injection E2 as <- <-; split; [reflexivity|constructor]].
  destruct (existsb negb targets) eqn:ED; cbn [negb] in E1, E2;
    [|injection E1 as <- <-; injection E2 as <- <-; split; [reflexivity|constructor]].
  rewrite (rows_sel _ _ _ Hp Hwf) in E1. rewrite (rows_wf _ _ Hwf) in E2.
  set (rows := map (row_of cols) (seq 0 (length targets))) in *.
  assert (length rows = length targets) as HR by (unfold rows; rewrite map_length, seq_length; reflexivity).
  rewrite (starting_sel G score _ pi k st names cols rows targets thr Hp Hwf eq_refl HR) in E1.
  destruct (fit_starting G score k st names cols rows targets thr) as [[[[start fp] d] b]|e] eqn:ES;
    [|injection E1 as <- <-; injection E2 as <- <-; split; [reflexivity|constructor]].
  destruct (starting_spec _ _ _ _ _ _ _ _ _ _ _ _ _ ES) as [(desc & sc & EU) _].
  assert (length start = length rows) as HL by (rewrite (update_labels_length_t _ _ _ _ _ EU), HR; reflexivity).
  destruct (fit_train (list Z) G learn score k (sel pi rows) (sel pi targets) (sel pi start) fp sigma1 sh1 thr mi ov)
    as [t1 g1] eqn:F1.
  destruct (fit_train (list Z) G learn score k rows targets start fp sigma2 sh2 thr mi ov)
    as [t2 g2] eqn:F2.
  injection E1 as <- <-. injection E2 as <- <-.
  rewrite <- HR in Hp, H1, H2.
  destruct (fit_order_invariant _ _ learn score Hinv k rows targets start fp pi sigma1 sh1 sigma2 sh2 thr mi ov
              HL (eq_sym HR) Hp H1 H2 _ _ _ _ F1 F2) as [-> HF].
  split; [reflexivity|exact HF].
Qed.
End Fit.

(* ====================== the code before the F7 repair does not satisfy the property ====================== *)
(* four rows, identified by their position; a fixed score per row; targets T T T D; the generator
   swaps rows 2 and 3; shuffle off.  After the first iteration the un-shuffle/re-shuffle index
   operations hand target row 2 to the estimator as a negative and drop the decoy row 3. *)
Definition cx_scores : list Z := [10; 9; 1; 0].
Definition cx_run (patched : bool) :=
  (if patched then fit_train else fit_train_unpatched)
    nat unit (fun _ => tt) (fun _ r => nth r cx_scores 0)
    FitDF [0; 1; 2; 3]%nat [true; true; true; false] [1; 1; 1; -1] 3 [0; 1; 3; 2]%nat false (1 # 2) 2%nat true.

Lemma unshuffled_refuted :
  exists tr, nth_error (fst (cx_run false)) 1 = Some tr /\ In (2%nat, false) tr /\ ~ In (3%nat, false) tr.
Proof.
  eexists. split; [vm_compute; reflexivity|]. split; [simpl; tauto|].
  simpl. intros H. repeat (destruct H as [H|H]; [discriminate H|]). exact H.
Qed.

Lemma patched_not_refuted :
  fst (cx_run true) = [[(0%nat, true); (1%nat, true); (2%nat, true); (3%nat, false)];
                       [(0%nat, true); (1%nat, true); (2%nat, true); (3%nat, false)]].
Proof. vm_compute. reflexivity. Qed.

(* ====================== order invariance stated for arbitrary reorderings of the rows ====================== *)
Theorem fit_order_invariant_perm (X G : Type) (learn : list (X * bool) -> G) (score : G -> X -> Z) :
  (forall l l', Permutation l l' -> learn l = learn l') ->
  forall k xs targets start xs' targets' start' fp sigma1 sh1 sigma2 sh2 thr mi ov,
  length targets = length xs -> length start = length xs ->
  length targets' = length xs' -> length start' = length xs' ->
  Permutation (combine xs' (combine targets' start')) (combine xs (combine targets start)) ->
  Permutation sigma1 (seq 0 (length xs)) -> Permutation sigma2 (seq 0 (length xs)) ->
  forall tr1 r1 tr2 r2,
  fit_train X G learn score k xs' targets' start' fp sigma1 sh1 thr mi ov = (tr1, r1) ->
  fit_train X G learn score k xs targets start fp sigma2 sh2 thr mi ov = (tr2, r2) ->
  r1 = r2 /\ Forall2 (@Permutation (X * bool)) tr1 tr2.
Proof.
  intros Hinv k xs targets start xs' targets' start' fp sigma1 sh1 sigma2 sh2 thr mi ov
         HT HL HT' HL' HP H1 H2 tr1 r1 tr2 r2 E1 E2.
  destruct (perm_sel _ _ HP) as (pi & Hp & E).
  assert (length (combine xs (combine targets start)) = length xs) as Lc
    by (rewrite !combine_length, HT, HL, !Nat.min_id; reflexivity).
  rewrite Lc in Hp.
  pose proof (perm_in_range _ _ Hp) as Hr. pose proof (perm_length _ _ Hp) as Hpl.
  rewrite sel_combine in E by (rewrite combine_length, HT, HL, Nat.min_id; reflexivity).
  rewrite (sel_combine pi targets start) in E by (rewrite HT, HL; reflexivity).
  assert (forall A (l : list A), length l = length xs -> length (sel pi l) = length xs) as Ls.
  { intros A l Hl. rewrite sel_length by (rewrite Hl; exact Hr). exact Hpl. }
  apply combine_inj in E;
    [|rewrite combine_length, HT', HL', Nat.min_id; reflexivity
     |rewrite combine_length, !Ls by (first [assumption|reflexivity]); rewrite Nat.min_id; reflexivity].
  destruct E as [-> E].
  apply combine_inj in E; [|rewrite HT', HL'; reflexivity|rewrite !Ls by (first [assumption|reflexivity]); reflexivity].
  destruct E as [-> ->].
  exact (fit_order_invariant X G learn score Hinv k xs targets start fp pi sigma1 sh1 sigma2 sh2 thr mi ov
           HL HT Hp H1 H2 _ _ _ _ E1 E2).
Qed.

(* ====================== reading handed_ok ====================== *)
Lemma handed_ok_sound X xs L idx tr p :
  handed_ok X xs L idx tr -> In p tr ->
  exists r, In r idx /\ nth r L 0 <> 0 /\ nth_error xs r = Some (fst p) /\ snd p = (nth r L 0 =? 1).
Proof.
  unfold handed_ok. remember (filter (fun r => negb (nth r L 0 =? 0)) idx) as rs eqn:Ers.
  intros H Hp.
  assert (exists r, In r rs /\ nth_error xs r = Some (fst p) /\ snd p = (nth r L 0 =? 1)) as (r & Hr & A & B).
  { clear Ers. revert Hp. induction H as [|r q rs0 tr0 Hrq H IH]; intros Hp; [destruct Hp|].
    destruct Hp as [<-|Hp].
    - exists r. split; [left; reflexivity|exact Hrq].
    - destruct (IH Hp) as (r' & Hr' & Hrest). exists r'. split; [right; exact Hr'|exact Hrest]. }
  rewrite Ers in Hr. apply filter_In in Hr. destruct Hr as [Hi Hb].
  exists r. split; [exact Hi|]. split; [|split; assumption].
  destruct (Z.eqb_spec (nth r L 0) 0); [discriminate|assumption].
Qed.

Lemma handed_ok_complete X xs L idx tr r :
  handed_ok X xs L idx tr -> In r idx -> nth r L 0 <> 0 ->
  exists p, In p tr /\ nth_error xs r = Some (fst p) /\ snd p = (nth r L 0 =? 1).
Proof.
  unfold handed_ok. intros H Hi Hn.
  assert (In r (filter (fun r => negb (nth r L 0 =? 0)) idx)) as Hr.
  { apply filter_In. split; [exact Hi|]. destruct (Z.eqb_spec (nth r L 0) 0); [contradiction|reflexivity]. }
  remember (filter (fun r => negb (nth r L 0 =? 0)) idx) as rs eqn:Ers. clear Ers.
  revert Hr. induction H as [|r0 q rs0 tr Hrq H IH]; intros Hr; [destruct Hr|].
  destruct Hr as [->|Hr].
  - exists q. split; [left; reflexivity|exact Hrq].
  - destruct (IH Hr) as (p & Hp & Hrest). exists p. split; [right; exact Hp|exact Hrest].
Qed.

(* predictions follow the rows *)
Lemma get_scores_sel X G (score : G -> X -> Z) k g pi xs :
  fit_get_scores X G score k g (sel pi xs)
  = match fit_get_scores X G score k g xs with Ok s => Ok (sel pi s) | Err e => Err e end.
Proof. rewrite !get_scores_ok, sel_map. reflexivity. Qed.

(* before F16: the flattened two-column predict_proba has twice as many entries as there are rows, so
   re-fitting a trained model with such an estimator is always rejected *)
Lemma pre_proba2_unpatched_rejected G (score coscore : G -> list Z -> Z) g0 rows targets thr :
  rows <> [] -> length targets = length rows ->
  update_labels true (fit_pre_scores_unpatched G score coscore FitProba2 g0 rows) targets thr = Err EValue.
Proof.
  intros Hne HT. unfold update_labels.
  assert (length (fit_pre_scores_unpatched G score coscore FitProba2 g0 rows) = (2 * length rows)%nat) as ->.
  { cbn [fit_pre_scores_unpatched]. clear. induction rows as [|x rs IH]; [reflexivity|].
    cbn [flat_map app length]. rewrite IH. lia. }
  rewrite HT. destruct (Nat.eqb_spec (2 * length rows) (length rows)) as [E|]; [|reflexivity].
  destruct rows; [contradiction|simpl in E; lia].
Qed.

(* the order-independent recording estimator of the harness is order-independent *)
Lemma demo_learn_invariant idc kk l l' : Permutation l l' -> fit_demo_learn 0 idc kk l = fit_demo_learn 0 idc kk l'.
Proof.
  intros H. unfold fit_demo_learn. f_equal.
  induction H as [|x l l' H IH|x y l|l l' l'' H1 IH1 H2 IH2]; cbn [fold_right]; lia.
Qed.
