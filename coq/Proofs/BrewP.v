(* Proofs about Model/Brew.v (C02, C05 prediction part, C11 per fold). *)
From Coq Require Import Lia Permutation Sorted.
From Mokaverif Require Import Model.Base Model.Tdc Model.Calibrate Model.PinCols Model.Brew.
From Mokaverif Require Import Proofs.TdcP Proofs.CalibrateP Proofs.PinColsP.
Open Scope nat_scope.

(* ====================== argsort ====================== *)
Definition ble (a b : Z * nat) : Prop := (fst a <= fst b)%Z.

Lemma bw_insert_perm x l : Permutation (bw_insert x l) (x :: l).
Proof.
  induction l as [|y l IH]; simpl; [reflexivity|].
  destruct (fst x <=? fst y)%Z; [reflexivity|]. rewrite IH. apply perm_swap.
Qed.

Lemma bw_argsort_perm keys : Permutation (bw_argsort keys) (combine keys (seq 0 (length keys))).
Proof.
  unfold bw_argsort. induction (combine keys (seq 0 (length keys))) as [|x l IH]; simpl; [reflexivity|].
  rewrite bw_insert_perm. constructor. exact IH.
Qed.

Lemma bw_insert_sorted x l : StronglySorted ble l -> StronglySorted ble (bw_insert x l).
Proof.
  induction l as [|y l IH]; simpl; intros H; [repeat constructor|].
  apply StronglySorted_inv in H. destruct H as [Hs Hf].
  destruct (Z.leb_spec (fst x) (fst y)) as [Hle|Hgt].
  - constructor; [constructor; assumption|]. constructor; [exact Hle|].
    eapply Forall_impl; [|exact Hf]. intros z Hz. unfold ble in *. lia.
  - constructor; [apply IH; exact Hs|].
    assert (Forall (ble y) (x :: l)) as Hf' by (constructor; [unfold ble; lia|exact Hf]).
    eapply Permutation_Forall; [|exact Hf']. symmetry. apply bw_insert_perm.
Qed.

Lemma bw_argsort_sorted keys : StronglySorted ble (bw_argsort keys).
Proof.
  unfold bw_argsort. induction (combine keys (seq 0 (length keys))) as [|x l IH]; simpl;
    [constructor|apply bw_insert_sorted; exact IH].
Qed.

Lemma in_combine_seq keys start k i :
  In (k, i) (combine keys (seq start (length keys))) -> start <= i < start + length keys /\ nth (i - start) keys 0%Z = k.
Proof.
  revert start. induction keys as [|x keys IH]; intros start H; simpl in *; [contradiction|].
  destruct H as [H|H].
  - injection H as <- <-. rewrite Nat.sub_diag. split; [lia|reflexivity].
  - destruct (IH (S start) H) as [Hr Hk]. split; [lia|].
    replace (i - start) with (S (i - S start)) by lia. exact Hk.
Qed.

Lemma map_snd_combine_seq (keys : list Z) start : map snd (combine keys (seq start (length keys))) = seq start (length keys).
Proof. revert start. induction keys as [|x keys IH]; intros start; simpl; [reflexivity|]. rewrite IH. reflexivity. Qed.

Lemma bw_argsort_ids keys : Permutation (map snd (bw_argsort keys)) (seq 0 (length keys)).
Proof. rewrite (Permutation_map snd (bw_argsort_perm keys)). rewrite map_snd_combine_seq. reflexivity. Qed.

Lemma bw_argsort_key keys k i : In (k, i) (bw_argsort keys) -> i < length keys /\ nth i keys 0%Z = k.
Proof.
  intros H. apply (Permutation_in _ (bw_argsort_perm keys)) in H.
  destruct (in_combine_seq _ _ _ _ H) as [Hr Hk]. rewrite Nat.sub_0_r in Hk. split; [lia|exact Hk].
Qed.

(* ====================== np.split ====================== *)
Lemma np_split_length {A} (l : list A) prev pts : length (bw_np_split l prev pts) = S (length pts).
Proof. revert prev. induction pts as [|p pts IH]; intros prev; simpl; [reflexivity|]. rewrite IH. reflexivity. Qed.

Lemma my_skipn_skipn {A} a b (l : list A) : skipn a (skipn b l) = skipn (b + a) l.
Proof.
  revert l. induction b as [|b IH]; intros l; [reflexivity|].
  destruct l as [|x l]; [simpl; apply skipn_nil|]. simpl. apply IH.
Qed.

Lemma np_split_concat {A} (l : list A) prev pts :
  StronglySorted le (prev :: pts) -> concat (bw_np_split l prev pts) = skipn prev l.
Proof.
  revert prev. induction pts as [|p pts IH]; intros prev Hs; simpl; [apply app_nil_r|].
  apply StronglySorted_inv in Hs. destruct Hs as [Hs Hf].
  assert (prev <= p) as Hle by (inversion Hf; assumption).
  rewrite IH by exact Hs.
  replace (skipn p l) with (skipn (p - prev) (skipn prev l)).
  - apply firstn_skipn.
  - rewrite my_skipn_skipn. f_equal. lia.
Qed.

Lemma np_split_map {A B} (g : A -> B) (l : list A) prev pts :
  bw_np_split (map g l) prev pts = map (map g) (bw_np_split l prev pts).
Proof.
  revert prev. induction pts as [|p pts IH]; intros prev; simpl.
  - rewrite skipn_map. reflexivity.
  - rewrite IH, skipn_map, firstn_map. reflexivity.
Qed.

(* ====================== group starts are boundaries ====================== *)
(* position p is a boundary of the sorted key list ks: nothing before p shares a key with
   anything from p on *)
Definition boundary (ks : list Z) (p : nat) : Prop :=
  forall x y, In x (firstn p ks) -> In y (skipn p ks) -> (x < y)%Z.

Lemma starts_aux_boundary pre prev rest p :
  StronglySorted Z.le (pre ++ prev :: rest) ->
  In p (bw_starts_aux prev (S (length pre)) rest) -> boundary (pre ++ prev :: rest) p /\ length pre < p.
Proof.
  revert pre prev. induction rest as [|x rest IH]; intros pre prev Hs Hin; simpl in Hin; [contradiction|].
  apply in_app_or in Hin.
  assert (pre ++ prev :: x :: rest = (pre ++ [prev]) ++ x :: rest) as E by (rewrite <- app_assoc; reflexivity).
  destruct Hin as [Hin|Hin].
  - destruct (Z.eqb_spec x prev) as [Exp|Nxp]; [contradiction|]. destruct Hin as [<-|[]].
    split; [|lia].
    rewrite E. intros a b Ha Hb.
    replace (S (length pre)) with (length (pre ++ [prev]) + 0) in Ha, Hb by (rewrite app_length; simpl; lia).
    rewrite firstn_app_2 in Ha. simpl in Ha. rewrite app_nil_r in Ha.
    rewrite skipn_app, skipn_all2, Nat.add_0_r, Nat.sub_diag in Hb by lia. simpl in Hb.
    rewrite E in Hs.
    assert (forall u v, In u (pre ++ [prev]) -> In v (x :: rest) -> (u <= v)%Z) as Hsep.
    { clear -Hs. induction (pre ++ [prev]) as [|h t IHt]; intros u v Hu Hv; [contradiction|].
      simpl in Hs. apply StronglySorted_inv in Hs. destruct Hs as [Hs Hf].
      destruct Hu as [<-|Hu]; [|apply IHt; assumption].
      rewrite Forall_forall in Hf. apply Hf. apply in_or_app. right. exact Hv. }
    assert (prev <= x)%Z as Hpx by (apply Hsep; [apply in_or_app; right; left; reflexivity|left; reflexivity]).
    assert (a <= prev)%Z as Hap.
    { apply in_app_or in Ha. destruct Ha as [Ha|[<-|[]]]; [|lia].
      clear -Hs Ha. induction pre as [|h t IHt]; [contradiction|].
      simpl in Hs. apply StronglySorted_inv in Hs. destruct Hs as [Hs Hf]. destruct Ha as [<-|Ha]; [|apply IHt; assumption].
      rewrite Forall_forall in Hf. apply Hf. apply in_or_app. left. apply in_or_app. right. left. reflexivity. }
    assert (x <= b)%Z as Hxb.
    { destruct Hb as [<-|Hb]; [lia|].
      assert (StronglySorted Z.le (x :: rest)) as Hxr.
      { clear -Hs. induction (pre ++ [prev]) as [|h t IHt]; [exact Hs|]. simpl in Hs.
        apply StronglySorted_inv in Hs. apply IHt. tauto. }
      apply StronglySorted_inv in Hxr. destruct Hxr as [_ Hf]. rewrite Forall_forall in Hf. apply Hf. exact Hb. }
    lia.
  - rewrite E in Hs |- *.
    replace (S (S (length pre))) with (S (length (pre ++ [prev]))) in Hin by (rewrite app_length; simpl; lia).
    destruct (IH (pre ++ [prev]) x Hs Hin) as [Hb Hl]. split; [exact Hb|].
    rewrite app_length in Hl. simpl in Hl. lia.
Qed.

Lemma starts_boundary ks p : StronglySorted Z.le ks -> In p (bw_starts ks) -> boundary ks p.
Proof.
  intros Hs Hin. destruct ks as [|x r]; [contradiction|]. simpl in Hin. destruct Hin as [<-|Hin].
  - intros a b Ha. simpl in Ha. contradiction.
  - apply (starts_aux_boundary [] x r p Hs Hin).
Qed.

(* ====================== cut points ====================== *)
Lemma round_up_spec ss p s : bw_round_up ss p = Some s -> In s ss /\ p <= s.
Proof.
  induction ss as [|x ss IH]; simpl; [discriminate|].
  destruct (Nat.leb_spec p x) as [H|H].
  - intros E. injection E as <-. split; [left; reflexivity|exact H].
  - intros E. destruct (IH E) as [H1 H2]. split; [right; exact H1|exact H2].
Qed.

Lemma round_up_mono ss p p' s s' : StronglySorted lt ss -> p <= p' ->
  bw_round_up ss p = Some s -> bw_round_up ss p' = Some s' -> s <= s'.
Proof.
  intros Hs Hp. induction ss as [|x ss IH]; simpl; [discriminate|].
  apply StronglySorted_inv in Hs. destruct Hs as [Hs Hf].
  destruct (Nat.leb_spec p x) as [H|H]; destruct (Nat.leb_spec p' x) as [H'|H']; intros E E'.
  - injection E as <-. injection E' as <-. lia.
  - injection E as <-. destruct (round_up_spec _ _ _ E') as [Hin _].
    rewrite Forall_forall in Hf. specialize (Hf s' Hin). lia.
  - lia.
  - apply IH; assumption.
Qed.

Lemma starts_aux_lt prev i l : Forall (fun p => i <= p) (bw_starts_aux prev i l) /\ StronglySorted lt (bw_starts_aux prev i l).
Proof.
  revert prev i. induction l as [|x l IH]; intros prev i; simpl; [split; constructor|].
  destruct (IH x (S i)) as [Hf Hs].
  destruct (x =? prev)%Z; simpl.
  - split; [eapply Forall_impl; [|exact Hf]; intros; simpl in *; lia|exact Hs].
  - split.
    + constructor; [lia|]. eapply Forall_impl; [|exact Hf]. intros; simpl in *; lia.
    + constructor; [exact Hs|]. eapply Forall_impl; [|exact Hf]. intros; simpl in *; lia.
Qed.

Lemma starts_sorted ks : StronglySorted lt (bw_starts ks).
Proof.
  destruct ks as [|x r]; [constructor|]. simpl.
  destruct (starts_aux_lt x 1 r) as [Hf Hs]. constructor; [exact Hs|].
  eapply Forall_impl; [|exact Hf]. intros; simpl in *; lia.
Qed.

Lemma points_sorted fs rem i start todo : StronglySorted le (start :: bw_points fs rem i start todo).
Proof.
  revert i start. induction todo as [|t IH]; intros i start; simpl; [repeat constructor|].
  set (e := start + fs + (if i <? rem then 1 else 0)).
  specialize (IH (S i) e). constructor; [exact IH|].
  apply StronglySorted_inv in IH. destruct IH as [_ Hf].
  constructor; [unfold e; lia|]. eapply Forall_impl; [|exact Hf]. intros a Ha. unfold e in *. lia.
Qed.

Lemma points_length fs rem i start todo : length (bw_points fs rem i start todo) = todo.
Proof. revert i start. induction todo as [|t IH]; intros; simpl; [reflexivity|]. rewrite IH. reflexivity. Qed.

Lemma all_some_spec {A} (l : list (option A)) r : bw_all_some l = Some r -> l = map Some r.
Proof.
  revert r. induction l as [|[x|] l IH]; intros r; simpl; [intros E; injection E as <-; reflexivity| |discriminate].
  destruct (bw_all_some l) as [t|]; [|discriminate]. intros E. injection E as <-. simpl. rewrite (IH t eq_refl). reflexivity.
Qed.

Lemma cuts_sorted ss pts cuts : StronglySorted lt ss -> StronglySorted le pts ->
  map (bw_round_up ss) pts = map Some cuts -> StronglySorted le cuts.
Proof.
  intros Hss. revert cuts. induction pts as [|p pts IH]; intros [|c cuts] Hs E; simpl in E; try discriminate; [constructor|].
  injection E as Ec E. apply StronglySorted_inv in Hs. destruct Hs as [Hs Hf].
  constructor; [apply IH; assumption|].
  apply Forall_forall. intros c' Hc'.
  assert (In (Some c') (map (bw_round_up ss) pts)) as Hin by (rewrite E; apply in_map; exact Hc').
  apply in_map_iff in Hin. destruct Hin as (p' & Ep' & Hp').
  rewrite Forall_forall in Hf. specialize (Hf p' Hp').
  eapply round_up_mono; eauto.
Qed.

(* ====================== folds are separated by key ====================== *)
Lemma split_separated (srt : list (Z * nat)) prev cuts :
  StronglySorted le (prev :: cuts) -> Forall (boundary (map fst srt)) cuts ->
  forall i j x y, i < j -> In x (nth i (bw_np_split srt prev cuts) []) ->
    In y (nth j (bw_np_split srt prev cuts) []) -> (fst x < fst y)%Z.
Proof.
  revert prev. induction cuts as [|p cuts IH]; intros prev Hs Hb i j x y Hij Hx Hy.
  - destruct j as [|j]; [lia|]. simpl in Hy. destruct j; contradiction.
  - apply StronglySorted_inv in Hs. destruct Hs as [Hs Hf]. inversion Hb as [|? ? Hbp Hb']; subst.
    cbn [bw_np_split] in Hx, Hy. destruct j as [|j]; [lia|]. cbn [nth] in Hy.
    destruct i as [|i].
    + cbn [nth] in Hx.
      assert (In y (skipn p srt)) as Hy'.
      { rewrite <- (np_split_concat srt p cuts Hs). apply in_concat.
        exists (nth j (bw_np_split srt p cuts) []). split; [|exact Hy].
        apply nth_In. rewrite np_split_length.
        destruct (Nat.lt_ge_cases j (S (length cuts))) as [H|H]; [exact H|].
        rewrite nth_overflow in Hy by (rewrite np_split_length; lia). contradiction. }
      assert (In x (firstn p srt)) as Hx'.
      { assert (prev <= p) as Hle by (inversion Hf; assumption).
        rewrite firstn_skipn_comm in Hx. replace (prev + (p - prev)) with p in Hx by lia.
        clear -Hx. revert Hx. generalize (firstn p srt). intros l. revert l. induction prev as [|n IHn]; intros l H; [exact H|].
        destruct l; [simpl in H; contradiction|]. right. apply IHn. exact H. }
      apply Hbp.
      * rewrite firstn_map. apply in_map. exact Hx'.
      * rewrite skipn_map. apply in_map. exact Hy'.
    + cbn [nth] in Hx. apply (IH p Hs Hb' i j x y); [lia|exact Hx|exact Hy].
Qed.

(* ====================== the split theorem ====================== *)
Definition fold_index (folds : list (list nat)) (r f : nat) : Prop := In r (nth f folds []).

Theorem split_partition keys k folds :
  bw_split keys k = Ok folds ->
  length folds = k /\
  Permutation (concat folds) (seq 0 (length keys)) /\
  (forall i j f g, fold_index folds i f -> fold_index folds j g ->
     nth i keys 0%Z = nth j keys 0%Z -> f = g).
Proof.
  unfold bw_split. destruct k as [|k']; [discriminate|]. set (k := S k').
  set (srt := bw_argsort keys). set (n := length srt).
  set (pts := bw_points (n / k) (n mod k) 0 0 (k - 1)).
  destruct (bw_all_some _) as [cuts|] eqn:EA; [|discriminate].
  intros H. injection H as <-.
  apply all_some_spec in EA.
  assert (length cuts = k - 1) as Hlc.
  { rewrite <- (map_length Some cuts), <- EA, map_length. apply points_length. }
  pose proof (points_sorted (n / k) (n mod k) 0 0 (k - 1)) as Hps. fold pts in Hps.
  assert (StronglySorted le cuts) as Hcs.
  { eapply cuts_sorted; [apply starts_sorted| |exact EA]. apply StronglySorted_inv in Hps. tauto. }
  assert (StronglySorted le (0 :: cuts)) as Hcs0.
  { constructor; [exact Hcs|]. apply Forall_forall. intros; lia. }
  assert (StronglySorted Z.le (map fst srt)) as Hks.
  { pose proof (bw_argsort_sorted keys) as Hs. fold srt in Hs. clear -Hs.
    induction Hs as [|x l Hs IH Hf]; simpl; constructor; [exact IH|].
    apply Forall_forall. intros y Hy. apply in_map_iff in Hy. destruct Hy as (z & <- & Hz).
    rewrite Forall_forall in Hf. apply Hf. exact Hz. }
  assert (Forall (boundary (map fst srt)) cuts) as Hbd.
  { apply Forall_forall. intros c Hc.
    assert (In (Some c) (map (bw_round_up (bw_starts (map fst srt))) pts)) as Hin by (rewrite EA; apply in_map; exact Hc).
    apply in_map_iff in Hin. destruct Hin as (p & Ep & _).
    destruct (round_up_spec _ _ _ Ep) as [Hin _]. apply starts_boundary; assumption. }
  split; [rewrite np_split_length; lia|]. split.
  - rewrite np_split_concat by exact Hcs0. simpl. apply bw_argsort_ids.
  - intros i j f g Hi Hj Ekey. unfold fold_index in *.
    rewrite np_split_map in Hi, Hj.
    assert (forall (ll : list (list (Z * nat))) f, nth f (map (map snd) ll) [] = map snd (nth f ll [])) as Hnm.
    { intros ll f0. rewrite <- (map_nth (map snd)). reflexivity. }
    rewrite Hnm in Hi, Hj. apply in_map_iff in Hi, Hj.
    destruct Hi as ((ki & i') & Ei & Hi). destruct Hj as ((kj & j') & Ej & Hj). simpl in Ei, Ej. subst i' j'.
    assert (forall f x, In x (nth f (bw_np_split srt 0 cuts) []) -> In x srt) as Hsub.
    { intros f0 x Hx. destruct (Nat.lt_ge_cases f0 (length (bw_np_split srt 0 cuts))) as [Hl|Hl].
      - assert (In x (concat (bw_np_split srt 0 cuts))) as Hc by (apply in_concat; eexists; split; [apply nth_In; exact Hl|exact Hx]).
        rewrite np_split_concat in Hc by exact Hcs0. exact Hc.
      - rewrite nth_overflow in Hx by exact Hl. contradiction. }
    destruct (bw_argsort_key keys ki i (Hsub _ _ Hi)) as [_ Eki].
    destruct (bw_argsort_key keys kj j (Hsub _ _ Hj)) as [_ Ekj].
    destruct (Nat.lt_trichotomy f g) as [Hlt|[Heq|Hgt]]; [|exact Heq|].
    + pose proof (split_separated srt 0 cuts Hcs0 Hbd f g _ _ Hlt Hi Hj) as Hsep. simpl in Hsep. lia.
    + pose proof (split_separated srt 0 cuts Hcs0 Hbd g f _ _ Hgt Hj Hi) as Hsep. simpl in Hsep. lia.
Qed.

(* ====================== row -> fold model ====================== *)
Lemma index_of_app_l r a b : In r a -> index_of r (a ++ b) = index_of r a.
Proof.
  induction a as [|x a IH]; [intros []|]. intros H. simpl.
  destruct (Nat.eqb_spec x r); [reflexivity|]. destruct H as [H|H]; [congruence|]. rewrite IH by exact H. reflexivity.
Qed.

Lemma index_of_app_r r a b : ~ In r a -> index_of r (a ++ b) = length a + index_of r b.
Proof.
  induction a as [|x a IH]; intros H; [reflexivity|]. simpl.
  destruct (Nat.eqb_spec x r) as [E|N]; [exfalso; apply H; left; exact E|].
  rewrite IH; [reflexivity|]. intros Hin. apply H. right. exact Hin.
Qed.

Lemma nth_repeat_eq {A} (x d : A) n i : i < n -> nth i (repeat x n) d = x.
Proof. revert i. induction n as [|n IH]; intros i H; [lia|]. destruct i; [reflexivity|]. simpl. apply IH. lia. Qed.

Lemma nodup_app_inv {A} (a b : list A) : NoDup (a ++ b) -> NoDup b /\ forall x, In x a -> ~ In x b.
Proof.
  induction a as [|h a IH]; simpl; intros H; [split; [exact H|intros x []]|].
  inversion H as [|? ? Hh Hnd]; subst. destruct (IH Hnd) as [Hb Hd]. split; [exact Hb|].
  intros x [<-|Hx]; [intros Hin; apply Hh; apply in_or_app; right; exact Hin|apply Hd; exact Hx].
Qed.

Lemma tag_nth folds : forall off r f, NoDup (concat folds) -> In r (nth f folds []) ->
  nth (index_of r (concat folds)) (bw_tag off folds) 0 = off + f.
Proof.
  induction folds as [|F rest IH]; intros off r f Hnd Hin; [destruct f; contradiction|].
  simpl concat in *. cbn [bw_tag]. destruct f as [|f]; cbn [nth] in Hin.
  - rewrite index_of_app_l by exact Hin.
    destruct (index_of_spec r F 0 Hin) as [Hlt _].
    rewrite app_nth1 by (rewrite repeat_length; exact Hlt).
    rewrite nth_repeat_eq by exact Hlt. lia.
  - assert (In r (concat rest)) as Hr.
    { apply in_concat. exists (nth f rest []). split; [|exact Hin].
      destruct (Nat.lt_ge_cases f (length rest)) as [H|H]; [apply nth_In; exact H|].
      rewrite nth_overflow in Hin by exact H. contradiction. }
    destruct (nodup_app_inv _ _ Hnd) as [Hnd' Hdisj].
    assert (~ In r F) as HnF by (intros HF; apply (Hdisj r HF); exact Hr).
    rewrite index_of_app_r by exact HnF.
    rewrite app_nth2 by (rewrite repeat_length; lia). rewrite repeat_length.
    replace (length F + index_of r (concat rest) - length F) with (index_of r (concat rest)) by lia.
    rewrite (IH (S off) r f); [lia|exact Hnd'|exact Hin].
Qed.

Theorem fold_of_spec folds n r f : NoDup (concat folds) -> r < n -> fold_index folds r f ->
  nth r (bw_fold_of folds n) 0 = f.
Proof.
  intros Hnd Hr Hin. unfold bw_fold_of.
  rewrite (nth_indep _ 0 ((fun r => nth (index_of r (concat folds)) (bw_tag 0 folds) 0) 0))
    by (rewrite map_length, seq_length; exact Hr).
  rewrite (map_nth (fun r => nth (index_of r (concat folds)) (bw_tag 0 folds) 0)).
  rewrite seq_nth by exact Hr. simpl Nat.add. apply (tag_nth folds 0 r f Hnd Hin).
Qed.

(* ====================== training sets ====================== *)
Lemma bw_mem_in x l : bw_mem x l = true <-> In x l.
Proof.
  unfold bw_mem. rewrite existsb_exists. split.
  - intros (y & Hy & E). apply Nat.eqb_eq in E. subst. exact Hy.
  - intros H. exists x. split; [exact H|apply Nat.eqb_refl].
Qed.

Lemma complement_spec n fold r : In r (bw_complement n fold) <-> r < n /\ ~ In r fold.
Proof.
  unfold bw_complement. rewrite filter_In, in_seq, negb_true_iff. split.
  - intros [Hr Hm]. split; [lia|]. intros Hin. apply bw_mem_in in Hin. congruence.
  - intros [Hr Hn]. split; [lia|]. destruct (bw_mem r fold) eqn:E; [|reflexivity].
    apply bw_mem_in in E. contradiction.
Qed.

(* the training rows of fold f contain neither a held-out PSM nor any PSM of a held-out spectrum;
   this holds for every sub-sample of the complement as well *)
Theorem train_disjoint keys k folds f chosen r :
  bw_split keys k = Ok folds -> incl chosen (bw_complement (length keys) (nth f folds [])) ->
  In r chosen ->
  ~ In r (nth f folds []) /\
  forall r', In r' (nth f folds []) -> nth r keys 0%Z <> nth r' keys 0%Z.
Proof.
  intros Hs Hincl Hr. apply Hincl in Hr. apply complement_spec in Hr. destruct Hr as [Hlt Hnot].
  split; [exact Hnot|]. intros r' Hr' Ekey.
  destruct (split_partition _ _ _ Hs) as (_ & Hperm & Hsame).
  assert (In r (concat folds)) as Hin by (apply (Permutation_in _ (Permutation_sym Hperm)); apply in_seq; lia).
  apply in_concat in Hin. destruct Hin as (F & HF & HrF).
  destruct (In_nth _ _ [] HF) as (g & _ & Eg). subst F.
  assert (g = f) as -> by (apply (Hsame r r' g f); [exact HrF|exact Hr'|exact Ekey]).
  contradiction.
Qed.

(* ====================== prediction: routing and un-permutation ====================== *)
Lemma flat_map_filter {A} (p : A -> bool) (ll : list (list A)) : flat_map (filter p) ll = filter p (concat ll).
Proof. induction ll as [|l ll IH]; simpl; [reflexivity|]. rewrite filter_app, IH. reflexivity. Qed.

Lemma filter_map_comm {A B} (p : B -> bool) (h : A -> B) l : filter p (map h l) = map h (filter (fun x => p (h x)) l).
Proof. induction l as [|x l IH]; simpl; [reflexivity|]. destruct (p (h x)); simpl; rewrite IH; reflexivity. Qed.

Lemma combine_as_map (A : list nat) (B : list bool) s :
  length B = length A ->
  combine (seq s (length A)) (combine A B)
  = map (fun r => (r, (nth (r - s) A 0, nth (r - s) B false))) (seq s (length A)).
Proof.
  revert s B. induction A as [|a A IH]; intros s [|b B] H; simpl in *; try lia; [reflexivity|].
  rewrite Nat.sub_diag. f_equal. rewrite IH by lia.
  apply map_ext_in. intros r Hr. apply in_seq in Hr.
  replace (r - s) with (S (r - S s)) by lia. reflexivity.
Qed.

Definition rows_of_fold (fold_of : list nat) (f : nat) : list nat :=
  filter (fun r => Nat.eqb (nth r fold_of 0) f) (seq 0 (length fold_of)).

(* raw scores of the rows of fold f, computed by fold model f *)
Definition fold_raw (raw : list (list Z)) (f : nat) (rows : list nat) : list Z :=
  map (fun r => nth r (nth f raw []) 0%Z) rows.

Definition fold_scores (do_cal : bool) (thr : Q) (targets : list bool) (raw : list (list Z))
           (f : nat) (rows : list nat) : result (list Q) :=
  if do_cal then calibrate (fold_raw raw f rows) (map (fun r => nth r targets false) rows) thr
  else Ok (map inject_Z (fold_raw raw f rows)).

Lemma collect_ok l cals : bw_collect l = Ok cals ->
  length cals = length l /\ forall f, f < length l -> nth f l (Err EFuel) = Ok (nth f cals []).
Proof.
  revert cals. induction l as [|x l IH]; intros cals; simpl.
  - intros E. injection E as <-. split; [reflexivity|intros; lia].
  - destruct x as [v|e].
    + destruct (bw_collect l) as [t|e'] eqn:E; [|discriminate]. intros H. injection H as <-.
      destruct (IH t eq_refl) as [Hl Hn]. split; [simpl; lia|].
      intros [|f] Hf; [reflexivity|]. simpl. apply Hn. lia.
    + destruct e; try discriminate; destruct (bw_collect l) as [t|[]]; discriminate.
Qed.

Lemma block_nth {V} (blocks : list (list nat)) (vals : list (list V)) f r d :
  Forall2 (fun b v => length b = length v) blocks vals ->
  (forall g, g < f -> ~ In r (nth g blocks [])) -> In r (nth f blocks []) ->
  nth (index_of r (concat blocks)) (concat vals) d = nth (index_of r (nth f blocks [])) (nth f vals []) d.
Proof.
  intros HF. revert f. induction HF as [|b v blocks vals Hbv HF IH]; intros f Hearlier Hin; [destruct f; contradiction|].
  simpl concat. destruct f as [|f]; cbn [nth] in *.
  - rewrite index_of_app_l by exact Hin.
    destruct (index_of_spec r b 0 Hin) as [Hlt _].
    apply app_nth1. rewrite <- Hbv. exact Hlt.
  - assert (~ In r b) as Hnb by (apply (Hearlier 0); lia).
    rewrite index_of_app_r by exact Hnb.
    rewrite app_nth2 by lia. rewrite <- Hbv.
    replace (length b + index_of r (concat blocks) - length b) with (index_of r (concat blocks)) by lia.
    apply IH; [|exact Hin]. intros g Hg. apply (Hearlier (S g)). lia.
Qed.

Lemma calibrate_length scores targets thr ys : calibrate scores targets thr = Ok ys -> length ys = length scores.
Proof.
  intros H. destruct (calibrate_spec _ _ _ _ H) as (labels & t & d & _ & _ & _ & _ & _ & ->).
  apply map_length.
Qed.

Lemma forall2_blocks {V} fold_of m s (cals : list (list V)) : length cals = m ->
  (forall g, g < m -> length (nth g cals []) = length (rows_of_fold fold_of (s + g))) ->
  Forall2 (fun b v => length b = length v) (map (rows_of_fold fold_of) (seq s m)) cals.
Proof.
  revert s cals. induction m as [|m IHm]; intros s [|v cals] Hl Hn; simpl in *; try lia; [constructor|].
  constructor; [specialize (Hn 0 ltac:(lia)); rewrite Nat.add_0_r in Hn; simpl in Hn; lia|].
  apply IHm; [lia|]. intros g Hg. specialize (Hn (S g) ltac:(lia)). simpl in Hn.
  replace (S s + g) with (s + S g) by lia. exact Hn.
Qed.

Section Predict.
Variables (do_cal : bool) (k : nat) (thr : Q) (fold_of : list nat) (targets : list bool) (raw : list (list Z)).
Hypothesis Hlen : length targets = length fold_of.

Let n := length fold_of.
Let rows : list bw_prow := combine (seq 0 n) (combine fold_of targets).

Lemma rows_as_map : rows = map (fun r => (r, (nth r fold_of 0, nth r targets false))) (seq 0 n).
Proof.
  unfold rows, n. rewrite combine_as_map by exact Hlen.
  apply map_ext. intros r. rewrite Nat.sub_0_r. reflexivity.
Qed.

Lemma per_fold_rows c f : 1 <= c ->
  flat_map (filter (fun x : bw_prow => Nat.eqb (bw_fold x) f)) (bw_chunks c rows)
  = map (fun r => (r, (nth r fold_of 0, nth r targets false))) (rows_of_fold fold_of f).
Proof.
  intros Hc. rewrite flat_map_filter. unfold bw_chunks. rewrite chunks_concat by exact Hc.
  rewrite rows_as_map, filter_map_comm. reflexivity.
Qed.

(* bw_predict, with the chunking removed *)
Definition predict_chunk_free : result (list Q) :=
  match bw_collect (map (fun f => fold_scores do_cal thr targets raw f (rows_of_fold fold_of f)) (seq 0 k)) with
  | Err e => Err e
  | Ok cals =>
      Ok (map (fun r => nth (index_of r (flat_map (rows_of_fold fold_of) (seq 0 k))) (concat cals) 0%Q) (seq 0 n))
  end.

Lemma predict_unchunk c : 1 <= c -> bw_predict do_cal c k thr fold_of targets raw = predict_chunk_free.
Proof.
  intros Hc. unfold bw_predict, predict_chunk_free. fold n. fold rows.
  destruct (Nat.eqb_spec c 0) as [E|_]; [lia|].
  assert (forall f, (if do_cal
            then calibrate (map (fun x : bw_prow => nth (bw_idx x) (nth f raw []) 0%Z)
                              (flat_map (filter (fun x : bw_prow => Nat.eqb (bw_fold x) f)) (bw_chunks c rows)))
                           (map bw_target (flat_map (filter (fun x : bw_prow => Nat.eqb (bw_fold x) f)) (bw_chunks c rows))) thr
            else Ok (map (fun x : bw_prow => inject_Z (nth (bw_idx x) (nth f raw []) 0%Z))
                       (flat_map (filter (fun x : bw_prow => Nat.eqb (bw_fold x) f)) (bw_chunks c rows))))
          = fold_scores do_cal thr targets raw f (rows_of_fold fold_of f)) as Hcal.
  { intros f. rewrite per_fold_rows by exact Hc. unfold fold_scores, fold_raw. rewrite !map_map. reflexivity. }
  rewrite (map_ext _ _ Hcal).
  destruct (bw_collect _) as [cals|e]; [|reflexivity].
  f_equal. apply map_ext. intros r. f_equal. f_equal.
  apply flat_map_ext. intros f. rewrite per_fold_rows by exact Hc. rewrite map_map. simpl. apply map_id.
Qed.

Theorem predict_chunk_independent c c' : 1 <= c -> 1 <= c' ->
  bw_predict do_cal c k thr fold_of targets raw = bw_predict do_cal c' k thr fold_of targets raw.
Proof. intros H H'. rewrite !predict_unchunk by assumption. reflexivity. Qed.

Hypothesis Hfold : forall r, r < n -> nth r fold_of 0 < k.

Theorem predict_spec c out : 1 <= c ->
  bw_predict do_cal c k thr fold_of targets raw = Ok out ->
  length out = n /\
  forall r, r < n ->
    let f := nth r fold_of 0 in
    exists ys, fold_scores do_cal thr targets raw f (rows_of_fold fold_of f) = Ok ys /\
               length ys = length (rows_of_fold fold_of f) /\
               In r (rows_of_fold fold_of f) /\
               nth r out 0%Q = nth (index_of r (rows_of_fold fold_of f)) ys 0%Q.
Proof.
  intros Hc. rewrite predict_unchunk by exact Hc. unfold predict_chunk_free.
  destruct (bw_collect _) as [cals|e] eqn:EC; [|discriminate].
  intros H. injection H as <-. split; [rewrite map_length, seq_length; reflexivity|].
  intros r Hr. set (f := nth r fold_of 0).
  destruct (collect_ok _ _ EC) as [Hcl Hcn]. rewrite map_length, seq_length in Hcl, Hcn.
  assert (f < k) as Hfk by (apply Hfold; exact Hr).
  specialize (Hcn f Hfk).
  rewrite (nth_indep _ (Err EFuel) ((fun f => fold_scores do_cal thr targets raw f (rows_of_fold fold_of f)) 0)) in Hcn
    by (rewrite map_length, seq_length; exact Hfk).
  rewrite (map_nth (fun f => fold_scores do_cal thr targets raw f (rows_of_fold fold_of f))) in Hcn.
  rewrite seq_nth in Hcn by exact Hfk. simpl in Hcn.
  exists (nth f cals []). split; [exact Hcn|].
  assert (forall g, g < k -> length (nth g cals []) = length (rows_of_fold fold_of g)) as Hlens.
  { intros g Hg. destruct (collect_ok _ _ EC) as [_ Hcn']. rewrite map_length, seq_length in Hcn'.
    specialize (Hcn' g Hg).
    rewrite (nth_indep _ (Err EFuel) ((fun f => fold_scores do_cal thr targets raw f (rows_of_fold fold_of f)) 0)) in Hcn'
      by (rewrite map_length, seq_length; exact Hg).
    rewrite (map_nth (fun f => fold_scores do_cal thr targets raw f (rows_of_fold fold_of f))) in Hcn'.
    rewrite seq_nth in Hcn' by exact Hg. simpl in Hcn'.
    unfold fold_scores in Hcn'. destruct do_cal.
    - apply calibrate_length in Hcn'. rewrite Hcn'. unfold fold_raw. apply map_length.
    - injection Hcn' as <-. unfold fold_raw. rewrite !map_length. reflexivity. }
  split; [apply Hlens; exact Hfk|].
  assert (In r (rows_of_fold fold_of f)) as Hin.
  { unfold rows_of_fold. apply filter_In. split; [apply in_seq; fold n; lia|]. apply Nat.eqb_refl. }
  split; [exact Hin|].
  rewrite (nth_indep _ 0%Q ((fun r => nth (index_of r (flat_map (rows_of_fold fold_of) (seq 0 k))) (concat cals) 0%Q) 0))
    by (rewrite map_length, seq_length; exact Hr).
  rewrite (map_nth (fun r => nth (index_of r (flat_map (rows_of_fold fold_of) (seq 0 k))) (concat cals) 0%Q)).
  rewrite seq_nth by exact Hr. simpl Nat.add.
  rewrite flat_map_concat_map.
  assert (nth f (map (rows_of_fold fold_of) (seq 0 k)) [] = rows_of_fold fold_of f) as Hnf.
  { rewrite (nth_indep _ [] (rows_of_fold fold_of 0)) by (rewrite map_length, seq_length; exact Hfk).
    rewrite map_nth, seq_nth by exact Hfk. reflexivity. }
  rewrite (block_nth (map (rows_of_fold fold_of) (seq 0 k)) cals f r 0%Q).
  - rewrite Hnf. reflexivity.
  - (* lengths agree blockwise *)
    apply forall2_blocks; [exact Hcl|]. intros g Hg. apply Hlens. exact Hg.
  - intros g Hg Hing.
    rewrite (nth_indep _ [] (rows_of_fold fold_of 0)) in Hing by (rewrite map_length, seq_length; lia).
    rewrite map_nth, seq_nth in Hing by lia. simpl in Hing.
    unfold rows_of_fold in Hing. apply filter_In in Hing. destruct Hing as [_ Hing].
    apply Nat.eqb_eq in Hing. fold f in Hing. lia.
  - rewrite Hnf. exact Hin.
Qed.
End Predict.

(* ====================== every row is scored by the model of its own fold ====================== *)
Theorem brew_fold_of_ok keys k folds : bw_split keys k = Ok folds ->
  length (bw_fold_of folds (length keys)) = length keys /\
  forall r, r < length keys ->
    exists f, f < k /\ fold_index folds r f /\ nth r (bw_fold_of folds (length keys)) 0 = f.
Proof.
  intros Hs. destruct (split_partition _ _ _ Hs) as (Hk & Hperm & _).
  split; [unfold bw_fold_of; rewrite map_length, seq_length; reflexivity|].
  intros r Hr.
  assert (NoDup (concat folds)) as Hnd.
  { apply (Permutation_NoDup (Permutation_sym Hperm)). apply seq_NoDup. }
  assert (In r (concat folds)) as Hin by (apply (Permutation_in _ (Permutation_sym Hperm)); apply in_seq; lia).
  apply in_concat in Hin. destruct Hin as (F & HF & HrF).
  destruct (In_nth _ _ [] HF) as (f & Hf & Ef). subst F.
  exists f. split; [lia|]. split; [exact HrF|]. apply fold_of_spec; assumption.
Qed.

Theorem predict_per_fold : forall k thr fold_of targets raw,
  length targets = length fold_of ->
  (forall r, r < length fold_of -> nth r fold_of 0 < k)%nat ->
  forall c out, (1 <= c)%nat ->
  bw_predict true c k thr fold_of targets raw = Ok out ->
  forall r, (r < length fold_of)%nat ->
    let f := nth r fold_of 0%nat in
    let rows_f := rows_of_fold fold_of f in
    exists ys, calibrate (fold_raw raw f rows_f) (map (fun r' => nth r' targets false) rows_f) thr = Ok ys /\
               nth r out 0%Q = nth (index_of r rows_f) ys 0%Q.
Proof.
  intros k thr fold_of targets raw Hl Hf c out Hc H r Hr.
  destruct (predict_spec true k thr fold_of targets raw Hl Hf c out Hc H) as [_ G].
  destruct (G r Hr) as (ys & Hys & _ & _ & Hn). exists ys. split; [exact Hys|exact Hn].
Qed.

(* ====================== C04: the held-out fold cannot influence its own model ====================== *)
Theorem train_noninterference {row : Type} (tbl tbl' : list row) fold :
  length tbl = length tbl' ->
  (forall i, ~ In i fold -> nth_error tbl i = nth_error tbl' i) ->
  map (nth_error tbl) (bw_complement (length tbl) fold)
  = map (nth_error tbl') (bw_complement (length tbl') fold).
Proof.
  intros Hl Hag. rewrite <- Hl. apply map_ext_in. intros i Hi.
  apply complement_spec in Hi. apply Hag. tauto.
Qed.
