(* Proofs about Model/Buffered.v (C13): the BufferedWriter loses, duplicates and reorders nothing. *)
From Coq Require Import Lia.
From Mokaverif Require Import Model.Base Model.Chunks Model.Buffered Proofs.ChunksP.
Open Scope nat_scope.

Section BwP.
Context {A : Type}.
Implicit Types buf d : list A.
Implicit Types em : list (list A).

(* ---------- the flush loop ---------- *)
(* fuel S (length buf) is never exhausted when 1 <= b; the loop peels off full batches *)
Lemma bw_flush_ok b : 0 < b -> forall fuel buf em, length buf < fuel ->
  exists full rest, bw_flush fuel b buf em = Ok (rest, em ++ full)
    /\ concat full ++ rest = buf /\ Forall (fun x => length x = b) full /\ length rest < b.
Proof.
  intros Hb fuel. induction fuel as [|f IH]; intros buf em Hf; [lia|].
  cbn [bw_flush]. destruct (Nat.leb b (length buf)) eqn:E.
  - apply Nat.leb_le in E.
    destruct (IH (skipn b buf) (em ++ [firstn b buf])) as [full [rest [Hfl [Hcat [Hall Hrest]]]]].
    { rewrite skipn_length. lia. }
    exists (firstn b buf :: full), rest. repeat split.
    + rewrite Hfl. rewrite <- app_assoc. reflexivity.
    + simpl. rewrite <- app_assoc, Hcat. apply firstn_skipn.
    + constructor; [rewrite firstn_length; lia | exact Hall].
    + exact Hrest.
  - apply Nat.leb_gt in E. exists [], buf. repeat split.
    + rewrite app_nil_r. reflexivity.
    + constructor.
    + exact E.
Qed.

Lemma bw_flush_never_out_of_fuel b buf em : 0 < b -> bw_flush (S (length buf)) b buf em <> Err EFuel.
Proof.
  intros Hb. destruct (bw_flush_ok b Hb (S (length buf)) buf em) as [full [rest [H _]]]; [lia|].
  rewrite H. discriminate.
Qed.

(* a buffer already shorter than b is left alone *)
Lemma bw_flush_short b fuel buf em : length buf < b -> 0 < fuel -> bw_flush fuel b buf em = Ok (buf, em).
Proof.
  intros Hlt Hf. destruct fuel; [lia|]. cbn [bw_flush].
  destruct (Nat.leb b (length buf)) eqn:E; [apply Nat.leb_le in E; lia | reflexivity].
Qed.

(* ---------- the invariant ---------- *)
(* after every append: everything appended so far is either emitted or pending, in order; every
   emitted batch is full; fewer than b rows are pending *)
Definition bw_inv (b : nat) (appended : list A) (s : bw_state A) : Prop :=
  concat (bw_emitted s) ++ bw_pending s = appended
  /\ Forall (fun x => length x = b) (bw_emitted s)
  /\ length (bw_pending s) < b.

Lemma bw_inv_init b : 0 < b -> bw_inv b [] bw_init.
Proof. intros Hb. unfold bw_inv, bw_init, bw_pending. simpl. repeat split; [constructor | exact Hb]. Qed.

Lemma bw_append_inv b k s appended d : 0 < b -> bw_accepts k d = true -> bw_inv b appended s ->
  exists s', bw_append b k s d = Ok s' /\ bw_inv b (appended ++ d) s' /\ bw_buffer s' <> None.
Proof.
  intros Hb Hacc [Hcat [Hall Hpen]]. unfold bw_append. rewrite Hacc.
  assert (Ebuf : match bw_buffer s with None => d | Some x => x ++ d end = bw_pending s ++ d).
  { unfold bw_pending. destruct (bw_buffer s); reflexivity. }
  rewrite Ebuf.
  destruct (bw_flush_ok b Hb (S (length (bw_pending s ++ d))) (bw_pending s ++ d) (bw_emitted s))
    as [full [rest [Hfl [Hc [Hf Hr]]]]]; [lia|].
  rewrite Hfl. eexists. split; [reflexivity|]. split; [|discriminate].
  unfold bw_inv, bw_pending. simpl. repeat split.
  - rewrite concat_app, <- app_assoc, Hc, app_assoc, Hcat. reflexivity.
  - apply Forall_app. split; assumption.
  - exact Hr.
Qed.

Lemma bw_append_rejects b k s d : bw_accepts k d = false -> bw_append b k s d = Err EType.
Proof. intros H. unfold bw_append. rewrite H. reflexivity. Qed.

Lemma bw_appends_inv b k : 0 < b -> forall ds s appended,
  Forall (fun d => bw_accepts k d = true) ds -> bw_inv b appended s ->
  exists s', bw_appends b k s ds = Ok s' /\ bw_inv b (appended ++ concat ds) s'.
Proof.
  intros Hb ds. induction ds as [|d ds IH]; intros s appended Hacc Hinv.
  - exists s. simpl. rewrite app_nil_r. split; [reflexivity | exact Hinv].
  - inversion Hacc as [|? ? Hd Hds]; subst.
    destruct (bw_append_inv b k s appended d Hb Hd Hinv) as [s1 [H1 [Hinv1 _]]].
    destruct (IH s1 (appended ++ d) Hds Hinv1) as [s2 [H2 Hinv2]].
    exists s2. simpl. rewrite H1. split; [exact H2|]. rewrite app_assoc. exact Hinv2.
Qed.

(* ---------- finalize ---------- *)
Lemma bw_finalize_inv b s appended : 0 < b -> bw_inv b appended s ->
  exists s', bw_finalize b s = Ok s'
    /\ bw_emitted s' = bw_emitted s ++ (match bw_pending s with [] => [] | _ :: _ => [bw_pending s] end)
    /\ bw_pending s' = [].
Proof.
  intros Hb [Hcat [Hall Hpen]]. unfold bw_finalize, bw_pending in *.
  destruct (bw_buffer s) as [buf|] eqn:Eb.
  - rewrite bw_flush_short by (exact Hpen || lia).
    destruct buf as [|x buf].
    + eexists. split; [reflexivity|]. simpl. rewrite app_nil_r. split; reflexivity.
    + eexists. split; [reflexivity|]. simpl. split; reflexivity.
  - exists s. rewrite Eb. simpl. rewrite app_nil_r. repeat split; reflexivity.
Qed.

(* full batches followed by an optional short rest are exactly the b-chunks of the whole *)
Lemma bw_chunks_pos_irrel c fuel p1 p2 (l : list A) :
  map snd (ch_chunks_at fuel c p1 l) = map snd (ch_chunks_at fuel c p2 l).
Proof.
  revert p1 p2 l; induction fuel as [|f IH]; intros p1 p2 l; [reflexivity|].
  destruct l as [|x l]; [reflexivity|]. cbn [ch_chunks_at map snd]. f_equal. apply IH.
Qed.

Lemma bw_chunks_app_full c (x l : list A) : 0 < c -> length x = c -> ch_chunks c (x ++ l) = x :: ch_chunks c l.
Proof.
  intros Hc Hx. unfold ch_chunks, ch_chunks_pos.
  destruct x as [|a x]; [simpl in Hx; lia|].
  change ((a :: x) ++ l) with (a :: (x ++ l)).
  cbn [length ch_chunks_at map snd].
  change (a :: (x ++ l)) with ((a :: x) ++ l).
  rewrite firstn_app, skipn_app, Hx, Nat.sub_diag. simpl firstn at 2. simpl skipn at 2.
  rewrite firstn_all2 by lia. rewrite skipn_all2 by lia. rewrite !app_nil_r. simpl app at 2.
  f_equal.
  rewrite (bw_chunks_pos_irrel c _ (0 + c) 0).
  f_equal. apply ch_chunks_at_fuel2; [exact Hc | rewrite app_length; simpl in Hx; lia | lia].
Qed.

Lemma bw_batches_are_chunks b full (rest : list A) : 0 < b ->
  Forall (fun x => length x = b) full -> length rest < b ->
  full ++ (match rest with [] => [] | _ :: _ => [rest] end) = ch_chunks b (concat full ++ rest).
Proof.
  intros Hb Hall Hr. induction Hall as [|x full Hx Hall IH].
  - simpl. destruct rest as [|y rest]; [reflexivity|].
    unfold ch_chunks, ch_chunks_pos. cbn [length ch_chunks_at map snd].
    rewrite firstn_all2 by lia. rewrite skipn_all2 by lia.
    destruct (length rest); reflexivity.
  - simpl. rewrite <- app_assoc. rewrite bw_chunks_app_full by assumption. f_equal. exact IH.
Qed.

(* ---------- the run: initialize; appends; finalize ---------- *)
Theorem bw_run_ok b k ds : 0 < b -> Forall (fun d => bw_accepts k d = true) ds ->
  exists s, bw_run b k ds = Ok s
    /\ bw_emitted s = ch_chunks b (concat ds)
    /\ bw_pending s = [].
Proof.
  intros Hb Hacc. unfold bw_run.
  destruct (bw_appends_inv b k Hb ds bw_init [] Hacc (bw_inv_init b Hb)) as [s1 [H1 Hinv1]].
  rewrite H1. simpl in Hinv1.
  destruct (bw_finalize_inv b s1 _ Hb Hinv1) as [s2 [H2 [Hem Hp]]].
  exists s2. split; [exact H2|]. split; [|exact Hp].
  destruct Hinv1 as [Hcat [Hall Hpen]].
  rewrite Hem, <- Hcat. apply bw_batches_are_chunks; assumption.
Qed.

(* the property in the words of the design: nothing lost or reordered, all emitted batches but the
   last are full, none is empty or longer than b, the buffer is emptied *)
Theorem bw_run_spec b k ds : 0 < b -> Forall (fun d => bw_accepts k d = true) ds ->
  exists s, bw_run b k ds = Ok s
    /\ concat (bw_emitted s) = concat ds
    /\ (forall i x, nth_error (bw_emitted s) i = Some x -> S i < length (bw_emitted s) -> length x = b)
    /\ Forall (fun x => x <> [] /\ length x <= b) (bw_emitted s)
    /\ bw_pending s = [].
Proof.
  intros Hb Hacc. destruct (bw_run_ok b k ds Hb Hacc) as [s [Hrun [Hem Hp]]].
  exists s. split; [exact Hrun|]. rewrite Hem. repeat split.
  - apply ch_chunks_concat. exact Hb.
  - intros i x Hi Hl. eapply ch_chunks_full; eassumption.
  - apply Forall_forall. intros x Hx. split.
    + assert (H := ch_chunks_nonempty b (concat ds) Hb). rewrite Forall_forall in H. apply H. exact Hx.
    + eapply ch_chunks_length_le; eassumption.
  - exact Hp.
Qed.

(* the invariant after each prefix of the append sequence *)
Theorem bw_prefix_inv b k ds1 ds2 : 0 < b -> Forall (fun d => bw_accepts k d = true) (ds1 ++ ds2) ->
  exists s, bw_appends b k bw_init ds1 = Ok s /\ bw_inv b (concat ds1) s.
Proof.
  intros Hb Hacc. apply Forall_app in Hacc. destruct Hacc as [H1 _].
  destruct (bw_appends_inv b k Hb ds1 bw_init [] H1 (bw_inv_init b Hb)) as [s [Hs Hinv]].
  exists s. split; assumption.
Qed.

(* a rejected append (typeguard) is the only way a run with 1 <= b fails *)
Lemma bw_run_rejected b k ds : 0 < b -> ~ Forall (fun d => bw_accepts k d = true) ds -> bw_run b k ds = Err EType.
Proof.
  intros Hb Hn. unfold bw_run.
  assert (G : forall s appended, bw_inv b appended s -> bw_appends b k s ds = Err EType).
  { induction ds as [|d ds IH]; intros s appended Hinv.
    - exfalso. apply Hn. constructor.
    - simpl. destruct (bw_accepts k d) eqn:E.
      + destruct (bw_append_inv b k s appended d Hb E Hinv) as [s1 [H1 [Hinv1 _]]]. rewrite H1.
        apply (IH ltac:(intros HF; apply Hn; constructor; assumption) s1 _ Hinv1).
      + rewrite bw_append_rejects by exact E. reflexivity. }
  rewrite (G bw_init [] (bw_inv_init b Hb)). reflexivity.
Qed.

(* ---------- from_suffix: buffered for b > 1, the plain file writer otherwise ---------- *)
Theorem bw_from_suffix_ok b k ds :
  (1 < b /\ Forall (fun d => bw_accepts k d = true) ds) \/ (b <= 1 /\ k = BwFrame) ->
  exists batches, bw_from_suffix b k ds = Ok (batches, 0)
    /\ bw_file batches = concat ds
    /\ (1 < b -> batches = ch_chunks b (concat ds)).
Proof.
  intros [[Hb Hacc]|[Hb Hk]]; unfold bw_from_suffix.
  - assert (E : Nat.ltb 1 b = true) by (apply Nat.ltb_lt; exact Hb). rewrite E.
    destruct (bw_run_ok b k ds ltac:(lia) Hacc) as [s [Hrun [Hem Hp]]].
    rewrite Hrun, Hp. exists (bw_emitted s). split; [reflexivity|]. split.
    + unfold bw_file. rewrite Hem. apply ch_chunks_concat. lia.
    + intros _. exact Hem.
  - assert (E : Nat.ltb 1 b = false) by (apply Nat.ltb_ge; exact Hb). rewrite E. subst k.
    exists ds. split; [reflexivity|]. split; [reflexivity | lia].
Qed.
End BwP.
