(* Proofs about Model/PepxmlPost.v (C20, DESIGN R2.20): the options of read_pepxml and the returned table. *)
From Coq Require Import Lia Sorted.
From Mokaverif Require Import Model.Base Model.Pepxml Model.PepxmlPost Proofs.BaseP Proofs.PepxmlP.
Open Scope Z_scope.

(* ====================================================================== *)
(* Generic lemmas                                                         *)
(* ====================================================================== *)
Lemma pxp_mapM_ok {A B} (f : A -> result B) l ys :
  px_mapM f l = Ok ys <-> Forall2 (fun x y => f x = Ok y) l ys.
Proof.
  revert ys; induction l as [|x l IH]; intros ys; cbn [px_mapM].
  - split; [intros H; injection H as <-; constructor | intros H; inversion H; reflexivity].
  - destruct (f x) as [y|e] eqn:Ef.
    + destruct (px_mapM f l) as [ys'|e'].
      * split.
        -- intros H; injection H as <-. constructor; [exact Ef | apply IH; reflexivity].
        -- intros H; inversion H as [|x0 y0 l0 ys0 Hxy Hr]; subst.
           apply IH in Hr. injection Hr as <-. congruence.
      * split; [discriminate|]. intros H; inversion H as [|x0 y0 l0 ys0 Hxy Hr]; subst.
        apply IH in Hr. discriminate.
    + split; [discriminate|]. intros H; inversion H as [|x0 y0 l0 ys0 Hxy Hr]; subst. congruence.
Qed.

Lemma pxp_mapM_err {A B} (f : A -> result B) l e :
  px_mapM f l = Err e -> exists x, In x l /\ f x = Err e.
Proof.
  induction l as [|x l IH]; cbn [px_mapM]; [discriminate|].
  destruct (f x) as [y|e'] eqn:Ef.
  - destruct (px_mapM f l) as [ys|e''].
    + discriminate.
    + intros H; injection H as <-. destruct (IH eq_refl) as (x' & Hin & Hx').
      exists x'. split; [right; exact Hin | exact Hx'].
  - intros H; injection H as <-. exists x. split; [left; reflexivity | exact Ef].
Qed.

Lemma pxp_mapM_total {A B} (f : A -> result B) l :
  (forall x, In x l -> exists y, f x = Ok y) -> exists ys, px_mapM f l = Ok ys.
Proof.
  intros H. destruct (px_mapM f l) as [ys|e] eqn:E; [eauto|].
  apply pxp_mapM_err in E. destruct E as (x & Hin & Hx). destruct (H x Hin) as (y & Hy). congruence.
Qed.

Lemma pxp_mapM_has_err {A B} (f : A -> result B) l x e :
  In x l -> f x = Err e -> exists e', px_mapM f l = Err e'.
Proof.
  intros Hin Hx. destruct (px_mapM f l) as [ys|e'] eqn:E; [|eauto].
  apply pxp_mapM_ok in E. exfalso. revert ys E. induction l as [|a l IH]; intros ys E; [destruct Hin|].
  inversion E as [|x0 y0 l0 ys0 Hxy Hr]; subst. destruct Hin as [->|Hin]; [congruence | eauto].
Qed.

Lemma pxp_mapM_ext {A B} (f g : A -> result B) l :
  (forall x, In x l -> f x = g x) -> px_mapM f l = px_mapM g l.
Proof.
  induction l as [|x l IH]; intros H; cbn [px_mapM]; [reflexivity|].
  rewrite (H x (or_introl eq_refl)), IH; [reflexivity|]. intros y Hy. apply H. right; exact Hy.
Qed.

Lemma pxp_Forall2_map_l {A B C} (R : B -> C -> Prop) (f : A -> B) l l' :
  Forall2 R (map f l) l' <-> Forall2 (fun a c => R (f a) c) l l'.
Proof.
  revert l'; induction l as [|a l IH]; intros l'; cbn [map].
  - split; intros H; inversion H; constructor.
  - split; intros H; inversion H; subst; constructor; try assumption; apply IH; assumption.
Qed.

Lemma pxp_Forall2_map_r {A B C} (R : A -> C -> Prop) (f : B -> C) l l' :
  Forall2 (fun a b => R a (f b)) l l' -> Forall2 R l (map f l').
Proof. induction 1; cbn [map]; constructor; assumption. Qed.

Lemma pxp_Forall2_eq_map {A B} (f : A -> B) l l' :
  Forall2 (fun a b => b = f a) l l' -> l' = map f l.
Proof. induction 1; cbn [map]; congruence. Qed.

(* ---------- the ordered set of names ---------- *)
Lemma pxp_dedup_in seen l x :
  In x (px_dedup_from seen l) <-> In x l /\ ~ In x seen.
Proof.
  revert seen; induction l as [|y l IH]; intros seen; cbn [px_dedup_from].
  - split; [intros [] | intros ([] & _)].
  - destruct (mem_str y seen) eqn:E.
    + apply b_mem_str_in in E. rewrite IH. split.
      * intros (H1 & H2). split; [right; exact H1 | exact H2].
      * intros ([->|H1] & H2); [contradiction | split; assumption].
    + apply b_mem_str_notin in E. cbn [In]. rewrite IH. cbn [In]. split.
      * intros [->|(H1 & H2)]; [split; [left; reflexivity | exact E] | split; [right; exact H1 | tauto]].
      * intros ([->|H1] & H2); [left; reflexivity|].
        destruct (list_eq_dec Z.eq_dec y x) as [->|Hne]; [left; reflexivity | right].
        split; [exact H1 | intros [H|H]; [exact (Hne H) | exact (H2 H)]].
Qed.

Lemma pxp_dedup_nodup seen l : NoDup (px_dedup_from seen l).
Proof.
  revert seen; induction l as [|y l IH]; intros seen; cbn [px_dedup_from]; [constructor|].
  destruct (mem_str y seen); [apply IH|]. constructor; [|apply IH].
  rewrite pxp_dedup_in. cbn [In]. tauto.
Qed.

Lemma pxp_dedup_ext seen seen' l :
  (forall x, In x seen <-> In x seen') -> px_dedup_from seen l = px_dedup_from seen' l.
Proof.
  revert seen seen'; induction l as [|y l IH]; intros seen seen' H; cbn [px_dedup_from]; [reflexivity|].
  assert (E : mem_str y seen = mem_str y seen').
  { destruct (mem_str y seen) eqn:E1, (mem_str y seen') eqn:E2; try reflexivity.
    - apply b_mem_str_in in E1. apply b_mem_str_notin in E2. apply H in E1. contradiction.
    - apply b_mem_str_notin in E1. apply b_mem_str_in in E2. apply H in E2. contradiction. }
  rewrite E. destruct (mem_str y seen').
  - apply IH; exact H.
  - f_equal. apply IH. intros x. cbn [In]. rewrite H. tauto.
Qed.

Lemma pxp_dedup_app seen l1 l2 :
  px_dedup_from seen (l1 ++ l2) = px_dedup_from seen l1 ++ px_dedup_from (rev l1 ++ seen) l2.
Proof.
  revert seen; induction l1 as [|y l1 IH]; intros seen; cbn [px_dedup_from app rev]; [reflexivity|].
  destruct (mem_str y seen) eqn:E.
  - rewrite IH. f_equal. apply pxp_dedup_ext. intros x. rewrite !in_app_iff. cbn [In].
    apply b_mem_str_in in E. split; [tauto|]. intros [[H|[->|[]]]|H]; tauto.
  - cbn [app]. rewrite IH. f_equal. f_equal. apply pxp_dedup_ext. intros x. rewrite !in_app_iff. cbn [In]. tauto.
Qed.

Lemma pxp_dedup_skip seen l1 l2 :
  (forall x, In x l1 -> In x seen) -> px_dedup_from seen (l1 ++ l2) = px_dedup_from seen l2.
Proof.
  induction l1 as [|y l1 IH]; intros H; cbn [app px_dedup_from]; [reflexivity|].
  assert (E : mem_str y seen = true) by (apply b_mem_str_in, H; left; reflexivity).
  rewrite E. apply IH. intros x Hx. apply H. right; exact Hx.
Qed.

(* first-appearance order: a name whose first occurrence comes before every occurrence of another
   name also comes before it among the columns *)
Lemma pxp_dedup_order l1 x l2 y :
  ~ In x l1 -> ~ In y l1 ->
  exists d1 d2, px_dedup_from [] (l1 ++ x :: l2) = d1 ++ x :: d2 /\ ~ In x d1 /\ ~ In y d1.
Proof.
  intros Hx Hy. rewrite pxp_dedup_app. cbn [px_dedup_from].
  assert (E : mem_str x (rev l1 ++ []) = false).
  { apply b_mem_str_notin. rewrite app_nil_r, <- in_rev. exact Hx. }
  rewrite E. eexists; eexists. split; [reflexivity|].
  split; intros H; apply pxp_dedup_in in H; tauto.
Qed.

(* ---------- minimum / maximum of a non-empty list ---------- *)
Lemma pxp_qle_bool a b : Qle_bool a b = true <-> (a <= b)%Q.
Proof. apply Qle_bool_iff. Qed.

Lemma pxp_qle_bool_false a b : Qle_bool a b = false -> (b < a)%Q.
Proof.
  intros H. apply Qnot_le_lt. intros Hle. apply pxp_qle_bool in Hle. congruence.
Qed.

Lemma pxp_qlt a b : px_qlt a b = true <-> (a < b)%Q.
Proof.
  unfold px_qlt. destruct (Qle_bool b a) eqn:E; cbn [negb].
  - apply pxp_qle_bool in E. split; [discriminate|]. intros H. exfalso. exact (Qlt_not_le _ _ H E).
  - split; [intros _; apply pxp_qle_bool_false; exact E | reflexivity].
Qed.

Lemma pxp_qmin_from_spec l : forall x,
  In (px_qmin_from x l) (x :: l) /\ forall y, In y (x :: l) -> (px_qmin_from x l <= y)%Q.
Proof.
  unfold px_qmin_from. induction l as [|a l IH]; intros x; cbn [fold_left].
  - split; [left; reflexivity|]. intros y [<-|[]]. apply Qle_refl.
  - destruct (IH (px_qmin x a)) as (Hin & Hle). split.
    + destruct Hin as [Hin|Hin]; [|right; right; exact Hin].
      rewrite <- Hin. unfold px_qmin. destruct (Qle_bool x a); [left | right; left]; reflexivity.
    + intros y Hy.
      assert (Hm : (px_qmin x a <= x)%Q /\ (px_qmin x a <= a)%Q).
      { unfold px_qmin. destruct (Qle_bool x a) eqn:E.
        - apply pxp_qle_bool in E. split; [apply Qle_refl | exact E].
        - apply pxp_qle_bool_false in E. split; [apply Qlt_le_weak; exact E | apply Qle_refl]. }
      destruct Hy as [<-|[<-|Hy]].
      * eapply Qle_trans; [apply Hle; left; reflexivity | apply Hm].
      * eapply Qle_trans; [apply Hle; left; reflexivity | apply Hm].
      * apply Hle. right; exact Hy.
Qed.

Lemma pxp_qmax_from_spec l : forall x,
  In (px_qmax_from x l) (x :: l) /\ forall y, In y (x :: l) -> (y <= px_qmax_from x l)%Q.
Proof.
  unfold px_qmax_from. induction l as [|a l IH]; intros x; cbn [fold_left].
  - split; [left; reflexivity|]. intros y [<-|[]]. apply Qle_refl.
  - destruct (IH (px_qmax x a)) as (Hin & Hle). split.
    + destruct Hin as [Hin|Hin]; [|right; right; exact Hin].
      rewrite <- Hin. unfold px_qmax. destruct (Qle_bool x a); [right; left | left]; reflexivity.
    + intros y Hy.
      assert (Hm : (x <= px_qmax x a)%Q /\ (a <= px_qmax x a)%Q).
      { unfold px_qmax. destruct (Qle_bool x a) eqn:E.
        - apply pxp_qle_bool in E. split; [exact E | apply Qle_refl].
        - apply pxp_qle_bool_false in E. split; [apply Qle_refl | apply Qlt_le_weak; exact E]. }
      destruct Hy as [<-|[<-|Hy]].
      * eapply Qle_trans; [apply Hm | apply Hle; left; reflexivity].
      * eapply Qle_trans; [apply Hm | apply Hle; left; reflexivity].
      * apply Hle. right; exact Hy.
Qed.

Lemma pxp_zmin_from_spec l : forall x,
  In (px_zmin_from x l) (x :: l) /\ forall y, In y (x :: l) -> px_zmin_from x l <= y.
Proof.
  unfold px_zmin_from. induction l as [|a l IH]; intros x; cbn [fold_left].
  - split; [left; reflexivity|]. intros y [<-|[]]. lia.
  - destruct (IH (Z.min x a)) as (Hin & Hle). split.
    + destruct Hin as [Hin|Hin]; [|right; right; exact Hin].
      rewrite <- Hin. destruct (Z.min_spec x a) as [(_ & ->)|(_ & ->)]; [left | right; left]; reflexivity.
    + intros y Hy. pose proof (Hle _ (or_introl eq_refl)) as H0.
      destruct Hy as [<-|[<-|Hy]]; [lia | lia | apply Hle; right; exact Hy].
Qed.

Lemma pxp_zmax_from_spec l : forall x,
  In (px_zmax_from x l) (x :: l) /\ forall y, In y (x :: l) -> y <= px_zmax_from x l.
Proof.
  unfold px_zmax_from. induction l as [|a l IH]; intros x; cbn [fold_left].
  - split; [left; reflexivity|]. intros y [<-|[]]. lia.
  - destruct (IH (Z.max x a)) as (Hin & Hle). split.
    + destruct Hin as [Hin|Hin]; [|right; right; exact Hin].
      rewrite <- Hin. destruct (Z.max_spec x a) as [(_ & ->)|(_ & ->)]; [right; left | left]; reflexivity.
    + intros y Hy. pose proof (Hle _ (or_introl eq_refl)) as H0.
      destruct Hy as [<-|[<-|Hy]]; [lia | lia | apply Hle; right; exact Hy].
Qed.

(* ---------- sorted(set(charges)) ---------- *)
Lemma pxp_zinsert_in x l y : In y (px_zinsert x l) <-> y = x \/ In y l.
Proof.
  induction l as [|a l IH]; cbn [px_zinsert In]; [intuition congruence|].
  destruct (x <? a) eqn:E1; cbn [In]; [intuition congruence|].
  destruct (x =? a) eqn:E2; cbn [In].
  - apply Z.eqb_eq in E2. subst. intuition congruence.
  - rewrite IH. intuition congruence.
Qed.

Lemma pxp_zinsert_sorted x l : StronglySorted Z.lt l -> StronglySorted Z.lt (px_zinsert x l).
Proof.
  induction l as [|a l IH]; intros HS; cbn [px_zinsert]; [repeat constructor|].
  inversion HS as [|a0 l0 HS' HF]; subst.
  destruct (x <? a) eqn:E1.
  - apply Z.ltb_lt in E1. constructor; [exact HS|]. constructor; [exact E1|].
    eapply Forall_impl; [|exact HF]. intros z Hz. cbn beta in Hz. lia.
  - destruct (x =? a) eqn:E2; [exact HS|].
    apply Z.ltb_ge in E1. apply Z.eqb_neq in E2. constructor; [apply IH; exact HS'|].
    apply Forall_forall. intros z Hz. apply pxp_zinsert_in in Hz. destruct Hz as [->|Hz]; [lia|].
    rewrite Forall_forall in HF. apply HF; exact Hz.
Qed.

Lemma pxp_charges_sorted rows : StronglySorted Z.lt (px_charges rows).
Proof.
  unfold px_charges. induction (map p_charge rows) as [|c l IH]; cbn [fold_right]; [constructor|].
  apply pxp_zinsert_sorted; exact IH.
Qed.

Lemma pxp_charges_in rows c : In c (px_charges rows) <-> exists p, In p rows /\ p_charge p = c.
Proof.
  unfold px_charges. induction rows as [|r rows IH]; cbn [map fold_right].
  - split; [intros [] | intros (p & [] & _)].
  - rewrite pxp_zinsert_in, IH. split.
    + intros [->|(p & Hp & Hc)]; [exists r; split; [left|]; reflexivity | exists p; split; [right|]; assumption].
    + intros (p & [<-|Hp] & Hc); [left; symmetry; exact Hc | right; exists p; split; assumption].
Qed.

Lemma pxp_sorted_nodup l : StronglySorted Z.lt l -> NoDup l.
Proof.
  induction 1 as [|a l HS IH HF]; constructor; [|exact IH].
  intros Hin. rewrite Forall_forall in HF. specialize (HF _ Hin). lia.
Qed.

(* one-hot: in the list of charge columns exactly the one of the row's own charge is set *)
Lemma pxp_onehot l c :
  StronglySorted Z.lt l -> In c l ->
  exists a b, l = a ++ c :: b /\
    map (fun c' => c =? c') l = map (fun _ => false) a ++ true :: map (fun _ => false) b.
Proof.
  intros HS Hin. apply pxp_sorted_nodup in HS.
  destruct (in_split _ _ Hin) as (a & b & ->). exists a, b. split; [reflexivity|].
  rewrite map_app. cbn [map]. rewrite Z.eqb_refl.
  apply NoDup_remove_2 in HS. rewrite in_app_iff in HS.
  f_equal; [|f_equal]; apply map_ext_in; intros z Hz; apply Z.eqb_neq; intros ->; tauto.
Qed.

(* ---------- str(int): reading the digits back gives the number (so the names charge_<n> are distinct) ---------- *)
Local Arguments Z.pow : simpl never.
Local Arguments Z.mul : simpl never.
Local Arguments Z.add : simpl never.
Local Arguments Z.div : simpl never.
Local Arguments Z.modulo : simpl never.
Local Arguments Z.of_nat : simpl never.

Definition pxp_digit (c : Z) : Prop := 48 <= c <= 57.

Lemma pxp_parse_nat_digit a c r : pxp_digit c -> px_parse_nat a (c :: r) = px_parse_nat (10 * a + (c - 48)) r.
Proof.
  intros (H1 & H2). cbn [px_parse_nat].
  replace (48 <=? c) with true by (symmetry; apply Z.leb_le; exact H1).
  replace (c <=? 57) with true by (symmetry; apply Z.leb_le; exact H2). reflexivity.
Qed.

Lemma pxp_digits_S f n acc :
  px_digits (S f) n acc = if n <? 10 then (48 + n) :: acc else px_digits f (n / 10) ((48 + n mod 10) :: acc).
Proof. reflexivity. Qed.

Lemma pxp_digits_spec f : forall n acc,
  0 <= n < 2 ^ Z.of_nat (S f) ->
  exists ds, px_digits (S f) n acc = ds ++ acc /\ ds <> [] /\ Forall pxp_digit ds /\
    forall a r, px_parse_nat a (ds ++ r) = px_parse_nat (a * 10 ^ Z.of_nat (length ds) + n) r.
Proof.
  induction f as [|f IH]; intros n acc Hn.
  - assert (Hlt : n < 2) by (change (2 ^ Z.of_nat 1) with 2 in Hn; lia).
    rewrite pxp_digits_S. replace (n <? 10) with true by (symmetry; apply Z.ltb_lt; lia).
    exists [48 + n]. split; [reflexivity|]. split; [discriminate|]. split.
    + constructor; [unfold pxp_digit; lia | constructor].
    + intros a r. cbn [app length]. rewrite pxp_parse_nat_digit by (unfold pxp_digit; lia).
      f_equal. change (10 ^ Z.of_nat 1) with 10. lia.
  - rewrite pxp_digits_S. destruct (n <? 10) eqn:E.
    + apply Z.ltb_lt in E. exists [48 + n]. split; [reflexivity|]. split; [discriminate|]. split.
      * constructor; [unfold pxp_digit; lia | constructor].
      * intros a r. cbn [app length]. rewrite pxp_parse_nat_digit by (unfold pxp_digit; lia).
        f_equal. change (10 ^ Z.of_nat 1) with 10. lia.
    + apply Z.ltb_ge in E.
      assert (Hpow : 2 ^ Z.of_nat (S (S f)) = 2 * 2 ^ Z.of_nat (S f)).
      { rewrite (Nat2Z.inj_succ (S f)). apply Z.pow_succ_r. lia. }
      assert (Hq : 0 <= n / 10 < 2 ^ Z.of_nat (S f)).
      { split; [apply Z.div_pos; lia|]. apply Z.div_lt_upper_bound; lia. }
      pose proof (Z.mod_pos_bound n 10 ltac:(lia)) as Hm.
      destruct (IH (n / 10) ((48 + n mod 10) :: acc) Hq) as (ds & Hds & Hne & Hdig & Hparse).
      exists (ds ++ [48 + n mod 10]). split; [rewrite Hds, <- app_assoc; reflexivity|].
      split; [intros H; apply app_eq_nil in H; destruct H; discriminate|]. split.
      * apply Forall_app. split; [exact Hdig|]. constructor; [unfold pxp_digit; lia | constructor].
      * intros a r. rewrite <- app_assoc. cbn [app]. rewrite Hparse.
        rewrite pxp_parse_nat_digit by (unfold pxp_digit; lia). f_equal.
        rewrite app_length. cbn [length]. rewrite Nat.add_1_r, Nat2Z.inj_succ, Z.pow_succ_r by lia.
        pose proof (Z.div_mod n 10 ltac:(lia)) as Hdm. lia.
Qed.

Lemma pxp_dec_fuel_ok n : 0 <= n -> n < 2 ^ Z.of_nat (px_dec_fuel n).
Proof.
  intros Hn. unfold px_dec_fuel. rewrite Nat2Z.inj_succ, Z2Nat.id by apply Z.log2_nonneg.
  destruct (Z.eq_dec n 0) as [->|Hne]; [reflexivity|].
  apply Z.log2_spec. lia.
Qed.

Theorem pxp_dec_roundtrip z : px_parse_int (px_dec z) = Some z.
Proof.
  unfold px_dec. destruct (z <? 0) eqn:E.
  - apply Z.ltb_lt in E.
    destruct (pxp_digits_spec (Z.to_nat (Z.log2 (- z))) (- z) []) as (ds & Hds & Hne & Hdig & Hparse).
    { split; [lia | apply (pxp_dec_fuel_ok (- z)); lia]. }
    unfold px_dec_fuel. rewrite Hds, app_nil_r. unfold px_parse_int. rewrite Z.eqb_refl.
    destruct ds as [|d ds]; [congruence|].
    specialize (Hparse 0 []). rewrite app_nil_r in Hparse. rewrite Hparse. cbn [px_parse_nat option_map].
    f_equal. lia.
  - apply Z.ltb_ge in E.
    destruct (pxp_digits_spec (Z.to_nat (Z.log2 z)) z []) as (ds & Hds & Hne & Hdig & Hparse).
    { split; [lia | apply (pxp_dec_fuel_ok z); lia]. }
    unfold px_dec_fuel. rewrite Hds, app_nil_r. unfold px_parse_int.
    destruct ds as [|d ds]; [congruence|].
    inversion Hdig as [|d0 ds0 Hd Hrest]; subst. unfold pxp_digit in Hd.
    replace (d =? 45) with false by (symmetry; apply Z.eqb_neq; lia).
    replace (d =? 43) with false by (symmetry; apply Z.eqb_neq; lia).
    specialize (Hparse 0 []). rewrite app_nil_r in Hparse. rewrite Hparse. cbn [px_parse_nat].
    f_equal; lia.
Qed.

Corollary pxp_dec_inj a b : px_dec a = px_dec b -> a = b.
Proof.
  intros H. pose proof (pxp_dec_roundtrip a) as Ha. rewrite H, pxp_dec_roundtrip in Ha. congruence.
Qed.

Corollary pxp_charge_name_inj a b : px_charge_name a = px_charge_name b -> a = b.
Proof. unfold px_charge_name. intros H. apply app_inv_head in H. apply pxp_dec_inj; exact H. Qed.

(* ====================================================================== *)
(* The table.  Everything below holds for EVERY choice of the oracles.     *)
(* ====================================================================== *)
Section Post.
Variable num : str -> option Q.
Variable lg : Q -> Q.
Variable md : Z -> Z -> Q.
Variable mz : Z -> Z -> Z -> Q.
Variable rp : Q -> Q * Z.
Variable sfx : Q -> Q -> Q -> Q -> str.

(* statements that do not mention an oracle must not depend on one through automation (tauto generalises
   the whole context) *)
Ltac px_clear_oracles := try clear sfx; try clear rp; try clear mz; try clear md; try clear lg; try clear num.

Notation frame := (px_frame lg md mz sfx).
Notation logf := (px_log_features num lg rp).
Notation table := (px_table num lg md mz rp sfx).
Notation read_table := (px_read_table num lg md mz rp sfx).

(* the column names of the returned table: a function of the parsed rows alone *)
Definition px_column_names (rows : list px_psm) : list str :=
  match rows with
  | [] => []
  | _ => px_parsed_names rows ++ [px_N_MDIFF; px_N_MZDIFF] ++ map px_charge_name (px_charges rows)
  end.

Lemma pxp_parsed_col_name bin lo hi rows name :
  pc_name (px_parsed_col lg md sfx bin lo hi rows name) = name.
Proof.
  unfold px_parsed_col, px_optint_col.
  repeat match goal with |- context [if ?b then _ else _] => destruct b end; reflexivity.
Qed.

Lemma pxp_frame_names bin rows : map pc_name (frame bin rows) = px_column_names rows.
Proof.
  unfold px_frame, px_column_names. destruct rows as [|r0 rest]; [reflexivity|].
  rewrite !map_app, !map_map. cbn [map pc_name]. f_equal.
  rewrite <- (map_id (px_parsed_names (r0 :: rest))) at 2. apply map_ext. intros n. apply pxp_parsed_col_name.
Qed.

Lemma pxp_logf_name excl p c : logf excl p = Ok c -> c_name c = pc_name p.
Proof.
  unfold px_log_features. destruct (px_is_feature excl (pc_name p)).
  - destruct (pc_kind p);
      try (destruct (px_mapM (px_view num rp) (pc_cells p)) as [vs|e]; cbn [bind]; [|discriminate];
           destruct (px_transform lg vs) as [lc|e]; cbn [bind]; [|discriminate]);
      intros H; injection H as <-; reflexivity.
  - intros H; injection H as <-; reflexivity.
Qed.

(* the table is the frame, column by column, through _log_features *)
Lemma pxp_table_cols excl bin to_df rows out :
  table excl bin to_df rows = Ok out ->
  Forall2 (fun p c => logf excl p = Ok c) (frame bin rows) (o_cols out).
Proof.
  unfold px_table. destruct (px_mapM (logf excl) (frame bin rows)) as [cols|e] eqn:E; cbn [bind]; [|discriminate].
  apply pxp_mapM_ok in E. destruct to_df.
  - intros H; injection H as <-. exact E.
  - destruct (negb (existsb p_label rows)); [discriminate|].
    destruct (forallb p_label rows); [discriminate|]. intros H; injection H as <-. exact E.
Qed.

Lemma pxp_Forall2_map_eq {A B C} (f : A -> C) (g : B -> C) l l' :
  Forall2 (fun a b => g b = f a) l l' -> map g l' = map f l.
Proof. induction 1; cbn [map]; congruence. Qed.

(* ---- column names and order: independent of the options and of every oracle ---- *)
Theorem pxp_table_names excl bin to_df rows out :
  table excl bin to_df rows = Ok out -> map c_name (o_cols out) = px_column_names rows.
Proof.
  intros H. apply pxp_table_cols in H. rewrite <- (pxp_frame_names bin rows).
  apply pxp_Forall2_map_eq. eapply px_Forall2_impl; [|exact H].
  intros p c Hpc. apply pxp_logf_name in Hpc. exact Hpc.
Qed.

(* the keys a record has beyond the nine fixed ones, in dict insertion order *)
Definition px_extra_keys (p : px_psm) : list str :=
  (match p_mc p with Some _ => [px_N_MC] | None => [] end)
  ++ (match p_ntt p with Some _ => [px_N_NTT] | None => [] end)
  ++ (match p_nmp p with Some _ => [px_N_NMP] | None => [] end)
  ++ map fst (p_scores p).

Lemma pxp_row_keys_eq p : px_row_keys p = px_META9 ++ px_extra_keys p.
Proof. reflexivity. Qed.

Lemma pxp_dedup_strip rest : forall seen,
  (forall x, In x px_META9 -> In x seen) ->
  px_dedup_from seen (flat_map px_row_keys rest) = px_dedup_from seen (flat_map px_extra_keys rest).
Proof.
  induction rest as [|r rest IH]; intros seen Hs; [reflexivity|].
  cbn [flat_map]. rewrite pxp_row_keys_eq, <- app_assoc, pxp_dedup_skip by exact Hs.
  rewrite !pxp_dedup_app. f_equal. apply IH. intros x Hx. apply in_or_app. right. apply Hs; exact Hx.
Qed.

(* the nine fixed columns come first, in the order of the parser's dict; then every other key in
   order of first appearance *)
Theorem pxp_parsed_names_eq rows :
  rows <> [] -> px_parsed_names rows = px_META9 ++ px_dedup_from px_META9 (flat_map px_extra_keys rows).
Proof.
  px_clear_oracles.
  destruct rows as [|r0 rest]; [congruence|]. intros _. unfold px_parsed_names.
  cbn [flat_map]. rewrite pxp_row_keys_eq, <- app_assoc, pxp_dedup_app.
  f_equal.
  rewrite (pxp_dedup_ext (rev px_META9 ++ []) px_META9)
    by (intros x; rewrite app_nil_r, <- in_rev; tauto).
  rewrite !pxp_dedup_app. f_equal. apply pxp_dedup_strip.
  intros x Hx. apply in_or_app. right; exact Hx.
Qed.

Theorem pxp_parsed_names_nodup rows : NoDup (px_parsed_names rows).
Proof. apply pxp_dedup_nodup. Qed.

Theorem pxp_parsed_names_in rows n :
  In n (px_parsed_names rows) <-> exists p, In p rows /\ In n (px_row_keys p).
Proof.
  px_clear_oracles.
  unfold px_parsed_names. rewrite pxp_dedup_in, in_flat_map. cbn [In]. tauto.
Qed.

(* first-appearance order of the columns: if, reading the keys of the records in document order,
   x is met (at its first occurrence) before any occurrence of y, then x's column comes before y's *)
Theorem pxp_parsed_names_order rows l1 x l2 y :
  flat_map px_row_keys rows = l1 ++ x :: l2 -> ~ In x l1 -> ~ In y l1 ->
  exists d1 d2, px_parsed_names rows = d1 ++ x :: d2 /\ ~ In x d1 /\ ~ In y d1.
Proof. intros E Hx Hy. unfold px_parsed_names. rewrite E. apply pxp_dedup_order; assumption. Qed.

(* ---- which columns are features ---- *)
Lemma pxp_is_feature_iff excl n :
  px_is_feature excl n = true <-> ~ In n px_META9 /\ ~ In n excl.
Proof.
  px_clear_oracles.
  unfold px_is_feature. rewrite andb_true_iff, !negb_true_iff, !b_mem_str_notin. tauto.
Qed.

Lemma pxp_is_feature_false excl n :
  px_is_feature excl n = false <-> In n px_META9 \/ In n excl.
Proof.
  px_clear_oracles.
  unfold px_is_feature. rewrite andb_false_iff, !negb_false_iff, !b_mem_str_in. tauto.
Qed.

(* a column that is no feature is returned as it was parsed: same dtype, same cells *)
Lemma pxp_logf_meta excl p :
  px_is_feature excl (pc_name p) = false ->
  logf excl p = Ok {| c_name := pc_name p; c_kind := pc_kind p; c_role := RMeta; c_logged := false;
                      c_cells := pc_cells p |}.
Proof. intros H. unfold px_log_features. rewrite H. reflexivity. Qed.

Definition px_numeric (c : px_cell) : Prop :=
  match c with CNum _ | CNaN | CNegInf => True | _ => False end.

Lemma pxp_nv_id_numeric vs : Forall px_numeric (map px_nv_id vs).
Proof. apply Forall_forall. intros c Hc. apply in_map_iff in Hc. destruct Hc as ([| |e v parts] & <- & _); exact I. Qed.

Lemma pxp_sci_branch_spec vs b cells :
  px_sci_branch lg vs = Ok (b, cells) ->
  length cells = length vs /\ Forall px_numeric cells /\ (b = false -> cells = map px_nv_id vs).
Proof.
  unfold px_sci_branch. destruct (px_mapM px_nv_parts vs) as [rps|e] eqn:E; cbn [bind]; [|discriminate].
  apply pxp_mapM_ok, px_Forall2_length in E.
  match goal with |- bind ?F _ = _ -> _ => destruct F as [rps'|e] eqn:EF end; cbn [bind]; [|discriminate].
  assert (Hlen : length rps' = length rps).
  { destruct (forallb _ rps); [injection EF as <-; reflexivity|].
    destruct (map snd (filter _ rps)) as [|p0 pr]; [discriminate|].
    injection EF as <-. apply map_length. }
  destruct (map snd rps') as [|p0 pr] eqn:Ep.
  - intros H; injection H as <- <-. rewrite map_length. split; [reflexivity|].
    split; [apply pxp_nv_id_numeric | reflexivity].
  - destruct (4 <=? Z.abs (px_zmax_from p0 pr - px_zmin_from p0 pr)).
    + intros H; injection H as <- <-. rewrite map_length. split; [congruence|].
      split; [|discriminate]. apply Forall_forall. intros c Hc. apply in_map_iff in Hc.
      destruct Hc as (x & <- & _). exact I.
    + intros H; injection H as <- <-. rewrite map_length. split; [reflexivity|].
      split; [apply pxp_nv_id_numeric | reflexivity].
Qed.

Lemma pxp_plain_branch_spec vs b cells :
  px_plain_branch lg vs = (b, cells) ->
  length cells = length vs /\ Forall px_numeric cells /\ (b = false -> cells = map px_nv_id vs).
Proof.
  unfold px_plain_branch. destruct (px_plain_cond vs).
  - destruct (map lg _) as [|l0 lr].
    + intros H; injection H as <- <-. rewrite map_length.
      split; [reflexivity|]. split; [apply pxp_nv_id_numeric | reflexivity].
    + intros H; injection H as <- <-. rewrite map_length. split; [reflexivity|]. split; [|discriminate].
      apply Forall_forall. intros c Hc. apply in_map_iff in Hc. destruct Hc as ([| |e v parts] & <- & _); try exact I.
      destruct (Qeq_bool v 0); exact I.
  - intros H; injection H as <- <-. rewrite map_length.
    split; [reflexivity|]. split; [apply pxp_nv_id_numeric | reflexivity].
Qed.

Lemma pxp_transform_spec vs b cells :
  px_transform lg vs = Ok (b, cells) ->
  length cells = length vs /\ Forall px_numeric cells /\ (b = false -> cells = map px_nv_id vs).
Proof.
  unfold px_transform. destruct (px_sci_cond vs).
  - apply pxp_sci_branch_spec.
  - intros H; injection H as H. apply pxp_plain_branch_spec; exact H.
Qed.

(* a feature column is a float column of numbers (NaN where the record has no value) *)
Lemma pxp_logf_feature excl p c :
  px_is_feature excl (pc_name p) = true -> logf excl p = Ok c ->
  c_name c = pc_name p /\ c_role c = RFeature /\ c_kind c = KFloat /\
  length (c_cells c) = length (pc_cells p) /\
  (pc_kind p = KBool -> c_logged c = false /\ c_cells c = map px_bool_to_num (pc_cells p)) /\
  (pc_kind p <> KBool ->
     Forall px_numeric (c_cells c) /\
     exists vs, px_mapM (px_view num rp) (pc_cells p) = Ok vs /\
                px_transform lg vs = Ok (c_logged c, c_cells c)).
Proof.
  intros Hf. unfold px_log_features. rewrite Hf.
  assert (Hgen : forall c0,
     bind (px_mapM (px_view num rp) (pc_cells p)) (fun vs =>
       bind (px_transform lg vs) (fun lc =>
         Ok {| c_name := pc_name p; c_kind := KFloat; c_role := RFeature; c_logged := fst lc; c_cells := snd lc |})) = Ok c0 ->
     c_name c0 = pc_name p /\ c_role c0 = RFeature /\ c_kind c0 = KFloat /\
     length (c_cells c0) = length (pc_cells p) /\
     Forall px_numeric (c_cells c0) /\
     exists vs, px_mapM (px_view num rp) (pc_cells p) = Ok vs /\ px_transform lg vs = Ok (c_logged c0, c_cells c0)).
  { intros c0. destruct (px_mapM (px_view num rp) (pc_cells p)) as [vs|e] eqn:Ev; cbn [bind]; [|discriminate].
    destruct (px_transform lg vs) as [[b cells]|e] eqn:Et; cbn [bind]; [|discriminate].
    intros H; injection H as <-. cbn [c_name c_role c_kind c_cells c_logged fst snd].
    destruct (pxp_transform_spec _ _ _ Et) as (Hl & Hn & _).
    apply pxp_mapM_ok, px_Forall2_length in Ev.
    repeat split; try assumption; [congruence|]. exists vs. split; [reflexivity | exact Et]. }
  destruct (pc_kind p) eqn:Ek.
  1,3,4: intros H; destruct (Hgen _ H) as (H1 & H2 & H3 & H4 & H5 & H6);
    repeat split; try assumption; try discriminate; intros _; try assumption; split; assumption.
  intros H; injection H as <-. cbn [c_name c_role c_kind c_cells c_logged].
  repeat split; try reflexivity; [apply map_length | congruence | congruence].
Qed.


(* ---- the columns of the frame, one kind at a time ---- *)
Definition px_RESERVED12 : list str := px_META9 ++ [px_N_MC; px_N_NTT; px_N_NMP].

Lemma pxp_Forall2_in_l {A B} (R : A -> B -> Prop) l l' x :
  Forall2 R l l' -> In x l -> exists y, In y l' /\ R x y.
Proof.
  induction 1 as [|a b l l' Hab HF IH]; intros Hin; [destruct Hin|].
  destruct Hin as [<-|Hin]; [exists b; split; [left; reflexivity | exact Hab]|].
  destruct (IH Hin) as (y & Hy & HR). exists y. split; [right; exact Hy | exact HR].
Qed.

Lemma pxp_table_col_of excl bin to_df rows out p :
  table excl bin to_df rows = Ok out -> In p (frame bin rows) ->
  exists c, In c (o_cols out) /\ logf excl p = Ok c.
Proof.
  intros H Hin. apply pxp_table_cols in H.
  exact (pxp_Forall2_in_l (fun p c => logf excl p = Ok c) _ _ p H Hin).
Qed.

Lemma pxp_str_eqb_neq a b : a <> b -> str_eqb a b = false.
Proof. intros H. destruct (str_eqb a b) eqn:E; [apply b_str_eqb_eq in E; contradiction | reflexivity]. Qed.

(* a name that is none of the parser's own twelve keys denotes a search-score column: the attribute
   text of the records that have the score, NaN for the others *)
Lemma pxp_parsed_col_score bin lo hi rows n :
  ~ In n px_RESERVED12 ->
  px_parsed_col lg md sfx bin lo hi rows n
  = {| pc_name := n; pc_kind := KText; pc_cells := map (px_score_cell n) rows |}.
Proof.
  px_clear_oracles.
  intros H. unfold px_parsed_col.
  rewrite !pxp_str_eqb_neq; [reflexivity| | | | | | | | | | | |];
    intros ->; apply H; unfold px_RESERVED12, px_META9; cbn [In app]; tauto.
Qed.

Lemma pxp_frame_parsed bin r0 rest n :
  In n (px_parsed_names (r0 :: rest)) ->
  exists lo hi, In (px_parsed_col lg md sfx bin lo hi (r0 :: rest) n) (frame bin (r0 :: rest)).
Proof.
  intros H. unfold px_frame. eexists; eexists. apply in_or_app. left. apply in_map. exact H.
Qed.

(* ---- every search score that is not excluded is a numeric feature column ---- *)
Theorem pxp_score_feature excl bin to_df rows out p n t :
  table excl bin to_df rows = Ok out ->
  In p rows -> In (n, t) (p_scores p) -> ~ In n px_RESERVED12 -> ~ In n excl ->
  exists c, In c (o_cols out) /\ c_name c = n /\ c_role c = RFeature /\ c_kind c = KFloat /\
            Forall px_numeric (c_cells c) /\ length (c_cells c) = length rows /\
            logf excl {| pc_name := n; pc_kind := KText; pc_cells := map (px_score_cell n) rows |} = Ok c.
Proof.
  intros HT Hp Hnt Hres Hex.
  destruct rows as [|r0 rest]; [destruct Hp|].
  assert (Hn : In n (px_parsed_names (r0 :: rest))).
  { apply pxp_parsed_names_in. exists p. split; [exact Hp|]. unfold px_row_keys.
    rewrite !in_app_iff. right. right. right. right. apply in_map_iff. exists (n, t). split; [reflexivity | exact Hnt]. }
  destruct (pxp_frame_parsed bin r0 rest n Hn) as (lo & hi & Hin).
  rewrite pxp_parsed_col_score in Hin by exact Hres.
  destruct (pxp_table_col_of _ _ _ _ _ _ HT Hin) as (c & Hc & Hlog).
  assert (Hf : px_is_feature excl n = true).
  { apply pxp_is_feature_iff. split; [|exact Hex]. intros H. apply Hres. unfold px_RESERVED12. apply in_or_app. left; exact H. }
  destruct (pxp_logf_feature excl {| pc_name := n; pc_kind := KText; pc_cells := map (px_score_cell n) (r0 :: rest) |}
              c Hf Hlog) as (H1 & H2 & H3 & H4 & _ & H6).
  cbn [pc_name pc_kind pc_cells] in *. rewrite map_length in H4.
  exists c. repeat split; try assumption. apply H6. discriminate.
Qed.

(* ---- an excluded search score keeps its text and is no feature ---- *)
Theorem pxp_score_excluded excl bin to_df rows out p n t :
  table excl bin to_df rows = Ok out ->
  In p rows -> In (n, t) (p_scores p) -> ~ In n px_RESERVED12 -> In n excl ->
  In {| c_name := n; c_kind := KText; c_role := RMeta; c_logged := false; c_cells := map (px_score_cell n) rows |}
     (o_cols out).
Proof.
  intros HT Hp Hnt Hres Hex.
  destruct rows as [|r0 rest]; [destruct Hp|].
  assert (Hn : In n (px_parsed_names (r0 :: rest))).
  { apply pxp_parsed_names_in. exists p. split; [exact Hp|]. unfold px_row_keys.
    rewrite !in_app_iff. right. right. right. right. apply in_map_iff. exists (n, t). split; [reflexivity | exact Hnt]. }
  destruct (pxp_frame_parsed bin r0 rest n Hn) as (lo & hi & Hin).
  rewrite pxp_parsed_col_score in Hin by exact Hres.
  destruct (pxp_table_col_of _ _ _ _ _ _ HT Hin) as (c & Hc & Hlog).
  rewrite pxp_logf_meta in Hlog by (apply pxp_is_feature_false; right; exact Hex).
  injection Hlog as <-. exact Hc.
Qed.

(* the cell of a score column: this record's own value text *)
Lemma pxp_score_cell_text n p :
  px_score_cell n p = match px_assoc n (p_scores p) with Some t => CText t | None => CNaN end.
Proof. reflexivity. Qed.

(* ---- "exactly once": the column names are pairwise distinct unless a search score is named like a
        derived column (the known finding pepxml:score-name-collides-with-parser-key) ---- *)
Definition px_no_collision (rows : list px_psm) : Prop :=
  forall p n, In p rows -> In n (map fst (p_scores p)) ->
    n <> px_N_MDIFF /\ n <> px_N_MZDIFF /\ forall c, n <> px_charge_name c.

Lemma pxp_NoDup_app {A} (l1 l2 : list A) :
  NoDup l1 -> NoDup l2 -> (forall x, In x l1 -> ~ In x l2) -> NoDup (l1 ++ l2).
Proof.
  induction l1 as [|a l1 IH]; intros H1 H2 Hd; [exact H2|].
  inversion H1 as [|a0 l0 Ha H1']; subst. cbn [app]. constructor.
  - rewrite in_app_iff. intros [H|H]; [contradiction | exact (Hd a (or_introl eq_refl) H)].
  - apply IH; [exact H1' | exact H2 | intros x Hx; apply Hd; right; exact Hx].
Qed.

Lemma pxp_NoDup_map_inj {A B} (f : A -> B) l :
  (forall a b, f a = f b -> a = b) -> NoDup l -> NoDup (map f l).
Proof.
  intros Hinj. induction 1 as [|a l Ha HN IH]; cbn [map]; constructor; [|exact IH].
  intros H. apply in_map_iff in H. destruct H as (b & Hb & Hin). apply Hinj in Hb. subst. contradiction.
Qed.

Lemma pxp_reserved_not_derived n :
  In n px_RESERVED12 -> n <> px_N_MDIFF /\ n <> px_N_MZDIFF /\ forall c, n <> px_charge_name c.
Proof.
  unfold px_RESERVED12, px_META9. cbn [In app].
  intros [<-|[<-|[<-|[<-|[<-|[<-|[<-|[<-|[<-|[<-|[<-|[<-|[]]]]]]]]]]]]];
    (split; [discriminate | split; [discriminate | intros c; unfold px_charge_name, px_N_CHARGE_; cbn [app]; discriminate]]).
Qed.

Lemma pxp_key_not_derived rows p n :
  px_no_collision rows -> In p rows -> In n (px_row_keys p) ->
  n <> px_N_MDIFF /\ n <> px_N_MZDIFF /\ forall c, n <> px_charge_name c.
Proof.
  px_clear_oracles.
  intros Hnc Hp Hn. unfold px_row_keys in Hn. rewrite !in_app_iff in Hn.
  destruct Hn as [H|[H|[H|[H|H]]]].
  - apply pxp_reserved_not_derived. unfold px_RESERVED12. apply in_or_app; left; exact H.
  - destruct (p_mc p); [|destruct H]. destruct H as [<-|[]]. apply pxp_reserved_not_derived.
    unfold px_RESERVED12, px_META9; cbn [In app]; tauto.
  - destruct (p_ntt p); [|destruct H]. destruct H as [<-|[]]. apply pxp_reserved_not_derived.
    unfold px_RESERVED12, px_META9; cbn [In app]; tauto.
  - destruct (p_nmp p); [|destruct H]. destruct H as [<-|[]]. apply pxp_reserved_not_derived.
    unfold px_RESERVED12, px_META9; cbn [In app]; tauto.
  - exact (Hnc p n Hp H).
Qed.

Theorem pxp_column_names_nodup rows : px_no_collision rows -> NoDup (px_column_names rows).
Proof.
  px_clear_oracles.
  intros Hnc. unfold px_column_names. destruct rows as [|r0 rest]; [constructor|].
  set (rows := r0 :: rest) in *.
  apply pxp_NoDup_app; [apply pxp_parsed_names_nodup | |].
  - apply (pxp_NoDup_app [px_N_MDIFF; px_N_MZDIFF]).
    + constructor; [cbn [In]; intros [H|[]]; discriminate | constructor; [intros [] | constructor]].
    + apply pxp_NoDup_map_inj; [intros a b; apply pxp_charge_name_inj|].
      apply pxp_sorted_nodup, pxp_charges_sorted.
    + intros x [<-|[<-|[]]] H; apply in_map_iff in H; destruct H as (c & Hc & _);
        unfold px_charge_name, px_N_CHARGE_ in Hc; cbn [app] in Hc; discriminate.
  - intros n Hn. apply pxp_parsed_names_in in Hn. destruct Hn as (p & Hp & Hk).
    destruct (pxp_key_not_derived rows p n Hnc Hp Hk) as (H1 & H2 & H3).
    cbn [app In]. intros [H|[H|H]]; [congruence | congruence|].
    apply in_map_iff in H. destruct H as (c & Hc & _). exact (H3 c (eq_sym Hc)).
Qed.


(* ---- the one-hot charge columns ---- *)
Lemma pxp_charge_name_not_meta c : ~ In (px_charge_name c) px_META9.
Proof.
  unfold px_META9, px_charge_name, px_N_CHARGE_. cbn [In app].
  intros [H|[H|[H|[H|[H|[H|[H|[H|[H|[]]]]]]]]]]; discriminate.
Qed.

Lemma pxp_frame_charge bin rows c :
  In c (px_charges rows) -> In (px_charge_col rows c) (frame bin rows).
Proof.
  intros H. unfold px_frame. destruct rows as [|r0 rest]; [destruct H|].
  apply in_or_app. right. apply in_or_app. right. apply in_map. exact H.
Qed.

(* one column per charge that occurs, in ascending numeric order; a feature column of 0/1 unless
   excluded, then the bool column that get_dummies made *)
Theorem pxp_charge_columns excl bin to_df rows out c :
  table excl bin to_df rows = Ok out -> In c (px_charges rows) ->
  (~ In (px_charge_name c) excl ->
     In {| c_name := px_charge_name c; c_kind := KFloat; c_role := RFeature; c_logged := false;
           c_cells := map (fun p => CNum (if p_charge p =? c then 1 else 0)) rows |} (o_cols out)) /\
  (In (px_charge_name c) excl ->
     In {| c_name := px_charge_name c; c_kind := KBool; c_role := RMeta; c_logged := false;
           c_cells := map (fun p => CBool (p_charge p =? c)) rows |} (o_cols out)).
Proof.
  intros HT Hc. destruct (pxp_table_col_of _ _ _ _ _ _ HT (pxp_frame_charge bin rows c Hc)) as (col & Hin & Hlog).
  split; intros Hex.
  - assert (Hf : px_is_feature excl (px_charge_name c) = true)
      by (apply pxp_is_feature_iff; split; [apply pxp_charge_name_not_meta | exact Hex]).
    unfold px_log_features in Hlog. cbn [px_charge_col pc_name pc_kind pc_cells] in Hlog. rewrite Hf in Hlog.
    injection Hlog as <-. rewrite map_map in Hin. exact Hin.
  - rewrite pxp_logf_meta in Hlog by (apply pxp_is_feature_false; right; exact Hex).
    injection Hlog as <-. exact Hin.
Qed.

(* each row has exactly one charge column set: that of its own charge *)
Theorem pxp_onehot_row rows p :
  In p rows ->
  exists a b, px_charges rows = a ++ p_charge p :: b /\
    map (fun c => p_charge p =? c) (px_charges rows) = map (fun _ => false) a ++ true :: map (fun _ => false) b.
Proof.
  intros Hp. apply pxp_onehot; [apply pxp_charges_sorted|].
  apply pxp_charges_in. exists p. split; [exact Hp | reflexivity].
Qed.

(* ---- mass_diff and abs_mz_diff: from exp_mass, calc_mass and charge of the same row ---- *)
Definition px_mdiff_pre (rows : list px_psm) : px_pre :=
  {| pc_name := px_N_MDIFF; pc_kind := KFloat; pc_cells := map (fun p => CNum (md (p_exp p) (p_calc p))) rows |}.
Definition px_mzdiff_pre (rows : list px_psm) : px_pre :=
  {| pc_name := px_N_MZDIFF; pc_kind := KFloat;
     pc_cells := map (fun p => if p_charge p =? 0 then CNaN else CNum (mz (p_exp p) (p_calc p) (p_charge p))) rows |}.

Lemma pxp_frame_mdiff bin rows : rows <> [] -> In (px_mdiff_pre rows) (frame bin rows) /\ In (px_mzdiff_pre rows) (frame bin rows).
Proof.
  destruct rows as [|r0 rest]; [congruence|]. intros _. unfold px_frame.
  split; apply in_or_app; right; apply in_or_app; left; [left | right; left]; reflexivity.
Qed.

Theorem pxp_mass_columns excl bin to_df rows out :
  table excl bin to_df rows = Ok out -> rows <> [] ->
  (exists c, In c (o_cols out) /\ logf excl (px_mdiff_pre rows) = Ok c) /\
  (exists c, In c (o_cols out) /\ logf excl (px_mzdiff_pre rows) = Ok c) /\
  (In px_N_MDIFF excl ->
     In {| c_name := px_N_MDIFF; c_kind := KFloat; c_role := RMeta; c_logged := false;
           c_cells := pc_cells (px_mdiff_pre rows) |} (o_cols out)) /\
  (In px_N_MZDIFF excl ->
     In {| c_name := px_N_MZDIFF; c_kind := KFloat; c_role := RMeta; c_logged := false;
           c_cells := pc_cells (px_mzdiff_pre rows) |} (o_cols out)).
Proof.
  intros HT Hne. destruct (pxp_frame_mdiff bin rows Hne) as (H1 & H2).
  destruct (pxp_table_col_of _ _ _ _ _ _ HT H1) as (c1 & Hc1 & Hl1).
  destruct (pxp_table_col_of _ _ _ _ _ _ HT H2) as (c2 & Hc2 & Hl2).
  split; [exists c1; split; assumption|]. split; [exists c2; split; assumption|]. split; intros Hex.
  - rewrite pxp_logf_meta in Hl1 by (apply pxp_is_feature_false; right; exact Hex). injection Hl1 as <-. exact Hc1.
  - rewrite pxp_logf_meta in Hl2 by (apply pxp_is_feature_false; right; exact Hex). injection Hl2 as <-. exact Hc2.
Qed.

(* ---- the peptide column and the open-modification suffix ---- *)
Definition px_md_lo (r0 : px_psm) (rest : list px_psm) : Q :=
  px_qmin_from (px_md_of md r0) (map (px_md_of md) rest).
Definition px_md_hi (r0 : px_psm) (rest : list px_psm) : Q :=
  px_qmax_from (px_md_of md r0) (map (px_md_of md) rest).

Lemma pxp_parsed_col_peptide bin lo hi rows :
  px_parsed_col lg md sfx bin lo hi rows px_N_PEPTIDE
  = {| pc_name := px_N_PEPTIDE; pc_kind := KText; pc_cells := map (fun p => CText (px_pep_out md sfx bin lo hi p)) rows |}.
Proof. reflexivity. Qed.

Theorem pxp_peptide_column excl bin to_df r0 rest out :
  table excl bin to_df (r0 :: rest) = Ok out ->
  In {| c_name := px_N_PEPTIDE; c_kind := KText; c_role := RMeta; c_logged := false;
        c_cells := map (fun p => CText (px_pep_out md sfx bin (px_md_lo r0 rest) (px_md_hi r0 rest) p)) (r0 :: rest) |}
     (o_cols out).
Proof.
  intros HT.
  assert (Hin : In (px_parsed_col lg md sfx bin (px_md_lo r0 rest) (px_md_hi r0 rest) (r0 :: rest) px_N_PEPTIDE)
                   (frame bin (r0 :: rest))).
  { unfold px_frame. apply in_or_app. left. apply in_map. apply pxp_parsed_names_in.
    exists r0. split; [left; reflexivity|]. unfold px_row_keys, px_META9. cbn [In app]. tauto. }
  destruct (pxp_table_col_of _ _ _ _ _ _ HT Hin) as (c & Hc & Hlog).
  rewrite pxp_parsed_col_peptide in Hlog.
  rewrite pxp_logf_meta in Hlog
    by (apply pxp_is_feature_false; left; unfold px_META9; cbn [pc_name In]; tauto).
  injection Hlog as <-. exact Hc.
Qed.

(* without a bin size the peptide is the parsed one *)
Lemma pxp_pep_out_none lo hi p : px_pep_out md sfx None lo hi p = p_peptide p.
Proof. reflexivity. Qed.

(* with a bin size: the parsed peptide (modifications already inserted), then "[" suffix "]", the suffix
   being a function of this row's own mass difference *)
Lemma pxp_pep_out_some b lo hi p :
  px_pep_out md sfx (Some b) lo hi p = p_peptide p ++ px_LB :: sfx b lo hi (md (p_exp p) (p_calc p)) ++ [px_RB].
Proof. reflexivity. Qed.

(* equal mass differences get equal suffixes (in particular: equal exp_mass and calc_mass) *)
Theorem pxp_suffix_equal b lo hi p1 p2 :
  md (p_exp p1) (p_calc p1) = md (p_exp p2) (p_calc p2) ->
  exists s, px_pep_out md sfx (Some b) lo hi p1 = p_peptide p1 ++ px_tag s /\
            px_pep_out md sfx (Some b) lo hi p2 = p_peptide p2 ++ px_tag s.
Proof.
  intros H. exists (sfx b lo hi (md (p_exp p1) (p_calc p1))). unfold px_pep_out, px_md_of.
  rewrite <- H. split; reflexivity.
Qed.


(* ====================================================================== *)
(* Option independence                                                    *)
(* ====================================================================== *)
(* -- open_modification_bin_size concerns the peptide column only -- *)
Lemma pxp_parsed_col_bin_indep bin bin' lo hi lo' hi' rows name :
  name <> px_N_PEPTIDE ->
  px_parsed_col lg md sfx bin lo hi rows name = px_parsed_col lg md sfx bin' lo' hi' rows name.
Proof.
  intros Hne. unfold px_parsed_col. rewrite (pxp_str_eqb_neq name px_N_PEPTIDE Hne). reflexivity.
Qed.

Definition px_pre_same_but_peptide (p0 p1 : px_pre) : Prop :=
  p0 = p1 \/ (pc_name p0 = px_N_PEPTIDE /\ pc_name p1 = px_N_PEPTIDE /\ pc_kind p0 = pc_kind p1).
Definition px_col_same_but_peptide (c0 c1 : px_col) : Prop :=
  c0 = c1 \/ (c_name c0 = px_N_PEPTIDE /\ c_name c1 = px_N_PEPTIDE /\ c_kind c0 = c_kind c1 /\
              c_role c0 = RMeta /\ c_role c1 = RMeta /\ c_logged c0 = false /\ c_logged c1 = false).

Lemma pxp_Forall2_refl {A} (R : A -> A -> Prop) l : (forall x, R x x) -> Forall2 R l l.
Proof. intros H. induction l; constructor; auto. Qed.

Lemma pxp_frame_bin bin bin' rows : Forall2 px_pre_same_but_peptide (frame bin rows) (frame bin' rows).
Proof.
  unfold px_frame. destruct rows as [|r0 rest]; [constructor|].
  apply Forall2_app; [|apply pxp_Forall2_refl; intros x; left; reflexivity].
  apply pxp_Forall2_map_l. induction (px_parsed_names (r0 :: rest)) as [|n l IH]; cbn [map]; constructor; [|exact IH].
  destruct (list_eq_dec Z.eq_dec n px_N_PEPTIDE) as [->|Hne].
  - right. rewrite !pxp_parsed_col_peptide. repeat split.
  - left. apply pxp_parsed_col_bin_indep; exact Hne.
Qed.

Lemma pxp_logf_same_but_peptide excl p0 p1 c0 :
  px_pre_same_but_peptide p0 p1 -> logf excl p0 = Ok c0 ->
  exists c1, logf excl p1 = Ok c1 /\ px_col_same_but_peptide c0 c1.
Proof.
  intros [<-|(H0 & H1 & Hk)] Hlog; [exists c0; split; [exact Hlog | left; reflexivity]|].
  assert (Hm : forall p, pc_name p = px_N_PEPTIDE -> px_is_feature excl (pc_name p) = false).
  { intros p Hp. apply pxp_is_feature_false. left. rewrite Hp. unfold px_META9. cbn [In]. tauto. }
  rewrite pxp_logf_meta in Hlog by (apply Hm; exact H0). injection Hlog as <-.
  eexists. split; [apply pxp_logf_meta, Hm; exact H1|]. right. cbn [c_name c_kind c_role c_logged]. tauto.
Qed.

Lemma pxp_mapM_related {A B} (f : A -> result B) (R : A -> A -> Prop) (S : B -> B -> Prop) l0 l1 ys0 :
  (forall a0 a1 b0, R a0 a1 -> f a0 = Ok b0 -> exists b1, f a1 = Ok b1 /\ S b0 b1) ->
  Forall2 R l0 l1 -> px_mapM f l0 = Ok ys0 ->
  exists ys1, px_mapM f l1 = Ok ys1 /\ Forall2 S ys0 ys1.
Proof.
  intros Hstep HR. revert ys0. induction HR as [|a0 a1 l0 l1 Ha HR IH]; intros ys0 H0.
  - cbn [px_mapM] in H0. injection H0 as <-. exists []. split; [reflexivity | constructor].
  - apply pxp_mapM_ok in H0. inversion H0 as [|x y l ys Hxy Hrest]; subst.
    destruct (Hstep _ _ _ Ha Hxy) as (b1 & Hb1 & HS).
    apply pxp_mapM_ok in Hrest. destruct (IH _ Hrest) as (ys1 & Hys1 & HSs).
    exists (b1 :: ys1). split; [|constructor; assumption].
    cbn [px_mapM]. rewrite Hb1, Hys1. reflexivity.
Qed.

Lemma pxp_feature_names_same cs0 cs1 :
  Forall2 px_col_same_but_peptide cs0 cs1 -> px_feature_names cs0 = px_feature_names cs1.
Proof.
  unfold px_feature_names. induction 1 as [|c0 c1 l0 l1 Hc HF IH]; [reflexivity|]. cbn [filter].
  destruct Hc as [<-|(_ & _ & _ & -> & -> & _)].
  - destruct (c_role c0); cbn [map]; congruence.
  - exact IH.
Qed.

(* switching the bin size on, off or to another value changes the cells of the peptide column and
   nothing else: not whether the call succeeds, not the other columns, not the roles *)
Theorem pxp_bin_independent excl bin bin' to_df rows o0 :
  table excl bin to_df rows = Ok o0 ->
  exists o1, table excl bin' to_df rows = Ok o1 /\
             Forall2 px_col_same_but_peptide (o_cols o0) (o_cols o1) /\
             (to_df = true -> o_roles o0 = None /\ o_roles o1 = None) /\
             (to_df = false -> o_roles o0 = Some (px_dataset_roles (o_cols o0)) /\
                               o_roles o1 = Some (px_dataset_roles (o_cols o0))).
Proof.
  unfold px_table. destruct (px_mapM (logf excl) (frame bin rows)) as [cs0|e] eqn:E0; cbn [bind]; [|discriminate].
  destruct (pxp_mapM_related (logf excl) px_pre_same_but_peptide px_col_same_but_peptide _ _ cs0
              (pxp_logf_same_but_peptide excl) (pxp_frame_bin bin bin' rows) E0) as (cs1 & E1 & HS).
  rewrite E1. cbn [bind]. destruct to_df.
  - intros H; injection H as <-. eexists. split; [reflexivity|]. cbn [o_cols o_roles].
    split; [exact HS|]. split; [tauto | discriminate].
  - destruct (negb (existsb p_label rows)); [discriminate|]. destruct (forallb p_label rows); [discriminate|].
    intros H; injection H as <-. eexists. split; [reflexivity|]. cbn [o_cols o_roles].
    split; [exact HS|]. split; [discriminate|]. intros _. split; [reflexivity|].
    unfold px_dataset_roles. rewrite (pxp_feature_names_same _ _ HS). reflexivity.
Qed.

(* -- to_df concerns the wrapping only -- *)
Theorem pxp_to_df_independent excl bin rows o' :
  table excl bin false rows = Ok o' <->
  exists o, table excl bin true rows = Ok o /\ o_roles o = None /\
            existsb p_label rows = true /\ forallb p_label rows = false /\
            o' = {| o_cols := o_cols o; o_roles := Some (px_dataset_roles (o_cols o)) |}.
Proof.
  unfold px_table. destruct (px_mapM (logf excl) (frame bin rows)) as [cs|e]; cbn [bind].
  - destruct (existsb p_label rows); cbn [negb].
    + destruct (forallb p_label rows).
      * split; [discriminate|]. intros (o & _ & _ & _ & H & _). discriminate.
      * split.
        -- intros H; injection H as <-. eexists. split; [reflexivity|]. cbn [o_cols o_roles]. tauto.
        -- intros (o & H & _ & _ & _ & ->). injection H as <-. reflexivity.
    + split; [discriminate|]. intros (o & _ & _ & H & _). discriminate.
  - split; [discriminate|]. intros (o & H & _). discriminate.
Qed.

(* -- exclude_features concerns exactly the columns whose feature status it changes -- *)
Lemma pxp_logf_excl_indep e1 e2 p :
  px_is_feature e1 (pc_name p) = px_is_feature e2 (pc_name p) -> logf e1 p = logf e2 p.
Proof. intros H. unfold px_log_features. rewrite H. reflexivity. Qed.

Lemma pxp_Forall2_common {A B} (f g : A -> result B) l ys zs :
  Forall2 (fun x y => f x = Ok y) l ys -> Forall2 (fun x z => g x = Ok z) l zs ->
  Forall2 (fun y z => exists x, In x l /\ f x = Ok y /\ g x = Ok z) ys zs.
Proof.
  intros H. revert zs. induction H as [|x y l ys Hxy HF IH]; intros zs Hz; inversion Hz as [|x0 z l0 zs0 Hxz Hr]; subst.
  - constructor.
  - constructor.
    + exists x. split; [left; reflexivity | split; assumption].
    + eapply px_Forall2_impl; [|apply IH; exact Hr].
      intros a b (x' & Hin & Ha & Hb). exists x'. split; [right; exact Hin | split; assumption].
Qed.

Theorem pxp_exclude_independent e1 e2 bin to_df rows o1 o2 :
  table e1 bin to_df rows = Ok o1 -> table e2 bin to_df rows = Ok o2 ->
  Forall2 (fun c1 c2 => c_name c1 = c_name c2 /\
                        (px_is_feature e1 (c_name c1) = px_is_feature e2 (c_name c1) -> c1 = c2))
          (o_cols o1) (o_cols o2).
Proof.
  intros H1 H2. apply pxp_table_cols in H1. apply pxp_table_cols in H2.
  eapply px_Forall2_impl; [|exact (pxp_Forall2_common _ _ _ _ _ H1 H2)].
  intros c1 c2 (p & _ & Hp1 & Hp2). pose proof (pxp_logf_name _ _ _ Hp1) as N1.
  pose proof (pxp_logf_name _ _ _ Hp2) as N2. split; [congruence|].
  rewrite N1. intros Hs. rewrite (pxp_logf_excl_indep e1 e2 p Hs) in Hp1. congruence.
Qed.

(* names that are not feature candidates anyway (the nine metadata columns) may be excluded freely;
   so may names that are already excluded *)
Corollary pxp_is_feature_add_noop excl extra n :
  (forall x, In x extra -> In x px_META9 \/ In x excl) ->
  px_is_feature (excl ++ extra) n = px_is_feature excl n.
Proof.
  px_clear_oracles.
  intros H. destruct (px_is_feature excl n) eqn:E.
  - apply pxp_is_feature_iff in E. apply pxp_is_feature_iff. split; [tauto|]. rewrite in_app_iff.
    intros [Hx|Hx]; [tauto|]. destruct (H _ Hx); tauto.
  - apply pxp_is_feature_false in E. apply pxp_is_feature_false. rewrite in_app_iff. tauto.
Qed.

(* ====================================================================== *)
(* Errors                                                                 *)
(* ====================================================================== *)
(* whatever px_read rejects (Percolator scores -- excluded or not --, malformed files, ...) is rejected *)
Theorem pxp_read_table_err prefix files excl bin to_df e :
  px_read prefix files = Err e -> read_table prefix files excl bin to_df = Err e.
Proof. intros H. unfold px_read_table. rewrite H. reflexivity. Qed.

Theorem pxp_read_table_ok prefix files excl bin to_df rows out :
  read_table prefix files excl bin to_df = Ok (rows, out) <->
  px_read prefix files = Ok rows /\ table excl bin to_df rows = Ok out.
Proof.
  unfold px_read_table. destruct (px_read prefix files) as [rs|e]; cbn [bind].
  - destruct (table excl bin to_df rs) as [t|e] eqn:Et; cbn [bind].
    + split; [intros H; injection H as <- <-; split; [reflexivity | exact Et] | intros (H1 & H2); congruence].
    + split; [discriminate | intros (H1 & H2); injection H1 as <-; congruence].
  - split; [discriminate | intros (H1 & _); discriminate].
Qed.

Lemma pxp_assoc_in n d t : px_assoc n d = Some t -> In n (map fst d).
Proof.
  px_clear_oracles.
  induction d as [|[k v] d IH]; cbn [px_assoc map fst In]; [discriminate|].
  destruct (str_eqb n k) eqn:E; [apply b_str_eqb_eq in E; subst; tauto | intros H; right; apply IH; exact H].
Qed.

Lemma pxp_table_err_of excl bin to_df rows p e :
  In p (frame bin rows) -> logf excl p = Err e -> exists e', table excl bin to_df rows = Err e'.
Proof.
  intros Hin He. unfold px_table. destruct (pxp_mapM_has_err (logf excl) _ p e Hin He) as (e' & ->).
  cbn [bind]. eauto.
Qed.

(* a search score whose text is no number: ValueError -- unless the column is excluded *)
Theorem pxp_table_nonnumeric excl bin to_df rows p n t :
  In p rows -> px_assoc n (p_scores p) = Some t -> ~ In n px_RESERVED12 -> ~ In n excl ->
  num (px_lower t) = None ->
  exists e, table excl bin to_df rows = Err e.
Proof.
  intros Hp Ha Hres Hex Hnum. destruct rows as [|r0 rest]; [destruct Hp|].
  assert (Hn : In n (px_parsed_names (r0 :: rest))).
  { apply pxp_parsed_names_in. exists p. split; [exact Hp|]. unfold px_row_keys.
    rewrite !in_app_iff. right. right. right. right. eapply pxp_assoc_in; exact Ha. }
  destruct (pxp_frame_parsed bin r0 rest n Hn) as (lo & hi & Hin).
  rewrite pxp_parsed_col_score in Hin by exact Hres.
  assert (Hlog : exists e, logf excl {| pc_name := n; pc_kind := KText; pc_cells := map (px_score_cell n) (r0 :: rest) |} = Err e).
  { unfold px_log_features. cbn [pc_name pc_kind pc_cells].
    replace (px_is_feature excl n) with true.
    2:{ symmetry. apply pxp_is_feature_iff. split; [|exact Hex]. intros H. apply Hres. unfold px_RESERVED12. apply in_or_app; left; exact H. }
    destruct (pxp_mapM_has_err (px_view num rp) (map (px_score_cell n) (r0 :: rest)) (px_score_cell n p) EValue) as (e' & ->).
    - apply in_map; exact Hp.
    - unfold px_score_cell. rewrite Ha. cbn [px_view]. rewrite Hnum. reflexivity.
    - cbn [bind]. eauto. }
  destruct Hlog as (e & He). eapply pxp_table_err_of; [exact Hin | exact He].
Qed.

(* to_df=False needs targets and decoys *)
Theorem pxp_table_dataset_labels excl bin rows :
  (forall p, In p rows -> p_label p = true) \/ (forall p, In p rows -> p_label p = false) ->
  exists e, table excl bin false rows = Err e.
Proof.
  intros H. unfold px_table. destruct (px_mapM (logf excl) (frame bin rows)) as [cs|e]; cbn [bind]; [|eauto].
  destruct H as [H|H].
  - destruct (negb (existsb p_label rows)); [eauto|].
    replace (forallb p_label rows) with true; [eauto|]. symmetry. apply forallb_forall. exact H.
  - replace (existsb p_label rows) with false; [cbn [negb]; eauto|].
    symmetry. destruct (existsb p_label rows) eqn:E; [|reflexivity].
    apply existsb_exists in E. destruct E as (p & Hp & Hl). rewrite (H p Hp) in Hl. discriminate.
Qed.

(* ---- the peptide column in terms of the document: the modification insertion of the original
        property first, then the suffix computed from the same hit's masses ---- *)
Theorem pxp_read_table_peptide prefix files excl bin to_df rows out :
  read_table prefix files excl bin to_df = Ok (rows, out) ->
  exists lo hi cells,
    In {| c_name := px_N_PEPTIDE; c_kind := KText; c_role := RMeta; c_logged := false; c_cells := cells |} (o_cols out) /\
    Forall2 (fun (c : px_ctx) cell =>
               let '(r, s, h) := c in
               exists e k, s_mass s = Some e /\ h_calc h = Some k /\
                 cell = CText (px_peptide (h_peptide h) (h_modinfos h)
                               ++ match bin with None => [] | Some b => px_tag (sfx b lo hi (md e k)) end))
            (px_hits_of files) cells.
Proof.
  intros H. apply pxp_read_table_ok in H. destruct H as (Hr & Ht).
  pose proof (px_read_rows _ _ _ Hr) as Hrows.
  destruct rows as [|r0 rest].
  { exfalso. apply px_read_ok in Hr. destruct Hr as (Hc & Hne & _).
    inversion Hrows as [Hh|]; subst.
    destruct files as [|f fs]; [congruence|].
    cbn [px_collect] in Hc. destruct (px_parse_file prefix f) as [rs|e] eqn:Ef; [|discriminate].
    destruct (px_collect (px_parse_file prefix) fs) as [rs'|e]; [|discriminate].
    injection Hc as Hc. apply app_eq_nil in Hc. destruct Hc as (-> & _).
    unfold px_parse_file in Ef. destruct (px_collect (px_parse_run prefix) (f_runs f)) as [rr|e]; [|discriminate].
    destruct (f_broken f); [discriminate|]. destruct rr; discriminate. }
  exists (px_md_lo r0 rest), (px_md_hi r0 rest). eexists. split; [exact (pxp_peptide_column _ _ _ _ _ _ Ht)|].
  apply pxp_Forall2_map_r. eapply px_Forall2_impl; [|exact Hrows].
  intros [[r s] h] row Hrow. unfold px_row_of in Hrow.
  destruct Hrow as (_ & _ & _ & _ & Hm & Hk & Hp & _).
  exists (p_exp row), (p_calc row). split; [exact Hm|]. split; [exact Hk|].
  unfold px_pep_out, px_md_of. rewrite Hp. destruct bin; [reflexivity | rewrite app_nil_r; reflexivity].
Qed.


(* ====================================================================== *)
(* Roles and the metadata columns                                         *)
(* ====================================================================== *)
Lemma pxp_Forall2_in_r {A B} (R : A -> B -> Prop) l l' y :
  Forall2 R l l' -> In y l' -> exists x, In x l /\ R x y.
Proof.
  induction 1 as [|a b l l' Hab HF IH]; intros Hin; [destruct Hin|].
  destruct Hin as [<-|Hin]; [exists a; split; [left; reflexivity | exact Hab]|].
  destruct (IH Hin) as (x & Hx & HR). exists x. split; [right; exact Hx | exact HR].
Qed.

(* a column is a feature iff its name is none of the nine metadata names and is not excluded *)
Theorem pxp_roles excl bin to_df rows out c :
  table excl bin to_df rows = Ok out -> In c (o_cols out) ->
  (c_role c = RFeature <-> ~ In (c_name c) px_META9 /\ ~ In (c_name c) excl) /\
  (c_role c = RFeature -> c_kind c = KFloat /\ length (c_cells c) = length rows).
Proof.
  intros HT Hc. pose proof (pxp_table_cols _ _ _ _ _ HT) as HF.
  destruct (pxp_Forall2_in_r _ _ _ c HF Hc) as (p & Hp & Hlog).
  pose proof (pxp_logf_name _ _ _ Hlog) as Hn. rewrite Hn, <- pxp_is_feature_iff.
  assert (Hlen : length (pc_cells p) = length rows).
  { unfold px_frame in Hp. destruct rows as [|r0 rest]; [destruct Hp|].
    rewrite !in_app_iff in Hp. destruct Hp as [Hp|[Hp|Hp]].
    - apply in_map_iff in Hp. destruct Hp as (n & <- & _). unfold px_parsed_col, px_optint_col.
      repeat match goal with |- context [if ?b then _ else _] => destruct b end;
        cbn [pc_cells]; rewrite ?map_length; reflexivity.
    - destruct Hp as [<-|[<-|[]]]; cbn [pc_cells]; apply map_length.
    - apply in_map_iff in Hp. destruct Hp as (c0 & <- & _). cbn [px_charge_col pc_cells]. apply map_length. }
  destruct (px_is_feature excl (pc_name p)) eqn:Ef.
  - destruct (pxp_logf_feature excl p c Ef Hlog) as (_ & H2 & H3 & H4 & _).
    split; [split; [reflexivity | intros _; exact H2]|]. intros _. split; [exact H3 | congruence].
  - rewrite pxp_logf_meta in Hlog by exact Ef. injection Hlog as <-. cbn [c_role].
    split; [split; discriminate | discriminate].
Qed.

(* the nine metadata columns come first, in the order in which the parser fills its dict, with these
   dtypes and these cells *)
Definition px_meta_cols (bin : option Q) (lo hi : Q) (rows : list px_psm) : list px_col :=
  let mk n k f := {| c_name := n; c_kind := k; c_role := RMeta; c_logged := false; c_cells := map f rows |} in
  [ mk px_N_FILE KText (fun p => CText (p_file p));
    mk px_N_SCAN KInt (fun p => CInt (p_scan p));
    mk px_N_CHARGE KInt (fun p => CInt (p_charge p));
    mk px_N_RT KFloat (fun p => CAttr (p_rt p));
    mk px_N_EXP KFloat (fun p => CAttr (p_exp p));
    mk px_N_CALC KFloat (fun p => CAttr (p_calc p));
    mk px_N_PEPTIDE KText (fun p => CText (px_pep_out md sfx bin lo hi p));
    mk px_N_PROTEINS KText (fun p => CText (px_join_tab (p_proteins p)));
    mk px_N_LABEL KBool (fun p => CBool (p_label p)) ].

Lemma pxp_meta_cols_aux excl bin lo hi rows l : forall cs,
  Forall (fun n => In n px_META9) l ->
  Forall2 (fun n c => logf excl (px_parsed_col lg md sfx bin lo hi rows n) = Ok c) l cs ->
  cs = map (fun n => let p := px_parsed_col lg md sfx bin lo hi rows n in
                     {| c_name := pc_name p; c_kind := pc_kind p; c_role := RMeta; c_logged := false;
                        c_cells := pc_cells p |}) l.
Proof.
  induction l as [|n l IH]; intros cs HM HF; inversion HF as [|n0 c l0 cs0 Hnc Hrest]; subst; [reflexivity|].
  inversion HM as [|n0 l0 Hn HM']; subst. cbn [map]. f_equal; [|apply IH; assumption].
  rewrite pxp_logf_meta in Hnc by (apply pxp_is_feature_false; left; rewrite pxp_parsed_col_name; exact Hn).
  injection Hnc as <-. reflexivity.
Qed.

Theorem pxp_meta_first excl bin to_df r0 rest out :
  table excl bin to_df (r0 :: rest) = Ok out ->
  exists tail, o_cols out = px_meta_cols bin (px_md_lo r0 rest) (px_md_hi r0 rest) (r0 :: rest) ++ tail.
Proof.
  intros HT. pose proof (pxp_table_cols _ _ _ _ _ HT) as HF.
  unfold px_frame in HF. rewrite pxp_parsed_names_eq in HF by discriminate.
  rewrite map_app, <- app_assoc in HF.
  apply Forall2_app_inv_l in HF. destruct HF as (l1 & l2 & H1 & _ & ->).
  exists l2. f_equal. apply pxp_Forall2_map_l in H1.
  apply pxp_meta_cols_aux in H1; [|apply Forall_forall; auto].
  rewrite H1. reflexivity.
Qed.

(* to_df=False: the keyword arguments of LinearPsmDataset *)
Theorem pxp_dataset_roles excl bin rows out :
  table excl bin false rows = Ok out ->
  o_roles out = Some {| ro_target := px_N_LABEL; ro_spectrum := [px_N_FILE; px_N_SCAN; px_N_RT];
                        ro_peptide := px_N_PEPTIDE; ro_protein := px_N_PROTEINS;
                        ro_features := px_feature_names (o_cols out);
                        ro_filename := px_N_FILE; ro_scan := px_N_SCAN; ro_calcmass := px_N_CALC;
                        ro_expmass := px_N_EXP; ro_rt := px_N_RT; ro_charge := px_N_CHARGE |}.
Proof.
  intros H. apply pxp_to_df_independent in H. destruct H as (o & _ & _ & _ & _ & ->). reflexivity.
Qed.

Theorem pxp_df_no_roles excl bin rows out : table excl bin true rows = Ok out -> o_roles out = None.
Proof.
  unfold px_table. destruct (px_mapM (logf excl) (frame bin rows)) as [cs|e]; cbn [bind]; [|discriminate].
  intros H; injection H as <-. reflexivity.
Qed.


(* ====================================================================== *)
(* The decision of _log_features, declaratively                           *)
(* ====================================================================== *)
(* exponent-notation branch: some text contains "e", and every row has a value, all > 0 *)
Lemma pxp_sci_cond_iff vs :
  px_sci_cond vs = true <->
  Exists (fun n => px_nv_e n = true) vs /\
  Forall (fun n => exists e v parts, n = NVval e v parts /\ (0 < v)%Q) vs.
Proof.
  unfold px_sci_cond. rewrite andb_true_iff, existsb_exists, forallb_forall, Exists_exists, Forall_forall.
  split; intros (H1 & H2); (split; [exact H1|]); intros n Hn; specialize (H2 n Hn).
  - destruct n as [| |e v parts]; cbn [px_nv_pos] in H2; try discriminate. apply pxp_qlt in H2. eauto.
  - destruct H2 as (e & v & parts & -> & Hv). cbn [px_nv_pos]. apply pxp_qlt; exact Hv.
Qed.

Lemma pxp_nonzero_iff v : negb (Qeq_bool v 0) = true <-> ~ (v == 0)%Q.
Proof.
  px_clear_oracles.
  rewrite negb_true_iff. destruct (Qeq_bool v 0) eqn:E.
  - apply Qeq_bool_iff in E. split; [discriminate | tauto].
  - split; [|reflexivity]. intros _ H. apply Qeq_bool_iff in H. congruence.
Qed.

(* the other branch: no -inf, all values >= 0, not a 0/1 column, and the largest value is at least
   10000 times (in double arithmetic) the smallest non-zero one *)
Definition px_plain_rule (vs : list px_nv) : Prop :=
  (forall n, In n vs -> n <> NVneginf) /\
  (forall v, In v (px_present vs) -> (0 <= v)%Q) /\
  ~ (forall n, In n vs -> exists e v parts, n = NVval e v parts /\ (v == 0 \/ v == 1)%Q) /\
  exists hi lo, In hi (px_present vs) /\ In lo (px_present vs) /\ ~ (lo == 0)%Q /\
    (forall x, In x (px_present vs) -> (x <= hi)%Q) /\
    (forall x, In x (px_present vs) -> ~ (x == 0)%Q -> (lo <= x)%Q) /\
    (px_RATIO * lo <= hi)%Q.

Lemma pxp_RATIO_pos : (0 < px_RATIO)%Q.
Proof. reflexivity. Qed.

Lemma pxp_plain_cond_iff vs : px_plain_cond vs = true <-> px_plain_rule vs.
Proof.
  px_clear_oracles.
  unfold px_plain_cond, px_plain_rule. rewrite !andb_true_iff.
  set (pres := px_present vs). set (nzf := fun v : Q => negb (Qeq_bool v 0)).
  assert (HA : negb (existsb (fun n => match n with NVneginf => true | _ => false end) vs) = true
               <-> forall n, In n vs -> n <> NVneginf).
  { rewrite negb_true_iff. split.
    - intros H n Hn ->. assert (E : existsb (fun n => match n with NVneginf => true | _ => false end) vs = true)
        by (apply existsb_exists; exists NVneginf; split; [exact Hn | reflexivity]). congruence.
    - intros H. destruct (existsb _ vs) eqn:E; [|reflexivity]. apply existsb_exists in E.
      destruct E as (n & Hn & Hm). destruct n; try discriminate. exfalso. exact (H _ Hn eq_refl). }
  assert (HB : forallb (Qle_bool 0) pres = true <-> forall v, In v pres -> (0 <= v)%Q).
  { rewrite forallb_forall. split; intros H v Hv; apply pxp_qle_bool, H, Hv. }
  assert (HC : negb (forallb px_nv_binary vs) = true
               <-> ~ (forall n, In n vs -> exists e v parts, n = NVval e v parts /\ (v == 0 \/ v == 1)%Q)).
  { rewrite negb_true_iff. split.
    - intros H Hall. assert (E : forallb px_nv_binary vs = true).
      { apply forallb_forall. intros n Hn. destruct (Hall n Hn) as (e & v & parts & -> & Hv).
        cbn [px_nv_binary]. apply orb_true_iff. destruct Hv as [Hv|Hv]; [left | right]; apply Qeq_bool_iff; exact Hv. }
      congruence.
    - intros H. destruct (forallb px_nv_binary vs) eqn:E; [|reflexivity]. exfalso. apply H.
      intros n Hn. rewrite forallb_forall in E. specialize (E n Hn).
      destruct n as [| |e v parts]; cbn [px_nv_binary] in E; try discriminate.
      exists e, v, parts. split; [reflexivity|]. apply orb_true_iff in E.
      destruct E as [E|E]; [left | right]; apply Qeq_bool_iff; exact E. }
  rewrite HA, HB, HC. clear HA HB HC.
  split.
  - intros (((H1 & H2) & H3) & H4). split; [exact H1|]. split; [exact H2|]. split; [exact H3|].
    destruct pres as [|x r] eqn:Ep; [discriminate|].
    destruct (filter nzf (x :: r)) as [|y s] eqn:En; [discriminate|].
    apply pxp_qle_bool in H4.
    destruct (pxp_qmax_from_spec r x) as (Hmi & Hmb). destruct (pxp_qmin_from_spec s y) as (Hni & Hnb).
    exists (px_qmax_from x r), (px_qmin_from y s).
    assert (Hlo : In (px_qmin_from y s) (filter nzf (x :: r))) by (rewrite En; exact Hni).
    apply filter_In in Hlo. destruct Hlo as (Hlo1 & Hlo2). apply pxp_nonzero_iff in Hlo2.
    split; [exact Hmi|]. split; [exact Hlo1|]. split; [exact Hlo2|]. split; [exact Hmb|]. split; [|exact H4].
    intros z Hz Hnz. apply Hnb. rewrite <- En. apply filter_In. split; [exact Hz | apply pxp_nonzero_iff; exact Hnz].
  - intros (H1 & H2 & H3 & hi & lo & Hhi & Hlo & Hlnz & Hub & Hlb & Hr).
    split; [split; [split|]; assumption|].
    destruct pres as [|x r] eqn:Ep; [destruct Hhi|].
    assert (Hlo' : In lo (filter nzf (x :: r))) by (apply filter_In; split; [exact Hlo | apply pxp_nonzero_iff; exact Hlnz]).
    destruct (filter nzf (x :: r)) as [|y s] eqn:En; [destruct Hlo'|].
    apply pxp_qle_bool.
    destruct (pxp_qmax_from_spec r x) as (Hmi & Hmb). destruct (pxp_qmin_from_spec s y) as (Hni & Hnb).
    eapply Qle_trans; [|apply Hmb; exact Hhi]. eapply Qle_trans; [|exact Hr].
    apply Qmult_le_l; [exact pxp_RATIO_pos|]. apply Hnb. exact Hlo'.
Qed.

(* ---- what each branch returns ---- *)
Definition px_plain_log_cell (low : Q) (n : px_nv) : px_cell :=
  match n with
  | NVval _ v _ => if Qeq_bool v 0 then CNum low else CNum (lg v)
  | other => px_nv_id other
  end.

Lemma pxp_plain_branch_id vs : px_plain_cond vs = false -> px_plain_branch lg vs = (false, map px_nv_id vs).
Proof. intros H. unfold px_plain_branch. rewrite H. reflexivity. Qed.

(* when the rule holds the WHOLE column is replaced: log10 of every non-zero value, every zero one below
   the smallest of these logarithms, NaN stays NaN *)
Lemma pxp_plain_branch_logged vs :
  px_plain_cond vs = true ->
  exists l0 lr, map lg (filter (fun v => negb (Qeq_bool v 0)) (px_present vs)) = l0 :: lr /\
    px_plain_branch lg vs = (true, map (px_plain_log_cell (px_qmin_from l0 lr - 1)%Q) vs).
Proof.
  px_clear_oracles.
  intros H. unfold px_plain_branch. rewrite H.
  assert (Hnz : filter (fun v => negb (Qeq_bool v 0)) (px_present vs) <> []).
  { apply pxp_plain_cond_iff in H. destruct H as (_ & _ & _ & hi & lo & _ & Hlo & Hlnz & _).
    intros E. assert (Hin : In lo (filter (fun v => negb (Qeq_bool v 0)) (px_present vs)))
      by (apply filter_In; split; [exact Hlo | apply pxp_nonzero_iff; exact Hlnz]).
    rewrite E in Hin. destruct Hin. }
  destruct (filter (fun v => negb (Qeq_bool v 0)) (px_present vs)) as [|y s]; [congruence|].
  cbn [map]. exists (lg y), (map lg s). split; reflexivity.
Qed.

Lemma pxp_transform_plain vs :
  px_sci_cond vs = false -> px_transform lg vs = Ok (px_plain_branch lg vs).
Proof. intros H. unfold px_transform. rewrite H. reflexivity. Qed.

(* the exponent branch when no mantissa is zero (which "all values > 0" guarantees for a correct
   float(): the contract of [num] and [rp]) *)
Definition px_sci_log_cell (x : Q * Z) : px_cell := CNum (lg (fst x) + inject_Z (snd x))%Q.

Lemma pxp_sci_branch_nozero vs rps :
  px_mapM px_nv_parts vs = Ok rps ->
  Forall (fun x => ~ (fst x == 0)%Q) rps ->
  px_sci_branch lg vs =
  Ok (match map snd rps with
      | [] => (false, map px_nv_id vs)
      | p0 :: pr => if 4 <=? Z.abs (px_zmax_from p0 pr - px_zmin_from p0 pr)
                    then (true, map px_sci_log_cell rps) else (false, map px_nv_id vs)
      end).
Proof.
  px_clear_oracles.
  intros E Hnz. unfold px_sci_branch. rewrite E. cbn [bind].
  assert (Hall : forallb (fun x : Q * Z => negb (Qeq_bool (fst x) 0)) rps = true).
  { apply forallb_forall. intros x Hx. apply pxp_nonzero_iff. rewrite Forall_forall in Hnz. apply Hnz; exact Hx. }
  rewrite Hall. cbn [bind]. destruct (map snd rps) as [|p0 pr]; [reflexivity|].
  destruct (4 <=? Z.abs (px_zmax_from p0 pr - px_zmin_from p0 pr)); reflexivity.
Qed.

(* the spread of the exponents, declaratively *)
Lemma pxp_spread_iff p0 pr :
  (4 <=? Z.abs (px_zmax_from p0 pr - px_zmin_from p0 pr)) = true <->
  exists hi lo, In hi (p0 :: pr) /\ In lo (p0 :: pr) /\ 4 <= hi - lo.
Proof.
  destruct (pxp_zmax_from_spec pr p0) as (Hxi & Hxb). destruct (pxp_zmin_from_spec pr p0) as (Hni & Hnb).
  rewrite Z.leb_le. split.
  - intros H. exists (px_zmax_from p0 pr), (px_zmin_from p0 pr). split; [exact Hxi|]. split; [exact Hni|].
    pose proof (Hnb _ Hxi). lia.
  - intros (hi & lo & Hhi & Hlo & Hd). pose proof (Hxb _ Hhi). pose proof (Hnb _ Hlo). lia.
Qed.

(* never a part of a column: when the flag is off every row carries its own value *)
Theorem pxp_transform_whole vs b cells :
  px_transform lg vs = Ok (b, cells) ->
  length cells = length vs /\ (b = false -> cells = map px_nv_id vs) /\
  (b = true -> px_sci_cond vs = true \/ (px_plain_cond vs = true /\
               exists low, cells = map (px_plain_log_cell low) vs)).
Proof.
  px_clear_oracles.
  intros H. destruct (pxp_transform_spec _ _ _ H) as (Hl & _ & Hid).
  split; [exact Hl|]. split; [exact Hid|]. intros ->.
  destruct (px_sci_cond vs) eqn:Es; [left; reflexivity | right].
  rewrite pxp_transform_plain in H by exact Es. injection H as H.
  destruct (px_plain_cond vs) eqn:Ep.
  - split; [reflexivity|]. destruct (pxp_plain_branch_logged vs Ep) as (l0 & lr & _ & Hb).
    rewrite Hb in H. injection H as <-. eexists; reflexivity.
  - rewrite pxp_plain_branch_id in H by exact Ep. discriminate.
Qed.

(* a column is log-transformed iff the rule holds of its values (exponent branch: stated for
   non-zero mantissas) *)
Theorem pxp_transform_decision vs b cells :
  px_transform lg vs = Ok (b, cells) ->
  (px_sci_cond vs = false -> (b = true <-> px_plain_rule vs)) /\
  (px_sci_cond vs = true ->
     forall rps, px_mapM px_nv_parts vs = Ok rps -> Forall (fun x => ~ (fst x == 0)%Q) rps ->
       (b = true <-> exists hi lo, In hi (map snd rps) /\ In lo (map snd rps) /\ 4 <= hi - lo) /\
       (b = true -> cells = map px_sci_log_cell rps)).
Proof.
  px_clear_oracles.
  intros H. split.
  - intros Es. rewrite pxp_transform_plain in H by exact Es. injection H as H.
    rewrite <- pxp_plain_cond_iff. destruct (px_plain_cond vs) eqn:Ep.
    + destruct (pxp_plain_branch_logged vs Ep) as (l0 & lr & _ & Hb). rewrite Hb in H. injection H as <- _. tauto.
    + rewrite pxp_plain_branch_id in H by exact Ep. injection H as <- _. split; discriminate.
  - intros Es rps Erps Hnz. unfold px_transform in H. rewrite Es in H.
    rewrite (pxp_sci_branch_nozero vs rps Erps Hnz) in H.
    destruct (map snd rps) as [|p0 pr] eqn:Ep.
    + injection H as <- <-. split; [|discriminate]. split; [discriminate|]. intros (hi & _ & [] & _).
    + rewrite <- pxp_spread_iff.
      destruct (4 <=? Z.abs (px_zmax_from p0 pr - px_zmin_from p0 pr)); injection H as <- <-.
      * split; [tauto | reflexivity].
      * split; [split; discriminate | discriminate].
Qed.


(* ====================================================================== *)
(* Which calls succeed (a sufficient condition that the harness' documents meet)                        *)
(* ====================================================================== *)
(* a score text that float() accepts; if it is written with an exponent, its mantissa and exponent
   convert too, and the mantissa of a positive number is not zero (a correct float() guarantees both) *)
Definition px_text_ok (t : str) : Prop :=
  exists v, num (px_lower t) = Some v /\
    match px_split_e (px_lower t) with
    | None => True
    | Some (a, b) => exists r pw, num a = Some r /\ px_parse_int (px_until_e b) = Some pw /\ ((0 < v)%Q -> ~ (r == 0)%Q)
    end.

Definition px_cell_good (c : px_cell) : Prop :=
  match c with
  | CNaN | CNegInf | CInt _ | CNum _ => True
  | CText t => px_text_ok t
  | CBool _ | CAttr _ => False
  end.

Definition px_nv_good (n : px_nv) : Prop :=
  match n with
  | NVval _ v parts => exists r pw, parts = Some (r, pw) /\ ((0 < v)%Q -> ~ (r == 0)%Q)
  | _ => True
  end.

Section Accept.
(* contract of the repr oracle: the mantissa of a positive double is not zero *)
Hypothesis rp_nonzero : forall x, (0 < x)%Q -> ~ (fst (rp x) == 0)%Q.

Lemma pxp_view_good c : px_cell_good c -> exists n, px_view num rp c = Ok n /\ px_nv_good n.
Proof.
  destruct c as [t|b|z|z|x| |]; cbn [px_cell_good px_view]; intros H; try contradiction.
  - destruct H as (v & Hv & Hs). rewrite Hv. destruct (px_split_e (px_lower t)) as [[a b]|].
    + destruct Hs as (r & pw & -> & -> & Hr). eexists. split; [reflexivity|]. cbn [px_nv_good]. eauto.
    + eexists. split; [reflexivity|]. cbn [px_nv_good]. exists v, 0. split; [reflexivity|].
      intros Hp Hz. rewrite Hz in Hp. exact (Qlt_irrefl _ Hp).
  - eexists. split; [reflexivity|]. cbn [px_nv_good]. eexists; eexists. split; [reflexivity|].
    intros Hp Hz. rewrite Hz in Hp. exact (Qlt_irrefl _ Hp).
  - destruct (px_float_has_e x).
    + eexists. split; [reflexivity|]. cbn [px_nv_good]. exists (fst (rp x)), (snd (rp x)).
      split; [destruct (rp x); reflexivity | apply rp_nonzero].
    + eexists. split; [reflexivity|]. cbn [px_nv_good]. eexists; eexists. split; [reflexivity|].
      intros Hp Hz. rewrite Hz in Hp. exact (Qlt_irrefl _ Hp).
  - eexists. split; [reflexivity | exact I].
  - eexists. split; [reflexivity | exact I].
Qed.

Lemma pxp_views_good cells :
  Forall px_cell_good cells -> exists vs, px_mapM (px_view num rp) cells = Ok vs /\ Forall px_nv_good vs.
Proof.
  induction 1 as [|c cells Hc HF IH].
  - exists []. split; [reflexivity | constructor].
  - destruct (pxp_view_good c Hc) as (n & Hn & Hg). destruct IH as (vs & Hvs & Hgs).
    exists (n :: vs). split; [cbn [px_mapM]; rewrite Hn, Hvs; reflexivity | constructor; assumption].
Qed.

Lemma pxp_parts_good vs :
  Forall px_nv_good vs -> Forall (fun n => exists e v parts, n = NVval e v parts /\ (0 < v)%Q) vs ->
  exists rps, px_mapM px_nv_parts vs = Ok rps /\ Forall (fun x => ~ (fst x == 0)%Q) rps.
Proof.
  induction 1 as [|n vs Hn HF IH]; intros Hpos.
  - exists []. split; [reflexivity | constructor].
  - inversion Hpos as [|n0 vs0 Hp Hps]; subst. destruct Hp as (e & v & parts & -> & Hv).
    cbn [px_nv_good] in Hn. destruct Hn as (r & pw & -> & Hr). destruct (IH Hps) as (rps & Hrps & Hnz).
    exists ((r, pw) :: rps). split; [cbn [px_mapM px_nv_parts]; rewrite Hrps; reflexivity|].
    constructor; [exact (Hr Hv) | exact Hnz].
Qed.

Lemma pxp_transform_good vs : Forall px_nv_good vs -> exists r, px_transform lg vs = Ok r.
Proof.
  px_clear_oracles.
  intros Hg. destruct (px_sci_cond vs) eqn:Es.
  - pose proof Es as Es'. apply pxp_sci_cond_iff in Es'. destruct Es' as (_ & Hpos).
    destruct (pxp_parts_good vs Hg Hpos) as (rps & Hrps & Hnz).
    unfold px_transform. rewrite Es, (pxp_sci_branch_nozero vs rps Hrps Hnz). eauto.
  - rewrite pxp_transform_plain by exact Es. eauto.
Qed.

Lemma pxp_logf_good excl p :
  (pc_kind p <> KBool -> px_is_feature excl (pc_name p) = true -> Forall px_cell_good (pc_cells p)) ->
  exists c, logf excl p = Ok c.
Proof.
  intros H. unfold px_log_features. destruct (px_is_feature excl (pc_name p)) eqn:Ef; [|eauto].
  destruct (pc_kind p) eqn:Ek; try (eexists; reflexivity);
    (destruct (pxp_views_good (pc_cells p)) as (vs & -> & Hg); [apply H; [discriminate | reflexivity]|];
     cbn [bind]; destruct (pxp_transform_good vs Hg) as (r & ->); cbn [bind]; eauto).
Qed.

Lemma pxp_optint_good name vals : Forall px_cell_good (pc_cells (px_optint_col name vals)).
Proof.
  unfold px_optint_col. destruct (forallb _ vals); cbn [pc_cells]; apply Forall_forall; intros c Hc;
    apply in_map_iff in Hc; destruct Hc as ([z|] & <- & _); exact I.
Qed.

Theorem pxp_table_accepts excl bin to_df rows :
  rows <> [] ->
  (forall p n t, In p rows -> px_assoc n (p_scores p) = Some t -> ~ In n excl -> px_text_ok t) ->
  to_df = true \/ (existsb p_label rows = true /\ forallb p_label rows = false) ->
  exists out, table excl bin to_df rows = Ok out.
Proof.
  intros Hne Htext Hdf.
  assert (Hall : forall p, In p (frame bin rows) -> exists c, logf excl p = Ok c).
  { intros p Hp. unfold px_frame in Hp. destruct rows as [|r0 rest]; [congruence|].
    rewrite !in_app_iff in Hp. destruct Hp as [Hp|[Hp|Hp]].
    - apply in_map_iff in Hp. destruct Hp as (n & <- & _). apply pxp_logf_good.
      rewrite pxp_parsed_col_name. intros _ Hf. apply pxp_is_feature_iff in Hf. destruct Hf as (Hm & Hex).
      unfold px_parsed_col.
      rewrite !pxp_str_eqb_neq by (intros ->; apply Hm; unfold px_META9; cbn [In]; tauto).
      destruct (str_eqb n px_N_MC); [apply pxp_optint_good|].
      destruct (str_eqb n px_N_NTT); [apply pxp_optint_good|].
      destruct (str_eqb n px_N_NMP).
      + cbn [pc_cells]. apply Forall_forall. intros c Hc. apply in_map_iff in Hc. destruct Hc as (q & <- & _).
        unfold px_nmp_cell. destruct (p_nmp q) as [z|]; [|exact I]. destruct (0 <? z); [exact I|]. destruct (z =? 0); exact I.
      + cbn [pc_cells]. apply Forall_forall. intros c Hc. apply in_map_iff in Hc. destruct Hc as (q & <- & Hq).
        unfold px_score_cell. destruct (px_assoc n (p_scores q)) as [t|] eqn:Ea; [|exact I].
        cbn [px_cell_good]. exact (Htext q n t Hq Ea Hex).
    - apply pxp_logf_good. intros _ _.
      destruct Hp as [<-|[<-|[]]]; cbn [pc_cells]; apply Forall_forall; intros c Hc; apply in_map_iff in Hc;
        destruct Hc as (q & <- & _); [exact I|]. unfold px_mz_cell. destruct (p_charge q =? 0); exact I.
    - apply in_map_iff in Hp. destruct Hp as (c0 & <- & _). apply pxp_logf_good.
      intros Hk. exfalso. apply Hk. reflexivity. }
  destruct (pxp_mapM_total (logf excl) (frame bin rows) Hall) as (cols & Hcols).
  unfold px_table. rewrite Hcols. cbn [bind]. destruct Hdf as [->|(H1 & H2)]; [eauto|].
  destruct to_df; [eauto|]. rewrite H1, H2. cbn [negb]. eauto.
Qed.

End Accept.

End Post.
