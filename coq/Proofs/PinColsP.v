(* Proofs about Model/PinCols.v (C10, and the column-scan part of C05). *)
From Coq Require Import Lia.
From Mokaverif Require Import Model.Base Model.PinCols Proofs.BaseP.
Open Scope nat_scope.

(* ====================== create_chunks ====================== *)
Lemma chunks_aux_fuel2 {A} c (l : list A) f1 f2 : 1 <= c -> length l <= f1 -> length l <= f2 ->
  pc_chunks_aux f1 c l = pc_chunks_aux f2 c l.
Proof.
  intros Hc. revert l f2. induction f1 as [|f1 IH]; intros l f2 H1 H2.
  - destruct l; [destruct f2; reflexivity|simpl in H1; lia].
  - destruct l as [|x l]; [destruct f2; reflexivity|].
    destruct f2 as [|f2]; [simpl in H2; lia|].
    cbn [pc_chunks_aux]. f_equal.
    apply IH; rewrite skipn_length; cbn [length] in *; lia.
Qed.

Lemma chunks_aux_fuel {A} c (l : list A) f : 1 <= c -> length l <= f ->
  pc_chunks_aux f c l = pc_chunks_aux (length l) c l.
Proof. intros Hc Hl. apply chunks_aux_fuel2; [exact Hc|exact Hl|lia]. Qed.

Lemma chunks_small {A} c (l : list A) : l <> [] -> length l <= c -> pc_chunks c l = [l].
Proof.
  intros Hne Hl. unfold pc_chunks. destruct l as [|x l]; [congruence|].
  cbn [pc_chunks_aux length]. rewrite firstn_all2 by exact Hl.
  rewrite skipn_all2 by exact Hl. destruct (length l); reflexivity.
Qed.

Lemma chunks_nil {A} c : pc_chunks c (@nil A) = [].
Proof. reflexivity. Qed.

Lemma chunks_peel {A} c (a b : list A) : 1 <= c -> length a = c -> pc_chunks c (a ++ b) = a :: pc_chunks c b.
Proof.
  intros Hc Ha. unfold pc_chunks.
  destruct (a ++ b) as [|x l] eqn:E.
  { destruct a; [simpl in Ha; lia|discriminate]. }
  cbn [pc_chunks_aux length]. rewrite <- E.
  rewrite firstn_app, Ha, Nat.sub_diag, firstn_O, app_nil_r, <- Ha, firstn_all.
  rewrite skipn_app, Nat.sub_diag, skipn_O, skipn_all, app_nil_l. f_equal.
  apply chunks_aux_fuel; [lia|].
  assert (length (x :: l) = length a + length b) as HL by (rewrite <- E; apply app_length).
  simpl in HL. lia.
Qed.

Lemma chunks_multiple {A} c k (F b : list A) : 1 <= c -> length F = k * c ->
  pc_chunks c (F ++ b) = pc_chunks c F ++ pc_chunks c b.
Proof.
  intros Hc. revert F. induction k as [|k IH]; intros F HF.
  - destruct F; [reflexivity|simpl in HF; lia].
  - assert (F = firstn c F ++ skipn c F) as EF by (symmetry; apply firstn_skipn).
    assert (length (firstn c F) = c) as H1 by (rewrite firstn_length; nia).
    assert (length (skipn c F) = k * c) as H2 by (rewrite skipn_length; nia).
    rewrite EF, <- app_assoc. rewrite !(chunks_peel c (firstn c F)) by assumption.
    rewrite (IH _ H2). reflexivity.
Qed.

Lemma chunks_concat {A} c (l : list A) : 1 <= c -> concat (pc_chunks c l) = l.
Proof.
  intros Hc. unfold pc_chunks. remember (length l) as n eqn:En.
  assert (length l <= n) as Hl by lia. clear En. revert l Hl.
  induction n as [|n IH]; intros l Hl.
  - destruct l; [reflexivity|simpl in Hl; lia].
  - destruct l as [|x l]; [reflexivity|]. cbn [pc_chunks_aux concat].
    rewrite IH; [apply firstn_skipn|]. rewrite skipn_length. cbn [length] in *. lia.
Qed.

(* the identifier columns always end up together, at the end of the last chunk *)
Theorem chunks_ids_together {A} (data ids : list A) c : 1 <= c -> ids <> [] ->
  exists sls s0, pc_chunks_with_ids data ids c = sls ++ [s0 ++ ids] /\ concat sls ++ s0 = data.
Proof.
  intros Hc Hne. unfold pc_chunks_with_ids.
  set (total := length data + length ids).
  set (r := total mod c).
  set (n_last := if Nat.eqb r 0 then c else r).
  destruct (Nat.leb_spec (length ids) n_last) as [Hfit|Hno].
  - (* ids stay in the last chunk *)
    assert (length ids > 0) as Hip by (destruct ids; [congruence|simpl; lia]).
    assert (0 < n_last <= c /\ exists k, total = k * c + n_last) as (Hnl & k & Hk).
    { unfold n_last, r. pose proof (Nat.mod_upper_bound total c ltac:(lia)) as Hub.
      pose proof (Nat.div_mod total c ltac:(lia)) as Hdm.
      destruct (Nat.eqb_spec (total mod c) 0) as [E|E].
      - split; [lia|]. assert (total / c > 0) as Hq.
        { destruct (total / c) eqn:Eq; [|lia]. unfold total in *. lia. }
        exists (total / c - 1). rewrite E in Hdm.
        replace ((total / c - 1) * c + c) with (c * (total / c)) by nia. lia.
      - split; [lia|]. exists (total / c). lia. }
    set (nrest := n_last - length ids).
    assert (nrest <= length data) as Hnr by (unfold nrest, total in *; nia).
    set (F := firstn (length data - nrest) data). set (rest := skipn (length data - nrest) data).
    assert (data = F ++ rest) as Ed by (symmetry; apply firstn_skipn).
    assert (length F = k * c) as HF.
    { unfold F. rewrite firstn_length. unfold nrest, total in *. nia. }
    assert (length rest = nrest) as Hr.
    { unfold rest. rewrite skipn_length. lia. }
    exists (pc_chunks c F), rest. split.
    + rewrite Ed at 1. rewrite <- app_assoc. rewrite (chunks_multiple c k F _ Hc HF). f_equal.
      apply chunks_small; [destruct rest; [simpl; exact Hne|discriminate]|].
      rewrite app_length, Hr. unfold nrest. lia.
    + rewrite chunks_concat by exact Hc. symmetry. exact Ed.
  - exists (pc_chunks c data), []. split; [reflexivity|].
    rewrite chunks_concat by exact Hc. apply app_nil_r.
Qed.

(* ====================== the column scan is chunk-free ====================== *)
Definition pc_scan_spec (k : pc_class) (columns : list str) (label_is_bool : bool)
           (rows : list (list Z)) (nan_cols : list str) : result pc_dataset :=
  bind (pc_convert_targets label_is_bool (map (fun r => pc_cell columns r (k_label k)) rows)) (fun targets =>
  Ok (pc_mk k (filter (fun c => negb (mem_str c (k_nonfeat k)) && negb (mem_str c nan_cols)) columns)
        (map (fun r => map (pc_cell columns r) (k_spectra k)) rows) targets)).

Definition class_ok (k : pc_class) : Prop :=
  forall c, In c (k_spectra k ++ [k_label k]) -> In c (k_nonfeat k).

Lemma filter_all_false {A} (f : A -> bool) l : (forall x, In x l -> f x = false) -> filter f l = [].
Proof.
  induction l as [|x l IH]; intros H; [reflexivity|]. simpl.
  rewrite (H x (or_introl eq_refl)). apply IH. intros y Hy. apply H. right. exact Hy.
Qed.

Lemma filter_all_true {A} (f : A -> bool) l : (forall x, In x l -> f x = true) -> filter f l = l.
Proof.
  induction l as [|x l IH]; intros H; [reflexivity|]. simpl.
  rewrite (H x (or_introl eq_refl)). f_equal. apply IH. intros y Hy. apply H. right. exact Hy.
Qed.

Lemma filter_filter {A} (f g : A -> bool) l : filter g (filter f l) = filter (fun x => f x && g x) l.
Proof.
  induction l as [|x l IH]; [reflexivity|]. simpl. destruct (f x); simpl; [destruct (g x)|]; rewrite IH; reflexivity.
Qed.

Lemma subset_in a b : pc_subset a b = true <-> forall x, In x a -> In x b.
Proof.
  unfold pc_subset. rewrite forallb_forall. split; intros H x Hx.
  - apply b_mem_str_in. apply H. exact Hx.
  - apply b_mem_str_in. apply H. exact Hx.
Qed.

Lemma flat_map_id_when {A} (g : list A -> list A) (ls : list (list A)) :
  (forall l, In l ls -> g l = l) -> flat_map g ls = concat ls.
Proof.
  induction ls as [|l ls IH]; intros H; [reflexivity|]. simpl.
  rewrite (H l (or_introl eq_refl)). f_equal. apply IH. intros m Hm. apply H. right. exact Hm.
Qed.

Theorem scan_chunk_free cs k columns lb rows nan :
  1 <= cs -> class_ok k -> pc_scan cs k columns lb rows nan = pc_scan_spec k columns lb rows nan.
Proof.
  intros Hcs Hk. unfold pc_scan, pc_scan_spec.
  set (features := filter (fun c => negb (mem_str c (k_nonfeat k))) columns).
  set (ids := k_spectra k ++ [k_label k]).
  destruct (Nat.eqb_spec cs 0) as [E0|_]; [lia|].
  assert (ids <> []) as Hne by (unfold ids; destruct (k_spectra k); discriminate).
  destruct (chunks_ids_together features ids cs Hcs Hne) as (sls & s0 & E & Hcat).
  rewrite E.
  assert (forall x, In x features -> ~ In x ids) as HF1.
  { intros x Hx Hi. unfold features in Hx. apply filter_In in Hx. destruct Hx as [_ Hx].
    apply negb_true_iff, b_mem_str_notin in Hx. apply Hx, Hk. exact Hi. }
  assert (forall sl, In sl sls -> forall x, In x sl -> In x features) as Hsub.
  { intros sl Hsl x Hx. rewrite <- Hcat. apply in_or_app. left. apply in_concat. exists sl. split; assumption. }
  assert (forall x, In x s0 -> In x features) as Hs0.
  { intros x Hx. rewrite <- Hcat. apply in_or_app. right. exact Hx. }
  assert (forall sl, In sl sls -> pc_subset ids sl = false) as HF2.
  { intros sl Hsl. destruct (pc_subset ids sl) eqn:Es; [|reflexivity]. exfalso.
    rewrite subset_in in Es.
    assert (In (k_label k) ids) as Hl by (unfold ids; apply in_or_app; right; left; reflexivity).
    apply (HF1 (k_label k)); [|exact Hl]. apply (Hsub sl Hsl). apply Es. exact Hl. }
  assert (pc_subset ids (s0 ++ ids) = true) as HF3.
  { apply subset_in. intros x Hx. apply in_or_app. right. exact Hx. }
  rewrite filter_app. rewrite (filter_all_false (fun sl => pc_subset ids sl) sls HF2). cbn [filter app]. rewrite HF3.
  cbn [flat_map]. rewrite !app_nil_r.
  (* the scanned columns are exactly the features *)
  rewrite flat_map_app. cbn [flat_map]. rewrite HF3, app_nil_r.
  rewrite (flat_map_id_when _ sls) by (intros l Hl; rewrite (HF2 l Hl); reflexivity).
  rewrite (filter_app (fun c0 => negb (mem_str c0 ids)) s0 ids).
  rewrite (filter_all_true _ s0) by (intros x Hx; apply negb_true_iff, b_mem_str_notin, HF1, Hs0; exact Hx).
  rewrite (filter_all_false _ ids) by (intros x Hx; apply negb_false_iff, b_mem_str_in; exact Hx).
  rewrite app_nil_r, Hcat.
  (* dropping the scanned NaN columns = filtering on NaN *)
  assert (filter (fun c => negb (mem_str c (filter (fun c0 => mem_str c0 nan) features))) features
          = filter (fun c => negb (mem_str c (k_nonfeat k)) && negb (mem_str c nan)) columns) as ->.
  { unfold features at 2. rewrite filter_filter. apply filter_ext_in. intros c Hc.
    destruct (negb (mem_str c (k_nonfeat k))) eqn:En; [|reflexivity]. simpl. f_equal.
    assert (In c features) as Hcf by (unfold features; apply filter_In; split; assumption).
    destruct (mem_str c nan) eqn:Em.
    - apply b_mem_str_in. apply filter_In. split; assumption.
    - apply b_mem_str_notin. intros Hin. apply filter_In in Hin. destruct Hin as [_ Hin]. congruence. }
  reflexivity.
Qed.

(* every identifier column is a non-feature column *)
Lemma find_unique_in col columns req ic c :
  pc_find_unique col columns req ic = Ok (Some c) -> In c columns.
Proof.
  unfold pc_find_unique. destruct (filter _ columns) as [|x [|y l]] eqn:E.
  - destruct req; discriminate.
  - intros H. injection H as <-.
    assert (In x (filter (fun c0 => pc_cmp ic c0 col) columns)) as Hx by (rewrite E; left; reflexivity).
    apply filter_In in Hx. tauto.
  - discriminate.
Qed.

Lemma classify_ok columns o k : pc_classify columns o = Ok k -> class_ok k.
Proof.
  unfold pc_classify.
  destruct (pc_find_required pcS_specid columns) as [specid|]; [|discriminate]. cbn [bind].
  destruct (pc_find_required pcS_peptide columns) as [pep|]; [|discriminate]. cbn [bind].
  destruct (pc_find_required pcS_proteins columns) as [prot|]; [|discriminate]. cbn [bind].
  destruct (pc_find_required pcS_label columns) as [lab|]; [|discriminate]. cbn [bind].
  destruct (pc_find_required pcS_scannr columns) as [scan|]; [|discriminate]. cbn [bind].
  destruct (pc_find_optional (o_filename o) columns pcS_filename) as [fn|]; [|discriminate]. cbn [bind].
  destruct (pc_find_optional (o_calcmass o) columns pcS_calcmass) as [cm|]; [|discriminate]. cbn [bind].
  destruct (pc_find_optional (o_expmass o) columns pcS_expmass) as [em|]; [|discriminate]. cbn [bind].
  destruct (pc_find_optional (o_rt o) columns pcS_ret_time) as [rt|]; [|discriminate]. cbn [bind].
  destruct (pc_find_optional (o_charge o) columns pcS_charge_column) as [ch|]; [|discriminate]. cbn [bind].
  intros H. injection H as <-. unfold class_ok. cbn [k_spectra k_label k_nonfeat].
  intros c Hc. apply in_app_or in Hc.
  assert (In c (pc_somes [fn; cm; em; rt]) \/ c = scan \/ c = lab) as Hcases.
  { destruct Hc as [Hc|[<-|[]]]; [|right; right; reflexivity].
    unfold pc_somes in Hc. cbn [flat_map] in Hc.
    destruct fn as [fn|], rt as [rt|], em as [em|]; cbn [app In] in Hc;
      repeat (destruct Hc as [<-|Hc]; [try (right; left; reflexivity);
        left; unfold pc_somes; cbn [flat_map]; destruct cm; cbn [app In]; tauto|]); destruct Hc. }
  destruct Hcases as [H | [-> | ->]].
  - do 5 right. apply in_or_app. right. exact H.
  - right. left. reflexivity.
  - do 4 right. left. reflexivity.
Qed.

Definition pc_read_spec (columns : list str) (o : pc_opts) (lb : bool) (rows : list (list Z))
           (nan_cols : list str) : result pc_dataset :=
  bind (pc_classify columns o) (fun k => pc_scan_spec k columns lb rows nan_cols).

Theorem read_chunk_free cs columns o lb rows nan :
  1 <= cs -> pc_read cs columns o lb rows nan = pc_read_spec columns o lb rows nan.
Proof.
  intros Hcs. unfold pc_read, pc_read_spec.
  destruct (pc_classify columns o) as [k|e] eqn:E; [|reflexivity]. cbn [bind].
  apply scan_chunk_free; [exact Hcs|]. eapply classify_ok. exact E.
Qed.

(* ====================== consequences for a successful parse ====================== *)
Lemma read_ok_inv cs columns o lb rows nan d :
  1 <= cs -> pc_read cs columns o lb rows nan = Ok d ->
  exists k targets, pc_classify columns o = Ok k /\
    pc_convert_targets lb (map (fun r => pc_cell columns r (k_label k)) rows) = Ok targets /\
    d = pc_mk k (filter (fun c => negb (mem_str c (k_nonfeat k)) && negb (mem_str c nan)) columns)
                (map (fun r => map (pc_cell columns r) (k_spectra k)) rows) targets.
Proof.
  intros Hcs. rewrite read_chunk_free by exact Hcs. unfold pc_read_spec, pc_scan_spec.
  destruct (pc_classify columns o) as [k|]; [|discriminate]. cbn [bind].
  destruct (pc_convert_targets lb _) as [t|] eqn:E; [|discriminate]. cbn [bind].
  intros H. injection H as <-. exists k, t. repeat split. exact E.
Qed.

Lemma classify_spectra columns o k : pc_classify columns o = Ok k ->
  k_spectra k = pc_somes [k_filename k; Some (k_scan k); k_rt k; k_expmass k].
Proof.
  unfold pc_classify.
  destruct (pc_find_required pcS_specid columns) as [specid|]; [|discriminate]. cbn [bind].
  destruct (pc_find_required pcS_peptide columns) as [pep|]; [|discriminate]. cbn [bind].
  destruct (pc_find_required pcS_proteins columns) as [prot|]; [|discriminate]. cbn [bind].
  destruct (pc_find_required pcS_label columns) as [lab|]; [|discriminate]. cbn [bind].
  destruct (pc_find_required pcS_scannr columns) as [scan|]; [|discriminate]. cbn [bind].
  destruct (pc_find_optional (o_filename o) columns pcS_filename) as [fn|]; [|discriminate]. cbn [bind].
  destruct (pc_find_optional (o_calcmass o) columns pcS_calcmass) as [cm|]; [|discriminate]. cbn [bind].
  destruct (pc_find_optional (o_expmass o) columns pcS_expmass) as [em|]; [|discriminate]. cbn [bind].
  destruct (pc_find_optional (o_rt o) columns pcS_ret_time) as [rt|]; [|discriminate]. cbn [bind].
  destruct (pc_find_optional (o_charge o) columns pcS_charge_column) as [ch|]; [|discriminate]. cbn [bind].
  intros H. injection H as <-. reflexivity.
Qed.

Theorem read_features cs columns o lb rows nan d :
  1 <= cs -> pc_read cs columns o lb rows nan = Ok d ->
  d_features d = filter (fun c => negb (mem_str c (d_metadata d)) && negb (mem_str c nan)) columns.
Proof.
  intros Hcs H. destruct (read_ok_inv _ _ _ _ _ _ _ Hcs H) as (k & t & _ & _ & ->). reflexivity.
Qed.

Theorem read_spectrum cs columns o lb rows nan d :
  1 <= cs -> pc_read cs columns o lb rows nan = Ok d ->
  d_spectrum d = pc_somes [d_filename d; Some (d_scan d); d_rt d; d_expmass d].
Proof.
  intros Hcs H. destruct (read_ok_inv _ _ _ _ _ _ _ Hcs H) as (k & t & Hk & _ & ->).
  cbn. apply (classify_spectra _ _ _ Hk).
Qed.

Lemma convert_targets_spec lb labels targets :
  pc_convert_targets lb labels = Ok targets ->
  targets = map (fun v => if lb then negb (v =? 0)%Z else (v =? 1)%Z) labels /\
  (lb = false -> Forall (fun v => (-1 <= v <= 1)%Z) labels).
Proof.
  unfold pc_convert_targets. destruct lb.
  - intros H. injection H as <-. split; [reflexivity|discriminate].
  - destruct (existsb _ labels) eqn:E; [discriminate|]. intros H. injection H as <-.
    split; [reflexivity|]. intros _. apply Forall_forall. intros v Hv.
    assert ((v <? -1)%Z || (1 <? v)%Z = false) as Hf.
    { destruct ((v <? -1)%Z || (1 <? v)%Z) eqn:Ev; [|reflexivity].
      assert (existsb (fun v => (v <? -1)%Z || (1 <? v)%Z) labels = true) as Hx
        by (apply existsb_exists; exists v; split; assumption). congruence. }
    apply orb_false_iff in Hf. destruct Hf as [H1 H2].
    apply Z.ltb_ge in H1. apply Z.ltb_ge in H2. lia.
Qed.

Lemma convert_targets_err labels :
  pc_convert_targets false labels = Err EValue <-> exists v, In v labels /\ (v < -1 \/ 1 < v)%Z.
Proof.
  unfold pc_convert_targets. destruct (existsb _ labels) eqn:E.
  - split; [|reflexivity]. intros _. apply existsb_exists in E. destruct E as (v & Hv & Hb).
    exists v. split; [exact Hv|]. apply orb_true_iff in Hb. destruct Hb as [Hb|Hb]; apply Z.ltb_lt in Hb; lia.
  - split; [discriminate|]. intros (v & Hv & Hb).
    assert (existsb (fun v => (v <? -1)%Z || (1 <? v)%Z) labels = true) as Hx.
    { apply existsb_exists. exists v. split; [exact Hv|]. apply orb_true_iff.
      destruct Hb as [Hb|Hb]; [left|right]; apply Z.ltb_lt; exact Hb. }
    congruence.
Qed.

(* one entry per input row, in file order; targets exactly the rows labelled 1 / true *)
Theorem read_rows cs columns o lb rows nan d :
  1 <= cs -> pc_read cs columns o lb rows nan = Ok d ->
  d_spectra_rows d = map (fun r => map (pc_cell columns r) (d_spectrum d)) rows /\
  d_targets d = map (fun r => let v := pc_cell columns r (d_target d) in
                              if lb then negb (v =? 0)%Z else (v =? 1)%Z) rows /\
  length (d_targets d) = length rows.
Proof.
  intros Hcs H. destruct (read_ok_inv _ _ _ _ _ _ _ Hcs H) as (k & t & _ & Ht & ->).
  destruct (convert_targets_spec _ _ _ Ht) as [-> _]. cbn. rewrite map_map. split; [reflexivity|].
  split; [reflexivity|]. rewrite map_length. reflexivity.
Qed.

(* a required column: exactly one case-insensitive match, else ValueError *)
Theorem find_required_spec col columns :
  match pc_find_required col columns with
  | Ok c => filter (fun x => str_eqb (pc_lower x) (pc_lower col)) columns = [c]
  | Err e => e = EValue /\ length (filter (fun x => str_eqb (pc_lower x) (pc_lower col)) columns) <> 1
  end.
Proof.
  unfold pc_find_required, pc_find_unique, pc_cmp.
  destruct (filter _ columns) as [|x [|y l]]; cbn; [split; [reflexivity|lia] | reflexivity | split; [reflexivity|lia]].
Qed.

(* letter case of column names is irrelevant for finding a reserved column *)
Theorem find_required_case col columns columns' :
  map pc_lower columns = map pc_lower columns' ->
  match pc_find_required col columns, pc_find_required col columns' with
  | Ok c, Ok c' => pc_lower c = pc_lower c'
  | Err _, Err _ => True
  | _, _ => False
  end.
Proof.
  intros HL.
  assert (forall (f : str -> bool) l l', map pc_lower l = map pc_lower l' ->
            length (filter (fun x => f (pc_lower x)) l) = length (filter (fun x => f (pc_lower x)) l')) as G.
  { intros f l. induction l as [|x l IH]; intros [|y l'] E; simpl in E; try discriminate; [reflexivity|].
    injection E as E1 E2. simpl. rewrite E1. destruct (f (pc_lower y)); simpl; rewrite (IH l' E2); reflexivity. }
  specialize (G (fun s => str_eqb s (pc_lower col)) columns columns' HL). cbv beta in G.
  pose proof (find_required_spec col columns) as H1. pose proof (find_required_spec col columns') as H2.
  destruct (pc_find_required col columns) as [c|e], (pc_find_required col columns') as [c'|e']; try exact I.
  - assert (forall l x, filter (fun x => str_eqb (pc_lower x) (pc_lower col)) l = [x] -> pc_lower x = pc_lower col) as G2.
    { intros l x E. assert (In x (filter (fun x => str_eqb (pc_lower x) (pc_lower col)) l)) as Hx by (rewrite E; left; reflexivity).
      apply filter_In in Hx. destruct Hx as [_ Hx]. apply b_str_eqb_eq in Hx. exact Hx. }
    rewrite (G2 _ _ H1), (G2 _ _ H2). reflexivity.
  - destruct H2 as [_ H2]. rewrite H1 in G. simpl in G. congruence.
  - destruct H1 as [_ H1]. rewrite H2 in G. simpl in G. congruence.
Qed.

Theorem read_success cs columns o lb rows nan k targets :
  1 <= cs -> pc_classify columns o = Ok k ->
  pc_convert_targets lb (map (fun r => pc_cell columns r (k_label k)) rows) = Ok targets ->
  exists d, pc_read cs columns o lb rows nan = Ok d.
Proof.
  intros Hcs Hk Ht. rewrite read_chunk_free by exact Hcs. unfold pc_read_spec, pc_scan_spec.
  rewrite Hk. cbn [bind]. rewrite Ht. cbn [bind]. eexists. reflexivity.
Qed.

(* ====================== the row chunks of the missing-value scan (R2.19) ====================== *)
Lemma pc_index_in c columns i : pc_index c columns = Some i -> In c columns.
Proof.
  revert i. induction columns as [|y r IH]; intros i H; [discriminate|]. cbn [pc_index] in H.
  destruct (str_eqb c y) eqn:E.
  - left. symmetry. apply b_str_eqb_eq. exact E.
  - destruct (pc_index c r) as [j|]; [|discriminate]. right. apply (IH j). reflexivity.
Qed.

(* the derived view: a column is in [pc_nan_cols] iff one of its cells is missing *)
Lemma mem_nan_cols columns rowsm c :
  mem_str c (pc_nan_cols columns rowsm) = existsb (fun rm => pc_miss columns rm c) rowsm.
Proof.
  unfold pc_nan_cols. destruct (existsb (fun rm => pc_miss columns rm c) rowsm) eqn:E.
  - apply b_mem_str_in. apply filter_In. split; [|exact E].
    apply existsb_exists in E. destruct E as (rm & _ & Hm). unfold pc_miss in Hm.
    destruct (pc_index c columns) as [i|] eqn:Ei; [|discriminate]. apply (pc_index_in _ _ _ Ei).
  - apply b_mem_str_notin. intros Hin. apply filter_In in Hin. destruct Hin as [_ Hin]. congruence.
Qed.

Lemma nan_cols_spec columns rowsm c :
  In c (pc_nan_cols columns rowsm) <-> exists rm, In rm rowsm /\ pc_miss columns rm c = true.
Proof.
  rewrite <- b_mem_str_in, mem_nan_cols, existsb_exists. reflexivity.
Qed.

Lemma or_row_map {A} (a b : A -> bool) cols :
  pc_or_row (map a cols) (map b cols) = map (fun c => a c || b c) cols.
Proof.
  unfold pc_or_row. induction cols as [|c cols IH]; [reflexivity|]. cbn [map combine fst snd]. f_equal. exact IH.
Qed.

(* na_mask.any(axis=0): OR over the chunk rows = "missing in some chunk" *)
Lemma fold_or_rows columns cols chunks : forall a : str -> bool,
  fold_left pc_or_row (map (pc_any_row columns cols) chunks) (map a cols)
  = map (fun c => a c || existsb (fun ch => existsb (fun rm => pc_miss columns rm c) ch) chunks) cols.
Proof.
  induction chunks as [|ch chunks IH]; intros a; cbn [map fold_left existsb].
  - apply map_ext. intros c. rewrite orb_false_r. reflexivity.
  - change (pc_any_row columns cols ch) with (map (fun c => existsb (fun rm => pc_miss columns rm c) ch) cols).
    rewrite or_row_map, IH. apply map_ext. intros c. rewrite orb_assoc. reflexivity.
Qed.

Lemma existsb_concat {A} (f : A -> bool) ls : existsb f (concat ls) = existsb (existsb f) ls.
Proof.
  induction ls as [|l ls IH]; [reflexivity|]. cbn [concat existsb]. rewrite existsb_app, IH. reflexivity.
Qed.

Lemma combine_filter_map {A} (g : A -> bool) cols :
  map fst (filter snd (combine cols (map g cols))) = filter g cols.
Proof.
  induction cols as [|c cols IH]; [reflexivity|]. cbn [map combine filter snd].
  destruct (g c); cbn [map fst]; rewrite IH; reflexivity.
Qed.

Lemma flat_map_map {A B C} (f : B -> list C) (g : A -> B) l :
  flat_map f (map g l) = flat_map (fun x => f (g x)) l.
Proof. induction l as [|x l IH]; [reflexivity|]. cbn [map flat_map]. rewrite IH. reflexivity. Qed.

Lemma flat_map_if {A B} (P : A -> bool) (X : list B) l :
  flat_map (fun x => if P x then X else []) l = flat_map (fun _ => X) (filter P l).
Proof.
  induction l as [|x l IH]; [reflexivity|]. cbn [flat_map filter].
  destruct (P x); cbn [flat_map app]; rewrite IH; reflexivity.
Qed.

Lemma filter_flat_map {A B} (f : B -> bool) (g : A -> list B) l :
  filter f (flat_map g l) = flat_map (fun x => filter f (g x)) l.
Proof.
  induction l as [|x l IH]; [reflexivity|]. cbn [flat_map]. rewrite filter_app, IH. reflexivity.
Qed.

(* one column slice: the frames are the identifier cells of every row chunk (when the slice holds the
   identifier columns), the dropped columns are those with a missing cell in some row of the file *)
Lemma slice_rc_spec columns k chunks sl :
  pc_slice_rc columns k chunks sl =
  ((if pc_subset (k_spectra k ++ [k_label k]) sl then map (pc_frame columns k) chunks else []),
   filter (fun c => mem_str c (pc_nan_cols columns (concat chunks)))
          (if pc_subset (k_spectra k ++ [k_label k]) sl
           then filter (fun c => negb (mem_str c (k_spectra k ++ [k_label k]))) sl else sl)).
Proof.
  unfold pc_slice_rc. cbv zeta. f_equal.
  rewrite (fold_or_rows columns _ chunks (fun _ => false)). cbn [orb].
  rewrite combine_filter_map. apply filter_ext. intros c.
  rewrite mem_nan_cols, existsb_concat. reflexivity.
Qed.

Lemma frames_fst columns k chunks :
  map fst (concat (map (pc_frame columns k) chunks))
  = map (fun r => map (pc_cell columns r) (k_spectra k)) (map fst (concat chunks)).
Proof.
  induction chunks as [|ch chunks IH]; [reflexivity|]. cbn [map concat].
  rewrite !map_app, IH. f_equal. unfold pc_frame. rewrite !map_map. reflexivity.
Qed.

Lemma frames_snd columns k chunks :
  map snd (concat (map (pc_frame columns k) chunks))
  = map (fun r => pc_cell columns r (k_label k)) (map fst (concat chunks)).
Proof.
  induction chunks as [|ch chunks IH]; [reflexivity|]. cbn [map concat].
  rewrite !map_app, IH. f_equal. unfold pc_frame. rewrite !map_map. reflexivity.
Qed.

Lemma frames_rep {A B C} (h : list B -> list C) (X : list (list B)) (Y : list C) (L : list A) :
  h (concat X) = Y -> (forall a b, h (a ++ b) = h a ++ h b) ->
  h (concat (flat_map (fun _ => X) L)) = flat_map (fun _ => Y) L.
Proof.
  intros HX Happ. induction L as [|x L IH]; cbn [flat_map].
  - cbn [concat]. specialize (Happ [] []). cbn [app] in Happ.
    destruct (h []) as [|c r]; [reflexivity|]. exfalso.
    assert (length (c :: r) = length ((c :: r) ++ c :: r)) as Hl by (rewrite <- Happ; reflexivity).
    rewrite app_length in Hl. cbn [length] in Hl. lia.
  - rewrite concat_app, Happ, HX, IH. reflexivity.
Qed.

(* ANY partition of the rows into row chunks (at least one chunk) gives the result of the column-chunk
   model on the concatenated rows with the derived [nan_cols]; no assumption on [k] *)
Theorem scan_with_as_scan cc k columns lb chunks : chunks <> [] ->
  pc_scan_with (pc_slice_rc columns k) cc k columns lb chunks
  = pc_scan cc k columns lb (map fst (concat chunks)) (pc_nan_cols columns (concat chunks)).
Proof.
  intros Hne. unfold pc_scan_with, pc_scan. cbv zeta.
  destruct (Nat.eqb cc 0); [reflexivity|].
  set (ids := k_spectra k ++ [k_label k]).
  set (slices := pc_chunks_with_ids (filter (fun c => negb (mem_str c (k_nonfeat k))) columns) ids cc).
  rewrite (map_ext _ _ (slice_rc_spec columns k chunks)). fold ids.
  rewrite !flat_map_map. cbn [fst snd].
  rewrite flat_map_if. rewrite <- filter_flat_map.
  remember (filter (fun sl => pc_subset ids sl) slices) as idsl eqn:Eidsl.
  destruct idsl as [|s0 rest]; [reflexivity|].
  destruct (flat_map (fun _ => map (pc_frame columns k) chunks) (s0 :: rest)) as [|fr frs] eqn:Efr.
  { exfalso. cbn [flat_map] in Efr. destruct chunks as [|ch chunks]; [congruence|discriminate]. }
  rewrite <- Efr.
  rewrite (frames_rep (map snd) _ _ (s0 :: rest) (frames_snd columns k chunks) (@map_app _ _ snd)).
  rewrite (frames_rep (map fst) _ _ (s0 :: rest) (frames_fst columns k chunks) (@map_app _ _ fst)).
  reflexivity.
Qed.

(* the reader's row chunks are a partition of the rows, with at least one chunk unless the table has
   no row and the reader yields nothing for it *)
Lemma row_chunks_concat {A} ec cr (rows : list A) : 1 <= cr -> concat (pc_row_chunks ec cr rows) = rows.
Proof.
  intros Hcr. unfold pc_row_chunks. destruct rows as [|x l]; [destruct ec; reflexivity|].
  apply chunks_concat. exact Hcr.
Qed.

Lemma row_chunks_nonempty {A} ec cr (rows : list A) :
  rows <> [] \/ ec = true -> pc_row_chunks ec cr rows <> [].
Proof.
  intros H. unfold pc_row_chunks. destruct rows as [|x l].
  - destruct H as [H|H]; [congruence|subst ec; discriminate].
  - unfold pc_chunks. cbn [length pc_chunks_aux]. discriminate.
Qed.

(* every chunk size that reaches the end of the table gives the same single chunk *)
Lemma row_chunks_large {A} ec c1 c2 (rows : list A) :
  1 <= c1 -> 1 <= c2 -> length rows <= c1 -> length rows <= c2 ->
  pc_row_chunks ec c1 rows = pc_row_chunks ec c2 rows.
Proof.
  intros H1 H2 L1 L2. unfold pc_row_chunks. destruct rows as [|x l]; [reflexivity|].
  rewrite !chunks_small by (assumption || discriminate). reflexivity.
Qed.

Theorem scan_rc_as_scan ec cr cc k columns lb rowsm :
  1 <= cr -> rowsm <> [] \/ ec = true ->
  pc_scan_rc ec cr cc k columns lb rowsm
  = pc_scan cc k columns lb (map fst rowsm) (pc_nan_cols columns rowsm).
Proof.
  intros Hcr Hne. unfold pc_scan_rc.
  destruct (Nat.eqb cc 0) eqn:Ecc; [unfold pc_scan; rewrite Ecc; reflexivity|].
  destruct (Nat.eqb_spec cr 0) as [E0|_]; [lia|].
  rewrite scan_with_as_scan by (apply row_chunks_nonempty; exact Hne).
  rewrite row_chunks_concat by exact Hcr. reflexivity.
Qed.

(* the link between the two interfaces of the model *)
Theorem read_rc_as_read ec cr cc columns o lb rowsm :
  1 <= cr -> rowsm <> [] \/ ec = true ->
  pc_read_rc ec cr cc columns o lb rowsm
  = pc_read cc columns o lb (map fst rowsm) (pc_nan_cols columns rowsm).
Proof.
  intros Hcr Hne. unfold pc_read_rc, pc_read.
  destruct (pc_classify columns o) as [k|e]; [|reflexivity]. cbn [bind].
  apply scan_rc_as_scan; assumption.
Qed.

(* row-chunk AND column-chunk independence *)
Theorem read_rc_chunk_free ec cr cc columns o lb rowsm :
  1 <= cr -> 1 <= cc -> rowsm <> [] \/ ec = true ->
  pc_read_rc ec cr cc columns o lb rowsm
  = pc_read_spec columns o lb (map fst rowsm) (pc_nan_cols columns rowsm).
Proof.
  intros Hcr Hcc Hne. rewrite read_rc_as_read by assumption. apply read_chunk_free. exact Hcc.
Qed.

(* the same for an arbitrary partition of the rows (row batches of any lengths, empty ones included) *)
Theorem scan_parts_chunk_free cc k columns lb chunks :
  1 <= cc -> class_ok k -> chunks <> [] ->
  pc_scan_with (pc_slice_rc columns k) cc k columns lb chunks
  = pc_scan_spec k columns lb (map fst (concat chunks)) (pc_nan_cols columns (concat chunks)).
Proof.
  intros Hcc Hk Hne. rewrite scan_with_as_scan by exact Hne. apply scan_chunk_free; assumption.
Qed.

(* the chunk-free content of a successful parse, in terms of the cells *)
Theorem read_rc_result ec cr cc columns o lb rowsm d :
  1 <= cr -> 1 <= cc -> rowsm <> [] \/ ec = true ->
  pc_read_rc ec cr cc columns o lb rowsm = Ok d ->
  d_features d = filter (fun c => negb (mem_str c (d_metadata d)) &&
                                  negb (existsb (fun rm => pc_miss columns rm c) rowsm)) columns /\
  d_spectra_rows d = map (fun rm => map (pc_cell columns (fst rm)) (d_spectrum d)) rowsm /\
  d_targets d = map (fun rm => let v := pc_cell columns (fst rm) (d_target d) in
                               if lb then negb (v =? 0)%Z else (v =? 1)%Z) rowsm /\
  length (d_spectra_rows d) = length rowsm /\ length (d_targets d) = length rowsm.
Proof.
  intros Hcr Hcc Hne H. rewrite read_rc_as_read in H by assumption.
  pose proof (read_features _ _ _ _ _ _ _ Hcc H) as HF.
  destruct (read_rows _ _ _ _ _ _ _ Hcc H) as (HS & HT & HL).
  rewrite map_map in HS, HT. rewrite map_length in HL.
  split; [|split; [exact HS|split; [exact HT|split; [rewrite HS; apply map_length|exact HL]]]].
  rewrite HF. apply filter_ext. intros c. rewrite mem_nan_cols. reflexivity.
Qed.

Theorem read_rc_success ec cr cc columns o lb rowsm k targets :
  1 <= cr -> 1 <= cc -> rowsm <> [] \/ ec = true ->
  pc_classify columns o = Ok k ->
  pc_convert_targets lb (map (fun rm => pc_cell columns (fst rm) (k_label k)) rowsm) = Ok targets ->
  exists d, pc_read_rc ec cr cc columns o lb rowsm = Ok d.
Proof.
  intros Hcr Hcc Hne Hk Ht. rewrite read_rc_as_read by assumption.
  apply (read_success cc columns o lb _ _ k targets Hcc Hk). rewrite map_map. exact Ht.
Qed.

(* the premise "at least one row chunk" is needed: a reader that yields no chunk for a table without
   rows (pyarrow) makes the parse fail (pd.concat([])), whatever the chunk sizes *)
Theorem read_rc_no_chunk cr cc columns o lb k :
  pc_classify columns o = Ok k -> pc_read_rc false cr cc columns o lb [] = Err EValue.
Proof.
  intros Hk. unfold pc_read_rc. rewrite Hk. cbn [bind]. unfold pc_scan_rc.
  destruct (Nat.eqb cc 0) eqn:Ecc; [reflexivity|]. destruct (Nat.eqb cr 0); [reflexivity|].
  unfold pc_scan_with. cbv zeta. rewrite Ecc. cbn [pc_row_chunks].
  rewrite flat_map_map.
  assert (forall l : list (list str), flat_map (fun x => fst (pc_slice_rc columns k [] x)) l = []) as ->; [|reflexivity].
  intros l. induction l as [|x l IH]; [reflexivity|]. cbn [flat_map]. rewrite IH.
  unfold pc_slice_rc. cbv zeta. cbn [fst map]. destruct (pc_subset _ x); reflexivity.
Qed.

(* ... whereas the text readers' single empty chunk gives a dataset without entries *)
Theorem read_rc_empty_chunk cr cc columns o lb k :
  1 <= cr -> 1 <= cc -> pc_classify columns o = Ok k ->
  exists d, pc_read_rc true cr cc columns o lb [] = Ok d /\ d_spectra_rows d = [] /\ d_targets d = [].
Proof.
  intros Hcr Hcc Hk.
  assert (pc_convert_targets lb (map (fun rm : pc_rowm => pc_cell columns (fst rm) (k_label k)) []) = Ok []) as Ht
    by (destruct lb; reflexivity).
  destruct (read_rc_success true cr cc columns o lb [] k [] Hcr Hcc (or_intror eq_refl) Hk Ht) as (d & Hd).
  exists d. split; [exact Hd|].
  destruct (read_rc_result _ _ _ _ _ _ _ _ Hcr Hcc (or_intror eq_refl) Hd) as (_ & HS & HT & _).
  split; assumption.
Qed.

Theorem scan_rc_zero ec cc k columns lb rowsm : pc_scan_rc ec 0 cc k columns lb rowsm = Err EValue.
Proof. unfold pc_scan_rc. destruct (Nat.eqb cc 0); reflexivity. Qed.

(* ---- the early exit of seeded/C10-4 (NOT the code; a variant to show what the theorem excludes):
   the row-chunk loop is left as soon as every column of the slice is known to be incomplete.  For a
   slice of identifier columns only that is after the first row chunk (all() of nothing). ---- *)
Fixpoint pc_early_loop (columns cols : list str) (acc : list bool) (chunks : list (list pc_rowm))
  : list (list pc_rowm) * list bool :=
  match chunks with
  | [] => ([], acc)
  | ch :: rest =>
      let acc' := pc_or_row acc (pc_any_row columns cols ch) in
      if forallb (fun b : bool => b) acc' then ([ch], acc')
      else let (seen, a) := pc_early_loop columns cols acc' rest in (ch :: seen, a)
  end.

Definition pc_slice_early (columns : list str) (k : pc_class) (chunks : list (list pc_rowm)) (sl : list str)
  : list (list (list Z * Z)) * list str :=
  let ids := k_spectra k ++ [k_label k] in
  let has_ids := pc_subset ids sl in
  let cols := if has_ids then filter (fun c => negb (mem_str c ids)) sl else sl in
  let (seen, any) := pc_early_loop columns cols (map (fun _ => false) cols) chunks in
  ((if has_ids then map (pc_frame columns k) seen else []), map fst (filter snd (combine cols any))).

Definition pc_read_early (ec : bool) (cr cc : nat) (columns : list str) (o : pc_opts) (lb : bool)
           (rowsm : list pc_rowm) : result pc_dataset :=
  bind (pc_classify columns o) (fun k =>
    if Nat.eqb cr 0 then Err EValue else
    pc_scan_with (pc_slice_early columns k) cc k columns lb (pc_row_chunks ec cr rowsm)).

(* SpecId Label ScanNr ExpMass f1 f2 Peptide Proteins *)
Definition rc_ex_cols : list str :=
  [ [83;112;101;99;73;100]; [76;97;98;101;108]; [83;99;97;110;78;114]; [69;120;112;77;97;115;115];
    [102;49]; [102;50]; [80;101;112;116;105;100;101]; [80;114;111;116;101;105;110;115] ]%Z.
Definition rc_ex_opts := {| o_filename := None; o_calcmass := None; o_expmass := None; o_rt := None; o_charge := None |}.
Definition rc_ex_none : list bool := [false;false;false;false;false;false;false;false].
(* three rows; f2 is missing in the second row only *)
Definition rc_ex_rows : list pc_rowm :=
  [ ([1;1;7;9;0;0;5;6]%Z, rc_ex_none);
    ([2;-1;8;9;0;0;5;6]%Z, [false;false;false;false;false;true;false;false]);
    ([3;1;6;4;0;0;5;6]%Z, rc_ex_none) ].

(* two features + three identifier columns at column chunk size 2: slices [f1;f2] and [ScanNr;ExpMass;Label],
   the second one holds identifier columns only *)
Lemma rc_ex_slices :
  pc_chunks_with_ids [[102;49];[102;50]]%Z [[83;99;97;110;78;114];[69;120;112;77;97;115;115];[76;97;98;101;108]]%Z 2
  = [[[102;49];[102;50]]; [[83;99;97;110;78;114];[69;120;112;77;97;115;115];[76;97;98;101;108]]]%Z.
Proof. vm_compute. reflexivity. Qed.

Theorem early_exit_refuted :
  exists columns o lb rowsm cc d1 d3,
    pc_read_early true 1 cc columns o lb rowsm = Ok d1 /\
    pc_read_early true 3 cc columns o lb rowsm = Ok d3 /\
    length (d_spectra_rows d1) = 1 /\ length (d_spectra_rows d3) = 3 /\ length rowsm = 3 /\
    pc_read_rc true 1 cc columns o lb rowsm = pc_read_rc true 3 cc columns o lb rowsm.
Proof.
  exists rc_ex_cols, rc_ex_opts, false, rc_ex_rows, 2.
  destruct (pc_read_early true 1 2 rc_ex_cols rc_ex_opts false rc_ex_rows) as [d1|] eqn:E1; [|vm_compute in E1; discriminate].
  destruct (pc_read_early true 3 2 rc_ex_cols rc_ex_opts false rc_ex_rows) as [d3|] eqn:E3; [|vm_compute in E3; discriminate].
  exists d1, d3. vm_compute in E1. vm_compute in E3. injection E1 as <-. injection E3 as <-.
  repeat split.
Qed.
