(* Proofs about Model/Confidence.v (C03, confidence part of C05). *)
From Coq Require Import Lia Permutation Sorted.
From Mokaverif Require Import Model.Base Model.Tdc Model.PinCols Model.Merge Model.Confidence.
From Mokaverif Require Import Proofs.TdcP Proofs.PinColsP Proofs.MergeP.
Open Scope Z_scope.

Lemma cf_memz_in z l : cf_memz z l = true <-> In z l.
Proof.
  induction l as [|x l IH]; simpl; [split; [discriminate|intros []]|].
  rewrite orb_true_iff, Z.eqb_eq, IH. tauto.
Qed.

Lemma cf_memz_notin z l : cf_memz z l = false <-> ~ In z l.
Proof. rewrite <- cf_memz_in. destruct (cf_memz z l); split; intros H; try congruence; try reflexivity. Qed.

Section Conf.
Variable row : Type.
Variable score : row -> Z.
Variable lkey : nat -> row -> Z.

(* ====================== first-seen-wins ====================== *)
Fixpoint fs_aux (key : row -> Z) (seen : list Z) (l : list row) : list row :=
  match l with
  | [] => []
  | x :: r => if cf_memz (key x) seen then fs_aux key seen r else x :: fs_aux key (key x :: seen) r
  end.
Definition fs (key : row -> Z) (l : list row) : list row := fs_aux key [] l.

Lemma cf_dedup_is_fs l : cf_dedup row lkey l = fs (lkey 0%nat) l.
Proof.
  unfold cf_dedup, fs. generalize (@nil Z). induction l as [|x l IH]; intros seen; simpl; [reflexivity|].
  destruct (cf_memz (lkey 0%nat x) seen); [apply IH|]. f_equal. apply IH.
Qed.

Lemma fs_aux_in key seen l x : In x (fs_aux key seen l) -> In x l /\ ~ In (key x) seen.
Proof.
  revert seen. induction l as [|y l IH]; intros seen; simpl; [intros []|].
  destruct (cf_memz (key y) seen) eqn:E.
  - intros H. destruct (IH _ H) as [H1 H2]. split; [right; exact H1|exact H2].
  - intros [<-|H]; [split; [left; reflexivity|apply cf_memz_notin; exact E]|].
    destruct (IH _ H) as [H1 H2]. split; [right; exact H1|]. intros Hin. apply H2. right. exact Hin.
Qed.

(* keys present = keys of the input not yet seen *)
Lemma fs_aux_keys key seen l z :
  In z (map key (fs_aux key seen l)) <-> In z (map key l) /\ ~ In z seen.
Proof.
  revert seen. induction l as [|y l IH]; intros seen; simpl; [tauto|].
  destruct (cf_memz (key y) seen) eqn:E.
  - rewrite IH. apply cf_memz_in in E. split.
    + intros [H1 H2]. split; [right; exact H1|exact H2].
    + intros [[H|H] H2]; [subst; contradiction|split; assumption].
  - apply cf_memz_notin in E. simpl. rewrite IH. simpl. split.
    + intros [H|[H1 H2]]; [subst; split; [left; reflexivity|exact E]|]. split; [right; exact H1|tauto].
    + intros [[H|H] H2]; [left; exact H|].
      destruct (Z.eq_dec (key y) z) as [Eq|Ne]; [left; exact Eq|right]. split; [exact H|]. intros [H3|H3]; contradiction.
Qed.

Lemma fs_aux_snoc key seen l r :
  fs_aux key seen (l ++ [r])
  = fs_aux key seen l ++ (if cf_memz (key r) seen || cf_memz (key r) (map key l) then [] else [r]).
Proof.
  revert seen. induction l as [|y l IH]; intros seen; simpl.
  - rewrite orb_false_r. destruct (cf_memz (key r) seen); reflexivity.
  - destruct (cf_memz (key y) seen) eqn:E.
    + rewrite IH. f_equal.
      destruct (key y =? key r) eqn:Ey; simpl; [|reflexivity].
      apply Z.eqb_eq in Ey. rewrite <- Ey, E. reflexivity.
    + simpl. rewrite IH. simpl. f_equal. f_equal.
      rewrite (Z.eqb_sym (key y) (key r)).
      destruct (key r =? key y) eqn:Ey; simpl; [rewrite !orb_true_r; reflexivity|]. 
      destruct (cf_memz (key r) seen); reflexivity.
Qed.

Lemma fs_snoc key l r :
  fs key (l ++ [r]) = fs key l ++ (if cf_memz (key r) (map key l) then [] else [r]).
Proof. unfold fs. rewrite fs_aux_snoc. reflexivity. Qed.

Lemma fs_keys key l z : In z (map key (fs key l)) <-> In z (map key l).
Proof. unfold fs. rewrite fs_aux_keys. simpl. tauto. Qed.

(* first occurrence characterisation *)
Lemma fs_aux_first key seen l x :
  In x (fs_aux key seen l) <->
  exists pre post, l = pre ++ x :: post /\ ~ In (key x) (map key pre) /\ ~ In (key x) seen.
Proof.
  revert seen. induction l as [|y l IH]; intros seen; simpl.
  - split; [intros []|intros (pre & post & E & _)]. destruct pre; discriminate.
  - destruct (cf_memz (key y) seen) eqn:E.
    + apply cf_memz_in in E. rewrite IH. split.
      * intros (pre & post & -> & H1 & H2). exists (y :: pre), post. split; [reflexivity|]. split; [|exact H2].
        simpl. intros [H|H]; [rewrite H in E; contradiction|contradiction].
      * intros ([|p pre] & post & El & H1 & H2); simpl in El; injection El as -> ->; [contradiction|].
        exists pre, post. split; [reflexivity|]. split; [|exact H2]. intros H. apply H1. right. exact H.
    + apply cf_memz_notin in E. simpl. rewrite IH. split.
      * intros [<-|(pre & post & -> & H1 & H2)].
        -- exists [], l. split; [reflexivity|]. split; [intros []|exact E].
        -- exists (y :: pre), post. split; [reflexivity|]. simpl. split; [|intros H; apply H2; right; exact H].
           intros [H|H]; [apply H2; left; exact H|contradiction].
      * intros ([|p pre] & post & El & H1 & H2); simpl in El; injection El as -> ->; [left; reflexivity|right].
        exists pre, post. split; [reflexivity|]. simpl in H1. split; [tauto|]. intros [H|H]; [apply H1; left; exact H|contradiction].
Qed.

Lemma fs_first key l x :
  In x (fs key l) <-> exists pre post, l = pre ++ x :: post /\ ~ In (key x) (map key pre).
Proof.
  unfold fs. rewrite fs_aux_first. split; intros (pre & post & H); exists pre, post; [tauto|]. simpl. tauto.
Qed.

(* a sub-list of a sorted list is sorted *)
Definition ge_sc (a b : row) : Prop := score a >= score b.

Lemma fs_aux_sorted key seen l : StronglySorted ge_sc l -> StronglySorted ge_sc (fs_aux key seen l).
Proof.
  revert seen. induction l as [|y l IH]; intros seen H; simpl; [constructor|].
  apply StronglySorted_inv in H. destruct H as [Hs Hf].
  destruct (cf_memz (key y) seen); [apply IH; exact Hs|].
  constructor; [apply IH; exact Hs|]. apply Forall_forall. intros x Hx.
  apply fs_aux_in in Hx. rewrite Forall_forall in Hf. apply Hf. tauto.
Qed.

Lemma fs_sorted key l : StronglySorted ge_sc l -> StronglySorted ge_sc (fs key l).
Proof. apply fs_aux_sorted. Qed.

(* ====================== the level loop ====================== *)
Lemma replace_length {A} i (v : A) l : length (cf_replace_nth i v l) = length l.
Proof. revert i. induction l as [|x l IH]; intros [|i]; simpl; try reflexivity. rewrite IH. reflexivity. Qed.

Lemma replace_same {A} i (v d : A) l : (i < length l)%nat -> nth i (cf_replace_nth i v l) d = v.
Proof. revert i. induction l as [|x l IH]; intros [|i] H; simpl in *; try lia; [reflexivity|]. apply IH. lia. Qed.

Lemma replace_other {A} i j (v d : A) l : i <> j -> nth j (cf_replace_nth i v l) d = nth j l d.
Proof.
  revert i j. induction l as [|x l IH]; intros [|i] [|j] H; simpl; try reflexivity; try congruence.
  apply IH. congruence.
Qed.

Lemma memz_ext z a b : (forall x, In x a <-> In x b) -> cf_memz z a = cf_memz z b.
Proof.
  intros H. destruct (cf_memz z a) eqn:Ea, (cf_memz z b) eqn:Eb; try reflexivity.
  - apply cf_memz_in in Ea. apply cf_memz_notin in Eb. exfalso. apply Eb, H, Ea.
  - apply cf_memz_in in Eb. apply cf_memz_notin in Ea. exfalso. apply Ea, H, Eb.
Qed.

Variable dedup : bool.
Variable r : row.

(* levels lv >= 1 are independent of each other: no break can occur *)
Lemma step_ge1 : forall todo lv seen out, (1 <= lv)%nat ->
  length seen = (lv + todo)%nat -> length out = (lv + todo)%nat ->
  let res := cf_levels_step row lkey dedup r lv todo seen out in
  length (fst res) = (lv + todo)%nat /\ length (snd res) = (lv + todo)%nat /\
  forall j,
    ((j < lv)%nat -> nth j (fst res) [] = nth j seen [] /\ nth j (snd res) [] = nth j out []) /\
    ((lv <= j < lv + todo)%nat ->
       nth j (fst res) [] = (if cf_memz (lkey j r) (nth j seen []) then nth j seen [] else lkey j r :: nth j seen []) /\
       nth j (snd res) [] = (if cf_memz (lkey j r) (nth j seen []) then nth j out [] else nth j out [] ++ [r])).
Proof.
  induction todo as [|todo IH]; intros lv seen out Hlv Hs Ho; cbn [cf_levels_step].
  - simpl. repeat split; try assumption; intros; lia.
  - destruct (Nat.eqb_spec lv 0) as [E|_]; [lia|]. cbn [negb orb].
    destruct (cf_memz (lkey lv r) (nth lv seen [])) eqn:Em.
    + specialize (IH (S lv) seen out ltac:(lia) ltac:(lia) ltac:(lia)).
      destruct IH as (H1 & H2 & H3). split; [lia|]. split; [lia|]. intros j. split.
      * intros Hj. apply (proj1 (H3 j)). lia.
      * intros Hj. destruct (Nat.eq_dec j lv) as [->|Hne].
        -- rewrite Em. apply (proj1 (H3 lv)). lia.
        -- apply (proj2 (H3 j)). lia.
    + set (seen1 := cf_replace_nth lv (lkey lv r :: nth lv seen []) seen).
      set (out1 := cf_replace_nth lv (nth lv out [] ++ [r]) out).
      specialize (IH (S lv) seen1 out1 ltac:(lia)).
      destruct IH as (H1 & H2 & H3); [unfold seen1; rewrite replace_length; lia|unfold out1; rewrite replace_length; lia|].
      split; [lia|]. split; [lia|]. intros j. split.
      * intros Hj. destruct (proj1 (H3 j) ltac:(lia)) as [A B]. rewrite A, B.
        unfold seen1, out1. rewrite !replace_other by lia. split; reflexivity.
      * intros Hj. destruct (Nat.eq_dec j lv) as [->|Hne].
        -- destruct (proj1 (H3 lv) ltac:(lia)) as [A B]. rewrite A, B, Em.
           unfold seen1, out1. rewrite !replace_same by lia. split; reflexivity.
        -- destruct (proj2 (H3 j) ltac:(lia)) as [A B]. rewrite A, B.
           unfold seen1, out1. rewrite !replace_other by lia. split; reflexivity.
Qed.
End Conf.

Arguments fs {row} key l.
Arguments fs_aux {row} key seen l.
Arguments ge_sc {row} score a b.

Section Levels.
Variable row : Type.
Variable score : row -> Z.
Variable lkey : nat -> row -> Z.
Variable dedup : bool.

Definition base (pre : list row) : list row := if dedup then fs (lkey 0%nat) pre else pre.
(* the content of level file j after the rows of [pre] went through the loop *)
Definition level_of (j : nat) (pre : list row) : list row :=
  match j with O => base pre | S _ => fs (lkey j) (base pre) end.

Definition inv (n : nat) (pre : list row) (acc : list (list Z) * list (list row)) : Prop :=
  length (fst acc) = n /\ length (snd acc) = n /\
  forall j, (j < n)%nat ->
    nth j (snd acc) [] = level_of j pre /\
    (match j with
     | O => if dedup then forall z, In z (nth 0%nat (fst acc) []) <-> In z (map (lkey 0%nat) pre)
            else nth 0%nat (fst acc) [] = []
     | S _ => forall z, In z (nth j (fst acc) []) <-> In z (map (lkey j) (base pre))
     end).

Lemma inv_init n : inv n [] (repeat [] n, repeat [] n).
Proof.
  unfold inv. simpl. rewrite !repeat_length. split; [reflexivity|]. split; [reflexivity|].
  intros j Hj.
  assert (forall A, nth j (repeat (@nil A) n) [] = []) as Hn.
  { intros A. clear Hj. revert j. induction n as [|m IH]; intros [|j]; simpl; try reflexivity. apply IH. }
  rewrite Hn. split.
  - destruct j; unfold level_of, base; destruct dedup; reflexivity.
  - destruct j as [|j].
    + rewrite Hn. destruct dedup; [simpl; tauto|reflexivity].
    + rewrite Hn. unfold base. destruct dedup; simpl; tauto.
Qed.

Lemma base_snoc pre r :
  base (pre ++ [r]) = base pre ++ (if dedup && cf_memz (lkey 0%nat r) (map (lkey 0%nat) pre) then [] else [r]).
Proof. unfold base. destruct dedup; simpl; [apply fs_snoc|reflexivity]. Qed.

Lemma inv_step n pre acc r : inv n pre acc ->
  inv n (pre ++ [r]) (cf_levels_step row lkey dedup r 0 n (fst acc) (snd acc)).
Proof.
  intros H. unfold inv in *. destruct H as (Hs & Ho & Hj). destruct acc as [seen out]. cbn [fst snd] in *.
  destruct n as [|n']; [simpl; repeat split; try assumption; intros; lia|].
  cbn [cf_levels_step]. cbn [Nat.eqb negb orb].
  destruct (Hj 0%nat ltac:(lia)) as [H0o H0s]. cbn [level_of] in H0o.
  destruct dedup eqn:Ed.
  - (* de-duplication at PSM level *)
    assert (cf_memz (lkey 0%nat r) (nth 0%nat seen []) = cf_memz (lkey 0%nat r) (map (lkey 0%nat) pre)) as Hm
      by (apply memz_ext; exact H0s).
    rewrite Hm. destruct (cf_memz (lkey 0%nat r) (map (lkey 0%nat) pre)) eqn:Em.
    + (* break: nothing changes at any level *)
      cbn [fst snd]. split; [exact Hs|]. split; [exact Ho|]. intros j Hjn.
      destruct (Hj j Hjn) as [A B].
      assert (base (pre ++ [r]) = base pre) as Hb.
      { rewrite base_snoc. rewrite Ed, Em. simpl. apply app_nil_r. }
      split.
      * rewrite A. destruct j; unfold level_of; rewrite Hb; reflexivity.
      * destruct j as [|j].
        -- intros z. rewrite B, map_app, in_app_iff. simpl. apply cf_memz_in in Em. split; [tauto|].
           intros [H|[H|[]]]; [exact H|subst; exact Em].
        -- intros z. rewrite Hb. apply B.
    + set (seen1 := cf_replace_nth 0 (lkey 0%nat r :: nth 0%nat seen []) seen).
      set (out1 := cf_replace_nth 0 (nth 0%nat out [] ++ [r]) out).
      destruct (step_ge1 row lkey true r n' 1 seen1 out1 ltac:(lia)) as (H1 & H2 & H3);
        [unfold seen1; rewrite replace_length; lia|unfold out1; rewrite replace_length; lia|].
      split; [lia|]. split; [lia|]. intros j Hjn.
      assert (base (pre ++ [r]) = base pre ++ [r]) as Hb by (rewrite base_snoc, Ed, Em; reflexivity).
      destruct j as [|j].
      * destruct (proj1 (H3 0%nat) ltac:(lia)) as [A B]. rewrite A, B. unfold seen1, out1.
        rewrite !replace_same by lia. split.
        -- cbn [level_of]. rewrite Hb, H0o. reflexivity.
        -- intros z. simpl. rewrite H0s, map_app, in_app_iff. simpl. tauto.
      * destruct (proj2 (H3 (S j)) ltac:(lia)) as [A B]. rewrite A, B. unfold seen1, out1.
        rewrite !replace_other by lia.
        destruct (Hj (S j) ltac:(lia)) as [Ao As].
        assert (cf_memz (lkey (S j) r) (nth (S j) seen []) = cf_memz (lkey (S j) r) (map (lkey (S j)) (base pre))) as Hm'
          by (apply memz_ext; exact As).
        rewrite Hm'. cbn [level_of]. rewrite Hb, fs_snoc, Ao. cbn [level_of].
        destruct (cf_memz (lkey (S j) r) (map (lkey (S j)) (base pre))) eqn:Em'.
        -- split; [rewrite ?app_nil_r; reflexivity|]. intros z. rewrite As, map_app, in_app_iff. simpl. apply cf_memz_in in Em'.
           split; [tauto|]. intros [H|[H|[]]]; [exact H|subst; exact Em'].
        -- split; [reflexivity|]. intros z. simpl. rewrite As, map_app, in_app_iff. simpl. tauto.
  - (* no de-duplication: every row reaches the PSM level *)
    set (out1 := cf_replace_nth 0 (nth 0%nat out [] ++ [r]) out).
    destruct (step_ge1 row lkey false r n' 1 seen out1 ltac:(lia)) as (H1 & H2 & H3);
      [lia|unfold out1; rewrite replace_length; lia|].
    split; [lia|]. split; [lia|]. intros j Hjn.
    assert (base (pre ++ [r]) = base pre ++ [r]) as Hb by (rewrite base_snoc, Ed; reflexivity).
    destruct j as [|j].
    + destruct (proj1 (H3 0%nat) ltac:(lia)) as [A B]. rewrite A, B. unfold out1.
      rewrite replace_same by lia. split; [cbn [level_of]; rewrite Hb, H0o; reflexivity|exact H0s].
    + destruct (proj2 (H3 (S j)) ltac:(lia)) as [A B]. rewrite A, B. unfold out1.
      rewrite !replace_other by lia.
      destruct (Hj (S j) ltac:(lia)) as [Ao As].
      assert (cf_memz (lkey (S j) r) (nth (S j) seen []) = cf_memz (lkey (S j) r) (map (lkey (S j)) (base pre))) as Hm'
        by (apply memz_ext; exact As).
      rewrite Hm'. cbn [level_of]. rewrite Hb, fs_snoc, Ao. cbn [level_of].
      destruct (cf_memz (lkey (S j) r) (map (lkey (S j)) (base pre))) eqn:Em'.
      * split; [rewrite ?app_nil_r; reflexivity|]. intros z. rewrite As, map_app, in_app_iff. simpl. apply cf_memz_in in Em'.
        split; [tauto|]. intros [H|[H|[]]]; [exact H|subst; exact Em'].
      * split; [reflexivity|]. intros z. simpl. rewrite As, map_app, in_app_iff. simpl. tauto.
Qed.

Lemma inv_fold n rest : forall pre acc, inv n pre acc ->
  inv n (pre ++ rest) (fold_left (fun acc r => cf_levels_step row lkey dedup r 0 n (fst acc) (snd acc)) rest acc).
Proof.
  induction rest as [|r rest IH]; intros pre acc H; simpl; [rewrite app_nil_r; exact H|].
  replace (pre ++ r :: rest) with ((pre ++ [r]) ++ rest) by (rewrite <- app_assoc; reflexivity).
  apply IH. apply inv_step. exact H.
Qed.

(* the level files as a function of the sorted stream: first seen wins at every level,
   a PSM dropped at PSM level is dropped at every level *)
Theorem levels_run_spec n stream :
  cf_levels_run row lkey dedup n stream = map (fun j => level_of j stream) (seq 0 n).
Proof.
  unfold cf_levels_run.
  pose proof (inv_fold n stream [] _ (inv_init n)) as (Hs & Ho & Hj). simpl app in *.
  set (res := fold_left _ stream _) in *.
  apply (nth_ext _ _ [] []); [rewrite map_length, seq_length; exact Ho|].
  intros j Hjn. rewrite Ho in Hjn. destruct (Hj j Hjn) as [A _]. rewrite A.
  rewrite (nth_indep _ [] ((fun j => level_of j stream) 0%nat)) by (rewrite map_length, seq_length; exact Hjn).
  rewrite (map_nth (fun j => level_of j stream)), seq_nth by exact Hjn. reflexivity.
Qed.
End Levels.

Arguments base {row} lkey dedup pre.
Arguments level_of {row} lkey dedup j pre.

(* ====================== sorting, streams, best-per-key ====================== *)
Section Stream.
Variable row : Type.
Variable score : row -> Z.
Variable lkey : nat -> row -> Z.

Notation sorted_desc := (StronglySorted (ge_sc score)).

Definition is_best (key : row -> Z) (pool : list row) (r : row) : Prop :=
  In r pool /\ forall r', In r' pool -> key r' = key r -> score r' <= score r.

Lemma insert_perm x l : Permutation (cf_insert row score x l) (x :: l).
Proof.
  induction l as [|y l IH]; simpl; [reflexivity|].
  destruct (score y <? score x); [reflexivity|]. rewrite IH. apply perm_swap.
Qed.

Lemma insert_sorted x l : sorted_desc l -> sorted_desc (cf_insert row score x l).
Proof.
  induction l as [|y l IH]; simpl; intros H; [repeat constructor|].
  apply StronglySorted_inv in H. destruct H as [Hs Hf].
  destruct (Z.ltb_spec (score y) (score x)) as [Hlt|Hge].
  - constructor; [constructor; assumption|]. constructor; [unfold ge_sc; lia|].
    eapply Forall_impl; [|exact Hf]. intros z Hz. unfold ge_sc in *. lia.
  - constructor; [apply IH; exact Hs|].
    assert (Forall (ge_sc score y) (x :: l)) as Hf' by (constructor; [unfold ge_sc; lia|exact Hf]).
    eapply Permutation_Forall; [|exact Hf']. symmetry. apply insert_perm.
Qed.

Lemma sort_desc_perm l : Permutation (cf_sort_desc row score l) l.
Proof.
  unfold cf_sort_desc. rewrite (Permutation_rev l) at 2.
  induction (rev l) as [|x t IH]; simpl; [reflexivity|]. rewrite insert_perm. constructor. exact IH.
Qed.

Lemma sort_desc_sorted l : sorted_desc (cf_sort_desc row score l).
Proof.
  unfold cf_sort_desc. induction (rev l) as [|x t IH]; simpl; [constructor|apply insert_sorted; exact IH].
Qed.

(* ---------- distinct scores ---------- *)
Lemma nodup_map_perm {A B} (f : A -> B) l l' : Permutation l l' -> NoDup (map f l) -> NoDup (map f l').
Proof. intros HP. apply Permutation_NoDup. apply Permutation_map. exact HP. Qed.

Lemma nodup_map_app_l {A B} (f : A -> B) a b : NoDup (map f (a ++ b)) -> NoDup (map f a).
Proof.
  rewrite map_app. induction (map f a) as [|x t IH]; simpl; intros H; [constructor|].
  inversion H as [|? ? Hx Ht]; subst. constructor; [|apply IH; exact Ht].
  intros Hin. apply Hx. apply in_or_app. left. exact Hin.
Qed.

Lemma nodup_map_split {A B} (f : A -> B) pre x post x' :
  NoDup (map f (pre ++ x :: post)) -> In x' pre -> f x' <> f x.
Proof.
  rewrite map_app. simpl. intros H Hin E.
  apply NoDup_remove_2 in H. apply H. apply in_or_app. left. rewrite <- E. apply in_map. exact Hin.
Qed.

Lemma nodup_map_split_post {A B} (f : A -> B) pre x post x' :
  NoDup (map f (pre ++ x :: post)) -> In x' post -> f x' <> f x.
Proof.
  rewrite map_app. simpl. intros H Hin E.
  apply NoDup_remove_2 in H. apply H. apply in_or_app. right. rewrite <- E. apply in_map. exact Hin.
Qed.

(* first-seen over a descending list with distinct scores keeps exactly the best row per key *)
Lemma sorted_split pre x post : sorted_desc (pre ++ x :: post) ->
  (forall y, In y pre -> score y >= score x) /\ (forall y, In y post -> score x >= score y).
Proof.
  induction pre as [|p pre IH]; simpl; intros H; apply StronglySorted_inv in H; destruct H as [Hs Hf].
  - split; [intros y []|]. intros y Hy. rewrite Forall_forall in Hf. apply Hf. exact Hy.
  - destruct (IH Hs) as [H1 H2]. split; [|exact H2].
    intros y [<-|Hy]; [|apply H1; exact Hy]. rewrite Forall_forall in Hf. apply Hf. apply in_or_app. right. left. reflexivity.
Qed.

Lemma fs_best key l r : sorted_desc l -> NoDup (map score l) ->
  (In r (fs key l) <-> is_best key l r).
Proof.
  intros Hs Hnd. rewrite (fs_first row score key l r). split.
  - intros (pre & post & -> & Hk). split; [apply in_or_app; right; left; reflexivity|].
    intros r' Hr' Ek. destruct (sorted_split _ _ _ Hs) as [_ Hpost].
    apply in_app_or in Hr'. destruct Hr' as [Hr'|[<-|Hr']].
    + exfalso. apply Hk. rewrite <- Ek. apply in_map. exact Hr'.
    + lia.
    + specialize (Hpost r' Hr'). unfold ge_sc in *. lia.
  - intros [Hin Hbest]. destruct (in_split _ _ Hin) as (pre & post & ->).
    exists pre, post. split; [reflexivity|]. intros Hk. apply in_map_iff in Hk. destruct Hk as (r' & Ek & Hr').
    destruct (sorted_split _ _ _ Hs) as [Hpre _]. specialize (Hpre r' Hr').
    assert (score r' <= score r) as Hle by (apply Hbest; [apply in_or_app; left; exact Hr'|exact Ek]).
    apply (nodup_map_split score pre r post r' Hnd Hr'). lia.
Qed.

(* the best row of a key survives first-seen on a sorted list, also with tied scores *)
Lemma fs_dominates key l r' : sorted_desc l -> In r' l ->
  exists r'', In r'' (fs key l) /\ key r'' = key r' /\ score r'' >= score r'.
Proof.
  intros Hs Hin.
  assert (forall l0, In (key r') (map key l0) ->
            exists pre x post, l0 = pre ++ x :: post /\ key x = key r' /\ ~ In (key r') (map key pre)) as Hfirst.
  { induction l0 as [|y l0 IH]; simpl; [intros []|]. intros H.
    destruct (Z.eq_dec (key y) (key r')) as [E|N].
    - exists [], y, l0. split; [reflexivity|]. split; [exact E|intros []].
    - destruct H as [H|H]; [contradiction|]. destruct (IH H) as (pre & x & post & -> & Ex & Hn).
      exists (y :: pre), x, post. split; [reflexivity|]. split; [exact Ex|]. simpl. intros [H'|H']; [contradiction|contradiction]. }
  destruct (Hfirst l (in_map key _ _ Hin)) as (pre & x & post & -> & Ex & Hn).
  exists x. split; [apply (fs_first row score); exists pre, post; split; [reflexivity|rewrite Ex; exact Hn]|]. split; [exact Ex|].
  destruct (sorted_split _ _ _ Hs) as [_ Hpost].
  apply in_app_or in Hin. destruct Hin as [Hin|[<-|Hin]].
  - exfalso. apply Hn. apply in_map. exact Hin.
  - lia.
  - apply Hpost. exact Hin.
Qed.

(* two strictly descending lists with the same elements are equal *)
Lemma sorted_unique l1 : forall l2, sorted_desc l1 -> sorted_desc l2 ->
  NoDup (map score l1) -> NoDup (map score l2) -> (forall r, In r l1 <-> In r l2) -> l1 = l2.
Proof.
  induction l1 as [|h1 t1 IH]; intros [|h2 t2] H1 H2 N1 N2 HE.
  - reflexivity.
  - exfalso. apply (proj2 (HE h2)). left; reflexivity.
  - exfalso. apply (proj1 (HE h1)). left; reflexivity.
  - apply StronglySorted_inv in H1, H2. destruct H1 as [S1 F1], H2 as [S2 F2].
    rewrite Forall_forall in F1, F2. simpl in N1, N2.
    inversion N1 as [|? ? X1 N1']; inversion N2 as [|? ? X2 N2']; subst.
    assert (h1 = h2) as ->.
    { destruct (proj1 (HE h1) (or_introl eq_refl)) as [E|Hin]; [symmetry; exact E|].
      destruct (proj2 (HE h2) (or_introl eq_refl)) as [E|Hin']; [exact E|].
      specialize (F1 _ Hin'). specialize (F2 _ Hin). unfold ge_sc in *.
      exfalso. apply X1. replace (score h1) with (score h2) by lia. apply in_map. exact Hin'. }
    f_equal. apply IH; try assumption.
    intros r. split; intros Hr.
    + destruct (proj1 (HE r) (or_intror Hr)) as [E|H]; [|exact H]. subst. exfalso. apply X1. apply in_map. exact Hr.
    + destruct (proj2 (HE r) (or_intror Hr)) as [E|H]; [|exact H]. subst. exfalso. apply X2. apply in_map. exact Hr.
Qed.
End Stream.

Arguments is_best {row} score key pool r.

Section Main.
Variable row : Type.
Variable score : row -> Z.
Variable lkey : nat -> row -> Z.

Notation sorted_desc := (StronglySorted (ge_sc score)).

Lemma fs_aux_subperm key seen (l : list row) : exists rej, Permutation (fs_aux key seen l ++ rej) l.
Proof.
  revert seen. induction l as [|x l IH]; intros seen; simpl; [exists []; reflexivity|].
  destruct (cf_memz (key x) seen).
  - destruct (IH seen) as (rej & HP). exists (x :: rej).
    rewrite <- HP at 2. symmetry. apply Permutation_middle.
  - destruct (IH (key x :: seen)) as (rej & HP). exists rej. simpl. constructor. exact HP.
Qed.

Lemma concat_subperm {A} (f : list A -> list A) (ls : list (list A)) :
  (forall l, exists rej, Permutation (f l ++ rej) l) ->
  exists rej, Permutation (concat (map f ls) ++ rej) (concat ls).
Proof.
  intros Hf. induction ls as [|l ls IH]; simpl; [exists []; reflexivity|].
  destruct IH as (rej & HP). destruct (Hf l) as (rl & HPl). exists (rl ++ rej).
  apply Permutation_trans with ((f l ++ rl) ++ (concat (map f ls) ++ rej)).
  - rewrite <- !app_assoc. apply Permutation_app_head. apply Permutation_app_swap_app.
  - apply Permutation_app; assumption.
Qed.

Lemma nodup_map_concat_block {A B} (f : A -> B) (ls : list (list A)) l :
  NoDup (map f (concat ls)) -> In l ls -> NoDup (map f l).
Proof.
  induction ls as [|x ls IH]; simpl; [intros _ []|]. intros H [->|Hin].
  - apply (nodup_map_app_l f _ _ H).
  - apply IH; [|exact Hin]. rewrite map_app in H. clear -H. induction (map f x) as [|a t IHt]; [exact H|].
    simpl in H. inversion H; subst. apply IHt. assumption.
Qed.

Variable c : nat.
Hypothesis Hc : (1 <= c)%nat.
Variable rows : list row.

Let chunks := pc_chunks c rows.

Lemma chunk_in ch x : In ch chunks -> In x ch -> In x rows.
Proof.
  intros Hch Hx. rewrite <- (chunks_concat c rows Hc). apply in_concat. exists ch. split; assumption.
Qed.

(* ---------- the merged stream ---------- *)
Lemma files_sorted cd : Forall (mg_sorted score true) (cf_chunk_files row score lkey c cd rows).
Proof.
  unfold cf_chunk_files. apply Forall_forall. intros f Hf. apply in_map_iff in Hf. destruct Hf as (ch & <- & _).
  change (sorted_desc (if cd then cf_dedup row lkey (cf_sort_desc row score ch) else cf_sort_desc row score ch)).
  destruct cd; [rewrite cf_dedup_is_fs; apply fs_sorted|]; apply sort_desc_sorted.
Qed.

Lemma stream_sorted cd : sorted_desc (cf_stream row score lkey c cd rows).
Proof. unfold cf_stream. apply (mg_merge_all_sorted row score). apply files_sorted. Qed.

Lemma stream_perm_nodedup : Permutation (cf_stream row score lkey c false rows) rows.
Proof.
  unfold cf_stream. rewrite (mg_merge_all_perm row score). unfold cf_chunk_files.
  rewrite <- (chunks_concat c rows Hc) at 2. fold chunks.
  induction chunks as [|ch t IH]; simpl; [reflexivity|]. apply Permutation_app; [apply sort_desc_perm|exact IH].
Qed.

Lemma stream_subperm_dedup : exists rej, Permutation (cf_stream row score lkey c true rows ++ rej) rows.
Proof.
  unfold cf_stream, cf_chunk_files.
  destruct (concat_subperm (fun ch => cf_dedup row lkey (cf_sort_desc row score ch)) chunks) as (rej & HP).
  { intros l. rewrite cf_dedup_is_fs. destruct (fs_aux_subperm (lkey 0%nat) [] (cf_sort_desc row score l)) as (rej & HP).
    exists rej. unfold fs. rewrite HP. apply sort_desc_perm. }
  exists rej. rewrite (mg_merge_all_perm row score). fold chunks. rewrite HP. unfold chunks. rewrite chunks_concat by exact Hc. reflexivity.
Qed.

Lemma stream_in_dedup x :
  In x (cf_stream row score lkey c true rows) <->
  exists ch, In ch chunks /\ In x (fs (lkey 0%nat) (cf_sort_desc row score ch)).
Proof.
  unfold cf_stream. split.
  - intros H. apply (Permutation_in _ (mg_merge_all_perm row score _)) in H. apply in_concat in H.
    destruct H as (f & Hf & Hx). unfold cf_chunk_files in Hf. apply in_map_iff in Hf. destruct Hf as (ch & <- & Hch).
    exists ch. split; [exact Hch|]. rewrite <- cf_dedup_is_fs. exact Hx.
  - intros (ch & Hch & Hx). apply (Permutation_in _ (Permutation_sym (mg_merge_all_perm row score _))).
    apply in_concat. exists (cf_dedup row lkey (cf_sort_desc row score ch)). split; [|rewrite cf_dedup_is_fs; exact Hx].
    unfold cf_chunk_files. apply in_map_iff. exists ch. split; [reflexivity|exact Hch].
Qed.

Hypothesis Hdistinct : NoDup (map score rows).

Lemma stream_nodup_dedup : NoDup (map score (cf_stream row score lkey c true rows)).
Proof.
  destruct stream_subperm_dedup as (rej & HP).
  apply (nodup_map_app_l score _ rej). apply (nodup_map_perm score _ _ (Permutation_sym HP)). exact Hdistinct.
Qed.

(* PSM level with de-duplication: exactly the best PSM of every spectrum *)
Theorem psm_level_dedup r :
  In r (fs (lkey 0%nat) (cf_stream row score lkey c true rows)) <-> is_best score (lkey 0%nat) rows r.
Proof.
  rewrite (fs_best row score _ _ _ (stream_sorted true) stream_nodup_dedup). split.
  - intros [Hin Hbest]. apply stream_in_dedup in Hin. destruct Hin as (ch & Hch & Hx).
    assert (In r rows) as Hr.
    { apply (chunk_in ch); [exact Hch|]. apply (Permutation_in _ (sort_desc_perm row score ch)).
      unfold fs in Hx. apply fs_aux_in in Hx. tauto. }
    split; [exact Hr|]. intros r' Hr' Ek.
    rewrite <- (chunks_concat c rows Hc) in Hr'. apply in_concat in Hr'. destruct Hr' as (ch' & Hch' & Hx').
    destruct (fs_dominates row score (lkey 0%nat) (cf_sort_desc row score ch') r' (sort_desc_sorted row score ch'))
      as (r'' & Hin'' & Ek'' & Hge).
    { apply (Permutation_in _ (Permutation_sym (sort_desc_perm row score ch'))). exact Hx'. }
    assert (score r'' <= score r) as Hle.
    { apply Hbest; [apply stream_in_dedup; exists ch'; split; assumption|congruence]. }
    lia.
  - intros [Hin Hbest].
    pose proof Hin as Hin0. rewrite <- (chunks_concat c rows Hc) in Hin. apply in_concat in Hin. destruct Hin as (ch & Hch & Hx).
    assert (In r (cf_stream row score lkey c true rows)) as Hs.
    { apply stream_in_dedup. exists ch. split; [exact Hch|].
      assert (NoDup (map score (cf_sort_desc row score ch))) as Hnd.
      { apply (nodup_map_perm score _ _ (Permutation_sym (sort_desc_perm row score ch))).
        apply (nodup_map_concat_block score chunks ch); [unfold chunks; rewrite chunks_concat by exact Hc; exact Hdistinct|exact Hch]. }
      apply (fs_best row score _ _ _ (sort_desc_sorted row score ch) Hnd).
      split; [apply (Permutation_in _ (Permutation_sym (sort_desc_perm row score ch))); exact Hx|].
      intros r' Hr' Ek. apply Hbest; [|exact Ek].
      apply (chunk_in ch); [exact Hch|]. apply (Permutation_in _ (sort_desc_perm row score ch)). exact Hr'. }
    split; [exact Hs|]. intros r' Hr' Ek. apply Hbest; [|exact Ek].
    apply stream_in_dedup in Hr'. destruct Hr' as (ch' & Hch' & Hx').
    apply (chunk_in ch'); [exact Hch'|]. apply (Permutation_in _ (sort_desc_perm row score ch')).
    unfold fs in Hx'. apply fs_aux_in in Hx'. tauto.
Qed.
End Main.

(* ====================== the level files ====================== *)
Section Final.
Variable row : Type.
Variable score : row -> Z.
Variable lkey : nat -> row -> Z.
Notation sorted_desc := (StronglySorted (ge_sc score)).

Lemma levels_unfold c cd dedup n rows :
  cf_levels row score lkey c cd dedup n rows
  = map (fun j => level_of lkey dedup j (cf_stream row score lkey c cd rows)) (seq 0 n).
Proof. unfold cf_levels. apply (levels_run_spec row score). Qed.

Lemma nth_levels c cd dedup n rows j : (j < n)%nat ->
  nth j (cf_levels row score lkey c cd dedup n rows) [] = level_of lkey dedup j (cf_stream row score lkey c cd rows).
Proof.
  intros Hj. rewrite levels_unfold.
  rewrite (nth_indep _ [] ((fun j => level_of lkey dedup j (cf_stream row score lkey c cd rows)) 0%nat))
    by (rewrite map_length, seq_length; exact Hj).
  rewrite (map_nth (fun j => level_of lkey dedup j (cf_stream row score lkey c cd rows))), seq_nth by exact Hj. reflexivity.
Qed.

Lemma fs_nodup_scores key (l : list row) : NoDup (map score l) -> NoDup (map score (fs key l)).
Proof.
  intros H. destruct (fs_aux_subperm row key [] l) as (rej & HP).
  apply (nodup_map_app_l score _ rej). apply (nodup_map_perm score _ _ (Permutation_sym HP)). exact H.
Qed.

Section WithRows.
Variables (c n : nat) (rows : list row).
Hypothesis Hc : (1 <= c)%nat.
Hypothesis Hdistinct : NoDup (map score rows).

(* de-duplication on: PSM level = best PSM per spectrum; level j = best retained PSM per entity *)
Theorem levels_dedup_spec :
  let out := cf_levels row score lkey c true true n rows in
  let psms := nth 0%nat out [] in
  forall j, (j < n)%nat ->
    sorted_desc (nth j out []) /\
    forall r, In r (nth j out []) <->
              is_best score (lkey j) (match j with O => rows | S _ => psms end) r.
Proof.
  intros out psms j Hj. unfold psms, out.
  pose proof (stream_sorted row score lkey c rows true) as Hss.
  pose proof (stream_nodup_dedup row score lkey c Hc rows Hdistinct) as Hsn.
  rewrite !nth_levels by lia. destruct j as [|j]; cbn [level_of base].
  - split; [apply fs_sorted; exact Hss|]. intros r. apply psm_level_dedup; assumption.
  - split; [apply fs_sorted, fs_sorted; exact Hss|]. intros r.
    apply fs_best; [apply fs_sorted; exact Hss|apply fs_nodup_scores; exact Hsn].
Qed.

(* de-duplication off: every PSM at PSM level *)
Theorem levels_nodedup_spec :
  let out := cf_levels row score lkey c false false n rows in
  let psms := nth 0%nat out [] in
  forall j, (j < n)%nat ->
    sorted_desc (nth j out []) /\
    match j with
    | O => Permutation psms rows
    | S _ => forall r, In r (nth j out []) <-> is_best score (lkey j) psms r
    end.
Proof.
  intros out psms j Hj. unfold psms, out.
  pose proof (stream_sorted row score lkey c rows false) as Hss.
  pose proof (stream_perm_nodedup row score lkey c Hc rows) as Hsp.
  rewrite !nth_levels by lia. destruct j as [|j]; cbn [level_of base].
  - split; [exact Hss|exact Hsp].
  - split; [apply fs_sorted; exact Hss|]. intros r.
    apply fs_best; [exact Hss|]. apply (nodup_map_perm score _ _ (Permutation_sym Hsp)). exact Hdistinct.
Qed.
End WithRows.

(* the result files do not depend on the confidence chunk size (distinct scores) *)
Theorem levels_chunk_independent c c' dedup n rows : (1 <= c)%nat -> (1 <= c')%nat ->
  NoDup (map score rows) ->
  cf_levels row score lkey c dedup dedup n rows = cf_levels row score lkey c' dedup dedup n rows.
Proof.
  intros Hc Hc' Hd. rewrite !levels_unfold.
  assert (base lkey dedup (cf_stream row score lkey c dedup rows) = base lkey dedup (cf_stream row score lkey c' dedup rows)) as Hb.
  { unfold base. destruct dedup.
    - apply (sorted_unique row score).
      + apply fs_sorted, stream_sorted.
      + apply fs_sorted, stream_sorted.
      + apply fs_nodup_scores, stream_nodup_dedup; assumption.
      + apply fs_nodup_scores, stream_nodup_dedup; assumption.
      + intros r. rewrite !psm_level_dedup by assumption. reflexivity.
    - pose proof (stream_perm_nodedup row score lkey c Hc rows) as P1.
      pose proof (stream_perm_nodedup row score lkey c' Hc' rows) as P2.
      apply (sorted_unique row score); try apply stream_sorted.
      + apply (nodup_map_perm score _ _ (Permutation_sym P1)). exact Hd.
      + apply (nodup_map_perm score _ _ (Permutation_sym P2)). exact Hd.
      + intros r. split; intros H.
        * apply (Permutation_in _ (Permutation_sym P2)). apply (Permutation_in _ P1). exact H.
        * apply (Permutation_in _ (Permutation_sym P1)). apply (Permutation_in _ P2). exact H. }
  apply map_ext. intros j. destruct j; cbn [level_of]; rewrite Hb; reflexivity.
Qed.
End Final.

(* ====================== concrete rows: q-values and the target / decoy files ====================== *)
Theorem confidence_outputs c dedup n rows j tg dc :
  nth j (cf_confidence c dedup n rows) ([], []) = (tg, dc) -> (j < n)%nat ->
  let lvl := nth j (cf_levels cf_row cf_score cf_lkey c dedup dedup n rows) [] in
  let rq := combine lvl (cf_qvalues lvl) in
  tg = filter (fun p => cf_target (fst p)) rq /\
  dc = filter (fun p => negb (cf_target (fst p))) rq /\
  length (cf_qvalues lvl) = length lvl /\
  forall i, (i < length lvl)%nat ->
    is_qvalue true (combine (map cf_score lvl) (map cf_target lvl)) (cf_score (nth i lvl (Build_cf_row 0 0 [] false 0)))
              (nth i (cf_qvalues lvl) 1%Q).
Proof.
  intros H Hj lvl rq. unfold cf_confidence in H.
  assert (length (cf_levels cf_row cf_score cf_lkey c dedup dedup n rows) = n) as Hl
    by (rewrite levels_unfold, map_length, seq_length; reflexivity).
  set (F := fun lvl0 : list cf_row =>
              (filter (fun p : cf_row * Q => cf_target (fst p)) (combine lvl0 (cf_qvalues lvl0)),
               filter (fun p : cf_row * Q => negb (cf_target (fst p))) (combine lvl0 (cf_qvalues lvl0)))) in H.
  rewrite (nth_indep _ ([], []) (F [])) in H by (rewrite map_length, Hl; exact Hj).
  rewrite (map_nth F) in H. fold lvl in H. unfold F in H. injection H as <- <-.
  split; [reflexivity|]. split; [reflexivity|].
  unfold cf_qvalues.
  destruct (tdc_core_spec true (map cf_score lvl) (map cf_target lvl)) as [Hlen Hq]; [rewrite !map_length; reflexivity|].
  rewrite map_length in Hlen. split; [exact Hlen|]. intros i Hi.
  specialize (Hq i). rewrite map_length in Hq. specialize (Hq Hi).
  rewrite (nth_indep _ 0 (cf_score (Build_cf_row 0 0 [] false 0))) in Hq by (rewrite map_length; exact Hi).
  rewrite map_nth in Hq. exact Hq.
Qed.
