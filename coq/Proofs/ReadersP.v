(* Proofs about Model/Readers.v (C13): for every reader, the concatenation of the chunked read
   equals the whole read, which equals the requested columns of the table the reader stands for. *)
From Coq Require Import Lia.
From Mokaverif Require Import Model.Base Model.Chunks Model.Readers Proofs.ChunksP.
Open Scope nat_scope.

(* ---------- induction over readers (nested in list) ---------- *)
Lemma tr_reader_ind' (P : tr_reader -> Prop) :
  (forall t, P (TrFrame t)) -> (forall t, P (TrCsv t)) -> (forall t bl bl0, P (TrParquet t bl bl0)) ->
  (forall r m, P r -> P (TrMapped r m)) ->
  (forall rs, Forall P rs -> P (TrJoined rs)) ->
  (forall r k f, P r -> P (TrComputed r k f)) ->
  forall r, P r.
Proof.
  intros Hf Hc Hp Hm Hj Hk. fix IH 1. intros r. destruct r as [t|t|t bl bl0|r m|rs|r k f].
  - apply Hf.
  - apply Hc.
  - apply Hp.
  - apply Hm. apply IH.
  - apply Hj. induction rs as [|x rs IHrs]; constructor; [apply IH | exact IHrs].
  - apply Hk. apply IH.
Qed.

(* ================= specification-level definitions ================= *)

(* a table: distinct column names, rectangular *)
Definition tb_wf (t : tr_table) : Prop :=
  NoDup (tb_names t) /\ Forall (fun row => length row = length (tb_names t)) (tb_rows t).

(* number of rows a reader stands for *)
Fixpoint tr_nrows (r : tr_reader) : nat :=
  match r with
  | TrFrame t => length (tb_rows t)
  | TrCsv t => length (tb_rows t)
  | TrParquet t _ _ => length (tb_rows t)
  | TrMapped r' _ => tr_nrows r'
  | TrJoined rs => match rs with [] => 0 | r0 :: _ => tr_nrows r0 end
  | TrComputed r' _ _ => tr_nrows r'
  end.

(* rows side by side *)
Definition tr_hzip (a b : list (list Z)) : list (list Z) := map (fun p => fst p ++ snd p) (combine a b).
Definition tr_hzip_all (l : list (list (list Z))) : list (list Z) :=
  match l with [] => [] | R0 :: Rs => fold_left tr_hzip Rs R0 end.

(* THE TABLE A READER STANDS FOR: its column names are tr_names r, its rows are tr_drows r.
   Leaves: the stored table.  Renaming: same rows.  Join: rows side by side.  Computed column:
   func applied to the whole inner table, appended as last column. *)
Fixpoint tr_drows (r : tr_reader) : list (list Z) :=
  match r with
  | TrFrame t => tb_rows t
  | TrCsv t => tb_rows t
  | TrParquet t _ _ => tb_rows t
  | TrMapped r' _ => tr_drows r'
  | TrJoined rs => tr_hzip_all (map tr_drows rs)
  | TrComputed r' k f =>
    match f (tr_names r') (tr_drows r') with
    | Ok vs => map (fun p => fst p ++ [snd p]) (combine (tr_drows r') vs)
    | Err _ => []
    end
  end.
Definition tr_den (r : tr_reader) : tr_table := {| tb_names := tr_names r; tb_rows := tr_drows r |}.

(* the requested columns of that table, in the requested order *)
Definition tr_select (r : tr_reader) (cs : list nat) : list (list Z) :=
  map (ch_select_row (tr_names r) cs) (tr_drows r).

Definition tr_sub (names cs : list nat) : list nat := filter (fun n => ch_mem n cs) names.

(* what each node hands upwards for a request (rows only): used to connect model and table *)
Fixpoint tr_rows (r : tr_reader) (cs : list nat) : list (list Z) :=
  match r with
  | TrFrame t => map (ch_select_row (tb_names t) cs) (tb_rows t)
  | TrCsv t => map (ch_select_row (tb_names t) cs) (tb_rows t)
  | TrParquet t _ _ => map (ch_select_row (tb_names t) cs) (tb_rows t)
  | TrMapped r' m =>
    match tr_orig_cols (combine (map (tr_rename m) (tr_names r')) (tr_names r')) cs with
    | Some ocs => tr_rows r' ocs
    | None => []
    end
  | TrJoined rs =>
    map (ch_select_row (flat_map (fun r' => tr_sub (tr_names r') cs) rs) cs)
        (tr_hzip_all (map (fun r' => tr_rows r' (tr_sub (tr_names r') cs)) rs))
  | TrComputed r' k f =>
    let cs' := tr_without k cs in
    let R := tr_rows r' cs' in
    match f cs' R with
    | Ok vs => map (ch_select_row (cs' ++ [k]) cs) (map (fun p => fst p ++ [snd p]) (combine R vs))
    | Err _ => []
    end
  end.

(* does the chunked read of an empty table yield one empty chunk (CSV) or none *)
Fixpoint tr_eb (r : tr_reader) : bool :=
  match r with
  | TrFrame _ => false
  | TrCsv _ => true
  | TrParquet _ _ _ => false
  | TrMapped r' _ => tr_eb r'
  | TrJoined rs => match rs with [] => false | r0 :: rs' => fold_left andb (map tr_eb rs') (tr_eb r0) end
  | TrComputed r' _ _ => tr_eb r'
  end.

(* well-formed readers (for chunk size c):  tables are tables; a Parquet file has at least one column (pyarrow
   keeps no rows for a table without columns) and the batch oracle keeps its contract for a non-empty projection
   (the reader never asks pyarrow for an empty one: columns=[] reads the first column and drops it); renaming keeps
   names distinct; joined members have the same number of rows and distinct names; a computed column has a fresh
   name and its function works row by row *)
Inductive tr_wf (c : nat) : tr_reader -> Prop :=
| wf_frame t : tb_wf t -> tr_wf c (TrFrame t)
| wf_csv t : tb_wf t -> tr_wf c (TrCsv t)
| wf_parquet t bl bl0 : tb_wf t -> tb_names t <> [] -> ch_batches_ok c (length (tb_rows t)) bl ->
                        tr_wf c (TrParquet t bl bl0)
| wf_mapped r m : tr_wf c r -> NoDup (map (tr_rename m) (tr_names r)) -> tr_wf c (TrMapped r m)
| wf_joined rs : rs <> [] -> Forall (tr_wf c) rs ->
                 (forall r, In r rs -> tr_nrows r = tr_nrows (TrJoined rs)) ->
                 NoDup (flat_map tr_names rs) -> tr_wf c (TrJoined rs)
| wf_computed r k f g : tr_wf c r -> ~ In k (tr_names r) ->
                        (forall names rows, f names rows = Ok (map (g names) rows)) ->
                        tr_wf c (TrComputed r k f).

(* (Before the repair of the leaf readers (/repo 37b7b88, 79a1472) a predicate tr_req stood here: "every CSV / Parquet
   leaf is asked for at least one of its columns".  It is gone: an empty column list now yields all rows without columns,
   so every duplicate-free request of known columns is admissible.) *)

(* STILL NEEDED, and only for the statements that name the table a tree stands for (tr_select / tr_drows): the function
   of a computed column only sees the requested columns (the inner reader is read with columns = requested minus k), so
   it must not depend on the others — a func that looks at a column that was not requested computes something else (or
   raises KeyError) than on the whole table.  Nothing is asked of it when its column is not requested (it is not called
   then), nothing of leaves.  "chunked = whole" (tr_reader_chunks_eq_read) does not need it. *)
Inductive tr_req_inv : tr_reader -> list nat -> Prop :=
| ri_frame t cs : tr_req_inv (TrFrame t) cs
| ri_csv t cs : tr_req_inv (TrCsv t) cs
| ri_parquet t bl bl0 cs : tr_req_inv (TrParquet t bl bl0) cs
| ri_mapped r m cs ocs :
    tr_orig_cols (combine (map (tr_rename m) (tr_names r)) (tr_names r)) cs = Some ocs ->
    tr_req_inv r ocs -> tr_req_inv (TrMapped r m) cs
| ri_joined rs cs : (forall r, In r rs -> tr_req_inv r (tr_sub (tr_names r) cs)) -> tr_req_inv (TrJoined rs) cs
| ri_computed r k f cs :
    (In k cs -> f (tr_without k cs) (map (ch_select_row (tr_names r) (tr_without k cs)) (tr_drows r))
                = f (tr_names r) (tr_drows r)) ->
    tr_req_inv r (tr_without k cs) -> tr_req_inv (TrComputed r k f) cs.

(* shape of a chunk stream over rows R with names N: the c-chunks; an empty table gives no chunk
   or (b = true) one empty chunk *)
Definition tr_sform (c : nat) (N : list nat) (R : list (list Z)) (b : bool) : tr_gen :=
  (match R with
   | [] => if b then [ch_whole N []] else []
   | _ :: _ => ch_frames c N R
   end, None).

(* ================= list helpers ================= *)
Lemma tr_nodup_app_l {A} (a b : list A) : NoDup (a ++ b) -> NoDup a.
Proof.
  induction a as [|x a IH]; intros H; [constructor|].
  inversion H as [|? ? Hx Hn]; subst. constructor.
  - intros Hin. apply Hx. apply in_or_app. left. exact Hin.
  - apply IH. exact Hn.
Qed.

Lemma tr_nodup_app_r {A} (a b : list A) : NoDup (a ++ b) -> NoDup b.
Proof.
  induction a as [|x a IH]; intros H; [exact H|]. inversion H; subst. apply IH. assumption.
Qed.

Lemma tr_nodup_app_disj {A} (a b : list A) x : NoDup (a ++ b) -> In x a -> In x b -> False.
Proof.
  induction a as [|y a IH]; intros H Ha Hb; [destruct Ha|].
  inversion H as [|? ? Hy Hn]; subst. destruct Ha as [->|Ha].
  - apply Hy. apply in_or_app. right. exact Hb.
  - apply IH; assumption.
Qed.

Lemma tr_nodup_app_intro {A} (a b : list A) :
  NoDup a -> NoDup b -> (forall x, In x a -> In x b -> False) -> NoDup (a ++ b).
Proof.
  induction a as [|y a IH]; intros Ha Hb Hd; [exact Hb|].
  inversion Ha as [|? ? Hy Hn]; subst. simpl. constructor.
  - intros Hin. apply in_app_or in Hin. destruct Hin as [Hin|Hin]; [contradiction|].
    apply (Hd y); [left; reflexivity | exact Hin].
  - apply IH; [exact Hn | exact Hb|]. intros x Hx1 Hx2. apply (Hd x); [right; exact Hx1 | exact Hx2].
Qed.

Lemma tr_combine_skipn {A B} (l : list A) (l' : list B) n :
  skipn n (combine l l') = combine (skipn n l) (skipn n l').
Proof.
  revert l l'; induction n as [|n IH]; intros l l'; [reflexivity|].
  destruct l as [|x l]; [reflexivity|]. destruct l' as [|y l']; [simpl; destruct (skipn n l); reflexivity|].
  simpl. apply IH.
Qed.

Lemma tr_map_pointwise {A B} (f g : A -> B) l : map f l = map g l -> forall x, In x l -> f x = g x.
Proof.
  induction l as [|y l IH]; intros H x Hx; [destruct Hx|]. simpl in H. inversion H.
  destruct Hx as [->|Hx]; [assumption | apply IH; assumption].
Qed.

Lemma tr_combine_map_r {A B} (h : A -> B) (l : list A) :
  combine l (map h l) = map (fun x => (x, h x)) l.
Proof. induction l as [|x l IH]; [reflexivity|]. simpl. rewrite IH. reflexivity. Qed.

(* ---------- hzip ---------- *)
Lemma tr_hzip_length a b : length a = length b -> length (tr_hzip a b) = length a.
Proof. intros H. unfold tr_hzip. rewrite map_length, combine_length. lia. Qed.

Lemma tr_hzip_cons x a y b : tr_hzip (x :: a) (y :: b) = (x ++ y) :: tr_hzip a b.
Proof. reflexivity. Qed.

Lemma tr_hzip_firstn c a b : firstn c (tr_hzip a b) = tr_hzip (firstn c a) (firstn c b).
Proof. unfold tr_hzip. rewrite firstn_map, combine_firstn. reflexivity. Qed.

Lemma tr_hzip_skipn c a b : skipn c (tr_hzip a b) = tr_hzip (skipn c a) (skipn c b).
Proof. unfold tr_hzip. rewrite skipn_map, tr_combine_skipn. reflexivity. Qed.

Lemma tr_zip_pad_eq wa wb a b : length a = length b -> tr_zip_pad wa wb a b = tr_hzip a b.
Proof.
  revert b; induction a as [|x a IH]; intros b H.
  - destruct b; [reflexivity | discriminate].
  - destruct b as [|y b]; [discriminate|]. simpl. rewrite tr_hzip_cons. f_equal. apply IH. simpl in H. lia.
Qed.

Lemma tr_hzip_width wa wb a b :
  Forall (fun row => length row = wa) a -> Forall (fun row => length row = wb) b ->
  Forall (fun row => length row = wa + wb) (tr_hzip a b).
Proof.
  intros Ha. revert b. induction Ha as [|x a Hx Ha IH]; intros b Hb; [constructor|].
  destruct Hb as [|y b Hy Hb]; [constructor|]. rewrite tr_hzip_cons. constructor.
  - rewrite app_length. lia.
  - apply IH. exact Hb.
Qed.

(* ---------- frames built from other frames ---------- *)
Definition tr_fr_map (N' : list nat) (h : list Z -> list Z) (f : ch_frame) : ch_frame :=
  {| ch_index := ch_index f; ch_names := N'; ch_rows := map h (ch_rows f) |}.

Lemma tr_fr_map_frames c N N' h R : map (tr_fr_map N' h) (ch_frames c N R) = ch_frames c N' (map h R).
Proof.
  unfold ch_frames, ch_chunks_pos. rewrite map_length, ch_chunks_at_map, !map_map.
  apply map_ext. intros [p rs]. unfold tr_fr_map. simpl. rewrite map_length. reflexivity.
Qed.

Lemma tr_fr_map_whole N N' h R : tr_fr_map N' h (ch_whole N R) = ch_whole N' (map h R).
Proof. unfold tr_fr_map, ch_whole. simpl. rewrite map_length. reflexivity. Qed.

Lemma tr_fr_map_sform c N N' h R b :
  map (tr_fr_map N' h) (fst (tr_sform c N R b)) = fst (tr_sform c N' (map h R) b).
Proof.
  unfold tr_sform. destruct R as [|x R]; simpl.
  - destruct b; [|reflexivity]. simpl. rewrite tr_fr_map_whole. reflexivity.
  - apply (tr_fr_map_frames c N N' h (x :: R)).
Qed.

Lemma tr_frames_cons c N x R : exists f fs, ch_frames c N (x :: R) = f :: fs /\ ch_names f = N.
Proof. unfold ch_frames, ch_chunks_pos. cbn [length ch_chunks_at map]. eexists _, _. split; reflexivity. Qed.

Lemma tr_sform_names c N R b f : In f (fst (tr_sform c N R b)) -> ch_names f = N.
Proof.
  unfold tr_sform. destruct R as [|x R]; cbn [fst].
  - destruct b; [|intros []]. intros [<-|[]]. reflexivity.
  - apply ch_frames_names.
Qed.

(* ---------- df[columns] on every chunk ---------- *)
Lemma tr_sel_as_fr_map cs f :
  ch_sel cs f = tr_fr_map (ch_select_names (ch_names f) cs) (ch_select_row (ch_names f) cs) f.
Proof. reflexivity. Qed.

Lemma tr_sel_sform c N R b cs : NoDup N -> incl cs N ->
  map (ch_sel cs) (fst (tr_sform c N R b)) = fst (tr_sform c cs (map (ch_select_row N cs) R) b).
Proof.
  intros Hnd Hincl.
  rewrite <- (tr_fr_map_sform c N cs (ch_select_row N cs) R b).
  apply map_ext_in. intros f Hf. rewrite tr_sel_as_fr_map.
  rewrite (tr_sform_names c N R b f Hf). rewrite ch_select_names_id by assumption. reflexivity.
Qed.

Lemma tr_finish_sform e c N R b cs : NoDup N -> incl cs N ->
  tr_finish e (Some cs) (tr_sform c N R b) = tr_sform c cs (map (ch_select_row N cs) R) b.
Proof.
  intros Hnd Hincl. unfold tr_finish.
  destruct (fst (tr_sform c N R b)) as [|f fs] eqn:E.
  - unfold tr_sform in *. simpl in E. destruct R as [|x R].
    + destruct b; [discriminate | reflexivity].
    + destruct (tr_frames_cons c N x R) as [f [fs [Hf _]]]. rewrite Hf in E. discriminate.
  - assert (Hn : ch_names f = N) by (apply (tr_sform_names c N R b); rewrite E; left; reflexivity).
    rewrite Hn. assert (Hk : ch_known N cs = true) by (apply ch_known_incl; exact Hincl). rewrite Hk.
    rewrite <- E. rewrite tr_sel_sform by assumption. reflexivity.
Qed.

Lemma tr_select_whole e N R cs : NoDup N -> incl cs N ->
  ch_select e cs (ch_whole N R) = Ok (ch_whole cs (map (ch_select_row N cs) R)).
Proof.
  intros Hnd Hincl. unfold ch_select. simpl.
  assert (Hk : ch_known N cs = true) by (apply ch_known_incl; exact Hincl). rewrite Hk.
  rewrite tr_sel_as_fr_map. simpl. rewrite tr_fr_map_whole, ch_select_names_id by assumption. reflexivity.
Qed.

(* ---------- Parquet: iter_batches with a running offset ---------- *)
(* under the batch contract the frames are the chunks: the running offset and pos + c only differ after the last chunk *)
Lemma tr_chunks_at_nil {A} fuel c pos : @ch_chunks_at A fuel c pos [] = [].
Proof. destruct fuel; reflexivity. Qed.

Lemma tr_pq_frames_chunks c N : forall fuel pos (l : list (list Z)),
  tr_pq_frames pos N (map snd (ch_chunks_at fuel c pos l))
  = map (fun p => {| ch_index := seq (fst p) (length (snd p)); ch_names := N; ch_rows := snd p |})
        (ch_chunks_at fuel c pos l).
Proof.
  intros fuel. induction fuel as [|f IH]; intros pos l; [reflexivity|].
  destruct l as [|x l]; [reflexivity|].
  cbn [ch_chunks_at map snd fst tr_pq_frames]. f_equal.
  destruct (skipn c (x :: l)) as [|y rest] eqn:E.
  - rewrite !tr_chunks_at_nil. reflexivity.
  - assert (Hl : length (firstn c (x :: l)) = c).
    { rewrite firstn_length. assert (Hs := skipn_length c (x :: l)). rewrite E in Hs. cbn [length] in *. lia. }
    rewrite Hl. apply IH.
Qed.

Lemma tr_pq_frames_ok c N R bl : 0 < c -> ch_batches_ok c (length R) bl ->
  tr_pq_frames 0 N (ch_split_by bl R) = ch_frames c N R.
Proof.
  intros Hc Hok. rewrite (ch_split_by_chunks c Hc bl (length R) 0 R Hok) by lia.
  rewrite tr_pq_frames_chunks. reflexivity.
Qed.

(* for ANY batch lengths (short batches in the middle, empty batches): what the running offset buys *)
(* the index of every chunk starts at the number of rows of the chunks before it *)
Definition tr_continues (chs : list ch_frame) : Prop :=
  forall i f, nth_error chs i = Some f ->
    ch_index f = seq (length (flat_map ch_rows (firstn i chs))) (length (ch_rows f)).

Lemma tr_pq_frames_continues N : forall (bs : list (list (list Z))) off i f,
  nth_error (tr_pq_frames off N bs) i = Some f ->
  ch_index f = seq (off + length (flat_map ch_rows (firstn i (tr_pq_frames off N bs)))) (length (ch_rows f)).
Proof.
  intros bs. induction bs as [|b bs IH]; intros off i f Hi.
  - destruct i; discriminate.
  - cbn [tr_pq_frames] in *. destruct i as [|i].
    + inversion Hi; subst. cbn [firstn flat_map length ch_index ch_rows]. rewrite Nat.add_0_r. reflexivity.
    + cbn [nth_error] in Hi. rewrite (IH _ _ _ Hi).
      cbn [firstn flat_map ch_rows]. rewrite app_length. f_equal. lia.
Qed.

Lemma tr_pq_frames_names N bs : forall off, Forall (fun f => ch_names f = N) (tr_pq_frames off N bs).
Proof. induction bs as [|b bs IH]; intros off; cbn [tr_pq_frames]; constructor; [reflexivity | apply IH]. Qed.

Lemma tr_pq_frames_rows N bs : forall off, map ch_rows (tr_pq_frames off N bs) = bs.
Proof. induction bs as [|b bs IH]; intros off; cbn [tr_pq_frames map ch_rows]; [reflexivity|]. rewrite IH. reflexivity. Qed.

Lemma tr_pq_frames_index N : forall (bs : list (list (list Z))) off,
  flat_map ch_index (tr_pq_frames off N bs) = seq off (length (concat bs)).
Proof.
  intros bs. induction bs as [|b bs IH]; intros off; [reflexivity|].
  cbn [tr_pq_frames flat_map ch_index concat]. rewrite IH, app_length, seq_app. reflexivity.
Qed.

Lemma tr_flat_map_concat {A B} (f : A -> list B) l : flat_map f l = concat (map f l).
Proof. induction l as [|x l IH]; [reflexivity|]. simpl. rewrite IH. reflexivity. Qed.

Lemma tr_split_by_lengths {A} : forall bl (l : list A), fold_right Nat.add 0 bl = length l ->
  map (@length A) (ch_split_by bl l) = bl.
Proof.
  induction bl as [|b bl IH]; intros l H; [reflexivity|]. cbn [fold_right] in H.
  cbn [ch_split_by map]. rewrite firstn_length, IH by (rewrite skipn_length; lia). f_equal. lia.
Qed.

(* batches summing to the number of rows: the frames concatenate to the whole table, index 0..n-1 *)
Lemma tr_pq_frames_concat N R bl : fold_right Nat.add 0 bl = length R ->
  ch_concat N (tr_pq_frames 0 N (ch_split_by bl R)) = ch_whole N R.
Proof.
  intros H. unfold ch_concat, ch_whole.
  assert (Hc := ch_split_by_concat bl R H).
  f_equal.
  - rewrite tr_pq_frames_index, Hc. reflexivity.
  - destruct bl; reflexivity.
  - rewrite tr_flat_map_concat, tr_pq_frames_rows. exact Hc.
Qed.

(* df[cs] on every batch = the batches of df[cs] *)
Lemma tr_sel_pq_frames cs N : NoDup N -> incl cs N -> forall bl off (R : list (list Z)),
  map (ch_sel cs) (tr_pq_frames off N (ch_split_by bl R))
  = tr_pq_frames off cs (ch_split_by bl (map (ch_select_row N cs) R)).
Proof.
  intros Hnd Hincl bl. induction bl as [|b bl IH]; intros off R; [reflexivity|].
  cbn [ch_split_by tr_pq_frames map]. rewrite skipn_map, firstn_map, map_length, <- IH.
  f_equal. unfold ch_sel. cbn [ch_index ch_names ch_rows].
  rewrite ch_select_names_id by assumption. reflexivity.
Qed.

(* which batch lengths: a duplicate-free request of known columns of a file with columns is never an empty projection *)
Lemma tr_pq_lens_known N cs bl bl0 : N <> [] -> incl cs N -> tr_pq_lens N cs cs bl bl0 = bl.
Proof.
  intros HN Hincl. unfold tr_pq_lens. destruct cs as [|x cs]; [|reflexivity].
  destruct N; [congruence | reflexivity].
Qed.

Lemma tr_dedup_nodup l : NoDup l -> tr_dedup l = l.
Proof.
  induction l as [|x l IH]; intros H; [reflexivity|]. inversion H as [|? ? Hx Hn]; subst.
  simpl. rewrite IH by exact Hn. f_equal.
  clear IH Hn H. induction l as [|y l IHl]; [reflexivity|]. simpl.
  destruct (Nat.eqb y x) eqn:E.
  - apply Nat.eqb_eq in E. subst. exfalso. apply Hx. left. reflexivity.
  - simpl. f_equal. apply IHl. intros Hin. apply Hx. right. exact Hin.
Qed.

Lemma tr_filter_known N cs : incl cs N -> filter (fun x => ch_mem x N) cs = cs.
Proof.
  induction cs as [|x cs IH]; intros H; [reflexivity|]. simpl.
  assert (E : ch_mem x N = true) by (apply ch_mem_In; apply H; left; reflexivity). rewrite E.
  f_equal. apply IH. intros y Hy. apply H. right. exact Hy.
Qed.

(* ---------- joins ---------- *)
Lemma tr_hjoin_whole N1 R1 N2 R2 : length R1 = length R2 ->
  tr_hjoin (ch_whole N1 R1) (ch_whole N2 R2) = ch_whole (N1 ++ N2) (tr_hzip R1 R2).
Proof.
  intros H. unfold tr_hjoin, ch_whole. simpl. rewrite !seq_length.
  assert (E : Nat.ltb (length R1) (length R2) = false) by (apply Nat.ltb_ge; lia). rewrite E.
  rewrite tr_zip_pad_eq by exact H. rewrite tr_hzip_length by exact H. reflexivity.
Qed.

Lemma tr_zip_frames_chunks c N1 N2 : forall fuel pos R1 R2, length R1 = length R2 ->
  tr_zip_frames
    (map (fun p => {| ch_index := seq (fst p) (length (snd p)); ch_names := N1; ch_rows := snd p |})
         (ch_chunks_at fuel c pos R1))
    (map (fun p => {| ch_index := seq (fst p) (length (snd p)); ch_names := N2; ch_rows := snd p |})
         (ch_chunks_at fuel c pos R2))
  = map (fun p => {| ch_index := seq (fst p) (length (snd p)); ch_names := N1 ++ N2; ch_rows := snd p |})
        (ch_chunks_at fuel c pos (tr_hzip R1 R2)).
Proof.
  intros fuel. induction fuel as [|f IH]; intros pos R1 R2 H; [reflexivity|].
  destruct R1 as [|x R1]; destruct R2 as [|y R2]; try discriminate; [reflexivity|].
  rewrite tr_hzip_cons. cbn [ch_chunks_at map fst snd tr_zip_frames].
  rewrite <- !tr_hzip_cons. f_equal.
  - unfold tr_hjoin. cbn [ch_index ch_names ch_rows]. rewrite !seq_length.
    assert (Hl : length (firstn c (x :: R1)) = length (firstn c (y :: R2))) by (rewrite !firstn_length; lia).
    assert (E : Nat.ltb (length (firstn c (x :: R1))) (length (firstn c (y :: R2))) = false)
      by (apply Nat.ltb_ge; lia).
    rewrite E. rewrite tr_zip_pad_eq by exact Hl. rewrite tr_hzip_firstn.
    rewrite tr_hzip_length by exact Hl. reflexivity.
  - rewrite tr_hzip_skipn. apply IH. rewrite !skipn_length. lia.
Qed.

Lemma tr_zip_frames_frames c N1 N2 R1 R2 : length R1 = length R2 ->
  tr_zip_frames (ch_frames c N1 R1) (ch_frames c N2 R2) = ch_frames c (N1 ++ N2) (tr_hzip R1 R2).
Proof.
  intros H. unfold ch_frames, ch_chunks_pos. rewrite tr_hzip_length by exact H. rewrite <- H.
  apply tr_zip_frames_chunks. exact H.
Qed.

Lemma tr_join2_sform c N1 R1 b1 N2 R2 b2 : length R1 = length R2 ->
  tr_join2 (tr_sform c N1 R1 b1) (tr_sform c N2 R2 b2) = tr_sform c (N1 ++ N2) (tr_hzip R1 R2) (b1 && b2).
Proof.
  intros H. unfold tr_join2, tr_sform. cbn [fst snd].
  destruct R1 as [|x R1]; destruct R2 as [|y R2]; try discriminate.
  - destruct b1, b2; reflexivity.
  - rewrite tr_hzip_cons. rewrite <- tr_hzip_cons.
    rewrite (tr_zip_frames_frames c N1 N2 (x :: R1) (y :: R2) H).
    destruct (Nat.leb _ _); reflexivity.
Qed.

(* members as (names, rows, empty-chunk flag) *)
Definition tr_mem := (list nat * list (list Z) * bool)%type.
Definition tr_mN (p : tr_mem) := fst (fst p).
Definition tr_mR (p : tr_mem) := snd (fst p).
Definition tr_mb (p : tr_mem) := snd p.

Lemma tr_hjoin_fold (l : list tr_mem) : forall N0 R0,
  (forall p, In p l -> length (tr_mR p) = length R0) ->
  fold_left tr_hjoin (map (fun p => ch_whole (tr_mN p) (tr_mR p)) l) (ch_whole N0 R0)
  = ch_whole (N0 ++ flat_map tr_mN l) (fold_left tr_hzip (map tr_mR l) R0).
Proof.
  induction l as [|p l IH]; intros N0 R0 H.
  - simpl. rewrite app_nil_r. reflexivity.
  - simpl. rewrite tr_hjoin_whole by (symmetry; apply H; left; reflexivity).
    rewrite IH.
    + rewrite <- app_assoc. reflexivity.
    + intros q Hq. rewrite tr_hzip_length by (symmetry; apply H; left; reflexivity).
      apply H. right. exact Hq.
Qed.

Lemma tr_join2_fold c (l : list tr_mem) : forall N0 R0 b0,
  (forall p, In p l -> length (tr_mR p) = length R0) ->
  fold_left tr_join2 (map (fun p => tr_sform c (tr_mN p) (tr_mR p) (tr_mb p)) l) (tr_sform c N0 R0 b0)
  = tr_sform c (N0 ++ flat_map tr_mN l) (fold_left tr_hzip (map tr_mR l) R0) (fold_left andb (map tr_mb l) b0).
Proof.
  induction l as [|p l IH]; intros N0 R0 b0 H.
  - simpl. rewrite app_nil_r. reflexivity.
  - simpl. rewrite tr_join2_sform by (symmetry; apply H; left; reflexivity).
    rewrite IH.
    + rewrite <- app_assoc. reflexivity.
    + intros q Hq. rewrite tr_hzip_length by (symmetry; apply H; left; reflexivity).
      apply H. right. exact Hq.
Qed.

Lemma tr_hzip_fold_length (l : list (list (list Z))) : forall R0,
  (forall R, In R l -> length R = length R0) -> length (fold_left tr_hzip l R0) = length R0.
Proof.
  induction l as [|R l IH]; intros R0 H; [reflexivity|]. simpl.
  rewrite IH.
  - apply tr_hzip_length. symmetry. apply H. left. reflexivity.
  - intros R' HR'. rewrite tr_hzip_length by (symmetry; apply H; left; reflexivity). apply H. right. exact HR'.
Qed.

Lemma tr_seq_map_ok {A B} (f : A -> result B) (g : A -> B) l :
  (forall x, In x l -> f x = Ok (g x)) -> tr_seq (map f l) = Ok (map g l).
Proof.
  induction l as [|x l IH]; intros H; [reflexivity|]. simpl.
  rewrite (H x) by (left; reflexivity). rewrite IH by (intros y Hy; apply H; right; exact Hy). reflexivity.
Qed.

(* ---------- more helpers ---------- *)
Lemma tr_flat_map_map {A B C} (g : A -> B) (f : B -> list C) l : flat_map f (map g l) = flat_map (fun x => f (g x)) l.
Proof. induction l as [|x l IH]; [reflexivity|]. simpl. rewrite IH. reflexivity. Qed.

Lemma tr_flat_map_filter {A} (p : nat -> bool) (F : A -> list nat) l :
  flat_map (fun x => filter p (F x)) l = filter p (flat_map F l).
Proof. induction l as [|x l IH]; [reflexivity|]. simpl. rewrite filter_app, IH. reflexivity. Qed.

Lemma tr_sform_false c N R : tr_sform c N R false = (ch_frames c N R, None).
Proof. destruct R; reflexivity. Qed.

Lemma tr_sform_eta c N R b : tr_sform c N R b = (fst (tr_sform c N R b), None).
Proof. reflexivity. Qed.

Lemma tr_csv_frames_sform c N R : tr_csv_frames c N R = fst (tr_sform c N R true).
Proof. destruct R; reflexivity. Qed.

Lemma tr_sub_nodup N cs : NoDup N -> NoDup (tr_sub N cs).
Proof. intros H. unfold tr_sub. apply NoDup_filter. exact H. Qed.

Lemma tr_sub_incl N cs : incl (tr_sub N cs) N.
Proof. unfold tr_sub. apply incl_filter. Qed.

Lemma tr_sub_In N cs x : In x (tr_sub N cs) <-> In x N /\ In x cs.
Proof. unfold tr_sub. rewrite filter_In, ch_mem_In. reflexivity. Qed.

Lemma tr_without_In k cs x : In x (tr_without k cs) <-> In x cs /\ x <> k.
Proof.
  unfold tr_without. rewrite filter_In. split; intros [H1 H2]; split; try exact H1.
  - intros E. subst. rewrite Nat.eqb_refl in H2. discriminate.
  - apply Bool.negb_true_iff. apply Nat.eqb_neq. exact H2.
Qed.

Lemma tr_without_id k cs : ~ In k cs -> tr_without k cs = cs.
Proof.
  intros H. unfold tr_without. induction cs as [|x cs IH]; [reflexivity|]. simpl.
  destruct (Nat.eqb x k) eqn:E.
  - apply Nat.eqb_eq in E. exfalso. apply H. left. exact E.
  - simpl. f_equal. apply IH. intros Hin. apply H. right. exact Hin.
Qed.

Lemma tr_without_nodup k cs : NoDup cs -> NoDup (tr_without k cs).
Proof. intros H. unfold tr_without. apply NoDup_filter. exact H. Qed.

(* ---------- ColumnMappedReader: the reverse map ---------- *)
Lemma tr_rev_lookup_spec rn N c o :
  tr_rev_lookup c (combine (map rn N) N) = Some o -> In o N /\ rn o = c.
Proof.
  induction N as [|n N IH]; intros H; [discriminate|]. simpl in H.
  destruct (tr_rev_lookup c (combine (map rn N) N)) as [o'|] eqn:E.
  - inversion H; subst. destruct (IH eq_refl) as [Hin Hrn]. split; [right; exact Hin | exact Hrn].
  - destruct (Nat.eqb (rn n) c) eqn:E2; [|discriminate]. inversion H; subst.
    apply Nat.eqb_eq in E2. split; [left; reflexivity | exact E2].
Qed.

Lemma tr_rev_lookup_total rn N o : NoDup (map rn N) -> In o N ->
  tr_rev_lookup (rn o) (combine (map rn N) N) = Some o.
Proof.
  induction N as [|n N IH]; intros Hnd Hin; [destruct Hin|]. simpl in Hnd. inversion Hnd as [|? ? Hn Hnd']; subst.
  simpl. destruct Hin as [->|Hin].
  - destruct (tr_rev_lookup (rn o) (combine (map rn N) N)) as [o'|] eqn:E.
    + apply tr_rev_lookup_spec in E. destruct E as [Hin' Hrn]. exfalso. apply Hn.
      rewrite <- Hrn. apply in_map. exact Hin'.
    + rewrite Nat.eqb_refl. reflexivity.
  - rewrite (IH Hnd' Hin). reflexivity.
Qed.

Lemma tr_orig_cols_spec rn N cs ocs :
  tr_orig_cols (combine (map rn N) N) cs = Some ocs -> map rn ocs = cs /\ incl ocs N.
Proof.
  revert ocs; induction cs as [|c cs IH]; intros ocs H.
  - inversion H. split; [reflexivity | intros x []].
  - simpl in H. destruct (tr_rev_lookup c (combine (map rn N) N)) as [o|] eqn:E; [|discriminate].
    destruct (tr_orig_cols (combine (map rn N) N) cs) as [os|] eqn:E2; [|discriminate].
    inversion H; subst. destruct (IH os eq_refl) as [Hm Hi]. apply tr_rev_lookup_spec in E.
    destruct E as [Hin Hrn]. split.
    + simpl. rewrite Hrn, Hm. reflexivity.
    + intros x [<-|Hx]; [exact Hin | apply Hi; exact Hx].
Qed.

(* every request within the renamed names can be served *)
Lemma tr_orig_cols_total rn N cs : NoDup (map rn N) -> incl cs (map rn N) ->
  exists ocs, tr_orig_cols (combine (map rn N) N) cs = Some ocs.
Proof.
  intros Hnd. induction cs as [|c cs IH]; intros Hincl; [exists []; reflexivity|].
  destruct IH as [os Hos]; [intros x Hx; apply Hincl; right; exact Hx|].
  assert (Hc : In c (map rn N)) by (apply Hincl; left; reflexivity).
  apply in_map_iff in Hc. destruct Hc as [o [<- Ho]].
  exists (o :: os). simpl. rewrite (tr_rev_lookup_total rn N o Hnd Ho), Hos. reflexivity.
Qed.

Lemma tr_rename_sform m c N R b :
  map (tr_rename_frame m) (fst (tr_sform c N R b)) = fst (tr_sform c (map (tr_rename m) N) R b).
Proof.
  rewrite <- (map_id R) at 2.
  rewrite <- (tr_fr_map_sform c N (map (tr_rename m) N) (fun x => x) R b).
  apply map_ext_in. intros f Hf. unfold tr_rename_frame, tr_fr_map.
  rewrite (tr_sform_names c N R b f Hf), map_id. reflexivity.
Qed.

(* ---------- ComputedTabularDataReader: a row-wise function commutes with chunking ---------- *)
Section Computed.
Variable k : nat.
Variable f : list nat -> list (list Z) -> result (list Z).
Variable g : list nat -> list Z -> Z.
Hypothesis f_rowwise : forall names rows, f names rows = Ok (map (g names) rows).

Definition tr_ext (N : list nat) (row : list Z) : list Z := row ++ [g N row].

Lemma tr_add_col_rowwise fr :
  tr_add_col k f fr = Ok (tr_fr_map (ch_names fr ++ [k]) (tr_ext (ch_names fr)) fr).
Proof.
  unfold tr_add_col. rewrite f_rowwise, map_length, Nat.eqb_refl.
  unfold tr_fr_map. rewrite tr_combine_map_r, map_map. reflexivity.
Qed.

(* the computed column is requested: func is called on every chunk *)
Lemma tr_compute_frames_rowwise cs N fs tl :
  (forall fr, In fr fs -> ch_names fr = N) -> ch_mem k cs = true -> ch_known (N ++ [k]) cs = true ->
  tr_compute_frames k f cs fs tl = (map (fun fr => ch_sel cs (tr_fr_map (N ++ [k]) (tr_ext N) fr)) fs, tl).
Proof.
  intros HN Hm Hk. induction fs as [|fr fs IH]; [reflexivity|].
  cbn [tr_compute_frames]. rewrite Hm, tr_add_col_rowwise.
  rewrite (HN fr) by (left; reflexivity). cbn [tr_fr_map ch_names]. rewrite Hk.
  rewrite IH by (intros x Hx; apply HN; right; exact Hx). reflexivity.
Qed.

(* the computed column is not requested: func is not called, every chunk is df[columns] of the inner chunk *)
Lemma tr_compute_frames_skip cs N fs tl :
  (forall fr, In fr fs -> ch_names fr = N) -> ch_mem k cs = false -> ch_known N cs = true ->
  tr_compute_frames k f cs fs tl = (map (ch_sel cs) fs, tl).
Proof.
  intros HN Hm Hk. induction fs as [|fr fs IH]; [reflexivity|].
  cbn [tr_compute_frames]. rewrite Hm.
  rewrite (HN fr) by (left; reflexivity). rewrite Hk.
  rewrite IH by (intros x Hx; apply HN; right; exact Hx). reflexivity.
Qed.

(* df[cs] of a row extended by a new last column k that is not requested = df[cs] of the row *)
Lemma tr_select_row_ext_skip N cs (row : list Z) v : length row = length N -> ~ In k cs ->
  ch_select_row (N ++ [k]) cs (row ++ [v]) = ch_select_row N cs row.
Proof.
  intros Hl Hk. apply ch_select_row_ext. intros x Hx.
  rewrite ch_pick_app by exact Hl.
  rewrite (ch_pick_notin x [k]) by (intros [E|[]]; apply Hk; rewrite E; exact Hx).
  apply app_nil_r.
Qed.

Lemma tr_select_ext_skip N cs (R : list (list Z)) : Forall (fun row => length row = length N) R -> ~ In k cs ->
  map (ch_select_row (N ++ [k]) cs) (map (tr_ext N) R) = map (ch_select_row N cs) R.
Proof.
  intros HR Hk. rewrite map_map. apply map_ext_in. intros row Hrow. rewrite Forall_forall in HR.
  unfold tr_ext. apply tr_select_row_ext_skip; [apply HR; exact Hrow | exact Hk].
Qed.

(* (the rows must have the width of N: otherwise the new last cell is not the cell under k) *)
Lemma tr_compute_sform c cs N R b : NoDup N -> ~ In k N -> incl cs (N ++ [k]) ->
  Forall (fun row => length row = length N) R ->
  tr_compute_frames k f cs (fst (tr_sform c N R b)) None
  = tr_sform c cs (map (ch_select_row (N ++ [k]) cs) (map (tr_ext N) R)) b.
Proof.
  intros Hnd Hk Hincl HR.
  assert (Hnd2 : NoDup (N ++ [k])).
  { apply tr_nodup_app_intro; [exact Hnd | repeat constructor; intros [] |].
    intros x Hx [<-|[]]. contradiction. }
  destruct (ch_mem k cs) eqn:Hm.
  - rewrite (tr_compute_frames_rowwise cs N).
    + rewrite <- map_map. rewrite tr_fr_map_sform. rewrite tr_sel_sform by assumption. reflexivity.
    + intros fr Hfr. apply (tr_sform_names c N R b). exact Hfr.
    + exact Hm.
    + apply ch_known_incl. exact Hincl.
  - apply ch_mem_false in Hm.
    assert (Hincl' : incl cs N).
    { intros x Hx. assert (Hx' := Hincl x Hx). apply in_app_or in Hx'.
      destruct Hx' as [Hx'|[E|[]]]; [exact Hx'|]. exfalso. apply Hm. rewrite E. exact Hx. }
    rewrite (tr_compute_frames_skip cs N).
    + rewrite tr_sel_sform by assumption. rewrite tr_select_ext_skip by assumption. reflexivity.
    + intros fr Hfr. apply (tr_sform_names c N R b). exact Hfr.
    + apply ch_mem_false. exact Hm.
    + apply ch_known_incl. exact Hincl'.
Qed.

(* columns=None: every chunk gets the computed column *)
Lemma tr_compute_frames_all_rowwise N fs tl :
  (forall fr, In fr fs -> ch_names fr = N) ->
  tr_compute_frames_all k f fs tl = (map (tr_fr_map (N ++ [k]) (tr_ext N)) fs, tl).
Proof.
  intros HN. induction fs as [|fr fs IH]; [reflexivity|].
  cbn [tr_compute_frames_all]. rewrite tr_add_col_rowwise.
  rewrite (HN fr) by (left; reflexivity).
  rewrite IH by (intros x Hx; apply HN; right; exact Hx). reflexivity.
Qed.

Lemma tr_compute_all_sform c N R b :
  tr_compute_frames_all k f (fst (tr_sform c N R b)) None = tr_sform c (N ++ [k]) (map (tr_ext N) R) b.
Proof.
  rewrite (tr_compute_frames_all_rowwise N).
  - rewrite tr_fr_map_sform. reflexivity.
  - intros fr Hfr. apply (tr_sform_names c N R b). exact Hfr.
Qed.

Lemma tr_rows_computed r cs :
  tr_rows (TrComputed r k f) cs
  = map (ch_select_row (tr_without k cs ++ [k]) cs)
        (map (tr_ext (tr_without k cs)) (tr_rows r (tr_without k cs))).
Proof.
  cbn [tr_rows]. rewrite f_rowwise, tr_combine_map_r. f_equal. rewrite map_map. reflexivity.
Qed.

Lemma tr_drows_computed r :
  tr_drows (TrComputed r k f) = map (tr_ext (tr_names r)) (tr_drows r).
Proof. cbn [tr_drows]. rewrite f_rowwise, tr_combine_map_r, map_map. reflexivity. Qed.
End Computed.

(* ---------- names of well-formed readers are distinct ---------- *)
Lemma tr_wf_names_nodup c r : tr_wf c r -> NoDup (tr_names r).
Proof.
  intros H. induction H as [t Ht|t Ht|t bl bl0 Ht Hne0 Hb|r m Hr IH Hnd|rs Hne Hall Hn Hnd|r k f g Hr IH Hk Hf];
    cbn [tr_names]; try (apply Ht); try assumption.
  apply tr_nodup_app_intro; [exact IH | repeat constructor; intros [] |].
  intros x Hx [<-|[]]. contradiction.
Qed.

Lemma tr_hzip_fold_width (l : list tr_mem) : forall N0 R0,
  Forall (fun row => length row = length N0) R0 ->
  (forall p, In p l -> Forall (fun row => length row = length (tr_mN p)) (tr_mR p)) ->
  Forall (fun row => length row = length (N0 ++ flat_map tr_mN l)) (fold_left tr_hzip (map tr_mR l) R0).
Proof.
  induction l as [|p l IH]; intros N0 R0 H0 H.
  - simpl. rewrite app_nil_r. exact H0.
  - simpl. rewrite app_assoc. apply IH.
    + rewrite app_length. apply tr_hzip_width; [exact H0 | apply H; left; reflexivity].
    + intros q Hq. apply H. right. exact Hq.
Qed.

(* ================= stage 1: the model agrees with tr_rows, chunked and whole ================= *)
Definition tr_stage1 (c : nat) (r : tr_reader) : Prop :=
  forall cs, NoDup cs -> incl cs (tr_names r) ->
    tr_read r (Some cs) = Ok (ch_whole cs (tr_rows r cs))
    /\ tr_stream r c (Some cs) = tr_sform c cs (tr_rows r cs) (tr_eb r)
    /\ length (tr_rows r cs) = tr_nrows r
    /\ Forall (fun row => length row = length cs) (tr_rows r cs).

Lemma tr_leaf_widths N (R : list (list Z)) cs : NoDup N -> Forall (fun row => length row = length N) R -> incl cs N ->
  Forall (fun row => length row = length cs) (map (ch_select_row N cs) R).
Proof.
  intros Hnd HR Hincl. apply Forall_map. apply Forall_forall. intros row Hrow.
  rewrite Forall_forall in HR. apply ch_select_row_length; [exact Hnd | apply HR; exact Hrow | exact Hincl].
Qed.

Lemma tr_stage1_frame c t : 0 < c -> tr_wf c (TrFrame t) -> tr_stage1 c (TrFrame t).
Proof.
  intros Hc Hwf cs Hnd Hincl. inversion Hwf as [t' [Hn Hr]| | | | |]; subst.
  cbn [tr_names] in Hincl. repeat split.
  - cbn [tr_read tr_rows]. apply tr_select_whole; assumption.
  - cbn [tr_stream tr_rows tr_eb].
    assert (E : Nat.eqb c 0 = false) by (apply Nat.eqb_neq; lia). rewrite E.
    rewrite <- tr_sform_false. apply tr_finish_sform; assumption.
  - cbn [tr_rows tr_nrows]. apply map_length.
  - cbn [tr_rows]. apply tr_leaf_widths; assumption.
Qed.

Lemma tr_stage1_csv c t : 0 < c -> tr_wf c (TrCsv t) -> tr_stage1 c (TrCsv t).
Proof.
  intros Hc Hwf cs Hnd Hincl. inversion Hwf as [|t' [Hn Hr]| | | |]; subst.
  cbn [tr_names] in Hincl. repeat split.
  - cbn [tr_read tr_rows]. apply tr_select_whole; assumption.
  - cbn [tr_stream tr_rows tr_eb].
    assert (E : Nat.eqb c 0 = false) by (apply Nat.eqb_neq; lia). rewrite E.
    assert (Hk : ch_known (tb_names t) cs = true) by (apply ch_known_incl; exact Hincl). rewrite Hk.
    rewrite tr_csv_frames_sform, tr_sel_sform by assumption. reflexivity.
  - cbn [tr_rows tr_nrows]. apply map_length.
  - cbn [tr_rows]. apply tr_leaf_widths; assumption.
Qed.

Lemma tr_stage1_parquet c t bl bl0 : 0 < c -> tr_wf c (TrParquet t bl bl0) -> tr_stage1 c (TrParquet t bl bl0).
Proof.
  intros Hc Hwf cs Hnd Hincl. inversion Hwf as [| |t' bl' bl0' [Hn Hr] Hne Hb| | |]; subst.
  cbn [tr_names] in Hincl. repeat split.
  - cbn [tr_read tr_rows]. apply tr_select_whole; assumption.
  - cbn [tr_stream tr_rows tr_eb].
    assert (E : Nat.eqb c 0 = false) by (apply Nat.eqb_neq; lia). rewrite E.
    rewrite tr_filter_known by exact Hincl. rewrite tr_dedup_nodup by exact Hnd.
    rewrite tr_pq_lens_known by assumption.
    rewrite (tr_pq_frames_ok c) by assumption.
    rewrite ch_sel_frames, ch_select_names_id by assumption.
    rewrite tr_sform_false. reflexivity.
  - cbn [tr_rows tr_nrows]. apply map_length.
  - cbn [tr_rows]. apply tr_leaf_widths; assumption.
Qed.

Lemma tr_stage1_mapped c r m : 0 < c -> tr_stage1 c r -> tr_wf c (TrMapped r m) -> tr_stage1 c (TrMapped r m).
Proof.
  intros Hc IH Hwf cs Hnd Hincl.
  inversion Hwf as [| | |r' m' Hr Hndm| |]; subst.
  cbn [tr_names] in Hincl.
  destruct (tr_orig_cols_total (tr_rename m) (tr_names r) cs Hndm Hincl) as [ocs Horig].
  destruct (tr_orig_cols_spec _ _ _ _ Horig) as [Hmap Hio].
  assert (Hndo : NoDup ocs) by (apply (NoDup_map_inv (tr_rename m)); rewrite Hmap; exact Hnd).
  destruct (IH ocs Hndo Hio) as [Hread [Hstream [Hlen Hw]]].
  repeat split.
  - cbn [tr_read tr_rows]. rewrite Horig, Hread. unfold tr_rename_frame, ch_whole. simpl. rewrite Hmap. reflexivity.
  - cbn [tr_stream tr_rows tr_eb]. rewrite Horig, Hstream. cbn [snd].
    rewrite tr_rename_sform, Hmap. reflexivity.
  - cbn [tr_rows tr_nrows]. rewrite Horig. exact Hlen.
  - cbn [tr_rows]. rewrite Horig. rewrite <- Hmap, map_length. exact Hw.
Qed.

Lemma tr_stage1_computed c r k f : 0 < c -> tr_stage1 c r -> tr_wf c (TrComputed r k f) ->
  tr_stage1 c (TrComputed r k f).
Proof.
  intros Hc IH Hwf cs Hnd Hincl.
  inversion Hwf as [| | | | |r' k' f' g Hr Hk Hf]; subst.
  cbn [tr_names] in Hincl.
  set (cs' := tr_without k cs) in *.
  assert (Hnd' : NoDup cs') by (apply tr_without_nodup; exact Hnd).
  assert (Hincl' : incl cs' (tr_names r)).
  { intros x Hx. apply tr_without_In in Hx. destruct Hx as [Hx Hne].
    apply Hincl in Hx. apply in_app_or in Hx. destruct Hx as [Hx|[Hx|[]]]; [exact Hx | congruence]. }
  assert (Hk' : ~ In k cs') by (intros Hx; apply tr_without_In in Hx; destruct Hx; congruence).
  assert (Hcs : incl cs (cs' ++ [k])).
  { intros x Hx. destruct (Nat.eq_dec x k) as [->|Hne].
    - apply in_or_app. right. left. reflexivity.
    - apply in_or_app. left. apply tr_without_In. split; assumption. }
  assert (Hnd2 : NoDup (cs' ++ [k])).
  { apply tr_nodup_app_intro; [exact Hnd' | repeat constructor; intros [] |].
    intros x Hx [<-|[]]. contradiction. }
  destruct (IH cs' Hnd' Hincl') as [Hread [Hstream [Hlen Hw]]].
  rewrite (tr_rows_computed k f g Hf).
  repeat split.
  - cbn [tr_read]. fold cs'. rewrite Hread. destruct (ch_mem k cs) eqn:Hm.
    + rewrite (tr_add_col_rowwise k f g Hf).
      cbn [ch_names ch_whole]. rewrite tr_fr_map_whole. apply tr_select_whole; assumption.
    + (* the computed column is not requested: func is not called *)
      apply ch_mem_false in Hm.
      assert (Hcs' : incl cs cs').
      { intros x Hx. apply tr_without_In. split; [exact Hx|]. intros E. apply Hm. rewrite <- E. exact Hx. }
      rewrite (tr_select_ext_skip k g cs' cs _ Hw Hm). apply tr_select_whole; assumption.
  - cbn [tr_stream tr_eb]. fold cs'. rewrite Hstream. cbn [snd].
    apply (tr_compute_sform k f g Hf); assumption.
  - rewrite !map_length. exact Hlen.
  - apply tr_leaf_widths; [exact Hnd2 | | exact Hcs].
    apply Forall_map. rewrite Forall_forall in *. intros row Hrow. unfold tr_ext.
    rewrite !app_length. simpl. rewrite (Hw row Hrow). reflexivity.
Qed.

Definition tr_member (cs : list nat) (r : tr_reader) : tr_mem :=
  (tr_sub (tr_names r) cs, tr_rows r (tr_sub (tr_names r) cs), tr_eb r).

Lemma tr_stage1_joined c rs : 0 < c -> Forall (fun r => tr_wf c r -> tr_stage1 c r) rs ->
  tr_wf c (TrJoined rs) -> tr_stage1 c (TrJoined rs).
Proof.
  intros Hc IH Hwf cs Hnd Hincl.
  inversion Hwf as [| | | |rs' Hne Hall Hn Hndn|]; subst.
  cbn [tr_names] in Hincl.
  (* facts about every member *)
  assert (Hmem : forall r, In r rs ->
            tr_read r (Some (tr_sub (tr_names r) cs)) = Ok (ch_whole (tr_mN (tr_member cs r)) (tr_mR (tr_member cs r)))
            /\ tr_stream r c (Some (tr_sub (tr_names r) cs))
               = tr_sform c (tr_mN (tr_member cs r)) (tr_mR (tr_member cs r)) (tr_mb (tr_member cs r))
            /\ length (tr_mR (tr_member cs r)) = tr_nrows (TrJoined rs)
            /\ Forall (fun row => length row = length (tr_mN (tr_member cs r))) (tr_mR (tr_member cs r))).
  { intros r Hr. rewrite Forall_forall in IH, Hall.
    assert (Hwr := Hall r Hr).
    destruct (IH r Hr Hwr (tr_sub (tr_names r) cs)) as [H1 [H2 [H3 H4]]].
    - apply tr_sub_nodup. apply (tr_wf_names_nodup c). exact Hwr.
    - apply tr_sub_incl.
    - unfold tr_member, tr_mN, tr_mR, tr_mb. cbn [fst snd]. rewrite <- (Hn r Hr). auto. }
  destruct rs as [|r0 rs']; [congruence|].
  set (subs := flat_map (fun r' => tr_sub (tr_names r') cs) (r0 :: rs')).
  assert (Hsubs_nd : NoDup subs).
  { unfold subs, tr_sub. rewrite tr_flat_map_filter. apply NoDup_filter. exact Hndn. }
  assert (Hsubs_incl : incl cs subs).
  { intros x Hx. unfold subs, tr_sub. rewrite tr_flat_map_filter. apply filter_In. split.
    - apply Hincl. exact Hx.
    - apply ch_mem_In. exact Hx. }
  assert (Hsubs_eq : subs = tr_mN (tr_member cs r0) ++ flat_map tr_mN (map (tr_member cs) rs')).
  { unfold subs. cbn [flat_map]. rewrite tr_flat_map_map. reflexivity. }
  assert (Hrows_eq : tr_hzip_all (map (fun r' => tr_rows r' (tr_sub (tr_names r') cs)) (r0 :: rs'))
                     = fold_left tr_hzip (map tr_mR (map (tr_member cs) rs')) (tr_mR (tr_member cs r0))).
  { cbn [map tr_hzip_all]. rewrite map_map. reflexivity. }
  assert (Hlens : forall p, In p (map (tr_member cs) rs') -> length (tr_mR p) = length (tr_mR (tr_member cs r0))).
  { intros p Hp. apply in_map_iff in Hp. destruct Hp as [r [<- Hr]].
    destruct (Hmem r (or_intror Hr)) as [_ [_ [H3 _]]]. destruct (Hmem r0 (or_introl eq_refl)) as [_ [_ [H3' _]]].
    rewrite H3, H3'. reflexivity. }
  assert (Htr : tr_rows (TrJoined (r0 :: rs')) cs
                = map (ch_select_row subs cs)
                      (fold_left tr_hzip (map tr_mR (map (tr_member cs) rs')) (tr_mR (tr_member cs r0)))).
  { cbn [tr_rows]. fold subs. rewrite Hrows_eq. reflexivity. }
  rewrite Htr.
  repeat split.
  - cbn [tr_read].
    rewrite (tr_seq_map_ok _ (fun r' => ch_whole (tr_mN (tr_member cs r')) (tr_mR (tr_member cs r')))).
    2:{ intros r Hr. cbn [tr_subset]. apply (Hmem r Hr). }
    cbn [map]. rewrite <- (map_map (tr_member cs) (fun p => ch_whole (tr_mN p) (tr_mR p))).
    rewrite tr_hjoin_fold by exact Hlens.
    rewrite <- Hsubs_eq. apply tr_select_whole; assumption.
  - cbn [tr_stream].
    rewrite (map_ext_in _ (fun r' => tr_sform c (tr_mN (tr_member cs r')) (tr_mR (tr_member cs r')) (tr_mb (tr_member cs r')))).
    2:{ intros r Hr. cbn [tr_subset]. apply (Hmem r Hr). }
    cbn [map]. rewrite <- (map_map (tr_member cs) (fun p => tr_sform c (tr_mN p) (tr_mR p) (tr_mb p))).
    rewrite tr_join2_fold by exact Hlens.
    rewrite <- Hsubs_eq. rewrite tr_finish_sform by assumption.
    cbn [tr_eb]. rewrite (map_map (tr_member cs) tr_mb). reflexivity.
  - rewrite map_length. rewrite tr_hzip_fold_length.
    + apply (Hmem r0). left. reflexivity.
    + intros R HR. apply in_map_iff in HR. destruct HR as [p [<- Hp]]. apply Hlens. exact Hp.
  - apply tr_leaf_widths; [exact Hsubs_nd | | exact Hsubs_incl].
    rewrite Hsubs_eq. apply tr_hzip_fold_width.
    + apply (Hmem r0). left. reflexivity.
    + intros p Hp. apply in_map_iff in Hp. destruct Hp as [r [<- Hr]]. apply (Hmem r). right. exact Hr.
Qed.

Theorem tr_stage1_all c : 0 < c -> forall r, tr_wf c r -> tr_stage1 c r.
Proof.
  intros Hc r. induction r as [t|t|t bl bl0|r m IH|rs IH|r k f IH] using tr_reader_ind'; intros Hwf.
  - apply tr_stage1_frame; assumption.
  - apply tr_stage1_csv; assumption.
  - apply tr_stage1_parquet; assumption.
  - apply tr_stage1_mapped; [exact Hc | | exact Hwf]. apply IH. inversion Hwf; assumption.
  - apply tr_stage1_joined; assumption.
  - apply tr_stage1_computed; [exact Hc | | exact Hwf]. apply IH. inversion Hwf; assumption.
Qed.

(* a computed column that is not requested costs nothing and cannot fail: func is not called, whatever it is
   (no row-wise contract needed) — reading through the computed reader is reading the inner reader *)
Theorem tr_computed_skip c r k f cs : 0 < c -> tr_wf c r -> NoDup cs -> incl cs (tr_names r) ->
  ~ In k cs ->
  tr_read (TrComputed r k f) (Some cs) = tr_read r (Some cs)
  /\ tr_stream (TrComputed r k f) c (Some cs) = tr_stream r c (Some cs).
Proof.
  intros Hc Hwf Hnd Hincl Hk.
  destruct (tr_stage1_all c Hc r Hwf cs Hnd Hincl) as [Hread [Hstream [_ Hw]]].
  assert (Hm : ch_mem k cs = false) by (apply ch_mem_false; exact Hk).
  assert (Hid : map (ch_select_row cs cs) (tr_rows r cs) = tr_rows r cs).
  { rewrite <- (map_id (tr_rows r cs)) at 2. apply map_ext_in. intros row Hrow. rewrite Forall_forall in Hw.
    apply ch_select_row_all; [exact Hnd | apply Hw; exact Hrow]. }
  split.
  - cbn [tr_read]. rewrite (tr_without_id k cs Hk), Hread, Hm.
    rewrite (tr_select_whole EKey cs (tr_rows r cs) cs Hnd (incl_refl cs)), Hid. reflexivity.
  - cbn [tr_stream]. rewrite (tr_without_id k cs Hk), Hstream. cbn [snd].
    rewrite (tr_compute_frames_skip k f cs cs).
    + rewrite (tr_sel_sform c cs (tr_rows r cs) (tr_eb r) cs Hnd (incl_refl cs)), Hid. reflexivity.
    + intros fr Hfr. apply (tr_sform_names c cs (tr_rows r cs) (tr_eb r)). exact Hfr.
    + exact Hm.
    + apply ch_known_incl. apply incl_refl.
Qed.

(* ================= stage 2: tr_rows = the requested columns of the table ================= *)
Lemma tr_flat_map_ext_in {A B} (f g : A -> list B) l : (forall x, In x l -> f x = g x) -> flat_map f l = flat_map g l.
Proof.
  induction l as [|x l IH]; intros H; [reflexivity|]. simpl.
  rewrite (H x) by (left; reflexivity). rewrite IH by (intros y Hy; apply H; right; exact Hy). reflexivity.
Qed.

Lemma tr_nodup_map_inj {A B} (f : A -> B) l a b : NoDup (map f l) -> In a l -> In b l -> f a = f b -> a = b.
Proof.
  induction l as [|x l IH]; intros Hnd Ha Hb E; [destruct Ha|].
  simpl in Hnd. inversion Hnd as [|? ? Hx Hnd']; subst.
  destruct Ha as [->|Ha]; destruct Hb as [->|Hb]; try reflexivity.
  - exfalso. apply Hx. rewrite E. apply in_map. exact Hb.
  - exfalso. apply Hx. rewrite <- E. apply in_map. exact Ha.
  - apply IH; assumption.
Qed.

Lemma tr_select_row_rename rn N ocs (row : list Z) : NoDup (map rn N) -> incl ocs N ->
  ch_select_row (map rn N) (map rn ocs) row = ch_select_row N ocs row.
Proof.
  intros Hnd Hincl. unfold ch_select_row. rewrite tr_flat_map_map.
  apply tr_flat_map_ext_in. intros o Ho. apply ch_pick_rename.
  intros n Hn. split.
  - intros E. apply (tr_nodup_map_inj rn N n o Hnd Hn (Hincl o Ho) E).
  - intros ->. reflexivity.
Qed.

(* two rows agree on the requested names *)
Definition tr_rel (cs N1 N2 : list nat) (r1 r2 : list Z) : Prop :=
  length r1 = length N1 /\ length r2 = length N2 /\ forall c, In c cs -> ch_pick c N1 r1 = ch_pick c N2 r2.

Lemma tr_rel_select cs N1 N2 R1 R2 : Forall2 (tr_rel cs N1 N2) R1 R2 ->
  map (ch_select_row N1 cs) R1 = map (ch_select_row N2 cs) R2.
Proof.
  intros H. induction H as [|r1 r2 R1 R2 [_ [_ Hr]] HR IH]; [reflexivity|]. simpl. f_equal; [|exact IH].
  apply ch_select_row_ext. exact Hr.
Qed.

Lemma tr_rel_hzip cs N1 N1' N2 N2' A A' B B' :
  Forall2 (tr_rel cs N1 N1') A A' -> Forall2 (tr_rel cs N2 N2') B B' ->
  Forall2 (tr_rel cs (N1 ++ N2) (N1' ++ N2')) (tr_hzip A B) (tr_hzip A' B').
Proof.
  intros HA. revert B B'. induction HA as [|a a' A A' [Ha [Ha' Hp]] HA IH]; intros B B' HB.
  - constructor.
  - destruct HB as [|b b' B B' [Hb [Hb' Hq]] HB]; [constructor|].
    rewrite !tr_hzip_cons. constructor; [|apply IH; exact HB].
    repeat split.
    + rewrite !app_length. lia.
    + rewrite !app_length. lia.
    + intros c Hc. rewrite !ch_pick_app by assumption. rewrite (Hp c Hc), (Hq c Hc). reflexivity.
Qed.

Lemma tr_rel_fold {A} cs (sN dN : A -> list nat) (sR dR : A -> list (list Z)) (l : list A) :
  forall N0 N0' R0 R0', Forall2 (tr_rel cs N0 N0') R0 R0' ->
  (forall x, In x l -> Forall2 (tr_rel cs (sN x) (dN x)) (sR x) (dR x)) ->
  Forall2 (tr_rel cs (N0 ++ flat_map sN l) (N0' ++ flat_map dN l))
          (fold_left tr_hzip (map sR l) R0) (fold_left tr_hzip (map dR l) R0').
Proof.
  induction l as [|x l IH]; intros N0 N0' R0 R0' H0 H.
  - simpl. rewrite !app_nil_r. exact H0.
  - simpl. rewrite !app_assoc. apply IH.
    + apply tr_rel_hzip; [exact H0 | apply H; left; reflexivity].
    + intros y Hy. apply H. right. exact Hy.
Qed.

Lemma tr_rel_member cs N (D : list (list Z)) : NoDup N -> Forall (fun row => length row = length N) D ->
  Forall2 (tr_rel cs (tr_sub N cs) N) (map (ch_select_row N (tr_sub N cs)) D) D.
Proof.
  intros Hnd HD. induction HD as [|d D Hd HD IH]; [constructor|]. simpl. constructor; [|exact IH].
  assert (Hsn : NoDup (tr_sub N cs)) by (apply tr_sub_nodup; exact Hnd).
  repeat split.
  - apply ch_select_row_length; [exact Hnd | exact Hd | apply tr_sub_incl].
  - exact Hd.
  - intros c Hc. destruct (ch_mem c N) eqn:E.
    + apply ch_mem_In in E.
      rewrite <- (ch_select_names_id N (tr_sub N cs) Hnd (tr_sub_incl N cs)) at 1.
      apply ch_pick_select; [exact Hd | exact Hsn | apply tr_sub_In; split; assumption].
    + apply ch_mem_false in E. rewrite (ch_pick_notin c N d E).
      apply ch_pick_notin. intros Hin. apply tr_sub_In in Hin. apply E. apply Hin.
Qed.

(* the table of a well-formed reader is rectangular and has tr_nrows rows *)
Lemma tr_den_wf c r : tr_wf c r ->
  Forall (fun row => length row = length (tr_names r)) (tr_drows r) /\ length (tr_drows r) = tr_nrows r.
Proof.
  induction r as [t|t|t bl bl0|r m IH|rs IH|r k f IH] using tr_reader_ind'; intros Hwf.
  - inversion Hwf as [t' [_ Hr]| | | | |]; subst. split; [exact Hr | reflexivity].
  - inversion Hwf as [|t' [_ Hr]| | | |]; subst. split; [exact Hr | reflexivity].
  - inversion Hwf as [| |t' ? ? [_ Hr] _ _| | |]; subst. split; [exact Hr | reflexivity].
  - inversion Hwf as [| | |r' m' Hr _| |]; subst. destruct (IH Hr) as [H1 H2].
    cbn [tr_names tr_drows tr_nrows]. rewrite map_length. split; assumption.
  - inversion Hwf as [| | | |rs' Hne Hall Hn Hnd|]; subst.
    destruct rs as [|r0 rs']; [congruence|].
    rewrite Forall_forall in IH, Hall.
    assert (Hm : forall r, In r (r0 :: rs') ->
              Forall (fun row => length row = length (tr_names r)) (tr_drows r)
              /\ length (tr_drows r) = tr_nrows (TrJoined (r0 :: rs'))).
    { intros r Hr. destruct (IH r Hr (Hall r Hr)) as [H1 H2]. rewrite <- (Hn r Hr). split; assumption. }
    cbn [tr_names tr_drows tr_hzip_all map flat_map]. split.
    + pose (mem := fun r : tr_reader => (tr_names r, tr_drows r, true) : tr_mem).
      assert (E1 : map tr_drows rs' = map tr_mR (map mem rs')) by (rewrite map_map; reflexivity).
      assert (E2 : flat_map tr_names rs' = flat_map tr_mN (map mem rs')) by (rewrite tr_flat_map_map; reflexivity).
      rewrite E1, E2. apply tr_hzip_fold_width.
      * apply (Hm r0). left. reflexivity.
      * intros p Hp. apply in_map_iff in Hp. destruct Hp as [r [<- Hr]]. apply (Hm r). right. exact Hr.
    + rewrite tr_hzip_fold_length.
      * apply (Hm r0). left. reflexivity.
      * intros R HR. apply in_map_iff in HR. destruct HR as [r [<- Hr]].
        destruct (Hm r (or_intror Hr)) as [_ H2]. destruct (Hm r0 (or_introl eq_refl)) as [_ H2'].
        rewrite H2, H2'. reflexivity.
  - inversion Hwf as [| | | | |r' k' f' g Hr Hk Hf]; subst. destruct (IH Hr) as [H1 H2].
    rewrite (tr_drows_computed k f g Hf). cbn [tr_names tr_nrows]. rewrite map_length. split; [|exact H2].
    apply Forall_map. rewrite Forall_forall in *. intros row Hrow. unfold tr_ext.
    rewrite !app_length. simpl. rewrite (H1 row Hrow). reflexivity.
Qed.

Definition tr_stage2 (r : tr_reader) : Prop :=
  forall cs, NoDup cs -> incl cs (tr_names r) -> tr_req_inv r cs -> tr_rows r cs = tr_select r cs.

Theorem tr_stage2_all c : forall r, tr_wf c r -> tr_stage2 r.
Proof.
  intros r. induction r as [t|t|t bl bl0|r m IH|rs IH|r k f IH] using tr_reader_ind';
    intros Hwf cs Hnd Hincl Hinv.
  - reflexivity.
  - reflexivity.
  - reflexivity.
  - inversion Hwf as [| | |r' m' Hr Hndm| |]; subst.
    inversion Hinv as [| | |r' m' cs' ocs Horig Hinv'| |]; subst.
    destruct (tr_orig_cols_spec _ _ _ _ Horig) as [Hmap Hio].
    assert (Hndo : NoDup ocs) by (apply (NoDup_map_inv (tr_rename m)); rewrite Hmap; exact Hnd).
    cbn [tr_rows]. rewrite Horig. rewrite (IH Hr ocs Hndo Hio Hinv').
    unfold tr_select. cbn [tr_names tr_drows]. apply map_ext. intros row.
    rewrite <- Hmap. symmetry. apply tr_select_row_rename; assumption.
  - inversion Hwf as [| | | |rs' Hne Hall Hn Hndn|]; subst.
    inversion Hinv as [| | | |rs' cs' Hinvs|]; subst.
    destruct rs as [|r0 rs']; [congruence|].
    rewrite Forall_forall in IH, Hall.
    assert (Hm : forall r, In r (r0 :: rs') ->
              Forall2 (tr_rel cs (tr_sub (tr_names r) cs) (tr_names r))
                      (tr_rows r (tr_sub (tr_names r) cs)) (tr_drows r)).
    { intros r Hr. assert (Hwr := Hall r Hr).
      assert (Hnr := tr_wf_names_nodup c r Hwr).
      rewrite (IH r Hr Hwr (tr_sub (tr_names r) cs)).
      - apply tr_rel_member; [exact Hnr | apply (tr_den_wf c r Hwr)].
      - apply tr_sub_nodup. exact Hnr.
      - apply tr_sub_incl.
      - apply Hinvs. exact Hr. }
    cbn [tr_rows]. unfold tr_select. cbn [tr_names tr_drows map flat_map tr_hzip_all].
    apply tr_rel_select.
    apply (tr_rel_fold cs (fun r => tr_sub (tr_names r) cs) tr_names
                       (fun r => tr_rows r (tr_sub (tr_names r) cs)) tr_drows rs').
    + apply (Hm r0). left. reflexivity.
    + intros r Hr. apply (Hm r). right. exact Hr.
  - inversion Hwf as [| | | | |r' k' f' g Hr Hk Hf]; subst.
    inversion Hinv as [| | | | |r' k' f' cs' Hfinv Hinv']; subst.
    cbn [tr_names] in Hincl.
    set (cs' := tr_without k cs) in *.
    assert (Hnd' : NoDup cs') by (apply tr_without_nodup; exact Hnd).
    assert (Hincl' : incl cs' (tr_names r)).
    { intros x Hx. apply tr_without_In in Hx. destruct Hx as [Hx Hne].
      apply Hincl in Hx. apply in_app_or in Hx. destruct Hx as [Hx|[Hx|[]]]; [exact Hx | congruence]. }
    assert (Hk' : ~ In k cs') by (intros Hx; apply tr_without_In in Hx; destruct Hx; congruence).
    assert (Hnr := tr_wf_names_nodup c r Hr).
    destruct (tr_den_wf c r Hr) as [Hw _].
    rewrite (tr_rows_computed k f g Hf). fold cs'. rewrite (IH Hr cs' Hnd' Hincl' Hinv').
    unfold tr_select. rewrite (tr_drows_computed k f g Hf). cbn [tr_names].
    destruct (in_dec Nat.eq_dec k cs) as [Hin|Hnin].
    2:{ (* the computed column is not requested: both sides are df[cs] of the inner table *)
      assert (Ecs : cs' = cs) by (apply tr_without_id; exact Hnin).
      rewrite (tr_select_ext_skip k g (tr_names r) cs (tr_drows r) Hw Hnin).
      rewrite (tr_select_ext_skip k g cs' cs _ (tr_leaf_widths _ _ _ Hnr Hw Hincl') Hnin).
      rewrite Ecs in *. rewrite map_map. apply map_ext_in. intros d Hd.
      rewrite Forall_forall in Hw.
      apply ch_select_row_all; [exact Hnd|]. apply ch_select_row_length; [exact Hnr | apply Hw; exact Hd | exact Hincl']. }
    assert (Hfinv' := Hfinv Hin). clear Hfinv. rename Hfinv' into Hfinv.
    rewrite !map_map. apply map_ext_in. intros d Hd.
    rewrite Forall_forall in Hw. assert (Hdl := Hw d Hd).
    (* the function sees only the requested columns, and does not mind *)
    rewrite !Hf in Hfinv. inversion Hfinv as [Hg]. rewrite map_map in Hg.
    assert (Hgd := tr_map_pointwise _ _ _ Hg d Hd). cbn beta in Hgd.
    unfold tr_ext. rewrite Hgd.
    apply ch_select_row_ext. intros x Hx.
    assert (Hsl : length (ch_select_row (tr_names r) cs' d) = length cs')
      by (apply ch_select_row_length; assumption).
    rewrite !ch_pick_app by assumption. f_equal.
    destruct (Nat.eq_dec x k) as [->|Hne].
    + rewrite (ch_pick_notin k cs') by exact Hk'. rewrite (ch_pick_notin k (tr_names r)) by exact Hk. reflexivity.
    + rewrite <- (ch_select_names_id (tr_names r) cs' Hnr Hincl') at 1.
      apply ch_pick_select; [exact Hdl | exact Hnd' | apply tr_without_In; split; assumption].
Qed.

(* ================= the statement about chunk lists ================= *)
(* chs is a chunked delivery (chunk size c) of the frame with names N and rows R, RangeIndex *)
Definition tr_chunked (c : nat) (N : list nat) (R : list (list Z)) (chs : list ch_frame) : Prop :=
  ch_concat N chs = ch_whole N R                                     (* rows, row order, index 0..n-1 *)
  /\ Forall (fun f => ch_names f = N) chs                            (* requested columns, requested order *)
  /\ (forall i f, nth_error chs i = Some f -> ch_index f = seq (i * c) (length (ch_rows f)))
                                                                     (* the index continues across chunks *)
  /\ (forall i f, nth_error chs i = Some f -> S i < length chs -> length (ch_rows f) = c)
  /\ (R <> [] -> map ch_rows chs = ch_chunks c R).                   (* chunk boundaries *)

Lemma tr_sform_chunked c N R b : 0 < c -> tr_chunked c N R (fst (tr_sform c N R b)).
Proof.
  intros Hc. unfold tr_sform, tr_chunked. destruct R as [|x R]; cbn [fst].
  - destruct b.
    + split; [reflexivity|]. split; [repeat constructor|]. split; [|split].
      * intros [|i] f Hi; [inversion Hi; reflexivity | destruct i; discriminate].
      * intros i f Hi Hl. simpl in Hl. lia.
      * congruence.
    + split; [reflexivity|]. split; [constructor|]. split; [|split].
      * intros i f Hi. destruct i; discriminate.
      * intros i f Hi. destruct i; discriminate.
      * congruence.
  - remember (x :: R) as R' eqn:ER. split; [|split; [|split; [|split]]].
    + apply ch_concat_frames. exact Hc.
    + apply Forall_forall. intros f Hf. apply (ch_frames_names c N R'). exact Hf.
    + intros i f Hi. rewrite ch_frames_nth in Hi by exact Hc.
      destruct (Nat.ltb (i * c) (length R')); [|discriminate]. inversion Hi. reflexivity.
    + intros i f Hi Hl.
      assert (Hi2 : nth_error (ch_chunks c R') i = Some (ch_rows f)).
      { rewrite <- ch_frames_rows with (names := N). rewrite nth_error_map, Hi. reflexivity. }
      apply (ch_chunks_full c R' i (ch_rows f) Hc Hi2).
      rewrite <- ch_frames_rows with (names := N). rewrite map_length. exact Hl.
    + intros _. apply ch_frames_rows.
Qed.

(* ================= the reader theorems ================= *)
(* for every well-formed reader tree, every chunk size >= 1 and every duplicate-free request of known columns
   (the empty request included): the chunked read succeeds and is a chunked delivery of the whole read, which is
   the requested columns (in the requested order) of the table the reader stands for.
   tr_req_inv is the one hypothesis about requests that remains: a computed function whose column is requested must
   not depend on columns that are not (it does not see them); it is empty for trees without computed readers. *)
Theorem tr_reader_ok c r cs : 0 < c -> tr_wf c r -> NoDup cs -> incl cs (tr_names r) ->
  tr_req_inv r cs ->
  exists chs, tr_chunks r c (Some cs) = Ok chs
    /\ tr_read r (Some cs) = Ok (ch_whole cs (tr_select r cs))
    /\ tr_chunked c cs (tr_select r cs) chs
    /\ length (tr_select r cs) = tr_nrows r.
Proof.
  intros Hc Hwf Hnd Hincl Hinv.
  destruct (tr_stage1_all c Hc r Hwf cs Hnd Hincl) as [Hread [Hstream [Hlen _]]].
  rewrite (tr_stage2_all c r Hwf cs Hnd Hincl Hinv) in *.
  exists (fst (tr_sform c cs (tr_select r cs) (tr_eb r))). split; [|split; [|split]].
  - unfold tr_chunks. rewrite Hstream. reflexivity.
  - exact Hread.
  - apply tr_sform_chunked. exact Hc.
  - exact Hlen.
Qed.

(* chunked = whole needs no assumption on the request beyond "known columns, none twice", and none on what computed
   functions look at, only that they work row by row: for EVERY well-formed tree *)
Theorem tr_reader_chunks_eq_read c r cs : 0 < c -> tr_wf c r -> NoDup cs -> incl cs (tr_names r) ->
  exists chs whole, tr_chunks r c (Some cs) = Ok chs /\ tr_read r (Some cs) = Ok whole
    /\ ch_names whole = cs /\ ch_index whole = seq 0 (tr_nrows r) /\ length (ch_rows whole) = tr_nrows r
    /\ tr_chunked c cs (ch_rows whole) chs.
Proof.
  intros Hc Hwf Hnd Hincl.
  destruct (tr_stage1_all c Hc r Hwf cs Hnd Hincl) as [Hread [Hstream [Hlen _]]].
  exists (fst (tr_sform c cs (tr_rows r cs) (tr_eb r))), (ch_whole cs (tr_rows r cs)).
  split; [|split; [|split; [|split; [|split]]]].
  - unfold tr_chunks. rewrite Hstream. reflexivity.
  - exact Hread.
  - reflexivity.
  - cbn [ch_whole ch_index]. rewrite Hlen. reflexivity.
  - exact Hlen.
  - apply tr_sform_chunked. exact Hc.
Qed.

(* ----- one theorem per reader kind, hypotheses spelled out ----- *)
Theorem tr_reader_frame c t cs : 0 < c -> tb_wf t -> NoDup cs -> incl cs (tb_names t) ->
  exists chs, tr_chunks (TrFrame t) c (Some cs) = Ok chs
    /\ tr_read (TrFrame t) (Some cs) = Ok (ch_whole cs (map (ch_select_row (tb_names t) cs) (tb_rows t)))
    /\ tr_chunked c cs (map (ch_select_row (tb_names t) cs) (tb_rows t)) chs.
Proof.
  intros Hc Ht Hnd Hincl.
  destruct (tr_reader_ok c (TrFrame t) cs Hc (wf_frame c t Ht) Hnd Hincl (ri_frame t cs))
    as [chs [H1 [H2 [H3 _]]]].
  exists chs. auto.
Qed.

(* (cs = [] included: all rows, no column) *)
Theorem tr_reader_csv c t cs : 0 < c -> tb_wf t -> NoDup cs -> incl cs (tb_names t) ->
  exists chs, tr_chunks (TrCsv t) c (Some cs) = Ok chs
    /\ tr_read (TrCsv t) (Some cs) = Ok (ch_whole cs (map (ch_select_row (tb_names t) cs) (tb_rows t)))
    /\ tr_chunked c cs (map (ch_select_row (tb_names t) cs) (tb_rows t)) chs.
Proof.
  intros Hc Ht Hnd Hincl.
  destruct (tr_reader_ok c (TrCsv t) cs Hc (wf_csv c t Ht) Hnd Hincl (ri_csv t cs))
    as [chs [H1 [H2 [H3 _]]]].
  exists chs. auto.
Qed.

(* Parquet: for every batch-length oracle that keeps the contract for non-empty projections (cs = [] included: the
   reader projects the first column of the file, which therefore must exist, and drops it) *)
Theorem tr_reader_parquet c t bl bl0 cs : 0 < c -> tb_wf t -> tb_names t <> [] ->
  ch_batches_ok c (length (tb_rows t)) bl -> NoDup cs -> incl cs (tb_names t) ->
  exists chs, tr_chunks (TrParquet t bl bl0) c (Some cs) = Ok chs
    /\ tr_read (TrParquet t bl bl0) (Some cs) = Ok (ch_whole cs (map (ch_select_row (tb_names t) cs) (tb_rows t)))
    /\ tr_chunked c cs (map (ch_select_row (tb_names t) cs) (tb_rows t)) chs.
Proof.
  intros Hc Ht Hne Hb Hnd Hincl.
  destruct (tr_reader_ok c (TrParquet t bl bl0) cs Hc (wf_parquet c t bl bl0 Ht Hne Hb) Hnd Hincl
                         (ri_parquet t bl bl0 cs))
    as [chs [H1 [H2 [H3 _]]]].
  exists chs. auto.
Qed.

(* Parquet WITHOUT the batch contract (what the running offset buys): for ANY batch lengths that sum to the number of
   rows — short batches in the middle, empty batches — the chunked read concatenates to the whole read (rows, row order,
   index 0..n-1), every chunk has the requested columns, the index of every chunk continues where the chunk before it
   ended, and the chunks have the lengths of the batches.  (Only "all chunks but the last have c rows" needs the contract.) *)
Theorem tr_reader_parquet_any_batches c t bl bl0 cs : 0 < c -> tb_wf t -> tb_names t <> [] ->
  fold_right Nat.add 0 bl = length (tb_rows t) -> NoDup cs -> incl cs (tb_names t) ->
  exists chs, tr_chunks (TrParquet t bl bl0) c (Some cs) = Ok chs
    /\ tr_read (TrParquet t bl bl0) (Some cs) = Ok (ch_whole cs (map (ch_select_row (tb_names t) cs) (tb_rows t)))
    /\ ch_concat cs chs = ch_whole cs (map (ch_select_row (tb_names t) cs) (tb_rows t))
    /\ Forall (fun f => ch_names f = cs) chs
    /\ tr_continues chs
    /\ map (fun f => length (ch_rows f)) chs = bl.
Proof.
  intros Hc [Hn Hr] Hne Hsum Hnd Hincl.
  set (R := map (ch_select_row (tb_names t) cs) (tb_rows t)).
  assert (HsumR : fold_right Nat.add 0 bl = length R) by (unfold R; rewrite map_length; exact Hsum).
  exists (tr_pq_frames 0 cs (ch_split_by bl R)). split; [|split; [|split; [|split; [|split]]]].
  - unfold tr_chunks. cbn [tr_stream].
    assert (E : Nat.eqb c 0 = false) by (apply Nat.eqb_neq; lia). rewrite E.
    rewrite tr_filter_known by exact Hincl. rewrite tr_dedup_nodup by exact Hnd.
    rewrite tr_pq_lens_known by assumption.
    rewrite tr_sel_pq_frames by assumption. reflexivity.
  - cbn [tr_read]. apply tr_select_whole; assumption.
  - apply tr_pq_frames_concat. exact HsumR.
  - apply tr_pq_frames_names.
  - intros i f Hi. apply (tr_pq_frames_continues cs (ch_split_by bl R) 0 i f Hi).
  - rewrite <- (map_map ch_rows (@length (list Z))), tr_pq_frames_rows. apply tr_split_by_lengths. exact HsumR.
Qed.

(* the same for columns=None *)
Theorem tr_reader_parquet_any_batches_none c t bl bl0 : 0 < c ->
  fold_right Nat.add 0 bl = length (tb_rows t) ->
  exists chs, tr_chunks (TrParquet t bl bl0) c None = Ok chs
    /\ tr_read (TrParquet t bl bl0) None = Ok (ch_whole (tb_names t) (tb_rows t))
    /\ ch_concat (tb_names t) chs = ch_whole (tb_names t) (tb_rows t)
    /\ Forall (fun f => ch_names f = tb_names t) chs
    /\ tr_continues chs
    /\ map (fun f => length (ch_rows f)) chs = bl.
Proof.
  intros Hc Hsum.
  exists (tr_pq_frames 0 (tb_names t) (ch_split_by bl (tb_rows t))). split; [|split; [|split; [|split; [|split]]]].
  - unfold tr_chunks. cbn [tr_stream].
    assert (E : Nat.eqb c 0 = false) by (apply Nat.eqb_neq; lia). rewrite E. reflexivity.
  - reflexivity.
  - apply tr_pq_frames_concat. exact Hsum.
  - apply tr_pq_frames_names.
  - intros i f Hi. apply (tr_pq_frames_continues (tb_names t) (ch_split_by bl (tb_rows t)) 0 i f Hi).
  - rewrite <- (map_map ch_rows (@length (list Z))), tr_pq_frames_rows. apply tr_split_by_lengths. exact Hsum.
Qed.

(* ColumnMappedReader over any well-formed reader: every request within the new names is served *)
Theorem tr_reader_mapped c r m cs : 0 < c -> tr_wf c r -> NoDup (map (tr_rename m) (tr_names r)) ->
  NoDup cs -> incl cs (map (tr_rename m) (tr_names r)) ->
  exists ocs, tr_orig_cols (combine (map (tr_rename m) (tr_names r)) (tr_names r)) cs = Some ocs
    /\ map (tr_rename m) ocs = cs
    /\ (tr_req_inv r ocs ->
        exists chs, tr_chunks (TrMapped r m) c (Some cs) = Ok chs
          /\ tr_read (TrMapped r m) (Some cs) = Ok (ch_whole cs (tr_select r ocs))
          /\ tr_chunked c cs (tr_select r ocs) chs).
Proof.
  intros Hc Hwf Hndm Hnd Hincl.
  destruct (tr_orig_cols_total (tr_rename m) (tr_names r) cs Hndm Hincl) as [ocs Hocs].
  destruct (tr_orig_cols_spec _ _ _ _ Hocs) as [Hmap Hio].
  exists ocs. split; [exact Hocs|]. split; [exact Hmap|]. intros Hinv.
  destruct (tr_reader_ok c (TrMapped r m) cs Hc (wf_mapped c r m Hwf Hndm) Hnd Hincl
                         (ri_mapped r m cs ocs Hocs Hinv))
    as [chs [H1 [H2 [H3 _]]]].
  assert (E : tr_select (TrMapped r m) cs = tr_select r ocs).
  { unfold tr_select. cbn [tr_names tr_drows]. apply map_ext. intros row.
    rewrite <- Hmap. apply tr_select_row_rename; assumption. }
  rewrite E in *. exists chs. auto.
Qed.

Theorem tr_reader_joined c rs cs : 0 < c -> tr_wf c (TrJoined rs) -> NoDup cs -> incl cs (flat_map tr_names rs) ->
  (forall r, In r rs -> tr_req_inv r (tr_sub (tr_names r) cs)) ->
  exists chs, tr_chunks (TrJoined rs) c (Some cs) = Ok chs
    /\ tr_read (TrJoined rs) (Some cs)
       = Ok (ch_whole cs (map (ch_select_row (flat_map tr_names rs) cs) (tr_hzip_all (map tr_drows rs))))
    /\ tr_chunked c cs (map (ch_select_row (flat_map tr_names rs) cs) (tr_hzip_all (map tr_drows rs))) chs.
Proof.
  intros Hc Hwf Hnd Hincl Hm.
  destruct (tr_reader_ok c (TrJoined rs) cs Hc Hwf Hnd Hincl (ri_joined rs cs Hm))
    as [chs [H1 [H2 [H3 _]]]].
  exists chs. auto.
Qed.

Theorem tr_reader_computed c r k f g cs : 0 < c -> tr_wf c r -> ~ In k (tr_names r) ->
  (forall names rows, f names rows = Ok (map (g names) rows)) ->
  NoDup cs -> incl cs (tr_names r ++ [k]) ->
  tr_req_inv r (tr_without k cs) ->
  f (tr_without k cs) (map (ch_select_row (tr_names r) (tr_without k cs)) (tr_drows r)) = f (tr_names r) (tr_drows r) ->
  exists chs, tr_chunks (TrComputed r k f) c (Some cs) = Ok chs
    /\ tr_read (TrComputed r k f) (Some cs)
       = Ok (ch_whole cs (map (ch_select_row (tr_names r ++ [k]) cs)
                              (map (fun row => row ++ [g (tr_names r) row]) (tr_drows r))))
    /\ tr_chunked c cs (map (ch_select_row (tr_names r ++ [k]) cs)
                            (map (fun row => row ++ [g (tr_names r) row]) (tr_drows r))) chs.
Proof.
  intros Hc Hwf Hk Hf Hnd Hincl Hinv Hfi.
  destruct (tr_reader_ok c (TrComputed r k f) cs Hc (wf_computed c r k f g Hwf Hk Hf) Hnd Hincl
                         (ri_computed r k f cs (fun _ => Hfi) Hinv))
    as [chs [H1 [H2 [H3 _]]]].
  assert (E : tr_select (TrComputed r k f) cs
              = map (ch_select_row (tr_names r ++ [k]) cs) (map (fun row => row ++ [g (tr_names r) row]) (tr_drows r))).
  { unfold tr_select. rewrite (tr_drows_computed k f g Hf). reflexivity. }
  rewrite E in *. exists chs. auto.
Qed.

(* the cell-level reading of "the requested columns in the requested order" *)
Theorem tr_select_cell c r cs : tr_wf c r -> incl cs (tr_names r) ->
  forall i row, nth_error (tr_drows r) i = Some row ->
  exists srow, nth_error (tr_select r cs) i = Some srow /\ length srow = length cs
    /\ forall j cn p, nth_error cs j = Some cn -> nth_error (tr_names r) p = Some cn ->
       nth_error srow j = nth_error row p.
Proof.
  intros Hwf Hincl i row Hi.
  assert (Hnd := tr_wf_names_nodup c r Hwf). destruct (tr_den_wf c r Hwf) as [Hw _].
  rewrite Forall_forall in Hw. assert (Hl := Hw row (nth_error_In _ _ Hi)).
  exists (ch_select_row (tr_names r) cs row). split; [|split].
  - unfold tr_select. rewrite nth_error_map, Hi. reflexivity.
  - apply ch_select_row_length; assumption.
  - intros j cn p Hj Hp. apply (ch_select_row_spec (tr_names r) cs row Hnd Hl Hincl j cn p Hj Hp).
Qed.

(* ================= columns=None: all columns, in table order ================= *)
(* every reader kind, computed readers included (after the repair of /repo: columns=None on a computed reader reads
   the inner reader with columns=None and adds the computed column, whole and chunk by chunk) *)
Definition tr_stage_none (c : nat) (r : tr_reader) : Prop :=
  tr_read r None = Ok (ch_whole (tr_names r) (tr_drows r))
  /\ tr_stream r c None = tr_sform c (tr_names r) (tr_drows r) (tr_eb r).

Theorem tr_stage_none_all c : 0 < c -> forall r, tr_wf c r -> tr_stage_none c r.
Proof.
  intros Hc r. induction r as [t|t|t bl bl0|r m IH|rs IH|r k f IH] using tr_reader_ind'; intros Hwf.
  - split; [reflexivity|]. cbn [tr_stream tr_names tr_drows tr_eb tr_finish].
    assert (E : Nat.eqb c 0 = false) by (apply Nat.eqb_neq; lia). rewrite E, tr_sform_false. reflexivity.
  - split; [reflexivity|]. cbn [tr_stream tr_names tr_drows tr_eb].
    assert (E : Nat.eqb c 0 = false) by (apply Nat.eqb_neq; lia). rewrite E, tr_csv_frames_sform. reflexivity.
  - inversion Hwf as [| |t' ? ? Ht Hne0 Hb| | |]; subst.
    split; [reflexivity|]. cbn [tr_stream tr_names tr_drows tr_eb].
    assert (E : Nat.eqb c 0 = false) by (apply Nat.eqb_neq; lia). rewrite E.
    rewrite (tr_pq_frames_ok c) by assumption. rewrite tr_sform_false. reflexivity.
  - inversion Hwf as [| | |r' m' Hr Hndm| |]; subst.
    destruct (IH Hr) as [H1 H2]. split.
    + cbn [tr_read tr_names tr_drows]. rewrite H1. reflexivity.
    + cbn [tr_stream tr_names tr_drows tr_eb]. rewrite H2. cbn [snd]. rewrite tr_rename_sform. reflexivity.
  - inversion Hwf as [| | | |rs' Hne Hall Hn Hndn|]; subst.
    destruct rs as [|r0 rs']; [congruence|].
    rewrite Forall_forall in IH, Hall.
    pose (mem := fun r : tr_reader => (tr_names r, tr_drows r, tr_eb r) : tr_mem).
    assert (Hm : forall r, In r (r0 :: rs') ->
              tr_read r None = Ok (ch_whole (tr_mN (mem r)) (tr_mR (mem r)))
              /\ tr_stream r c None = tr_sform c (tr_mN (mem r)) (tr_mR (mem r)) (tr_mb (mem r))
              /\ length (tr_mR (mem r)) = tr_nrows (TrJoined (r0 :: rs'))).
    { intros r Hr. destruct (IH r Hr (Hall r Hr)) as [H1 H2].
      destruct (tr_den_wf c r (Hall r Hr)) as [_ H3]. rewrite <- (Hn r Hr). auto. }
    assert (Hlens : forall p, In p (map mem rs') -> length (tr_mR p) = length (tr_mR (mem r0))).
    { intros p Hp. apply in_map_iff in Hp. destruct Hp as [r [<- Hr]].
      destruct (Hm r (or_intror Hr)) as [_ [_ H3]]. destruct (Hm r0 (or_introl eq_refl)) as [_ [_ H3']].
      rewrite H3, H3'. reflexivity. }
    assert (EN : tr_names (TrJoined (r0 :: rs')) = tr_mN (mem r0) ++ flat_map tr_mN (map mem rs')).
    { cbn [tr_names flat_map]. rewrite tr_flat_map_map. reflexivity. }
    assert (ER : tr_drows (TrJoined (r0 :: rs')) = fold_left tr_hzip (map tr_mR (map mem rs')) (tr_mR (mem r0))).
    { cbn [tr_drows map tr_hzip_all]. rewrite map_map. reflexivity. }
    unfold tr_stage_none. rewrite EN, ER. split.
    + cbn [tr_read].
      rewrite (tr_seq_map_ok _ (fun r' => ch_whole (tr_mN (mem r')) (tr_mR (mem r')))).
      2:{ intros r Hr. cbn [tr_subset]. apply (Hm r Hr). }
      cbn [map]. rewrite <- (map_map mem (fun p => ch_whole (tr_mN p) (tr_mR p))).
      rewrite tr_hjoin_fold by exact Hlens. reflexivity.
    + cbn [tr_stream].
      rewrite (map_ext_in _ (fun r' => tr_sform c (tr_mN (mem r')) (tr_mR (mem r')) (tr_mb (mem r')))).
      2:{ intros r Hr. cbn [tr_subset]. apply (Hm r Hr). }
      cbn [map]. rewrite <- (map_map mem (fun p => tr_sform c (tr_mN p) (tr_mR p) (tr_mb p))).
      rewrite tr_join2_fold by exact Hlens. cbn [tr_finish tr_eb].
      rewrite (map_map mem tr_mb). reflexivity.
  - (* computed: the inner reader delivers all its columns, func (row-wise) adds the new last one *)
    inversion Hwf as [| | | | |r' k' f' g Hr Hk Hf]; subst.
    destruct (IH Hr) as [H1 H2]. unfold tr_stage_none.
    rewrite (tr_drows_computed k f g Hf). cbn [tr_names tr_eb]. split.
    + cbn [tr_read]. rewrite H1. rewrite (tr_add_col_rowwise k f g Hf).
      cbn [ch_names ch_whole]. rewrite tr_fr_map_whole. reflexivity.
    + cbn [tr_stream]. rewrite H2. cbn [snd]. apply (tr_compute_all_sform k f g Hf).
Qed.

Theorem tr_reader_none c r : 0 < c -> tr_wf c r ->
  exists chs, tr_chunks r c None = Ok chs
    /\ tr_read r None = Ok (ch_whole (tr_names r) (tr_drows r))
    /\ tr_chunked c (tr_names r) (tr_drows r) chs.
Proof.
  intros Hc Hwf. destruct (tr_stage_none_all c Hc r Hwf) as [H1 H2].
  exists (fst (tr_sform c (tr_names r) (tr_drows r) (tr_eb r))). split; [|split].
  - unfold tr_chunks. rewrite H2. reflexivity.
  - exact H1.
  - apply tr_sform_chunked. exact Hc.
Qed.

(* the computed reader spelled out: all columns of the inner table, then func row by row as the last column *)
Theorem tr_reader_computed_none c r k f g : 0 < c -> tr_wf c r -> ~ In k (tr_names r) ->
  (forall names rows, f names rows = Ok (map (g names) rows)) ->
  exists chs, tr_chunks (TrComputed r k f) c None = Ok chs
    /\ tr_read (TrComputed r k f) None
       = Ok (ch_whole (tr_names r ++ [k]) (map (fun row => row ++ [g (tr_names r) row]) (tr_drows r)))
    /\ tr_chunked c (tr_names r ++ [k]) (map (fun row => row ++ [g (tr_names r) row]) (tr_drows r)) chs.
Proof.
  intros Hc Hwf Hk Hf.
  destruct (tr_reader_none c (TrComputed r k f) Hc (wf_computed c r k f g Hwf Hk Hf)) as [chs [H1 [H2 H3]]].
  rewrite (tr_drows_computed k f g Hf) in *. exists chs. auto.
Qed.
