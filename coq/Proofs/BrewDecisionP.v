(* Proofs about Model/BrewDecision.v (C07). *)
From Coq Require Import Lia.
From Mokaverif Require Import Model.Base Model.Tdc Model.PinCols Model.BrewDecision Proofs.TdcP.
Open Scope nat_scope.

(* ---------- first maximum ---------- *)
Lemma argmax_aux_spec l : forall best bi i,
  let '(ri, rm) := bd_argmax_aux best bi i l in
  best <= rm /\ (forall j, j < length l -> nth j l 0 <= rm) /\
  ((ri = bi /\ rm = best /\ forall j, j < length l -> nth j l 0 <= best) \/
   (exists j, j < length l /\ ri = i + j /\ nth j l 0 = rm /\ best < rm /\ forall j', j' < j -> nth j' l 0 < rm)).
Proof.
  induction l as [|x l IH]; intros best bi i; cbn [bd_argmax_aux].
  - split; [lia|]. split; [intros j Hj; simpl in Hj; lia|]. left.
    split; [reflexivity|]. split; [reflexivity|]. intros j Hj. simpl in Hj. lia.
  - destruct (Nat.ltb_spec best x) as [Hlt|Hge].
    + specialize (IH x i (S i)). destruct (bd_argmax_aux x i (S i) l) as [ri rm].
      destruct IH as (H1 & H2 & H3). split; [lia|]. split.
      * intros [|j] Hj; [simpl; lia|]. simpl. apply H2. simpl in Hj. lia.
      * right. destruct H3 as [(-> & -> & H3)|(j & Hj & -> & Hn & Hb & Hf)].
        -- exists 0. split; [simpl; lia|]. split; [lia|]. split; [reflexivity|]. split; [exact Hlt|]. intros j' Hj'. lia.
        -- exists (S j). split; [simpl; lia|]. split; [lia|]. split; [exact Hn|]. split; [lia|].
           intros [|j'] Hj'; [simpl; lia|]. simpl. apply Hf. lia.
    + specialize (IH best bi (S i)). destruct (bd_argmax_aux best bi (S i) l) as [ri rm].
      destruct IH as (H1 & H2 & H3). split; [lia|]. split.
      * intros [|j] Hj; [simpl; lia|]. simpl. apply H2. simpl in Hj. lia.
      * destruct H3 as [(-> & -> & H3)|(j & Hj & -> & Hn & Hb & Hf)].
        -- left. split; [reflexivity|]. split; [reflexivity|]. intros [|j] Hj; [simpl; lia|]. simpl. apply H3. simpl in Hj. lia.
        -- right. exists (S j). split; [simpl; lia|]. split; [lia|]. split; [exact Hn|]. split; [exact Hb|].
           intros [|j'] Hj'; [simpl; lia|]. simpl. apply Hf. lia.
Qed.

Lemma argmax_spec l i m : l <> [] -> bd_argmax l = (i, m) ->
  i < length l /\ nth i l 0 = m /\ (forall j, j < length l -> nth j l 0 <= m) /\ (forall j, j < i -> nth j l 0 < m).
Proof.
  destruct l as [|x l]; [congruence|]. intros _. unfold bd_argmax.
  pose proof (argmax_aux_spec l x 0 1) as H. destruct (bd_argmax_aux x 0 1 l) as [ri rm].
  intros E. injection E as <- <-. destruct H as (H1 & H2 & H3).
  destruct H3 as [(-> & -> & H3)|(j & Hj & -> & Hn & Hb & Hf)].
  - split; [simpl; lia|]. split; [reflexivity|]. split.
    + intros [|j] Hj; [simpl; lia|]. simpl. apply H3. simpl in Hj. lia.
    + intros j Hj. lia.
  - split; [simpl; lia|]. split; [simpl; exact Hn|]. split.
    + intros [|j'] Hj'; [simpl; lia|]. simpl. apply H2. simpl in Hj'. lia.
    + intros [|j'] Hj'; [simpl; lia|]. simpl. apply Hf. simpl in Hj'. lia.
Qed.

(* ---------- the fall-back decision ---------- *)
Theorem decide_spec models pt :
  match bd_decide models pt with
  | None => forallb snd models = true \/ forall j, j < length models -> fst (nth j models (0, false)) <= pt
  | Some i => forallb snd models = false /\ i < length models /\ pt < fst (nth i models (0, false)) /\
              (forall j, j < length models -> fst (nth j models (0, false)) <= fst (nth i models (0, false))) /\
              (forall j, j < i -> fst (nth j models (0, false)) < fst (nth i models (0, false)))
  end.
Proof.
  unfold bd_decide. destruct (forallb snd models) eqn:Eo; [left; reflexivity|].
  assert (models <> []) as Hne by (destruct models; [discriminate|discriminate]).
  destruct (bd_argmax (map fst models)) as [i m] eqn:Ea.
  assert (map fst models <> []) as Hne' by (destruct models; [congruence|discriminate]).
  destruct (argmax_spec _ _ _ Hne' Ea) as (Hi & Hn & Hmax & Hfirst). rewrite map_length in *.
  assert (forall j, nth j (map fst models) 0 = fst (nth j models (0, false))) as Hnm
    by (intros j; change 0 with (fst (0, false)) at 1; apply map_nth).
  rewrite Hnm in Hn. destruct (Nat.ltb_spec pt m) as [Hlt|Hge].
  - split; [reflexivity|]. split; [exact Hi|]. split; [lia|]. split.
    + intros j Hj. rewrite <- Hnm. rewrite Hn. apply Hmax. exact Hj.
    + intros j Hj. rewrite <- Hnm. rewrite Hn. apply Hfirst. exact Hj.
  - right. intros j Hj. rewrite <- Hnm. specialize (Hmax j Hj). lia.
Qed.

(* ---------- what is counted ---------- *)
Lemma count_pos_labels thr (l : list (Q * bool)) :
  bd_count_pos (map (fun qt => tdc_label thr (fst qt) (snd qt)) l)
  = length (filter (fun qt => snd qt && Qle_bool (fst qt) thr) l).
Proof.
  unfold bd_count_pos. induction l as [|[q t] l IH]; [reflexivity|]. simpl.
  unfold tdc_label at 1. destruct t; simpl; [destruct (Qle_bool q thr); simpl; rewrite IH; reflexivity|exact IH].
Qed.

(* the comparison counts exactly the genuine targets whose q-value is within the threshold *)
Theorem accepted_spec desc scores targets thr a :
  bd_accepted desc scores targets thr = Ok a ->
  length scores = length targets /\
  a = length (filter (fun qt => snd qt && Qle_bool (fst qt) thr) (combine (tdc_core desc scores targets) targets)).
Proof.
  unfold bd_accepted, update_labels.
  destruct (Nat.eqb_spec (length scores) (length targets)) as [Hl|]; simpl; [|discriminate].
  intros H. injection H as <-. split; [exact Hl|]. apply count_pos_labels.
Qed.

(* label encodings 1/-1, 1/0 and booleans of the same target vector convert to the same flags *)
Theorem encodings_agree (ts : list bool) :
  pc_convert_targets false (map (fun t : bool => if t then 1 else -1)%Z ts) = Ok ts /\
  pc_convert_targets false (map (fun t : bool => if t then 1 else 0)%Z ts) = Ok ts /\
  pc_convert_targets true (map (fun t : bool => if t then 1 else 0)%Z ts) = Ok ts.
Proof.
  unfold pc_convert_targets. repeat split.
  - replace (existsb _ _) with false.
    + f_equal. rewrite map_map. rewrite <- (map_id ts) at 2. apply map_ext. intros []; reflexivity.
    + symmetry. induction ts as [|[] ts IH]; simpl; auto.
  - replace (existsb _ _) with false.
    + f_equal. rewrite map_map. rewrite <- (map_id ts) at 2. apply map_ext. intros []; reflexivity.
    + symmetry. induction ts as [|[] ts IH]; simpl; auto.
  - f_equal. rewrite map_map. rewrite <- (map_id ts) at 2. apply map_ext. intros []; reflexivity.
Qed.

(* ---------- find_best_feature ---------- *)
Theorem best_feature_spec features targets thr :
  match bd_best_feature features targets thr with
  | Some (i, c, d) =>
      i < length features /\ 0 < c /\
      nth i (bd_counts d features targets thr) 0 = c /\
      forall d' j, j < length features -> nth j (bd_counts d' features targets thr) 0 <= c
  | None => features = [] \/
            forall d' j, j < length features -> nth j (bd_counts d' features targets thr) 0 = 0
  end.
Proof.
  unfold bd_best_feature. destruct features as [|f0 fr] eqn:Ef; [left; reflexivity|]. rewrite <- Ef.
  assert (forall d, bd_counts d features targets thr <> []) as Hne
    by (intros d; unfold bd_counts; rewrite Ef; discriminate).
  assert (forall d, length (bd_counts d features targets thr) = length features) as Hlen
    by (intros d; unfold bd_counts; apply map_length).
  destruct (bd_argmax (bd_counts true features targets thr)) as [i1 c1] eqn:E1.
  destruct (bd_argmax (bd_counts false features targets thr)) as [i2 c2] eqn:E2.
  destruct (argmax_spec _ _ _ (Hne true) E1) as (Hi1 & Hn1 & Hm1 & _).
  destruct (argmax_spec _ _ _ (Hne false) E2) as (Hi2 & Hn2 & Hm2 & _).
  rewrite Hlen in *.
  destruct (Nat.ltb_spec 0 c1) as [Hp1|Hz1].
  - destruct (Nat.ltb_spec c1 c2) as [Hlt|Hge].
    + split; [exact Hi2|]. split; [lia|]. split; [exact Hn2|]. intros [] j Hj; [specialize (Hm1 j Hj); lia|apply Hm2; exact Hj].
    + split; [exact Hi1|]. split; [exact Hp1|]. split; [exact Hn1|]. intros [] j Hj; [apply Hm1; exact Hj|specialize (Hm2 j Hj); lia].
  - destruct (Nat.ltb_spec 0 c2) as [Hp2|Hz2].
    + split; [exact Hi2|]. split; [exact Hp2|]. split; [exact Hn2|]. intros [] j Hj; [specialize (Hm1 j Hj); lia|apply Hm2; exact Hj].
    + right. intros [] j Hj; [specialize (Hm1 j Hj)|specialize (Hm2 j Hj)]; lia.
Qed.

(* ---------- direction: lower is better = higher is better on the negated score ---------- *)
From Coq Require Import Sorted.
From Mokaverif Require Import Model.Confidence Proofs.ConfidenceP.
Open Scope Z_scope.

Theorem lower_is_better (row : Type) (s : row -> Z) (lkey : nat -> row -> Z) c n rows :
  (1 <= c)%nat -> NoDup (map s rows) ->
  let out := cf_levels row (fun r => - s r) lkey c true true n rows in
  forall r, (0 < n)%nat ->
    (In r (nth 0%nat out []) <->
     In r rows /\ forall r', In r' rows -> lkey 0%nat r' = lkey 0%nat r -> s r <= s r') /\
    StronglySorted (fun a b => s a <= s b) (nth 0%nat out []).
Proof.
  intros Hc Hd out r Hn.
  assert (NoDup (map (fun r => - s r) rows)) as Hd'.
  { clear -Hd. induction rows as [|x l IH]; simpl in *; [constructor|].
    inversion Hd as [|? ? Hx Hl]; subst. constructor; [|apply IH; exact Hl].
    intros Hin. apply Hx. apply in_map_iff in Hin. destruct Hin as (y & Ey & Hy).
    apply in_map_iff. exists y. split; [lia|exact Hy]. }
  destruct (levels_dedup_spec row (fun r => - s r) lkey c n rows Hc Hd' 0%nat Hn) as [Hs Hb].
  split.
  - unfold out. rewrite (Hb r). unfold is_best. split; intros [H1 H2]; (split; [exact H1|]); intros r' Hr' Ek; specialize (H2 r' Hr' Ek); lia.
  - unfold out. clear -Hs. induction Hs as [|a l Hs IH Hf]; constructor; [exact IH|].
    eapply Forall_impl; [|exact Hf]. intros b Hb. unfold ge_sc in Hb. lia.
Qed.
