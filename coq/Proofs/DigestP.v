(* Proofs about Model/Digest.v (C17). *)
From Coq Require Import Lia Sorted.
From Mokaverif Require Import Model.Base Model.Digest.
Open Scope nat_scope.

(* ---------- generic list facts ---------- *)
Lemma pyslice_length {A} (s : list A) a b :
  a <= b -> b <= length s -> length (pyslice s a b) = b - a.
Proof.
  intros Hab Hb. unfold pyslice. rewrite firstn_length, skipn_length. lia.
Qed.

Lemma pyslice_substring {A} (s : list A) a b :
  exists u v, s = u ++ pyslice s a b ++ v.
Proof.
  exists (firstn a s), (skipn (b - a) (skipn a s)). unfold pyslice.
  rewrite firstn_skipn, firstn_skipn. reflexivity.
Qed.

Lemma combine_seq_nth_error {A} (l : list A) k i a :
  In (i, a) (combine (seq k (length l)) l) <-> k <= i /\ nth_error l (i - k) = Some a.
Proof.
  revert k; induction l as [|x l IH]; intros k; simpl.
  - split; [intros [] | intros [_ H]; destruct (i - k); discriminate].
  - rewrite IH. split.
    + intros [H|[Hk H]].
      * inversion H; subst. split; [lia|]. rewrite Nat.sub_diag. reflexivity.
      * split; [lia|]. replace (i - k) with (S (i - S k)) by lia. exact H.
    + intros [Hk H]. destruct (i - k) as [|j] eqn:E.
      * left. simpl in H. inversion H. f_equal. lia.
      * right. split; [lia|]. simpl in H. replace (i - S k) with j by lia. exact H.
Qed.

Section DigestP.
Variable A : Type.
Variable isM : A -> bool.

(* ---------- specification-level definitions ---------- *)

(* what one enzymatic peptide [pep] contributes: itself; with clipping (only for the N-terminal
   peptide, [clip0]) the peptide without its leading M if that still has the minimum length; with
   semi every non-empty proper prefix and suffix that has the minimum length *)
Definition derived (minl : nat) (semi clip0 : bool) (pep p : list A) : Prop :=
  p = pep
  \/ (clip0 = true /\ exists x, pep = x :: p /\ isM x = true /\ minl <= length p)
  \/ (semi = true /\ p <> [] /\ minl <= length p /\
      exists u, u <> [] /\ (pep = p ++ u \/ pep = u ++ p)).

(* index-level specification: valid for ANY site list *)
Definition Digest_spec_idx (s : list A) (sites : list nat) (mc minl maxl : nat) (semi clip : bool)
                           (p : list A) : Prop :=
  exists i d a b,
    nth_error sites i = Some a /\ nth_error sites (i + d) = Some b /\ 1 <= d <= mc + 1 /\
    minl <= length (pyslice s a b) <= maxl /\
    derived minl semi (clip && Nat.eqb i 0) (pyslice s a b) p.

(* contract of _cleavage_sites: 0, the match ends (non-decreasing, within 1..n), n *)
Definition sites_ok (n : nat) (sites : list nat) : Prop :=
  exists mids, sites = 0 :: mids ++ [n] /\ StronglySorted le mids /\
               Forall (fun c => 1 <= c <= n) mids.

(* position-level specification (the property text) *)
Definition between (a b c : nat) : bool := (a <? c) && (c <? b).
Definition missed (sites : list nat) (a b : nat) : nat := length (filter (between a b) sites).

Definition enzymatic (sites : list nat) (mc minl maxl a b : nat) : Prop :=
  In a sites /\ In b sites /\ a < b /\ missed sites a b <= mc /\ minl <= b - a <= maxl.

Definition Digest_spec (s : list A) (sites : list nat) (mc minl maxl : nat) (semi clip : bool)
                       (p : list A) : Prop :=
  exists a b, enzymatic sites mc minl maxl a b /\
              derived minl semi (clip && Nat.eqb a 0) (pyslice s a b) p.

(* ---------- the semi loop ---------- *)
Lemma semi_loop_in pep minl maxl p : forall todo idx,
  In p (dg_semi_loop A pep minl maxl idx todo) <->
  exists k, idx <= k < idx + todo /\ minl <= length pep - k <= maxl /\
            (p = skipn k pep \/ p = firstn (length pep - k) pep).
Proof.
  induction todo as [|t IH]; intros idx; simpl.
  - split; [intros [] | intros (k & Hk & _); lia].
  - destruct (length pep - idx <? minl) eqn:E1.
    + apply Nat.ltb_lt in E1. split; [intros [] | intros (k & Hk & Hm & _); lia].
    + apply Nat.ltb_ge in E1. destruct (maxl <? length pep - idx) eqn:E2.
      * apply Nat.ltb_lt in E2. rewrite IH. split.
        -- intros (k & Hk & Hm & Hp). exists k. repeat split; try lia. exact Hp.
        -- intros (k & Hk & Hm & Hp). exists k.
           assert (k <> idx) by (intros ->; lia). repeat split; try lia. exact Hp.
      * apply Nat.ltb_ge in E2. simpl. rewrite IH. split.
        -- intros [H|[H|(k & Hk & Hm & Hp)]].
           ++ exists idx. repeat split; try lia. left; auto.
           ++ exists idx. repeat split; try lia. right; auto.
           ++ exists k. repeat split; try lia. exact Hp.
        -- intros (k & Hk & Hm & Hp).
           destruct (Nat.eq_dec k idx) as [->|Hne].
           ++ destruct Hp as [Hp|Hp]; [left|right; left]; auto.
           ++ right; right. exists k. repeat split; try lia. exact Hp.
Qed.

Lemma semi_loop_derived pep minl maxl p :
  length pep <= maxl ->
  (In p (dg_semi_loop A pep minl maxl 1 (length pep - 1)) <->
   p <> [] /\ minl <= length p /\ exists u, u <> [] /\ (pep = p ++ u \/ pep = u ++ p)).
Proof.
  intros Hmax. rewrite semi_loop_in. split.
  - intros (k & Hk & Hm & [Hp|Hp]); subst p.
    + assert (Hl : length (skipn k pep) = length pep - k) by apply skipn_length.
      split; [intros E; rewrite E in Hl; simpl in Hl; lia|].
      split; [lia|]. exists (firstn k pep). split.
      * intros E. apply (f_equal (@length A)) in E. rewrite firstn_length in E. simpl in E. lia.
      * right. symmetry. apply firstn_skipn.
    + assert (Hl : length (firstn (length pep - k) pep) = length pep - k)
        by (rewrite firstn_length; lia).
      split; [intros E; rewrite E in Hl; simpl in Hl; lia|].
      split; [lia|]. exists (skipn (length pep - k) pep). split.
      * intros E. apply (f_equal (@length A)) in E. rewrite skipn_length in E. simpl in E. lia.
      * left. symmetry. apply firstn_skipn.
  - intros (Hne & Hm & u & Hu & Hp).
    assert (length p <> 0) by (destruct p; simpl; [congruence|lia]).
    assert (length u <> 0) by (destruct u; simpl; [congruence|lia]).
    exists (length u). destruct Hp as [Hp|Hp]; subst pep; rewrite app_length in *.
    + repeat split; try lia. right.
      replace (length p + length u - length u) with (length p + 0) by lia.
      rewrite firstn_app_2. simpl. rewrite app_nil_r. reflexivity.
    + repeat split; try lia. left.
      rewrite skipn_app, Nat.sub_diag, skipn_all. reflexivity.
Qed.

(* ---------- one inner-loop body ---------- *)
Lemma one_spec s sites minl maxl semi clip si ss ei p :
  In p (dg_one A isM s sites minl maxl semi clip si ss ei) <->
  exists e, nth_error sites ei = Some e /\
            minl <= length (pyslice s ss e) <= maxl /\
            derived minl semi (clip && Nat.eqb si 0) (pyslice s ss e) p.
Proof.
  unfold dg_one. destruct (nth_error sites ei) as [e|].
  2:{ split; [intros [] | intros (e & H & _); discriminate]. }
  set (pep := pyslice s ss e).
  destruct ((length pep <? minl) || (maxl <? length pep)) eqn:Eb.
  - apply orb_true_iff in Eb. rewrite !Nat.ltb_lt in Eb.
    split; [intros [] | intros (e' & H & Hl & _)]. inversion H; subst e'. fold pep in Hl. lia.
  - apply orb_false_iff in Eb. rewrite !Nat.ltb_ge in Eb. destruct Eb as [Hmin Hmax].
    split.
    + intros Hin. exists e. split; [reflexivity|]. fold pep. split; [lia|].
      simpl in Hin. destruct Hin as [Hin|Hin]; [left; auto|].
      apply in_app_or in Hin. destruct Hin as [Hin|Hin].
      * right; left.
        destruct (clip && Nat.eqb si 0 && dg_starts_with_M A isM pep && (minl <=? length (tl pep))) eqn:Ec;
          [|destruct Hin].
        destruct Hin as [Hin|[]]. subst p.
        apply andb_true_iff in Ec. destruct Ec as [Ec Hl].
        apply andb_true_iff in Ec. destruct Ec as [Ec HM].
        apply Nat.leb_le in Hl. split; [exact Ec|].
        destruct pep as [|x r]; [discriminate|]. exists x. simpl in *. auto.
      * right; right. destruct semi; [|destruct Hin]. split; [reflexivity|].
        apply semi_loop_derived in Hin; [exact Hin | lia].
    + intros (e' & H & Hl & Hd). inversion H; subst e'. fold pep in Hd, Hl.
      simpl. destruct Hd as [Hd|[Hd|Hd]].
      * left; auto.
      * right. apply in_or_app. left. destruct Hd as (Hc & x & Hx & HM & Hlen).
        rewrite Hc, Hx. simpl. rewrite HM. simpl.
        apply Nat.leb_le in Hlen. rewrite Hlen. left; reflexivity.
      * right. apply in_or_app. right. destruct Hd as (Hs & Hd). rewrite Hs.
        apply semi_loop_derived; [lia | exact Hd].
Qed.

(* ---------- the double loop: index-level characterisation, any site list ---------- *)
Theorem cleave_idx s sites mc minl maxl semi clip p :
  In p (dg_cleave A isM s sites mc minl maxl semi clip) <->
  Digest_spec_idx s sites mc minl maxl semi clip p.
Proof.
  unfold dg_cleave, Digest_spec_idx. rewrite in_flat_map. split.
  - intros ([i a] & Hia & Hin). apply combine_seq_nth_error in Hia. destruct Hia as [_ Hia].
    rewrite Nat.sub_0_r in Hia. apply in_flat_map in Hin. destruct Hin as (d & Hd & Hin).
    apply in_seq in Hd. simpl in Hin. apply one_spec in Hin. destruct Hin as (b & Hb & Hl & Hder).
    exists i, d, a, b. repeat split; try assumption; lia.
  - intros (i & d & a & b & Ha & Hb & Hd & Hl & Hder).
    exists (i, a). split.
    + apply combine_seq_nth_error. rewrite Nat.sub_0_r. split; [lia | exact Ha].
    + apply in_flat_map. exists d. split; [apply in_seq; lia|]. simpl.
      apply one_spec. exists b. auto.
Qed.

(* ---------- every peptide is a substring of the protein (any site list) ---------- *)
Lemma derived_substring minl semi clip0 pep p :
  derived minl semi clip0 pep p -> exists u v, pep = u ++ p ++ v.
Proof.
  intros [H|[(_ & x & H & _)|(_ & _ & _ & u & _ & [H|H])]].
  - exists [], []. subst. rewrite app_nil_r. reflexivity.
  - exists [x], []. subst. rewrite app_nil_r. reflexivity.
  - exists [], u. exact H.
  - exists u, []. rewrite app_nil_r. exact H.
Qed.

Theorem cleave_substring s sites mc minl maxl semi clip p :
  In p (dg_cleave A isM s sites mc minl maxl semi clip) -> exists u v, s = u ++ p ++ v.
Proof.
  intros H. apply cleave_idx in H. destruct H as (i & d & a & b & _ & _ & _ & _ & Hd).
  apply derived_substring in Hd. destruct Hd as (u & v & Hd).
  destruct (pyslice_substring s a b) as (u' & v' & Hs).
  exists (u' ++ u), (v ++ v'). rewrite Hs at 1. rewrite Hd. rewrite <- !app_assoc. reflexivity.
Qed.

(* ---------- monotonicity (any site list) ---------- *)
Lemma derived_mono minl minl' (semi semi' clip0 clip0' : bool) pep p :
  minl' <= minl -> (semi = true -> semi' = true) -> (clip0 = true -> clip0' = true) ->
  derived minl semi clip0 pep p -> derived minl' semi' clip0' pep p.
Proof.
  intros Hm Hs Hc [H|[(Hc0 & x & H & HM & Hl)|(Hs0 & Hne & Hl & Hu)]].
  - left; exact H.
  - right; left. split; [auto|]. exists x. repeat split; auto. lia.
  - right; right. split; [auto|]. split; [exact Hne|]. split; [lia | exact Hu].
Qed.

Theorem cleave_monotone s sites mc mc' minl minl' maxl maxl' (semi semi' clip clip' : bool) :
  mc <= mc' -> minl' <= minl -> maxl <= maxl' ->
  (semi = true -> semi' = true) -> (clip = true -> clip' = true) ->
  incl (dg_cleave A isM s sites mc minl maxl semi clip)
       (dg_cleave A isM s sites mc' minl' maxl' semi' clip').
Proof.
  intros Hmc Hmin Hmax Hs Hc p H. apply cleave_idx in H. apply cleave_idx.
  destruct H as (i & d & a & b & Ha & Hb & Hd & Hl & Hder).
  exists i, d, a, b. repeat split; try assumption; try lia.
  eapply derived_mono; [exact Hmin | exact Hs | | exact Hder].
  intros E. apply andb_true_iff in E. destruct E as [E1 E2]. rewrite (Hc E1), E2. reflexivity.
Qed.

(* ---------- sorted site lists: indices versus positions ---------- *)
Lemma filter_between_ge a b l :
  Forall (fun c => b <= c) l -> filter (between a b) l = [].
Proof.
  induction 1 as [|x l Hx _ IH]; simpl; [reflexivity|].
  unfold between at 1. replace (x <? b) with false by (symmetry; apply Nat.ltb_ge; lia).
  rewrite andb_false_r. exact IH.
Qed.

Lemma sorted_count_before a b l : forall j,
  StronglySorted le l -> nth_error l j = Some b -> length (filter (between a b) l) <= j.
Proof.
  induction l as [|y l IH]; intros j Hs Hj; [destruct j; discriminate|].
  apply StronglySorted_inv in Hs. destruct Hs as [Hs Hy].
  destruct j as [|j]; simpl in Hj.
  - inversion Hj; subst y. rewrite filter_between_ge; [simpl; lia|].
    constructor; [lia | exact Hy].
  - simpl. specialize (IH j Hs Hj). destruct (between a b y); simpl; lia.
Qed.

(* soundness direction: sites at indices i < j enclose at most j - i - 1 sites *)
Lemma sorted_between_count a b l : forall i j,
  StronglySorted le l -> nth_error l i = Some a -> nth_error l j = Some b -> i < j ->
  length (filter (between a b) l) <= j - i - 1.
Proof.
  induction l as [|x l IH]; intros i j Hs Hi Hj Hij; [destruct i; discriminate|].
  apply StronglySorted_inv in Hs. destruct Hs as [Hs Hx].
  destruct j as [|j]; [lia|]. simpl in Hj.
  assert (Hxa : between a b x = false).
  { unfold between. replace (a <? x) with false; [reflexivity|]. symmetry. apply Nat.ltb_ge.
    destruct i as [|i]; simpl in Hi; [inversion Hi; lia|].
    apply nth_error_In in Hi. rewrite Forall_forall in Hx. apply Hx. exact Hi. }
  simpl. rewrite Hxa. destruct i as [|i]; simpl in Hi.
  - pose proof (sorted_count_before a b l j Hs Hj). lia.
  - specialize (IH i j Hs Hi Hj). lia.
Qed.

(* completeness direction: two site positions a < b are found at indices whose distance is
   exactly the number of enclosed sites + 1 *)
Lemma sorted_first_occ a b l :
  StronglySorted le l -> Forall (fun c => a < c) l -> In b l ->
  exists j, nth_error l j = Some b /\ j = length (filter (between a b) l).
Proof.
  induction l as [|y l IH]; intros Hs Ha Hb; [destruct Hb|].
  apply StronglySorted_inv in Hs. destruct Hs as [Hs Hy].
  apply Forall_cons_iff in Ha. destruct Ha as [Hay Ha].
  destruct (Nat.eq_dec y b) as [->|Hne].
  - exists 0. split; [reflexivity|]. simpl.
    unfold between at 1. rewrite Nat.ltb_irrefl, andb_false_r.
    rewrite filter_between_ge; [reflexivity | exact Hy].
  - destruct Hb as [Hb|Hb]; [congruence|].
    destruct (IH Hs Ha Hb) as (j & Hj & Hlen).
    exists (S j). split; [exact Hj|]. simpl.
    assert (Hyb : y <= b) by (rewrite Forall_forall in Hy; apply Hy; exact Hb).
    unfold between at 1.
    replace (a <? y) with true by (symmetry; apply Nat.ltb_lt; lia).
    replace (y <? b) with true by (symmetry; apply Nat.ltb_lt; lia).
    simpl. lia.
Qed.

Lemma sorted_pick a b l :
  StronglySorted le l -> In a l -> In b l -> a < b ->
  exists i j, nth_error l i = Some a /\ nth_error l j = Some b /\ i < j /\
              j - i - 1 = length (filter (between a b) l).
Proof.
  induction l as [|x l IH]; intros Hs Ha Hb Hab; [destruct Ha|].
  pose proof Hs as Hs0.
  apply StronglySorted_inv in Hs. destruct Hs as [Hs Hx].
  assert (Hxa : x <= a).
  { destruct Ha as [->|Ha]; [lia|]. rewrite Forall_forall in Hx. apply Hx. exact Ha. }
  assert (Hbx : between a b x = false).
  { unfold between. replace (a <? x) with false; [reflexivity|]. symmetry. apply Nat.ltb_ge. lia. }
  assert (Hb' : In b l) by (destruct Hb as [->|Hb]; [lia | exact Hb]).
  destruct (in_dec Nat.eq_dec a l) as [Hin|Hnin].
  - destruct (IH Hs Hin Hb' Hab) as (i & j & Hi & Hj & Hij & Hlen).
    exists (S i), (S j). simpl. rewrite Hbx. repeat split; try assumption; lia.
  - assert (x = a) by (destruct Ha as [->|Ha]; [reflexivity | contradiction]). subst x.
    assert (Hgt : Forall (fun c => a < c) l).
    { rewrite Forall_forall in *. intros c Hc. specialize (Hx c Hc).
      assert (c <> a) by (intros ->; contradiction). lia. }
    destruct (sorted_first_occ a b l Hs Hgt Hb') as (j & Hj & Hlen).
    exists 0, (S j). simpl. rewrite Hbx. repeat split; try assumption; lia.
Qed.

Lemma sorted_nth_le l : forall i j a b,
  StronglySorted le l -> i <= j -> nth_error l i = Some a -> nth_error l j = Some b -> a <= b.
Proof.
  induction l as [|x l IH]; intros i j a b Hs Hij Ha Hb; [destruct i; discriminate|].
  apply StronglySorted_inv in Hs. destruct Hs as [Hs Hx].
  destruct i as [|i]; destruct j as [|j]; simpl in Ha, Hb; try lia.
  - inversion Ha; inversion Hb; lia.
  - inversion Ha; subst x. apply nth_error_In in Hb. rewrite Forall_forall in Hx. apply Hx. exact Hb.
  - apply (IH i j a b Hs); auto; lia.
Qed.

(* facts from the contract *)
Lemma sorted_snoc n mids :
  StronglySorted le mids -> Forall (fun c => c <= n) mids -> StronglySorted le (mids ++ [n]).
Proof.
  induction mids as [|m mids IH]; intros Hs Hb; simpl.
  - constructor; constructor.
  - apply StronglySorted_inv in Hs. destruct Hs as [Hs Hm].
    apply Forall_cons_iff in Hb. destruct Hb as [Hmn Hb].
    constructor; [apply IH; assumption|].
    apply Forall_app. split; [exact Hm|]. constructor; [exact Hmn | constructor].
Qed.

Lemma sites_ok_sorted n sites : sites_ok n sites -> StronglySorted le sites.
Proof.
  intros (mids & -> & Hs & Hb). constructor.
  - apply sorted_snoc; [exact Hs|]. eapply Forall_impl; [|exact Hb]. simpl. intros c Hc. lia.
  - rewrite Forall_forall. intros c _. lia.
Qed.

Lemma sites_ok_bound n sites c : sites_ok n sites -> In c sites -> c <= n.
Proof.
  intros (mids & -> & _ & Hb) [<-|Hc]; [lia|].
  apply in_app_or in Hc. destruct Hc as [Hc|[<-|[]]]; [|lia].
  rewrite Forall_forall in Hb. apply Hb in Hc. lia.
Qed.

Lemma sites_ok_head n sites : sites_ok n sites -> nth_error sites 0 = Some 0.
Proof. intros (mids & -> & _). reflexivity. Qed.

(* position 0 occurs at index 0 only, unless the sequence is empty *)
Lemma sites_ok_zero n sites i : sites_ok n sites -> 0 < n -> nth_error sites i = Some 0 -> i = 0.
Proof.
  intros (mids & -> & _ & Hb) Hn Hi. destruct i as [|i]; [reflexivity|]. simpl in Hi.
  apply nth_error_In in Hi. apply in_app_or in Hi. destruct Hi as [Hi|[Hi|[]]]; [|lia].
  rewrite Forall_forall in Hb. apply Hb in Hi. lia.
Qed.

Lemma derived_nonempty minl semi clip0 pep p : derived minl semi clip0 pep p -> p <> [] -> pep <> [].
Proof.
  intros [H|[(_ & x & H & _)|(_ & _ & _ & u & _ & [H|H])]] Hne; subst; try discriminate; auto.
  - intros E. apply app_eq_nil in E. destruct E; auto.
  - intros E. apply app_eq_nil in E. destruct E; auto.
Qed.

(* ---------- main theorem: the digest is exactly what the enzyme rules allow ---------- *)
Theorem idx_iff_pos s sites mc minl maxl semi clip p :
  sites_ok (length s) sites -> p <> [] ->
  (Digest_spec_idx s sites mc minl maxl semi clip p <-> Digest_spec s sites mc minl maxl semi clip p).
Proof.
  intros Hok Hne. pose proof (sites_ok_sorted _ _ Hok) as Hs. split.
  - intros (i & d & a & b & Ha & Hb & Hd & Hl & Hder).
    pose proof (nth_error_In _ _ Ha) as Ina. pose proof (nth_error_In _ _ Hb) as Inb.
    pose proof (sites_ok_bound _ _ _ Hok Inb) as Hbn.
    assert (Hle : a <= b) by (apply (sorted_nth_le sites i (i + d) a b Hs); auto; lia).
    rewrite (pyslice_length s a b Hle Hbn) in Hl.
    assert (Hlt : a < b).
    { pose proof (derived_nonempty _ _ _ _ _ Hder Hne) as Hp.
      assert (length (pyslice s a b) <> 0) by (destruct (pyslice s a b); simpl; [congruence | lia]).
      rewrite (pyslice_length s a b Hle Hbn) in H. lia. }
    exists a, b. split.
    + repeat split; try assumption; try lia.
      pose proof (sorted_between_count a b sites i (i + d) Hs Ha Hb ltac:(lia)). unfold missed. lia.
    + apply (derived_mono minl minl semi semi (clip && Nat.eqb i 0) _ _ _ (Nat.le_refl _) (fun H => H));
        [|exact Hder].
      intros E. apply andb_true_iff in E. destruct E as [E1 E2]. apply Nat.eqb_eq in E2. subst i.
      rewrite (sites_ok_head _ _ Hok) in Ha. inversion Ha. rewrite E1. reflexivity.
  - intros (a & b & (Ina & Inb & Hlt & Hmiss & Hl) & Hder).
    pose proof (sites_ok_bound _ _ _ Hok Inb) as Hbn.
    destruct (sorted_pick a b sites Hs Ina Inb Hlt) as (i & j & Hi & Hj & Hij & Hcnt).
    unfold missed in Hmiss.
    exists i, (j - i), a, b. replace (i + (j - i)) with j by lia.
    rewrite (pyslice_length s a b ltac:(lia) Hbn).
    repeat split; try assumption; try lia.
    apply (derived_mono minl minl semi semi (clip && Nat.eqb a 0) _ _ _ (Nat.le_refl _) (fun H => H));
      [|exact Hder].
    intros E. apply andb_true_iff in E. destruct E as [E1 E2]. apply Nat.eqb_eq in E2. subst a.
    rewrite (sites_ok_zero _ _ i Hok ltac:(lia) Hi). rewrite E1. reflexivity.
Qed.

Theorem cleave_sound_complete s sites mc minl maxl semi clip p :
  sites_ok (length s) sites -> p <> [] ->
  (In p (dg_cleave A isM s sites mc minl maxl semi clip) <->
   Digest_spec s sites mc minl maxl semi clip p).
Proof.
  intros Hok Hne. rewrite cleave_idx. apply idx_iff_pos; assumption.
Qed.

(* with a positive minimum length no guard on p is needed *)
Lemma derived_min minl semi clip0 pep p :
  minl <= length pep -> derived minl semi clip0 pep p -> minl <= length p.
Proof.
  intros Hl [H|[(_ & x & _ & _ & H)|(_ & _ & H & _)]]; subst; auto.
Qed.

Theorem cleave_sound_complete_min1 s sites mc minl maxl semi clip p :
  sites_ok (length s) sites -> 1 <= minl ->
  (In p (dg_cleave A isM s sites mc minl maxl semi clip) <->
   Digest_spec s sites mc minl maxl semi clip p).
Proof.
  intros Hok Hmin. destruct p as [|x p].
  - split; intros H; exfalso.
    + apply cleave_idx in H. destruct H as (i & d & a & b & _ & _ & _ & Hl & Hder).
      apply derived_min in Hder; simpl in *; lia.
    + destruct H as (a & b & (Ina & Inb & Hlt & _ & Hl) & Hder).
      pose proof (sites_ok_bound _ _ _ Hok Inb) as Hbn.
      apply derived_min in Hder; [simpl in *; lia|].
      rewrite pyslice_length; lia.
  - apply cleave_sound_complete; [exact Hok | discriminate].
Qed.

(* ---------- the empty peptide (only possible with min_length = 0) ---------- *)
Lemma sorted_dup_adjacent l :
  StronglySorted le l -> ~ NoDup l -> exists i a, nth_error l i = Some a /\ nth_error l (S i) = Some a.
Proof.
  induction l as [|x l IH]; intros Hs Hnd; [exfalso; apply Hnd; constructor|].
  apply StronglySorted_inv in Hs. destruct Hs as [Hs Hx].
  destruct (in_dec Nat.eq_dec x l) as [Hin|Hnin].
  - destruct l as [|y l']; [destruct Hin|].
    apply StronglySorted_inv in Hs. destruct Hs as [_ Hy].
    assert (x <= y) by (apply Forall_cons_iff in Hx; apply Hx).
    assert (y <= x).
    { destruct Hin as [->|Hin]; [lia|]. rewrite Forall_forall in Hy. apply Hy. exact Hin. }
    exists 0, x. simpl. split; [reflexivity | f_equal; lia].
  - assert (Hnd' : ~ NoDup l) by (intros H; apply Hnd; constructor; assumption).
    destruct (IH Hs Hnd') as (i & a & Hi & Hi'). exists (S i), a. auto.
Qed.

Lemma filter_between_0_1 l : filter (between 0 1) l = [].
Proof.
  induction l as [|c l IH]; simpl; [reflexivity|].
  unfold between at 1. destruct c as [|c]; simpl; exact IH.
Qed.

Theorem cleave_empty s sites mc minl maxl semi clip :
  sites_ok (length s) sites ->
  (In [] (dg_cleave A isM s sites mc minl maxl semi clip) <->
   minl = 0 /\ (~ NoDup sites \/
                (clip = true /\ 1 <= maxl /\ In 1 sites /\ exists x r, s = x :: r /\ isM x = true))).
Proof.
  intros Hok. pose proof (sites_ok_sorted _ _ Hok) as Hs. rewrite cleave_idx. split.
  - intros (i & d & a & b & Ha & Hb & Hd & Hl & Hder).
    pose proof (nth_error_In _ _ Hb) as Inb.
    pose proof (sites_ok_bound _ _ _ Hok Inb) as Hbn.
    assert (Hle : a <= b) by (apply (sorted_nth_le sites i (i + d) a b Hs); auto; lia).
    pose proof (pyslice_length s a b Hle Hbn) as Hlen.
    destruct Hder as [Hp|[(Hc & x & Hp & HM & Hm)|(_ & Hne & _)]]; [| |congruence].
    + rewrite <- Hp in Hl. simpl in Hl. split; [lia|]. left. intros Hnd.
      rewrite <- Hp in Hlen. simpl in Hlen. assert (a = b) by lia. subst b.
      rewrite NoDup_nth_error in Hnd.
      assert (i = i + d); [|lia].
      apply Hnd; [apply nth_error_Some; congruence | congruence].
    + simpl in Hm. split; [lia|]. right.
      apply andb_true_iff in Hc. destruct Hc as [Hc Hi]. apply Nat.eqb_eq in Hi. subst i.
      rewrite (sites_ok_head _ _ Hok) in Ha. inversion Ha; subst a.
      rewrite Hp in Hlen, Hl. simpl in Hlen, Hl. assert (b = 1) by lia. subst b.
      split; [exact Hc|]. split; [lia|]. split; [exact Inb|].
      unfold pyslice in Hp. simpl in Hp. destruct s as [|y r]; [discriminate|].
      simpl in Hp. inversion Hp; subst y. exists x, r. auto.
  - intros (Hmin & [Hnd|(Hc & Hmax & In1 & x & r & Hsx & HM)]); subst minl.
    + destruct (sorted_dup_adjacent sites Hs Hnd) as (i & a & Hi & Hi').
      exists i, 1, a, a. rewrite Nat.add_1_r.
      assert (Hp : pyslice s a a = []) by (unfold pyslice; rewrite Nat.sub_diag; reflexivity).
      rewrite Hp. simpl. repeat split; try assumption; try lia. left; reflexivity.
    + assert (In0 : In 0 sites) by (apply (nth_error_In sites 0); apply (sites_ok_head _ _ Hok)).
      destruct (sorted_pick 0 1 sites Hs In0 In1 ltac:(lia)) as (i & j & Hi & Hj & Hij & Hcnt).
      rewrite filter_between_0_1 in Hcnt. simpl in Hcnt.
      assert (Hn : 0 < length s) by (subst s; simpl; lia).
      pose proof (sites_ok_zero _ _ i Hok Hn Hi). subst i.
      exists 0, j, 0, 1. simpl.
      assert (Hp : pyslice s 0 1 = [x]) by (subst s; reflexivity).
      rewrite Hp. simpl. repeat split; try assumption; try lia.
      right; left. rewrite Hc. split; [reflexivity|]. exists x. simpl. auto.
Qed.

End DigestP.

(* ---------- sites described by a predicate on positions ---------- *)
Lemma filter_none {B} (f : B -> bool) l : (forall x, In x l -> f x = false) -> filter f l = [].
Proof.
  induction l as [|x l IH]; intros H; simpl; [reflexivity|].
  rewrite (H x (or_introl eq_refl)). apply IH. intros y Hy. apply H. right; exact Hy.
Qed.

Lemma filter_all {B} (f : B -> bool) l : (forall x, In x l -> f x = true) -> filter f l = l.
Proof.
  induction l as [|x l IH]; intros H; simpl; [reflexivity|].
  rewrite (H x (or_introl eq_refl)). f_equal. apply IH. intros y Hy. apply H. right; exact Hy.
Qed.

Lemma filter_comm {B} (f g : B -> bool) l : filter f (filter g l) = filter g (filter f l).
Proof.
  induction l as [|x l IH]; simpl; [reflexivity|].
  destruct (g x) eqn:Eg; destruct (f x) eqn:Ef; simpl; rewrite ?Eg, ?Ef, IH; reflexivity.
Qed.

Lemma filter_between_seq a b n :
  a < b -> b <= n -> filter (between a b) (seq 1 n) = seq (S a) (b - S a).
Proof.
  intros Hab Hbn.
  replace n with (a + ((b - S a) + (n + 1 - b))) at 1 by lia.
  rewrite seq_app, seq_app, !filter_app.
  replace (1 + a) with (S a) by lia.
  rewrite (filter_none (between a b) (seq 1 a)).
  2:{ intros c Hc. apply in_seq in Hc. unfold between.
      replace (a <? c) with false; [reflexivity|]. symmetry. apply Nat.ltb_ge. lia. }
  rewrite (filter_none (between a b) (seq (S a + (b - S a)) (n + 1 - b))).
  2:{ intros c Hc. apply in_seq in Hc. unfold between.
      replace (c <? b) with false; [apply andb_false_r|]. symmetry. apply Nat.ltb_ge. lia. }
  rewrite filter_all.
  2:{ intros c Hc. apply in_seq in Hc. unfold between.
      replace (a <? c) with true by (symmetry; apply Nat.ltb_lt; lia).
      replace (c <? b) with true by (symmetry; apply Nat.ltb_lt; lia). reflexivity. }
  simpl. apply app_nil_r.
Qed.

(* for sites given by a cut predicate: membership and missed-cleavage count without any list of sites *)
Theorem cut_sites_mem (cut : nat -> bool) n c :
  In c (0 :: filter cut (seq 1 n) ++ [n]) <-> c = 0 \/ c = n \/ (1 <= c <= n /\ cut c = true).
Proof.
  simpl. rewrite in_app_iff, filter_In, in_seq. simpl. split.
  - intros [H|[[H1 H2]|[H|[]]]]; [left; auto | right; right; split; [lia|auto] | right; left; auto].
  - intros [H|[H|[H1 H2]]]; [left; auto | right; right; left; auto | right; left; split; [lia|auto]].
Qed.

Theorem cut_sites_missed (cut : nat -> bool) n a b :
  a < b -> b <= n ->
  missed (0 :: filter cut (seq 1 n) ++ [n]) a b = length (filter cut (seq (S a) (b - S a))).
Proof.
  intros Hab Hbn. unfold missed. cbn [filter].
  replace (between a b 0) with false by (unfold between; destruct a; reflexivity).
  rewrite filter_app, filter_comm, filter_between_seq by assumption.
  cbn [filter]. replace (between a b n) with false; [rewrite app_nil_r; reflexivity|].
  unfold between. replace (n <? b) with false by (symmetry; apply Nat.ltb_ge; lia).
  rewrite andb_false_r. reflexivity.
Qed.

(* ---------- residue-class enzymes: the computed sites ---------- *)
Section ClassSites.
Variable A : Type.
Variables cls nf : A -> bool.

(* position c (1-based: "after residue c") is a cleavage position *)
Definition class_cut (s : list A) (c : nat) : bool :=
  match c with
  | 0 => false
  | S c' => match nth_error s c' with
            | Some x => cls x && negb (match nth_error s c with Some y => nf y | None => false end)
            | None => false
            end
  end.

Lemma class_ends_filter r : forall pre,
  dg_class_ends A cls nf r (length pre)
  = filter (class_cut (pre ++ r)) (seq (S (length pre)) (length r)).
Proof.
  induction r as [|x r IH]; intros pre; [reflexivity|].
  assert (E1 : nth_error (pre ++ x :: r) (length pre) = Some x)
    by (rewrite nth_error_app2, Nat.sub_diag; [reflexivity | lia]).
  assert (E2 : nth_error (pre ++ x :: r) (S (length pre)) = nth_error r 0).
  { rewrite nth_error_app2 by lia. replace (S (length pre) - length pre) with 1 by lia. reflexivity. }
  specialize (IH (pre ++ [x])). rewrite app_length, <- app_assoc in IH. simpl in IH.
  rewrite Nat.add_1_r in IH.
  cbn [dg_class_ends length seq filter]. rewrite IH.
  unfold class_cut at 2. rewrite E1, E2.
  destruct r as [|y r']; cbn [nth_error];
    destruct (cls x && negb _); reflexivity.
Qed.

Theorem class_sites_spec s :
  dg_sites_class A cls nf s = 0 :: filter (class_cut s) (seq 1 (length s)) ++ [length s].
Proof.
  unfold dg_sites_class, dg_sites_of_ends.
  pose proof (class_ends_filter s []) as H. cbn [length app] in H. rewrite H. reflexivity.
Qed.

Lemma filter_seq_sorted (f : nat -> bool) : forall n k,
  StronglySorted le (filter f (seq k n)) /\ Forall (fun c => k <= c < k + n) (filter f (seq k n)).
Proof.
  induction n as [|n IH]; intros k; simpl; [split; constructor|].
  destruct (IH (S k)) as [Hs Hb].
  assert (Hb' : Forall (fun c => k <= c < k + S n) (filter f (seq (S k) n)))
    by (eapply Forall_impl; [|exact Hb]; simpl; intros; lia).
  destruct (f k).
  - split.
    + constructor; [exact Hs|]. eapply Forall_impl; [|exact Hb]. simpl; intros; lia.
    + constructor; [lia | exact Hb'].
  - split; assumption.
Qed.

Theorem class_sites_ok s : sites_ok (length s) (dg_sites_class A cls nf s).
Proof.
  exists (filter (class_cut s) (seq 1 (length s))). split; [apply class_sites_spec|].
  destruct (filter_seq_sorted (class_cut s) (length s) 1) as [Hs Hb].
  split; [exact Hs|]. eapply Forall_impl; [|exact Hb]. simpl; intros; lia.
Qed.
End ClassSites.

(* ---------- entry points on character codes ---------- *)
Lemma memz_in c l : dg_memz c l = true <-> In c l.
Proof.
  induction l as [|x l IH]; simpl; [split; [discriminate | intros []]|].
  rewrite orb_true_iff, Z.eqb_eq, IH. split; intros [H|H]; auto.
Qed.

Lemma cleave_z_nat s sites mc minl maxl semi clip :
  dg_cleave_z s sites (Z.of_nat mc) (Z.of_nat minl) (Z.of_nat maxl) semi clip
  = dg_cleave Z dg_isM s sites mc minl maxl semi clip.
Proof.
  unfold dg_cleave_z.
  replace (Z.of_nat mc <? 0)%Z with false by (symmetry; apply Z.ltb_ge; lia).
  replace (Z.of_nat maxl <? 0)%Z with false by (symmetry; apply Z.ltb_ge; lia).
  rewrite !Nat2Z.id. reflexivity.
Qed.

(* negative Python ints: nothing for mc < 0 or max_length < 0; min_length < 0 acts like 0 *)
Lemma cleave_z_neg s sites mc minl maxl semi clip :
  (mc < 0 \/ maxl < 0)%Z -> dg_cleave_z s sites mc minl maxl semi clip = [].
Proof.
  intros H. unfold dg_cleave_z.
  destruct (mc <? 0)%Z eqn:E1; [reflexivity|]. destruct (maxl <? 0)%Z eqn:E2; [reflexivity|].
  apply Z.ltb_ge in E1, E2. lia.
Qed.

Lemma cleave_z_negmin s sites mc minl maxl semi clip :
  (minl <= 0)%Z -> dg_cleave_z s sites mc minl maxl semi clip = dg_cleave_z s sites mc 0 maxl semi clip.
Proof.
  intros H. unfold dg_cleave_z. destruct minl; try lia; reflexivity.
Qed.

Lemma sites_of_ends_ok {A} (s : list A) ends :
  StronglySorted le ends -> Forall (fun c => 1 <= c <= length s) ends ->
  sites_ok (length s) (dg_sites_of_ends A s ends).
Proof. intros Hs Hb. exists ends. auto. Qed.

Theorem digest_ends_spec s ends mc minl maxl semi clip p :
  StronglySorted le ends -> Forall (fun c => 1 <= c <= length s) ends -> p <> [] ->
  (In p (dg_digest_ends s ends (Z.of_nat mc) (Z.of_nat minl) (Z.of_nat maxl) semi clip) <->
   Digest_spec Z dg_isM s (0 :: ends ++ [length s]) mc minl maxl semi clip p).
Proof.
  intros Hs Hb Hne. unfold dg_digest_ends. rewrite cleave_z_nat.
  apply cleave_sound_complete; [apply sites_of_ends_ok; assumption | exact Hne].
Qed.

Theorem digest_class_spec cls nf s mc minl maxl semi clip p :
  p <> [] ->
  (In p (dg_digest_class cls nf s (Z.of_nat mc) (Z.of_nat minl) (Z.of_nat maxl) semi clip) <->
   Digest_spec Z dg_isM s
     (0 :: filter (class_cut Z (fun c => dg_memz c cls) (fun c => dg_memz c nf) s) (seq 1 (length s))
        ++ [length s])
     mc minl maxl semi clip p).
Proof.
  intros Hne. unfold dg_digest_class. rewrite cleave_z_nat, <- class_sites_spec.
  apply cleave_sound_complete; [apply class_sites_ok | exact Hne].
Qed.
