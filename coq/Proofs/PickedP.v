(* Proofs about Model/Picked.v (C15). *)
From Coq Require Import Lia Permutation Sorted.
From Mokaverif Require Import Model.Base Model.Strip Model.Tdc Model.Picked Proofs.BaseP Proofs.TdcP Proofs.StripP.
Open Scope Z_scope.

(* ====================== lists ====================== *)
Lemma pk_nth_error_combine {A B} (a : list A) (b : list B) p x y :
  nth_error (combine a b) p = Some (x, y) <-> nth_error a p = Some x /\ nth_error b p = Some y.
Proof.
  revert b p. induction a as [|u a IH]; intros [|v b] [|p]; cbn; try (split; [discriminate|intros [H1 H2]; discriminate]).
  - split; [intros H; injection H as <- <-; split; reflexivity|intros [H1 H2]; injection H1 as <-; injection H2 as <-; reflexivity].
  - apply IH.
Qed.

Lemma pk_nth_error_seq n p i : nth_error (seq 0 n) p = Some i <-> (p < n)%nat /\ i = p.
Proof.
  split.
  - intros H. assert (p < n)%nat as Hp.
    { rewrite <- (seq_length n 0). apply nth_error_Some. rewrite H. discriminate. }
    split; [exact Hp|]. apply (nth_error_nth _ _ 0%nat) in H. rewrite seq_nth in H by exact Hp. lia.
  - intros [Hp ->]. rewrite (nth_error_nth' _ 0%nat) by (rewrite seq_length; exact Hp).
    rewrite seq_nth by exact Hp. reflexivity.
Qed.

Lemma pk_in_indexed {A} (l : list A) i x :
  In (i, x) (combine (seq 0 (length l)) l) <-> nth_error l i = Some x.
Proof.
  split.
  - intros H. apply In_nth_error in H. destruct H as (p & H). apply pk_nth_error_combine in H.
    destruct H as [H1 H2]. apply pk_nth_error_seq in H1. destruct H1 as [_ ->]. exact H2.
  - intros H. apply (nth_error_In _ i). apply pk_nth_error_combine. split; [|exact H].
    apply pk_nth_error_seq. split; [|reflexivity]. apply nth_error_Some. rewrite H. discriminate.
Qed.

(* ====================== the code-point order of strings ====================== *)
Lemma pk_str_cmp_refl a : pk_str_cmp a a = Eq.
Proof. induction a as [|x a IH]; [reflexivity|]. cbn. rewrite Z.compare_refl. exact IH. Qed.

Lemma pk_str_cmp_eq a b : pk_str_cmp a b = Eq -> a = b.
Proof.
  revert b. induction a as [|x a IH]; intros [|y b]; cbn; try discriminate; [reflexivity|].
  destruct (x ?= y) eqn:E; try discriminate. apply Z.compare_eq in E. subst y. intros H. f_equal. apply IH. exact H.
Qed.

Lemma pk_str_cmp_antisym a b : pk_str_cmp b a = CompOpp (pk_str_cmp a b).
Proof.
  revert b. induction a as [|x a IH]; intros [|y b]; cbn; try reflexivity.
  rewrite (Z.compare_antisym x y). destruct (x ?= y); cbn; [apply IH|reflexivity|reflexivity].
Qed.

Lemma pk_str_cmp_lt_trans a b c : pk_str_cmp a b = Lt -> pk_str_cmp b c = Lt -> pk_str_cmp a c = Lt.
Proof.
  revert b c. induction a as [|x a IH]; intros [|y b] [|z c]; cbn; try discriminate; try reflexivity.
  destruct (x ?= y) eqn:Exy; try discriminate; destruct (y ?= z) eqn:Eyz; try discriminate; intros H1 H2.
  - apply Z.compare_eq in Exy. apply Z.compare_eq in Eyz. subst. rewrite Z.compare_refl. eapply IH; eassumption.
  - apply Z.compare_eq in Exy. subst. rewrite Eyz. reflexivity.
  - apply Z.compare_eq in Eyz. subst. rewrite Exy. reflexivity.
  - rewrite Z.compare_lt_iff in *. assert (x < z) as H by lia. apply Z.compare_lt_iff in H. rewrite H. reflexivity.
Qed.

(* ====================== sort_values ====================== *)
Definition pk_le (x y : pk_krow) : Prop := pk_row_le x y = true.

Lemma pk_le_total x y : pk_row_le x y = false -> pk_le y x.
Proof.
  unfold pk_le, pk_row_le. rewrite (pk_str_cmp_antisym (pk_key x) (pk_key y)).
  destruct (pk_str_cmp (pk_key x) (pk_key y)); cbn; try discriminate; [|reflexivity].
  intros H. apply Z.leb_gt in H. apply Z.leb_le. lia.
Qed.

Lemma pk_le_trans x y z : pk_le x y -> pk_le y z -> pk_le x z.
Proof.
  unfold pk_le, pk_row_le.
  destruct (pk_str_cmp (pk_key x) (pk_key y)) eqn:Exy; try discriminate;
  destruct (pk_str_cmp (pk_key y) (pk_key z)) eqn:Eyz; try discriminate; intros H1 H2.
  - apply pk_str_cmp_eq in Exy. rewrite Exy, Eyz. apply Z.leb_le in H1. apply Z.leb_le in H2. apply Z.leb_le. lia.
  - apply pk_str_cmp_eq in Exy. rewrite Exy, Eyz. reflexivity.
  - apply pk_str_cmp_eq in Eyz. rewrite <- Eyz, Exy. reflexivity.
  - rewrite (pk_str_cmp_lt_trans _ _ _ Exy Eyz). reflexivity.
Qed.

(* rows of one pair: the order is the order of the scores *)
Lemma pk_le_same_key x y : pk_le x y -> pk_key x = pk_key y -> pk_kscore x <= pk_kscore y.
Proof.
  unfold pk_le, pk_row_le. intros H E. rewrite E, pk_str_cmp_refl in H. apply Z.leb_le. exact H.
Qed.

Lemma pk_insert_perm x l : Permutation (pk_insert x l) (x :: l).
Proof.
  induction l as [|y l IH]; cbn; [reflexivity|].
  destruct (pk_row_le x y); [reflexivity|]. rewrite IH. apply perm_swap.
Qed.

Lemma pk_sort_perm l : Permutation (pk_sort l) l.
Proof.
  induction l as [|x l IH]; cbn; [reflexivity|]. rewrite pk_insert_perm. constructor. exact IH.
Qed.

Lemma pk_insert_sorted x l : StronglySorted pk_le l -> StronglySorted pk_le (pk_insert x l).
Proof.
  induction l as [|y l IH]; cbn; intros H.
  - constructor; constructor.
  - inversion H as [|? ? Hs Hf]; subst. destruct (pk_row_le x y) eqn:E.
    + constructor; [exact H|]. constructor; [exact E|].
      eapply Forall_impl; [|exact Hf]. intros z Hz. eapply pk_le_trans; [exact E|exact Hz].
    + constructor; [apply IH; exact Hs|].
      assert (Forall (pk_le y) (x :: l)) as Hf' by (constructor; [apply pk_le_total; exact E|exact Hf]).
      eapply Permutation_Forall; [|exact Hf']. symmetry. apply pk_insert_perm.
Qed.

Lemma pk_sort_sorted l : StronglySorted pk_le (pk_sort l).
Proof. induction l as [|x l IH]; cbn; [constructor|apply pk_insert_sorted; exact IH]. Qed.

Lemma pk_sorted_app_inv (a b : list pk_krow) :
  StronglySorted pk_le (a ++ b) -> forall x y, In x a -> In y b -> pk_le x y.
Proof.
  induction a as [|h a IH]; cbn; intros H x y Hx Hy; [contradiction|].
  inversion H as [|? ? Hs Hf]; subst. destruct Hx as [<-|Hx].
  - rewrite Forall_forall in Hf. apply Hf. apply in_or_app. right. exact Hy.
  - apply (IH Hs x y Hx Hy).
Qed.

(* ====================== drop_duplicates(keep="last") ====================== *)
Lemma pk_keep_last_in x l : In x (pk_keep_last l) -> In x l.
Proof.
  induction l as [|y l IH]; cbn; [tauto|].
  destruct (existsb _ l); [intros H; right; apply IH; exact H|].
  intros [<-|H]; [left; reflexivity|right; apply IH; exact H].
Qed.

Lemma pk_keep_last_split x l :
  In x (pk_keep_last l) -> exists a b, l = a ++ x :: b /\ forall y, In y b -> pk_key y <> pk_key x.
Proof.
  induction l as [|y l IH]; cbn; [tauto|].
  destruct (existsb (fun z => str_eqb (pk_key z) (pk_key y)) l) eqn:E.
  - intros H. destruct (IH H) as (a & b & -> & Hb). exists (y :: a), b. split; [reflexivity|exact Hb].
  - intros [<-|H].
    + exists [], l. split; [reflexivity|]. intros z Hz Ez.
      assert (existsb (fun z => str_eqb (pk_key z) (pk_key y)) l = true) as E'.
      { apply existsb_exists. exists z. split; [exact Hz|]. apply b_str_eqb_eq. exact Ez. }
      congruence.
    + destruct (IH H) as (a & b & -> & Hb). exists (y :: a), b. split; [reflexivity|exact Hb].
Qed.

Lemma pk_keep_last_covers x l : In x l -> exists y, In y (pk_keep_last l) /\ pk_key y = pk_key x.
Proof.
  revert x. induction l as [|z l IH]; intros x; cbn; [tauto|].
  destruct (existsb (fun y => str_eqb (pk_key y) (pk_key z)) l) eqn:E.
  - intros [<-|H]; [|apply IH; exact H].
    apply existsb_exists in E. destruct E as (y & Hy & Ey). apply b_str_eqb_eq in Ey.
    destruct (IH y Hy) as (w & Hw & Ew). exists w. split; [exact Hw|congruence].
  - intros [<-|H].
    + exists z. split; [left; reflexivity|reflexivity].
    + destruct (IH x H) as (w & Hw & Ew). exists w. split; [right; exact Hw|exact Ew].
Qed.

Lemma pk_keep_last_nodup l : NoDup (map pk_key (pk_keep_last l)).
Proof.
  induction l as [|x l IH]; cbn; [constructor|].
  destruct (existsb (fun y => str_eqb (pk_key y) (pk_key x)) l) eqn:E; [exact IH|].
  cbn. constructor; [|exact IH]. intros H. apply in_map_iff in H. destruct H as (y & Ey & Hy).
  apply pk_keep_last_in in Hy.
  assert (existsb (fun y => str_eqb (pk_key y) (pk_key x)) l = true) as E'.
  { apply existsb_exists. exists y. split; [exact Hy|]. apply b_str_eqb_eq. exact Ey. }
  congruence.
Qed.

(* the surviving row of a pair has the maximal score of the pair *)
Lemma pk_keep_last_max l x y :
  StronglySorted pk_le l -> In x (pk_keep_last l) -> In y l -> pk_key y = pk_key x ->
  pk_kscore y <= pk_kscore x.
Proof.
  intros Hs Hx Hy E. destruct (pk_keep_last_split x l Hx) as (a & b & -> & Hb).
  apply in_app_or in Hy. destruct Hy as [Hy|[<-|Hy]].
  - apply pk_le_same_key; [|exact E]. apply (pk_sorted_app_inv a (x :: b) Hs y x Hy). left. reflexivity.
  - lia.
  - exfalso. apply (Hb y Hy). exact E.
Qed.

(* ====================== groupby_max ====================== *)
Lemma pk_shuffle_in order l k :
  In k (pk_shuffle order l) <-> In k l /\ In (pk_idx (pk_a k)) order.
Proof.
  unfold pk_shuffle. rewrite in_flat_map. split.
  - intros (i & Hi & Hk). apply filter_In in Hk. destruct Hk as [Hk E]. apply Nat.eqb_eq in E.
    split; [exact Hk|]. rewrite E. exact Hi.
  - intros [Hk Hi]. exists (pk_idx (pk_a k)). split; [exact Hi|]. apply filter_In. split; [exact Hk|].
    apply Nat.eqb_refl.
Qed.

Section GroupbyMax.
Variables (order : list nat) (l : list pk_krow).
(* contract of DataFrame.sample(frac=1): every row label is drawn *)
Hypothesis Hcover : forall k, In k l -> In (pk_idx (pk_a k)) order.

Lemma pk_gbm_sorted_in k : In k (pk_sort (pk_shuffle order l)) <-> In k l.
Proof.
  split.
  - intros H. apply (Permutation_in _ (pk_sort_perm _)) in H. apply pk_shuffle_in in H. apply H.
  - intros H. apply (Permutation_in _ (Permutation_sym (pk_sort_perm _))). apply pk_shuffle_in.
    split; [exact H|apply Hcover; exact H].
Qed.

Lemma pk_gbm_in k : In k (pk_groupby_max order l) -> In k l.
Proof. intros H. apply pk_gbm_sorted_in. apply pk_keep_last_in. exact H. Qed.

Lemma pk_gbm_nodup : NoDup (map pk_key (pk_groupby_max order l)).
Proof. apply pk_keep_last_nodup. Qed.

Lemma pk_gbm_covers k : In k l -> exists w, In w (pk_groupby_max order l) /\ pk_key w = pk_key k.
Proof. intros H. apply pk_keep_last_covers. apply pk_gbm_sorted_in. exact H. Qed.

Lemma pk_gbm_max w k :
  In w (pk_groupby_max order l) -> In k l -> pk_key k = pk_key w -> pk_kscore k <= pk_kscore w.
Proof.
  intros Hw Hk E. apply (pk_keep_last_max (pk_sort (pk_shuffle order l))); [apply pk_sort_sorted|exact Hw| |exact E].
  apply pk_gbm_sorted_in. exact Hk.
Qed.
End GroupbyMax.

(* ====================== the specification side ====================== *)
(* the decoy map used by the lookup (empty when the FASTA has decoys) *)
Definition pk_dmap_of (P : pk_proteins) (dm : list (str * str)) : list (str * str) :=
  if pk_has_decoys P then [] else match pk_decoy_map P dm with Ok m => m | Err _ => [] end.

(* the stripped sequence of row i *)
Definition pk_stripped_at (rows : list pk_row) (i : nat) : str :=
  nth i (st_strip_all (map pk_pep rows)) [].

(* row i (which is r) is a retained peptide of protein group g *)
Definition pk_mapped (P : pk_proteins) (dm : list (str * str)) (rows : list pk_row)
  (i : nat) (r : pk_row) (g : str) : Prop :=
  nth_error rows i = Some r /\ pk_group_of P (pk_dmap_of P dm) (pk_stripped_at rows i) = Some g.

(* entry e reports row i *)
Definition pk_reports (rows : list pk_row) (e : pk_entry) (i : nat) (r : pk_row) : Prop :=
  pk_best e = pk_pep r /\ pk_stripped e = pk_stripped_at rows i /\
  pk_escore e = pk_score r /\ pk_etarget e = pk_target r.

(* contract of the sample oracle, at the level of picked_protein: every retained row is drawn *)
Definition pk_order_ok (P : pk_proteins) (dm : list (str * str)) (rows : list pk_row) (order : list nat) : Prop :=
  forall i r g, pk_mapped P dm rows i r g -> In i order.

Definition pk_entry_key (P : pk_proteins) (e : pk_entry) : str := pk_pair_key P (pk_group e).

(* ====================== the annotated table ====================== *)
Definition pk_arow_of (P : pk_proteins) (dmap : list (str * str)) (rows : list pk_row) (i : nat) (r : pk_row) : pk_arow :=
  {| pk_idx := i; pk_r := r; pk_strip := pk_stripped_at rows i;
     pk_grp := pk_group_of P dmap (pk_stripped_at rows i) |}.

Lemma pk_annotate_in P dmap rows a :
  In a (pk_annotate P dmap rows) <-> exists i r, nth_error rows i = Some r /\ a = pk_arow_of P dmap rows i r.
Proof.
  unfold pk_annotate. set (S := st_strip_all (map pk_pep rows)).
  assert (length S = length rows) as HS by (unfold S; rewrite st_strip_all_length, map_length; reflexivity).
  assert (length rows = length (combine rows S)) as HL by (rewrite combine_length, HS, Nat.min_id; reflexivity).
  rewrite HL. rewrite in_map_iff. split.
  - intros ([i [r s]] & <- & Hin). apply pk_in_indexed in Hin. apply pk_nth_error_combine in Hin.
    destruct Hin as [Hr Hs]. exists i, r. split; [exact Hr|]. cbn [fst snd].
    unfold pk_arow_of, pk_stripped_at. fold S.
    assert (nth i S [] = s) as -> by (apply nth_error_nth; exact Hs). reflexivity.
  - intros (i & r & Hr & ->). exists (i, (r, nth i S [])). split; [reflexivity|].
    apply pk_in_indexed. apply pk_nth_error_combine. split; [exact Hr|].
    apply nth_error_nth'. rewrite HS. apply nth_error_Some. rewrite Hr. discriminate.
Qed.

Definition pk_krow_of (P : pk_proteins) (dmap : list (str * str)) (rows : list pk_row) (i : nat) (r : pk_row) (g : str) : pk_krow :=
  {| pk_a := pk_arow_of P dmap rows i r; pk_g := g; pk_key := pk_pair_key P g |}.

Lemma pk_retained_in P dmap rows k :
  In k (pk_retained P (pk_annotate P dmap rows)) <->
  exists i r g, nth_error rows i = Some r /\ pk_group_of P dmap (pk_stripped_at rows i) = Some g /\
                k = pk_krow_of P dmap rows i r g.
Proof.
  unfold pk_retained. rewrite in_flat_map. split.
  - intros (a & Ha & Hk). apply pk_annotate_in in Ha. destruct Ha as (i & r & Hr & ->).
    unfold pk_keyed in Hk. cbn [pk_arow_of pk_grp] in Hk.
    destruct (pk_group_of P dmap (pk_stripped_at rows i)) as [g|] eqn:Eg; [|contradiction].
    destruct Hk as [<-|[]]. exists i, r, g. split; [exact Hr|]. split; [exact Eg|].
    unfold pk_krow_of, pk_arow_of. rewrite Eg. reflexivity.
  - intros (i & r & g & Hr & Eg & ->). exists (pk_arow_of P dmap rows i r). split.
    + apply pk_annotate_in. exists i, r. split; [exact Hr|reflexivity].
    + unfold pk_keyed. cbn [pk_arow_of pk_grp]. rewrite Eg. left. reflexivity.
Qed.

(* ====================== picked_protein returned a table ====================== *)
Lemma pk_picked_ok_inv P dm order rows out :
  pk_picked P dm order rows = Ok out ->
  let ar := pk_annotate P (pk_dmap_of P dm) rows in
  (pk_has_decoys P = false -> exists m, pk_decoy_map P dm = Ok m) /\
  pk_check_mapped P ar = false /\
  (pk_has_decoys P = true -> pk_check_decoys P ar = false) /\
  pk_retained P ar <> [] /\
  out = map pk_to_entry (pk_groupby_max order (pk_retained P ar)).
Proof.
  unfold pk_picked, pk_dmap_of. destruct (pk_has_decoys P) eqn:Ehd.
  - cbv beta iota zeta. cbn [andb]. destruct (pk_check_mapped P _) eqn:E1; [discriminate|].
    destruct (pk_check_decoys P _) eqn:E2; [discriminate|].
    destruct (pk_retained P _) as [|k kept] eqn:E3; [discriminate|].
    intros H. injection H as <-.
    repeat split; try discriminate; reflexivity.
  - destruct (pk_decoy_map P dm) as [m|e] eqn:Edm; [|discriminate].
    cbv beta iota zeta. cbn [andb]. destruct (pk_check_mapped P _) eqn:E1; [discriminate|].
    destruct (pk_retained P _) as [|k kept] eqn:E3; [discriminate|].
    intros H. injection H as <-.
    repeat split; try discriminate; try reflexivity. intros _. exists m. reflexivity.
Qed.

Lemma pk_picked_facts P dm order rows out :
  pk_picked P dm order rows = Ok out -> pk_order_ok P dm rows order ->
  exists gm : list pk_krow,
    out = map pk_to_entry gm /\ NoDup (map pk_key gm) /\
    (forall w, In w gm -> exists i r g, pk_mapped P dm rows i r g /\ w = pk_krow_of P (pk_dmap_of P dm) rows i r g) /\
    (forall i r g, pk_mapped P dm rows i r g -> exists w, In w gm /\ pk_key w = pk_pair_key P g) /\
    (forall w i r g, In w gm -> pk_mapped P dm rows i r g -> pk_pair_key P g = pk_key w ->
                     pk_score r <= pk_kscore w).
Proof.
  intros Hrun Hord. destruct (pk_picked_ok_inv _ _ _ _ _ Hrun) as (_ & _ & _ & _ & Hout). cbv zeta in Hout.
  set (dmap := pk_dmap_of P dm) in *. set (kept := pk_retained P (pk_annotate P dmap rows)) in *.
  assert (forall k, In k kept -> In (pk_idx (pk_a k)) order) as Hcover.
  { intros k Hk. apply pk_retained_in in Hk. destruct Hk as (i & r & g & Hr & Eg & ->).
    cbn. apply (Hord i r g). split; assumption. }
  exists (pk_groupby_max order kept). split; [exact Hout|]. split; [apply pk_gbm_nodup|]. split; [|split].
  - intros w Hw. apply (pk_gbm_in order kept Hcover) in Hw. apply pk_retained_in in Hw.
    destruct Hw as (i & r & g & Hr & Eg & ->). exists i, r, g. split; [split; assumption|reflexivity].
  - intros i r g [Hr Eg].
    destruct (pk_gbm_covers order kept Hcover (pk_krow_of P dmap rows i r g)) as (w & Hw & Ew).
    { apply pk_retained_in. exists i, r, g. repeat split; assumption. }
    exists w. split; [exact Hw|exact Ew].
  - intros w i r g Hw [Hr Eg] Ek.
    apply (pk_gbm_max order kept Hcover w (pk_krow_of P dmap rows i r g) Hw); [|exact Ek].
    apply pk_retained_in. exists i, r, g. repeat split; assumption.
Qed.

(* ====================== the theorems ====================== *)
(* exactly one entry per target/decoy pair that has a retained peptide *)
Theorem pk_one_per_pair P dm order rows out :
  pk_picked P dm order rows = Ok out -> pk_order_ok P dm rows order ->
  NoDup (map (pk_entry_key P) out) /\
  forall k, In k (map (pk_entry_key P) out) <-> exists i r g, pk_mapped P dm rows i r g /\ pk_pair_key P g = k.
Proof.
  intros Hrun Hord. destruct (pk_picked_facts _ _ _ _ _ Hrun Hord) as (gm & -> & Hnd & Hfrom & Hcov & _).
  assert (map (pk_entry_key P) (map pk_to_entry gm) = map pk_key gm) as Ekeys.
  { rewrite map_map. apply map_ext_in. intros w Hw. destruct (Hfrom w Hw) as (i & r & g & _ & ->). reflexivity. }
  rewrite Ekeys. split; [exact Hnd|]. intros k. split.
  - intros Hk. apply in_map_iff in Hk. destruct Hk as (w & <- & Hw).
    destruct (Hfrom w Hw) as (i & r & g & Hm & ->). exists i, r, g. split; [exact Hm|reflexivity].
  - intros (i & r & g & Hm & <-). destruct (Hcov i r g Hm) as (w & Hw & Ew). rewrite <- Ew. apply in_map. exact Hw.
Qed.

(* every entry reports a best-scoring retained peptide of its pair, with the group owning it *)
Theorem pk_best_peptide P dm order rows out :
  pk_picked P dm order rows = Ok out -> pk_order_ok P dm rows order ->
  forall e, In e out ->
    exists i r, pk_mapped P dm rows i r (pk_group e) /\ pk_reports rows e i r /\
      forall j r' g', pk_mapped P dm rows j r' g' -> pk_pair_key P g' = pk_entry_key P e ->
                      pk_score r' <= pk_escore e.
Proof.
  intros Hrun Hord e He. destruct (pk_picked_facts _ _ _ _ _ Hrun Hord) as (gm & -> & _ & Hfrom & _ & Hmax).
  apply in_map_iff in He. destruct He as (w & <- & Hw).
  destruct (Hfrom w Hw) as (i & r & g & Hm & Ew). exists i, r. subst w. split; [exact Hm|]. split.
  - repeat split.
  - intros j r' g' Hm' Ek. apply (Hmax _ j r' g' Hw Hm'). exact Ek.
Qed.

(* a sequence that the unique-peptide map (and, for a target-only FASTA, the decoy map) does not know
   -- shared or foreign -- represents no entry *)
Theorem pk_unmapped_never P dm order rows out :
  pk_picked P dm order rows = Ok out -> pk_order_ok P dm rows order ->
  forall e, In e out -> pk_group_of P (pk_dmap_of P dm) (pk_stripped e) = Some (pk_group e).
Proof.
  intros Hrun Hord e He. destruct (pk_best_peptide _ _ _ _ _ Hrun Hord e He) as (i & r & [_ Hg] & (_ & Hs & _) & _).
  rewrite Hs. exact Hg.
Qed.

Corollary pk_shared_never P dm order rows out :
  pk_picked P dm order rows = Ok out -> pk_order_ok P dm rows order ->
  (forall s, In s (pk_shared P) -> pk_group_of P (pk_dmap_of P dm) s = None) ->
  forall e, In e out -> ~ In (pk_stripped e) (pk_shared P).
Proof.
  intros Hrun Hord Hwf e He Hin.
  pose proof (pk_unmapped_never _ _ _ _ _ Hrun Hord e He) as H. rewrite (Hwf _ Hin) in H. discriminate.
Qed.

(* with decoys in the FASTA the premise is the disjointness read_fasta guarantees *)
Lemma pk_shared_disjoint_has_decoys P dm :
  pk_has_decoys P = true ->
  (forall s, In s (pk_shared P) -> pk_get s (pk_pepmap P) = None) ->
  forall s, In s (pk_shared P) -> pk_group_of P (pk_dmap_of P dm) s = None.
Proof. intros Hd H s Hs. unfold pk_group_of. rewrite (H s Hs), Hd. reflexivity. Qed.

(* rows that are not retained (shared, unknown) have no influence on which pairs are reported and
   with which score: two tables with the same retained (row, group) pairs give the same pair -> score *)
Theorem pk_retained_determine P dm1 dm2 order1 order2 rows1 rows2 out1 out2 :
  pk_picked P dm1 order1 rows1 = Ok out1 -> pk_order_ok P dm1 rows1 order1 ->
  pk_picked P dm2 order2 rows2 = Ok out2 -> pk_order_ok P dm2 rows2 order2 ->
  (forall r g, (exists i, pk_mapped P dm1 rows1 i r g) <-> (exists j, pk_mapped P dm2 rows2 j r g)) ->
  forall e1, In e1 out1 ->
    exists e2, In e2 out2 /\ pk_entry_key P e2 = pk_entry_key P e1 /\ pk_escore e2 = pk_escore e1.
Proof.
  intros H1 O1 H2 O2 Hsame e1 He1.
  destruct (pk_best_peptide _ _ _ _ _ H1 O1 e1 He1) as (i & r & Hm1 & (_ & _ & Hs1 & _) & Hmax1).
  destruct (proj1 (Hsame r (pk_group e1)) (ex_intro _ i Hm1)) as (j & Hm2).
  destruct (pk_one_per_pair _ _ _ _ _ H2 O2) as [_ Hk2].
  assert (In (pk_entry_key P e1) (map (pk_entry_key P) out2)) as Hin2.
  { apply Hk2. exists j, r, (pk_group e1). split; [exact Hm2|reflexivity]. }
  apply in_map_iff in Hin2. destruct Hin2 as (e2 & Ek & He2). exists e2. split; [exact He2|]. split; [exact Ek|].
  destruct (pk_best_peptide _ _ _ _ _ H2 O2 e2 He2) as (j' & r' & Hm2' & (_ & _ & Hs2 & _) & Hmax2).
  destruct (proj2 (Hsame r' (pk_group e2)) (ex_intro _ j' Hm2')) as (i' & Hm1').
  assert (pk_score r <= pk_escore e2) as A by (apply (Hmax2 j r (pk_group e1) Hm2); symmetry; exact Ek).
  assert (pk_score r' <= pk_escore e1) as B by (apply (Hmax1 i' r' (pk_group e2) Hm1'); exact Ek).
  lia.
Qed.

(* ====================== errors ====================== *)
Theorem pk_picked_errors P dm order rows e :
  pk_picked P dm order rows = Err e ->
  let ar := pk_annotate P (pk_dmap_of P dm) rows in
  (e = EKey /\ pk_has_decoys P = false /\ pk_decoy_map P dm = Err EKey) \/
  (e = EValue /\ (pk_check_mapped P ar = true \/ (pk_has_decoys P = true /\ pk_check_decoys P ar = true))) \/
  (e = EKey /\ forall i r g, ~ pk_mapped P dm rows i r g).
Proof.
  assert (forall m, pk_decoy_map P m = Err e -> e = EKey) as Hdm.
  { induction m as [|[d t] m IH]; cbn; [discriminate|].
    destruct (pk_get t (pk_pepmap P)); [|intros H; injection H as <-; reflexivity].
    destruct (pk_decoy_map P m); [discriminate|]. intros H. injection H as ->. apply IH. reflexivity. }
  unfold pk_picked, pk_mapped, pk_dmap_of. destruct (pk_has_decoys P) eqn:Ehd.
  - cbv beta iota zeta. cbn [andb]. destruct (pk_check_mapped P _) eqn:E1.
    { intros H. injection H as <-. right. left. split; [reflexivity|]. left. reflexivity. }
    destruct (pk_check_decoys P _) eqn:E2.
    { intros H. injection H as <-. right. left. split; [reflexivity|]. right. split; reflexivity. }
    destruct (pk_retained P _) as [|k kept] eqn:E3; [|discriminate].
    intros H. injection H as <-. right. right. split; [reflexivity|]. intros i r g [Hr Hg].
    assert (In (pk_krow_of P [] rows i r g) (pk_retained P (pk_annotate P [] rows))) as Hin.
    { apply pk_retained_in. exists i, r, g. repeat split; assumption. }
    rewrite E3 in Hin. contradiction.
  - destruct (pk_decoy_map P dm) as [m|e'] eqn:Edm.
    + cbv beta iota zeta. cbn [andb]. destruct (pk_check_mapped P _) eqn:E1.
      { intros H. injection H as <-. right. left. split; [reflexivity|]. left. reflexivity. }
      destruct (pk_retained P _) as [|k kept] eqn:E3; [|discriminate].
      intros H. injection H as <-. right. right. split; [reflexivity|]. intros i r g [Hr Hg].
      assert (In (pk_krow_of P m rows i r g) (pk_retained P (pk_annotate P m rows))) as Hin.
      { apply pk_retained_in. exists i, r, g. repeat split; assumption. }
      rewrite E3 in Hin. contradiction.
    + intros H. injection H as ->. pose proof (Hdm dm Edm) as ->. left. repeat split; reflexivity.
Qed.

Lemma pk_count_zero f l : (forall a, In a l -> f a = false) -> pk_count f l = 0.
Proof.
  intros H. unfold pk_count. induction l as [|a l IH]; [reflexivity|]. cbn [filter].
  rewrite (H a (or_introl eq_refl)). apply IH. intros b Hb. apply H. right. exact Hb.
Qed.

(* a table all of whose peptides are unique peptides of the database is never rejected *)
Theorem pk_picked_accepts P dm order rows :
  pk_has_decoys P = true -> rows <> [] ->
  (forall i r, nth_error rows i = Some r -> exists g, pk_mapped P dm rows i r g) ->
  exists out, pk_picked P dm order rows = Ok out.
Proof.
  intros Hd Hne Hall. unfold pk_picked. rewrite Hd. cbv beta iota zeta. cbn [andb].
  assert (pk_dmap_of P dm = []) as Edm by (unfold pk_dmap_of; rewrite Hd; reflexivity).
  assert (forall a, In a (pk_annotate P [] rows) -> pk_unmatched P a = false) as Hun.
  { intros a Ha. apply pk_annotate_in in Ha. destruct Ha as (i & r & Hr & ->).
    destruct (Hall i r Hr) as (g & _ & Hg). rewrite Edm in Hg.
    unfold pk_unmatched, pk_arow_of. cbn [pk_grp]. rewrite Hg. reflexivity. }
  assert (pk_check_mapped P (pk_annotate P [] rows) = false) as ->.
  { unfold pk_check_mapped. rewrite pk_count_zero; [reflexivity|]. intros a Ha. rewrite (Hun a Ha). reflexivity. }
  assert (pk_check_decoys P (pk_annotate P [] rows) = false) as ->.
  { unfold pk_check_decoys. rewrite (pk_count_zero (fun a => pk_unmatched P a && _ && _)).
    - destruct (_ =? 0); [reflexivity|]. apply Z.ltb_ge. cbn. unfold pk_count. lia.
    - intros a Ha. rewrite (Hun a Ha). reflexivity. }
  destruct rows as [|r0 rows']; [contradiction|].
  destruct (Hall 0%nat r0 eq_refl) as (g & Hr & Hg). rewrite Edm in Hg.
  destruct (pk_retained P (pk_annotate P [] (r0 :: rows'))) as [|k kept] eqn:E3.
  - assert (In (pk_krow_of P [] (r0 :: rows') 0 r0 g) (pk_retained P (pk_annotate P [] (r0 :: rows')))) as Hin.
    { apply pk_retained_in. exists 0%nat, r0, g. repeat split; assumption. }
    rewrite E3 in Hin. contradiction.
  - eexists. reflexivity.
Qed.

(* ====================== protein q-values ====================== *)
Definition pk_st (es : list pk_entry) : list (Z * bool) := map (fun e => (pk_escore e, pk_etarget e)) es.

Lemma pk_combine_st es : combine (map pk_escore es) (map pk_etarget es) = pk_st es.
Proof. unfold pk_st. induction es as [|e es IH]; [reflexivity|]. cbn. rewrite IH. reflexivity. Qed.

Lemma pk_protein_q_spec es :
  length (pk_protein_q es) = length es /\
  forall e q, In (e, q) (combine es (pk_protein_q es)) -> is_qvalue true (pk_st es) (pk_escore e) q.
Proof.
  unfold pk_protein_q.
  assert (length (map pk_escore es) = length (map pk_etarget es)) as Hlen by (rewrite !map_length; reflexivity).
  destruct (tdc_core_spec true _ _ Hlen) as [Hl Hq]. rewrite map_length in Hl. split; [exact Hl|].
  intros e q Hin. set (qs := tdc_core true (map pk_escore es) (map pk_etarget es)) in *.
  destruct (In_nth _ _ (e, 1%Q) Hin) as (i & Hi & Hn).
  rewrite combine_length, Hl, Nat.min_id in Hi. rewrite combine_nth in Hn by (symmetry; exact Hl).
  injection Hn as He Hqv. specialize (Hq i). rewrite map_length in Hq. specialize (Hq Hi).
  rewrite pk_combine_st in Hq. fold qs in Hq. rewrite Hqv in Hq.
  rewrite (nth_indep _ 0 (pk_escore e)) in Hq by (rewrite map_length; exact Hi).
  rewrite map_nth, He in Hq. exact Hq.
Qed.

(* the q-value written next to every protein entry is the C01 q-value over exactly the entries *)
Theorem pk_qvalues P dm order rows outq :
  pk_picked_q P dm order rows = Ok outq ->
  pk_picked P dm order rows = Ok (map fst outq) /\
  forall e q, In (e, q) outq -> is_qvalue true (pk_st (map fst outq)) (pk_escore e) q.
Proof.
  unfold pk_picked_q. destruct (pk_picked P dm order rows) as [es|]; [|discriminate].
  intros H. injection H as <-. destruct (pk_protein_q_spec es) as [Hl Hq].
  rewrite map_fst_combine by (symmetry; exact Hl). split; [reflexivity|exact Hq].
Qed.

(* ====================== group names ====================== *)
Definition pk_no_comma (m : str) : bool := forallb (fun c => negb (c =? 44)) m.

(* ", ".join(members) *)
Fixpoint pk_join_names (ms : list str) : str :=
  match ms with
  | [] => []
  | [m] => m
  | m :: r => m ++ 44 :: 32 :: pk_join_names r
  end.

Lemma pk_first_member_app m rest : pk_no_comma m = true -> pk_first_member (m ++ 44 :: rest) = m.
Proof.
  induction m as [|c m IH]; intros H; [reflexivity|].
  cbn [pk_no_comma forallb] in H. apply andb_prop in H. destruct H as [Hc Hm].
  cbn [app pk_first_member]. destruct (c =? 44); [discriminate|]. rewrite IH by exact Hm. reflexivity.
Qed.

Lemma pk_first_member_single m : pk_no_comma m = true -> pk_first_member m = m.
Proof.
  induction m as [|c m IH]; intros H; [reflexivity|].
  cbn [pk_no_comma forallb] in H. apply andb_prop in H. destruct H as [Hc Hm].
  cbn [pk_first_member]. destruct (c =? 44); [discriminate|]. rewrite IH by exact Hm. reflexivity.
Qed.

Lemma pk_first_member_join m ms : pk_no_comma m = true -> pk_first_member (pk_join_names (m :: ms)) = m.
Proof.
  intros H. destruct ms as [|m2 ms]; [apply pk_first_member_single; exact H|].
  cbn [pk_join_names]. apply pk_first_member_app. exact H.
Qed.

(* a target group led by t and the decoy group led by protein_map[t] have the same pairing key *)
Theorem pk_pair_key_paired P t d ts ds :
  pk_no_comma t = true -> pk_no_comma d = true ->
  pk_get t (pk_protmap P) = Some d -> pk_get d (pk_protmap P) = None ->
  pk_pair_key P (pk_join_names (t :: ts)) = d /\ pk_pair_key P (pk_join_names (d :: ds)) = d.
Proof.
  intros Ht Hd Et Ed. unfold pk_pair_key. rewrite !pk_first_member_join by assumption.
  rewrite Et, Ed. split; reflexivity.
Qed.

(* the decoy group made for a target-only FASTA: every member gets the prefix *)
Lemma pk_prefix_tail_member pre m rest :
  pk_no_comma m = true ->
  pk_prefix_tail pre (m ++ 44 :: 32 :: rest) = m ++ 44 :: 32 :: pre ++ pk_prefix_tail pre rest.
Proof.
  induction m as [|c m IH]; intros H; [reflexivity|].
  cbn [pk_no_comma forallb] in H. apply andb_prop in H. destruct H as [Hc Hm].
  assert (c =? 44 = false) as Ec by (destruct (c =? 44); [discriminate|reflexivity]).
  destruct m as [|c2 m2].
  - cbn [app pk_prefix_tail]. rewrite Ec. cbn [andb]. change (44 =? 44) with true. change (32 =? 32) with true.
    cbn [andb]. reflexivity.
  - specialize (IH Hm). cbn [app] in *. cbn [pk_prefix_tail]. rewrite Ec. cbn [andb].
    cbn [pk_prefix_tail] in IH. rewrite IH. reflexivity.
Qed.

Lemma pk_prefix_tail_single pre m : pk_no_comma m = true -> pk_prefix_tail pre m = m.
Proof.
  induction m as [|c m IH]; intros H; [reflexivity|].
  cbn [pk_no_comma forallb] in H. apply andb_prop in H. destruct H as [Hc Hm].
  assert (c =? 44 = false) as Ec by (destruct (c =? 44); [discriminate|reflexivity]).
  destruct m as [|c2 m2]; [reflexivity|]. specialize (IH Hm).
  cbn [pk_prefix_tail]. rewrite Ec. cbn [andb]. cbn [pk_prefix_tail] in IH. rewrite IH. reflexivity.
Qed.

Theorem pk_prefix_members_join pre ms :
  ms <> [] -> Forall (fun m => pk_no_comma m = true) ms ->
  pk_prefix_members pre (pk_join_names ms) = pk_join_names (map (fun m => pre ++ m) ms).
Proof.
  unfold pk_prefix_members. induction ms as [|m ms IH]; intros Hne H; [contradiction|].
  apply Forall_cons_iff in H. destruct H as [Hm Hms].
  destruct ms as [|m2 ms].
  - cbn [pk_join_names map]. rewrite pk_prefix_tail_single by exact Hm. reflexivity.
  - cbn [pk_join_names map] in *. rewrite pk_prefix_tail_member by exact Hm.
    rewrite <- app_assoc. cbn [app]. f_equal. f_equal. f_equal. f_equal. apply IH; [discriminate|exact Hms].
Qed.
