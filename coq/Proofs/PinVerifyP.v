(* PinVerifyP.v — the verify step on a well-formed PIN: it never raises, leaves a valid table and is a
   no-op when run again (C19). *)
From Mokaverif Require Import Model.Base Model.PinTsv Model.PinVerify Proofs.PinTsvP.
Open Scope Z_scope.

Lemma pin_lines_ok sepc p : sepc <> NL -> wf sepc p -> Forall line_ok (pin_lines sepc p).
Proof.
  intros Hs Hwf.
  pose proof (header_ok sepc p Hs Hwf) as Hh.
  pose proof (rows_lines_ok sepc p Hs Hwf) as HRL.
  destruct Hwf as (_ & _ & _ & _ & _ & _ & Hdd).
  unfold pin_lines. constructor; [exact Hh|]. apply Forall_app. split; [|exact HRL].
  destruct (dd p) as [d|]; [|constructor]. destruct Hdd as (Hp & Hn & Hld).
  constructor; [|constructor]. apply dd_line_ok; assumption.
Qed.

(* a rendered well-formed PIN has a header line (and any number of further lines, none included):
   is_valid_tsv does not raise *)
Lemma with_nl_nonempty final_nl l ls : with_nl final_nl (l :: ls) <> [].
Proof. destruct ls; [destruct final_nl|]; discriminate. Qed.

Lemma is_valid_total sepc final_nl p : sepc <> NL -> wf sepc p ->
  exists b, is_valid_sep sepc (render_pin sepc final_nl p) = Ok b.
Proof.
  intros Hs Hwf. pose proof (pin_lines_ok sepc p Hs Hwf) as HL.
  unfold is_valid_sep, render_pin.
  rewrite lines_render by (eapply Forall_impl; [|exact HL]; intros l; apply line_ok_render).
  unfold pin_lines.
  destruct (with_nl final_nl
              (join sepc (hdr p) :: (match dd p with Some d => [d] | None => [] end) ++ map (row_line sepc) (rows p)))
    as [|h [|l2 more]] eqn:EW.
  - exfalso. exact (with_nl_nonempty _ _ _ EW).
  - eexists; reflexivity.
  - destruct (prefixb DEFAULTDIRECTION l2); [eexists; reflexivity|].
    destruct (negb _); eexists; reflexivity.
Qed.

Theorem pin_verify_ok final_nl p : wf TAB p -> out_ok TAB [COLON] p ->
  exists t, pin_verify_text (render_pin TAB final_nl p) = Ok t /\
    ((t = render_pin TAB final_nl p /\ is_valid (render_pin TAB final_nl p) = Ok true)
     \/ (t = render_tsv TAB [COLON] p /\ is_valid (render_pin TAB final_nl p) = Ok false)) /\
    is_valid t = Ok true /\ pin_verify_text t = Ok t.
Proof.
  intros Hwf Hout.
  assert (TAB <> NL) as Hs by discriminate.
  destruct (is_valid_total TAB final_nl p Hs Hwf) as [b Hb].
  pose proof (valid_output TAB [COLON] p Hs Hwf Hout) as Hv.
  change (is_valid_sep TAB (render_pin TAB final_nl p)) with (is_valid (render_pin TAB final_nl p)) in Hb.
  change (is_valid_sep TAB (render_tsv TAB [COLON] p)) with (is_valid (render_tsv TAB [COLON] p)) in Hv.
  destruct b.
  - exists (render_pin TAB final_nl p).
    assert (pin_verify_text (render_pin TAB final_nl p) = Ok (render_pin TAB final_nl p)) as HV
      by (unfold pin_verify_text; rewrite Hb; reflexivity).
    split; [exact HV|]. split; [left; split; [reflexivity|exact Hb]|].
    split; [exact Hb|exact HV].
  - exists (render_tsv TAB [COLON] p).
    split; [unfold pin_verify_text; rewrite Hb; exact (convert_file_default_ok final_nl p Hwf)|].
    split; [right; split; [reflexivity|exact Hb]|].
    split; [exact Hv|]. unfold pin_verify_text. rewrite Hv. reflexivity.
Qed.

(* a text that is_valid_tsv accepts is not touched at all (whatever it is) *)
Lemma pin_verify_valid_untouched txt : is_valid txt = Ok true -> pin_verify_text txt = Ok txt.
Proof. intros H. unfold pin_verify_text. rewrite H. reflexivity. Qed.
