(* Proofs about Model/Rollup.v (C03, the stand-alone rollup tool). *)
From Coq Require Import Lia Permutation Sorted.
From Mokaverif Require Import Model.Base Model.Tdc Model.PinCols Model.Merge Model.Confidence Model.Rollup.
From Mokaverif Require Import Proofs.BaseP Proofs.TdcP Proofs.MergeP Proofs.ConfidenceP.
Open Scope Z_scope.

(* ====================== compute_rollup_levels ====================== *)
(* the declarative closure: x descends from the base level through the child -> parent table *)
Inductive ru_desc (parents : list (str * str)) (base : str) : str -> Prop :=
| ru_desc_base : ru_desc parents base base
| ru_desc_child : forall c p, In (c, p) parents -> ru_desc parents base p -> ru_desc parents base c.

Section Closure.
Variable parents : list (str * str).
Variable base : str.

Definition ru_inv (lv : list str) : Prop :=
  hd_error lv = Some base /\ NoDup lv /\ forall x, In x lv -> ru_desc parents base x.

Lemma ru_step_cases acc cp :
  (mem_str (snd cp) (fst acc) && negb (mem_str (fst cp) (fst acc)) = true /\
   In (snd cp) (fst acc) /\ ~ In (fst cp) (fst acc) /\
   ru_sweep_step acc cp = (fst acc ++ [fst cp], true)) \/
  (mem_str (snd cp) (fst acc) && negb (mem_str (fst cp) (fst acc)) = false /\
   (In (snd cp) (fst acc) -> In (fst cp) (fst acc)) /\
   ru_sweep_step acc cp = acc).
Proof.
  unfold ru_sweep_step.
  destruct (mem_str (snd cp) (fst acc) && negb (mem_str (fst cp) (fst acc))) eqn:E.
  - left. apply andb_true_iff in E. destruct E as [E1 E2]. apply negb_true_iff in E2.
    apply b_mem_str_in in E1. apply b_mem_str_notin in E2. repeat split; assumption.
  - right. split; [reflexivity|]. split; [|reflexivity]. intros Hp.
    apply andb_false_iff in E. destruct E as [E|E].
    + apply b_mem_str_notin in E. contradiction.
    + apply negb_false_iff in E. apply b_mem_str_in in E. exact E.
Qed.

Lemma ru_step_inv acc cp : In cp parents -> ru_inv (fst acc) -> ru_inv (fst (ru_sweep_step acc cp)).
Proof.
  intros Hin (Hh & Hn & Hd).
  destruct (ru_step_cases acc cp) as [(_ & Hp & Hc & ->)|(_ & _ & ->)]; [|repeat split; assumption].
  cbn [fst]. split; [|split].
  - destruct (fst acc) as [|a t]; [discriminate|exact Hh].
  - apply (Permutation_NoDup (l := fst cp :: fst acc)); [apply Permutation_cons_append|].
    constructor; assumption.
  - intros x Hx. apply in_app_or in Hx. destruct Hx as [Hx|[<-|[]]]; [apply Hd; exact Hx|].
    apply (ru_desc_child parents base (fst cp) (snd cp)); [destruct cp; exact Hin|apply Hd; exact Hp].
Qed.

Lemma ru_step_mono acc cp x : In x (fst acc) -> In x (fst (ru_sweep_step acc cp)).
Proof.
  intros Hx. destruct (ru_step_cases acc cp) as [(_ & _ & _ & ->)|(_ & _ & ->)]; [|exact Hx].
  cbn [fst]. apply in_or_app. left. exact Hx.
Qed.

Lemma ru_fold_inv ps : forall acc, incl ps parents -> ru_inv (fst acc) ->
  ru_inv (fst (fold_left ru_sweep_step ps acc)).
Proof.
  induction ps as [|cp ps IH]; intros acc Hi H; simpl; [exact H|].
  apply IH; [intros x Hx; apply Hi; right; exact Hx|]. apply ru_step_inv; [apply Hi; left; reflexivity|exact H].
Qed.

Lemma ru_fold_mono ps : forall acc x, In x (fst acc) -> In x (fst (fold_left ru_sweep_step ps acc)).
Proof.
  induction ps as [|cp ps IH]; intros acc x H; simpl; [exact H|]. apply IH. apply ru_step_mono. exact H.
Qed.

(* a sweep that reports "unchanged" changed nothing, and the levels are closed under the entries swept *)
Lemma ru_fold_false ps : forall acc, snd (fold_left ru_sweep_step ps acc) = false ->
  snd acc = false /\ fst (fold_left ru_sweep_step ps acc) = fst acc /\
  forall c p, In (c, p) ps -> In p (fst acc) -> In c (fst acc).
Proof.
  induction ps as [|cp ps IH]; intros acc H; simpl in *.
  - split; [exact H|]. split; [reflexivity|]. intros c p [].
  - destruct (IH _ H) as (H1 & H2 & H3).
    destruct (ru_step_cases acc cp) as [(_ & _ & _ & E)|(_ & Hc & E)]; rewrite E in *; [discriminate|].
    split; [exact H1|]. split; [exact H2|]. intros c p [Ecp|Hin] Hp; [subst cp; apply Hc; exact Hp|].
    apply (H3 c p); assumption.
Qed.

(* a sweep that reports "changed" added a child of the table that was not there *)
Lemma ru_fold_true ps : forall acc, snd acc = false -> snd (fold_left ru_sweep_step ps acc) = true ->
  exists cp, In cp ps /\ ~ In (fst cp) (fst acc) /\ In (fst cp) (fst (fold_left ru_sweep_step ps acc)).
Proof.
  induction ps as [|cp ps IH]; intros acc Hf H; simpl in *; [congruence|].
  destruct (ru_step_cases acc cp) as [(_ & _ & Hc & E)|(_ & _ & E)]; rewrite E in *.
  - exists cp. split; [left; reflexivity|]. split; [exact Hc|].
    apply ru_fold_mono. cbn [fst]. apply in_or_app. right. left. reflexivity.
  - destruct (IH acc Hf H) as (cp' & Hin & Hn & Hi). exists cp'. split; [right; exact Hin|]. split; assumption.
Qed.

(* ---------- termination measure: entries whose child is still missing ---------- *)
Definition ru_missing (lv : list str) : nat :=
  length (filter (fun cp : str * str => negb (mem_str (fst cp) lv)) parents).

Lemma ru_filter_le {A} (f g : A -> bool) l :
  (forall y, In y l -> g y = true -> f y = true) -> (length (filter g l) <= length (filter f l))%nat.
Proof.
  induction l as [|a l IH]; intros H; simpl; [lia|].
  assert (length (filter g l) <= length (filter f l))%nat as Hl
    by (apply IH; intros y Hy; apply H; right; exact Hy).
  destruct (g a) eqn:Eg.
  - rewrite (H a (or_introl eq_refl) Eg). simpl. lia.
  - destruct (f a); simpl; lia.
Qed.

Lemma ru_filter_lt {A} (f g : A -> bool) l x :
  (forall y, In y l -> g y = true -> f y = true) -> In x l -> f x = true -> g x = false ->
  (length (filter g l) < length (filter f l))%nat.
Proof.
  induction l as [|a l IH]; intros H Hin Hf Hg; [destruct Hin|]. simpl.
  assert (forall y, In y l -> g y = true -> f y = true) as H' by (intros y Hy; apply H; right; exact Hy).
  destruct Hin as [->|Hin].
  - rewrite Hf, Hg. simpl. pose proof (ru_filter_le f g l H'). lia.
  - specialize (IH H' Hin Hf Hg). destruct (g a) eqn:Eg.
    + rewrite (H a (or_introl eq_refl) Eg). simpl. lia.
    + destruct (f a); simpl; lia.
Qed.

Lemma ru_missing_bound lv : (ru_missing lv <= length parents)%nat.
Proof.
  unfold ru_missing. generalize (fun cp : str * str => negb (mem_str (fst cp) lv)). intros f.
  induction parents as [|a l IH]; simpl; [lia|]. destruct (f a); simpl; lia.
Qed.

Lemma ru_sweep_decreases lv : snd (ru_sweep parents lv) = true ->
  (ru_missing (fst (ru_sweep parents lv)) < ru_missing lv)%nat.
Proof.
  unfold ru_sweep. intros H.
  destruct (ru_fold_true parents (lv, false) eq_refl H) as (cp & Hin & Hn & Hi). cbn [fst] in Hn.
  unfold ru_missing. apply (ru_filter_lt _ _ parents cp).
  - intros y _ Hy. apply negb_true_iff in Hy. apply negb_true_iff.
    apply b_mem_str_notin in Hy. apply b_mem_str_notin. intros Hy'. apply Hy.
    apply (ru_fold_mono parents (lv, false)). exact Hy'.
  - exact Hin.
  - apply negb_true_iff. apply b_mem_str_notin. exact Hn.
  - apply negb_false_iff. apply b_mem_str_in. exact Hi.
Qed.

Lemma ru_closure_total fuel : forall lv, (ru_missing lv < fuel)%nat ->
  exists out, ru_closure fuel parents lv = Ok out.
Proof.
  induction fuel as [|f IH]; intros lv H; [lia|]. cbn [ru_closure].
  destruct (snd (ru_sweep parents lv)) eqn:E; [|eexists; reflexivity].
  apply IH. pose proof (ru_sweep_decreases lv E). lia.
Qed.

Lemma ru_closure_spec fuel : forall lv out, ru_inv lv -> ru_closure fuel parents lv = Ok out ->
  ru_inv out /\ forall c p, In (c, p) parents -> In p out -> In c out.
Proof.
  induction fuel as [|f IH]; intros lv out Hinv H; [discriminate|]. cbn [ru_closure] in H.
  assert (ru_inv (fst (ru_sweep parents lv))) as Hinv'
    by (apply (ru_fold_inv parents (lv, false)); [apply incl_refl|exact Hinv]).
  destruct (snd (ru_sweep parents lv)) eqn:E; [apply (IH _ _ Hinv' H)|].
  injection H as <-. split; [exact Hinv'|].
  destruct (ru_fold_false parents (lv, false) E) as (_ & E2 & Hc). cbn [fst] in E2, Hc.
  unfold ru_sweep. rewrite E2. exact Hc.
Qed.

(* compute_rollup_levels never runs out of fuel; its result starts with the base level, has no
   repetition, and is exactly the set of descendants of the base level *)
Theorem ru_levels_closure :
  exists lv, ru_compute_levels parents base = Ok lv /\
    hd_error lv = Some base /\ NoDup lv /\
    (forall x, In x lv <-> ru_desc parents base x) /\
    (forall c p, In (c, p) parents -> In p lv -> In c lv).
Proof.
  unfold ru_compute_levels.
  destruct (ru_closure_total (S (length parents)) [base]) as (lv & E).
  { pose proof (ru_missing_bound [base]). lia. }
  exists lv. split; [exact E|].
  assert (ru_inv [base]) as Hinit.
  { split; [reflexivity|]. split; [constructor; [intros []|constructor]|].
    intros x [<-|[]]. constructor. }
  destruct (ru_closure_spec _ _ _ Hinit E) as ((Hh & Hn & Hd) & Hc).
  split; [exact Hh|]. split; [exact Hn|]. split; [|exact Hc].
  intros x. split; [apply Hd|]. intros Hx. induction Hx as [|c p Hin _ IH].
  - destruct lv as [|a t]; [discriminate|]. injection Hh as ->. left. reflexivity.
  - apply (Hc c p); assumption.
Qed.
End Closure.

Lemma ru_levels_total base cols : exists levels, ru_levels base cols = Ok levels.
Proof.
  unfold ru_levels. destruct (ru_levels_closure ru_default_parents base) as (lv & -> & _).
  eexists. reflexivity.
Qed.

(* ====================== the scan ====================== *)
Section Scan.
Variable row : Type.

Lemma ru_level_fold key (stream : list row) : forall seen out,
  snd (fold_left (fun st r => ru_level_step r key st) stream (seen, out)) = out ++ fs_aux key seen stream.
Proof.
  induction stream as [|r rest IH]; intros seen out; simpl; [rewrite app_nil_r; reflexivity|].
  unfold ru_level_step at 2. cbn [fst snd].
  destruct (cf_memz (key r) seen); [apply IH|]. rewrite IH, <- app_assoc. reflexivity.
Qed.

Lemma ru_scan_cons k ks (stream : list row) : forall s st,
  fold_left (fun st r => ru_row_step (k :: ks) r st) stream (s :: st)
  = fold_left (fun s r => ru_level_step r k s) stream s
    :: fold_left (fun st r => ru_row_step ks r st) stream st.
Proof.
  induction stream as [|r rest IH]; intros s st; simpl; [reflexivity|]. apply IH.
Qed.

(* every temp file is the first-seen-per-key subsequence of the merged stream *)
Theorem ru_scan_spec (keys : list (row -> Z)) stream :
  ru_scan keys stream = map (fun k => fs k stream) keys.
Proof.
  unfold ru_scan. induction keys as [|k ks IH]; simpl.
  - induction stream as [|r rest IHs]; simpl; [reflexivity|exact IHs].
  - rewrite ru_scan_cons. simpl. rewrite IH. f_equal.
    destruct (fold_left _ stream ([], [])) as [seen out] eqn:E.
    pose proof (ru_level_fold k stream [] []) as H. rewrite E in H. exact H.
Qed.

Variable score : row -> Z.

(* first-seen on a descending list keeps a best row of each key, whatever the ties *)
Lemma fs_is_best key (l : list row) r : StronglySorted (ge_sc score) l ->
  In r (fs key l) -> is_best score key l r.
Proof.
  intros Hs Hin. apply (fs_first row score) in Hin. destruct Hin as (pre & post & -> & Hk).
  split; [apply in_or_app; right; left; reflexivity|].
  intros r' Hr' Ek. destruct (sorted_split _ _ _ _ _ Hs) as [_ Hpost].
  apply in_app_or in Hr'. destruct Hr' as [Hr'|[<-|Hr']].
  - exfalso. apply Hk. rewrite <- Ek. apply in_map. exact Hr'.
  - lia.
  - specialize (Hpost r' Hr'). lia.
Qed.

Lemma fs_aux_nodup_keys key seen (l : list row) : NoDup (map key (fs_aux key seen l)).
Proof.
  revert seen. induction l as [|x l IH]; intros seen; simpl; [constructor|].
  destruct (cf_memz (key x) seen); [apply IH|]. simpl. constructor; [|apply IH].
  intros Hin. apply in_map_iff in Hin. destruct Hin as (y & Ey & Hy).
  apply fs_aux_in in Hy. destruct Hy as [_ Hy]. apply Hy. left. symmetry. exact Ey.
Qed.

Lemma is_best_perm key (l l' : list row) r : Permutation l l' ->
  is_best score key l r -> is_best score key l' r.
Proof.
  intros HP [H1 H2]. split; [apply (Permutation_in _ HP); exact H1|].
  intros r' Hr'. apply H2. apply (Permutation_in _ (Permutation_sym HP)). exact Hr'.
Qed.
End Scan.

(* ====================== small list facts ====================== *)
Lemma ru_combine_map {A B} (f : A -> B) l : combine l (map f l) = map (fun x => (x, f x)) l.
Proof. induction l as [|a l IH]; simpl; [reflexivity|]. rewrite IH. reflexivity. Qed.

Lemma ru_map_nth_seq {A B} (g : A -> B) d l :
  map g l = map (fun i => g (nth i l d)) (seq 0 (length l)).
Proof.
  induction l as [|a l IH]; simpl; [reflexivity|]. f_equal.
  rewrite <- seq_shift, map_map. exact IH.
Qed.

Lemma ru_index_str_mem x l : mem_str x l = true ->
  exists i, index_str x l = Some i /\ (i < length l)%nat.
Proof.
  induction l as [|y l IH]; simpl; [discriminate|].
  destruct (str_eqb x y) eqn:E; simpl.
  - intros _. exists 0%nat. split; [reflexivity|lia].
  - intros H. destruct (IH H) as (i & -> & Hi). exists (S i). split; [reflexivity|lia].
Qed.

(* ====================== do_rollup ====================== *)
Notation ru_sorted := (StronglySorted (ge_sc cf_score)).

Definition ru_cols (raw_cols : list str) : list str := map ru_std_name raw_cols ++ [ru_s_is_decoy].

(* the level loop of assign_confidence keyed by the rollup levels: level 0 is the PSM level
   (all rows when de-duplication is off), level i+1 is keyed by the i-th rollup level *)
Definition ru_lkey (cols levels : list str) (j : nat) (r : cf_row) : Z :=
  match j with O => cf_spec r | S i => ru_key cols (nth i levels []) r end.

Section Rollup.
Variables (hp ht : bool) (root base : str) (raw_cols : list str) (tfiles dfiles : list ru_file).
Let inputs := ru_readers root tfiles dfiles.
Let pool := concat inputs.
Let cols := ru_cols raw_cols.

Lemma ru_temp_inv temp : ru_temp hp ht root base raw_cols tfiles dfiles = Ok temp ->
  ru_precheck hp ht root raw_cols tfiles dfiles = None /\
  exists levels stream,
    ru_levels base cols = Ok levels /\
    mg_merge_checked cf_score true inputs = Ok stream /\
    temp = map (fun l => (l, fs (ru_key cols l) stream)) levels.
Proof.
  unfold ru_temp. cbv zeta; change (map ru_std_name raw_cols ++ [ru_s_is_decoy]) with cols; fold inputs.
  destruct (ru_precheck hp ht root raw_cols tfiles dfiles); [discriminate|].
  destruct (ru_levels base cols) as [levels|e]; [|discriminate].
  destruct (mg_merge_checked cf_score true inputs) as [stream|e]; [|discriminate].
  intros H. injection H as <-. split; [reflexivity|]. exists levels, stream.
  split; [reflexivity|]. split; [reflexivity|].
  rewrite ru_scan_spec, map_map. apply ru_combine_map.
Qed.

(* (a) the structure of a successful run *)
Theorem rollup_structure temp : ru_temp hp ht root base raw_cols tfiles dfiles = Ok temp ->
  exists stream levels,
    mg_merge_checked cf_score true inputs = Ok stream /\
    ru_levels base cols = Ok levels /\
    Forall ru_sorted inputs /\ Permutation stream pool /\ ru_sorted stream /\
    temp = map (fun l => (l, fs (ru_key cols l) stream)) levels.
Proof.
  intros H. destruct (ru_temp_inv temp H) as (_ & levels & stream & HL & HM & ->).
  exists stream, levels. split; [exact HM|]. split; [exact HL|].
  destruct (mg_checked_ok _ _ _ _ _ HM) as (_ & Hs & Hp & Hso & _).
  split; [exact Hs|]. split; [exact Hp|]. split; [exact Hso|reflexivity].
Qed.

(* per level: one row per entity, every entity of the pool, each row a best row of its entity
   among ALL input rows, rows in non-increasing score order; with pairwise distinct scores the
   level holds exactly the best row of each entity *)
Theorem rollup_best temp : ru_temp hp ht root base raw_cols tfiles dfiles = Ok temp ->
  forall level lvl, In (level, lvl) temp ->
    ru_sorted lvl /\
    NoDup (map (ru_key cols level) lvl) /\
    (forall z, In z (map (ru_key cols level) lvl) <-> In z (map (ru_key cols level) pool)) /\
    (forall r, In r lvl -> is_best cf_score (ru_key cols level) pool r) /\
    (NoDup (map cf_score pool) ->
     forall r, In r lvl <-> is_best cf_score (ru_key cols level) pool r).
Proof.
  intros H level lvl Hin.
  destruct (rollup_structure temp H) as (stream & levels & _ & _ & _ & Hp & Hs & ->).
  apply in_map_iff in Hin. destruct Hin as (l & E & _). cbv beta in E. injection E as <- <-.
  split; [apply fs_sorted; exact Hs|]. split; [apply fs_aux_nodup_keys|]. split; [|split].
  - intros z. rewrite (fs_keys cf_row cf_score). split; intros Hz.
    + apply (Permutation_in _ (Permutation_map _ Hp)). exact Hz.
    + apply (Permutation_in _ (Permutation_sym (Permutation_map _ Hp))). exact Hz.
  - intros r Hr. apply (is_best_perm cf_row cf_score _ stream pool r Hp).
    apply fs_is_best; assumption.
  - intros Hnd r.
    assert (NoDup (map cf_score stream)) as Hnd'
      by (apply (nodup_map_perm cf_score _ _ (Permutation_sym Hp)); exact Hnd).
    rewrite (fs_best cf_row cf_score _ _ _ Hs Hnd'). split.
    + apply is_best_perm. exact Hp.
    + apply is_best_perm. apply Permutation_sym. exact Hp.
Qed.

(* (b) "the same rule": the temp files are the level files >= 1 that the level loop of
   assign_confidence (de-duplication off) produces on the same merged stream ... *)
Theorem rollup_same_loop temp : ru_temp hp ht root base raw_cols tfiles dfiles = Ok temp ->
  exists stream, mg_merge_checked cf_score true inputs = Ok stream /\
    let levels := map fst temp in
    map snd temp = tl (cf_levels_run cf_row (ru_lkey cols levels) false (S (length levels)) stream).
Proof.
  intros H. destruct (rollup_structure temp H) as (stream & levels & HM & _ & _ & _ & _ & ->).
  exists stream. split; [exact HM|]. cbv zeta. rewrite !map_map. cbn [fst snd]. rewrite map_id.
  rewrite (levels_run_spec cf_row cf_score). cbn [seq map tl].
  rewrite <- seq_shift, map_map. cbn [level_of ConfidenceP.base ru_lkey].
  apply (ru_map_nth_seq (fun l => fs (ru_key cols l) stream) []).
Qed.

(* ... and, with pairwise distinct scores, the level files >= 1 that assign_confidence's
   sort / merge / level-loop pipeline (any chunk size, de-duplication off) produces on the
   pooled rows of all input files *)
Theorem rollup_same_rule temp c : ru_temp hp ht root base raw_cols tfiles dfiles = Ok temp ->
  (1 <= c)%nat -> NoDup (map cf_score pool) ->
  let levels := map fst temp in
  map snd temp
  = tl (cf_levels cf_row cf_score (ru_lkey cols levels) c false false (S (length levels)) pool).
Proof.
  intros H Hc Hnd levels.
  destruct (rollup_same_loop temp H) as (stream & HM & E). fold levels in E. rewrite E.
  destruct (mg_checked_ok _ _ _ _ _ HM) as (_ & _ & Hp & Hso & _).
  unfold cf_levels. f_equal. f_equal.
  pose proof (stream_perm_nodedup cf_row cf_score (ru_lkey cols levels) c Hc pool) as Hp2.
  apply (sorted_unique cf_row cf_score).
  - exact Hso.
  - apply stream_sorted.
  - apply (nodup_map_perm cf_score _ _ (Permutation_sym Hp)). exact Hnd.
  - apply (nodup_map_perm cf_score _ _ (Permutation_sym Hp2)). exact Hnd.
  - intros r. split; intros Hr.
    + apply (Permutation_in _ (Permutation_sym Hp2)). apply (Permutation_in _ Hp). exact Hr.
    + apply (Permutation_in _ (Permutation_sym Hp)). apply (Permutation_in _ Hp2). exact Hr.
Qed.

Lemma ru_precheck_nonempty : ru_precheck hp ht root raw_cols tfiles dfiles = None -> inputs <> [].
Proof.
  unfold ru_precheck. destruct (hp && ht); [discriminate|].
  destruct (map ru_fschema (ru_select root tfiles ++ ru_select root dfiles)) eqn:E; [discriminate|].
  intros _ Hn. unfold inputs, ru_readers in Hn. apply app_eq_nil in Hn. destruct Hn as [H1 H2].
  apply map_eq_nil in H1, H2. rewrite H1, H2 in E. discriminate.
Qed.

(* (c) an input that is not sorted: no output, ValueError *)
Theorem rollup_rejects_unsorted :
  ru_precheck hp ht root raw_cols tfiles dfiles = None ->
  Forall (fun l => l <> []) inputs ->
  Exists (fun l => ~ ru_sorted l) inputs ->
  ru_temp hp ht root base raw_cols tfiles dfiles = Err EValue /\
  ru_rollup hp ht root base raw_cols tfiles dfiles = Err EValue.
Proof.
  intros Hpre Hne Hex.
  assert (ru_temp hp ht root base raw_cols tfiles dfiles = Err EValue) as Ht.
  { unfold ru_temp. rewrite Hpre. cbv zeta; change (map ru_std_name raw_cols ++ [ru_s_is_decoy]) with cols; fold inputs.
    destruct (ru_levels_total base cols) as (levels & ->).
    rewrite (mg_checked_rejects cf_row cf_score true inputs); [reflexivity| |exact Hex].
    split; [apply ru_precheck_nonempty; exact Hpre|exact Hne]. }
  split; [exact Ht|]. unfold ru_rollup. rewrite Ht. reflexivity.
Qed.

(* the other ways to fail: both formats, no input file / differing schemas / no score column,
   a file without rows *)
Theorem rollup_malformed :
  (hp && ht = true -> ru_rollup hp ht root base raw_cols tfiles dfiles = Err ERuntime) /\
  (hp && ht = false -> inputs = [] -> ru_rollup hp ht root base raw_cols tfiles dfiles = Err EAssertion) /\
  (ru_precheck hp ht root raw_cols tfiles dfiles = None -> Exists (fun l => l = []) inputs ->
   ru_rollup hp ht root base raw_cols tfiles dfiles = Err ERuntime) /\
  (forall e, ru_precheck hp ht root raw_cols tfiles dfiles = Some e ->
   ru_rollup hp ht root base raw_cols tfiles dfiles = Err e) /\
  ru_rollup hp ht root base raw_cols tfiles dfiles <> Err EFuel.
Proof.
  assert (forall e, ru_precheck hp ht root raw_cols tfiles dfiles = Some e ->
            ru_rollup hp ht root base raw_cols tfiles dfiles = Err e) as Hpre.
  { intros e E. unfold ru_rollup, ru_temp. rewrite E. reflexivity. }
  split; [|split; [|split; [|split]]].
  - intros E. apply Hpre. unfold ru_precheck. rewrite E. reflexivity.
  - intros E Hn. apply Hpre. unfold ru_precheck. rewrite E.
    unfold inputs, ru_readers in Hn. apply app_eq_nil in Hn. destruct Hn as [H1 H2].
    apply map_eq_nil in H1, H2. rewrite H1, H2. reflexivity.
  - intros E Hex. unfold ru_rollup, ru_temp. rewrite E. cbv zeta; change (map ru_std_name raw_cols ++ [ru_s_is_decoy]) with cols; fold inputs.
    destruct (ru_levels_total base cols) as (levels & ->).
    rewrite (mg_checked_empty_input cf_row cf_score true inputs); [reflexivity| |exact Hex].
    apply ru_precheck_nonempty. exact E.
  - exact Hpre.
  - unfold ru_rollup, ru_temp. cbv zeta; change (map ru_std_name raw_cols ++ [ru_s_is_decoy]) with cols; fold inputs.
    destruct (ru_precheck hp ht root raw_cols tfiles dfiles) as [e|] eqn:E.
    + unfold ru_precheck in E. destruct (hp && ht); [injection E as <-; discriminate|].
      destruct (map ru_fschema _) as [|s0 rest]; [injection E as <-; discriminate|].
      destruct (negb (forallb _ rest)); [injection E as <-; discriminate|].
      destruct (negb (mem_str _ _)); [injection E as <-; discriminate|discriminate].
    + destruct (ru_levels_total base cols) as (levels & ->).
      pose proof (mg_checked_no_fuel_error cf_row cf_score true inputs) as Hf.
      destruct (mg_merge_checked cf_score true inputs) as [stream|e]; [discriminate|].
      intros Hc. apply Hf. injection Hc as ->. reflexivity.
Qed.

(* where the rows come from: a row of a selected targets file tagged target, or a row of a
   selected decoys file tagged decoy; nothing else of the row is touched *)
Lemma ru_pool_origin r : In r pool ->
  exists f r0, In r0 (ru_frows f) /\ r = ru_tag (cf_target r) r0 /\
    negb (prefixb (root ++ ru_s_dot) (ru_fname f)) = true /\
    (if cf_target r then In f tfiles else In f dfiles).
Proof.
  unfold pool, inputs, ru_readers. rewrite concat_app. intros H. apply in_app_or in H.
  destruct H as [H|H]; apply in_concat in H; destruct H as (l & Hl & Hr);
    apply in_map_iff in Hl; destruct Hl as (f & <- & Hf);
    apply in_map_iff in Hr; destruct Hr as (r0 & <- & Hr0);
    unfold ru_select in Hf; apply filter_In in Hf; destruct Hf as [Hf Hsel];
    exists f, r0; cbn [ru_tag cf_target]; repeat split; assumption.
Qed.

(* (d) the result files *)
Theorem rollup_outputs out : ru_rollup hp ht root base raw_cols tfiles dfiles = Ok out ->
  exists temp, ru_temp hp ht root base raw_cols tfiles dfiles = Ok temp /\
    out = map (fun lt => (fst lt,
                 (filter (fun p => cf_target (fst p)) (combine (snd lt) (cf_qvalues (snd lt))),
                  filter (fun p => negb (cf_target (fst p))) (combine (snd lt) (cf_qvalues (snd lt)))))) temp /\
    forall level lvl, In (level, lvl) temp ->
      length (cf_qvalues lvl) = length lvl /\
      (forall i, (i < length lvl)%nat ->
         is_qvalue true (combine (map cf_score lvl) (map cf_target lvl))
                   (cf_score (nth i lvl (Build_cf_row 0 0 [] false 0))) (nth i (cf_qvalues lvl) 1%Q)) /\
      (forall r, In r lvl ->
         exists f r0, In r0 (ru_frows f) /\ r = ru_tag (cf_target r) r0 /\
           negb (prefixb (root ++ ru_s_dot) (ru_fname f)) = true /\
           (if cf_target r then In f tfiles else In f dfiles)).
Proof.
  unfold ru_rollup. destruct (ru_temp hp ht root base raw_cols tfiles dfiles) as [temp|e] eqn:E; [|discriminate].
  intros H. injection H as <-. exists temp. split; [reflexivity|]. split; [reflexivity|].
  intros level lvl Hin. unfold cf_qvalues.
  destruct (tdc_core_spec true (map cf_score lvl) (map cf_target lvl)) as [Hlen Hq]; [rewrite !map_length; reflexivity|].
  rewrite map_length in Hlen. split; [exact Hlen|]. split.
  - intros i Hi. specialize (Hq i). rewrite map_length in Hq. specialize (Hq Hi).
    rewrite (nth_indep _ 0 (cf_score (Build_cf_row 0 0 [] false 0))) in Hq by (rewrite map_length; exact Hi).
    rewrite map_nth in Hq. exact Hq.
  - intros r Hr. apply ru_pool_origin.
    destruct (rollup_best temp E level lvl Hin) as (_ & _ & _ & Hb & _). apply (Hb r Hr).
Qed.

(* the key of a level that is rolled up to is a real cell of the row: the default of `nth` is
   never used when every row carries one value id per column of the files *)
Lemma ru_key_default_irrelevant levels level r d : ru_levels base cols = Ok levels -> In level levels ->
  length (cf_keys r) = length raw_cols ->
  level <> ru_s_is_decoy ->
  exists i, index_str level cols = Some i /\ (i < length (cf_keys r))%nat /\
            ru_key cols level r = nth i (cf_keys r) d.
Proof.
  unfold ru_levels. destruct (ru_compute_levels ru_default_parents base) as [all|e]; [|discriminate].
  intros H Hin Hlen Hne. injection H as <-. apply filter_In in Hin. destruct Hin as [_ Hm].
  assert (mem_str level (map ru_std_name raw_cols) = true) as Hm'.
  { apply b_mem_str_in. apply b_mem_str_in in Hm. unfold cols, ru_cols in Hm.
    apply in_app_or in Hm. destruct Hm as [Hm|[Hm|[]]]; [exact Hm|congruence]. }
  destruct (ru_index_str_mem _ _ Hm') as (i & Ei & Hi). rewrite map_length in Hi.
  assert (index_str level cols = Some i) as Ei'.
  { unfold cols, ru_cols. clear -Ei. revert i Ei. induction (map ru_std_name raw_cols) as [|y l IH]; intros i Ei; simpl in *; [discriminate|].
    destruct (str_eqb level y); [exact Ei|]. destruct (index_str level l) as [j|]; [|discriminate].
    rewrite (IH j eq_refl). exact Ei. }
  exists i. split; [exact Ei'|]. split; [lia|]. unfold ru_key. rewrite Ei'. apply nth_indep. lia.
Qed.
End Rollup.
