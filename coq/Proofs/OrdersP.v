(* Proofs about Model/Orders.v (C05, C08). *)
From Coq Require Import Lia Permutation Sorted.
From Mokaverif Require Import Model.Base Model.PinCols Model.Confidence Model.Orders.
From Mokaverif Require Import Proofs.PinColsP Proofs.ConfidenceP.
Open Scope nat_scope.

Lemma perm_concat {A} (l l' : list (list A)) : Permutation l l' -> Permutation (concat l) (concat l').
Proof.
  intros H. induction H as [|x l l' H IH|x y l|l l' l'' H1 IH1 H2 IH2]; simpl.
  - reflexivity.
  - apply Permutation_app_head. exact IH.
  - rewrite !app_assoc. apply Permutation_app_tail. apply Permutation_app_comm.
  - eapply Permutation_trans; eassumption.
Qed.

Section TrainRead.
Variable row : Type.

Lemma in_combine_seq_off (tbl : list row) s i r :
  In (i, r) (combine (seq s (length tbl)) tbl) <-> s <= i /\ nth_error tbl (i - s) = Some r.
Proof.
  revert s. induction tbl as [|x t IH]; intros s; simpl.
  - split; [intros []|intros [_ H]]. destruct (i - s); discriminate.
  - rewrite IH. split.
    + intros [H|[H1 H2]]; [injection H as <- <-; rewrite Nat.sub_diag; split; [lia|reflexivity]|].
      split; [lia|]. replace (i - s) with (S (i - S s)) by lia. exact H2.
    + intros [H1 H2]. destruct (Nat.eq_dec s i) as [->|N].
      * rewrite Nat.sub_diag in H2. injection H2 as ->. left. reflexivity.
      * right. split; [lia|]. replace (i - s) with (S (i - S s)) in H2 by lia. exact H2.
Qed.

Lemma in_indexed (tbl : list row) i r : In (i, r) (or_indexed row tbl) <-> nth_error tbl i = Some r.
Proof.
  unfold or_indexed. rewrite in_combine_seq_off, Nat.sub_0_r. split; [tauto|intros H; split; [lia|exact H]].
Qed.

Lemma lookup_genuine (tbl : list row) ps i :
  (forall p, In p ps -> In p (or_indexed row tbl)) ->
  or_lookup row i ps = if existsb (Nat.eqb i) (map fst ps) then nth_error tbl i else None.
Proof.
  induction ps as [|[j r] ps IH]; intros H; simpl; [reflexivity|].
  rewrite (Nat.eqb_sym i j). destruct (Nat.eqb_spec j i) as [->|N]; simpl.
  - symmetry. apply in_indexed. apply H. left. reflexivity.
  - apply IH. intros p Hp. apply H. right. exact Hp.
Qed.

(* reading the training rows in chunks, in whatever order the worker threads deliver their
   pieces, yields exactly the requested rows in the requested order *)
Theorem parse_order_free c order idx (tbl : list row) :
  1 <= c -> (forall ls, Permutation (order ls) ls) ->
  or_parse row c order idx tbl = map (nth_error tbl) idx.
Proof.
  intros Hc Hord. unfold or_parse, or_reindex.
  set (ps := concat (order (map (or_select row idx) (pc_chunks c (or_indexed row tbl))))).
  assert (Permutation ps (or_select row idx (or_indexed row tbl))) as HP.
  { unfold ps. rewrite (perm_concat _ _ (Hord _)).
    unfold or_select. rewrite <- flat_map_concat_map.
    assert (forall (ll : list (list (nat * row))) p, flat_map (filter p) ll = filter p (concat ll)) as G
      by (intros ll p; induction ll as [|l ll IH]; simpl; [reflexivity|]; rewrite filter_app, IH; reflexivity).
    rewrite G, chunks_concat by exact Hc. reflexivity. }
  apply map_ext_in. intros i Hi.
  rewrite (lookup_genuine tbl).
  - destruct (existsb (Nat.eqb i) (map fst ps)) eqn:E; [reflexivity|].
    destruct (nth_error tbl i) as [r|] eqn:En; [|reflexivity]. exfalso.
    assert (In (i, r) ps) as Hin.
    { apply (Permutation_in _ (Permutation_sym HP)). unfold or_select. apply filter_In. split; [apply in_indexed; exact En|].
      simpl. apply existsb_exists. exists i. split; [exact Hi|apply Nat.eqb_refl]. }
    assert (existsb (Nat.eqb i) (map fst ps) = true) as E'.
    { apply existsb_exists. exists i. split; [apply in_map_iff; exists (i, r); split; [reflexivity|exact Hin]|apply Nat.eqb_refl]. }
    congruence.
  - intros p Hp. apply (Permutation_in _ HP) in Hp. unfold or_select in Hp. apply filter_In in Hp. tauto.
Qed.
End TrainRead.

(* sorting the fitted models by fold: the result does not depend on the order in which the
   worker threads (or the caller) delivered them *)
Theorem sort_models_order_free {A} (ms ms' : list (nat * A)) :
  Permutation ms ms' -> NoDup (map fst ms) -> or_sort_models ms = or_sort_models ms'.
Proof.
  intros HP Hnd. unfold or_sort_models.
  set (sc := fun m : nat * A => (- Z.of_nat (fst m))%Z).
  assert (forall l, NoDup (map fst l) -> NoDup (map sc l)) as Hsc.
  { induction l as [|x l IH]; simpl; intros H; [constructor|]. inversion H as [|? ? Hx Hl]; subst.
    constructor; [|apply IH; exact Hl]. intros Hin. apply Hx. apply in_map_iff in Hin. destruct Hin as (y & Ey & Hy).
    apply in_map_iff. exists y. split; [unfold sc in Ey; lia|exact Hy]. }
  apply (sorted_unique (nat * A) sc).
  - apply sort_desc_sorted.
  - apply sort_desc_sorted.
  - apply (nodup_map_perm sc _ _ (Permutation_sym (sort_desc_perm _ sc ms))). apply Hsc. exact Hnd.
  - apply (nodup_map_perm sc _ _ (Permutation_sym (sort_desc_perm _ sc ms'))). apply Hsc.
    apply (Permutation_NoDup (Permutation_map fst HP)). exact Hnd.
  - intros r. split; intros H.
    + apply (Permutation_in _ (Permutation_sym (sort_desc_perm _ sc ms'))). apply (Permutation_in _ HP).
      apply (Permutation_in _ (sort_desc_perm _ sc ms)). exact H.
    + apply (Permutation_in _ (Permutation_sym (sort_desc_perm _ sc ms))). apply (Permutation_in _ (Permutation_sym HP)).
      apply (Permutation_in _ (sort_desc_perm _ sc ms')). exact H.
Qed.

Theorem sort_models_sorted {A} (ms : list (nat * A)) :
  Permutation (or_sort_models ms) ms /\ StronglySorted (fun a b => fst a <= fst b) (or_sort_models ms).
Proof.
  unfold or_sort_models. split; [apply sort_desc_perm|].
  pose proof (sort_desc_sorted (nat * A) (fun m => (- Z.of_nat (fst m))%Z) ms) as H.
  induction H as [|a l H IH Hf]; constructor; [exact IH|].
  eapply Forall_impl; [|exact Hf]. intros b Hb. unfold ge_sc in Hb. lia.
Qed.
