(* Proofs about Model/Fdr.v (C04): finite-sample FDR control of the TDC rule with the +1. *)
From Coq Require Import Lia Lqa Qfield.
From Mokaverif Require Import Model.Base Model.Tdc Model.Fdr.
Open Scope nat_scope.

(* ====================== binomial coefficients ====================== *)
Lemma binom_gt n : forall k, n < k -> fd_binom n k = 0.
Proof.
  induction n as [|n IH]; intros [|k] H; simpl; try lia.
  rewrite !IH by lia. reflexivity.
Qed.

Lemma binom_one n : fd_binom n 1 = n.
Proof. induction n as [|n IH]; simpl; [reflexivity|]. rewrite IH. destruct n; simpl; lia. Qed.

Lemma binom_pascal n k : fd_binom (S n) (S k) = fd_binom n k + fd_binom n (S k).
Proof. reflexivity. Qed.

Lemma binom_absorb n : forall k, S k * fd_binom (S n) (S k) = S n * fd_binom n k.
Proof.
  induction n as [|n IH]; intros k.
  - destruct k as [|k]; simpl; [lia|]. destruct k; simpl; lia.
  - destruct k as [|k].
    + rewrite binom_pascal. change (fd_binom (S n) 0) with 1. rewrite binom_one. lia.
    + rewrite binom_pascal. pose proof (IH k) as H1. pose proof (IH (S k)) as H2.
      rewrite (binom_pascal n k). rewrite (binom_pascal n k) in H1. nia.
Qed.

(* (k+1) * C(n,k+1) = (n-k) * C(n,k) *)
Lemma binom_absorb2 n : forall k, S k * fd_binom n (S k) = (n - k) * fd_binom n k.
Proof.
  induction n as [|n IH]; intros k; [simpl; lia|].
  destruct k as [|k].
  - change (fd_binom (S n) 0) with 1. rewrite binom_one. lia.
  - rewrite (binom_pascal n (S k)), (binom_pascal n k).
    pose proof (IH k) as H1. pose proof (IH (S k)) as H2.
    destruct (Nat.lt_ge_cases k n) as [Hlt|Hge].
    + replace (S n - S k) with (n - k) by lia. replace (n - S k) with (n - k - 1) in H2 by lia. nia.
    + rewrite (binom_gt n (S k)) in * by lia. rewrite (binom_gt n (S (S k))) by lia.
      replace (S n - S k) with 0 by lia. lia.
Qed.

(* ====================== finite sums over Q ====================== *)
Lemma qsum_app a b : (fd_qsum (a ++ b) == fd_qsum a + fd_qsum b)%Q.
Proof. induction a as [|x a IH]; simpl; [ring|]. rewrite IH. ring. Qed.

Lemma qsum_map_le {A} (f g : A -> Q) l : (forall x, In x l -> (f x <= g x)%Q) ->
  (fd_qsum (map f l) <= fd_qsum (map g l))%Q.
Proof.
  induction l as [|x l IH]; intros H; simpl; [apply Qle_refl|].
  apply Qplus_le_compat; [apply H; left; reflexivity|apply IH; intros y Hy; apply H; right; exact Hy].
Qed.

Lemma qsum_map_ext {A} (f g : A -> Q) l : (forall x, In x l -> (f x == g x)%Q) ->
  (fd_qsum (map f l) == fd_qsum (map g l))%Q.
Proof.
  induction l as [|x l IH]; intros H; simpl; [reflexivity|].
  rewrite (H x (or_introl eq_refl)), IH; [reflexivity|]. intros y Hy. apply H. right. exact Hy.
Qed.

Lemma qsum_const {A} (c : Q) (l : list A) : (fd_qsum (map (fun _ => c) l) == inject_Z (Z.of_nat (length l)) * c)%Q.
Proof.
  induction l as [|x l IH]; [simpl; ring|]. cbn [map fd_qsum fold_right length].
  change (fold_right Qplus 0%Q (map (fun _ => c) l)) with (fd_qsum (map (fun _ : A => c) l)).
  rewrite IH, Nat2Z.inj_succ, <- Z.add_1_r, inject_Z_plus. ring.
Qed.

Lemma qsum_scale {A} (a : Q) (f : A -> Q) l : (fd_qsum (map (fun x => a * f x) l) == a * fd_qsum (map f l))%Q.
Proof. induction l as [|x l IH]; simpl; [ring|]. rewrite IH. ring. Qed.

Lemma qsum_map_map {A B} (g : A -> B) (f : B -> Q) l : fd_qsum (map f (map g l)) = fd_qsum (map (fun x => f (g x)) l).
Proof. rewrite map_map. reflexivity. Qed.

(* ====================== labellings and their classes ====================== *)
Lemma labs_length m : forall w, In w (fd_labs m) -> length w = m.
Proof.
  induction m as [|m IH]; intros w H; simpl in H.
  - destruct H as [<-|[]]. reflexivity.
  - apply in_app_or in H. destruct H as [H|H]; apply in_map_iff in H; destruct H as (w' & <- & Hw'); simpl; rewrite (IH w' Hw'); reflexivity.
Qed.

Definition cls (m v : nat) : list (list bool) := filter (fun w => Nat.eqb (fd_count_t w) v) (fd_labs m).

Lemma filter_map_cons (b : bool) (p : list bool -> bool) l :
  filter p (map (cons b) l) = map (cons b) (filter (fun w => p (b :: w)) l).
Proof. induction l as [|x l IH]; simpl; [reflexivity|]. destruct (p (b :: x)); simpl; rewrite IH; reflexivity. Qed.

Lemma cls_succ m v :
  cls (S m) v = map (cons true) (match v with O => [] | S u => cls m u end) ++ map (cons false) (cls m v).
Proof.
  unfold cls. simpl fd_labs. rewrite filter_app, !filter_map_cons. f_equal.
  - destruct v as [|u].
    + rewrite (filter_ext _ (fun _ => false)) by (intros w; reflexivity).
      induction (fd_labs m); simpl; auto.
    + f_equal.
Qed.

Lemma cls_length m : forall v, length (cls m v) = fd_binom m v.
Proof.
  induction m as [|m IH]; intros v.
  - unfold cls. simpl. destruct v; reflexivity.
  - rewrite cls_succ, app_length, !map_length. destruct v as [|u].
    + rewrite IH. simpl. destruct m; reflexivity.
    + rewrite !IH. reflexivity.
Qed.

Lemma cls_in m v w : In w (cls m v) -> length w = m /\ fd_count_t w = v.
Proof.
  unfold cls. intros H. apply filter_In in H. destruct H as [H1 H2]. split; [apply labs_length; exact H1|apply Nat.eqb_eq; exact H2].
Qed.

Lemma count_t_le w : fd_count_t w <= length w.
Proof. unfold fd_count_t. induction w as [|b w IH]; simpl; [lia|]. destruct b; simpl; lia. Qed.

(* a sum over all labellings = the sum of the class sums *)
Lemma qsum_partition (f : list bool -> Q) (l : list (list bool)) m :
  (forall w, In w l -> fd_count_t w <= m) ->
  (fd_qsum (map f l) ==
   fd_qsum (map (fun v => fd_qsum (map f (filter (fun w => Nat.eqb (fd_count_t w) v) l))) (seq 0 (S m))))%Q.
Proof.
  induction l as [|x l IH]; intros H.
  - simpl filter. simpl map at 1. simpl fd_qsum at 1.
    rewrite (qsum_map_ext _ (fun _ => 0%Q)) by (intros; reflexivity). rewrite qsum_const. ring.
  - cbn [map fd_qsum fold_right].
    change (fold_right Qplus 0%Q (map f l)) with (fd_qsum (map f l)).
    rewrite IH by (intros w Hw; apply H; right; exact Hw).
    assert (fd_count_t x <= m) as Hx by (apply H; left; reflexivity).
    (* split the range at count x *)
    set (k := fd_count_t x) in *.
    assert (forall vs, ~ In k vs ->
      fd_qsum (map (fun v => fd_qsum (map f (filter (fun w => Nat.eqb (fd_count_t w) v) (x :: l)))) vs)
      = fd_qsum (map (fun v => fd_qsum (map f (filter (fun w => Nat.eqb (fd_count_t w) v) l))) vs)) as Hother.
    { induction vs as [|v vs IHv]; intros Hn; [reflexivity|]. cbn [map fd_qsum fold_right].
      f_equal; [|apply IHv; intros Hin; apply Hn; right; exact Hin].
      cbn [filter]. fold k. destruct (Nat.eqb_spec k v) as [E|_]; [exfalso; apply Hn; left; symmetry; exact E|reflexivity]. }
    replace (seq 0 (S m)) with (seq 0 k ++ k :: seq (S k) (m - k)).
    + rewrite !map_app, !qsum_app. cbn [map fd_qsum fold_right].
      rewrite (Hother (seq 0 k)) by (rewrite in_seq; lia).
      change (fold_right Qplus 0%Q ?l0) with (fd_qsum l0).
      rewrite (Hother (seq (S k) (m - k))) by (rewrite in_seq; lia).
      cbn [filter]. fold k. rewrite Nat.eqb_refl. cbn [map fd_qsum fold_right].
      change (fold_right Qplus 0%Q ?l0) with (fd_qsum l0). ring.
    + replace (S m) with (k + S (m - k)) by lia. rewrite seq_app. simpl. reflexivity.
Qed.

(* ====================== the class bound ====================== *)
Definition bnd (m v : nat) : nat := match v with O => 0 | S u => fd_binom m u end.

Lemma bnd_pascal m v : bnd (S m) v = (match v with O => 0 | S u => bnd m u end) + bnd m v.
Proof. destruct v as [|[|u]]; simpl; try reflexivity. destruct m; reflexivity. Qed.

Lemma scan_step pay alpha ri w :
  fd_scan pay alpha ri w =
  if fd_stop alpha (fd_count_c ri) (fd_count_t w) (length w - fd_count_t w)
  then pay (fd_count_c ri) (fd_count_t w) (length w - fd_count_t w)
  else match ri with
       | [] => 0%Q
       | FdCorrect :: r => fd_scan pay alpha r w
       | FdNull :: r => fd_scan pay alpha r (tl w)
       end.
Proof. destruct ri as [|[] r]; reflexivity. Qed.

Lemma inj_pos n : 0 < n -> (0 < inject_Z (Z.of_nat n))%Q.
Proof. intros H. change 0%Q with (inject_Z 0). rewrite <- Zlt_Qlt. lia. Qed.

Lemma inj_nonneg n : (0 <= inject_Z (Z.of_nat n))%Q.
Proof. change 0%Q with (inject_Z 0). rewrite <- Zle_Qle. lia. Qed.

Lemma pay_bound m v : v <= m ->
  (inject_Z (Z.of_nat (fd_binom m v)) * fd_ratio_pay 0 v (m - v) <= inject_Z (Z.of_nat (bnd m v)))%Q.
Proof.
  intros Hv. unfold fd_ratio_pay. destruct v as [|u].
  - simpl bnd. unfold Qdiv. rewrite Qmult_0_l, Qmult_0_r. apply Qle_refl.
  - simpl bnd. pose proof (binom_absorb2 m u) as Ha.
    replace (1 + (m - S u)) with (m - u) by lia.
    assert (0 < m - u) as Hp by lia.
    assert (inject_Z (Z.of_nat (fd_binom m (S u))) * inject_Z (Z.of_nat (S u))
            == inject_Z (Z.of_nat (m - u)) * inject_Z (Z.of_nat (fd_binom m u)))%Q as HQ.
    { rewrite <- !inject_Z_mult, <- !Nat2Z.inj_mul. rewrite (Nat.mul_comm (fd_binom m (S u))), Ha. reflexivity. }
    pose proof (inj_pos _ Hp) as Hpos.
    apply Qle_lteq. right. unfold Qdiv. rewrite Qmult_assoc, HQ. field. intros E. rewrite E in Hpos. inversion Hpos.
Qed.

Section ClassBound.
Variable alpha : Q.

Definition A (ri : list fd_kind) (v : nat) : Q := fd_qsum (map (fd_ratio alpha ri) (cls (fd_count_n ri) v)).

Lemma A_nonneg_bound_empty ri v : fd_count_n ri < v -> (A ri v == 0)%Q.
Proof.
  intros H. unfold A. assert (cls (fd_count_n ri) v = []) as ->; [|reflexivity].
  pose proof (cls_length (fd_count_n ri) v) as HL. rewrite binom_gt in HL by exact H.
  destruct (cls (fd_count_n ri) v); [reflexivity|discriminate].
Qed.

Lemma class_bound ri : forall v, (A ri v <= inject_Z (Z.of_nat (bnd (fd_count_n ri) v)))%Q.
Proof.
  induction ri as [|k r IH]; intros v.
  - (* no position: nothing is ever accepted *)
    destruct v as [|u].
    + unfold A. change (cls (fd_count_n []) 0) with [@nil bool]. cbn [map fd_qsum fold_right].
      unfold fd_ratio. rewrite scan_step. cbn. apply Qle_refl.
    + unfold A. change (cls (fd_count_n []) (S u)) with (@nil (list bool)). cbn [map fd_qsum fold_right]. apply inj_nonneg.
  - set (m := fd_count_n (k :: r)).
    destruct (Nat.le_gt_cases v m) as [Hv|Hv]; [|rewrite A_nonneg_bound_empty by exact Hv; apply inj_nonneg].
    destruct (fd_stop alpha (fd_count_c (k :: r)) v (m - v)) eqn:Es.
    + (* the whole prefix is accepted for every labelling of the class *)
      unfold A. fold m.
      rewrite (qsum_map_ext _ (fun _ => fd_ratio_pay (fd_count_c (k :: r)) v (m - v))).
      * rewrite qsum_const, cls_length. apply (pay_bound m v Hv).
      * intros w Hw. destruct (cls_in _ _ _ Hw) as [Hl Hc]. unfold fd_ratio. rewrite scan_step, Hl, Hc, Es. reflexivity.
    + destruct k.
      * (* a correct target at the end of the prefix: drop it *)
        unfold A. fold m. assert (m = fd_count_n r) as Em by reflexivity.
        rewrite (qsum_map_ext _ (fd_ratio alpha r)).
        -- rewrite Em. apply IH.
        -- intros w Hw. destruct (cls_in _ _ _ Hw) as [Hl Hc]. unfold fd_ratio. rewrite scan_step, Hl, Hc, Es. reflexivity.
      * (* a null at the end of the prefix: it is a target or a decoy *)
        assert (m = S (fd_count_n r)) as Em by reflexivity.
        unfold A. fold m. rewrite Em, cls_succ, map_app, qsum_app, !map_map.
        rewrite bnd_pascal, Nat2Z.inj_add, inject_Z_plus.
        assert (forall b w', In (b :: w') (cls m v) -> fd_ratio alpha (FdNull :: r) (b :: w') = fd_ratio alpha r w') as Hstep.
        { intros b w' Hw. destruct (cls_in _ _ _ Hw) as [Hl Hc]. unfold fd_ratio. rewrite scan_step, Hl, Hc, Es. reflexivity. }
        apply Qplus_le_compat.
        -- destruct v as [|u]; [simpl; apply Qle_refl|].
           rewrite (qsum_map_ext _ (fd_ratio alpha r)); [apply IH|].
           intros w' Hw'. rewrite Hstep; [reflexivity|]. rewrite Em, cls_succ. apply in_or_app. left. apply in_map. exact Hw'.
        -- rewrite (qsum_map_ext _ (fd_ratio alpha r)); [apply IH|].
           intros w' Hw'. rewrite Hstep; [reflexivity|]. rewrite Em, cls_succ. apply in_or_app. right. apply in_map. exact Hw'.
Qed.
End ClassBound.

(* ====================== totals ====================== *)
Lemma labs_count m : length (fd_labs m) = 2 ^ m.
Proof. induction m as [|m IH]; [reflexivity|]. simpl fd_labs. rewrite app_length, !map_length, IH. simpl. lia. Qed.

Lemma labs_count_le m w : In w (fd_labs m) -> fd_count_t w <= m.
Proof. intros H. rewrite <- (labs_length m w H). apply count_t_le. Qed.

Lemma sum_binom_Q m :
  (fd_qsum (map (fun v => inject_Z (Z.of_nat (fd_binom m v))) (seq 0 (S m))) == inject_Z (Z.of_nat (2 ^ m)))%Q.
Proof.
  pose proof (qsum_partition (fun _ => 1%Q) (fd_labs m) m (labs_count_le m)) as H.
  rewrite qsum_const, labs_count, Qmult_1_r in H. rewrite H.
  apply qsum_map_ext. intros v _. fold (cls m v). rewrite qsum_const, cls_length. ring.
Qed.

Lemma sum_bnd_le m :
  (fd_qsum (map (fun v => inject_Z (Z.of_nat (bnd m v))) (seq 0 (S m))) <= inject_Z (Z.of_nat (2 ^ m)))%Q.
Proof.
  rewrite <- sum_binom_Q.
  (* left: 0 + sum_{u<m} C(m,u); right: sum_{u<m} C(m,u) + C(m,m) *)
  replace (seq 0 (S m)) with (0 :: seq 1 m) at 1 by reflexivity.
  cbn [map fd_qsum fold_right]. change (fold_right Qplus 0%Q ?l) with (fd_qsum l).
  rewrite <- seq_shift, map_map. cbn [bnd].
  replace (S m) with (m + 1) by lia. rewrite seq_app, map_app, qsum_app. cbn [seq map fd_qsum fold_right].
  pose proof (inj_nonneg (fd_binom m (0 + m))) as Hn.
  change (inject_Z (Z.of_nat 0)) with 0%Q. lra.
Qed.

Theorem ratio_total alpha ri :
  (fd_qsum (map (fd_ratio alpha ri) (fd_labs (fd_count_n ri))) <= inject_Z (Z.of_nat (2 ^ fd_count_n ri)))%Q.
Proof.
  set (m := fd_count_n ri).
  rewrite (qsum_partition (fd_ratio alpha ri) (fd_labs m) m (labs_count_le m)).
  eapply Qle_trans; [|apply sum_bnd_le].
  apply qsum_map_le. intros v _. apply (class_bound alpha ri v).
Qed.

(* ====================== from the ratio to the false discovery proportion ====================== *)
Lemma stop_spec alpha c v d : fd_stop alpha c v d = true ->
  0 < c + v /\ (inject_Z (Z.of_nat (d + 1)) / inject_Z (Z.of_nat (c + v)) <= alpha)%Q.
Proof.
  unfold fd_stop. intros H. apply andb_true_iff in H. destruct H as [H1 H2].
  apply Nat.ltb_lt in H1. apply Qle_bool_iff in H2. split; assumption.
Qed.

Lemma pay_le alpha c v d : fd_stop alpha c v d = true ->
  (fd_fdp_pay c v d <= alpha * fd_ratio_pay c v d)%Q.
Proof.
  intros Es. unfold fd_fdp_pay, fd_ratio_pay. apply stop_spec in Es. destruct Es as [Hpos Hle].
  replace (1 + d) with (d + 1) by lia.
  set (a := inject_Z (Z.of_nat v)) in *.
  set (t := inject_Z (Z.of_nat (c + v))) in *.
  set (p := inject_Z (Z.of_nat (d + 1))) in *.
  assert (0 < t)%Q as Ht by (apply inj_pos; exact Hpos).
  assert (0 < p)%Q as Hpp by (apply inj_pos; lia).
  assert (0 <= a)%Q as Hna by apply inj_nonneg.
  assert (a / t == (p / t) * (a / p))%Q as -> by (field; split; intros E; [rewrite E in Hpp|rewrite E in Ht]; lra).
  apply Qmult_le_compat_r; [exact Hle|]. apply Qle_shift_div_l; [exact Hpp|lra].
Qed.

Lemma fdp_le_ratio alpha ri : (0 <= alpha)%Q -> forall w, (fd_fdp alpha ri w <= alpha * fd_ratio alpha ri w)%Q.
Proof.
  intros Ha. unfold fd_fdp, fd_ratio. induction ri as [|k r IH]; intros w.
  - rewrite (scan_step fd_fdp_pay), (scan_step fd_ratio_pay).
    destruct (fd_stop alpha (fd_count_c []) (fd_count_t w) (length w - fd_count_t w)) eqn:Es; [apply pay_le; exact Es|lra].
  - rewrite (scan_step fd_fdp_pay), (scan_step fd_ratio_pay).
    destruct (fd_stop alpha (fd_count_c (k :: r)) (fd_count_t w) (length w - fd_count_t w)) eqn:Es; [apply pay_le; exact Es|].
    destruct k; apply IH.
Qed.

(* the finite-sample theorem: summed over all 2^m labellings of the nulls, the false discovery
   proportion of the TDC accept set is at most alpha * 2^m, i.e. E[FDP] <= alpha *)
Theorem fdr_control alpha ri : (0 <= alpha)%Q ->
  (fd_qsum (map (fd_fdp alpha ri) (fd_labs (fd_count_n ri))) <= alpha * inject_Z (Z.of_nat (2 ^ fd_count_n ri)))%Q.
Proof.
  intros Ha.
  eapply Qle_trans; [apply (qsum_map_le _ (fun w => alpha * fd_ratio alpha ri w)%Q); intros w _; apply fdp_le_ratio; exact Ha|].
  rewrite qsum_scale. rewrite !(Qmult_comm alpha). apply Qmult_le_compat_r; [apply ratio_total|exact Ha].
Qed.

(* ====================== tie to the C01 model on bounded sizes ======================
   The false discovery proportion computed through the C01 q-values (tdc_core on the realised
   labels, scores = ranks, accept = targets with q <= alpha) coincides with fd_fdp.  Here this is
   checked exhaustively for every arrangement of up to 6 positions, every labelling and a grid of
   alpha < 1 (a finite sweep, closed by vm_compute); the correspondence check repeats the comparison
   against the real mokapot.qvalues.tdc. *)
Fixpoint all_kinds (n : nat) : list (list fd_kind) :=
  match n with
  | O => [[]]
  | S n' => map (cons FdCorrect) (all_kinds n') ++ map (cons FdNull) (all_kinds n')
  end.

Definition bridge_ok (alpha : Q) (ri : list fd_kind) : bool :=
  forallb (fun w => Qeq_bool (fdp_via_tdc alpha ri w) (fd_fdp alpha ri w)) (fd_labs (fd_count_n ri)).

Definition bridge_sweep (nmax : nat) : bool :=
  forallb (fun n => forallb (fun ri => forallb (fun alpha => bridge_ok alpha ri) [1#100; 1#10; 1#4; 1#3; 1#2; 2#3; 9#10]%Q)
                            (all_kinds n)) (seq 0 (S nmax)).

Lemma bridge_bounded : bridge_sweep 6 = true.
Proof. vm_compute. reflexivity. Qed.

(* ====================== the accept set of fd_fdp is the C01 accept set (general) ====================== *)
From Coq Require Import Permutation.
From Mokaverif Require Import Proofs.TdcP.
Open Scope nat_scope.

Definition cnt_true (l : list bool) : nat := length (filter (fun b => b) l).
Definition cnt_false (l : list bool) : nat := length (filter negb l).

(* the TDC rule evaluated on the labels from position k on (worst first: these are the k-th best prefix) *)
Definition stopF (alpha : Q) (fl : list bool) (k : nat) : bool :=
  fd_stop alpha 0 (cnt_true (skipn k fl)) (cnt_false (skipn k fl)).

Lemma stop_c_v alpha c v d : fd_stop alpha c v d = fd_stop alpha 0 (c + v) d.
Proof. unfold fd_stop. reflexivity. Qed.

Lemma stopF_succ alpha b fl k : stopF alpha (b :: fl) (S k) = stopF alpha fl k.
Proof. reflexivity. Qed.

(* counting through the combined (score, flag) list of the C01 specification *)
Lemma cnt_suffix_nat (g : bool -> bool) (fl : list bool) : forall s k,
  length (filter (fun p : nat * bool => g (snd p) && (s + k <=? fst p)) (combine (seq s (length fl)) fl))
  = length (filter g (skipn k fl)).
Proof.
  induction fl as [|b fl IH]; intros s k; [destruct k; reflexivity|].
  cbn [length seq combine filter fst snd]. destruct k as [|k].
  - rewrite Nat.add_0_r, Nat.leb_refl, andb_true_r. cbn [skipn filter].
    assert (filter (fun p : nat * bool => g (snd p) && (s <=? fst p)) (combine (seq (S s) (length fl)) fl)
            = filter (fun p : nat * bool => g (snd p) && (S s + 0 <=? fst p)) (combine (seq (S s) (length fl)) fl)) as Hf.
    { apply filter_ext_in. intros [pa pb] Hp. apply in_combine_l in Hp. apply in_seq in Hp. cbn [fst snd]. f_equal.
      destruct (Nat.leb_spec s pa), (Nat.leb_spec (S s + 0) pa); try reflexivity; lia. }
    rewrite Hf. specialize (IH (S s) 0). cbn [skipn] in IH.
    destruct (g b); cbn [length]; rewrite IH; reflexivity.
  - replace (s + S k <=? s) with false by (symmetry; apply Nat.leb_gt; lia). rewrite andb_false_r.
    cbn [skipn]. specialize (IH (S s) k). replace (S s + k) with (s + S k) in IH by lia. exact IH.
Qed.

Lemma count_ge_suffix (fl : list bool) (g : bool -> bool) k :
  count (fun p : Z * bool => g (snd p) && (tdc_key true (fst p) <=? tdc_key true (Z.of_nat k))%Z)
        (combine (map Z.of_nat (seq 0 (length fl))) fl)
  = Z.of_nat (length (filter g (skipn k fl))).
Proof.
  rewrite combine_map_l, count_map. unfold count. f_equal.
  rewrite <- (cnt_suffix_nat g fl 0 k). f_equal. apply filter_ext. intros [a b]. cbn [fst snd]. f_equal.
  unfold tdc_key. simpl Nat.add.
  destruct (Z.leb_spec (- Z.of_nat a) (- Z.of_nat k)), (Nat.leb_spec k a); try reflexivity; lia.
Qed.

Lemma fdr_at_suffix (fl : list bool) k :
  fdr_at true (combine (map Z.of_nat (seq 0 (length fl))) fl) (Z.of_nat k)
  = tdc_fdr (Z.of_nat (cnt_true (skipn k fl))) (Z.of_nat (cnt_false (skipn k fl))).
Proof.
  unfold fdr_at, n_targets, n_decoys.
  pose proof (count_ge_suffix fl (fun b => b) k) as H1. pose proof (count_ge_suffix fl negb k) as H2.
  unfold cnt_true, cnt_false. rewrite <- H1, <- H2. reflexivity.
Qed.

Lemma Qle_bool_compat x y a : (x == y)%Q -> Qle_bool x a = Qle_bool y a.
Proof.
  intros E. destruct (Qle_bool x a) eqn:E1, (Qle_bool y a) eqn:E2; try reflexivity.
  - apply Qle_bool_iff in E1. rewrite E in E1. apply Qle_bool_iff in E1. congruence.
  - apply Qle_bool_iff in E2. rewrite <- E in E2. apply Qle_bool_iff in E2. congruence.
Qed.

Lemma tdc_fdr_le alpha T D : (alpha < 1)%Q ->
  (Qle_bool (tdc_fdr (Z.of_nat T) (Z.of_nat D)) alpha = fd_stop alpha 0 T D).
Proof.
  intros Ha. unfold tdc_fdr, fd_stop. simpl Nat.add. destruct T as [|T].
  - simpl. destruct (Qle_bool 1 alpha) eqn:E; [|reflexivity]. apply Qle_bool_iff in E. lra.
  - replace (Z.of_nat (S T) =? 0)%Z with false by (symmetry; apply Z.eqb_neq; lia).
    replace (0 <? S T) with true by (symmetry; apply Nat.ltb_lt; lia). simpl andb.
    assert ((Z.of_nat D + 1 # Z.to_pos (Z.of_nat (S T))) == inject_Z (Z.of_nat (D + 1)) / inject_Z (Z.of_nat (S T)))%Q as E.
    { rewrite Qmake_Qdiv, Z2Pos.id by lia. rewrite Nat2Z.inj_add. reflexivity. }
    apply Qle_bool_compat. exact E.
Qed.

(* Lemma A: a q-value is within alpha iff some prefix containing the PSM passes the TDC rule *)
Lemma accept_char alpha (fl : list bool) i : (alpha < 1)%Q -> i < length fl ->
  Qle_bool (nth i (tdc_core true (map Z.of_nat (seq 0 (length fl))) fl) 1%Q) alpha
  = existsb (stopF alpha fl) (seq 0 (S i)).
Proof.
  intros Ha Hi.
  destruct (tdc_core_spec true (map Z.of_nat (seq 0 (length fl))) fl) as [Hlen Hq]; [rewrite map_length, seq_length; reflexivity|].
  rewrite map_length, seq_length in Hlen, Hq. specialize (Hq i Hi).
  rewrite (nth_indep _ 0%Z (Z.of_nat 0)) in Hq by (rewrite map_length, seq_length; exact Hi).
  rewrite map_nth, seq_nth in Hq by exact Hi. simpl Nat.add in Hq.
  set (q := nth i (tdc_core true (map Z.of_nat (seq 0 (length fl))) fl) 1%Q) in *.
  destruct Hq as (H1 & Hl & Hatt).
  assert (forall s', In s' (map fst (combine (map Z.of_nat (seq 0 (length fl))) fl)) <-> exists k, k < length fl /\ s' = Z.of_nat k) as Hin.
  { intros s'. rewrite map_fst_combine by (rewrite map_length, seq_length; reflexivity). rewrite in_map_iff. split.
    - intros (k & <- & Hk). apply in_seq in Hk. exists k. split; [lia|reflexivity].
    - intros (k & Hk & ->). exists k. split; [reflexivity|apply in_seq; lia]. }
  destruct (existsb (stopF alpha fl) (seq 0 (S i))) eqn:Ee.
  - apply existsb_exists in Ee. destruct Ee as (k & Hk & Hs). apply in_seq in Hk.
    apply Qle_bool_iff. eapply Qle_trans; [apply (Hl (Z.of_nat k))|].
    + apply Hin. exists k. split; [lia|reflexivity].
    + unfold better_eq, tdc_key. lia.
    + rewrite fdr_at_suffix. apply Qle_bool_iff. rewrite (tdc_fdr_le alpha _ _ Ha). exact Hs.
  - destruct (Qle_bool q alpha) eqn:Eq; [|reflexivity]. exfalso. apply Qle_bool_iff in Eq.
    destruct Hatt as [E|(s' & Hs' & Hb & E)]; [rewrite E in Eq; lra|].
    apply Hin in Hs'. destruct Hs' as (k & Hk & ->). unfold better_eq, tdc_key in Hb.
    assert (existsb (stopF alpha fl) (seq 0 (S i)) = true) as Hc; [|congruence].
    apply existsb_exists. exists k. split; [apply in_seq; lia|].
    unfold stopF. rewrite <- (tdc_fdr_le alpha _ _ Ha). apply Qle_bool_iff. rewrite <- fdr_at_suffix, <- E. exact Eq.
Qed.

Definition nulls (ri : list fd_kind) : list bool :=
  map (fun k => match k with FdNull => true | FdCorrect => false end) ri.

Definition accB (alpha : Q) (fl : list bool) (i : nat) : bool :=
  nth i fl false && existsb (stopF alpha fl) (seq 0 (S i)).

Definition FDPB (alpha : Q) (fl nl : list bool) : Q :=
  let acc := map (accB alpha fl) (seq 0 (length fl)) in
  let r := length (filter (fun b => b) acc) in
  let v := length (filter (fun p : bool * bool => fst p && snd p) (combine acc nl)) in
  match r with O => 0%Q | _ => (inject_Z (Z.of_nat v) / inject_Z (Z.of_nat r))%Q end.

Lemma realize_length ri : forall w, length (fd_realize ri w) = length ri.
Proof. induction ri as [|[] r IH]; intros w; simpl; [reflexivity| |]; rewrite IH; reflexivity. Qed.

Lemma count_n_cons_null r : fd_count_n (FdNull :: r) = S (fd_count_n r).
Proof. reflexivity. Qed.

Lemma realize_counts ri : forall w, length w = fd_count_n ri ->
  cnt_true (fd_realize ri w) = fd_count_c ri + fd_count_t w /\
  cnt_false (fd_realize ri w) = length w - fd_count_t w /\
  length (filter (fun p : bool * bool => fst p && snd p) (combine (fd_realize ri w) (nulls ri))) = fd_count_t w.
Proof.
  unfold cnt_true, cnt_false, nulls, fd_count_t.
  induction ri as [|[] r IH]; intros w Hw.
  - destruct w; [|discriminate]. repeat split.
  - destruct (IH w Hw) as (H1 & H2 & H3). simpl. unfold fd_count_c in *. simpl. rewrite H1, H2, H3. repeat split; lia.
  - destruct w as [|b w]; [discriminate|]. rewrite count_n_cons_null in Hw. injection Hw as Hw.
    destruct (IH w Hw) as (H1 & H2 & H3).
    pose proof (count_t_le w) as Hle. unfold fd_count_t in Hle.
    unfold fd_count_c in *. simpl. destruct b; simpl; rewrite ?H1, ?H2, ?H3; repeat split; try lia.
    destruct (length (filter (fun b0 : bool => b0) w)); lia.
Qed.

Lemma via_is_FDPB alpha ri w : (alpha < 1)%Q ->
  fdp_via_tdc alpha ri w = FDPB alpha (fd_realize ri w) (nulls ri).
Proof.
  intros Ha. unfold fdp_via_tdc, FDPB. set (fl := fd_realize ri w).
  assert (length fl = length ri) as Hn by apply realize_length.
  rewrite <- Hn.
  assert (map (fun qt : Q * bool => snd qt && Qle_bool (fst qt) alpha)
              (combine (tdc_core true (map Z.of_nat (seq 0 (length fl))) fl) fl)
          = map (accB alpha fl) (seq 0 (length fl))) as ->; [|reflexivity].
  destruct (tdc_core_spec true (map Z.of_nat (seq 0 (length fl))) fl) as [Hlen _]; [rewrite map_length, seq_length; reflexivity|].
  rewrite map_length, seq_length in Hlen.
  apply (nth_ext _ _ false false).
  - rewrite !map_length, combine_length, seq_length, Hlen, Nat.min_id. reflexivity.
  - intros i Hi. rewrite map_length, combine_length, Hlen, Nat.min_id in Hi.
    rewrite (nth_indep _ false ((fun qt : Q * bool => snd qt && Qle_bool (fst qt) alpha) (1%Q, false)))
      by (rewrite map_length, combine_length, Hlen, Nat.min_id; exact Hi).
    rewrite (map_nth (fun qt : Q * bool => snd qt && Qle_bool (fst qt) alpha)).
    rewrite combine_nth by exact Hlen. cbn [fst snd].
    rewrite (nth_indep (map (accB alpha fl) (seq 0 (length fl))) false (accB alpha fl 0)) by (rewrite map_length, seq_length; exact Hi).
    rewrite (map_nth (accB alpha fl)), seq_nth by exact Hi. simpl Nat.add. unfold accB. f_equal.
    apply accept_char; assumption.
Qed.

Lemma existsb_shift (f : nat -> bool) n : existsb f (seq 0 (S n)) = f 0 || existsb (fun k => f (S k)) (seq 0 n).
Proof.
  cbn [seq existsb]. f_equal. rewrite <- seq_shift. induction (seq 0 n) as [|x l IH]; [reflexivity|]. simpl. rewrite IH. reflexivity.
Qed.

Theorem FDPB_is_fdp alpha ri : forall w, length w = fd_count_n ri ->
  (FDPB alpha (fd_realize ri w) (nulls ri) == fd_fdp alpha ri w)%Q.
Proof.
  induction ri as [|x r IH]; intros w Hw.
  - destruct w; [|discriminate]. unfold FDPB, fd_fdp. rewrite scan_step. reflexivity.
  - unfold fd_fdp. rewrite scan_step.
    destruct (realize_counts (x :: r) w Hw) as (HT & HD & HV).
    set (fl := fd_realize (x :: r) w) in *.
    assert (stopF alpha fl 0 = fd_stop alpha (fd_count_c (x :: r)) (fd_count_t w) (length w - fd_count_t w)) as Hs.
    { unfold stopF. cbn [skipn]. rewrite HT, HD. symmetry. apply stop_c_v. }
    rewrite <- Hs. destruct (stopF alpha fl 0) eqn:Es.
    + (* the whole list is accepted *)
      assert (map (accB alpha fl) (seq 0 (length fl)) = fl) as Hacc.
      { apply (nth_ext _ _ false false); [rewrite map_length, seq_length; reflexivity|].
        intros i Hi. rewrite map_length, seq_length in Hi.
        rewrite (nth_indep _ false (accB alpha fl 0)) by (rewrite map_length, seq_length; exact Hi).
        rewrite map_nth, seq_nth by exact Hi. simpl Nat.add. unfold accB. rewrite existsb_shift, Es. simpl. apply andb_true_r. }
      unfold FDPB. fold fl. rewrite Hacc. fold (cnt_true fl). rewrite HT, HV.
      symmetry in Hs. apply stop_spec in Hs. destruct Hs as [Hpos _].
      unfold fd_fdp_pay. destruct (fd_count_c (x :: r) + fd_count_t w) eqn:E; [lia|reflexivity].
    + (* the worst position is not accepted; the rest behaves as the shorter list *)
      set (w' := match x with FdCorrect => w | FdNull => tl w end).
      set (b := match x with FdCorrect => true | FdNull => hd false w end).
      assert (fl = b :: fd_realize r w') as Efl by (unfold fl, b, w'; destruct x; reflexivity).
      assert (length w' = fd_count_n r) as Hw'.
      { unfold w'. destruct x; [exact Hw|]. destruct w; [discriminate|]. rewrite count_n_cons_null in Hw. simpl in Hw |- *. lia. }
      assert (FDPB alpha fl (nulls (x :: r)) = FDPB alpha (fd_realize r w') (nulls r)) as ->.
      { assert (stopF alpha (b :: fd_realize r w') 0 = false) as Es' by (rewrite <- Efl; exact Es).
        unfold FDPB. rewrite Efl. cbn [length seq map].
        assert (accB alpha (b :: fd_realize r w') 0 = false) as E0.
        { unfold accB. cbn [seq existsb]. rewrite Es'. simpl. apply andb_false_r. }
        rewrite E0. rewrite <- seq_shift, map_map.
        assert (forall i, accB alpha (b :: fd_realize r w') (S i) = accB alpha (fd_realize r w') i) as ES.
        { intros i. unfold accB. cbn [nth]. f_equal. rewrite existsb_shift, Es'. reflexivity. }
        rewrite (map_ext _ _ ES). cbn [filter nulls map combine fst snd andb]. reflexivity. }
      rewrite (IH w' Hw'). unfold fd_fdp, w'. destruct x; reflexivity.
Qed.

(* the accept set of the theorem IS the set of targets whose C01 q-value is within alpha *)
Theorem via_tdc_is_fdp alpha ri w : (alpha < 1)%Q -> length w = fd_count_n ri ->
  (fdp_via_tdc alpha ri w == fd_fdp alpha ri w)%Q.
Proof. intros Ha Hw. rewrite (via_is_FDPB alpha ri w Ha). apply FDPB_is_fdp. exact Hw. Qed.

(* E[FDP] <= alpha for the false discovery proportion defined through the C01 q-values *)
Theorem fdr_control_tdc alpha ri : (0 <= alpha)%Q -> (alpha < 1)%Q ->
  (fd_qsum (map (fdp_via_tdc alpha ri) (fd_labs (fd_count_n ri))) <= alpha * inject_Z (Z.of_nat (2 ^ fd_count_n ri)))%Q.
Proof.
  intros H0 H1. rewrite (qsum_map_ext _ (fd_fdp alpha ri)); [apply fdr_control; exact H0|].
  intros w Hw. apply via_tdc_is_fdp; [exact H1|apply labs_length; exact Hw].
Qed.
