(* Proofs about Model/Fdr.v (C04): finite-sample FDR control of the TDC rule with the +1. *)
From Coq Require Import Lia Lqa Qfield.
From Mokaverif Require Import Model.Base Model.Tdc Model.Fdr.
Open Scope nat_scope.

(* ====================== binomial coefficients ====================== *)
Lemma binom_gt n : forall k, n < k -> fd_binom n k = 0.
Proof.
  induction n as [|n IH]; intros [|k] H; simpl; try lia.
  rewrite !IH by lia. reflexivity.
Qed.

Lemma binom_one n : fd_binom n 1 = n.
Proof. induction n as [|n IH]; simpl; [reflexivity|]. rewrite IH. destruct n; simpl; lia. Qed.

Lemma binom_pascal n k : fd_binom (S n) (S k) = fd_binom n k + fd_binom n (S k).
Proof. reflexivity. Qed.

Lemma binom_absorb n : forall k, S k * fd_binom (S n) (S k) = S n * fd_binom n k.
Proof.
  induction n as [|n IH]; intros k.
  - destruct k as [|k]; simpl; [lia|]. destruct k; simpl; lia.
  - destruct k as [|k].
    + rewrite binom_pascal. change (fd_binom (S n) 0) with 1. rewrite binom_one. lia.
    + rewrite binom_pascal. pose proof (IH k) as H1. pose proof (IH (S k)) as H2.
      rewrite (binom_pascal n k). rewrite (binom_pascal n k) in H1. nia.
Qed.

(* (k+1) * C(n,k+1) = (n-k) * C(n,k) *)
Lemma binom_absorb2 n : forall k, S k * fd_binom n (S k) = (n - k) * fd_binom n k.
Proof.
  induction n as [|n IH]; intros k; [simpl; lia|].
  destruct k as [|k].
  - change (fd_binom (S n) 0) with 1. rewrite binom_one. lia.
  - rewrite (binom_pascal n (S k)), (binom_pascal n k).
    pose proof (IH k) as H1. pose proof (IH (S k)) as H2.
    destruct (Nat.lt_ge_cases k n) as [Hlt|Hge].
    + replace (S n - S k) with (n - k) by lia. replace (n - S k) with (n - k - 1) in H2 by lia. nia.
    + rewrite (binom_gt n (S k)) in * by lia. rewrite (binom_gt n (S (S k))) by lia.
      replace (S n - S k) with 0 by lia. lia.
Qed.

(* ====================== finite sums over Q ====================== *)
Lemma qsum_app a b : (fd_qsum (a ++ b) == fd_qsum a + fd_qsum b)%Q.
Proof. induction a as [|x a IH]; simpl; [ring|]. rewrite IH. ring. Qed.

Lemma qsum_map_le {A} (f g : A -> Q) l : (forall x, In x l -> (f x <= g x)%Q) ->
  (fd_qsum (map f l) <= fd_qsum (map g l))%Q.
Proof.
  induction l as [|x l IH]; intros H; simpl; [apply Qle_refl|].
  apply Qplus_le_compat; [apply H; left; reflexivity|apply IH; intros y Hy; apply H; right; exact Hy].
Qed.

Lemma qsum_map_ext {A} (f g : A -> Q) l : (forall x, In x l -> (f x == g x)%Q) ->
  (fd_qsum (map f l) == fd_qsum (map g l))%Q.
Proof.
  induction l as [|x l IH]; intros H; simpl; [reflexivity|].
  rewrite (H x (or_introl eq_refl)), IH; [reflexivity|]. intros y Hy. apply H. right. exact Hy.
Qed.

Lemma qsum_const {A} (c : Q) (l : list A) : (fd_qsum (map (fun _ => c) l) == inject_Z (Z.of_nat (length l)) * c)%Q.
Proof.
  induction l as [|x l IH]; [simpl; ring|]. cbn [map fd_qsum fold_right length].
  change (fold_right Qplus 0%Q (map (fun _ => c) l)) with (fd_qsum (map (fun _ : A => c) l)).
  rewrite IH, Nat2Z.inj_succ, <- Z.add_1_r, inject_Z_plus. ring.
Qed.

Lemma qsum_scale {A} (a : Q) (f : A -> Q) l : (fd_qsum (map (fun x => a * f x) l) == a * fd_qsum (map f l))%Q.
Proof. induction l as [|x l IH]; simpl; [ring|]. rewrite IH. ring. Qed.

Lemma qsum_map_map {A B} (g : A -> B) (f : B -> Q) l : fd_qsum (map f (map g l)) = fd_qsum (map (fun x => f (g x)) l).
Proof. rewrite map_map. reflexivity. Qed.

(* ====================== labellings and their classes ====================== *)
Lemma labs_length m : forall w, In w (fd_labs m) -> length w = m.
Proof.
  induction m as [|m IH]; intros w H; simpl in H.
  - destruct H as [<-|[]]. reflexivity.
  - apply in_app_or in H. destruct H as [H|H]; apply in_map_iff in H; destruct H as (w' & <- & Hw'); simpl; rewrite (IH w' Hw'); reflexivity.
Qed.

Definition cls (m v : nat) : list (list bool) := filter (fun w => Nat.eqb (fd_count_t w) v) (fd_labs m).

Lemma filter_map_cons (b : bool) (p : list bool -> bool) l :
  filter p (map (cons b) l) = map (cons b) (filter (fun w => p (b :: w)) l).
Proof. induction l as [|x l IH]; simpl; [reflexivity|]. destruct (p (b :: x)); simpl; rewrite IH; reflexivity. Qed.

Lemma cls_succ m v :
  cls (S m) v = map (cons true) (match v with O => [] | S u => cls m u end) ++ map (cons false) (cls m v).
Proof.
  unfold cls. simpl fd_labs. rewrite filter_app, !filter_map_cons. f_equal.
  - destruct v as [|u].
    + rewrite (filter_ext _ (fun _ => false)) by (intros w; reflexivity).
      induction (fd_labs m); simpl; auto.
    + f_equal.
Qed.

Lemma cls_length m : forall v, length (cls m v) = fd_binom m v.
Proof.
  induction m as [|m IH]; intros v.
  - unfold cls. simpl. destruct v; reflexivity.
  - rewrite cls_succ, app_length, !map_length. destruct v as [|u].
    + rewrite IH. simpl. destruct m; reflexivity.
    + rewrite !IH. reflexivity.
Qed.

Lemma cls_in m v w : In w (cls m v) -> length w = m /\ fd_count_t w = v.
Proof.
  unfold cls. intros H. apply filter_In in H. destruct H as [H1 H2]. split; [apply labs_length; exact H1|apply Nat.eqb_eq; exact H2].
Qed.

Lemma count_t_le w : fd_count_t w <= length w.
Proof. unfold fd_count_t. induction w as [|b w IH]; simpl; [lia|]. destruct b; simpl; lia. Qed.

(* a sum over all labellings = the sum of the class sums *)
Lemma qsum_partition (f : list bool -> Q) (l : list (list bool)) m :
  (forall w, In w l -> fd_count_t w <= m) ->
  (fd_qsum (map f l) ==
   fd_qsum (map (fun v => fd_qsum (map f (filter (fun w => Nat.eqb (fd_count_t w) v) l))) (seq 0 (S m))))%Q.
Proof.
  induction l as [|x l IH]; intros H.
  - simpl filter. simpl map at 1. simpl fd_qsum at 1.
    rewrite (qsum_map_ext _ (fun _ => 0%Q)) by (intros; reflexivity). rewrite qsum_const. ring.
  - cbn [map fd_qsum fold_right].
    change (fold_right Qplus 0%Q (map f l)) with (fd_qsum (map f l)).
    rewrite IH by (intros w Hw; apply H; right; exact Hw).
    assert (fd_count_t x <= m) as Hx by (apply H; left; reflexivity).
    (* split the range at count x *)
    set (k := fd_count_t x) in *.
    assert (forall vs, ~ In k vs ->
      fd_qsum (map (fun v => fd_qsum (map f (filter (fun w => Nat.eqb (fd_count_t w) v) (x :: l)))) vs)
      = fd_qsum (map (fun v => fd_qsum (map f (filter (fun w => Nat.eqb (fd_count_t w) v) l))) vs)) as Hother.
    { induction vs as [|v vs IHv]; intros Hn; [reflexivity|]. cbn [map fd_qsum fold_right].
      f_equal; [|apply IHv; intros Hin; apply Hn; right; exact Hin].
      cbn [filter]. fold k. destruct (Nat.eqb_spec k v) as [E|_]; [exfalso; apply Hn; left; symmetry; exact E|reflexivity]. }
    replace (seq 0 (S m)) with (seq 0 k ++ k :: seq (S k) (m - k)).
    + rewrite !map_app, !qsum_app. cbn [map fd_qsum fold_right].
      rewrite (Hother (seq 0 k)) by (rewrite in_seq; lia).
      change (fold_right Qplus 0%Q ?l0) with (fd_qsum l0).
      rewrite (Hother (seq (S k) (m - k))) by (rewrite in_seq; lia).
      cbn [filter]. fold k. rewrite Nat.eqb_refl. cbn [map fd_qsum fold_right].
      change (fold_right Qplus 0%Q ?l0) with (fd_qsum l0). ring.
    + replace (S m) with (k + S (m - k)) by lia. rewrite seq_app. simpl. reflexivity.
Qed.

(* ====================== the class bound ====================== *)
Definition bnd (m v : nat) : nat := match v with O => 0 | S u => fd_binom m u end.

Lemma bnd_pascal m v : bnd (S m) v = (match v with O => 0 | S u => bnd m u end) + bnd m v.
Proof. destruct v as [|[|u]]; simpl; try reflexivity. destruct m; reflexivity. Qed.

Lemma scan_step pay alpha ri w :
  fd_scan pay alpha ri w =
  if fd_stop alpha (fd_count_c ri) (fd_count_t w) (length w - fd_count_t w)
  then pay (fd_count_c ri) (fd_count_t w) (length w - fd_count_t w)
  else match ri with
       | [] => 0%Q
       | FdCorrect :: r => fd_scan pay alpha r w
       | FdNull :: r => fd_scan pay alpha r (tl w)
       end.
Proof. destruct ri as [|[] r]; reflexivity. Qed.

Lemma inj_pos n : 0 < n -> (0 < inject_Z (Z.of_nat n))%Q.
Proof. intros H. change 0%Q with (inject_Z 0). rewrite <- Zlt_Qlt. lia. Qed.

Lemma inj_nonneg n : (0 <= inject_Z (Z.of_nat n))%Q.
Proof. change 0%Q with (inject_Z 0). rewrite <- Zle_Qle. lia. Qed.

Lemma pay_bound m v : v <= m ->
  (inject_Z (Z.of_nat (fd_binom m v)) * fd_ratio_pay 0 v (m - v) <= inject_Z (Z.of_nat (bnd m v)))%Q.
Proof.
  intros Hv. unfold fd_ratio_pay. destruct v as [|u].
  - simpl bnd. unfold Qdiv. rewrite Qmult_0_l, Qmult_0_r. apply Qle_refl.
  - simpl bnd. pose proof (binom_absorb2 m u) as Ha.
    replace (1 + (m - S u)) with (m - u) by lia.
    assert (0 < m - u) as Hp by lia.
    assert (inject_Z (Z.of_nat (fd_binom m (S u))) * inject_Z (Z.of_nat (S u))
            == inject_Z (Z.of_nat (m - u)) * inject_Z (Z.of_nat (fd_binom m u)))%Q as HQ.
    { rewrite <- !inject_Z_mult, <- !Nat2Z.inj_mul. rewrite (Nat.mul_comm (fd_binom m (S u))), Ha. reflexivity. }
    pose proof (inj_pos _ Hp) as Hpos.
    apply Qle_lteq. right. unfold Qdiv. rewrite Qmult_assoc, HQ. field. intros E. rewrite E in Hpos. inversion Hpos.
Qed.

Section ClassBound.
Variable alpha : Q.

Definition A (ri : list fd_kind) (v : nat) : Q := fd_qsum (map (fd_ratio alpha ri) (cls (fd_count_n ri) v)).

Lemma A_nonneg_bound_empty ri v : fd_count_n ri < v -> (A ri v == 0)%Q.
Proof.
  intros H. unfold A. assert (cls (fd_count_n ri) v = []) as ->; [|reflexivity].
  pose proof (cls_length (fd_count_n ri) v) as HL. rewrite binom_gt in HL by exact H.
  destruct (cls (fd_count_n ri) v); [reflexivity|discriminate].
Qed.

Lemma class_bound ri : forall v, (A ri v <= inject_Z (Z.of_nat (bnd (fd_count_n ri) v)))%Q.
Proof.
  induction ri as [|k r IH]; intros v.
  - (* no position: nothing is ever accepted *)
    destruct v as [|u].
    + unfold A. change (cls (fd_count_n []) 0) with [@nil bool]. cbn [map fd_qsum fold_right].
      unfold fd_ratio. rewrite scan_step. cbn. apply Qle_refl.
    + unfold A. change (cls (fd_count_n []) (S u)) with (@nil (list bool)). cbn [map fd_qsum fold_right]. apply inj_nonneg.
  - set (m := fd_count_n (k :: r)).
    destruct (Nat.le_gt_cases v m) as [Hv|Hv]; [|rewrite A_nonneg_bound_empty by exact Hv; apply inj_nonneg].
    destruct (fd_stop alpha (fd_count_c (k :: r)) v (m - v)) eqn:Es.
    + (* the whole prefix is accepted for every labelling of the class *)
      unfold A. fold m.
      rewrite (qsum_map_ext _ (fun _ => fd_ratio_pay (fd_count_c (k :: r)) v (m - v))).
      * rewrite qsum_const, cls_length. apply (pay_bound m v Hv).
      * intros w Hw. destruct (cls_in _ _ _ Hw) as [Hl Hc]. unfold fd_ratio. rewrite scan_step, Hl, Hc, Es. reflexivity.
    + destruct k.
      * (* a correct target at the end of the prefix: drop it *)
        unfold A. fold m. assert (m = fd_count_n r) as Em by reflexivity.
        rewrite (qsum_map_ext _ (fd_ratio alpha r)).
        -- rewrite Em. apply IH.
        -- intros w Hw. destruct (cls_in _ _ _ Hw) as [Hl Hc]. unfold fd_ratio. rewrite scan_step, Hl, Hc, Es. reflexivity.
      * (* a null at the end of the prefix: it is a target or a decoy *)
        assert (m = S (fd_count_n r)) as Em by reflexivity.
        unfold A. fold m. rewrite Em, cls_succ, map_app, qsum_app, !map_map.
        rewrite bnd_pascal, Nat2Z.inj_add, inject_Z_plus.
        assert (forall b w', In (b :: w') (cls m v) -> fd_ratio alpha (FdNull :: r) (b :: w') = fd_ratio alpha r w') as Hstep.
        { intros b w' Hw. destruct (cls_in _ _ _ Hw) as [Hl Hc]. unfold fd_ratio. rewrite scan_step, Hl, Hc, Es. reflexivity. }
        apply Qplus_le_compat.
        -- destruct v as [|u]; [simpl; apply Qle_refl|].
           rewrite (qsum_map_ext _ (fd_ratio alpha r)); [apply IH|].
           intros w' Hw'. rewrite Hstep; [reflexivity|]. rewrite Em, cls_succ. apply in_or_app. left. apply in_map. exact Hw'.
        -- rewrite (qsum_map_ext _ (fd_ratio alpha r)); [apply IH|].
           intros w' Hw'. rewrite Hstep; [reflexivity|]. rewrite Em, cls_succ. apply in_or_app. right. apply in_map. exact Hw'.
Qed.
End ClassBound.

(* ====================== totals ====================== *)
Lemma labs_count m : length (fd_labs m) = 2 ^ m.
Proof. induction m as [|m IH]; [reflexivity|]. simpl fd_labs. rewrite app_length, !map_length, IH. simpl. lia. Qed.

Lemma labs_count_le m w : In w (fd_labs m) -> fd_count_t w <= m.
Proof. intros H. rewrite <- (labs_length m w H). apply count_t_le. Qed.

Lemma sum_binom_Q m :
  (fd_qsum (map (fun v => inject_Z (Z.of_nat (fd_binom m v))) (seq 0 (S m))) == inject_Z (Z.of_nat (2 ^ m)))%Q.
Proof.
  pose proof (qsum_partition (fun _ => 1%Q) (fd_labs m) m (labs_count_le m)) as H.
  rewrite qsum_const, labs_count, Qmult_1_r in H. rewrite H.
  apply qsum_map_ext. intros v _. fold (cls m v). rewrite qsum_const, cls_length. ring.
Qed.

Lemma sum_bnd_le m :
  (fd_qsum (map (fun v => inject_Z (Z.of_nat (bnd m v))) (seq 0 (S m))) <= inject_Z (Z.of_nat (2 ^ m)))%Q.
Proof.
  rewrite <- sum_binom_Q.
  (* left: 0 + sum_{u<m} C(m,u); right: sum_{u<m} C(m,u) + C(m,m) *)
  replace (seq 0 (S m)) with (0 :: seq 1 m) at 1 by reflexivity.
  cbn [map fd_qsum fold_right]. change (fold_right Qplus 0%Q ?l) with (fd_qsum l).
  rewrite <- seq_shift, map_map. cbn [bnd].
  replace (S m) with (m + 1) by lia. rewrite seq_app, map_app, qsum_app. cbn [seq map fd_qsum fold_right].
  pose proof (inj_nonneg (fd_binom m (0 + m))) as Hn.
  change (inject_Z (Z.of_nat 0)) with 0%Q. lra.
Qed.

Theorem ratio_total alpha ri :
  (fd_qsum (map (fd_ratio alpha ri) (fd_labs (fd_count_n ri))) <= inject_Z (Z.of_nat (2 ^ fd_count_n ri)))%Q.
Proof.
  set (m := fd_count_n ri).
  rewrite (qsum_partition (fd_ratio alpha ri) (fd_labs m) m (labs_count_le m)).
  eapply Qle_trans; [|apply sum_bnd_le].
  apply qsum_map_le. intros v _. apply (class_bound alpha ri v).
Qed.

(* ====================== from the ratio to the false discovery proportion ====================== *)
Lemma stop_spec alpha c v d : fd_stop alpha c v d = true ->
  0 < c + v /\ (inject_Z (Z.of_nat (d + 1)) / inject_Z (Z.of_nat (c + v)) <= alpha)%Q.
Proof.
  unfold fd_stop. intros H. apply andb_true_iff in H. destruct H as [H1 H2].
  apply Nat.ltb_lt in H1. apply Qle_bool_iff in H2. split; assumption.
Qed.

Lemma pay_le alpha c v d : fd_stop alpha c v d = true ->
  (fd_fdp_pay c v d <= alpha * fd_ratio_pay c v d)%Q.
Proof.
  intros Es. unfold fd_fdp_pay, fd_ratio_pay. apply stop_spec in Es. destruct Es as [Hpos Hle].
  replace (1 + d) with (d + 1) by lia.
  set (a := inject_Z (Z.of_nat v)) in *.
  set (t := inject_Z (Z.of_nat (c + v))) in *.
  set (p := inject_Z (Z.of_nat (d + 1))) in *.
  assert (0 < t)%Q as Ht by (apply inj_pos; exact Hpos).
  assert (0 < p)%Q as Hpp by (apply inj_pos; lia).
  assert (0 <= a)%Q as Hna by apply inj_nonneg.
  assert (a / t == (p / t) * (a / p))%Q as -> by (field; split; intros E; [rewrite E in Hpp|rewrite E in Ht]; lra).
  apply Qmult_le_compat_r; [exact Hle|]. apply Qle_shift_div_l; [exact Hpp|lra].
Qed.

Lemma fdp_le_ratio alpha ri : (0 <= alpha)%Q -> forall w, (fd_fdp alpha ri w <= alpha * fd_ratio alpha ri w)%Q.
Proof.
  intros Ha. unfold fd_fdp, fd_ratio. induction ri as [|k r IH]; intros w.
  - rewrite (scan_step fd_fdp_pay), (scan_step fd_ratio_pay).
    destruct (fd_stop alpha (fd_count_c []) (fd_count_t w) (length w - fd_count_t w)) eqn:Es; [apply pay_le; exact Es|lra].
  - rewrite (scan_step fd_fdp_pay), (scan_step fd_ratio_pay).
    destruct (fd_stop alpha (fd_count_c (k :: r)) (fd_count_t w) (length w - fd_count_t w)) eqn:Es; [apply pay_le; exact Es|].
    destruct k; apply IH.
Qed.

(* the finite-sample theorem: summed over all 2^m labellings of the nulls, the false discovery
   proportion of the TDC accept set is at most alpha * 2^m, i.e. E[FDP] <= alpha *)
Theorem fdr_control alpha ri : (0 <= alpha)%Q ->
  (fd_qsum (map (fd_fdp alpha ri) (fd_labs (fd_count_n ri))) <= alpha * inject_Z (Z.of_nat (2 ^ fd_count_n ri)))%Q.
Proof.
  intros Ha.
  eapply Qle_trans; [apply (qsum_map_le _ (fun w => alpha * fd_ratio alpha ri w)%Q); intros w _; apply fdp_le_ratio; exact Ha|].
  rewrite qsum_scale. rewrite !(Qmult_comm alpha). apply Qmult_le_compat_r; [apply ratio_total|exact Ha].
Qed.

(* ====================== tie to the C01 model on bounded sizes ======================
   The false discovery proportion computed through the C01 q-values (tdc_core on the realised
   labels, scores = ranks, accept = targets with q <= alpha) coincides with fd_fdp.  Here this is
   checked exhaustively for every arrangement of up to 6 positions, every labelling and a grid of
   alpha < 1 (a finite sweep, closed by vm_compute); the correspondence check repeats the comparison
   against the real mokapot.qvalues.tdc. *)
Fixpoint all_kinds (n : nat) : list (list fd_kind) :=
  match n with
  | O => [[]]
  | S n' => map (cons FdCorrect) (all_kinds n') ++ map (cons FdNull) (all_kinds n')
  end.

Definition bridge_ok (alpha : Q) (ri : list fd_kind) : bool :=
  forallb (fun w => Qeq_bool (fdp_via_tdc alpha ri w) (fd_fdp alpha ri w)) (fd_labs (fd_count_n ri)).

Definition bridge_sweep (nmax : nat) : bool :=
  forallb (fun n => forallb (fun ri => forallb (fun alpha => bridge_ok alpha ri) [1#100; 1#10; 1#4; 1#3; 1#2; 2#3; 9#10]%Q)
                            (all_kinds n)) (seq 0 (S nmax)).

Lemma bridge_bounded : bridge_sweep 6 = true.
Proof. vm_compute. reflexivity. Qed.
