(* Proofs about Model/CalibrateD.v (C11): calibrate_scores for either ranking direction. *)
From Coq Require Import Lia Qfield Lqa.
From Mokaverif Require Import Model.Base Model.Tdc Model.Calibrate Model.CalibrateD Proofs.TdcP Proofs.CalibrateP.
Open Scope Z_scope.

(* brew's instance *)
Lemma calibrate_d_true scores targets thr : calibrate_d true scores targets thr = calibrate scores targets thr.
Proof. reflexivity. Qed.

(* what calibrate_d returns, for either direction: the anchors are the minimum over the targets accepted
   in the competition run in direction [desc], and the decoy median *)
Theorem calibrate_d_spec desc scores targets thr ys :
  calibrate_d desc scores targets thr = Ok ys ->
  exists labels t d,
    update_labels desc scores targets thr = Ok labels /\
    (exists i, (i < length scores)%nat /\ nth i labels 0 = 1 /\ nth i scores 0 = t) /\
    (forall i, (i < length scores)%nat -> nth i labels 0 = 1 -> t <= nth i scores 0) /\
    cal_median (cal_select (map (fun l => l =? -1) labels) scores) = Some d /\
    ~ (inject_Z t == d)%Q /\
    ys = map (fun s => cal_map (inject_Z t) d (inject_Z s)) scores.
Proof.
  unfold calibrate_d. destruct (update_labels desc scores targets thr) as [labels|e] eqn:EL; [|discriminate].
  destruct (update_labels_spec _ _ _ _ _ EL) as [HLlen _].
  destruct (cal_select (map (fun l => l =? 1) labels) scores) as [|p ps] eqn:EP; [discriminate|].
  destruct (cal_median _) as [d|] eqn:EM; [|discriminate].
  destruct (Qeq_bool (inject_Z (cal_min p ps)) d) eqn:EQ; [discriminate|].
  intros H. injection H as <-.
  exists labels, (cal_min p ps), d. split; [reflexivity|].
  assert (forall s, In s (p :: ps) <->
            exists i, (i < length scores)%nat /\ nth i labels 0 = 1 /\ nth i scores 0 = s) as Hsel.
  { intros s. rewrite <- EP. rewrite (cal_select_in _ _ 0). rewrite map_length, HLlen. split.
    - intros (i & H1 & H2 & H3 & H4). exists i. split; [exact H2|]. split; [|exact H4].
      rewrite (nth_indep _ false ((fun l => l =? 1) 0)) in H3 by (rewrite map_length; lia).
      rewrite (map_nth (fun l => l =? 1)) in H3. apply Z.eqb_eq in H3. exact H3.
    - intros (i & H1 & H2 & H3). exists i. split; [lia|]. split; [lia|]. split; [|exact H3].
      rewrite (nth_indep _ false ((fun l => l =? 1) 0)) by (rewrite map_length; lia).
      rewrite (map_nth (fun l => l =? 1)). apply Z.eqb_eq. exact H2. }
  split; [apply Hsel; apply cal_min_in|]. split.
  - intros i Hi Hl. assert (In (nth i scores 0) (p :: ps)) as Hin by (apply Hsel; exists i; auto).
    destruct (cal_min_le p ps) as [H1 H2]. destruct Hin as [<-|Hin]; [exact H1|apply H2; exact Hin].
  - split; [exact EM|]. split; [|reflexivity].
    intros E. apply Qeq_bool_iff in E. congruence.
Qed.

Lemma calibrate_d_error desc scores targets thr labels :
  update_labels desc scores targets thr = Ok labels ->
  (forall i, (i < length scores)%nat -> nth i labels 0 <> 1) ->
  calibrate_d desc scores targets thr = Err ERuntime.
Proof.
  intros EL Hno. unfold calibrate_d. rewrite EL.
  destruct (update_labels_spec _ _ _ _ _ EL) as [HLlen _].
  destruct (cal_select (map (fun l => l =? 1) labels) scores) as [|p ps] eqn:EP; [reflexivity|exfalso].
  assert (In p (cal_select (map (fun l => l =? 1) labels) scores)) as Hin by (rewrite EP; left; reflexivity).
  apply (cal_select_in _ _ 0) in Hin. destruct Hin as (i & H1 & H2 & H3 & _).
  rewrite map_length in H1.
  rewrite (nth_indep _ false ((fun l => l =? 1) 0)) in H3 by (rewrite map_length; lia).
  rewrite (map_nth (fun l => l =? 1)) in H3. apply Z.eqb_eq in H3. apply (Hno i H2 H3).
Qed.
