(* Proofs about Model/Strip.v (C15): stripping an annotated peptide gives the bare sequence. *)
From Coq Require Import Lia.
From Mokaverif Require Import Model.Base Model.Strip.
Open Scope Z_scope.

(* ====================== annotated peptides (the specification side) ====================== *)
(* a written peptide is a sequence of residues, bracketed / parenthesised modifications and
   lower-case marks, optionally between flanks "fl." and ".fr" *)
Inductive st_item : Type :=
| StRes (c : Z)                          (* a residue: kept *)
| StMod (o : Z) (body : str) (cl : Z)    (* opener, body, closer: removed *)
| StLow (c : Z).                         (* lower-case terminus / modification mark: removed *)

Definition st_render_item (it : st_item) : str :=
  match it with StRes c => [c] | StMod o b cl => o :: b ++ [cl] | StLow c => [c] end.
Definition st_visible_item (it : st_item) : str :=
  match it with StRes c => [c] | StMod _ _ _ => [] | StLow c => [c] end.
Definition st_pep_item (it : st_item) : str :=
  match it with StRes c => [c] | _ => [] end.

Definition st_render_items (its : list st_item) : str := flat_map st_render_item its.
Definition st_visible (its : list st_item) : str := flat_map st_visible_item its.
Definition st_pep (its : list st_item) : str := flat_map st_pep_item its.

(* residues are anything but lower-case letters, openers and '.'; a modification body is anything
   without a closer (openers and '.' allowed: "[+79.97]", "[a[b]"); openers / closers of either
   kind may be mixed ("[Acetyl (K)") *)
Definition st_wf_item (it : st_item) : Prop :=
  match it with
  | StRes c => st_is_lower c = false /\ st_is_open c = false /\ c <> st_DOT
  | StMod o b cl => st_is_open o = true /\ st_is_close cl = true /\
                    forallb (fun c => negb (st_is_close c)) b = true
  | StLow c => st_is_lower c = true
  end.

Record st_annot := { st_fl : option str; st_items : list st_item; st_fr : option str }.

Definition st_flank_ok (f : str) : bool :=
  forallb (fun c => negb (c =? st_DOT) && negb (st_is_open c)) f.

(* the right flank is arbitrary text; it needs a left flank before it *)
Definition st_wf (a : st_annot) : Prop :=
  Forall st_wf_item (st_items a) /\
  match st_fl a with
  | Some f => st_flank_ok f = true
  | None => st_fr a = None
  end.

Definition st_render (a : st_annot) : str :=
  (match st_fl a with Some f => f ++ [st_DOT] | None => [] end)
  ++ st_render_items (st_items a)
  ++ (match st_fr a with Some f => st_DOT :: f | None => [] end).

(* ====================== character classes ====================== *)
Lemma st_lower_not_open c : st_is_lower c = true -> st_is_open c = false /\ c <> st_DOT.
Proof.
  unfold st_is_lower, st_is_open, st_DOT. intros H. apply andb_prop in H. destruct H as [H1 H2].
  apply Z.leb_le in H1. apply Z.leb_le in H2. split; [|lia].
  destruct (Z.eqb_spec c 91); [lia|]. destruct (Z.eqb_spec c 40); [lia|]. reflexivity.
Qed.

Lemma st_dot_not_open : st_is_open st_DOT = false.
Proof. reflexivity. Qed.

Lemma st_upper_not_lower c : st_is_upper c = true -> st_is_lower c = false.
Proof.
  unfold st_is_upper, st_is_lower. intros H. apply andb_prop in H. destruct H as [H1 H2].
  apply Z.leb_le in H1. apply Z.leb_le in H2.
  destruct (Z.leb_spec 97 c); [lia|]. reflexivity.
Qed.

(* ====================== regex 1: modifications ====================== *)
Lemma st_unmod_go_plain a s :
  forallb (fun c => negb (st_is_open c)) a = true ->
  st_unmod_go None (a ++ s) = a ++ st_unmod_go None s.
Proof.
  induction a as [|c a IH]; intros H; [reflexivity|].
  cbn [forallb] in H. apply andb_prop in H. destruct H as [Hc Ha].
  cbn [app st_unmod_go]. destruct (st_is_open c); [discriminate|]. rewrite IH by exact Ha. reflexivity.
Qed.

Lemma st_unmod_go_body p b cl s :
  forallb (fun c => negb (st_is_close c)) b = true -> st_is_close cl = true ->
  st_unmod_go (Some p) (b ++ cl :: s) = st_unmod_go None s.
Proof.
  revert p. induction b as [|c b IH]; intros p Hb Hcl.
  - cbn [app st_unmod_go]. rewrite Hcl. reflexivity.
  - cbn [forallb] in Hb. apply andb_prop in Hb. destruct Hb as [Hc Hb].
    cbn [app st_unmod_go]. destruct (st_is_close c); [discriminate|]. apply IH; assumption.
Qed.

Lemma st_unmod_items its s :
  Forall st_wf_item its ->
  st_unmod_go None (st_render_items its ++ s) = st_visible its ++ st_unmod_go None s.
Proof.
  induction its as [|it its IH]; intros H; [reflexivity|].
  apply Forall_cons_iff in H. destruct H as [Hit Hits].
  unfold st_render_items, st_visible in *. cbn [flat_map]. rewrite <- !app_assoc.
  destruct it as [c|o b cl|c]; cbn [st_wf_item st_render_item st_visible_item] in *.
  - destruct Hit as (_ & Ho & _). cbn [app st_unmod_go]. rewrite Ho. rewrite IH by exact Hits. reflexivity.
  - destruct Hit as (Ho & Hcl & Hb). cbn [app st_unmod_go]. rewrite Ho.
    rewrite <- app_assoc. cbn [app]. rewrite st_unmod_go_body by assumption. apply IH. exact Hits.
  - destruct (st_lower_not_open c Hit) as [Ho _]. cbn [app st_unmod_go]. rewrite Ho.
    rewrite IH by exact Hits. reflexivity.
Qed.

Lemma st_flank_no_open f : st_flank_ok f = true -> forallb (fun c => negb (st_is_open c)) f = true.
Proof.
  unfold st_flank_ok. rewrite !forallb_forall. intros H c Hc. specialize (H c Hc).
  apply andb_prop in H. apply H.
Qed.

Lemma st_flank_no_dot f : st_flank_ok f = true -> forallb (fun c => negb (c =? st_DOT)) f = true.
Proof.
  unfold st_flank_ok. rewrite !forallb_forall. intros H c Hc. specialize (H c Hc).
  apply andb_prop in H. apply H.
Qed.

(* ====================== regex 2 and 3: flanks ====================== *)
Lemma st_after_dot_app f s :
  forallb (fun c => negb (c =? st_DOT)) f = true -> st_after_dot (f ++ st_DOT :: s) = Some s.
Proof.
  induction f as [|c f IH]; intros H.
  - cbn [app st_after_dot]. rewrite Z.eqb_refl. reflexivity.
  - cbn [forallb] in H. apply andb_prop in H. destruct H as [Hc Hf].
    cbn [app st_after_dot]. destruct (c =? st_DOT); [discriminate|]. apply IH. exact Hf.
Qed.

Lemma st_after_dot_none f :
  forallb (fun c => negb (c =? st_DOT)) f = true -> st_after_dot f = None.
Proof.
  induction f as [|c f IH]; intros H; [reflexivity|].
  cbn [forallb] in H. apply andb_prop in H. destruct H as [Hc Hf].
  cbn [st_after_dot]. destruct (c =? st_DOT); [discriminate|]. apply IH. exact Hf.
Qed.

Lemma st_before_dot_app f s :
  forallb (fun c => negb (c =? st_DOT)) f = true -> st_before_dot (f ++ st_DOT :: s) = f.
Proof.
  induction f as [|c f IH]; intros H.
  - cbn [app st_before_dot]. rewrite Z.eqb_refl. reflexivity.
  - cbn [forallb] in H. apply andb_prop in H. destruct H as [Hc Hf].
    cbn [app st_before_dot]. destruct (c =? st_DOT); [discriminate|]. rewrite IH by exact Hf. reflexivity.
Qed.

Lemma st_before_dot_none f :
  forallb (fun c => negb (c =? st_DOT)) f = true -> st_before_dot f = f.
Proof.
  induction f as [|c f IH]; intros H; [reflexivity|].
  cbn [forallb] in H. apply andb_prop in H. destruct H as [Hc Hf].
  cbn [st_before_dot]. destruct (c =? st_DOT); [discriminate|]. rewrite IH by exact Hf. reflexivity.
Qed.

Lemma st_visible_no_dot its :
  Forall st_wf_item its -> forallb (fun c => negb (c =? st_DOT)) (st_visible its) = true.
Proof.
  induction its as [|it its IH]; intros H; [reflexivity|].
  apply Forall_cons_iff in H. destruct H as [Hit Hits].
  unfold st_visible in *. cbn [flat_map]. rewrite forallb_app, IH by exact Hits. rewrite andb_true_r.
  destruct it as [c|o b cl|c]; cbn [st_wf_item st_visible_item forallb] in *; [| reflexivity |].
  - destruct Hit as (_ & _ & Hd). destruct (Z.eqb_spec c st_DOT); [contradiction|]. reflexivity.
  - destruct (st_lower_not_open c Hit) as [_ Hd]. destruct (Z.eqb_spec c st_DOT); [contradiction|]. reflexivity.
Qed.

(* ====================== one written peptide ====================== *)
(* after the three substitutions: residues and lower-case marks, in order *)
Theorem st_core_render a : st_wf a -> st_core (st_render a) = st_visible (st_items a).
Proof.
  destruct a as [fl its fr]. unfold st_wf, st_render, st_core, st_unmod. cbn [st_fl st_items st_fr].
  intros [Hits Hfl]. pose proof (st_visible_no_dot its Hits) as Hnd.
  destruct fl as [f|].
  - pose proof (st_flank_no_open f Hfl) as Hfo. pose proof (st_flank_no_dot f Hfl) as Hfd.
    rewrite <- app_assoc. rewrite st_unmod_go_plain by exact Hfo.
    cbn [app st_unmod_go]. rewrite st_dot_not_open.
    rewrite st_unmod_items by exact Hits.
    unfold st_unprefix. rewrite st_after_dot_app by exact Hfd.
    destruct fr as [g|].
    + cbn [st_unmod_go]. rewrite st_dot_not_open. apply st_before_dot_app. exact Hnd.
    + cbn [st_unmod_go]. rewrite app_nil_r. apply st_before_dot_none. exact Hnd.
  - subst fr. cbn [app]. rewrite st_unmod_items by exact Hits. cbn [st_unmod_go]. rewrite app_nil_r.
    unfold st_unprefix. rewrite st_after_dot_none by exact Hnd. apply st_before_dot_none. exact Hnd.
Qed.

Lemma st_drop_lower_visible its :
  Forall st_wf_item its -> st_drop_lower (st_visible its) = st_pep its.
Proof.
  induction its as [|it its IH]; intros H; [reflexivity|].
  apply Forall_cons_iff in H. destruct H as [Hit Hits].
  unfold st_drop_lower, st_visible, st_pep in *. cbn [flat_map]. rewrite filter_app, IH by exact Hits.
  f_equal. destruct it as [c|o b cl|c]; cbn [st_wf_item st_visible_item st_pep_item filter] in *.
  - destruct Hit as (Hl & _). rewrite Hl. reflexivity.
  - reflexivity.
  - rewrite Hit. reflexivity.
Qed.

Lemma st_pep_incl_visible its c : In c (st_pep its) -> In c (st_visible its).
Proof.
  unfold st_pep, st_visible. rewrite !in_flat_map. intros (it & Hit & Hc). exists it. split; [exact Hit|].
  destruct it; cbn in *; tauto.
Qed.

Lemma st_islower_false_upper s c : In c s -> st_is_upper c = true -> st_islower s = false.
Proof.
  intros Hin Hu. unfold st_islower.
  assert (existsb st_is_upper s = true) as -> by (apply existsb_exists; exists c; split; assumption).
  apply andb_false_r.
Qed.

(* ====================== a whole column ====================== *)
Lemma st_core_column col :
  Forall st_wf col -> map st_core (map st_render col) = map (fun a => st_visible (st_items a)) col.
Proof.
  intros H. rewrite map_map. apply map_ext_in. intros a Ha.
  rewrite Forall_forall in H. apply st_core_render. apply H. exact Ha.
Qed.

(* modifications, flanks and lower-case marks are ignored: as soon as one peptide of the column
   has an upper-case residue, every written peptide is mapped to its bare residue sequence *)
Theorem st_strip_all_annotated col :
  Forall st_wf col ->
  (exists a c, In a col /\ In c (st_pep (st_items a)) /\ st_is_upper c = true) ->
  st_strip_all (map st_render col) = map (fun a => st_pep (st_items a)) col.
Proof.
  intros Hwf (a & c & Ha & Hc & Hu). unfold st_strip_all. rewrite st_core_column by exact Hwf.
  assert (forallb st_islower (map (fun a => st_visible (st_items a)) col) = false) as ->.
  { destruct (forallb st_islower (map (fun a0 => st_visible (st_items a0)) col)) eqn:E; [|reflexivity].
    rewrite forallb_forall in E.
    specialize (E (st_visible (st_items a)) (in_map (fun a0 => st_visible (st_items a0)) col a Ha)).
    rewrite (st_islower_false_upper _ c (st_pep_incl_visible _ _ Hc) Hu) in E. discriminate. }
  rewrite map_map. apply map_ext_in. intros b Hb. apply st_drop_lower_visible.
  rewrite Forall_forall in Hwf. apply (Hwf b Hb).
Qed.

(* the other branch: a column written entirely in lower case is upper-cased *)
Theorem st_strip_all_lower_column col :
  Forall st_wf col ->
  (forall a, In a col -> st_islower (st_visible (st_items a)) = true) ->
  st_strip_all (map st_render col) = map (fun a => st_upper (st_visible (st_items a))) col.
Proof.
  intros Hwf Hl. unfold st_strip_all. rewrite st_core_column by exact Hwf.
  assert (forallb st_islower (map (fun a => st_visible (st_items a)) col) = true) as ->.
  { apply forallb_forall. intros s Hs. apply in_map_iff in Hs. destruct Hs as (a & <- & Ha). apply Hl. exact Ha. }
  rewrite map_map. reflexivity.
Qed.

(* the form of the DESIGN: strip (fl ++ "." ++ with_mods pep ++ "." ++ fr) = pep *)
Corollary st_strip_flanked fl its fr :
  st_flank_ok fl = true -> Forall st_wf_item its ->
  (exists c, In c (st_pep its) /\ st_is_upper c = true) ->
  st_strip_all [fl ++ [st_DOT] ++ st_render_items its ++ [st_DOT] ++ fr] = [st_pep its].
Proof.
  intros Hfl Hits (c & Hc & Hu).
  pose (a := {| st_fl := Some fl; st_items := its; st_fr := Some fr |}).
  assert (st_render a = fl ++ [st_DOT] ++ st_render_items its ++ [st_DOT] ++ fr) as E.
  { unfold st_render, a. cbn [st_fl st_items st_fr]. rewrite <- app_assoc. reflexivity. }
  rewrite <- E. apply (st_strip_all_annotated [a]).
  - constructor; [|constructor]. split; [exact Hits|exact Hfl].
  - exists a, c. split; [left; reflexivity|]. split; assumption.
Qed.

Corollary st_strip_unflanked its :
  Forall st_wf_item its -> (exists c, In c (st_pep its) /\ st_is_upper c = true) ->
  st_strip_all [st_render_items its] = [st_pep its].
Proof.
  intros Hits (c & Hc & Hu).
  pose (a := {| st_fl := None; st_items := its; st_fr := None |}).
  assert (st_render a = st_render_items its) as E.
  { unfold st_render, a. cbn [st_fl st_items st_fr app]. apply app_nil_r. }
  rewrite <- E. apply (st_strip_all_annotated [a]).
  - constructor; [|constructor]. split; [exact Hits|reflexivity].
  - exists a, c. split; [left; reflexivity|]. split; assumption.
Qed.

(* the column keeps its length and order: row i of the result belongs to row i of the input *)
Lemma st_strip_all_length seqs : length (st_strip_all seqs) = length seqs.
Proof. unfold st_strip_all. destruct (forallb _ _); rewrite !map_length; reflexivity. Qed.

(* the stripped sequence never contains '.', and no lower-case letter *)
Lemma st_before_dot_no_dot s : forallb (fun c => negb (c =? st_DOT)) (st_before_dot s) = true.
Proof.
  induction s as [|c s IH]; [reflexivity|]. cbn [st_before_dot].
  destruct (c =? st_DOT) eqn:E; [reflexivity|]. cbn [forallb]. rewrite E, IH. reflexivity.
Qed.

Lemma st_strip_all_no_lower seqs s :
  In s (st_strip_all seqs) -> forallb (fun c => negb (st_is_lower c)) s = true.
Proof.
  unfold st_strip_all. destruct (forallb _ _).
  - rewrite map_map. intros H. apply in_map_iff in H. destruct H as (x & <- & _).
    unfold st_upper. apply forallb_forall. intros c Hc. apply in_map_iff in Hc. destruct Hc as (d & <- & _).
    destruct (st_is_lower d) eqn:E; [|rewrite E; reflexivity].
    unfold st_is_lower in *. apply andb_prop in E. destruct E as [E1 E2].
    apply Z.leb_le in E1. apply Z.leb_le in E2.
    destruct (Z.leb_spec 97 (d - 32)); [|reflexivity]. destruct (Z.leb_spec (d - 32) 122); [lia|reflexivity].
  - rewrite map_map. intros H. apply in_map_iff in H. destruct H as (x & <- & _).
    unfold st_drop_lower. apply forallb_forall. intros c Hc. apply filter_In in Hc. apply Hc.
Qed.
