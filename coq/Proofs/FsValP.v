(* FsValP.v — refinement of the file-operation model of assign_confidence (Model/Fs.v) to its abstract effect (C09):
   executing the operation list on ANY directory ends, always successfully, in the directory in which the run's
   chunk and level files are gone and its result files hold the rows and q-values the C03 model assigns to them.
   With a protein level (the picked-protein step is an oracle keyed by the PSM ids of the peptide-level file): the run
   succeeds exactly when every recorded oracle value is keyed by the peptide level this run computes, the protein-level
   file is gone too, and the protein-level result files hold the oracle's rows, split and with q-values like every level. *)
From Coq Require Import Lia FinFun.
From Mokaverif Require Import Model.Base Model.Tdc Model.PinCols Model.Merge Model.Confidence Model.PinTsv Model.Fs
  Proofs.PinColsP Proofs.TdcP Proofs.ConfidenceP Proofs.FsP.
Open Scope nat_scope.

(* ------------------------------------------------------------------ part 1 *)

(* ---------- arithmetic of batch indices ---------- *)
Lemma div_succ_full : forall c n, 0 < c -> (S n) mod c = 0 -> (S n) / c = S (n / c).
Proof.
  intros c n Hc Hm.
  pose proof (Nat.div_mod (S n) c ltac:(lia)) as E1. rewrite Hm in E1.
  pose proof (Nat.div_mod n c ltac:(lia)) as E2.
  pose proof (Nat.mod_upper_bound n c ltac:(lia)) as B2.
  nia.
Qed.

Lemma div_succ_part : forall c n, 0 < c -> (S n) mod c <> 0 -> (S n) / c = n / c.
Proof.
  intros c n Hc Hm.
  pose proof (Nat.div_mod (S n) c ltac:(lia)) as E1.
  pose proof (Nat.mod_upper_bound (S n) c ltac:(lia)) as B1.
  pose proof (Nat.div_mod n c ltac:(lia)) as E2.
  pose proof (Nat.mod_upper_bound n c ltac:(lia)) as B2.
  nia.
Qed.

(* ---------- chunks addressed by index ---------- *)
Lemma chunks_count {A} c f (l : list A) : 1 <= c -> c * length (pc_chunks_aux f c l) <= length l + c - 1.
Proof.
  intros Hc. revert l. induction f as [|f IH]; intros l; cbn [pc_chunks_aux length]; [lia|].
  destruct l as [|x l]; cbn [length]; [lia|].
  specialize (IH (skipn c (x :: l))). rewrite skipn_length in IH. cbn [length] in IH.
  set (k := length (pc_chunks_aux f c (skipn c (x :: l)))) in *.
  destruct (le_lt_dec c (S (length l))) as [Hle|Hlt].
  - replace (S (length l) - c + c - 1) with (length l) in IH by lia. lia.
  - replace (S (length l) - c + c - 1) with (c - 1) in IH by lia.
    assert (k = 0) by (destruct k; [reflexivity | nia]). subst k. rewrite H. lia.
Qed.

Lemma chunks_count_div {A} c (l : list A) : 1 <= c -> length (pc_chunks c l) <= S (length l / c).
Proof.
  intros Hc. pose proof (chunks_count c (length l) l Hc) as H. fold (pc_chunks c l) in H.
  pose proof (Nat.div_mod (length l) c ltac:(lia)) as E.
  pose proof (Nat.mod_upper_bound (length l) c ltac:(lia)) as B.
  nia.
Qed.

Lemma concat_nth_seq {A} (chs : list (list A)) : forall k s, length chs <= k ->
  concat (map (fun b => nth (b - s) chs []) (seq s k)) = concat chs.
Proof.
  induction chs as [|ch r IH]; intros k s Hk.
  - cbn [concat]. induction (seq s k) as [|b bs IHb]; cbn; [reflexivity|]. destruct (b - s); exact IHb.
  - cbn [length] in Hk. destruct k as [|k]; [lia|]. cbn [seq map concat].
    rewrite Nat.sub_diag. cbn [nth]. f_equal.
    rewrite <- (IH k (S s) ltac:(lia)). f_equal. apply map_ext_in. intros b Hb. apply in_seq in Hb.
    replace (b - s) with (S (b - S s)) by lia. reflexivity.
Qed.

Lemma concat_nth_seq0 {A} (chs : list (list A)) k : length chs <= k ->
  concat (map (fun b => nth b chs []) (seq 0 k)) = concat chs.
Proof.
  intro Hk. rewrite <- (concat_nth_seq chs k 0 Hk). f_equal. apply map_ext. intro b. rewrite Nat.sub_0_r. reflexivity.
Qed.

(* all batches of a list, the final (possibly empty) flush included *)
Lemma batches_concat {A} c (l : list A) : 1 <= c ->
  concat (map (fun b => nth b (pc_chunks c l) []) (seq 0 (S (length l / c)))) = l.
Proof.
  intro Hc. rewrite concat_nth_seq0 by (apply chunks_count_div; exact Hc). apply chunks_concat; exact Hc.
Qed.

(* ------------------------------------------------------------------ part 2 *)

(* ---------- the level loop with flushes, in lockstep with the level loop of the C03 model ---------- *)
Section Events.
Variable c : nat.
Hypothesis Hc : 0 < c.
Variable dedup : bool.
Variable nl : nat.

Definition ev_of (j : nat) (ev : list (nat * nat)) : list (nat * nat) := filter (fun e => Nat.eqb (fst e) j) ev.

Definition evJ (out : list (list cf_row)) (added : list nat) (ev : list (nat * nat)) : Prop :=
  length out = nl /\ length added = nl /\
  (forall j, j < nl -> nth j added 0 = length (nth j out [])) /\
  (forall j, j < nl -> ev_of j ev = map (pair j) (seq 0 (nth j added 0 / c))).

Lemma ev_of_app j a b : ev_of j (a ++ b) = ev_of j a ++ ev_of j b.
Proof. unfold ev_of. apply filter_app. Qed.

Lemma evJ_add out added ev lv r : lv < nl -> evJ out added ev ->
  let a := S (nth lv added 0) in
  evJ (cf_replace_nth lv (nth lv out [] ++ [r]) out) (cf_replace_nth lv a added)
      (if Nat.eqb (a mod c) 0 then ev ++ [(lv, a / c - 1)] else ev).
Proof.
  intros Hlv [Ho [Ha [Hlen Hev]]] a. unfold evJ. rewrite !replace_length. repeat split; try assumption.
  - intros j Hj. destruct (Nat.eq_dec lv j) as [->|N].
    + rewrite !replace_same by lia. rewrite app_length. cbn. unfold a. rewrite (Hlen j Hj). lia.
    + rewrite !replace_other by exact N. apply Hlen; exact Hj.
  - intros j Hj. destruct (Nat.eq_dec lv j) as [->|N].
    + rewrite replace_same by lia. destruct (Nat.eqb (a mod c) 0) eqn:E.
      * apply Nat.eqb_eq in E. rewrite ev_of_app, (Hev j Hj). unfold a in *.
        rewrite (div_succ_full c _ Hc E). cbn [ev_of filter fst]. rewrite Nat.eqb_refl.
        rewrite seq_S, map_app. cbn. rewrite Nat.sub_0_r. reflexivity.
      * apply Nat.eqb_neq in E. unfold a in *. rewrite (div_succ_part c _ Hc E). apply Hev; exact Hj.
    + rewrite replace_other by exact N. destruct (Nat.eqb (a mod c) 0).
      * rewrite ev_of_app, (Hev j Hj). cbn [ev_of filter fst].
        destruct (Nat.eqb lv j) eqn:E; [apply Nat.eqb_eq in E; contradiction|]. rewrite app_nil_r. reflexivity.
      * apply Hev; exact Hj.
Qed.

Lemma ev_step_lockstep : forall r todo lv seen out added ev,
  lv + todo = nl -> evJ out added ev ->
  fst (fst (fs_levels_ev_step c dedup r lv todo seen added ev)) = fst (cf_levels_step cf_row cf_lkey dedup r lv todo seen out) /\
  evJ (snd (cf_levels_step cf_row cf_lkey dedup r lv todo seen out))
      (snd (fst (fs_levels_ev_step c dedup r lv todo seen added ev)))
      (snd (fs_levels_ev_step c dedup r lv todo seen added ev)).
Proof.
  intros r todo; induction todo as [|t IH]; intros lv seen out added ev Hn HJ; cbn [fs_levels_ev_step cf_levels_step].
  - split; [reflexivity | exact HJ].
  - assert (Hlv : lv < nl) by lia.
    pose proof (evJ_add out added ev lv r Hlv HJ) as HJ'. cbn zeta in HJ'.
    destruct (negb (Nat.eqb lv 0) || dedup)%bool.
    + destruct (cf_memz (cf_lkey lv r) (nth lv seen [])).
      * destruct (Nat.eqb lv 0); [split; [reflexivity | exact HJ]|]. apply IH; [lia | exact HJ].
      * apply IH; [lia | exact HJ'].
    + apply IH; [lia | exact HJ'].
Qed.

Lemma evJ_init : evJ (repeat [] nl) (repeat 0 nl) [].
Proof.
  unfold evJ. rewrite !repeat_length. repeat split.
  - intros j Hj. rewrite !nth_repeat. reflexivity.
  - intros j Hj. rewrite nth_repeat. rewrite Nat.div_0_l by lia. reflexivity.
Qed.

Definition evF (st : list (list Z) * list nat * list (nat * nat)) (r : cf_row) :=
  let '(seen, added, ev) := st in fs_levels_ev_step c dedup r 0 nl seen added ev.
Definition cfF (acc : list (list Z) * list (list cf_row)) (r : cf_row) :=
  cf_levels_step cf_row cf_lkey dedup r 0 nl (fst acc) (snd acc).

Lemma ev_fold_lockstep : forall stream st acc,
  fst (fst st) = fst acc -> evJ (snd acc) (snd (fst st)) (snd st) ->
  evJ (snd (fold_left cfF stream acc)) (snd (fst (fold_left evF stream st))) (snd (fold_left evF stream st)).
Proof.
  induction stream as [|r rs IH]; intros st acc Hs HJ; cbn [fold_left]; [exact HJ|].
  destruct st as [[seen added] ev]. destruct acc as [seen' out]. cbn in Hs. subst seen'.
  apply IH; cbn [evF cfF fst snd];
    destruct (ev_step_lockstep r nl 0 seen out added ev (eq_refl) HJ) as [A B]; assumption.
Qed.

(* the appends to level j, in order: batches 0, 1, ..., the last one being the final flush *)
Theorem level_events_of_level : forall stream j, j < nl ->
  ev_of j (fs_level_events c dedup nl stream)
  = map (pair j) (seq 0 (S (length (nth j (cf_levels_run cf_row cf_lkey dedup nl stream) []) / c))).
Proof.
  intros stream j Hj. unfold fs_level_events, cf_levels_run.
  pose proof (ev_fold_lockstep stream (repeat [] nl, repeat 0 nl, []) (repeat [] nl, repeat [] nl) eq_refl evJ_init) as HJ.
  fold evF. change (fun acc r => cf_levels_step cf_row cf_lkey dedup r 0 nl (fst acc) (snd acc)) with cfF.
  destruct (fold_left evF stream _) as [[seen added] ev]. cbn [fst snd] in HJ.
  destruct HJ as [Ho [Ha [Hlen Hev]]].
  rewrite ev_of_app, (Hev j Hj), (Hlen j Hj), seq_S, map_app. f_equal. cbn [Nat.add map].
  clear -Hj Hlen. rewrite <- (Hlen j Hj).
  assert (Z0 : forall k s, j < s -> ev_of j (map (fun lv => (lv, nth lv added 0 / c)) (seq s k)) = []).
  { induction k as [|k IHk]; intros s H; [reflexivity|]. cbn [seq map ev_of filter fst].
    destruct (Nat.eqb s j) eqn:E; [apply Nat.eqb_eq in E; lia|]. apply IHk; lia. }
  assert (G : forall k s, s <= j < s + k ->
            ev_of j (map (fun lv => (lv, nth lv added 0 / c)) (seq s k)) = [(j, nth j added 0 / c)]).
  { induction k as [|k IHk]; intros s H; [lia|]. cbn [seq map ev_of filter fst].
    destruct (Nat.eqb s j) eqn:E.
    - apply Nat.eqb_eq in E. subst s. f_equal. apply Z0; lia.
    - apply Nat.eqb_neq in E. apply IHk; lia. }
  apply G; lia.
Qed.
End Events.

(* ------------------------------------------------------------------ part 3 *)

Notation cexec := (exec ccontent cfn capply ccat).
Notation cget := (fs_get ccontent).
Notation cset := (fs_set ccontent).
Notation cdel := (fs_del ccontent).
Notation cgets := (fs_gets ccontent).

Lemma cexec_app : forall a b s, cexec (a ++ b) s = match cexec a s with Some s1 => cexec b s1 | None => None end.
Proof.
  induction a as [|o r IH]; intros b s; cbn [app exec]; [reflexivity|].
  destruct (exec_op ccontent cfn capply ccat s o); [apply IH | reflexivity].
Qed.

Lemma cgets_ext : forall deps s s', (forall d, In d deps -> cget s' d = cget s d) -> cgets s' deps = cgets s deps.
Proof.
  induction deps as [|d r IH]; intros s s' H; cbn; [reflexivity|].
  rewrite (H d (or_introl eq_refl)), (IH s s'); [reflexivity|]. intros x Hx; apply H; right; exact Hx.
Qed.

Lemma fs_plain_app : forall a b, fs_plain (a ++ b) = fs_plain a ++ fs_plain b.
Proof. intros; unfold fs_plain; apply map_app. Qed.
Lemma fs_plain_concat : forall ls, fs_plain (concat ls) = concat (map fs_plain ls).
Proof. intros; unfold fs_plain; apply concat_map. Qed.
Lemma map_fst_plain : forall l, map fst (fs_plain l) = l.
Proof. intros; unfold fs_plain; rewrite map_map; cbn; apply map_id. Qed.

Lemma firstn_S_nth {A} (l : list A) d : forall k, k < length l -> firstn (S k) l = firstn k l ++ [nth k l d].
Proof.
  induction l as [|x r IH]; intros k Hk; cbn in Hk; [lia|].
  destruct k as [|k]; [reflexivity|]. cbn [firstn nth app]. f_equal. apply IH. lia.
Qed.

Definition old_or_nil (s : cfs) (n : fname) : ccontent := match cget s n with Some o => o | None => [] end.

Definition nilb {A} (l : list A) : bool := match l with [] => true | _ => false end.
Lemma nilb_map {A B} (f : A -> B) l : nilb (map f l) = nilb l.
Proof. destruct l; reflexivity. Qed.
Lemma nilb_true {A} (l : list A) : nilb l = true -> l = [].
Proof. destruct l; [reflexivity | discriminate]. Qed.
Definition it_of (n : fname) (items : list (fname * cfn)) := filter (fun it => fname_eqb (fst it) n) items.

(* a sequence of appends to various files, all reading the same unchanged files *)
Lemma exec_appends_gen : forall (items : list (fname * cfn)) deps cs (G : fname * cfn -> ccontent) s,
  (forall it, In it items -> fs_mem (fst it) deps = false) ->
  cgets s deps = Some cs ->
  (forall it, In it items -> capply (snd it) cs = Some (G it)) ->
  exists s', cexec (map (fun it => OAppend (fst it) deps (snd it)) items) s = Some s' /\
    forall n, cget s' n = if nilb (it_of n items) then cget s n
                          else Some (old_or_nil s n ++ concat (map G (it_of n items))).
Proof.
  induction items as [|[m f] r IH]; intros deps cs G s Hdeps Hgets Happ.
  - exists s. split; [reflexivity | intro n; reflexivity].
  - pose proof (Happ (m, f) (or_introl eq_refl)) as Hmf. cbn [snd] in Hmf.
    cbn [map exec fst snd]. cbn [exec_op]. rewrite Hgets, Hmf.
    set (s1 := cset s m (match cget s m with Some old => ccat old (G (m, f)) | None => G (m, f) end)).
    assert (Hg1 : cgets s1 deps = Some cs).
    { rewrite <- Hgets. apply cgets_ext. intros d Hd. unfold s1. rewrite fs_get_set.
      destruct (fname_eqb m d) eqn:E; [|reflexivity]. apply fname_eqb_eq in E. subst d.
      pose proof (Hdeps (m, f) (or_introl eq_refl)) as H. cbn in H. apply fs_mem_In in Hd. congruence. }
    destruct (IH deps cs G s1) as [s' [He Hs']].
    { intros it Hit; apply Hdeps; right; exact Hit. }
    { exact Hg1. }
    { intros it Hit; apply Happ; right; exact Hit. }
    exists s'. split; [exact He|]. intro n. rewrite Hs'. unfold it_of. cbn [filter fst].
    destruct (fname_eqb m n) eqn:E.
    + apply fname_eqb_eq in E. subst n. fold (it_of m r).
      assert (Ho : old_or_nil s1 m = old_or_nil s m ++ G (m, f)).
      { unfold old_or_nil, s1. rewrite fs_get_set, fname_eqb_refl. destruct (cget s m); reflexivity. }
      cbn [nilb]. destruct (it_of m r) as [|x xs] eqn:Er; cbn [nilb].
      * unfold s1. rewrite fs_get_set, fname_eqb_refl. cbn [map concat]. rewrite app_nil_r.
        unfold old_or_nil. destruct (cget s m); reflexivity.
      * rewrite Ho. cbn [map concat]. rewrite <- app_assoc. reflexivity.
    + fold (it_of n r). assert (Hs1 : cget s1 n = cget s n) by (unfold s1; rewrite fs_get_set, E; reflexivity).
      destruct (it_of n r); cbn [nilb]; [exact Hs1|]. unfold old_or_nil. rewrite Hs1. reflexivity.
Qed.

Lemma match_nonnil {A B} (l : list A) (a : B) (f : list A -> B) : l <> [] ->
  match l with [] => a | _ :: _ => f l end = f l.
Proof. destruct l; [congruence | reflexivity]. Qed.

Lemma classic_level_gen : forall ext n, (exists lv, n = NLevel lv ext) \/ (forall lv, n <> NLevel lv ext).
Proof.
  intros ext n. destruct n as [p i e | lv e | p d lv | p | p | z].
  - right; intros lv H; discriminate.
  - destruct (Bool.bool_dec e ext) as [->|N]; [left; exists lv; reflexivity | right; intros lv' H; congruence].
  - right; intros lv' H; discriminate.
  - right; intros lv H; discriminate.
  - right; intros lv H; discriminate.
  - right; intros lv H; discriminate.
Qed.

Section Coll.
Variable g : fs_cfg.
Hypothesis Hc : 0 < fg_c g.
Variable pfx : Z.
Variable rows : list cf_row.

Let ext := fg_ext g.
Let c := fg_c g.
Let nl := fg_nlevels g.
Let chunks := fs_chunk_rows g rows.
Let names := fs_chunk_names g pfx rows.
Let levels := cf_levels cf_row cf_score cf_lkey (fg_c g) (fg_dedup g) (fg_dedup g) (fg_nlevels g) rows.

(* ---- phase B ---- *)
Lemma exec_chunk_steps : forall l s, NoDup (map fst l) ->
  exists s1, cexec (flat_map (chunk_step g pfx) l) s = Some s1 /\
    (forall i ch, In (i, ch) l -> cget s1 (NChunk pfx i ext) = Some (fs_plain ch)) /\
    (forall n, (forall i ch, In (i, ch) l -> n <> NChunk pfx i ext) -> cget s1 n = cget s n).
Proof.
  induction l as [|[i ch] r IH]; intros s Hnd.
  - exists s. cbn. repeat split; intros; try contradiction; reflexivity.
  - cbn [map fst] in Hnd. inversion Hnd as [|? ? Hnot Hnd']; subst.
    cbn [flat_map]. rewrite cexec_app.
    set (n := NChunk pfx i ext).
    assert (E1 : cexec (chunk_step g pfx (i, ch)) s = Some (cset (if ext then s else cset s n []) n (fs_plain ch))).
    { unfold chunk_step. fold ext. fold n. destruct ext; cbn [exec exec_op fs_gets capply]; [reflexivity|].
      rewrite fs_get_set, fname_eqb_refl. reflexivity. }
    rewrite E1. destruct (IH (cset (if ext then s else cset s n []) n (fs_plain ch)) Hnd') as [s1 [He [Hin Hout]]].
    exists s1. split; [exact He|]. split.
    + intros i' ch' [Heq|Hin']; [|apply Hin; exact Hin'].
      inversion Heq; subst i' ch'. rewrite Hout.
      * rewrite fs_get_set, fname_eqb_refl. reflexivity.
      * intros i2 ch2 Hin2 Heq2. inversion Heq2; subst i2. apply Hnot. apply in_map_iff. exists (i, ch2). split; [reflexivity | exact Hin2].
    + intros m Hm. rewrite Hout by (intros i2 ch2 Hin2; apply (Hm i2 ch2); right; exact Hin2).
      assert (Nm : fname_eqb n m = false) by (apply fname_eqb_neq; intro E; symmetry in E; apply (Hm i ch (or_introl eq_refl) E)).
      rewrite fs_get_set, Nm. destruct ext; [reflexivity|]. rewrite fs_get_set, Nm. reflexivity.
Qed.

Lemma combine_seq_nodup {A} (l : list A) s : NoDup (map fst (combine (seq s (length l)) l)).
Proof. apply nodup_fst_combine, seq_NoDup. Qed.

Lemma in_combine_seq_nth {A} (l : list A) d : forall s i x, In (i, x) (combine (seq s (length l)) l) -> s <= i < s + length l /\ x = nth (i - s) l d.
Proof.
  induction l as [|y r IH]; intros s i x H; cbn in H; [destruct H|].
  destruct H as [H|H].
  - inversion H; subst. rewrite Nat.sub_diag. cbn. split; [lia | reflexivity].
  - destruct (IH (S s) i x H) as [HA HB]. split; [cbn [length]; lia|]. rewrite HB.
    replace (i - s) with (S (i - S s)) by lia. reflexivity.
Qed.

Lemma exec_chunk_ops : forall s,
  exists s1, cexec (fs_chunk_ops g pfx rows) s = Some s1 /\
    cgets s1 names = Some (map fs_plain chunks) /\
    (forall n, fs_mem n names = false -> cget s1 n = cget s n).
Proof.
  intros s. rewrite chunk_ops_eq. fold chunks.
  destruct (exec_chunk_steps (combine (seq 0 (length chunks)) chunks) s (combine_seq_nodup chunks 0)) as [s1 [He [Hin Hout]]].
  exists s1. split; [exact He|]. split.
  - unfold names, fs_chunk_names. fold chunks. fold ext.
    assert (G : forall k, k <= length chunks ->
              cgets s1 (map (fun i => NChunk pfx i ext) (seq 0 k)) = Some (map fs_plain (firstn k chunks))).
    { induction k as [|k IHk]; intro Hk; [reflexivity|].
      rewrite seq_S, map_app. cbn [Nat.add map].
      assert (Hsplit : forall a b ca cb, cgets s1 a = Some ca -> cgets s1 b = Some cb -> cgets s1 (a ++ b) = Some (ca ++ cb)).
      { induction a as [|x a IHa]; intros b ca cb Ha Hb; cbn in *.
        - inversion Ha; subst; exact Hb.
        - destruct (cget s1 x) as [cx|]; [|discriminate]. destruct (cgets s1 a) as [ca'|] eqn:Ea; [|discriminate].
          inversion Ha; subst. rewrite (IHa b ca' cb eq_refl Hb). reflexivity. }
      destruct (combine_seq_in chunks 0 k ltac:(lia)) as [ch Hch].
      pose proof (in_combine_seq_nth chunks [] 0 k ch Hch) as [_ Hnth]. rewrite Nat.sub_0_r in Hnth.
      rewrite (Hsplit _ [NChunk pfx k ext] _ [fs_plain ch] (IHk ltac:(lia))).
      - f_equal. subst ch. rewrite (firstn_S_nth chunks [] k ltac:(lia)), map_app. reflexivity.
      - cbn. rewrite (Hin k ch Hch). reflexivity. }
    rewrite (G (length chunks) (le_n _)), firstn_all. reflexivity.
  - intros n Hn. apply Hout. intros i ch Hich ->.
    pose proof (in_combine_seq_nth chunks [] 0 i ch Hich) as [Hi _].
    assert (fs_mem (NChunk pfx i ext) names = true).
    { apply fs_mem_In. unfold names, fs_chunk_names. apply in_map_iff. exists i. split; [reflexivity|]. apply in_seq. fold chunks. lia. }
    congruence.
Qed.

(* ---- phase C ---- *)
Lemma exec_level_writes : forall l s, exists s2,
  cexec (map (fun lv => OWrite (NLevel lv ext) [] KEmpty) l) s = Some s2 /\
  (forall n, cget s2 n = if existsb (fun lv => fname_eqb (NLevel lv ext) n) l then Some [] else cget s n).
Proof.
  induction l as [|x r IH]; intros s.
  - exists s. split; [reflexivity | intro n; reflexivity].
  - cbn [map exec exec_op fs_gets capply].
    destruct (IH (cset s (NLevel x ext) [])) as [s2 [He Hs2]]. exists s2. split; [exact He|].
    intro n. rewrite Hs2. cbn [existsb]. rewrite fs_get_set.
    destruct (fname_eqb (NLevel x ext) n); cbn [orb]; [destruct (existsb _ r); reflexivity | reflexivity].
Qed.

Lemma levels_def : levels = cf_levels_run cf_row cf_lkey (fg_dedup g) nl (mg_merge_all cf_score chunks).
Proof. reflexivity. Qed.

Lemma level_rows_eq : forall lv, fs_level_rows (fg_dedup g) nl lv (map fs_plain chunks) = nth lv levels [].
Proof.
  intro lv. unfold fs_level_rows. rewrite map_map.
  replace (map (fun x => map fst (fs_plain x)) chunks) with chunks; [reflexivity|].
  symmetry. rewrite <- (map_id chunks) at 2. apply map_ext. intro x. apply map_fst_plain.
Qed.

Definition lvl_item (e : nat * nat) : fname * cfn :=
  (NLevel (fst e) ext, KLevelBatch c (fg_dedup g) nl (fst e) (snd e)).
Definition lvl_G (it : fname * cfn) : ccontent :=
  match snd it with
  | KLevelBatch _ _ _ lv b => fs_plain (nth b (pc_chunks c (nth lv levels [])) [])
  | _ => []
  end.

Lemma it_of_lvl : forall evs lv, it_of (NLevel lv ext) (map lvl_item evs) = map lvl_item (ev_of lv evs).
Proof.
  induction evs as [|e r IH]; intro lv; [reflexivity|]. unfold it_of, ev_of in *. cbn [map filter lvl_item fst fname_eqb].
  rewrite eqb_reflx, andb_true_r. destruct (Nat.eqb (fst e) lv); cbn [map]; rewrite IH; reflexivity.
Qed.

Lemma it_of_lvl_other : forall evs n, (forall lv, n <> NLevel lv ext) -> it_of n (map lvl_item evs) = [].
Proof.
  induction evs as [|e r IH]; intros n Hn; [reflexivity|]. unfold it_of in *. cbn [map filter lvl_item fst].
  destruct (fname_eqb (NLevel (fst e) ext) n) eqn:E; [apply fname_eqb_eq in E; exfalso; apply (Hn (fst e)); symmetry; exact E|].
  apply IH; exact Hn.
Qed.

Lemma exec_level_ops : forall s1,
  cgets s1 names = Some (map fs_plain chunks) ->
  exists s3, cexec (fs_level_ops g pfx rows) s1 = Some s3 /\
    (forall lv, lv < nl -> cget s3 (NLevel lv ext) = Some (fs_plain (nth lv levels []))) /\
    (forall n, (forall lv, lv < nl -> n <> NLevel lv ext) -> cget s3 n = cget s1 n).
Proof.
  intros s1 Hg1. unfold fs_level_ops. fold ext nl names chunks c.
  set (evs := fs_level_events c (fg_dedup g) nl (mg_merge_all cf_score chunks)).
  rewrite cexec_app.
  destruct (exec_level_writes (seq 0 nl) s1) as [s2 [He2 Hs2]]. rewrite He2.
  assert (Hex : forall n, existsb (fun lv => fname_eqb (NLevel lv ext) n) (seq 0 nl) = true <-> exists lv, lv < nl /\ n = NLevel lv ext).
  { intro n. rewrite existsb_exists. split.
    - intros [lv [Hin E]]. apply in_seq in Hin. apply fname_eqb_eq in E. exists lv. split; [lia | symmetry; exact E].
    - intros [lv [Hlv ->]]. exists lv. split; [apply in_seq; lia | apply fname_eqb_refl]. }
  assert (Hg2 : cgets s2 names = Some (map fs_plain chunks)).
  { rewrite <- Hg1. apply cgets_ext. intros d Hd. rewrite Hs2.
    destruct (existsb _ (seq 0 nl)) eqn:E; [|reflexivity].
    apply Hex in E. destruct E as [lv [_ ->]]. apply (chunk_names_are_chunks g pfx rows) in Hd. discriminate. }
  replace (map (fun e : nat * nat => OAppend (NLevel (fst e) ext) names (KLevelBatch c (fg_dedup g) nl (fst e) (snd e))) evs)
    with (map (fun it : fname * cfn => OAppend (fst it) names (snd it)) (map lvl_item evs))
    by (rewrite map_map; reflexivity).
  destruct (exec_appends_gen (map lvl_item evs) names (map fs_plain chunks) lvl_G s2) as [s3 [He3 Hs3]].
  { intros it Hit. apply in_map_iff in Hit. destruct Hit as [e [<- _]]. cbn [lvl_item fst].
    destruct (fs_mem (NLevel (fst e) ext) names) eqn:E; [|reflexivity].
    apply fs_mem_In in E. apply (chunk_names_are_chunks g pfx rows) in E. discriminate. }
  { exact Hg2. }
  { intros it Hit. apply in_map_iff in Hit. destruct Hit as [e [<- _]]. cbn [lvl_item snd capply lvl_G].
    rewrite level_rows_eq. reflexivity. }
  exists s3. split; [exact He3|]. split.
  - intros lv Hlv. rewrite Hs3, it_of_lvl. unfold evs.
    rewrite (level_events_of_level c Hc (fg_dedup g) nl (mg_merge_all cf_score chunks) lv Hlv).
    rewrite <- levels_def. set (L := nth lv levels []).
    assert (Hnn : nilb (map lvl_item (map (pair lv) (seq 0 (S (length L / c))))) = false) by reflexivity.
    rewrite Hnn. f_equal.
    assert (Hold : old_or_nil s2 (NLevel lv ext) = []).
    { unfold old_or_nil. rewrite Hs2. replace (existsb _ (seq 0 nl)) with true; [reflexivity|].
      symmetry. apply Hex. exists lv. split; [exact Hlv | reflexivity]. }
    rewrite Hold. cbn [app].
    rewrite !map_map.
    replace (map (fun x0 : nat => lvl_G (lvl_item (lv, x0))) (seq 0 (S (length L / c))))
      with (map fs_plain (map (fun b => nth b (pc_chunks c L) []) (seq 0 (S (length L / c)))))
      by (rewrite map_map; reflexivity).
    rewrite <- fs_plain_concat. f_equal. apply batches_concat. unfold c. lia.
  - intros n Hn.
    assert (Hit : it_of n (map lvl_item evs) = []).
    { destruct (classic_level_gen ext n) as [[lv ->]|Hno]; [|apply it_of_lvl_other; exact Hno].
      rewrite it_of_lvl. destruct (ev_of lv evs) as [|e es] eqn:Ee; [reflexivity|].
      assert (Hin : In e (ev_of lv evs)) by (rewrite Ee; left; reflexivity).
      unfold ev_of in Hin. apply filter_In in Hin. destruct Hin as [Hin Hfst]. apply Nat.eqb_eq in Hfst.
      pose proof (level_events_lt c (fg_dedup g) nl _ e Hin) as Hlt. exfalso. apply (Hn lv); [lia | reflexivity]. }
    rewrite Hs3, Hit, Hs2. cbn [nilb].
    destruct (existsb _ (seq 0 nl)) eqn:E; [|reflexivity].
    apply Hex in E. destruct E as [lv [Hlv ->]]. exfalso. apply (Hn lv Hlv). reflexivity.
Qed.

(* ---- phase D ---- *)
Lemma exec_unlinks : forall ns s, NoDup ns -> (forall n, In n ns -> cget s n <> None) ->
  exists s', cexec (map OUnlink ns) s = Some s' /\
    forall n, cget s' n = if fs_mem n ns then None else cget s n.
Proof.
  induction ns as [|m r IH]; intros s Hnd Hex.
  - exists s. split; [reflexivity | intro n; reflexivity].
  - inversion Hnd as [|? ? Hnot Hnd']; subst. cbn [map exec exec_op].
    destruct (cget s m) as [cm|] eqn:Em; [|exfalso; apply (Hex m (or_introl eq_refl)); exact Em].
    destruct (IH (cdel s m) Hnd') as [s' [He Hs']].
    { intros n Hn. rewrite fs_get_del. destruct (fname_eqb m n) eqn:E.
      - apply fname_eqb_eq in E. subst n. contradiction.
      - apply Hex. right. exact Hn. }
    exists s'. split; [exact He|]. intro n. rewrite Hs', fs_get_del. cbn [fs_mem].
    destruct (fname_eqb m n); cbn [orb]; [destruct (fs_mem n r); reflexivity | reflexivity].
Qed.

(* ---- phase E ---- *)
Definition side (d : bool) (rws : list cf_row) : ccontent :=
  filter (fun p => Bool.eqb (cf_target (fst p)) (negb d)) (combine rws (cf_qvalues rws)).

Lemma chunks_aux_len {A B} c0 : forall f (l : list A) (l' : list B), length l = length l' ->
  length (pc_chunks_aux f c0 l) = length (pc_chunks_aux f c0 l').
Proof.
  induction f as [|f IH]; intros l l' Hl; [reflexivity|]. cbn [pc_chunks_aux].
  destruct l as [|x l], l' as [|x' l']; try discriminate; [reflexivity|]. cbn [length]. f_equal.
  apply IH. rewrite !skipn_length. rewrite Hl. reflexivity.
Qed.

Lemma chunks_len {A B} c0 (l : list A) (l' : list B) : length l = length l' ->
  length (pc_chunks c0 l) = length (pc_chunks c0 l').
Proof. intro Hl. unfold pc_chunks. rewrite Hl. apply chunks_aux_len. exact Hl. Qed.

Lemma filter_concat {A} (P : A -> bool) (ls : list (list A)) : filter P (concat ls) = concat (map (filter P) ls).
Proof. induction ls as [|l r IH]; cbn; [reflexivity|]. rewrite filter_app, IH. reflexivity. Qed.

Lemma concat_map_filter_nth {A} (P : A -> bool) (chs : list (list A)) (bs : list nat) :
  concat (map (fun x => filter P (nth x chs [])) bs) = filter P (concat (map (fun x => nth x chs []) bs)).
Proof. induction bs as [|b r IH]; cbn; [reflexivity|]. rewrite filter_app, IH. reflexivity. Qed.

Lemma concat_map_filter_nth_sym {A} (P : A -> bool) (chs : list (list A)) (bs : list nat) :
  filter P (concat (map (fun x => nth x chs []) bs)) = concat (map (fun x => filter P (nth x chs [])) bs).
Proof. symmetry. apply concat_map_filter_nth. Qed.

Lemma qvalues_length : forall rws, length (cf_qvalues rws) = length rws.
Proof.
  intro rws. unfold cf_qvalues.
  destruct (tdc_core_spec true (map cf_score rws) (map cf_target rws)) as [Hl _]; [rewrite !map_length; reflexivity|].
  rewrite Hl, map_length. reflexivity.
Qed.

Definition res_items (lv : nat) (bs : list nat) : list (fname * cfn) :=
  flat_map (fun b => (NResult pfx false lv, KResultBatch c lv false b) ::
                     (if fg_decoys g then [(NResult pfx true lv, KResultBatch c lv true b)] else [])) bs.

Definition res_G (rws : list cf_row) (it : fname * cfn) : ccontent :=
  match snd it with
  | KResultBatch _ _ d b =>
      filter (fun p => Bool.eqb (cf_target (fst p)) (negb d)) (nth b (pc_chunks c (combine rws (cf_qvalues rws))) [])
  | _ => []
  end.

Lemma it_of_res : forall lv bs d, (d = true -> fg_decoys g = true) ->
  it_of (NResult pfx d lv) (res_items lv bs) = map (fun b => (NResult pfx d lv, KResultBatch c lv d b)) bs.
Proof.
  intros lv bs d Hd. unfold res_items, it_of. induction bs as [|b r IH]; [reflexivity|].
  cbn [flat_map]. rewrite filter_app, IH. cbn [map]. destruct d.
  - rewrite (Hd eq_refl). cbn [filter fst fname_eqb]. rewrite Z.eqb_refl, Nat.eqb_refl. cbn. reflexivity.
  - destruct (fg_decoys g); cbn [filter fst fname_eqb]; rewrite Z.eqb_refl, Nat.eqb_refl; cbn; reflexivity.
Qed.

Lemma it_of_res_other : forall lv bs n, n <> NResult pfx false lv -> n <> NResult pfx true lv ->
  it_of n (res_items lv bs) = [].
Proof.
  intros lv bs n N0 N1. unfold res_items, it_of. induction bs as [|b r IH]; [reflexivity|].
  cbn [flat_map]. rewrite filter_app, IH, app_nil_r.
  assert (E0 : fname_eqb (NResult pfx false lv) n = false) by (apply fname_eqb_neq; congruence).
  assert (E1 : fname_eqb (NResult pfx true lv) n = false) by (apply fname_eqb_neq; congruence).
  destruct (fg_decoys g); cbn [filter fst]; rewrite ?E0, ?E1; reflexivity.
Qed.

Lemma it_of_res_nodecoy : forall lv bs, fg_decoys g = false -> it_of (NResult pfx true lv) (res_items lv bs) = [].
Proof.
  intros lv bs Hd. unfold res_items, it_of. rewrite Hd. induction bs as [|b r IH]; [reflexivity|].
  cbn [flat_map app filter fst fname_eqb]. rewrite IH. cbn. rewrite andb_false_r. reflexivity.
Qed.

(* one level, from ANY state of its result files: a result file that is absent is created by the first append (no
   header: the model's content is the rows), and stays absent when the level has no row at all *)
Lemma exec_result_step_any : forall lv rws s,
  cget s (NLevel lv ext) = Some (fs_plain rws) ->
  exists s', cexec (result_step g pfx (lv, rws)) s = Some s' /\
    forall n, cget s' n =
      if fname_eqb (NLevel lv ext) n then None
      else if fname_eqb (NResult pfx false lv) n
           then (if nilb rws then cget s n else Some (old_or_nil s n ++ side false rws))
      else if fname_eqb (NResult pfx true lv) n && fg_decoys g
           then (if nilb rws then cget s n else Some (old_or_nil s n ++ side true rws))
      else cget s n.
Proof.
  intros lv rws s Hlvl. unfold result_step. fold c ext.
  set (bs := seq 0 (length (pc_chunks c rws))).
  set (rq := combine rws (cf_qvalues rws)).
  replace (flat_map _ bs) with (map (fun it : fname * cfn => OAppend (fst it) [NLevel lv ext] (snd it)) (res_items lv bs)).
  2:{ unfold res_items. clear. induction bs as [|b r IH]; [reflexivity|]. cbn [flat_map]. rewrite map_app, IH.
      destruct (fg_decoys g); reflexivity. }
  rewrite cexec_app.
  destruct (exec_appends_gen (res_items lv bs) [NLevel lv ext] [fs_plain rws] (res_G rws) s) as [s1 [He1 Hs1]].
  { intros it Hit. unfold res_items in Hit. apply in_flat_map in Hit. destruct Hit as [b [_ Hit]].
    destruct Hit as [<-|Hit]; [reflexivity|]. destruct (fg_decoys g); [|destruct Hit]. destruct Hit as [<-|[]]. reflexivity. }
  { cbn. rewrite Hlvl. reflexivity. }
  { intros it Hit. unfold res_items in Hit. apply in_flat_map in Hit. destruct Hit as [b [_ Hit]].
    assert (Hcap : forall d, capply (KResultBatch c lv d b) [fs_plain rws] = Some (res_G rws (NResult pfx d lv, KResultBatch c lv d b))).
    { intro d. cbn [capply res_G snd]. rewrite map_fst_plain. reflexivity. }
    destruct Hit as [<-|Hit]; [apply Hcap|]. destruct (fg_decoys g); [|destruct Hit]. destruct Hit as [<-|[]]. apply Hcap. }
  rewrite He1. cbn [exec exec_op].
  assert (Hl1 : cget s1 (NLevel lv ext) = Some (fs_plain rws)).
  { rewrite Hs1, it_of_res_other by discriminate. cbn [nilb]. exact Hlvl. }
  rewrite Hl1. eexists. split; [reflexivity|].
  assert (Hsum : forall d, concat (map (res_G rws) (map (fun b => (NResult pfx d lv, KResultBatch c lv d b)) bs)) = side d rws).
  { intro d. rewrite map_map. unfold res_G. cbn [snd]. fold rq.
    transitivity (filter (fun p : crow => Bool.eqb (cf_target (fst p)) (negb d)) (concat (map (fun x => nth x (pc_chunks c rq) []) bs))).
    { symmetry. apply concat_map_filter_nth_sym. }
    unfold side. fold rq. f_equal. unfold bs.
    rewrite concat_nth_seq0.
    - apply chunks_concat. unfold c. lia.
    - rewrite (chunks_len c rq rws); [apply le_n|]. unfold rq. rewrite combine_length, qvalues_length. lia. }
  assert (Hnil : nilb bs = nilb rws).
  { unfold bs. destruct rws as [|x xs]; reflexivity. }
  intro n. rewrite fs_get_del. destruct (fname_eqb (NLevel lv ext) n) eqn:EL; [reflexivity|].
  rewrite Hs1.
  destruct (fname_eqb (NResult pfx false lv) n) eqn:E0.
  - apply fname_eqb_eq in E0. subst n. rewrite it_of_res by discriminate.
    rewrite nilb_map, Hnil. destruct (nilb rws); [reflexivity|]. rewrite Hsum. reflexivity.
  - destruct (fname_eqb (NResult pfx true lv) n) eqn:E1; cbn [andb].
    + apply fname_eqb_eq in E1. subst n. destruct (fg_decoys g) eqn:Ed.
      * rewrite it_of_res by (intros _; exact Ed).
        rewrite nilb_map, Hnil. destruct (nilb rws); [reflexivity|]. rewrite Hsum. reflexivity.
      * rewrite it_of_res_nodecoy by exact Ed. reflexivity.
    + rewrite it_of_res_other; [reflexivity | |]; intros ->; rewrite fname_eqb_refl in *; discriminate.
Qed.

Lemma side_nil : forall d, side d [] = [].
Proof. intro d. reflexivity. Qed.

(* ... when the result files of the level are present (they always are unless the caller asked for appending) *)
Lemma exec_result_step : forall lv rws s,
  cget s (NLevel lv ext) = Some (fs_plain rws) ->
  (forall d, (d = true -> fg_decoys g = true) -> cget s (NResult pfx d lv) <> None) ->
  exists s', cexec (result_step g pfx (lv, rws)) s = Some s' /\
    forall n, cget s' n =
      if fname_eqb (NLevel lv ext) n then None
      else if fname_eqb (NResult pfx false lv) n then Some (old_or_nil s n ++ side false rws)
      else if fname_eqb (NResult pfx true lv) n && fg_decoys g then Some (old_or_nil s n ++ side true rws)
      else cget s n.
Proof.
  intros lv rws s Hlvl Hres. destruct (exec_result_step_any lv rws s Hlvl) as [s' [He Hs']].
  exists s'. split; [exact He|]. intro n. rewrite Hs'.
  destruct (fname_eqb (NLevel lv ext) n); [reflexivity|].
  assert (Hfix : forall d, (d = true -> fg_decoys g = true) -> n = NResult pfx d lv ->
            (if nilb rws then cget s n else Some (old_or_nil s n ++ side d rws)) = Some (old_or_nil s n ++ side d rws)).
  { intros d Hd ->. destruct (nilb rws) eqn:En; [|reflexivity]. apply nilb_true in En. subst rws.
    rewrite side_nil, app_nil_r. unfold old_or_nil.
    destruct (cget s (NResult pfx d lv)) eqn:Eg; [reflexivity|]. exfalso. apply (Hres d Hd). exact Eg. }
  destruct (fname_eqb (NResult pfx false lv) n) eqn:E0.
  - apply fname_eqb_eq in E0. apply (Hfix false); [discriminate | symmetry; exact E0].
  - destruct (fname_eqb (NResult pfx true lv) n) eqn:E1; cbn [andb]; [|reflexivity].
    destruct (fg_decoys g) eqn:Ed; [|reflexivity].
    apply fname_eqb_eq in E1. apply (Hfix true); [intros _; reflexivity | symmetry; exact E1].
Qed.
End Coll.

(* ------------------------------------------------------------------ part 4 *)

Definition fview := fname -> option ccontent.

(* the abstract effect of one collection on a directory, run without protein level: chunk and level files of the run are
   gone, the result files hold (after what was there, when appending) the rows the C03 model assigns to them *)
Definition coll_effect (g : fs_cfg) (ap : bool) (cl : fs_coll) (v : fview) : fview :=
  let pfx := fc_pfx cl in
  let rows := fc_rows cl in
  let levels := cf_levels cf_row cf_score cf_lkey (fg_c g) (fg_dedup g) (fg_dedup g) (fg_nlevels g) rows in
  fun n =>
  match n with
  | NChunk p i e =>
      if (p =? pfx)%Z && Bool.eqb e (fg_ext g) && (i <? length (fs_chunk_rows g rows)) then None else v n
  | NLevel lv e => if Bool.eqb e (fg_ext g) && (lv <? fg_nlevels g) then None else v n
  | NResult p d lv =>
      if (p =? pfx)%Z && (lv <? fg_nlevels g) && (negb d || fg_decoys g)
      then Some ((if ap then match v n with Some o => o | None => [] end else []) ++ side d (nth lv levels []))
      else v n
  | _ => v n
  end.

(* ---- the same with the protein level ---- *)
(* the rollup levels of a collection (level 0 = PSMs, level 1 = peptides, ...) *)
Definition coll_levels (g : fs_cfg) (cl : fs_coll) : list (list cf_row) :=
  cf_levels cf_row cf_score cf_lkey (fg_c g) (fg_dedup g) (fg_dedup g) (fg_nlevels g) (fc_rows cl).

(* all levels that have a level file and result files: the rollup levels and, when proteins are requested, the rows the
   picked-protein oracle returned (level number fg_nlevels g) *)
Definition coll_all_levels (g : fs_cfg) (cl : fs_coll) : list (list cf_row) :=
  coll_levels g cl ++ fs_prot_levels g cl.

(* the key of the oracle: the PSM ids of the peptide-level file THIS run computes *)
Definition coll_pep_ids (g : fs_cfg) (cl : fs_coll) : list Z := map cf_id (nth 1 (coll_levels g cl) []).

(* the recorded oracle value of a collection belongs to this run: its key is the peptide level of this run *)
Definition prot_key_ok (g : fs_cfg) (cl : fs_coll) : bool :=
  if fg_proteins g
  then match fc_prot cl with Some (ids, _) => fs_zlist_eqb (coll_pep_ids g cl) ids | None => true end
  else true.

(* chunk files and ALL level files of the run (the protein-level file NLevel (fg_nlevels g) included) are gone; result
   files of all levels, the protein level included, hold the target / decoy side of their level *)
Definition coll_effect_p (g : fs_cfg) (ap : bool) (cl : fs_coll) (v : fview) : fview :=
  let pfx := fc_pfx cl in
  let rows := fc_rows cl in
  fun n =>
  match n with
  | NChunk p i e =>
      if (p =? pfx)%Z && Bool.eqb e (fg_ext g) && (i <? length (fs_chunk_rows g rows)) then None else v n
  | NLevel lv e => if Bool.eqb e (fg_ext g) && (lv <? fs_nres g) then None else v n
  | NResult p d lv =>
      if (p =? pfx)%Z && (lv <? fs_nres g) && (negb d || fg_decoys g)
      then Some ((if ap then match v n with Some o => o | None => [] end else []) ++ side d (nth lv (coll_all_levels g cl) []))
      else v n
  | _ => v n
  end.

(* the same from ANY state of the result files (append mode does not create them: [OAppend] = open(.., 'a') does, at the
   first append, and then the file holds rows only; a level without any row appends nothing) *)
Definition coll_effect_a (g : fs_cfg) (ap : bool) (cl : fs_coll) (v : fview) : fview :=
  let pfx := fc_pfx cl in
  let rows := fc_rows cl in
  fun n =>
  match n with
  | NChunk p i e =>
      if (p =? pfx)%Z && Bool.eqb e (fg_ext g) && (i <? length (fs_chunk_rows g rows)) then None else v n
  | NLevel lv e => if Bool.eqb e (fg_ext g) && (lv <? fs_nres g) then None else v n
  | NResult p d lv =>
      if (p =? pfx)%Z && (lv <? fs_nres g) && (negb d || fg_decoys g)
      then if ap
           then match v n with
                | Some o => Some (o ++ side d (nth lv (coll_all_levels g cl) []))
                | None => if nilb (nth lv (coll_all_levels g cl) []) then None
                          else Some (side d (nth lv (coll_all_levels g cl) []))
                end
           else Some (side d (nth lv (coll_all_levels g cl) []))
      else v n
  | _ => v n
  end.

Lemma fs_zlist_eqb_eq : forall a b, fs_zlist_eqb a b = true <-> a = b.
Proof.
  induction a as [|x r IH]; intros [|y t]; cbn [fs_zlist_eqb]; split; intro H; try reflexivity; try discriminate.
  - apply andb_true_iff in H. destruct H as [H1 H2]. apply Z.eqb_eq in H1. apply IH in H2. subst. reflexivity.
  - inversion H; subst. rewrite Z.eqb_refl. cbn [andb]. apply IH. reflexivity.
Qed.

(* [prot_key_ok] in words: when a protein level is requested, the recorded key is the list of PSM ids of this run's
   peptide level *)
Lemma prot_key_ok_iff : forall g cl, prot_key_ok g cl = true <->
  (fg_proteins g = true -> forall ids prows, fc_prot cl = Some (ids, prows) -> ids = coll_pep_ids g cl).
Proof.
  intros g cl. unfold prot_key_ok. destruct (fg_proteins g); [|split; [intros _ E; discriminate | reflexivity]].
  destruct (fc_prot cl) as [[ids prows]|]; split.
  - intros H _ ids' prows' E. inversion E; subst. apply fs_zlist_eqb_eq in H. symmetry. exact H.
  - intro H. apply fs_zlist_eqb_eq. symmetry. apply (H eq_refl ids prows eq_refl).
  - intros _ _ ids' prows' E. discriminate.
  - reflexivity.
Qed.

Lemma fs_nres_noprot : forall g, fg_proteins g = false -> fs_nres g = fg_nlevels g.
Proof. intros g H. unfold fs_nres. rewrite H. reflexivity. Qed.

Lemma nres_ge : forall g, fg_nlevels g <= fs_nres g.
Proof. intro g. unfold fs_nres. destruct (fg_proteins g); lia. Qed.

Lemma prot_ok_noprot : forall g cl, fg_proteins g = false -> prot_ok g cl.
Proof. intros g cl H E. congruence. Qed.

Lemma prot_key_ok_noprot : forall g cl, fg_proteins g = false -> prot_key_ok g cl = true.
Proof. intros g cl H. unfold prot_key_ok. rewrite H. reflexivity. Qed.

Lemma all_levels_length : forall g cl, prot_ok g cl -> length (coll_all_levels g cl) = fs_nres g.
Proof.
  intros g cl. unfold coll_all_levels, coll_levels, fs_prot_levels, fs_nres, prot_ok.
  rewrite app_length, cf_levels_length.
  destruct (fg_proteins g); intro Hok; [|cbn [length]; lia].
  destruct (Hok eq_refl) as [_ Hpr]. destruct (fc_prot cl) as [[ids prows]|]; [cbn [length]; lia | congruence].
Qed.

Lemma coll_effect_p_noprot : forall g ap cl v n, fg_proteins g = false ->
  coll_effect_p g ap cl v n = coll_effect g ap cl v n.
Proof.
  intros g ap cl v n H. unfold coll_effect_p, coll_effect, coll_all_levels, coll_levels, fs_prot_levels.
  rewrite (fs_nres_noprot g H), H, app_nil_r. reflexivity.
Qed.

(* the result files a collection writes to, when k levels have result files *)
Definition own_result_k (g : fs_cfg) (cl : fs_coll) (k : nat) (n : fname) : bool :=
  match n with
  | NResult p d lv => (p =? fc_pfx cl)%Z && (lv <? k) && (negb d || fg_decoys g)
  | _ => false
  end.
Definition own_result (g : fs_cfg) (cl : fs_coll) (n : fname) : bool := own_result_k g cl (fg_nlevels g) n.
Definition own_result_p (g : fs_cfg) (cl : fs_coll) (n : fname) : bool := own_result_k g cl (fs_nres g) n.

Lemma own_result_p_noprot : forall g cl n, fg_proteins g = false -> own_result_p g cl n = own_result g cl n.
Proof. intros g cl n H. unfold own_result_p, own_result. rewrite (fs_nres_noprot g H). reflexivity. Qed.

(* where the result files the collection appends to are present, the two effects are the same *)
Lemma coll_effect_a_present : forall g ap cl v n,
  (ap = true -> own_result_p g cl n = true -> v n <> None) ->
  coll_effect_a g ap cl v n = coll_effect_p g ap cl v n.
Proof.
  intros g ap cl v n H. unfold coll_effect_a, coll_effect_p.
  destruct n as [p i e | lv e | p d lv | p | p | z]; try reflexivity.
  destruct ((p =? fc_pfx cl)%Z && (lv <? fs_nres g) && (negb d || fg_decoys g)) eqn:Eo; [|reflexivity].
  destruct ap; [|reflexivity].
  destruct (v (NResult p d lv)) eqn:Ev; [reflexivity|]. exfalso. apply (H eq_refl Eo). reflexivity.
Qed.

Section Coll2.
Variable g : fs_cfg.
Hypothesis Hc : 0 < fg_c g.
Variable cl : fs_coll.
Local Notation pfx := (fc_pfx cl).
Local Notation ext := (fg_ext g).
Local Notation nl := (fg_nlevels g).

(* ---- phase A ---- *)
Lemma exec_init_steps : forall l s, exists s1,
  cexec (flat_map (init_step g pfx) l) s = Some s1 /\
  forall n, cget s1 n =
    if existsb (fun lv => fname_eqb (NResult pfx false lv) n || (fg_decoys g && fname_eqb (NResult pfx true lv) n)) l
    then Some [] else cget s n.
Proof.
  induction l as [|x r IH]; intros s.
  - exists s. split; [reflexivity | intro n; reflexivity].
  - cbn [flat_map]. rewrite cexec_app. unfold init_step at 1.
    destruct (fg_decoys g) eqn:Ed; cbn [exec exec_op fs_gets capply].
    + destruct (IH (cset (cset s (NResult pfx false x) []) (NResult pfx true x) [])) as [s1 [He Hs1]].
      exists s1. split; [exact He|]. intro n. rewrite Hs1. cbn [existsb andb]. rewrite !fs_get_set.
      destruct (fname_eqb (NResult pfx true x) n), (fname_eqb (NResult pfx false x) n); cbn [orb];
        destruct (existsb _ r); reflexivity.
    + destruct (IH (cset s (NResult pfx false x) [])) as [s1 [He Hs1]].
      exists s1. split; [exact He|]. intro n. rewrite Hs1. cbn [existsb andb]. rewrite !fs_get_set.
      destruct (fname_eqb (NResult pfx false x) n); cbn [orb]; destruct (existsb _ r); reflexivity.
Qed.

Lemma own_result_exists : forall k n,
  existsb (fun lv => fname_eqb (NResult pfx false lv) n || (fg_decoys g && fname_eqb (NResult pfx true lv) n)) (seq 0 k)
  = own_result_k g cl k n.
Proof.
  intros k n. destruct (own_result_k g cl k n) eqn:E.
  - destruct n as [| | p d lv | | |]; try discriminate. cbn [own_result_k] in E.
    apply andb_true_iff in E. destruct E as [E Ed]. apply andb_true_iff in E. destruct E as [Ep El].
    apply Z.eqb_eq in Ep. apply Nat.ltb_lt in El. subst p.
    apply existsb_exists. exists lv. split; [apply in_seq; lia|].
    destruct d; cbn [negb orb] in Ed.
    + rewrite Ed, fname_eqb_refl. cbn. apply orb_true_r.
    + rewrite fname_eqb_refl. reflexivity.
  - destruct (existsb _ (seq 0 k)) eqn:Ex; [|reflexivity].
    apply existsb_exists in Ex. destruct Ex as [lv [Hin Hx]]. apply in_seq in Hin.
    apply orb_true_iff in Hx. destruct Hx as [Hx|Hx].
    + apply fname_eqb_eq in Hx. subst n. cbn [own_result_k negb orb] in E.
      rewrite Z.eqb_refl in E. replace (lv <? k) with true in E by (symmetry; apply Nat.ltb_lt; lia). discriminate.
    + apply andb_true_iff in Hx. destruct Hx as [Hd Hx]. apply fname_eqb_eq in Hx. subst n. cbn [own_result_k negb orb] in E.
      rewrite Z.eqb_refl, Hd in E. replace (lv <? k) with true in E by (symmetry; apply Nat.ltb_lt; lia). discriminate.
Qed.

(* result files of every level that has them (the protein level included) are created, header only *)
Lemma exec_inits_p : forall ap s, exists s1,
  cexec (fs_result_inits g pfx ap) s = Some s1 /\
  forall n, cget s1 n = if negb ap && own_result_p g cl n then Some [] else cget s n.
Proof.
  intros [|] s.
  - exists s. split; [reflexivity | intro n; reflexivity].
  - rewrite inits_eq_gen, res_levels_seq. destruct (exec_init_steps (seq 0 (fs_nres g)) s) as [s1 [He Hs1]].
    exists s1. split; [exact He|]. intro n. rewrite Hs1, own_result_exists. reflexivity.
Qed.

(* ---- phase E over all levels ---- *)
Fixpoint assoc_lv (lv : nat) (l : list (nat * list cf_row)) : option (list cf_row) :=
  match l with
  | [] => None
  | (x, r) :: t => if Nat.eqb x lv then Some r else assoc_lv lv t
  end.

(* all levels, from ANY state of the result files *)
Lemma exec_result_steps_any : forall l s, NoDup (map fst l) ->
  (forall lv rws, In (lv, rws) l -> cget s (NLevel lv ext) = Some (fs_plain rws)) ->
  exists s', cexec (flat_map (result_step g pfx) l) s = Some s' /\
    forall n, cget s' n =
      match n with
      | NLevel lv e => if Bool.eqb e ext then match assoc_lv lv l with Some _ => None | None => cget s n end else cget s n
      | NResult p d lv =>
          if (p =? pfx)%Z && (negb d || fg_decoys g)
          then match assoc_lv lv l with
               | Some rws => if nilb rws then cget s n else Some (old_or_nil s n ++ side d rws)
               | None => cget s n
               end
          else cget s n
      | _ => cget s n
      end.
Proof.
  induction l as [|[lv rws] r IH]; intros s Hnd Hlv.
  - exists s. split; [reflexivity|]. intro n. destruct n as [p i e | lv e | p d lv | p | p | z]; try reflexivity; cbn [assoc_lv];
      [destruct (Bool.eqb e ext) | destruct ((p =? pfx)%Z && (negb d || fg_decoys g))]; reflexivity.
  - cbn [map fst] in Hnd. inversion Hnd as [|? ? Hnot Hnd']; subst.
    cbn [flat_map]. rewrite cexec_app.
    destruct (exec_result_step_any g Hc pfx lv rws s (Hlv lv rws (or_introl eq_refl))) as [s1 [He1 Hs1]].
    rewrite He1.
    assert (Hother : forall lv' rws', In (lv', rws') r -> lv' <> lv).
    { intros lv' rws' Hin ->. apply Hnot. apply in_map_iff. exists (lv, rws'). split; [reflexivity | exact Hin]. }
    destruct (IH s1 Hnd') as [s' [He Hs']].
    { intros lv' rws' Hin. rewrite Hs1. pose proof (Hother lv' rws' Hin) as N.
      replace (fname_eqb (NLevel lv ext) (NLevel lv' ext)) with false
        by (symmetry; apply fname_eqb_neq; congruence).
      cbn [fname_eqb andb]. apply Hlv. right. exact Hin. }
    exists s'. split; [exact He|]. intro n. rewrite Hs'.
    destruct n as [p i e | lv' e | p d lv' | p | p | z]; cbn [assoc_lv]; try (rewrite Hs1; reflexivity).
    + (* level files *)
      destruct (Bool.eqb e ext) eqn:Ee.
      * apply Bool.eqb_prop in Ee. subst e. destruct (Nat.eqb lv lv') eqn:El.
        -- apply Nat.eqb_eq in El. subst lv'.
           replace (assoc_lv lv r) with (@None (list cf_row)).
           ++ rewrite Hs1, fname_eqb_refl. reflexivity.
           ++ symmetry. clear -Hother. induction r as [|[x rr] t IHt]; [reflexivity|]. cbn [assoc_lv].
              destruct (Nat.eqb x lv) eqn:E; [apply Nat.eqb_eq in E; exfalso; apply (Hother x rr (or_introl eq_refl) E)|].
              apply IHt. intros a b Hin. apply (Hother a b). right. exact Hin.
        -- destruct (assoc_lv lv' r); [reflexivity|]. rewrite Hs1.
           replace (fname_eqb (NLevel lv ext) (NLevel lv' ext)) with false; [reflexivity|].
           symmetry. apply fname_eqb_neq. apply Nat.eqb_neq in El. congruence.
      * rewrite Hs1. replace (fname_eqb (NLevel lv ext) (NLevel lv' e)) with false; [reflexivity|].
        symmetry. apply fname_eqb_neq. intro H. inversion H; subst. rewrite eqb_reflx in Ee. discriminate.
    + (* result files *)
      destruct ((p =? pfx)%Z && (negb d || fg_decoys g)) eqn:Eo.
      * apply andb_true_iff in Eo. destruct Eo as [Ep Ed]. apply Z.eqb_eq in Ep. subst p.
        destruct (Nat.eqb lv lv') eqn:El.
        -- apply Nat.eqb_eq in El. subst lv'.
           replace (assoc_lv lv r) with (@None (list cf_row)).
           ++ rewrite Hs1. replace (fname_eqb (NLevel lv ext) (NResult pfx d lv)) with false by reflexivity.
              destruct d; cbn [negb orb] in Ed.
              ** replace (fname_eqb (NResult pfx false lv) (NResult pfx true lv)) with false
                   by (cbn; rewrite Z.eqb_refl; reflexivity).
                 rewrite fname_eqb_refl, Ed. reflexivity.
              ** rewrite fname_eqb_refl. reflexivity.
           ++ symmetry. clear -Hother. induction r as [|[x rr] t IHt]; [reflexivity|]. cbn [assoc_lv].
              destruct (Nat.eqb x lv) eqn:E; [apply Nat.eqb_eq in E; exfalso; apply (Hother x rr (or_introl eq_refl) E)|].
              apply IHt. intros a b Hin. apply (Hother a b). right. exact Hin.
        -- apply Nat.eqb_neq in El.
           assert (Hs1n : cget s1 (NResult pfx d lv') = cget s (NResult pfx d lv')).
           { rewrite Hs1. replace (fname_eqb (NLevel lv ext) (NResult pfx d lv')) with false by reflexivity.
             replace (fname_eqb (NResult pfx false lv) (NResult pfx d lv')) with false
               by (symmetry; apply fname_eqb_neq; congruence).
             replace (fname_eqb (NResult pfx true lv) (NResult pfx d lv')) with false
               by (symmetry; apply fname_eqb_neq; congruence).
             reflexivity. }
           destruct (assoc_lv lv' r); [|exact Hs1n]. unfold old_or_nil. rewrite Hs1n. reflexivity.
      * rewrite Hs1. replace (fname_eqb (NLevel lv ext) (NResult p d lv')) with false by reflexivity.
        apply andb_false_iff in Eo.
        destruct (fname_eqb (NResult pfx false lv) (NResult p d lv')) eqn:E0.
        { apply fname_eqb_eq in E0. inversion E0; subst. destruct Eo as [Eo|Eo]; [rewrite Z.eqb_refl in Eo | cbn in Eo]; discriminate. }
        destruct (fname_eqb (NResult pfx true lv) (NResult p d lv')) eqn:E1; cbn [andb]; [|reflexivity].
        apply fname_eqb_eq in E1. inversion E1; subst. destruct Eo as [Eo|Eo]; [rewrite Z.eqb_refl in Eo; discriminate|].
        cbn [negb orb] in Eo. rewrite Eo. reflexivity.
Qed.

Lemma assoc_lv_In : forall l lv rws, assoc_lv lv l = Some rws -> In (lv, rws) l.
Proof.
  induction l as [|[x r] t IH]; intros lv rws H; cbn [assoc_lv] in H; [discriminate|].
  destruct (Nat.eqb x lv) eqn:E; [|right; apply IH; exact H].
  apply Nat.eqb_eq in E. inversion H; subst. left. reflexivity.
Qed.

(* ... when the result files are present *)
Lemma exec_result_steps : forall l s, NoDup (map fst l) ->
  (forall lv rws, In (lv, rws) l -> cget s (NLevel lv ext) = Some (fs_plain rws)) ->
  (forall lv rws d, In (lv, rws) l -> (d = true -> fg_decoys g = true) -> cget s (NResult pfx d lv) <> None) ->
  exists s', cexec (flat_map (result_step g pfx) l) s = Some s' /\
    forall n, cget s' n =
      match n with
      | NLevel lv e => if Bool.eqb e ext then match assoc_lv lv l with Some _ => None | None => cget s n end else cget s n
      | NResult p d lv =>
          if (p =? pfx)%Z && (negb d || fg_decoys g)
          then match assoc_lv lv l with Some rws => Some (old_or_nil s n ++ side d rws) | None => cget s n end
          else cget s n
      | _ => cget s n
      end.
Proof.
  intros l s Hnd Hlv Hres. destruct (exec_result_steps_any l s Hnd Hlv) as [s' [He Hs']].
  exists s'. split; [exact He|]. intro n. rewrite Hs'.
  destruct n as [p i e | lv e | p d lv | p | p | z]; try reflexivity.
  destruct ((p =? pfx)%Z && (negb d || fg_decoys g)) eqn:Eo; [|reflexivity].
  destruct (assoc_lv lv l) as [rws|] eqn:Ea; [|reflexivity].
  destruct (nilb rws) eqn:En; [|reflexivity].
  apply nilb_true in En. subst rws. apply andb_true_iff in Eo. destruct Eo as [Ep Ed]. apply Z.eqb_eq in Ep. subst p.
  rewrite side_nil, app_nil_r. unfold old_or_nil.
  destruct (cget s (NResult pfx d lv)) eqn:Eg; [reflexivity|]. exfalso.
  apply (Hres lv [] d (assoc_lv_In _ _ _ Ea)); [|exact Eg]. intros ->. exact Ed.
Qed.
End Coll2.

(* ------------------------------------------------------------------ part 5 *)

Lemma cgets_present : forall ns s cs, cgets s ns = Some cs -> forall n, In n ns -> cget s n <> None.
Proof.
  induction ns as [|m r IH]; intros s cs H n Hn; [destruct Hn|]. cbn in H.
  destruct (cget s m) as [cm|] eqn:Em; [|discriminate]. destruct (cgets s r) as [cr|] eqn:Er; [|discriminate].
  destruct Hn as [<-|Hn]; [rewrite Em; discriminate | apply (IH s cr Er n Hn)].
Qed.

Lemma assoc_combine_seq (l : list (list cf_row)) : forall s lv,
  assoc_lv lv (combine (seq s (length l)) l) =
  if (s <=? lv) && (lv <? s + length l) then Some (nth (lv - s) l []) else None.
Proof.
  induction l as [|x r IH]; intros s lv; cbn [length seq combine assoc_lv].
  - destruct ((s <=? lv) && (lv <? s + 0)) eqn:E; [|reflexivity].
    apply andb_true_iff in E; destruct E as [E1 E2]; apply Nat.leb_le in E1; apply Nat.ltb_lt in E2; lia.
  - destruct (Nat.eqb s lv) eqn:E.
    + apply Nat.eqb_eq in E. subst s. rewrite Nat.leb_refl, Nat.sub_diag. cbn [andb nth].
      replace (lv <? lv + S (length r)) with true; [reflexivity|]. symmetry. apply Nat.ltb_lt. lia.
    + apply Nat.eqb_neq in E. rewrite IH.
      destruct (s <=? lv) eqn:E1.
      * apply Nat.leb_le in E1. replace (S s <=? lv) with true by (symmetry; apply Nat.leb_le; lia). cbn [andb].
        replace (lv <? s + S (length r)) with (lv <? S s + length r) by (f_equal; lia).
        destruct (lv <? S s + length r); [|reflexivity]. replace (lv - s) with (S (lv - S s)) by lia. reflexivity.
      * apply Nat.leb_gt in E1. replace (S s <=? lv) with false by (symmetry; apply Nat.leb_gt; lia). reflexivity.
Qed.

Lemma fs_mem_chunk_names : forall g pfx rows n,
  fs_mem n (fs_chunk_names g pfx rows) =
  match n with
  | NChunk p i e => (p =? pfx)%Z && Bool.eqb e (fg_ext g) && (i <? length (fs_chunk_rows g rows))
  | _ => false
  end.
Proof.
  intros g pfx rows n. unfold fs_chunk_names.
  destruct (fs_mem n _) eqn:E.
  - apply fs_mem_In in E. apply in_map_iff in E. destruct E as [i [<- Hi]]. apply in_seq in Hi.
    rewrite Z.eqb_refl, eqb_reflx. cbn. symmetry. apply Nat.ltb_lt. lia.
  - destruct n as [p i e | | | | |]; try reflexivity.
    destruct ((p =? pfx)%Z && Bool.eqb e (fg_ext g) && (i <? length (fs_chunk_rows g rows))) eqn:E2; [|reflexivity].
    apply andb_true_iff in E2. destruct E2 as [E2 E3]. apply andb_true_iff in E2. destruct E2 as [E1 E2].
    apply Z.eqb_eq in E1. apply Bool.eqb_prop in E2. apply Nat.ltb_lt in E3. subst p e.
    assert (fs_mem (NChunk pfx i (fg_ext g)) (map (fun i0 => NChunk pfx i0 (fg_ext g)) (seq 0 (length (fs_chunk_rows g rows)))) = true).
    { apply fs_mem_In. apply in_map_iff. exists i. split; [reflexivity | apply in_seq; lia]. }
    congruence.
Qed.

Lemma map_id_plain : forall l, map (fun p : crow => cf_id (fst p)) (fs_plain l) = map cf_id l.
Proof. intro l. unfold fs_plain. rewrite map_map. reflexivity. Qed.

Section Coll3.
Variable g : fs_cfg.
Hypothesis Hc : 0 < fg_c g.
Hypothesis Hg : fg_glob g = false.
Variable cl : fs_coll.
Local Notation pfx := (fc_pfx cl).
Local Notation rows := (fc_rows cl).
Local Notation ext := (fg_ext g).
Local Notation nl := (fg_nlevels g).
Local Notation chunks := (fs_chunk_rows g rows).
Local Notation names := (fs_chunk_names g pfx rows).

(* ---- the picked-protein step: the protein-level file is written from the peptide-level file — or the step raises,
   when the recorded oracle value belongs to another peptide level ---- *)
Lemma exec_prot_step : forall sD, prot_ok g cl ->
  (forall lv, lv < nl -> cget sD (NLevel lv ext) = Some (fs_plain (nth lv (coll_levels g cl) []))) ->
  if prot_key_ok g cl
  then exists sP, cexec (fs_prot_ops g cl) sD = Some sP /\
       (forall lv, lv < fs_nres g -> cget sP (NLevel lv ext) = Some (fs_plain (nth lv (coll_all_levels g cl) []))) /\
       (forall n, (forall lv, lv < fs_nres g -> n <> NLevel lv ext) -> cget sP n = cget sD n)
  else cexec (fs_prot_ops g cl) sD = None.
Proof.
  intros sD Hok HD.
  assert (Hlen : length (coll_levels g cl) = nl) by apply cf_levels_length.
  revert Hok. unfold prot_ok, prot_key_ok, fs_prot_ops, coll_all_levels, fs_prot_levels, fs_nres.
  destruct (fg_proteins g); intro Hok.
  - destruct (Hok eq_refl) as [Hnl Hpr]. destruct (fc_prot cl) as [[ids prows]|]; [|congruence].
    assert (E : cexec [OWrite (NLevel nl ext) [NLevel 1 ext] (KProteins ids prows)] sD =
                if fs_zlist_eqb (coll_pep_ids g cl) ids then Some (cset sD (NLevel nl ext) (fs_plain prows)) else None).
    { cbn [exec exec_op fs_gets]. rewrite (HD 1 Hnl). cbn [capply]. rewrite map_id_plain. fold (coll_pep_ids g cl).
      destruct (fs_zlist_eqb (coll_pep_ids g cl) ids); reflexivity. }
    rewrite E. destruct (fs_zlist_eqb (coll_pep_ids g cl) ids); [|reflexivity].
    eexists. split; [reflexivity|]. split.
    + intros lv Hlv. rewrite fs_get_set. destruct (Nat.eq_dec lv nl) as [->|N].
      * rewrite fname_eqb_refl. rewrite app_nth2 by lia. rewrite Hlen, Nat.sub_diag. reflexivity.
      * replace (fname_eqb (NLevel nl ext) (NLevel lv ext)) with false by (symmetry; apply fname_eqb_neq; congruence).
        rewrite app_nth1 by lia. apply HD. lia.
    + intros n Hn. rewrite fs_get_set. replace (fname_eqb (NLevel nl ext) n) with false; [reflexivity|].
      symmetry. apply fname_eqb_neq. intro H. apply (Hn nl); [lia | symmetry; exact H].
  - exists sD. split; [reflexivity|]. rewrite app_nil_r. split; [exact HD | intros; reflexivity].
Qed.

(* one collection, with or without protein level, from ANY directory, whatever the state of its result files: if the recorded oracle value belongs to this run's
   peptide level the operations succeed and end in [coll_effect_p]; otherwise the picked-protein step raises *)
Theorem coll_exec_a : forall ap s, prot_ok g cl ->
  if prot_key_ok g cl
  then exists s', cexec (fs_coll_ops g ap cl) s = Some s' /\
         forall n, cget s' n = coll_effect_a g ap cl (cget s) n
  else cexec (fs_coll_ops g ap cl) s = None.
Proof.
  intros ap s Hok. rewrite (coll_ops_shape_g g ap cl Hg). rewrite cexec_app.
  destruct (exec_inits_p g Hc cl ap s) as [sA [HeA HsA]]. rewrite HeA. rewrite cexec_app.
  destruct (exec_chunk_ops g Hc pfx rows sA) as [sB [HeB [HgB HsB]]]. rewrite HeB. rewrite cexec_app, cexec_app.
  destruct (exec_level_ops g Hc pfx rows sB HgB) as [sC [HeC [HlC HsC]]]. rewrite HeC.
  assert (HnotL : forall n, In n names -> forall lv, lv < nl -> n <> NLevel lv ext).
  { intros n Hn lv _ ->. apply (chunk_names_are_chunks g pfx rows) in Hn. discriminate. }
  destruct (exec_unlinks names sC (chunk_names_nodup g pfx rows)) as [sD [HeD HsD]].
  { intros n Hn. rewrite (HsC n (HnotL n Hn)). apply (cgets_present names sB _ HgB n Hn). }
  rewrite HeD. rewrite cexec_app.
  pose proof (nres_ge g) as Hnres.
  (* the state before the protein step, on the names that matter *)
  assert (HD_level : forall lv, lv < nl -> cget sD (NLevel lv ext) = Some (fs_plain (nth lv (coll_levels g cl) []))).
  { intros lv Hlv. rewrite HsD, fs_mem_chunk_names. apply HlC; exact Hlv. }
  assert (HD_other : forall n, (forall lv, lv < nl -> n <> NLevel lv ext) ->
            cget sD n = if fs_mem n names then None else if negb ap && own_result_p g cl n then Some [] else cget s n).
  { intros n Hn. rewrite HsD. destruct (fs_mem n names) eqn:E; [reflexivity|].
    rewrite (HsC n Hn), (HsB n E). apply HsA. }
  pose proof (exec_prot_step sD Hok HD_level) as HP.
  destruct (prot_key_ok g cl); [|rewrite HP; reflexivity].
  destruct HP as [sP [HeP [HP_level HP_other]]]. rewrite HeP.
  assert (Hlen : length (coll_all_levels g cl) = fs_nres g) by (apply all_levels_length; exact Hok).
  assert (HP_pre : forall n, (forall lv, lv < fs_nres g -> n <> NLevel lv ext) ->
            cget sP n = if fs_mem n names then None else if negb ap && own_result_p g cl n then Some [] else cget s n).
  { intros n Hn. rewrite (HP_other n Hn). apply HD_other. intros lv Hlv. apply Hn. lia. }
  destruct (exec_result_steps_any g Hc cl (combine (seq 0 (fs_nres g)) (coll_all_levels g cl)) sP) as [sE [HeE HsE]].
  { apply nodup_fst_combine, seq_NoDup. }
  { intros lv rws Hin. rewrite <- Hlen in Hin.
    destruct (in_combine_seq_nth g Hc (coll_all_levels g cl) [] 0 lv rws Hin) as [Hr ->].
    rewrite Nat.sub_0_r. apply HP_level. lia. }
  rewrite result_ops_eq_gen, res_levels_seq. exists sE. split; [exact HeE|].
  assert (Hassoc : forall lv, assoc_lv lv (combine (seq 0 (fs_nres g)) (coll_all_levels g cl)) =
                              if lv <? fs_nres g then Some (nth lv (coll_all_levels g cl) []) else None).
  { intro lv. rewrite <- Hlen. rewrite assoc_combine_seq.
    cbn [Nat.leb andb Nat.add]. rewrite Nat.sub_0_r. reflexivity. }
  assert (Hnown : forall n, is_result n = false -> own_result_p g cl n = false).
  { intros n Hn. destruct n; try reflexivity. discriminate. }
  intro n. rewrite HsE. unfold coll_effect_a.
  destruct n as [p i e | lv e | p d lv | p | p | z].
  - (* chunk files *)
    rewrite HP_pre by (intros; discriminate). rewrite fs_mem_chunk_names.
    destruct ((p =? pfx)%Z && Bool.eqb e ext && (i <? length chunks)) eqn:E; [reflexivity|].
    rewrite Hnown by reflexivity. rewrite andb_false_r. reflexivity.
  - (* level files *)
    rewrite Hassoc. destruct (Bool.eqb e ext) eqn:Ee; cbn [andb].
    + destruct (lv <? fs_nres g) eqn:El; [reflexivity|].
      apply Bool.eqb_prop in Ee. subst e. apply Nat.ltb_ge in El.
      rewrite HP_pre by (intros lv' Hlv' H; inversion H; lia). rewrite fs_mem_chunk_names.
      rewrite Hnown by reflexivity. rewrite andb_false_r. reflexivity.
    + rewrite HP_pre by (intros lv' Hlv' H; inversion H; subst; rewrite eqb_reflx in Ee; discriminate).
      rewrite fs_mem_chunk_names. rewrite Hnown by reflexivity. rewrite andb_false_r. reflexivity.
  - (* result files *)
    rewrite Hassoc. unfold old_or_nil. rewrite HP_pre by (intros; discriminate). rewrite fs_mem_chunk_names.
    unfold own_result_p. cbn [own_result_k].
    destruct ((p =? pfx)%Z) eqn:Ep; cbn [andb]; [|rewrite andb_false_r; reflexivity].
    destruct (lv <? fs_nres g) eqn:El; cbn [andb].
    + destruct (negb d || fg_decoys g) eqn:Ed; cbn [andb]; [|rewrite andb_false_r; reflexivity].
      destruct ap; cbn [negb andb].
      * destruct (cget s (NResult p d lv)) as [o|]; destruct (nilb (nth lv (coll_all_levels g cl) [])) eqn:En; try reflexivity.
        apply nilb_true in En. rewrite En, side_nil, app_nil_r. reflexivity.
      * destruct (nilb (nth lv (coll_all_levels g cl) [])) eqn:En; [|reflexivity].
        apply nilb_true in En. rewrite En, side_nil. reflexivity.
    + destruct (negb d || fg_decoys g); rewrite andb_false_r; reflexivity.
  - rewrite HP_pre by (intros; discriminate). rewrite fs_mem_chunk_names, Hnown by reflexivity. rewrite andb_false_r. reflexivity.
  - rewrite HP_pre by (intros; discriminate). rewrite fs_mem_chunk_names, Hnown by reflexivity. rewrite andb_false_r. reflexivity.
  - rewrite HP_pre by (intros; discriminate). rewrite fs_mem_chunk_names, Hnown by reflexivity. rewrite andb_false_r. reflexivity.
Qed.

(* ... when the result files the collection appends to are present: the effect [coll_effect_p] *)
Theorem coll_exec_p : forall ap s, prot_ok g cl ->
  (ap = true -> forall n, own_result_p g cl n = true -> cget s n <> None) ->
  if prot_key_ok g cl
  then exists s', cexec (fs_coll_ops g ap cl) s = Some s' /\
         forall n, cget s' n = coll_effect_p g ap cl (cget s) n
  else cexec (fs_coll_ops g ap cl) s = None.
Proof.
  intros ap s Hok Hap. pose proof (coll_exec_a ap s Hok) as H.
  destruct (prot_key_ok g cl); [|exact H]. destruct H as [s' [He Hs']]. exists s'. split; [exact He|].
  intro n. rewrite Hs'. apply coll_effect_a_present. intros E Hn. apply (Hap E n Hn).
Qed.
End Coll3.

(* the statement for runs without protein level (a corollary) *)
Theorem coll_exec : forall g, 0 < fg_c g -> fg_glob g = false -> fg_proteins g = false ->
  forall cl ap s,
  (ap = true -> forall n, own_result g cl n = true -> cget s n <> None) ->
  exists s', cexec (fs_coll_ops g ap cl) s = Some s' /\
    forall n, cget s' n = coll_effect g ap cl (cget s) n.
Proof.
  intros g Hc Hg Hp cl ap s Hap.
  pose proof (coll_exec_p g Hc Hg cl ap s (prot_ok_noprot g cl Hp)) as H.
  rewrite (prot_key_ok_noprot g cl Hp) in H.
  destruct H as [s' [He Hs']].
  { intros E n Hn. apply (Hap E). rewrite <- (own_result_p_noprot g cl n Hp). exact Hn. }
  exists s'. split; [exact He|]. intro n. rewrite Hs'. apply coll_effect_p_noprot. exact Hp.
Qed.

(* ------------------------------------------------------------------ part 6 *)

(* the abstract effect of the whole run *)
Fixpoint run_effect (g : fs_cfg) (seen : bool) (cls : list fs_coll) (v : fview) : fview :=
  match cls with
  | [] => v
  | cl :: r => run_effect g (seen || (fc_pfx cl =? 0)%Z) r
                 (coll_effect g (fg_append g || (seen && (fc_pfx cl =? 0)%Z)) cl v)
  end.

(* ... of a run that may have a protein level *)
Fixpoint run_effect_p (g : fs_cfg) (seen : bool) (cls : list fs_coll) (v : fview) : fview :=
  match cls with
  | [] => v
  | cl :: r => run_effect_p g (seen || (fc_pfx cl =? 0)%Z) r
                 (coll_effect_p g (fg_append g || (seen && (fc_pfx cl =? 0)%Z)) cl v)
  end.

Lemma coll_effect_ext : forall g ap cl v v', (forall n, v n = v' n) -> forall n, coll_effect g ap cl v n = coll_effect g ap cl v' n.
Proof. intros g ap cl v v' H n. unfold coll_effect. destruct n; rewrite ?H; reflexivity. Qed.

Lemma run_effect_ext : forall g cls seen v v', (forall n, v n = v' n) -> forall n, run_effect g seen cls v n = run_effect g seen cls v' n.
Proof.
  intros g cls; induction cls as [|cl r IH]; intros seen v v' H n; cbn [run_effect]; [apply H|].
  apply IH. apply coll_effect_ext. exact H.
Qed.

Lemma coll_effect_p_ext : forall g ap cl v v', (forall n, v n = v' n) -> forall n, coll_effect_p g ap cl v n = coll_effect_p g ap cl v' n.
Proof. intros g ap cl v v' H n. unfold coll_effect_p. destruct n; rewrite ?H; reflexivity. Qed.

Lemma run_effect_p_ext : forall g cls seen v v', (forall n, v n = v' n) -> forall n, run_effect_p g seen cls v n = run_effect_p g seen cls v' n.
Proof.
  intros g cls; induction cls as [|cl r IH]; intros seen v v' H n; cbn [run_effect_p]; [apply H|].
  apply IH. apply coll_effect_p_ext. exact H.
Qed.

Lemma run_effect_p_noprot : forall g, fg_proteins g = false ->
  forall cls seen v n, run_effect_p g seen cls v n = run_effect g seen cls v n.
Proof.
  intros g Hp cls; induction cls as [|cl r IH]; intros seen v n; cbn [run_effect_p run_effect]; [reflexivity|].
  rewrite IH. apply run_effect_ext. intro m. apply coll_effect_p_noprot. exact Hp.
Qed.

Definition results0_present (g : fs_cfg) (v : fview) : Prop :=
  forall d lv, lv < fg_nlevels g -> (d = true -> fg_decoys g = true) -> v (NResult 0%Z d lv) <> None.
Definition results0_present_p (g : fs_cfg) (v : fview) : Prop :=
  forall d lv, lv < fs_nres g -> (d = true -> fg_decoys g = true) -> v (NResult 0%Z d lv) <> None.

Lemma own_result_k_inv : forall g cl k n, own_result_k g cl k n = true ->
  exists d lv, n = NResult (fc_pfx cl) d lv /\ lv < k /\ (d = true -> fg_decoys g = true).
Proof.
  intros g cl k n H. destruct n as [| | p d lv | | |]; try discriminate. cbn [own_result_k] in H.
  apply andb_true_iff in H. destruct H as [H Hd]. apply andb_true_iff in H. destruct H as [Hp Hl].
  apply Z.eqb_eq in Hp. apply Nat.ltb_lt in Hl. subst p. exists d, lv. repeat split; [exact Hl|].
  intros ->. cbn in Hd. exact Hd.
Qed.

Lemma own_result_inv : forall g cl n, own_result g cl n = true ->
  exists d lv, n = NResult (fc_pfx cl) d lv /\ lv < fg_nlevels g /\ (d = true -> fg_decoys g = true).
Proof. intros g cl n H. apply (own_result_k_inv g cl (fg_nlevels g) n H). Qed.

(* all collections, with or without protein level: the run succeeds iff every recorded oracle value belongs to the
   peptide level its collection computes in this run, and then ends in [run_effect_p] *)
Theorem colls_exec_p : forall g, 0 < fg_c g -> fg_glob g = false -> fg_append g = false ->
  forall cls seen s, (forall cl, In cl cls -> prot_ok g cl) ->
  (seen = true -> results0_present_p g (cget s)) ->
  if forallb (prot_key_ok g) cls
  then exists s', cexec (fs_colls_ops g seen cls) s = Some s' /\
         forall n, cget s' n = run_effect_p g seen cls (cget s) n
  else cexec (fs_colls_ops g seen cls) s = None.
Proof.
  intros g Hc Hg Ha cls; induction cls as [|cl r IH]; intros seen s Hok Hseen; cbn [fs_colls_ops run_effect_p forallb].
  - exists s. split; [reflexivity | intro n; reflexivity].
  - rewrite cexec_app. rewrite Ha. cbn [orb].
    pose proof (coll_exec_p g Hc Hg cl (seen && (fc_pfx cl =? 0)%Z) s (Hok cl (or_introl eq_refl))) as H1.
    assert (Hap1 : (seen && (fc_pfx cl =? 0)%Z)%bool = true ->
                   forall n, own_result_p g cl n = true -> cget s n <> None).
    { intros E n Hn. apply andb_true_iff in E. destruct E as [E1 E2]. apply Z.eqb_eq in E2.
      destruct (own_result_k_inv g cl (fs_nres g) n Hn) as [d [lv [-> [Hlv Hd]]]]. rewrite E2. apply (Hseen E1 d lv Hlv Hd). }
    specialize (H1 Hap1).
    destruct (prot_key_ok g cl); cbn [andb]; [|rewrite H1; reflexivity].
    destruct H1 as [s1 [He1 Hs1]]. rewrite He1.
    pose proof (IH (seen || (fc_pfx cl =? 0)%Z)%bool s1) as H2.
    assert (Hok2 : forall cl', In cl' r -> prot_ok g cl') by (intros cl' Hin; apply Hok; right; exact Hin).
    assert (Hseen2 : (seen || (fc_pfx cl =? 0)%Z)%bool = true -> results0_present_p g (cget s1)).
    { intros E d lv Hlv Hd. rewrite Hs1. unfold coll_effect_p.
      destruct ((0 =? fc_pfx cl)%Z && (lv <? fs_nres g) && (negb d || fg_decoys g)) eqn:Eo; [discriminate|].
      apply orb_true_iff in E. destruct E as [E|E]; [apply (Hseen E d lv Hlv Hd)|].
      apply Z.eqb_eq in E. rewrite E in Eo. cbn [Z.eqb] in Eo.
      replace (lv <? fs_nres g) with true in Eo by (symmetry; apply Nat.ltb_lt; exact Hlv).
      destruct d; cbn in Eo; [rewrite (Hd eq_refl) in Eo|]; discriminate. }
    specialize (H2 Hok2 Hseen2).
    destruct (forallb (prot_key_ok g) r); [|exact H2].
    destruct H2 as [s' [He Hs']].
    exists s'. split; [exact He|]. intro n. rewrite Hs'. apply run_effect_p_ext. exact Hs1.
Qed.

Theorem colls_exec : forall g, 0 < fg_c g -> fg_glob g = false -> fg_append g = false -> fg_proteins g = false ->
  forall cls seen s, (seen = true -> results0_present g (cget s)) ->
  exists s', cexec (fs_colls_ops g seen cls) s = Some s' /\
    forall n, cget s' n = run_effect g seen cls (cget s) n.
Proof.
  intros g Hc Hg Ha Hp cls seen s Hseen.
  pose proof (colls_exec_p g Hc Hg Ha cls seen s) as H.
  replace (forallb (prot_key_ok g) cls) with true in H
    by (symmetry; apply forallb_forall; intros cl _; apply prot_key_ok_noprot; exact Hp).
  destruct H as [s' [He Hs']].
  { intros cl _. apply prot_ok_noprot. exact Hp. }
  { intros E d lv Hlv Hd. rewrite (fs_nres_noprot g Hp) in Hlv. apply (Hseen E d lv Hlv Hd). }
  exists s'. split; [exact He|]. intro n. rewrite Hs'. apply run_effect_p_noprot. exact Hp.
Qed.

(* refinement: the run, executed operation by operation on ANY directory, ends in the directory described by the
   abstract effect — successfully if (and only if) every recorded picked-protein value belongs to this run *)
Theorem run_exec_p : forall g s, run_okp g -> 0 < fg_c g ->
  if forallb (prot_key_ok g) (fg_colls g)
  then exists s', fs_run g None s = Some s' /\ forall n, cget s' n = run_effect_p g false (fg_colls g) (cget s) n
  else fs_run g None s = None.
Proof.
  intros g s [Hg [Ha Hok]] Hc. unfold fs_run, fs_run_ops.
  apply (colls_exec_p g Hc Hg Ha (fg_colls g) false s Hok). discriminate.
Qed.

Corollary run_exec_keys : forall g s, run_okp g -> 0 < fg_c g ->
  (forall cl, In cl (fg_colls g) -> prot_key_ok g cl = true) ->
  exists s', fs_run g None s = Some s' /\ forall n, cget s' n = run_effect_p g false (fg_colls g) (cget s) n.
Proof.
  intros g s Hok Hc Hk. pose proof (run_exec_p g s Hok Hc) as H.
  replace (forallb (prot_key_ok g) (fg_colls g)) with true in H; [exact H|].
  symmetry. apply forallb_forall. exact Hk.
Qed.

(* a recorded oracle value whose key is not the peptide level of this run: the picked-protein step raises, from any directory *)
Corollary run_key_mismatch : forall g s cl, run_okp g -> 0 < fg_c g ->
  In cl (fg_colls g) -> prot_key_ok g cl = false -> fs_run g None s = None.
Proof.
  intros g s cl Hok Hc Hin Hk. pose proof (run_exec_p g s Hok Hc) as H.
  destruct (forallb (prot_key_ok g) (fg_colls g)) eqn:E; [|exact H].
  rewrite forallb_forall in E. rewrite (E cl Hin) in Hk. discriminate.
Qed.

Theorem run_exec : forall g s, run_ok g -> 0 < fg_c g ->
  exists s', fs_run g None s = Some s' /\ forall n, cget s' n = run_effect g false (fg_colls g) (cget s) n.
Proof.
  intros g s [Hg [Ha Hp]] Hc. unfold fs_run, fs_run_ops.
  apply (colls_exec g Hc Hg Ha Hp (fg_colls g) false s). discriminate.
Qed.

(* the result files of a one-collection run hold exactly the rows and q-values of the C03 model *)
Lemma side_confidence : forall c dedup nl rows lv, lv < nl ->
  nth lv (cf_confidence c dedup nl rows) ([], []) =
  (side false (nth lv (cf_levels cf_row cf_score cf_lkey c dedup dedup nl rows) []),
   side true (nth lv (cf_levels cf_row cf_score cf_lkey c dedup dedup nl rows) [])).
Proof.
  intros c dedup nl rows lv Hlv. unfold cf_confidence.
  set (F := fun lvl : list cf_row => let rq := combine lvl (cf_qvalues lvl) in
              (filter (fun p => cf_target (fst p)) rq, filter (fun p => negb (cf_target (fst p))) rq)).
  change ([], []) with (F (@nil cf_row)). rewrite map_nth. unfold F, side. cbn zeta.
  f_equal; try (apply filter_ext; intro p; destruct (cf_target (fst p)); reflexivity).
Qed.

Theorem run_single_results : forall g cl s, run_ok g -> 0 < fg_c g -> fg_colls g = [cl] ->
  exists s', fs_run g None s = Some s' /\
    forall lv, lv < fg_nlevels g ->
      cget s' (NResult (fc_pfx cl) false lv)
        = Some (fst (nth lv (cf_confidence (fg_c g) (fg_dedup g) (fg_nlevels g) (fc_rows cl)) ([], []))) /\
      (fg_decoys g = true ->
       cget s' (NResult (fc_pfx cl) true lv)
        = Some (snd (nth lv (cf_confidence (fg_c g) (fg_dedup g) (fg_nlevels g) (fc_rows cl)) ([], [])))).
Proof.
  intros g cl s Hok Hc Hcl. destruct (run_exec g s Hok Hc) as [s' [He Hs']]. exists s'. split; [exact He|].
  intros lv Hlv. rewrite !Hs', Hcl. cbn [run_effect]. destruct Hok as [_ [Ha _]]. rewrite Ha. cbn [orb andb].
  unfold coll_effect. rewrite Z.eqb_refl. replace (lv <? fg_nlevels g) with true by (symmetry; apply Nat.ltb_lt; exact Hlv).
  cbn [andb negb orb app]. rewrite (side_confidence _ _ _ _ lv Hlv). cbn [fst snd]. split; [reflexivity|].
  intros Hd. rewrite Hd. reflexivity.
Qed.

(* the protein analogue: in a one-collection run with protein level whose recorded oracle value (ids, prows) is keyed by
   this run's peptide level, the protein-level result files hold exactly the oracle's rows, split into targets and decoys,
   with the q-values of cf_qvalues; the protein-level file is gone; the other levels are the outputs of the C03 model *)
Theorem run_single_results_p : forall g cl ids prows s, run_okp g -> 0 < fg_c g -> fg_colls g = [cl] ->
  fg_proteins g = true -> fc_prot cl = Some (ids, prows) -> ids = coll_pep_ids g cl ->
  exists s', fs_run g None s = Some s' /\
    cget s' (NResult (fc_pfx cl) false (fg_nlevels g)) = Some (side false prows) /\
    (fg_decoys g = true -> cget s' (NResult (fc_pfx cl) true (fg_nlevels g)) = Some (side true prows)) /\
    cget s' (NLevel (fg_nlevels g) (fg_ext g)) = None /\
    forall lv, lv < fg_nlevels g ->
      cget s' (NResult (fc_pfx cl) false lv)
        = Some (fst (nth lv (cf_confidence (fg_c g) (fg_dedup g) (fg_nlevels g) (fc_rows cl)) ([], []))) /\
      (fg_decoys g = true ->
       cget s' (NResult (fc_pfx cl) true lv)
        = Some (snd (nth lv (cf_confidence (fg_c g) (fg_dedup g) (fg_nlevels g) (fc_rows cl)) ([], [])))).
Proof.
  intros g cl ids prows s Hok Hc Hcl Hp Hpr Hk.
  destruct (run_exec_keys g s Hok Hc) as [s' [He Hs']].
  { rewrite Hcl. intros cl' [<-|[]]. apply prot_key_ok_iff. intros _ ids' prows' E.
    rewrite Hpr in E. inversion E; subst. reflexivity. }
  exists s'. split; [exact He|]. destruct Hok as [_ [Ha _]].
  assert (Hall : coll_all_levels g cl = coll_levels g cl ++ [prows])
    by (unfold coll_all_levels, fs_prot_levels; rewrite Hp, Hpr; reflexivity).
  assert (Hlen : length (coll_levels g cl) = fg_nlevels g) by apply cf_levels_length.
  assert (Hnres : fs_nres g = S (fg_nlevels g)) by (unfold fs_nres; rewrite Hp; reflexivity).
  assert (Hnthp : nth (fg_nlevels g) (coll_all_levels g cl) [] = prows).
  { rewrite Hall, app_nth2 by lia. rewrite Hlen, Nat.sub_diag. reflexivity. }
  assert (Hlt : (fg_nlevels g <? S (fg_nlevels g)) = true) by (apply Nat.ltb_lt; lia).
  assert (Heff : forall n, cget s' n = coll_effect_p g false cl (cget s) n).
  { intro n. rewrite Hs', Hcl. cbn [run_effect_p]. rewrite Ha. reflexivity. }
  split; [|split; [|split]].
  - rewrite Heff. unfold coll_effect_p. rewrite Z.eqb_refl, Hnres, Hlt. cbn [andb negb orb app]. rewrite Hnthp. reflexivity.
  - intro Hd. rewrite Heff. unfold coll_effect_p. rewrite Z.eqb_refl, Hnres, Hlt, Hd. cbn [andb negb orb app]. rewrite Hnthp. reflexivity.
  - rewrite Heff. unfold coll_effect_p. rewrite eqb_reflx, Hnres, Hlt. reflexivity.
  - intros lv Hlv. rewrite !Heff. unfold coll_effect_p. rewrite Z.eqb_refl, Hnres.
    replace (lv <? S (fg_nlevels g)) with true by (symmetry; apply Nat.ltb_lt; lia).
    cbn [andb negb orb app]. rewrite Hall, app_nth1 by lia. unfold coll_levels.
    rewrite (side_confidence _ _ _ _ lv Hlv). cbn [fst snd]. split; [reflexivity|].
    intros Hd. rewrite Hd. reflexivity.
Qed.

(* ---- switching the protein level on changes nothing but the protein-level files ---- *)
Definition fs_noprot (g : fs_cfg) : fs_cfg :=
  {| fg_ext := fg_ext g; fg_c := fg_c g; fg_dedup := fg_dedup g; fg_nlevels := fg_nlevels g; fg_decoys := fg_decoys g;
     fg_append := fg_append g; fg_glob := fg_glob g; fg_proteins := false; fg_colls := fg_colls g |}.

(* the names of the protein level: its level file and its result files (of any prefix) *)
Definition prot_name (g : fs_cfg) (n : fname) : bool :=
  match n with
  | NLevel lv e => Bool.eqb e (fg_ext g) && Nat.eqb lv (fg_nlevels g)
  | NResult _ _ lv => Nat.eqb lv (fg_nlevels g)
  | _ => false
  end.

Lemma ltb_nres_other : forall g lv, lv <> fg_nlevels g -> (lv <? fs_nres g) = (lv <? fg_nlevels g).
Proof.
  intros g lv N. unfold fs_nres. destruct (fg_proteins g); [|reflexivity].
  destruct (lv <? S (fg_nlevels g)) eqn:A, (lv <? fg_nlevels g) eqn:B; try reflexivity.
  - apply Nat.ltb_lt in A. apply Nat.ltb_ge in B. lia.
  - apply Nat.ltb_ge in A. apply Nat.ltb_lt in B. lia.
Qed.

Lemma coll_effect_p_other : forall g ap cl v v' n, prot_name g n = false -> v n = v' n ->
  coll_effect_p g ap cl v n = coll_effect g ap cl v' n.
Proof.
  intros g ap cl v v' n Hn Hv. unfold coll_effect_p, coll_effect.
  destruct n as [p i e | lv e | p d lv | p | p | z]; rewrite <- ?Hv; try reflexivity.
  - cbn [prot_name] in Hn. destruct (Bool.eqb e (fg_ext g)); cbn [andb] in *; [|reflexivity].
    apply Nat.eqb_neq in Hn. rewrite (ltb_nres_other g lv Hn). reflexivity.
  - cbn [prot_name] in Hn. apply Nat.eqb_neq in Hn. rewrite (ltb_nres_other g lv Hn).
    destruct ((p =? fc_pfx cl)%Z && (lv <? fg_nlevels g) && (negb d || fg_decoys g)) eqn:Eo; [|reflexivity].
    apply andb_true_iff in Eo. destruct Eo as [Eo _]. apply andb_true_iff in Eo. destruct Eo as [_ El]. apply Nat.ltb_lt in El.
    unfold coll_all_levels. rewrite app_nth1 by (unfold coll_levels; rewrite cf_levels_length; exact El). reflexivity.
Qed.

Lemma run_effect_p_other : forall g cls seen v v' n, prot_name g n = false -> v n = v' n ->
  run_effect_p g seen cls v n = run_effect g seen cls v' n.
Proof.
  intros g cls; induction cls as [|cl r IH]; intros seen v v' n Hn Hv; cbn [run_effect_p run_effect]; [exact Hv|].
  apply IH; [exact Hn | apply coll_effect_p_other; assumption].
Qed.

Lemma run_effect_noprot_cfg : forall g cls seen v n, run_effect (fs_noprot g) seen cls v n = run_effect g seen cls v n.
Proof.
  intros g cls; induction cls as [|cl r IH]; intros seen v n; cbn [run_effect]; [reflexivity|].
  rewrite IH. reflexivity.
Qed.

Lemma run_ok_noprot : forall g, run_okp g -> run_ok (fs_noprot g).
Proof. intros g [Hg [Ha _]]. split; [exact Hg|]. split; [exact Ha | reflexivity]. Qed.

(* the run with protein level and the same run without it — from the same, arbitrary directory — both succeed and end in
   directories that agree on every name other than the protein-level file and the protein-level result files: in
   particular the result files of the PSM, peptide and other rollup levels are the same *)
Theorem run_proteins_other_files : forall g s, run_okp g -> 0 < fg_c g ->
  (forall cl, In cl (fg_colls g) -> prot_key_ok g cl = true) ->
  exists s' s0, fs_run g None s = Some s' /\ fs_run (fs_noprot g) None s = Some s0 /\
    forall n, prot_name g n = false -> cget s' n = cget s0 n.
Proof.
  intros g s Hok Hc Hk. destruct (run_exec_keys g s Hok Hc Hk) as [s' [He Hs']].
  destruct (run_exec (fs_noprot g) s (run_ok_noprot g Hok) Hc) as [s0 [He0 Hs0]].
  exists s', s0. split; [exact He|]. split; [exact He0|]. intros n Hn. rewrite Hs', Hs0.
  change (fg_colls (fs_noprot g)) with (fg_colls g). rewrite run_effect_noprot_cfg.
  apply run_effect_p_other; [exact Hn | reflexivity].
Qed.
