(* Shared lemmas about Model/Base.v. *)
From Coq Require Import Lia.
From Mokaverif Require Import Model.Base.
Open Scope Z_scope.

Lemma b_str_eqb_eq a b : str_eqb a b = true <-> a = b.
Proof.
  revert b; induction a as [|x a IH]; intros [|y b]; simpl; try (split; congruence).
  rewrite andb_true_iff, Z.eqb_eq, IH. split; [intros [-> ->]; reflexivity | intros H; inversion H; auto].
Qed.

Lemma b_str_eqb_refl a : str_eqb a a = true.
Proof. apply b_str_eqb_eq; reflexivity. Qed.

Lemma b_mem_str_in x l : mem_str x l = true <-> In x l.
Proof.
  induction l as [|y l IH]; simpl; [split; [discriminate|intros []]|].
  rewrite orb_true_iff, IH, b_str_eqb_eq. split; intros [H|H]; auto.
Qed.

Lemma b_mem_str_notin x l : mem_str x l = false <-> ~ In x l.
Proof.
  rewrite <- b_mem_str_in. destruct (mem_str x l); split; intros H; try congruence; try reflexivity.
Qed.
