(* FsAppendP.v — C09 for append_to_output_file=True ([fg_append g = true]): the result files are NOT created afresh, the
   rows of the run are appended to whatever the caller left under these names.  Then the result files are inputs of the run:
   the results depend on the starting directory through them — and through nothing else.

   1. the operation list has the read-only-what-you-own discipline once the result files count as declared inputs
      ([run_ops_wf_append]); hence independence from every file EXCEPT the own result files, no intermediates, footprint;
   2. refinement, from ANY directory and for both values of fg_append ([run_exec_any]): the run ends in [run_effect_a];
      a result file that is absent is created by the first append (rows only) — the run does not fail;
   3. where the own result files are present this is [run_effect_p] / [run_effect] ([run_exec_append_p], [run_exec_append]);
   4. file by file: new content = old content ++ [own_rows] ([run_append_files]); [own_rows] is what the run without
      appending writes from any directory when no prefix other than "none" is used twice ([run_clean_rows]). *)
From Coq Require Import Lia FinFun.
From Mokaverif Require Import Model.Base Model.Tdc Model.PinCols Model.Merge Model.Confidence Model.PinTsv Model.Fs
  Proofs.PinColsP Proofs.TdcP Proofs.ConfidenceP Proofs.FsP Proofs.FsValP.
Open Scope nat_scope.

(* the guard of the append-mode theorems: [run_okp] with the append flag the other way round *)
Definition run_oka (g : fs_cfg) : Prop :=
  fg_glob g = false /\ fg_append g = true /\ forall cl, In cl (fg_colls g) -> prot_ok g cl.

(* ------------------------------------------------------------------ part 1: names *)

(* [n] is a result file of the run *)
Definition own_name (g : fs_cfg) (n : fname) : bool := existsb (fun cl => own_result_p g cl n) (fg_colls g).

Lemma own_in_names : forall g cl n, In cl (fg_colls g) -> own_result_p g cl n = true -> In n (fs_result_names g).
Proof.
  intros g cl n Hcl Hn. destruct (own_result_k_inv g cl (fs_nres g) n Hn) as [d [lv [-> [Hlv Hd]]]].
  unfold fs_result_names. rewrite res_levels_seq. apply in_flat_map. exists cl. split; [exact Hcl|].
  apply in_flat_map. exists lv. split; [apply in_seq; lia|].
  destruct d; [right; rewrite (Hd eq_refl); left; reflexivity | left; reflexivity].
Qed.

Lemma names_in_own : forall g n, In n (fs_result_names g) -> exists cl, In cl (fg_colls g) /\ own_result_p g cl n = true.
Proof.
  intros g n Hn. unfold fs_result_names in Hn. rewrite res_levels_seq in Hn. apply in_flat_map in Hn.
  destruct Hn as [cl [Hcl Hn]]. exists cl. split; [exact Hcl|].
  apply in_flat_map in Hn. destruct Hn as [lv [Hlv Hn]]. apply in_seq in Hlv.
  assert (Hlt : (lv <? fs_nres g) = true) by (apply Nat.ltb_lt; lia).
  unfold own_result_p. destruct Hn as [<-|Hn].
  - cbn [own_result_k]. rewrite Z.eqb_refl, Hlt. reflexivity.
  - destruct (fg_decoys g) eqn:Ed; [|destruct Hn]. destruct Hn as [<-|[]].
    cbn [own_result_k]. rewrite Z.eqb_refl, Hlt, Ed. reflexivity.
Qed.

Lemma own_name_iff : forall g n, own_name g n = true <-> In n (fs_result_names g).
Proof.
  intros g n. unfold own_name. rewrite existsb_exists. split.
  - intros [cl [Hcl Hn]]. apply (own_in_names g cl n Hcl Hn).
  - apply names_in_own.
Qed.

Lemma names_are_results : forall g n, In n (fs_result_names g) -> is_result n = true.
Proof.
  intros g n Hn. destruct (names_in_own g n Hn) as [cl [_ Ho]].
  destruct (own_result_k_inv g cl (fs_nres g) n Ho) as [d [lv [-> _]]]. reflexivity.
Qed.

Lemma results_in_names : forall g cl, In cl (fg_colls g) -> results_in g (fc_pfx cl) (fs_result_names g).
Proof.
  intros g cl Hcl lv Hlv.
  assert (Hlt : (lv <? fs_nres g) = true) by (apply Nat.ltb_lt; exact Hlv).
  split; [|intro Hd]; apply fs_mem_In; apply (own_in_names g cl _ Hcl); unfold own_result_p; cbn [own_result_k];
    rewrite Z.eqb_refl, Hlt; [reflexivity | rewrite Hd; reflexivity].
Qed.

(* ------------------------------------------------------------------ part 2: the discipline, result files as inputs *)

Lemma colls_ops_wf_append : forall g cls seen W, fg_glob g = false -> fg_append g = true ->
  (forall cl, In cl cls -> prot_ok g cl) ->
  (forall cl, In cl cls -> results_in g (fc_pfx cl) W) ->
  cwf W (fs_colls_ops g seen cls) = true /\
  (forall n, is_result n = true -> fs_mem n W = true -> fs_mem n (cowned W (fs_colls_ops g seen cls)) = true) /\
  (forall n, is_result n = false -> fs_mem n W = false -> fs_mem n (cowned W (fs_colls_ops g seen cls)) = false).
Proof.
  intros g cls; induction cls as [|cl r IH]; intros seen W Hg Ha Hok Hres; cbn [fs_colls_ops].
  - cbn. split; [reflexivity|]. split; intros n _ H; exact H.
  - rewrite Ha. cbn [orb].
    destruct (coll_ops_wf g true cl W Hg (Hok cl (or_introl eq_refl)) (fun _ => Hres cl (or_introl eq_refl)))
      as [Wf1 [_ [Keep1 Out1]]].
    set (W1 := cowned W (fs_coll_ops g true cl)) in *.
    destruct (IH (seen || (fc_pfx cl =? 0)%Z)%bool W1 Hg Ha) as [Wf2 [Keep2 Out2]].
    { intros cl' Hin; apply Hok; right; exact Hin. }
    { intros cl' Hin lv Hlv. destruct (Hres cl' (or_intror Hin) lv Hlv) as [A B].
      split; [|intro Hd]; apply Keep1; auto. }
    rewrite wf_ops_app, owned_after_app. fold W1. rewrite Wf1, Wf2. split; [reflexivity|]. split.
    + intros n Hn HW. apply Keep2; [exact Hn|]. apply Keep1; assumption.
    + intros n Hn HW. apply Out2; [exact Hn|]. apply Out1; assumption.
Qed.

(* with the own result files as declared inputs, every operation of the append-mode run reads only declared inputs or
   files the run created itself, and appends / unlinks only hit such files *)
Theorem run_ops_wf_append : forall g, run_oka g -> cwf (fs_result_names g) (fs_run_ops g) = true.
Proof.
  intros g [Hg [Ha Hok]]. unfold fs_run_ops.
  apply (colls_ops_wf_append g (fg_colls g) false (fs_result_names g) Hg Ha Hok).
  intros cl Hcl. apply results_in_names. exact Hcl.
Qed.

Lemma result_names_owned_append : forall g, run_oka g ->
  forall n, In n (fs_result_names g) -> fs_mem n (cowned (fs_result_names g) (fs_run_ops g)) = true.
Proof.
  intros g [Hg [Ha Hok]] n Hn. unfold fs_run_ops.
  destruct (colls_ops_wf_append g (fg_colls g) false (fs_result_names g) Hg Ha Hok) as [_ [Keep _]].
  { intros cl Hcl. apply results_in_names. exact Hcl. }
  apply Keep; [apply (names_are_results g n Hn) | apply fs_mem_In; exact Hn].
Qed.

Lemma only_results_owned_append : forall g, run_oka g ->
  forall n, is_result n = false -> fs_mem n (cowned (fs_result_names g) (fs_run_ops g)) = false.
Proof.
  intros g [Hg [Ha Hok]] n Hn. unfold fs_run_ops.
  destruct (colls_ops_wf_append g (fg_colls g) false (fs_result_names g) Hg Ha Hok) as [_ [_ Out]].
  { intros cl Hcl. apply results_in_names. exact Hcl. }
  apply Out; [exact Hn|]. destruct (fs_mem n (fs_result_names g)) eqn:E; [|reflexivity].
  apply fs_mem_In in E. apply names_are_results in E. congruence.
Qed.

(* the weakened independence: the results depend on the starting directory through the own result files only — two
   directories that agree on them (and differ in anything else: stale chunk files, level files, result files of other
   prefixes or levels, ...) give the same result files, and the run succeeds in one iff in the other *)
Theorem run_append_independent : forall g sA sB, run_oka g ->
  (forall n, In n (fs_result_names g) -> cget sA n = cget sB n) ->
  match fs_run g None sA, fs_run g None sB with
  | Some a, Some b => forall n, In n (fs_result_names g) -> cget a n = cget b n
  | None, None => True
  | _, _ => False
  end.
Proof.
  intros g sA sB Hok Hagree. unfold fs_run.
  pose proof (fs_independent ccontent cfn capply ccat (fs_run_ops g) (fs_result_names g) sA sB) as H.
  unfold same_outcome in H.
  assert (HA : agree_on ccontent (fs_result_names g) sA sB) by (intros n Hn; apply Hagree; apply fs_mem_In; exact Hn).
  specialize (H HA (run_ops_wf_append g Hok)).
  destruct (cexec (fs_run_ops g) sA) as [a|], (cexec (fs_run_ops g) sB) as [b|]; try exact H.
  intros n Hn. apply H. apply result_names_owned_append; assumption.
Qed.

Theorem run_append_no_intermediates : forall g s s', run_oka g -> fs_run g None s = Some s' ->
  forall n, fs_mem n (touched cfn (fs_run_ops g)) = true -> is_result n = false -> cget s' n = None.
Proof.
  intros g s s' Hok He n Hn Hr.
  apply (fs_no_intermediates ccontent cfn capply ccat (fs_run_ops g) (fs_result_names g) s s' (run_ops_wf_append g Hok) He n Hn).
  apply only_results_owned_append; assumption.
Qed.

Theorem run_append_untouched : forall g s s', run_oka g -> fs_run g None s = Some s' ->
  forall n, fs_mem n (touched cfn (fs_run_ops g)) = false -> cget s' n = cget s n.
Proof.
  intros g s s' Hok He n Hn.
  exact (fs_untouched ccontent cfn capply ccat (fs_run_ops g) (fs_result_names g) s s' (run_ops_wf_append g Hok) He n Hn).
Qed.

(* the only result files an append-mode run names are its own: no result file is created or truncated, each append goes
   to a file of [fs_result_names] *)
Lemma touched_results_own_coll : forall g cl, fg_glob g = false -> prot_ok g cl ->
  forall n, is_result n = true -> fs_mem n (touched cfn (fs_coll_ops g true cl)) = true -> own_result_p g cl n = true.
Proof.
  intros g cl Hg Hok n Hn Ht. rewrite (coll_ops_shape_g g true cl Hg) in Ht.
  rewrite !touched_app, !fs_mem_app in Ht. cbn [fs_result_inits touched fs_mem orb] in Ht.
  assert (Hno : forall ops, forallb (fun m => negb (is_result m)) (touched cfn ops) = true -> fs_mem n (touched cfn ops) = false).
  { intros ops H. apply (forallb_not_mem (fun m => negb (is_result m))); [exact H | rewrite Hn; reflexivity]. }
  rewrite (Hno (fs_chunk_ops g (fc_pfx cl) (fc_rows cl))) in Ht.
  2:{ rewrite chunk_ops_eq. apply touched_flat_map_forall. intros [i ch] _. unfold chunk_step. destruct (fg_ext g); reflexivity. }
  rewrite (Hno (fs_level_ops g (fc_pfx cl) (fc_rows cl))) in Ht.
  2:{ unfold fs_level_ops. rewrite touched_app, forallb_app. apply andb_true_iff. split.
      - induction (seq 0 (fg_nlevels g)) as [|x r IH]; cbn; [reflexivity | exact IH].
      - induction (fs_level_events _ _ _ _) as [|x r IH]; cbn; [reflexivity | exact IH]. }
  rewrite (Hno (map OUnlink (fs_chunk_names g (fc_pfx cl) (fc_rows cl)))) in Ht.
  2:{ assert (E : forall ns, touched cfn (map OUnlink ns) = ns) by (induction ns as [|x r IH]; cbn; [reflexivity | rewrite IH; reflexivity]).
      rewrite E. apply forallb_forall. intros m Hm. apply chunk_names_are_chunks in Hm. destruct m; try discriminate. reflexivity. }
  rewrite (Hno (fs_prot_ops g cl)) in Ht.
  2:{ unfold fs_prot_ops. destruct (fg_proteins g); [|reflexivity]. destruct (fc_prot cl) as [[ids prows]|]; reflexivity. }
  cbn [orb] in Ht.
  (* phase E *)
  rewrite result_ops_eq_gen, res_levels_seq in Ht.
  set (levels := cf_levels _ _ _ _ _ _ _ _ ++ fs_prot_levels g cl) in Ht.
  assert (G : forall l, (forall lv rws, In (lv, rws) l -> lv < fs_nres g) ->
              fs_mem n (touched cfn (flat_map (result_step g (fc_pfx cl)) l)) = true -> own_result_p g cl n = true).
  { induction l as [|[lv rws] r IH]; intros Hl H; [discriminate|]. cbn [flat_map] in H. rewrite touched_app, fs_mem_app in H.
    apply orb_true_iff in H. destruct H as [H|H]; [|apply IH; [intros a b Hab; apply (Hl a b); right; exact Hab | exact H]].
    assert (Hlv : (lv <? fs_nres g) = true) by (apply Nat.ltb_lt; apply (Hl lv rws); left; reflexivity).
    unfold result_step in H. rewrite touched_app, fs_mem_app in H. apply orb_true_iff in H. destruct H as [H|H].
    - induction (seq 0 (length (pc_chunks (fg_c g) rws))) as [|b bs IHb]; [discriminate|].
      cbn [flat_map] in H. rewrite touched_app, fs_mem_app in H. apply orb_true_iff in H. destruct H as [H|H]; [|apply IHb; exact H].
      destruct (fg_decoys g) eqn:Ed; cbn [touched fs_mem] in H; rewrite ?orb_false_r in H.
      + apply orb_true_iff in H. destruct H as [H|H]; apply fname_eqb_eq in H; subst n; unfold own_result_p; cbn [own_result_k];
          rewrite Z.eqb_refl, Hlv, ?Ed; reflexivity.
      + apply fname_eqb_eq in H; subst n; unfold own_result_p; cbn [own_result_k]. rewrite Z.eqb_refl, Hlv. reflexivity.
    - cbn [touched fs_mem] in H. rewrite orb_false_r in H. apply fname_eqb_eq in H. subst n. discriminate. }
  apply (G (combine (seq 0 (fs_nres g)) levels)); [|exact Ht].
  intros lv rws Hin. apply in_combine_l in Hin. apply in_seq in Hin. lia.
Qed.

Theorem run_append_touches_own_results : forall g, run_oka g ->
  forall n, is_result n = true -> fs_mem n (touched cfn (fs_run_ops g)) = true -> In n (fs_result_names g).
Proof.
  intros g [Hg [Ha Hok]] n Hn. unfold fs_run_ops.
  assert (G : forall cls seen, (forall cl, In cl cls -> In cl (fg_colls g)) ->
              fs_mem n (touched cfn (fs_colls_ops g seen cls)) = true -> In n (fs_result_names g)).
  { induction cls as [|cl r IH]; intros seen Hsub H; [discriminate|]. cbn [fs_colls_ops] in H. rewrite Ha in H. cbn [orb] in H.
    rewrite touched_app, fs_mem_app in H. apply orb_true_iff in H. destruct H as [H|H].
    - apply (own_in_names g cl n (Hsub cl (or_introl eq_refl))).
      apply (touched_results_own_coll g cl Hg (Hok cl (Hsub cl (or_introl eq_refl))) n Hn H).
    - apply (IH _ (fun c Hc => Hsub c (or_intror Hc)) H). }
  apply (G (fg_colls g) false (fun c Hc => Hc)).
Qed.

(* ------------------------------------------------------------------ part 3: refinement from any directory *)

Fixpoint run_effect_a (g : fs_cfg) (seen : bool) (cls : list fs_coll) (v : fview) : fview :=
  match cls with
  | [] => v
  | cl :: r => run_effect_a g (seen || (fc_pfx cl =? 0)%Z) r
                 (coll_effect_a g (fg_append g || (seen && (fc_pfx cl =? 0)%Z)) cl v)
  end.

Lemma coll_effect_a_ext : forall g ap cl v v', (forall n, v n = v' n) -> forall n, coll_effect_a g ap cl v n = coll_effect_a g ap cl v' n.
Proof. intros g ap cl v v' H n. unfold coll_effect_a. destruct n; rewrite ?H; reflexivity. Qed.

Lemma run_effect_a_ext : forall g cls seen v v', (forall n, v n = v' n) -> forall n, run_effect_a g seen cls v n = run_effect_a g seen cls v' n.
Proof.
  intros g cls; induction cls as [|cl r IH]; intros seen v v' H n; cbn [run_effect_a]; [apply H|].
  apply IH. apply coll_effect_a_ext. exact H.
Qed.

(* all collections, either value of fg_append, ANY directory: no hypothesis about result files *)
Theorem colls_exec_a : forall g, 0 < fg_c g -> fg_glob g = false ->
  forall cls seen s, (forall cl, In cl cls -> prot_ok g cl) ->
  if forallb (prot_key_ok g) cls
  then exists s', cexec (fs_colls_ops g seen cls) s = Some s' /\
         forall n, cget s' n = run_effect_a g seen cls (cget s) n
  else cexec (fs_colls_ops g seen cls) s = None.
Proof.
  intros g Hc Hg cls; induction cls as [|cl r IH]; intros seen s Hok; cbn [fs_colls_ops run_effect_a forallb].
  - exists s. split; [reflexivity | intro n; reflexivity].
  - rewrite cexec_app.
    pose proof (coll_exec_a g Hc Hg cl (fg_append g || (seen && (fc_pfx cl =? 0)%Z))%bool s (Hok cl (or_introl eq_refl))) as H1.
    destruct (prot_key_ok g cl); cbn [andb]; [|rewrite H1; reflexivity].
    destruct H1 as [s1 [He1 Hs1]]. rewrite He1.
    pose proof (IH (seen || (fc_pfx cl =? 0)%Z)%bool s1 (fun cl' Hin => Hok cl' (or_intror Hin))) as H2.
    destruct (forallb (prot_key_ok g) r); [|exact H2].
    destruct H2 as [s' [He Hs']].
    exists s'. split; [exact He|]. intro n. rewrite Hs'. apply run_effect_a_ext. exact Hs1.
Qed.

Theorem run_exec_any : forall g s, fg_glob g = false -> (forall cl, In cl (fg_colls g) -> prot_ok g cl) -> 0 < fg_c g ->
  if forallb (prot_key_ok g) (fg_colls g)
  then exists s', fs_run g None s = Some s' /\ forall n, cget s' n = run_effect_a g false (fg_colls g) (cget s) n
  else fs_run g None s = None.
Proof.
  intros g s Hg Hok Hc. unfold fs_run, fs_run_ops. apply (colls_exec_a g Hc Hg (fg_colls g) false s Hok).
Qed.

(* (a) an append-mode run never fails for a missing result file: it succeeds from every directory (if and only if every
   recorded picked-protein value belongs to this run, as without appending) *)
Corollary run_append_succeeds : forall g s, run_oka g -> 0 < fg_c g ->
  (fs_run g None s <> None <-> forallb (prot_key_ok g) (fg_colls g) = true).
Proof.
  intros g s [Hg [_ Hok]] Hc. pose proof (run_exec_any g s Hg Hok Hc) as H.
  destruct (forallb (prot_key_ok g) (fg_colls g)).
  - destruct H as [s' [He _]]. rewrite He. split; [reflexivity | discriminate].
  - rewrite H. split; [congruence | discriminate].
Qed.

(* ---- where the result files are present the effect is the one of FsValP.v ---- *)
Lemma coll_effect_a_keeps : forall g ap cl v n, is_result n = true -> v n <> None -> coll_effect_a g ap cl v n <> None.
Proof.
  intros g ap cl v n Hn Hv. destruct n as [p i e | lv e | p d lv | p | p | z]; try discriminate.
  unfold coll_effect_a. destruct ((p =? fc_pfx cl)%Z && (lv <? fs_nres g) && (negb d || fg_decoys g)); [|exact Hv].
  destruct ap; [|discriminate]. destruct (v (NResult p d lv)); [discriminate | congruence].
Qed.

Lemma own_is_result : forall g cl n, own_result_p g cl n = true -> is_result n = true.
Proof. intros g cl n H. destruct (own_result_k_inv g cl (fs_nres g) n H) as [d [lv [-> _]]]. reflexivity. Qed.

Lemma run_effect_a_present : forall g cls seen v,
  (forall cl n, In cl cls -> own_result_p g cl n = true -> v n <> None) ->
  forall n, run_effect_a g seen cls v n = run_effect_p g seen cls v n.
Proof.
  intros g cls; induction cls as [|cl r IH]; intros seen v Hp n; cbn [run_effect_a run_effect_p]; [reflexivity|].
  rewrite IH.
  - apply run_effect_p_ext. intro m. apply coll_effect_a_present. intros _ Hm. apply (Hp cl m (or_introl eq_refl) Hm).
  - intros cl' m Hin Hm. apply coll_effect_a_keeps; [apply (own_is_result g cl' m Hm) | apply (Hp cl' m (or_intror Hin) Hm)].
Qed.

Definition results_present (g : fs_cfg) (s : cfs) : Prop := forall n, In n (fs_result_names g) -> cget s n <> None.

(* (b) append mode, own result files present: the run ends in the directory given by [run_effect_p] — with
   [fg_append g = true] every collection's clause is [coll_effect_p g true]: old content ++ rows of the level *)
Theorem run_exec_append_p : forall g s, run_oka g -> 0 < fg_c g -> results_present g s ->
  if forallb (prot_key_ok g) (fg_colls g)
  then exists s', fs_run g None s = Some s' /\ forall n, cget s' n = run_effect_p g false (fg_colls g) (cget s) n
  else fs_run g None s = None.
Proof.
  intros g s [Hg [_ Hok]] Hc Hpres. pose proof (run_exec_any g s Hg Hok Hc) as H.
  destruct (forallb (prot_key_ok g) (fg_colls g)); [|exact H].
  destruct H as [s' [He Hs']]. exists s'. split; [exact He|]. intro n. rewrite Hs'.
  apply run_effect_a_present. intros cl m Hcl Hm. apply Hpres. apply (own_in_names g cl m Hcl Hm).
Qed.

(* ... without protein level *)
Theorem run_exec_append : forall g s, fg_glob g = false -> fg_append g = true -> fg_proteins g = false -> 0 < fg_c g ->
  results_present g s ->
  exists s', fs_run g None s = Some s' /\ forall n, cget s' n = run_effect g false (fg_colls g) (cget s) n.
Proof.
  intros g s Hg Ha Hp Hc Hpres.
  assert (Hok : run_oka g) by (split; [exact Hg|]; split; [exact Ha|]; intros cl _; apply prot_ok_noprot; exact Hp).
  pose proof (run_exec_append_p g s Hok Hc Hpres) as H.
  replace (forallb (prot_key_ok g) (fg_colls g)) with true in H
    by (symmetry; apply forallb_forall; intros cl _; apply prot_key_ok_noprot; exact Hp).
  destruct H as [s' [He Hs']]. exists s'. split; [exact He|]. intro n. rewrite Hs'. apply run_effect_p_noprot. exact Hp.
Qed.

(* ------------------------------------------------------------------ part 4: file by file *)

(* what one collection adds to a result file: the target / decoy rows of the file's level, with q-values *)
Definition coll_rows (g : fs_cfg) (cl : fs_coll) (n : fname) : ccontent :=
  match n with
  | NResult p d lv => if own_result_p g cl n then side d (nth lv (coll_all_levels g cl) []) else []
  | _ => []
  end.
(* ... and what the run adds: the collections that write to the file, in the order of the call *)
Definition own_rows (g : fs_cfg) (cls : list fs_coll) (n : fname) : ccontent := concat (map (fun cl => coll_rows g cl n) cls).

(* the rows of the levels behind a result file, targets and decoys alike (an append happens iff there is one) *)
Definition coll_lrows (g : fs_cfg) (cl : fs_coll) (n : fname) : list cf_row :=
  match n with
  | NResult p d lv => if own_result_p g cl n then nth lv (coll_all_levels g cl) [] else []
  | _ => []
  end.
Definition own_lrows (g : fs_cfg) (cls : list fs_coll) (n : fname) : list cf_row := concat (map (fun cl => coll_lrows g cl n) cls).

Definition owned_by (g : fs_cfg) (cls : list fs_coll) (n : fname) : bool := existsb (fun cl => own_result_p g cl n) cls.

Lemma own_rows_none : forall g cls n, owned_by g cls n = false -> own_rows g cls n = [] /\ own_lrows g cls n = [].
Proof.
  intros g cls n; induction cls as [|cl r IH]; intro H; [split; reflexivity|].
  cbn [owned_by existsb] in H. apply orb_false_iff in H. destruct H as [H1 H2]. destruct (IH H2) as [A B].
  unfold own_rows, own_lrows in *. cbn [map concat]. rewrite A, B. unfold coll_rows, coll_lrows.
  destruct n; try (split; reflexivity). rewrite H1. split; reflexivity.
Qed.

Definition file_after (old : option ccontent) (lrows : list cf_row) (rows : ccontent) : option ccontent :=
  match old with
  | Some o => Some (o ++ rows)
  | None => if nilb lrows then None else Some rows
  end.

Lemma nilb_app {A} (a b : list A) : nilb (a ++ b) = nilb a && nilb b.
Proof. destruct a; reflexivity. Qed.

(* the effect of an append-mode run on a result file, in closed form *)
Lemma run_effect_a_append_result : forall g, fg_append g = true -> forall cls seen v n, is_result n = true ->
  run_effect_a g seen cls v n =
  if owned_by g cls n then file_after (v n) (own_lrows g cls n) (own_rows g cls n) else v n.
Proof.
  intros g Ha cls; induction cls as [|cl r IH]; intros seen v n Hn; cbn [run_effect_a owned_by existsb]; [reflexivity|].
  rewrite Ha. cbn [orb]. rewrite (IH _ _ n Hn). fold (owned_by g r n).
  destruct n as [p i e | lv e | p d lv | p | p | z]; try discriminate.
  set (n := NResult p d lv). set (L := nth lv (coll_all_levels g cl) []).
  assert (Hv1 : coll_effect_a g true cl v n =
                if own_result_p g cl n then file_after (v n) L (side d L) else v n) by reflexivity.
  assert (Hcr : coll_rows g cl n = if own_result_p g cl n then side d L else []) by reflexivity.
  assert (Hcl : coll_lrows g cl n = if own_result_p g cl n then L else []) by reflexivity.
  rewrite Hv1. unfold own_rows, own_lrows. cbn [map concat]. fold (own_rows g r n). fold (own_lrows g r n).
  rewrite Hcr, Hcl. clear Hv1 Hcr Hcl.
  destruct (own_result_p g cl n) eqn:Eo; cbn [orb app].
  - destruct (owned_by g r n) eqn:Er.
    + unfold file_after. destruct (v n) as [o|].
      * rewrite app_assoc. reflexivity.
      * rewrite nilb_app. destruct (nilb L) eqn:En; cbn [andb].
        -- apply nilb_true in En. rewrite En, side_nil. reflexivity.
        -- reflexivity.
    + destruct (own_rows_none g r n Er) as [A B]. rewrite A, B, !app_nil_r. reflexivity.
  - reflexivity.
Qed.

(* (b), (e) file by file, for EVERY directory: each own result file holds what it held, followed by the rows of the
   collections that write to it; an absent one is created holding these rows (it stays absent if the levels behind it
   have no row at all, since nothing is appended then) *)
Theorem run_append_files : forall g s, run_oka g -> 0 < fg_c g ->
  (forall cl, In cl (fg_colls g) -> prot_key_ok g cl = true) ->
  exists s', fs_run g None s = Some s' /\
    forall n, In n (fs_result_names g) ->
      cget s' n = file_after (cget s n) (own_lrows g (fg_colls g) n) (own_rows g (fg_colls g) n).
Proof.
  intros g s [Hg [Ha Hok]] Hc Hk. pose proof (run_exec_any g s Hg Hok Hc) as H.
  replace (forallb (prot_key_ok g) (fg_colls g)) with true in H by (symmetry; apply forallb_forall; exact Hk).
  destruct H as [s' [He Hs']]. exists s'. split; [exact He|]. intros n Hn.
  rewrite Hs', (run_effect_a_append_result g Ha _ _ _ n (names_are_results g n Hn)).
  replace (owned_by g (fg_colls g) n) with true; [reflexivity|]. symmetry. apply own_name_iff. exact Hn.
Qed.

(* ---- the run without appending writes exactly [own_rows], provided no prefix other than "none" occurs twice
   (a collection with a prefix creates its result files afresh: the second one of the same prefix would truncate what
   the first one wrote) ---- *)
Fixpoint pfx_distinct (cls : list fs_coll) : bool :=
  match cls with
  | [] => true
  | cl :: r => ((fc_pfx cl =? 0)%Z || negb (existsb (fun c => (fc_pfx c =? fc_pfx cl)%Z) r)) && pfx_distinct r
  end.

Definition res_ok (g : fs_cfg) (d : bool) (lv : nat) : bool := (lv <? fs_nres g) && (negb d || fg_decoys g).

Lemma own_split : forall g cl p d lv, own_result_p g cl (NResult p d lv) = (p =? fc_pfx cl)%Z && res_ok g d lv.
Proof. intros. unfold own_result_p, res_ok. cbn [own_result_k]. rewrite andb_assoc. reflexivity. Qed.

Lemma owned_by_split : forall g cls p d lv,
  owned_by g cls (NResult p d lv) = existsb (fun c => (fc_pfx c =? p)%Z) cls && res_ok g d lv.
Proof.
  intros g cls p d lv. induction cls as [|cl r IH]; [reflexivity|]. cbn [owned_by existsb]. fold (owned_by g r (NResult p d lv)).
  rewrite IH, own_split, (Z.eqb_sym p). destruct (fc_pfx cl =? p)%Z, (existsb _ r), (res_ok g d lv); reflexivity.
Qed.

Definition onil (o : option ccontent) : ccontent := match o with Some c => c | None => [] end.

Lemma run_effect_p_clean_result : forall g, fg_append g = false -> forall cls seen v p d lv, pfx_distinct cls = true ->
  run_effect_p g seen cls v (NResult p d lv) =
  if owned_by g cls (NResult p d lv)
  then Some ((if seen && (p =? 0)%Z then onil (v (NResult p d lv)) else []) ++ own_rows g cls (NResult p d lv))
  else v (NResult p d lv).
Proof.
  intros g Ha cls; induction cls as [|cl r IH]; intros seen v p d lv Hd; cbn [run_effect_p owned_by existsb]; [reflexivity|].
  cbn [pfx_distinct] in Hd. apply andb_true_iff in Hd. destruct Hd as [Hd1 Hd2].
  rewrite Ha. cbn [orb]. rewrite (IH _ _ p d lv Hd2). fold (owned_by g r (NResult p d lv)).
  set (n := NResult p d lv). set (L := nth lv (coll_all_levels g cl) []).
  assert (Hv1 : forall ap, coll_effect_p g ap cl v n =
                if own_result_p g cl n then Some ((if ap then onil (v n) else []) ++ side d L) else v n) by reflexivity.
  assert (Hcr : coll_rows g cl n = if own_result_p g cl n then side d L else []) by reflexivity.
  rewrite Hv1. unfold own_rows. cbn [map concat]. fold (own_rows g r n). rewrite Hcr. clear Hv1 Hcr.
  assert (Eown : own_result_p g cl n = (p =? fc_pfx cl)%Z && res_ok g d lv) by apply own_split.
  assert (Eby : owned_by g r n = existsb (fun c => (fc_pfx c =? p)%Z) r && res_ok g d lv) by apply owned_by_split.
  rewrite Eown, Eby. clear Eown Eby.
  destruct (res_ok g d lv); [|rewrite !andb_false_r; reflexivity]. rewrite !andb_true_r.
  destruct (p =? fc_pfx cl)%Z eqn:Ep; cbn [orb].
  - apply Z.eqb_eq in Ep. subst p. destruct (fc_pfx cl =? 0)%Z eqn:E0; cbn [orb andb] in *.
    + rewrite ?orb_true_r, ?andb_true_r. cbn [andb onil].
      destruct (existsb (fun c => (fc_pfx c =? fc_pfx cl)%Z) r) eqn:Er.
      * rewrite app_assoc. reflexivity.
      * assert (Hr : owned_by g r n = false) by (unfold n; rewrite owned_by_split, Er; reflexivity).
        destruct (own_rows_none g r n Hr) as [A _]. rewrite A, app_nil_r. reflexivity.
    + apply negb_true_iff in Hd1. rewrite Hd1. rewrite ?orb_false_r, ?andb_false_r.
      assert (Hr : owned_by g r n = false) by (unfold n; rewrite owned_by_split, Hd1; reflexivity).
      destruct (own_rows_none g r n Hr) as [A _]. rewrite A, app_nil_r. reflexivity.
  - destruct (existsb (fun c => (fc_pfx c =? p)%Z) r) eqn:Er; [|reflexivity]. cbn [app].
    replace ((seen || (fc_pfx cl =? 0)%Z) && (p =? 0)%Z)%bool with (seen && (p =? 0)%Z)%bool; [reflexivity|].
    destruct (p =? 0)%Z eqn:E0; [|rewrite !andb_false_r; reflexivity].
    apply Z.eqb_eq in E0. subst p. rewrite Z.eqb_sym, Ep, orb_false_r. reflexivity.
Qed.

(* the configuration with appending switched off: the "clean run" the append-mode run is compared with *)
Definition fs_noappend (g : fs_cfg) : fs_cfg :=
  {| fg_ext := fg_ext g; fg_c := fg_c g; fg_dedup := fg_dedup g; fg_nlevels := fg_nlevels g; fg_decoys := fg_decoys g;
     fg_append := false; fg_glob := fg_glob g; fg_proteins := fg_proteins g; fg_colls := fg_colls g |}.

Lemma run_oka_noappend : forall g, run_oka g -> run_okp (fs_noappend g).
Proof. intros g [Hg [_ Hok]]. split; [exact Hg|]. split; [reflexivity | exact Hok]. Qed.

(* from ANY directory the run without appending leaves [own_rows] in each of its result files *)
Theorem run_clean_rows : forall g s, run_okp g -> 0 < fg_c g ->
  (forall cl, In cl (fg_colls g) -> prot_key_ok g cl = true) -> pfx_distinct (fg_colls g) = true ->
  exists c', fs_run g None s = Some c' /\
    forall n, In n (fs_result_names g) -> cget c' n = Some (own_rows g (fg_colls g) n).
Proof.
  intros g s Hok Hc Hk Hd. destruct (run_exec_keys g s Hok Hc Hk) as [c' [He Hc']]. exists c'. split; [exact He|].
  intros n Hn. rewrite Hc'. destruct Hok as [_ [Ha _]].
  pose proof (names_are_results g n Hn) as Hr. destruct n as [p i e | lv e | p d lv | p | p | z]; try discriminate.
  rewrite (run_effect_p_clean_result g Ha _ _ _ p d lv Hd).
  replace (owned_by g (fg_colls g) (NResult p d lv)) with true by (symmetry; apply own_name_iff; exact Hn).
  reflexivity.
Qed.

(* (b) the prefix statement: started with its result files present, the append-mode run leaves in each of them what was
   there, followed by exactly what the same run without appending writes (from the empty directory — or any other) *)
Theorem run_append_prefix : forall g s, run_oka g -> 0 < fg_c g ->
  (forall cl, In cl (fg_colls g) -> prot_key_ok g cl = true) -> pfx_distinct (fg_colls g) = true ->
  results_present g s ->
  exists s' c', fs_run g None s = Some s' /\ fs_run (fs_noappend g) None [] = Some c' /\
    forall n, In n (fs_result_names g) ->
      exists old new, cget s n = Some old /\ cget c' n = Some new /\ cget s' n = Some (old ++ new).
Proof.
  intros g s Hok Hc Hk Hd Hpres.
  destruct (run_append_files g s Hok Hc Hk) as [s' [He Hs']].
  destruct (run_clean_rows (fs_noappend g) [] (run_oka_noappend g Hok) Hc Hk Hd) as [c' [He' Hc']].
  exists s', c'. split; [exact He|]. split; [exact He'|]. intros n Hn.
  destruct (cget s n) as [old|] eqn:Eold; [|exfalso; apply (Hpres n Hn); exact Eold].
  exists old, (own_rows g (fg_colls g) n). split; [reflexivity|]. split; [apply (Hc' n Hn)|].
  rewrite (Hs' n Hn), Eold. reflexivity.
Qed.

(* (e) result files present but empty (header only): the results are those of the run without appending *)
Theorem run_append_from_empty_files : forall g s, run_oka g -> 0 < fg_c g ->
  (forall cl, In cl (fg_colls g) -> prot_key_ok g cl = true) -> pfx_distinct (fg_colls g) = true ->
  (forall n, In n (fs_result_names g) -> cget s n = Some []) ->
  exists s' c', fs_run g None s = Some s' /\ fs_run (fs_noappend g) None [] = Some c' /\
    forall n, In n (fs_result_names g) -> cget s' n = cget c' n.
Proof.
  intros g s Hok Hc Hk Hd Hempty.
  destruct (run_append_prefix g s Hok Hc Hk Hd) as [s' [c' [He [He' H]]]].
  { intros n Hn. rewrite (Hempty n Hn). discriminate. }
  exists s', c'. split; [exact He|]. split; [exact He'|]. intros n Hn.
  destruct (H n Hn) as [old [new [Eo [En Es]]]]. rewrite (Hempty n Hn) in Eo. inversion Eo; subst old.
  rewrite Es, En. reflexivity.
Qed.

(* the hypothesis on the prefixes cannot be dropped: two collections with the same prefix 3 — appending keeps the rows of
   both, the run without appending only those of the second *)
Definition ap_row (id spec : Z) (t : bool) (sc : Z) : cf_row :=
  {| cf_id := id; cf_spec := spec; cf_keys := [id]; cf_target := t; cf_score := sc |}.
Definition ap_dup_cfg : fs_cfg :=
  {| fg_ext := false; fg_c := 10; fg_dedup := true; fg_nlevels := 1; fg_decoys := false; fg_append := true;
     fg_glob := false; fg_proteins := false;
     fg_colls := [ {| fc_pfx := 3; fc_rows := [ap_row 1 1 true 5]; fc_prot := None |};
                   {| fc_pfx := 3; fc_rows := [ap_row 2 2 true 3]; fc_prot := None |} ] |}.

Theorem run_append_duplicate_prefix :
  exists g s n, run_oka g /\ pfx_distinct (fg_colls g) = false /\ In n (fs_result_names g) /\ cget s n = Some [] /\
    match fs_run g None s, fs_run (fs_noappend g) None [] with
    | Some s', Some c' => cget s' n <> cget c' n
    | _, _ => False
    end.
Proof.
  exists ap_dup_cfg, [(NResult 3 false 0, [])], (NResult 3 false 0).
  split; [|split; [reflexivity|]; split; [left; reflexivity|]; split; [reflexivity|]].
  - split; [reflexivity|]. split; [reflexivity|]. intros cl _. apply prot_ok_noprot. reflexivity.
  - vm_compute. intro H. discriminate H.
Qed.
