(* Proofs about the ensemble branch of Model/Brew.v (R2.22): _predict_with_ensemble and what
   brew(ensemble=True) returns.  C05 / C08: chunk size and delivery order of the fitted models;
   C02 / C04: every PSM is scored by k-1 models that were trained on it (the held-out guarantee
   of the per-fold mode is false here); C07: the fall-back decision is the same function. *)
From Coq Require Import Lia Permutation Sorted.
From Mokaverif Require Import Model.Base Model.Tdc Model.Calibrate Model.PinCols Model.Orders Model.BrewDecision Model.Brew.
From Mokaverif Require Import Proofs.PinColsP Proofs.OrdersP Proofs.BrewDecisionP Proofs.BrewP.
Open Scope nat_scope.

(* ====================== sums ====================== *)
Definition ens_zsum (l : list Z) : Z := fold_right Z.add 0%Z l.

Lemma fold_left_add_zsum l a : fold_left Z.add l a = (a + ens_zsum l)%Z.
Proof.
  revert a. induction l as [|x l IH]; intros a; simpl; [lia|]. rewrite IH. lia.
Qed.

Lemma zsum_app a b : ens_zsum (a ++ b) = (ens_zsum a + ens_zsum b)%Z.
Proof. induction a as [|x a IH]; simpl; [reflexivity|]. rewrite IH. lia. Qed.

Lemma zsum_perm a b : Permutation a b -> ens_zsum a = ens_zsum b.
Proof.
  intros HP. induction HP as [|x a b HP IH|x y a|a b c H1 IH1 H2 IH2]; simpl; try lia.
Qed.

(* the column sum at position i is the sum of the values the models give to row i *)
Lemma sum_at_zsum cols i : bw_ens_sum_at cols i = ens_zsum (map (fun col => nth i col 0%Z) cols).
Proof.
  destruct cols as [|c0 rest]; [reflexivity|]. cbn [bw_ens_sum_at map ens_zsum fold_right].
  apply fold_left_add_zsum.
Qed.

Lemma sum_at_perm cols cols' i : Permutation cols cols' -> bw_ens_sum_at cols i = bw_ens_sum_at cols' i.
Proof. intros HP. rewrite !sum_at_zsum. apply zsum_perm. apply Permutation_map. exact HP. Qed.

(* ====================== the prediction chunks do not matter ====================== *)
Lemma map_nth_seq_id (l : list Z) : map (fun r => nth r l 0%Z) (seq 0 (length l)) = l.
Proof.
  induction l as [|x l IH]; [reflexivity|]. cbn [length seq map nth]. f_equal.
  rewrite <- seq_shift, map_map. exact IH.
Qed.

Lemma ens_hstack_unchunk c n raw_m : 1 <= c ->
  bw_ens_hstack c n raw_m = map (fun r => nth r raw_m 0%Z) (seq 0 n).
Proof.
  intros Hc. unfold bw_ens_hstack, bw_chunks. rewrite flat_map_concat_map, <- concat_map.
  rewrite chunks_concat by exact Hc. reflexivity.
Qed.

Lemma ens_hstack_id c raw_m : 1 <= c -> bw_ens_hstack c (length raw_m) raw_m = raw_m.
Proof. intros Hc. rewrite ens_hstack_unchunk by exact Hc. apply map_nth_seq_id. Qed.

Lemma ens_chunks_nil c n : 1 <= c -> (bw_chunks c (seq 0 n) = [] <-> n = 0).
Proof.
  intros Hc. split.
  - intros E. pose proof (chunks_concat c (seq 0 n) Hc) as H. unfold bw_chunks in E. rewrite E in H.
    simpl in H. destruct n; [reflexivity|discriminate].
  - intros ->. reflexivity.
Qed.

(* bw_ens_sums with the chunking removed *)
Definition ens_sums_free (n : nat) (raws : list (list Z)) : result (list Z) :=
  match raws with
  | [] => Err EType
  | _ => if Nat.eqb n 0 then Err EValue
         else if forallb (fun rm => Nat.eqb (length rm) n) raws
              then Ok (map (bw_ens_sum_at raws) (seq 0 n))
              else Err EValue
  end.

Lemma ens_sums_unchunk c n raws : 1 <= c -> bw_ens_sums c n raws = ens_sums_free n raws.
Proof.
  intros Hc. unfold bw_ens_sums, ens_sums_free.
  destruct (Nat.eqb_spec c 0) as [E|_]; [lia|].
  destruct raws as [|r0 rest]; [reflexivity|].
  destruct (bw_chunks c (seq 0 n)) as [|ch chs] eqn:Ech.
  - apply (ens_chunks_nil c n Hc) in Ech. subst n. reflexivity.
  - destruct (Nat.eqb_spec n 0) as [E0|N0].
    + apply (ens_chunks_nil c n Hc) in E0. rewrite E0 in Ech. discriminate.
    + destruct (forallb (fun rm => Nat.eqb (length rm) n) (r0 :: rest)) eqn:Ef; [|reflexivity].
      f_equal. rewrite forallb_forall in Ef.
      assert (map (bw_ens_hstack c n) (r0 :: rest) = r0 :: rest) as ->; [|reflexivity].
      rewrite <- (map_id (r0 :: rest)) at 2. apply map_ext_in. intros rm Hrm.
      specialize (Ef rm Hrm). apply Nat.eqb_eq in Ef. subst n. apply ens_hstack_id. exact Hc.
Qed.

Definition ens_predict_free (n : nat) (raws : list (list Z)) : result (list Q) :=
  match ens_sums_free n raws with
  | Err e => Err e
  | Ok sums => Ok (map (bw_ens_mean (length raws)) sums)
  end.

Lemma ens_predict_unchunk c n raws : 1 <= c -> bw_predict_ens c n raws = ens_predict_free n raws.
Proof. intros Hc. unfold bw_predict_ens, ens_predict_free. rewrite ens_sums_unchunk by exact Hc. reflexivity. Qed.

Theorem ens_chunk_independent c c' n raws : 1 <= c -> 1 <= c' ->
  bw_predict_ens c n raws = bw_predict_ens c' n raws.
Proof. intros H H'. rewrite !ens_predict_unchunk by assumption. reflexivity. Qed.

Theorem brew_ens_chunk_independent c c' k keys fitted : 1 <= c -> 1 <= c' ->
  bw_brew_scores_ens c k keys fitted = bw_brew_scores_ens c' k keys fitted.
Proof.
  intros H H'. unfold bw_brew_scores_ens. destruct (bw_split keys k); [|reflexivity].
  apply ens_chunk_independent; assumption.
Qed.

(* the score of row r: the sum over the models of their raw decision values, divided by their number *)
Theorem ens_predict_spec c n raws out : 1 <= c -> bw_predict_ens c n raws = Ok out ->
  raws <> [] /\ 0 < n /\ Forall (fun rm => length rm = n) raws /\ length out = n /\
  forall r, r < n ->
    nth r out 0%Q = bw_ens_mean (length raws) (ens_zsum (map (fun rm => nth r rm 0%Z) raws)).
Proof.
  intros Hc. rewrite ens_predict_unchunk by exact Hc. unfold ens_predict_free, ens_sums_free.
  destruct raws as [|r0 rest]; [discriminate|].
  destruct (Nat.eqb_spec n 0) as [E0|N0]; [discriminate|].
  destruct (forallb (fun rm => Nat.eqb (length rm) n) (r0 :: rest)) eqn:Ef; [|discriminate].
  intros H. injection H as <-.
  split; [discriminate|]. split; [lia|]. split.
  - apply Forall_forall. intros rm Hrm. rewrite forallb_forall in Ef. apply Nat.eqb_eq. apply Ef. exact Hrm.
  - split; [rewrite !map_length, seq_length; reflexivity|].
    intros r Hr. rewrite map_map.
    rewrite (nth_indep _ 0%Q ((fun i => bw_ens_mean (length (r0 :: rest)) (bw_ens_sum_at (r0 :: rest) i)) 0))
      by (rewrite map_length, seq_length; exact Hr).
    rewrite (map_nth (fun i => bw_ens_mean (length (r0 :: rest)) (bw_ens_sum_at (r0 :: rest) i))).
    rewrite seq_nth by exact Hr. cbn [Nat.add]. rewrite sum_at_zsum. reflexivity.
Qed.

(* ====================== the order of the models ====================== *)
Lemma forallb_perm {A} (p : A -> bool) l l' : Permutation l l' -> forallb p l = forallb p l'.
Proof.
  intros HP. induction HP as [|x a b HP IH|x y a|a b c H1 IH1 H2 IH2]; simpl.
  - reflexivity.
  - rewrite IH. reflexivity.
  - destruct (p x), (p y); reflexivity.
  - congruence.
Qed.

(* in exact arithmetic the models may be averaged in any order *)
Theorem ens_any_order_exact c n raws raws' : Permutation raws raws' ->
  bw_predict_ens c n raws = bw_predict_ens c n raws'.
Proof.
  intros HP. unfold bw_predict_ens, bw_ens_sums.
  rewrite (Permutation_length HP).
  destruct (Nat.eqb c 0); [reflexivity|].
  destruct raws as [|r0 rest].
  - apply Permutation_nil in HP. subst raws'. reflexivity.
  - destruct raws' as [|r0' rest']; [apply Permutation_sym, Permutation_nil in HP; discriminate|].
    destruct (bw_chunks c (seq 0 n)) as [|ch chs]; [reflexivity|].
    rewrite (forallb_perm _ _ _ HP).
    destruct (forallb _ (r0' :: rest')); [|reflexivity].
    f_equal. f_equal. apply map_ext. intros i. apply sum_at_perm. apply Permutation_map. exact HP.
Qed.

(* brew sorts the fitted models by fold before averaging: whatever order the worker threads (or the
   caller who feeds trained models back) delivered them in, the average is taken over the SAME list,
   the models in ascending fold order *)
Theorem brew_ens_in_fold_order c k keys fitted :
  exists sorted, sorted = or_sort_models fitted /\ Permutation sorted fitted /\
    StronglySorted (fun a b => fst a <= fst b) sorted /\
    bw_brew_scores_ens c k keys fitted =
      match bw_split keys k with Err e => Err e | Ok _ => bw_predict_ens c (length keys) (map snd sorted) end.
Proof.
  exists (or_sort_models fitted). destruct (sort_models_sorted fitted) as [HP HS].
  split; [reflexivity|]. split; [exact HP|]. split; [exact HS|]. reflexivity.
Qed.

Theorem brew_ens_delivery_order_free c k keys fitted fitted' :
  Permutation fitted fitted' -> NoDup (map fst fitted) ->
  bw_brew_scores_ens c k keys fitted = bw_brew_scores_ens c k keys fitted'.
Proof.
  intros HP Hnd. unfold bw_brew_scores_ens. rewrite (sort_models_order_free fitted fitted' HP Hnd). reflexivity.
Qed.

(* without the sort the result would still be the same in exact arithmetic ... *)
Theorem brew_ens_unsorted_exact c k keys fitted :
  bw_brew_scores_ens c k keys fitted =
    match bw_split keys k with Err e => Err e | Ok _ => bw_predict_ens c (length keys) (map snd fitted) end.
Proof.
  unfold bw_brew_scores_ens. destruct (bw_split keys k); [|reflexivity].
  apply ens_any_order_exact. apply Permutation_map. apply sort_models_sorted.
Qed.

(* ... but not in binary64.  Addition of two integer-valued doubles: the exact integer sum rounded to
   53 significant bits, ties to even (no overflow in range). *)
Definition fl53 (z : Z) : Z :=
  let a := Z.abs z in
  let e := (Z.log2 a - 52)%Z in
  if (e <=? 0)%Z then z else
  let u := (2 ^ e)%Z in
  let q := (a / u)%Z in
  let r := (a mod u)%Z in
  let q' := if (2 * r <? u)%Z then q else if (u <? 2 * r)%Z then (q + 1)%Z else if Z.even q then q else (q + 1)%Z in
  (Z.sgn z * (q' * u))%Z.

(* np.add.reduce in float64 over integer-valued doubles, in list order *)
Definition float_sum (l : list Z) (a : Z) : Z := fold_left (fun acc x => fl53 (acc + x)) l a.

Lemma fl53_exact z : (Z.abs z < 2 ^ 53)%Z -> fl53 z = z.
Proof.
  intros H. unfold fl53.
  destruct (Z.eq_dec (Z.abs z) 0) as [E0|N0].
  - rewrite E0. reflexivity.
  - assert (Z.log2 (Z.abs z) < 53)%Z as Hl by (apply Z.log2_lt_pow2; lia).
    destruct (Z.leb_spec (Z.log2 (Z.abs z) - 52) 0) as [_|Hgt]; [reflexivity|lia].
Qed.

Definition ens_abs_sum (l : list Z) : Z := fold_right (fun x s => (Z.abs x + s)%Z) 0%Z l.

(* the contract of the harness estimators: while the absolute values add up to less than 2^53 the float64
   accumulation is exact, in whatever order — the only rounding of np.mean is the final division *)
Theorem ens_float_sum_exact l a : (Z.abs a + ens_abs_sum l < 2 ^ 53)%Z -> float_sum l a = fold_left Z.add l a.
Proof.
  unfold float_sum. revert a. induction l as [|x l IH]; intros a H; [reflexivity|].
  cbn [fold_left]. cbn [ens_abs_sum fold_right] in H. fold (ens_abs_sum l) in H.
  assert (0 <= ens_abs_sum l)%Z as Hpos.
  { clear. induction l as [|y l IHl]; simpl; [lia|]. fold (ens_abs_sum l). lia. }
  rewrite fl53_exact by lia. apply IH. lia.
Qed.

(* beyond the contract the order matters: 2^53 + 1 + 1 accumulated from the left stays 2^53, from the
   right it is 2^53 + 2; so an implementation that averages in delivery order is NOT the function
   of the theorems above, and the history check (C08) compares scores bit for bit *)
Example ens_float_order_matters :
  float_sum [1; 1]%Z (2 ^ 53)%Z = (2 ^ 53)%Z /\
  float_sum [1; 2 ^ 53]%Z 1%Z = (2 ^ 53 + 2)%Z /\
  Permutation [2 ^ 53; 1; 1]%Z [1; 1; 2 ^ 53]%Z.
Proof.
  split; [vm_compute; reflexivity|]. split; [vm_compute; reflexivity|].
  apply (Permutation_cons_app [1; 1]%Z [] (2 ^ 53)%Z). rewrite app_nil_r. reflexivity.
Qed.

(* ====================== C02 / C04: every PSM is scored by models that were trained on it ====================== *)
Lemma train_sets_nth folds n f : f < length folds ->
  nth f (bw_train_sets folds n) [] = bw_complement n (nth f folds []).
Proof.
  intros H. unfold bw_train_sets.
  rewrite (nth_indep _ [] (bw_complement n [])) by (rewrite map_length; exact H). apply map_nth.
Qed.

(* the models of the OTHER folds were fitted on the PSM and on every PSM of its spectrum (no training cap:
   the training rows of fold f are the whole complement of fold f) *)
Theorem ens_trained_on keys k folds r : bw_split keys k = Ok folds -> r < length keys ->
  exists g, g < k /\ fold_index folds r g /\ nth r (bw_fold_of folds (length keys)) 0 = g /\
    forall f, f < k -> f <> g ->
      forall r', r' < length keys -> nth r' keys 0%Z = nth r keys 0%Z ->
        In r' (nth f (bw_train_sets folds (length keys)) []).
Proof.
  intros Hs Hr. destruct (brew_fold_of_ok keys k folds Hs) as [_ Hfo].
  destruct (Hfo r Hr) as (g & Hg & Hrg & Eg). exists g. split; [exact Hg|]. split; [exact Hrg|]. split; [exact Eg|].
  intros f Hf Hne r' Hr' Ekey.
  destruct (split_partition keys k folds Hs) as (Hk & _ & Hsame).
  rewrite train_sets_nth by lia. apply complement_spec. split; [exact Hr'|].
  intros Hin. apply Hne. apply (Hsame r' r f g); [exact Hin|exact Hrg|exact Ekey].
Qed.

Lemma filter_neq_seq g k : forall s,
  length (filter (fun f => negb (Nat.eqb f g)) (seq s k)) = if (s <=? g) && (g <? s + k) then k - 1 else k.
Proof.
  induction k as [|k IH]; intros s; cbn [seq filter length].
  - destruct (s <=? g); destruct (Nat.ltb_spec g (s + 0)); simpl; try reflexivity; lia.
  - destruct (Nat.eqb_spec s g) as [E|N]; cbn [negb length].
    + rewrite IH. subst s.
      destruct (Nat.leb_spec (S g) g); [lia|]. cbn [andb].
      destruct (Nat.leb_spec g g); [|lia]. destruct (Nat.ltb_spec g (g + S k)); [|lia]. simpl. lia.
    + rewrite IH.
      destruct (Nat.leb_spec (S s) g); destruct (Nat.leb_spec s g); try lia;
        destruct (Nat.ltb_spec g (S s + k)); destruct (Nat.ltb_spec g (s + S k)); cbn [andb]; try lia.
Qed.

Lemma others_count g k : g < k -> length (filter (fun f => negb (Nat.eqb f g)) (seq 0 k)) = k - 1.
Proof.
  intros H. rewrite filter_neq_seq. destruct (Nat.leb_spec 0 g); [|lia].
  destruct (Nat.ltb_spec g (0 + k)); [reflexivity|lia].
Qed.

(* the ensemble score of a row is (value of model f + values of the other models) / number of models,
   for EVERY delivered model f: each of them enters with weight 1 / k *)
Theorem ens_uses_every_model c k keys fitted out f raw_f r :
  1 <= c -> bw_brew_scores_ens c k keys fitted = Ok out -> In (f, raw_f) fitted -> r < length keys ->
  exists others, Permutation (raw_f :: others) (map snd fitted) /\
    (nth r out 0 == (inject_Z (nth r raw_f 0%Z) + inject_Z (ens_zsum (map (fun rm => nth r rm 0%Z) others)))
                    / inject_Z (Z.of_nat (length fitted)))%Q.
Proof.
  intros Hc H Hin Hr. rewrite brew_ens_unsorted_exact in H.
  destruct (bw_split keys k) as [folds|e]; [|discriminate].
  destruct (ens_predict_spec _ _ _ _ Hc H) as (_ & _ & _ & _ & Hn). rewrite (Hn r Hr). clear Hn H.
  assert (In raw_f (map snd fitted)) as Hin' by (apply in_map_iff; exists (f, raw_f); split; [reflexivity|exact Hin]).
  destruct (in_split _ _ Hin') as (l1 & l2 & E). exists (l1 ++ l2).
  split; [rewrite E; apply Permutation_middle|].
  rewrite map_length, E. rewrite !map_app. cbn [map]. rewrite !zsum_app. cbn [ens_zsum fold_right].
  unfold bw_ens_mean. rewrite <- inject_Z_plus.
  replace (ens_zsum (map (fun rm => nth r rm 0%Z) l1) + (nth r raw_f 0 + fold_right Z.add 0 (map (fun rm => nth r rm 0%Z) l2)))%Z
    with (nth r raw_f 0 + (ens_zsum (map (fun rm => nth r rm 0%Z) l1) + ens_zsum (map (fun rm => nth r rm 0%Z) l2)))%Z
    by (unfold ens_zsum; lia).
  reflexivity.
Qed.

(* ... so changing what one model says about the row changes the row's score by exactly that much / k *)
Theorem ens_score_depends c k keys pre post f raw_f raw_f' out out' r :
  1 <= c -> r < length keys ->
  bw_brew_scores_ens c k keys (pre ++ (f, raw_f) :: post) = Ok out ->
  bw_brew_scores_ens c k keys (pre ++ (f, raw_f') :: post) = Ok out' ->
  (nth r out' 0 - nth r out 0 ==
   (inject_Z (nth r raw_f' 0%Z) - inject_Z (nth r raw_f 0%Z)) / inject_Z (Z.of_nat (length pre + S (length post))))%Q
  /\ (nth r raw_f' 0%Z <> nth r raw_f 0%Z -> ~ (nth r out' 0 == nth r out 0)%Q).
Proof.
  intros Hc Hr H H'. rewrite brew_ens_unsorted_exact in H, H'.
  destruct (bw_split keys k) as [folds|e]; [|discriminate].
  destruct (ens_predict_spec _ _ _ _ Hc H) as (_ & _ & _ & _ & Hn).
  destruct (ens_predict_spec _ _ _ _ Hc H') as (_ & _ & _ & _ & Hn').
  rewrite (Hn r Hr), (Hn' r Hr). clear Hn Hn' H H'.
  rewrite !map_length, !app_length. cbn [length].
  rewrite !map_app. cbn [map snd]. rewrite ?map_app. cbn [map]. rewrite !zsum_app. cbn [ens_zsum fold_right].
  fold (ens_zsum (map (fun rm => nth r rm 0%Z) (map snd post))).
  fold (ens_zsum (map (fun rm => nth r rm 0%Z) (map snd pre))).
  set (a := ens_zsum (map (fun rm => nth r rm 0%Z) (map snd pre))).
  set (b := ens_zsum (map (fun rm => nth r rm 0%Z) (map snd post))).
  set (K := inject_Z (Z.of_nat (length pre + S (length post)))).
  unfold bw_ens_mean. fold K. rewrite !inject_Z_plus.
  assert ((inject_Z a + (inject_Z (nth r raw_f' 0%Z) + inject_Z b)) / K - (inject_Z a + (inject_Z (nth r raw_f 0%Z) + inject_Z b)) / K
          == (inject_Z (nth r raw_f' 0%Z) - inject_Z (nth r raw_f 0%Z)) / K)%Q as Hd by (unfold Qdiv; ring).
  split; [exact Hd|].
  intros Hne Heq.
  assert (0 < K)%Q as HK.
  { unfold K. rewrite <- (Zlt_Qlt 0). lia. }
  assert ((inject_Z (nth r raw_f' 0%Z) - inject_Z (nth r raw_f 0%Z)) / K == 0)%Q as Hz.
  { rewrite <- Hd. rewrite Heq. ring. }
  unfold Qdiv in Hz. apply Qmult_integral in Hz. destruct Hz as [Hz|Hz].
  - apply Hne. assert (inject_Z (nth r raw_f' 0%Z) == inject_Z (nth r raw_f 0%Z))%Q as Hq.
    { rewrite <- (Qplus_0_r (inject_Z (nth r raw_f 0%Z))). rewrite <- Hz. ring. }
    unfold Qeq, inject_Z in Hq. cbn [Qnum Qden] in Hq. lia.
  - apply Qinv_lt_0_compat in HK. rewrite Hz in HK. apply Qlt_irrefl in HK. exact HK.
Qed.

(* the held-out guarantee as a predicate on a scoring scheme: uses r f = the score of row r is computed
   from the output of model f; train = the training rows of every model *)
Definition heldout_ok (n k : nat) (uses : nat -> nat -> bool) (train : list (list nat)) : Prop :=
  forall r f, r < n -> f < k -> uses r f = true -> ~ In r (nth f train []).

(* per-fold mode (C02_routing: row r is scored by model fold_of r alone): the guarantee holds *)
Theorem plain_heldout_ok keys k folds : bw_split keys k = Ok folds ->
  heldout_ok (length keys) k (fun r f => Nat.eqb (nth r (bw_fold_of folds (length keys)) 0) f)
             (bw_train_sets folds (length keys)).
Proof.
  intros Hs r f Hr Hf Hu Hin. apply Nat.eqb_eq in Hu.
  destruct (brew_fold_of_ok keys k folds Hs) as [_ Hfo]. destruct (Hfo r Hr) as (g & Hg & Hrg & Eg).
  assert (g = f) as -> by congruence.
  destruct (split_partition keys k folds Hs) as (Hk & _ & _).
  rewrite train_sets_nth in Hin by lia. apply complement_spec in Hin. destruct Hin as [_ Hn]. apply Hn. exact Hrg.
Qed.

(* ensemble mode (ens_uses_every_model: row r is scored from the output of every model): it is FALSE
   for every dataset with at least one PSM and k >= 2 folds *)
Theorem ens_heldout_refuted keys k folds : 2 <= k -> 1 <= length keys -> bw_split keys k = Ok folds ->
  ~ heldout_ok (length keys) k (fun _ _ => true) (bw_train_sets folds (length keys)).
Proof.
  intros Hk Hn Hs Hok.
  destruct (ens_trained_on keys k folds 0 Hs ltac:(lia)) as (g & Hg & _ & _ & Htr).
  set (f := if Nat.eqb g 0 then 1 else 0).
  assert (f < k /\ f <> g) as [Hf Hne] by (unfold f; destruct (Nat.eqb_spec g 0); lia).
  apply (Hok 0 f ltac:(lia) Hf eq_refl). apply (Htr f Hf Hne 0 ltac:(lia) eq_refl).
Qed.

(* the finding, in one statement: with k >= 2 folds, every PSM r has a fold g, and each of the k - 1
   models f <> g (i) was fitted on r and on every PSM of r's spectrum (no training cap) and
   (ii) enters r's final score with weight 1 / k, whatever order the models were delivered in *)
Theorem ensemble_leak keys k folds r : 2 <= k -> bw_split keys k = Ok folds -> r < length keys ->
  exists g, g < k /\ fold_index folds r g /\
    length (filter (fun f => negb (Nat.eqb f g)) (seq 0 k)) = k - 1 /\
    forall f, f < k -> f <> g ->
      (forall r', r' < length keys -> nth r' keys 0%Z = nth r keys 0%Z ->
         In r' (nth f (bw_train_sets folds (length keys)) [])) /\
      (forall c fitted out raw_f, 1 <= c -> bw_brew_scores_ens c k keys fitted = Ok out ->
         In (S f, raw_f) fitted ->
         exists others, Permutation (raw_f :: others) (map snd fitted) /\
           (nth r out 0 == (inject_Z (nth r raw_f 0%Z) + inject_Z (ens_zsum (map (fun rm => nth r rm 0%Z) others)))
                           / inject_Z (Z.of_nat (length fitted)))%Q).
Proof.
  intros Hk Hs Hr. destruct (ens_trained_on keys k folds r Hs Hr) as (g & Hg & Hrg & _ & Htr).
  exists g. split; [exact Hg|]. split; [exact Hrg|]. split; [apply others_count; exact Hg|].
  intros f Hf Hne. split; [apply Htr; assumption|].
  intros c fitted out raw_f Hc Ho Hin. apply (ens_uses_every_model c k keys fitted out (S f) raw_f r Hc Ho Hin Hr).
Qed.

(* ====================== C07: the comparison with the best feature ====================== *)
(* the mean ranks exactly as the sum: counting accepted targets on the integer sums is counting them on
   the averaged scores *)
Lemma ens_mean_order k a b : 1 <= k -> ((bw_ens_mean k a < bw_ens_mean k b)%Q <-> (a < b)%Z).
Proof.
  intros Hk. unfold bw_ens_mean, Qdiv.
  assert (0 < / inject_Z (Z.of_nat k))%Q as Hpos.
  { apply Qinv_lt_0_compat. rewrite <- (Zlt_Qlt 0). lia. }
  rewrite (Qmult_lt_r _ _ _ Hpos). rewrite <- Zlt_Qlt. reflexivity.
Qed.

Lemma ens_mean_eq k a b : 1 <= k -> ((bw_ens_mean k a == bw_ens_mean k b)%Q <-> a = b).
Proof.
  intros Hk. split; [|intros ->; reflexivity]. intros H.
  destruct (Z.lt_trichotomy a b) as [L|[E|L]]; [|exact E|];
    apply (ens_mean_order k _ _ Hk) in L; rewrite H in L; apply Qlt_irrefl in L; contradiction.
Qed.

Lemma sorted_map_fst {A} (l : list (nat * A)) :
  StronglySorted (fun a b => fst a <= fst b) l -> StronglySorted le (map fst l).
Proof.
  intros H. induction H as [|x l H IH Hf]; simpl; constructor; [exact IH|].
  apply Forall_forall. intros y Hy. apply in_map_iff in Hy. destruct Hy as (z & <- & Hz).
  rewrite Forall_forall in Hf. apply Hf. exact Hz.
Qed.

(* brew returns the models in ascending fold order *)
Lemma sort_fitted_folds fitted :
  Permutation (bw_sort_fitted fitted) fitted /\ StronglySorted le (map bf_fold (bw_sort_fitted fitted)).
Proof.
  unfold bw_sort_fitted. set (tagged := map (fun m => (bf_fold m, m)) fitted).
  destruct (sort_models_sorted tagged) as [HP HS]. split.
  - rewrite (Permutation_map snd HP). unfold tagged. rewrite map_map. cbn [snd]. rewrite map_id. reflexivity.
  - rewrite map_map.
    assert (map (fun p => bf_fold (snd p)) (or_sort_models tagged) = map fst (or_sort_models tagged)) as ->.
    { apply map_ext_in. intros p Hp. apply (Permutation_in _ HP) in Hp. unfold tagged in Hp.
      apply in_map_iff in Hp. destruct Hp as (m & <- & _). reflexivity. }
    apply sorted_map_fst. exact HS.
Qed.

(* what brew(ensemble=True) hands back: the models in fold order; the number pt of targets the averaged
   scores accept; and the decision bd_decide (the function of the per-fold mode, C07_safety_net) applied to
   the (feat_pass, override) of the models in fold order and pt — either the averaged scores with descs all
   True, or the best feature of the chosen model with its direction, for every collection *)
Theorem brew_ens_decision c k thr fitted files folds scores descs :
  bw_brew_ens c k thr fitted files = Ok (folds, (scores, descs)) ->
  let models := bw_sort_fitted fitted in
  let ms := map (fun m => (bf_feat_pass m, bf_override m)) models in
  folds = map bf_fold models /\ StronglySorted le folds /\ Permutation models fitted /\
  exists sums pt,
    bw_brew_ens_sums c k models files = Ok sums /\
    bd_pred_total thr (combine sums (map bc_targets files)) = Ok pt /\
    match bd_decide ms pt with
    | None =>
        descs = map (fun _ => true) files /\
        scores = map (map (bw_ens_mean (if forallb bf_trained models then length models else 1))) sums
    | Some i =>
        exists m, nth_error models i = Some m /\
          descs = map (fun _ => bf_desc m) files /\
          bw_all_ok (map (fun fl => match nth_error (bc_feats fl) (bf_best m) with
                                    | Some col => Ok (map inject_Z col) | None => Err EKey end) files) = Ok scores
    end.
Proof.
  intros H models ms. unfold bw_brew_ens in H. fold models in H.
  destruct (bw_brew_ens_sums c k models files) as [sums|e] eqn:Es; [|discriminate].
  unfold bw_brew_ens_choice in H. fold ms in H.
  destruct (bd_pred_total thr (combine sums (map bc_targets files))) as [pt|e] eqn:Ep; [|discriminate].
  destruct (sort_fitted_folds fitted) as [HP HS]. fold models in HP, HS.
  destruct (bd_decide ms pt) as [i|] eqn:Ed.
  - destruct (nth_error models i) as [m|] eqn:Em; [|discriminate].
    destruct (bw_all_ok _) as [cols|e] eqn:Ec; [|discriminate].
    injection H as <- <- <-. split; [reflexivity|]. split; [exact HS|]. split; [exact HP|].
    exists sums, pt. split; [first [exact Es|reflexivity]|]. split; [exact Ep|]. rewrite Ed.
    exists m. split; [exact Em|]. split; [reflexivity|exact Ec].
  - injection H as <- <- <-. split; [reflexivity|]. split; [exact HS|]. split; [exact HP|].
    exists sums, pt. split; [first [exact Es|reflexivity]|]. split; [exact Ep|]. rewrite Ed. split; reflexivity.
Qed.

(* the index bd_decide returns always names a model: the EIndex branch of bw_brew_ens is dead *)
Lemma brew_ens_choice_in_range ms pt i : bd_decide ms pt = Some i -> i < length ms.
Proof. intros H. pose proof (decide_spec ms pt) as S. rewrite H in S. tauto. Qed.
