(* Proofs about Model/Chunks.v (C13, C05): chunking, index ranges, column selection. *)
From Coq Require Import Lia.
From Mokaverif Require Import Model.Base Model.Chunks.
Open Scope nat_scope.

(* ---------- small list facts ---------- *)
Lemma ch_skipn_skipn {A} (a b : nat) (l : list A) : skipn a (skipn b l) = skipn (b + a) l.
Proof.
  revert l; induction b as [|b IH]; intros l; simpl; [reflexivity|].
  destruct l as [|x l]; [destruct a; reflexivity | apply IH].
Qed.

Lemma ch_firstn_nil_iff {A} (c : nat) (l : list A) : 0 < c -> l <> [] -> firstn c l <> [].
Proof. intros Hc Hl. destruct c; [lia|]. destruct l; [congruence|]. simpl. discriminate. Qed.

Lemma nth_error_ext_helper {A} (l1 l2 : list A) n :
  length l1 = n -> length l2 = n -> (forall j, j < n -> nth_error l1 j = nth_error l2 j) -> l1 = l2.
Proof.
  revert l2 n; induction l1 as [|x l1 IH]; intros l2 n H1 H2 H.
  - destruct l2; [reflexivity | simpl in *; lia].
  - destruct l2 as [|y l2]; [simpl in *; lia|]. destruct n as [|n]; [discriminate|].
    assert (E := H 0 ltac:(lia)). simpl in E. inversion E; subst. f_equal.
    apply (IH l2 n); [simpl in H1; lia | simpl in H2; lia|].
    intros j Hj. apply (H (S j)). lia.
Qed.

(* ---------- chunking ---------- *)
Section ChunksP.
Context {A : Type}.
Implicit Types l : list A.

(* the loop never needs more iterations than there are rows (for 1 <= c) *)
Lemma ch_chunks_at_fuel2 c : 0 < c -> forall f1 f2 pos l,
  length l <= f1 -> length l <= f2 -> ch_chunks_at f1 c pos l = ch_chunks_at f2 c pos l.
Proof.
  intros Hc f1. induction f1 as [|f1 IH]; intros f2 pos l H1 H2.
  - destruct l; [|cbn [length] in H1; lia]. destruct f2; reflexivity.
  - destruct l as [|x l]; [destruct f2; reflexivity|].
    destruct f2 as [|f2]; [cbn [length] in H2; lia|].
    cbn [ch_chunks_at]. f_equal.
    apply IH; rewrite skipn_length; cbn [length] in *; lia.
Qed.

Lemma ch_chunks_at_fuel c : 0 < c -> forall fuel pos l,
  length l <= fuel -> ch_chunks_at fuel c pos l = ch_chunks_at (length l) c pos l.
Proof. intros Hc fuel pos l H. apply ch_chunks_at_fuel2; [exact Hc | exact H | lia]. Qed.

Lemma ch_chunks_at_concat c : 0 < c -> forall fuel pos l,
  length l <= fuel -> concat (map snd (ch_chunks_at fuel c pos l)) = l.
Proof.
  intros Hc fuel. induction fuel as [|f IH]; intros pos l Hl.
  - destruct l; [reflexivity | simpl in Hl; lia].
  - destruct l as [|x l]; [reflexivity|].
    cbn [ch_chunks_at map concat snd].
    rewrite IH; [apply firstn_skipn|]. rewrite skipn_length. cbn [length] in *; lia.
Qed.

(* closed form: the i-th chunk is l[i*c : i*c+c] and starts at pos + i*c *)
Lemma ch_chunks_at_nth c : 0 < c -> forall fuel pos l i,
  length l <= fuel ->
  nth_error (ch_chunks_at fuel c pos l) i =
  if Nat.ltb (i * c) (length l) then Some (pos + i * c, firstn c (skipn (i * c) l)) else None.
Proof.
  intros Hc fuel. induction fuel as [|f IH]; intros pos l i Hl.
  - destruct l; [|simpl in Hl; lia]. simpl. destruct i; reflexivity.
  - destruct l as [|x l].
    + simpl. destruct i; reflexivity.
    + cbn [ch_chunks_at]. destruct i as [|j].
      * simpl. rewrite Nat.add_0_r. reflexivity.
      * cbn [nth_error]. rewrite IH by (rewrite skipn_length; cbn [length] in *; lia).
        rewrite skipn_length, ch_skipn_skipn.
        replace (S j * c) with (c + j * c) by (simpl; reflexivity).
        replace (pos + c + j * c) with (pos + (c + j * c)) by lia.
        destruct (Nat.ltb (j * c) (length (x :: l) - c)) eqn:E1;
          destruct (Nat.ltb (c + j * c) (length (x :: l))) eqn:E2;
          try reflexivity.
        -- apply Nat.ltb_lt in E1. apply Nat.ltb_ge in E2. lia.
        -- apply Nat.ltb_ge in E1. apply Nat.ltb_lt in E2. lia.
Qed.

Lemma ch_chunks_at_ranges c : 0 < c -> forall fuel pos l,
  length l <= fuel ->
  concat (map (fun p => seq (fst p) (length (snd p))) (ch_chunks_at fuel c pos l)) = seq pos (length l).
Proof.
  intros Hc fuel. induction fuel as [|f IH]; intros pos l Hl.
  - destruct l; [reflexivity | simpl in Hl; lia].
  - destruct l as [|x l]; [reflexivity|].
    cbn [ch_chunks_at map concat fst snd].
    rewrite IH by (rewrite skipn_length; cbn [length] in *; lia).
    rewrite firstn_length, skipn_length.
    destruct (le_lt_dec c (length (x :: l))) as [Hle|Hlt].
    + rewrite Nat.min_l by exact Hle. rewrite <- seq_app. f_equal. lia.
    + rewrite Nat.min_r by lia. replace (length (x :: l) - c) with 0 by lia.
      simpl seq at 2. rewrite app_nil_r. reflexivity.
Qed.

Lemma ch_chunks_at_nonempty c : 0 < c -> forall fuel pos l p,
  In p (ch_chunks_at fuel c pos l) -> snd p <> [].
Proof.
  intros Hc fuel. induction fuel as [|f IH]; intros pos l p Hin; [destruct Hin|].
  destruct l as [|x l]; [destruct Hin|].
  cbn [ch_chunks_at] in Hin. destruct Hin as [<-|Hin].
  - simpl snd. apply ch_firstn_nil_iff; [exact Hc | discriminate].
  - eapply IH; exact Hin.
Qed.

(* ----- the statements about ch_chunks / ch_ranges ----- *)
Lemma ch_chunks_nth c l i : 0 < c ->
  nth_error (ch_chunks c l) i =
  if Nat.ltb (i * c) (length l) then Some (firstn c (skipn (i * c) l)) else None.
Proof.
  intros Hc. unfold ch_chunks, ch_chunks_pos. rewrite nth_error_map.
  rewrite ch_chunks_at_nth by (auto; lia).
  destruct (Nat.ltb (i * c) (length l)); reflexivity.
Qed.

Lemma ch_chunks_concat c l : 0 < c -> concat (ch_chunks c l) = l.
Proof. intros Hc. apply ch_chunks_at_concat; [exact Hc | lia]. Qed.

Lemma ch_chunks_nonempty c l : 0 < c -> Forall (fun x => x <> []) (ch_chunks c l).
Proof.
  intros Hc. apply Forall_forall. intros x Hin. unfold ch_chunks in Hin.
  apply in_map_iff in Hin. destruct Hin as [p [<- Hp]].
  eapply ch_chunks_at_nonempty; [exact Hc | exact Hp].
Qed.

Lemma ch_chunks_length_le c l x : 0 < c -> In x (ch_chunks c l) -> length x <= c.
Proof.
  intros Hc Hin. apply In_nth_error in Hin. destruct Hin as [i Hi].
  rewrite ch_chunks_nth in Hi by exact Hc.
  destruct (Nat.ltb (i * c) (length l)); [|discriminate].
  inversion Hi. rewrite firstn_length. lia.
Qed.

(* every chunk that has a successor is full *)
Lemma ch_chunks_full c l i x : 0 < c ->
  nth_error (ch_chunks c l) i = Some x -> S i < length (ch_chunks c l) -> length x = c.
Proof.
  intros Hc Hi Hlast.
  assert (Hnext : nth_error (ch_chunks c l) (S i) <> None) by (apply nth_error_Some; exact Hlast).
  rewrite ch_chunks_nth in Hi, Hnext by exact Hc.
  destruct (Nat.ltb (S i * c) (length l)) eqn:E2; [|congruence].
  apply Nat.ltb_lt in E2. simpl in E2.
  destruct (Nat.ltb (i * c) (length l)) eqn:E1; [|discriminate].
  inversion Hi. rewrite firstn_length, skipn_length. lia.
Qed.

Lemma ch_chunks_count c l : 0 < c -> length (ch_chunks c l) * c < length l + c /\ length l <= length (ch_chunks c l) * c.
Proof.
  intros Hc.
  remember (length (ch_chunks c l)) as k eqn:Ek.
  assert (Hnone : nth_error (ch_chunks c l) k = None) by (apply nth_error_None; lia).
  rewrite ch_chunks_nth in Hnone by exact Hc.
  destruct (Nat.ltb (k * c) (length l)) eqn:E; [discriminate|]. apply Nat.ltb_ge in E.
  split; [|exact E].
  destruct k as [|j]; [simpl; lia|].
  assert (Hsome : nth_error (ch_chunks c l) j <> None) by (apply nth_error_Some; lia).
  rewrite ch_chunks_nth in Hsome by exact Hc.
  destruct (Nat.ltb (j * c) (length l)) eqn:E2; [|congruence]. apply Nat.ltb_lt in E2. simpl. lia.
Qed.

Lemma ch_ranges_nth c l i : 0 < c ->
  nth_error (ch_ranges c l) i =
  if Nat.ltb (i * c) (length l) then Some (seq (i * c) (length (firstn c (skipn (i * c) l)))) else None.
Proof.
  intros Hc. unfold ch_ranges, ch_chunks_pos. rewrite nth_error_map.
  rewrite ch_chunks_at_nth by (auto; lia).
  destruct (Nat.ltb (i * c) (length l)); reflexivity.
Qed.

Lemma ch_ranges_concat c l : 0 < c -> concat (ch_ranges c l) = seq 0 (length l).
Proof. intros Hc. apply ch_chunks_at_ranges; [exact Hc | lia]. Qed.

(* ----- record batches of given lengths ----- *)
Lemma ch_split_by_concat bl l : fold_right Nat.add 0 bl = length l -> concat (ch_split_by bl l) = l.
Proof.
  revert l; induction bl as [|b bl IH]; intros l H; simpl in *.
  - destruct l; [reflexivity | discriminate].
  - assert (b <= length l) by lia.
    rewrite IH; [apply firstn_skipn|]. rewrite skipn_length. lia.
Qed.

(* batches that are all full except the last, none empty, none longer than c: exactly the chunks *)
Fixpoint ch_batches_ok (c n : nat) (bl : list nat) : Prop :=
  match bl with
  | [] => n = 0
  | b :: r => 0 < b /\ b <= n /\ b <= c /\ (r <> [] -> b = c) /\ ch_batches_ok c (n - b) r
  end.

Lemma ch_split_by_chunks c : 0 < c -> forall bl fuel pos l,
  ch_batches_ok c (length l) bl -> length l <= fuel ->
  ch_split_by bl l = map snd (ch_chunks_at fuel c pos l).
Proof.
  intros Hc bl. induction bl as [|b bl IH]; intros fuel pos l Hok Hf.
  - simpl in Hok. destruct l; [|discriminate]. destruct fuel; reflexivity.
  - cbn [ch_batches_ok] in Hok. destruct Hok as [Hb [Hbn [Hbc [Hfull Hok]]]].
    destruct l as [|x l]; [simpl in Hbn; lia|].
    destruct fuel as [|f]; [simpl in Hf; lia|].
    cbn [ch_split_by ch_chunks_at map snd].
    destruct bl as [|b2 bl].
    + cbn [ch_batches_ok] in Hok.
      assert (Hbe : b = length (x :: l)) by lia.
      rewrite (firstn_all2 (n := b) (x :: l)) by lia.
      rewrite (skipn_all2 (n := b) (x :: l)) by lia.
      rewrite (firstn_all2 (n := c) (x :: l)) by lia.
      rewrite (skipn_all2 (n := c) (x :: l)) by lia.
      simpl ch_split_by. destruct f; reflexivity.
    + assert (Hbe : b = c) by (apply Hfull; discriminate). subst b.
      f_equal. apply IH.
      * rewrite skipn_length. exact Hok.
      * rewrite skipn_length. cbn [length] in *; lia.
Qed.

(* the contract is necessary: a short batch in the middle is not a chunking *)
Lemma ch_batches_ok_sum c n bl : ch_batches_ok c n bl -> fold_right Nat.add 0 bl = n.
Proof.
  revert n; induction bl as [|b bl IH]; intros n H; simpl in *; [lia|].
  destruct H as [_ [Hbn [_ [_ H]]]]. apply IH in H. lia.
Qed.
End ChunksP.

(* ---------- column selection ---------- *)
Lemma ch_mem_In c names : ch_mem c names = true <-> In c names.
Proof.
  unfold ch_mem. rewrite existsb_exists. split.
  - intros [x [Hin E]]. apply Nat.eqb_eq in E. subst. exact Hin.
  - intros Hin. exists c. split; [exact Hin | apply Nat.eqb_refl].
Qed.

Lemma ch_mem_false c names : ch_mem c names = false <-> ~ In c names.
Proof.
  split.
  - intros H Hin. apply ch_mem_In in Hin. congruence.
  - intros H. destruct (ch_mem c names) eqn:E; [apply ch_mem_In in E; contradiction | reflexivity].
Qed.

Lemma ch_known_incl names cs : ch_known names cs = true <-> incl cs names.
Proof.
  unfold ch_known. rewrite forallb_forall. split.
  - intros H x Hx. apply ch_mem_In. apply H. exact Hx.
  - intros H x Hx. apply ch_mem_In. apply H. exact Hx.
Qed.

Lemma ch_filter_eqb_notin c names : ~ In c names -> filter (Nat.eqb c) names = [].
Proof.
  induction names as [|n ns IH]; intros H; [reflexivity|]. simpl.
  destruct (Nat.eqb c n) eqn:E.
  - apply Nat.eqb_eq in E. subst. exfalso. apply H. left. reflexivity.
  - apply IH. intros Hin. apply H. right. exact Hin.
Qed.

Lemma ch_filter_eqb_unique c names : NoDup names -> In c names -> filter (Nat.eqb c) names = [c].
Proof.
  induction names as [|n ns IH]; intros Hnd Hin; [destruct Hin|].
  inversion Hnd as [|? ? Hn Hnd']; subst. simpl.
  destruct (Nat.eqb c n) eqn:E.
  - apply Nat.eqb_eq in E. subst. rewrite ch_filter_eqb_notin by exact Hn. reflexivity.
  - apply Nat.eqb_neq in E. destruct Hin as [->|Hin]; [congruence|]. apply IH; assumption.
Qed.

Lemma ch_select_names_id names cs : NoDup names -> incl cs names -> ch_select_names names cs = cs.
Proof.
  intros Hnd. induction cs as [|c cs IH]; intros Hincl; [reflexivity|].
  unfold ch_select_names in *. simpl.
  rewrite ch_filter_eqb_unique; [|exact Hnd | apply Hincl; left; reflexivity].
  simpl. f_equal. apply IH. intros x Hx. apply Hincl. right. exact Hx.
Qed.

Lemma ch_select_names_all names : NoDup names -> ch_select_names names names = names.
Proof. intros H. apply ch_select_names_id; [exact H | apply incl_refl]. Qed.

Section SelectP.
Context {A : Type}.
Implicit Types row : list A.

Lemma ch_pick_notin c names row : ~ In c names -> ch_pick c names row = [].
Proof.
  revert row; induction names as [|n ns IH]; intros row H; [reflexivity|].
  destruct row as [|x xs]; [reflexivity|]. simpl.
  destruct (Nat.eqb n c) eqn:E.
  - apply Nat.eqb_eq in E. subst. exfalso. apply H. left. reflexivity.
  - apply IH. intros Hin. apply H. right. exact Hin.
Qed.

(* under distinct names a requested column is exactly one cell: the one standing under that name *)
Lemma ch_pick_unique c names row : NoDup names -> length row = length names -> In c names ->
  exists x, ch_pick c names row = [x] /\ forall i, nth_error names i = Some c -> nth_error row i = Some x.
Proof.
  revert row; induction names as [|n ns IH]; intros row Hnd Hlen Hin; [destruct Hin|].
  destruct row as [|x xs]; [discriminate|].
  inversion Hnd as [|? ? Hn Hnd']; subst. simpl in Hlen. simpl ch_pick.
  destruct (Nat.eqb n c) eqn:E.
  - apply Nat.eqb_eq in E. subst n. exists x. rewrite ch_pick_notin by exact Hn. split; [reflexivity|].
    intros [|i] Hi; [reflexivity|]. simpl in Hi. apply nth_error_In in Hi. contradiction.
  - apply Nat.eqb_neq in E. destruct Hin as [->|Hin]; [congruence|].
    destruct (IH xs Hnd' ltac:(lia) Hin) as [y [Hy Hidx]]. exists y. split; [exact Hy|].
    intros [|i] Hi; [simpl in Hi; congruence|]. simpl in Hi. simpl. apply Hidx. exact Hi.
Qed.

Lemma ch_pick_length c names row : length row = length names ->
  length (ch_pick c names row) = length (filter (Nat.eqb c) names).
Proof.
  revert row; induction names as [|n ns IH]; intros row Hlen.
  - destruct row; reflexivity.
  - destruct row as [|x xs]; [discriminate|]. simpl. rewrite (Nat.eqb_sym c n).
    destruct (Nat.eqb n c); simpl; rewrite IH by (simpl in Hlen; lia); reflexivity.
Qed.

Lemma ch_pick_app c n1 n2 (r1 r2 : list A) : length r1 = length n1 ->
  ch_pick c (n1 ++ n2) (r1 ++ r2) = ch_pick c n1 r1 ++ ch_pick c n2 r2.
Proof.
  revert r1; induction n1 as [|n ns IH]; intros r1 Hlen.
  - destruct r1; [reflexivity | discriminate].
  - destruct r1 as [|x xs]; [discriminate|]. simpl.
    destruct (Nat.eqb n c); simpl; rewrite IH by (simpl in Hlen; lia); reflexivity.
Qed.

Lemma ch_select_row_ext n1 n2 cs (r1 r2 : list A) :
  (forall c, In c cs -> ch_pick c n1 r1 = ch_pick c n2 r2) ->
  ch_select_row n1 cs r1 = ch_select_row n2 cs r2.
Proof.
  unfold ch_select_row. induction cs as [|c cs IH]; intros H; [reflexivity|]. simpl.
  rewrite (H c) by (left; reflexivity). f_equal. apply IH. intros d Hd. apply H. right. exact Hd.
Qed.

Lemma ch_select_row_length names cs row : NoDup names -> length row = length names -> incl cs names ->
  length (ch_select_row names cs row) = length cs.
Proof.
  intros Hnd Hlen. unfold ch_select_row. induction cs as [|c cs IH]; intros Hincl; [reflexivity|]. simpl.
  destruct (ch_pick_unique c names row Hnd Hlen) as [x [Hx _]]; [apply Hincl; left; reflexivity|].
  rewrite Hx. simpl. f_equal. apply IH. intros d Hd. apply Hincl. right. exact Hd.
Qed.

(* the declarative reading of df[cols]: output cell j is the cell under the column named cols[j] *)
Lemma ch_select_row_spec names cs row : NoDup names -> length row = length names -> incl cs names ->
  forall j c i, nth_error cs j = Some c -> nth_error names i = Some c ->
  nth_error (ch_select_row names cs row) j = nth_error row i.
Proof.
  intros Hnd Hlen. unfold ch_select_row. induction cs as [|d cs IH]; intros Hincl j c i Hj Hi.
  - destruct j; discriminate.
  - simpl. destruct (ch_pick_unique d names row Hnd Hlen) as [x [Hx Hidx]]; [apply Hincl; left; reflexivity|].
    rewrite Hx. destruct j as [|j].
    + simpl in Hj. inversion Hj; subst d. simpl. symmetry. apply Hidx. exact Hi.
    + simpl in Hj. simpl. apply (IH ltac:(intros e He; apply Hincl; right; exact He) j c i Hj Hi).
Qed.

Lemma ch_select_row_all names row : NoDup names -> length row = length names ->
  ch_select_row names names row = row.
Proof.
  intros Hnd Hlen.
  assert (Hl : length (ch_select_row names names row) = length row).
  { rewrite ch_select_row_length; [lia | exact Hnd | exact Hlen | apply incl_refl]. }
  apply nth_error_ext_helper with (n := length row); [exact Hl | reflexivity|].
  intros j Hj.
  destruct (nth_error names j) as [c|] eqn:E.
  - apply ch_select_row_spec with (c := c); try assumption. apply incl_refl.
  - apply nth_error_None in E. lia.
Qed.
End SelectP.

Lemma ch_select_names_In names cs x : In x (ch_select_names names cs) -> In x cs /\ In x names.
Proof.
  unfold ch_select_names. intros H. apply in_flat_map in H. destruct H as [c [Hc Hx]].
  apply filter_In in Hx. destruct Hx as [Hx E]. apply Nat.eqb_eq in E. subst. split; assumption.
Qed.

Section SelectP2.
Context {A : Type}.

Lemma ch_pick_nil_row c names : ch_pick c names (@nil A) = [].
Proof. destruct names; reflexivity. Qed.

Lemma ch_pick_filter c d names (row : list A) :
  ch_pick c (filter (Nat.eqb d) names) (ch_pick d names row)
  = if Nat.eqb d c then ch_pick d names row else [].
Proof.
  revert row; induction names as [|n ns IH]; intros row.
  - simpl. destruct (Nat.eqb d c); reflexivity.
  - destruct row as [|x xs].
    + simpl ch_pick at 2 3. rewrite ch_pick_nil_row. destruct (Nat.eqb d c); reflexivity.
    + simpl. rewrite (Nat.eqb_sym d n). destruct (Nat.eqb n d) eqn:E.
      * apply Nat.eqb_eq in E. subst n. simpl. rewrite IH.
        destruct (Nat.eqb d c); reflexivity.
      * apply IH.
Qed.

Lemma ch_pick_not_requested c names cs (r : list A) :
  ~ In c cs -> ch_pick c (ch_select_names names cs) r = [].
Proof.
  intros H. apply ch_pick_notin. intros Hin. apply ch_select_names_In in Hin. apply H. apply Hin.
Qed.

(* selecting twice: what stands under a requested name after df[cs] is what stood under it before *)
Lemma ch_pick_select c names cs (row : list A) :
  length row = length names -> NoDup cs -> In c cs ->
  ch_pick c (ch_select_names names cs) (ch_select_row names cs row) = ch_pick c names row.
Proof.
  intros Hlen. induction cs as [|d cs IH]; intros Hnd Hin; [destruct Hin|].
  inversion Hnd as [|? ? Hd Hnd']; subst.
  unfold ch_select_names, ch_select_row. simpl.
  fold (ch_select_names names cs). fold (ch_select_row names cs row).
  rewrite ch_pick_app by (apply ch_pick_length; exact Hlen).
  rewrite ch_pick_filter.
  destruct (Nat.eqb d c) eqn:E.
  - apply Nat.eqb_eq in E. subst d. rewrite ch_pick_not_requested by exact Hd. apply app_nil_r.
  - apply Nat.eqb_neq in E. destruct Hin as [->|Hin]; [congruence|]. simpl. apply IH; assumption.
Qed.

Lemma ch_pick_rename (rn : nat -> nat) c c' names (row : list A) :
  (forall n, In n names -> (rn n = c <-> n = c')) ->
  ch_pick c (map rn names) row = ch_pick c' names row.
Proof.
  revert row; induction names as [|n ns IH]; intros row H; [reflexivity|].
  destruct row as [|x xs]; [reflexivity|]. simpl.
  assert (E : Nat.eqb (rn n) c = Nat.eqb n c').
  { destruct (Nat.eqb n c') eqn:E2.
    - apply Nat.eqb_eq. apply H; [left; reflexivity|]. apply Nat.eqb_eq. exact E2.
    - apply Nat.eqb_neq. intros E3. apply H in E3; [|left; reflexivity]. apply Nat.eqb_neq in E2. contradiction. }
  rewrite E. rewrite IH by (intros m Hm; apply H; right; exact Hm). reflexivity.
Qed.
End SelectP2.

(* ---------- frames ---------- *)
Lemma ch_chunks_at_map {A B} (f : A -> B) fuel c pos (l : list A) :
  ch_chunks_at fuel c pos (map f l) = map (fun p => (fst p, map f (snd p))) (ch_chunks_at fuel c pos l).
Proof.
  revert pos l; induction fuel as [|fu IH]; intros pos l; [reflexivity|].
  destruct l as [|x l]; [reflexivity|].
  change (map f (x :: l)) with (f x :: map f l) at 1.
  cbn [ch_chunks_at map fst snd].
  change (f x :: map f l) with (map f (x :: l)).
  rewrite firstn_map, skipn_map, IH. reflexivity.
Qed.

Lemma ch_sel_frames c names rows cs :
  map (ch_sel cs) (ch_frames c names rows)
  = ch_frames c (ch_select_names names cs) (map (ch_select_row names cs) rows).
Proof.
  unfold ch_frames, ch_chunks_pos. rewrite map_length, ch_chunks_at_map, !map_map.
  apply map_ext. intros [p rs]. unfold ch_sel. simpl. rewrite map_length. reflexivity.
Qed.

Lemma ch_concat_frames c names rows : 0 < c -> ch_concat names (ch_frames c names rows) = ch_whole names rows.
Proof.
  intros Hc. unfold ch_concat, ch_whole, ch_frames. f_equal.
  - rewrite flat_map_concat_map, map_map. simpl.
    apply (ch_chunks_at_ranges c Hc (length rows) 0 rows). lia.
  - destruct (ch_chunks_pos c rows); reflexivity.
  - rewrite flat_map_concat_map, map_map. simpl.
    apply (ch_chunks_at_concat c Hc (length rows) 0 rows). lia.
Qed.

Lemma ch_frames_nth c names rows i : 0 < c ->
  nth_error (ch_frames c names rows) i =
  if Nat.ltb (i * c) (length rows)
  then Some {| ch_index := seq (i * c) (length (firstn c (skipn (i * c) rows)));
               ch_names := names; ch_rows := firstn c (skipn (i * c) rows) |}
  else None.
Proof.
  intros Hc. unfold ch_frames, ch_chunks_pos. rewrite nth_error_map.
  rewrite ch_chunks_at_nth by (auto; lia).
  destruct (Nat.ltb (i * c) (length rows)); reflexivity.
Qed.

Lemma ch_frames_rows c names rows : map ch_rows (ch_frames c names rows) = ch_chunks c rows.
Proof. unfold ch_frames, ch_chunks. rewrite map_map. reflexivity. Qed.

Lemma ch_frames_index c names rows : map ch_index (ch_frames c names rows) = ch_ranges c rows.
Proof. unfold ch_frames, ch_ranges. rewrite map_map. reflexivity. Qed.

Lemma ch_frames_names c names rows f : In f (ch_frames c names rows) -> ch_names f = names.
Proof. unfold ch_frames. intros H. apply in_map_iff in H. destruct H as [p [<- _]]. reflexivity. Qed.

Lemma ch_frames_nil c names : ch_frames c names [] = [].
Proof. reflexivity. Qed.

(* ---------- the statements collected for Props/C13.v ---------- *)
Theorem ch_chunks_spec {A} c (l : list A) : 0 < c ->
  concat (ch_chunks c l) = l
  /\ (forall i x, nth_error (ch_chunks c l) i = Some x -> S i < length (ch_chunks c l) -> length x = c)
  /\ Forall (fun x => x <> [] /\ length x <= c) (ch_chunks c l).
Proof.
  intros Hc. split; [apply ch_chunks_concat; exact Hc|]. split.
  - intros i x Hi Hl. eapply ch_chunks_full; eassumption.
  - apply Forall_forall. intros x Hx. split.
    + assert (H := ch_chunks_nonempty c l Hc). rewrite Forall_forall in H. apply H. exact Hx.
    + eapply ch_chunks_length_le; eassumption.
Qed.

Theorem ch_index_spec {A} c (l : list A) : 0 < c ->
  (forall i, nth_error (ch_ranges c l) i =
             if Nat.ltb (i * c) (length l)
             then Some (seq (i * c) (length (firstn c (skipn (i * c) l)))) else None)
  /\ concat (ch_ranges c l) = seq 0 (length l)
  /\ map (@length nat) (ch_ranges c l) = map (@length A) (ch_chunks c l).
Proof.
  intros Hc. split; [intros i; apply ch_ranges_nth; exact Hc|]. split; [apply ch_ranges_concat; exact Hc|].
  unfold ch_ranges, ch_chunks. rewrite !map_map. apply map_ext. intros p. apply seq_length.
Qed.
