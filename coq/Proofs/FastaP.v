(* Proofs about Model/Fasta.v (C18): the FASTA writer followed by the FASTA reader is the identity
   on well-formed entries, for every line-wrapping oracle whose lines concatenate to the sequence. *)
From Coq Require Import Lia.
From Mokaverif Require Import Model.Base Model.Fasta.
Open Scope Z_scope.

(* ---------- well-formedness (specification level) ---------- *)
Definition fa_nolb (s : str) : Prop := Forall (fun c => fa_is_lb c = false) s.
(* a name survives the reader iff it has no line boundary and no space *)
Definition fa_name_ok (n : str) : Prop := Forall (fun c => fa_is_lb c = false /\ c <> fa_SP) n.
(* a sequence: no line boundary, no '>', no blank (textwrap drops blanks at line breaks) *)
Definition fa_seq_ok (s : str) : Prop :=
  Forall (fun c => fa_is_lb c = false /\ c <> fa_GT /\ c <> fa_SP /\ c <> fa_TAB) s.
Definition fa_entry_ok (e : str * str) : Prop := fa_name_ok (fst e) /\ fa_seq_ok (snd e).
(* contract of the textwrap oracle *)
Definition fa_wrap_contract (wrapf : str -> list str) : Prop :=
  forall s, fa_seq_ok s -> concat (wrapf s) = s.

Definition fa_strip_lb (s : str) : str := filter (fun c => negb (fa_is_lb c)) s.

Lemma fa_name_ok_nolb n : fa_name_ok n -> fa_nolb n.
Proof. intros H. eapply Forall_impl; [|exact H]. intros c [Hc _]. exact Hc. Qed.

Lemma fa_seq_ok_nolb s : fa_seq_ok s -> fa_nolb s.
Proof. intros H. eapply Forall_impl; [|exact H]. intros c [Hc _]. exact Hc. Qed.

Lemma fa_nolb_notin c s : fa_is_lb c = true -> fa_nolb s -> ~ In c s.
Proof.
  intros Hc Hs Hin. unfold fa_nolb in Hs. rewrite Forall_forall in Hs.
  apply Hs in Hin. congruence.
Qed.

Lemma fa_seq_ok_no_gt s : fa_seq_ok s -> ~ In fa_GT s.
Proof.
  intros Hs Hin. unfold fa_seq_ok in Hs. rewrite Forall_forall in Hs.
  apply Hs in Hin. destruct Hin as (_ & Hg & _). congruence.
Qed.

Lemma fa_name_ok_no_sp n : fa_name_ok n -> ~ In fa_SP n.
Proof.
  intros Hs Hin. unfold fa_name_ok in Hs. rewrite Forall_forall in Hs.
  apply Hs in Hin. destruct Hin as (_ & Hg). congruence.
Qed.

(* ---------- universal newlines ---------- *)
Lemma fa_universal_nl_id s : ~ In fa_CR s -> fa_universal_nl s = s.
Proof.
  induction s as [|c r IH]; intros H; [reflexivity|].
  cbn [fa_universal_nl].
  destruct (c =? fa_CR) eqn:E.
  - apply Z.eqb_eq in E. exfalso. apply H. left. exact E.
  - rewrite IH; [reflexivity|]. intros Hin. apply H. right. exact Hin.
Qed.

(* ---------- join ---------- *)
Lemma fa_join_nl_cons2 x y r : fa_join_nl (x :: y :: r) = x ++ fa_NL :: fa_join_nl (y :: r).
Proof. reflexivity. Qed.

Lemma fa_join_nl_in c ls : In c (fa_join_nl ls) -> c = fa_NL \/ In c (concat ls).
Proof.
  induction ls as [|x ls IH]; [intros []|].
  destruct ls as [|y ls].
  - cbn [fa_join_nl concat]. rewrite app_nil_r. intros H. right. exact H.
  - rewrite fa_join_nl_cons2. intros H. apply in_app_or in H. destruct H as [H|[H|H]].
    + right. cbn [concat]. apply in_or_app. left. exact H.
    + left. symmetry. exact H.
    + apply IH in H. destruct H as [H|H]; [left; exact H|].
      right. cbn [concat]. apply in_or_app. right. exact H.
Qed.

Lemma fa_strip_lb_app a b : fa_strip_lb (a ++ b) = fa_strip_lb a ++ fa_strip_lb b.
Proof. unfold fa_strip_lb. apply filter_app. Qed.

Lemma fa_strip_lb_id s : fa_nolb s -> fa_strip_lb s = s.
Proof.
  induction s as [|c r IH]; intros H; [reflexivity|].
  inversion H as [|? ? Hc Hr]; subst. unfold fa_strip_lb in *. cbn [filter].
  rewrite Hc. cbn [negb]. rewrite IH by exact Hr. reflexivity.
Qed.

Lemma fa_strip_lb_join ls : fa_strip_lb (fa_join_nl ls) = fa_strip_lb (concat ls).
Proof.
  induction ls as [|x ls IH]; [reflexivity|].
  destruct ls as [|y ls].
  - cbn [fa_join_nl concat]. rewrite app_nil_r. reflexivity.
  - rewrite fa_join_nl_cons2.
    change (fa_NL :: fa_join_nl (y :: ls)) with ([fa_NL] ++ fa_join_nl (y :: ls)).
    rewrite !fa_strip_lb_app, IH.
    change (concat (x :: y :: ls)) with (x ++ concat (y :: ls)).
    rewrite fa_strip_lb_app. reflexivity.
Qed.

(* ---------- splitlines ---------- *)
Lemma fa_splitlines_concat s : forall cur,
  concat (fa_splitlines_aux cur s) = rev cur ++ fa_strip_lb s.
Proof.
  induction s as [|c r IH]; intros cur.
  - cbn [fa_splitlines_aux fa_strip_lb filter]. rewrite app_nil_r.
    destruct cur as [|x cur]; [reflexivity|]. cbn [concat]. rewrite app_nil_r. reflexivity.
  - cbn [fa_splitlines_aux]. unfold fa_strip_lb. cbn [filter]. fold (fa_strip_lb r).
    destruct (fa_is_lb c) eqn:L; cbn [negb].
    + destruct (c =? fa_CR) eqn:E.
      * destruct r as [|d r'].
        -- cbn [concat fa_strip_lb filter]. reflexivity.
        -- destruct (d =? fa_NL) eqn:N.
           ++ apply Z.eqb_eq in N. subst d. cbn [concat].
              specialize (IH []). cbn [fa_splitlines_aux] in IH.
              change (fa_is_lb fa_NL) with true in IH. change (fa_NL =? fa_CR) with false in IH.
              cbn [concat rev app] in IH. rewrite IH. reflexivity.
           ++ cbn [concat]. rewrite IH. reflexivity.
      * cbn [concat]. rewrite IH. reflexivity.
    + rewrite IH. cbn [rev]. rewrite <- app_assoc. reflexivity.
Qed.

Lemma fa_splitlines_header n body : forall cur, fa_nolb n ->
  fa_splitlines_aux cur (n ++ fa_NL :: body) = (rev cur ++ n) :: fa_splitlines_aux [] body.
Proof.
  induction n as [|c n IH]; intros cur H.
  - cbn [app fa_splitlines_aux]. change (fa_is_lb fa_NL) with true. change (fa_NL =? fa_CR) with false.
    cbn iota. rewrite app_nil_r. reflexivity.
  - inversion H as [|? ? Hc Hn]; subst. cbn [app fa_splitlines_aux]. rewrite Hc.
    rewrite IH by exact Hn. cbn [rev]. rewrite <- app_assoc. reflexivity.
Qed.

Lemma fa_splitlines_nolb s : forall cur, fa_nolb cur ->
  Forall fa_nolb (fa_splitlines_aux cur s).
Proof.
  assert (Hrev : forall l, fa_nolb l -> fa_nolb (rev l)).
  { intros l Hl. unfold fa_nolb in *. rewrite Forall_forall in *. intros x Hx. apply Hl.
    apply in_rev. exact Hx. }
  induction s as [|c r IH]; intros cur Hcur.
  - cbn [fa_splitlines_aux]. destruct cur as [|x cur]; [constructor|].
    constructor; [apply Hrev; exact Hcur|constructor].
  - cbn [fa_splitlines_aux]. destruct (fa_is_lb c) eqn:L.
    + destruct (c =? fa_CR) eqn:E.
      * destruct r as [|d r'].
        -- constructor; [apply Hrev; exact Hcur|constructor].
        -- destruct (d =? fa_NL) eqn:N.
           ++ apply Z.eqb_eq in N. subst d. constructor; [apply Hrev; exact Hcur|].
              specialize (IH [] (Forall_nil _)). cbn [fa_splitlines_aux] in IH.
              change (fa_is_lb fa_NL) with true in IH. change (fa_NL =? fa_CR) with false in IH.
              cbn iota in IH. inversion IH; assumption.
           ++ constructor; [apply Hrev; exact Hcur|]. apply IH. constructor.
      * constructor; [apply Hrev; exact Hcur|]. apply IH. constructor.
    + apply IH. constructor; assumption.
Qed.

(* ---------- name ---------- *)
Lemma fa_upto_id sep s : ~ In sep s -> fa_upto sep s = s.
Proof.
  induction s as [|c r IH]; intros H; [reflexivity|]. cbn [fa_upto].
  destruct (c =? sep) eqn:E.
  - apply Z.eqb_eq in E. exfalso. apply H. left. exact E.
  - rewrite IH; [reflexivity|]. intros Hin. apply H. right. exact Hin.
Qed.

Lemma fa_upto_spec sep s : ~ In sep (fa_upto sep s) /\ incl (fa_upto sep s) s.
Proof.
  induction s as [|c r [IH1 IH2]]; cbn [fa_upto].
  - split; [intros []|intros x []].
  - destruct (c =? sep) eqn:E.
    + split; [intros []|intros x []].
    + apply Z.eqb_neq in E. split.
      * intros [H|H]; [congruence|exact (IH1 H)].
      * intros x [H|H]; [left; exact H|right; apply IH2; exact H].
Qed.

(* ---------- one record ---------- *)
Lemma fa_parse_protein_record n body :
  fa_name_ok n ->
  fa_parse_protein (n ++ fa_NL :: body) = Ok (n, fa_strip_lb body).
Proof.
  intros Hn. unfold fa_parse_protein, fa_splitlines.
  rewrite fa_splitlines_header by (apply fa_name_ok_nolb; exact Hn).
  cbn [rev app]. rewrite fa_upto_id by (apply fa_name_ok_no_sp; exact Hn).
  rewrite fa_splitlines_concat. reflexivity.
Qed.

Lemma fa_parse_protein_name_ok raw n s :
  fa_parse_protein raw = Ok (n, s) -> fa_name_ok n /\ fa_nolb s.
Proof.
  unfold fa_parse_protein, fa_splitlines. intros H.
  pose proof (fa_splitlines_nolb raw [] (Forall_nil _)) as HL.
  destruct (fa_splitlines_aux [] raw) as [|h rest]; [discriminate|].
  inversion H; subst. inversion HL as [|? ? Hh Hrest]; subst. split.
  - destruct (fa_upto_spec fa_SP h) as [Hs Hi].
    unfold fa_name_ok. rewrite Forall_forall. intros c Hc. split.
    + unfold fa_nolb in Hh. rewrite Forall_forall in Hh. apply Hh. apply Hi. exact Hc.
    + intros ->. exact (Hs Hc).
  - unfold fa_nolb. rewrite Forall_forall. intros c Hc. apply in_concat in Hc.
    destruct Hc as (l & Hl & Hc). rewrite Forall_forall in Hrest. specialize (Hrest l Hl).
    unfold fa_nolb in Hrest. rewrite Forall_forall in Hrest. apply Hrest. exact Hc.
Qed.

(* ---------- splitting at "\n>" ---------- *)
Lemma fa_split_name n s : forall cur, ~ In fa_NL n ->
  fa_split_aux cur (n ++ s) = fa_split_aux (rev n ++ cur) s.
Proof.
  induction n as [|c n IH]; intros cur H; [reflexivity|].
  cbn [app fa_split_aux].
  destruct (c =? fa_NL) eqn:E.
  - apply Z.eqb_eq in E. exfalso. apply H. left. exact E.
  - rewrite IH by (intros Hin; apply H; right; exact Hin).
    cbn [rev]. rewrite <- app_assoc. reflexivity.
Qed.

Lemma fa_split_body s rest : forall cur, ~ In fa_GT s ->
  fa_split_aux cur (s ++ fa_NL :: fa_GT :: rest) = (rev cur ++ s) :: fa_split_aux [] rest.
Proof.
  induction s as [|c s IH]; intros cur H.
  - cbn [app fa_split_aux]. change (fa_NL =? fa_NL) with true. change (fa_GT =? fa_GT) with true.
    cbn iota. rewrite app_nil_r. reflexivity.
  - assert (Hs : ~ In fa_GT s) by (intros Hin; apply H; right; exact Hin).
    assert (Hgoal : fa_split_aux (c :: cur) (s ++ fa_NL :: fa_GT :: rest)
                    = (rev cur ++ c :: s) :: fa_split_aux [] rest).
    { rewrite IH by exact Hs. cbn [rev]. rewrite <- app_assoc. reflexivity. }
    cbn [app fa_split_aux]. destruct (c =? fa_NL) eqn:E; [|exact Hgoal].
    destruct s as [|d s'].
    + cbn [app]. change (fa_NL =? fa_GT) with false. cbn iota. exact Hgoal.
    + cbn [app]. destruct (d =? fa_GT) eqn:G.
      * apply Z.eqb_eq in G. exfalso. apply Hs. left. exact G.
      * exact Hgoal.
Qed.

Lemma fa_split_last s : forall cur, ~ In fa_GT s -> fa_split_aux cur s = [rev cur ++ s].
Proof.
  induction s as [|c s IH]; intros cur H.
  - cbn [fa_split_aux]. rewrite app_nil_r. reflexivity.
  - assert (Hs : ~ In fa_GT s) by (intros Hin; apply H; right; exact Hin).
    assert (Hgoal : fa_split_aux (c :: cur) s = [rev cur ++ c :: s]).
    { rewrite IH by exact Hs. cbn [rev]. rewrite <- app_assoc. reflexivity. }
    cbn [fa_split_aux]. destruct (c =? fa_NL) eqn:E; [|exact Hgoal].
    destruct s as [|d s']; [exact Hgoal|].
    destruct (d =? fa_GT) eqn:G; [|exact Hgoal].
    apply Z.eqb_eq in G. exfalso. apply Hs. left. exact G.
Qed.

Lemma fa_split_aux_nonempty s : forall cur, fa_split_aux cur s <> [].
Proof.
  induction s as [|c s IH]; intros cur; cbn [fa_split_aux]; [discriminate|].
  destruct (c =? fa_NL); [|apply IH].
  destruct s as [|d s']; [apply IH|].
  destruct (d =? fa_GT); [discriminate|apply IH].
Qed.

(* ---------- the written text ---------- *)
Section RoundTrip.
  Variable wrapf : str -> list str.
  Hypothesis Hwrap : fa_wrap_contract wrapf.

  (* a record without its leading '>' *)
  Definition fa_raw (e : str * str) : str := fst e ++ fa_NL :: fa_join_nl (wrapf (snd e)).

  Lemma fa_record_raw e : fa_record wrapf e = fa_GT :: fa_raw e.
  Proof. reflexivity. Qed.

  Lemma fa_body_no_gt s : fa_seq_ok s -> ~ In fa_GT (fa_NL :: fa_join_nl (wrapf s)).
  Proof.
    intros Hs [H|H]; [discriminate|].
    apply fa_join_nl_in in H. destruct H as [H|H]; [discriminate|].
    rewrite (Hwrap s Hs) in H. exact (fa_seq_ok_no_gt s Hs H).
  Qed.

  Lemma fa_write_cons2 e e2 es :
    fa_write wrapf (e :: e2 :: es) = fa_GT :: fa_raw e ++ fa_NL :: fa_write wrapf (e2 :: es).
  Proof. reflexivity. Qed.

  Lemma fa_write_starts e es : fa_write wrapf (e :: es) = fa_GT :: tl (fa_write wrapf (e :: es)).
  Proof. destruct es as [|e2 es]; reflexivity. Qed.

  Lemma fa_split_write es : es <> [] -> Forall fa_entry_ok es ->
    fa_split_recs (tl (fa_write wrapf es)) = map fa_raw es.
  Proof.
    unfold fa_split_recs.
    induction es as [|e es IH]; intros Hne HF; [congruence|].
    inversion HF as [|? ? [Hn Hs] HF']; subst.
    assert (HnNL : ~ In fa_NL (fst e)).
    { apply fa_nolb_notin; [reflexivity|apply fa_name_ok_nolb; exact Hn]. }
    destruct es as [|e2 es].
    - cbn [fa_write map fa_join_nl fa_record tl]. fold (fa_raw e). unfold fa_raw.
      rewrite fa_split_name by exact HnNL.
      rewrite fa_split_last by (apply fa_body_no_gt; exact Hs).
      rewrite app_nil_r, rev_involutive. reflexivity.
    - rewrite fa_write_cons2. cbn [tl]. rewrite fa_write_starts.
      unfold fa_raw at 1. rewrite <- app_assoc.
      rewrite fa_split_name by exact HnNL.
      change ((fa_NL :: fa_join_nl (wrapf (snd e))) ++ fa_NL :: fa_GT :: tl (fa_write wrapf (e2 :: es)))
        with ((fa_NL :: fa_join_nl (wrapf (snd e))) ++ fa_NL :: fa_GT :: tl (fa_write wrapf (e2 :: es))).
      rewrite fa_split_body by (apply fa_body_no_gt; exact Hs).
      rewrite app_nil_r, rev_involutive.
      rewrite IH by (try discriminate; exact HF'). reflexivity.
  Qed.

  Lemma fa_parse_raw e : fa_entry_ok e -> fa_parse_protein (fa_raw e) = Ok e.
  Proof.
    intros [Hn Hs]. unfold fa_raw. rewrite fa_parse_protein_record by exact Hn.
    rewrite fa_strip_lb_join, (Hwrap _ Hs), fa_strip_lb_id by (apply fa_seq_ok_nolb; exact Hs).
    destruct e; reflexivity.
  Qed.

  Lemma fa_parse_all_raw es : Forall fa_entry_ok es -> fa_parse_all (map fa_raw es) = Ok es.
  Proof.
    induction es as [|e es IH]; intros HF; [reflexivity|].
    inversion HF as [|? ? He HF']; subst. cbn [map fa_parse_all].
    rewrite fa_parse_raw by exact He. cbn [bind]. rewrite IH by exact HF'. reflexivity.
  Qed.

  Lemma fa_write_chars c es : Forall fa_entry_ok es -> In c (fa_write wrapf es) ->
    c = fa_NL \/ c = fa_GT \/ fa_is_lb c = false.
  Proof.
    intros HF Hin. unfold fa_write in Hin. apply fa_join_nl_in in Hin.
    destruct Hin as [H|H]; [left; exact H|].
    apply in_concat in H. destruct H as (r & Hr & Hc).
    apply in_map_iff in Hr. destruct Hr as (e & <- & He).
    rewrite Forall_forall in HF. destruct (HF e He) as [Hn Hs].
    cbn [fa_record] in Hc. destruct Hc as [Hc|Hc]; [right; left; symmetry; exact Hc|].
    apply in_app_or in Hc. destruct Hc as [Hc|[Hc|Hc]].
    - right. right. apply fa_name_ok_nolb in Hn. unfold fa_nolb in Hn.
      rewrite Forall_forall in Hn. apply Hn. exact Hc.
    - left. symmetry. exact Hc.
    - apply fa_join_nl_in in Hc. destruct Hc as [Hc|Hc]; [left; exact Hc|].
      right. right. rewrite (Hwrap _ Hs) in Hc. apply fa_seq_ok_nolb in Hs. unfold fa_nolb in Hs.
      rewrite Forall_forall in Hs. apply Hs. exact Hc.
  Qed.

  (* re-reading the written file recovers every name and sequence *)
  Theorem fa_roundtrip es : es <> [] -> Forall fa_entry_ok es ->
    fa_parse_files [fa_write wrapf es] = Ok es.
  Proof.
    intros Hne HF. unfold fa_parse_files, fa_records. cbn [map fa_join_nl].
    rewrite fa_universal_nl_id.
    - rewrite fa_split_write by assumption. apply fa_parse_all_raw. exact HF.
    - intros Hin. apply (fa_write_chars _ _ HF) in Hin.
      destruct Hin as [H|[H|H]]; discriminate.
  Qed.
End RoundTrip.

(* ---------- the 70-column chunking meets the wrap contract ---------- *)
Lemma fa_wrap_aux_concat n s : forall k cur, concat (fa_wrap_aux n k cur s) = rev cur ++ s.
Proof.
  induction s as [|c r IH]; intros k cur; cbn [fa_wrap_aux].
  - rewrite app_nil_r. destruct cur as [|x cur]; [reflexivity|].
    cbn [concat]. rewrite app_nil_r. reflexivity.
  - destruct k as [|k'].
    + cbn [concat]. rewrite IH. reflexivity.
    + rewrite IH. cbn [rev]. rewrite <- app_assoc. reflexivity.
Qed.

Lemma fa_wrap_aux_bounds n s : forall k cur, (1 <= n)%nat -> (length cur + k = n)%nat ->
  Forall (fun l => (1 <= length l <= n)%nat) (fa_wrap_aux n k cur s).
Proof.
  induction s as [|c r IH]; intros k cur Hn Hk; cbn [fa_wrap_aux].
  - destruct cur as [|x cur]; [constructor|].
    constructor; [|constructor]. rewrite rev_length. cbn [length] in *. lia.
  - destruct k as [|k'].
    + constructor.
      * rewrite rev_length. lia.
      * apply IH; [exact Hn|]. cbn [length]. lia.
    + apply IH; [exact Hn|]. cbn [length]. lia.
Qed.

Lemma fa_wrap_aux_nonempty n s : forall k cur, cur <> [] -> fa_wrap_aux n k cur s <> [].
Proof.
  induction s as [|c r IH]; intros k cur Hc; cbn [fa_wrap_aux].
  - destruct cur; [congruence|discriminate].
  - destruct k; [discriminate|]. apply IH. discriminate.
Qed.

(* every line but the last is exactly n wide *)
Lemma fa_wrap_aux_full n s : forall k cur, (1 <= n)%nat -> (length cur + k = n)%nat ->
  Forall (fun l => length l = n) (removelast (fa_wrap_aux n k cur s)).
Proof.
  induction s as [|c r IH]; intros k cur Hn Hk; cbn [fa_wrap_aux].
  - destruct cur as [|x cur]; constructor.
  - destruct k as [|k'].
    + assert (Hne : fa_wrap_aux n (n - 1) [c] r <> []) by (apply fa_wrap_aux_nonempty; discriminate).
      destruct (fa_wrap_aux n (n - 1) [c] r) as [|y L] eqn:EL; [congruence|].
      change (removelast (rev cur :: y :: L)) with (rev cur :: removelast (y :: L)).
      constructor.
      * rewrite rev_length. lia.
      * rewrite <- EL. apply IH; [exact Hn|]. cbn [length]. lia.
    + apply IH; [exact Hn|]. cbn [length]. lia.
Qed.

Theorem fa_wrap70_ok s :
  concat (fa_wrap70 s) = s /\
  Forall (fun l => (1 <= length l <= 70)%nat) (fa_wrap70 s) /\
  Forall (fun l => length l = 70%nat) (removelast (fa_wrap70 s)).
Proof.
  unfold fa_wrap70. split; [|split].
  - rewrite fa_wrap_aux_concat. reflexivity.
  - apply fa_wrap_aux_bounds; cbn [length]; lia.
  - apply fa_wrap_aux_full; cbn [length]; lia.
Qed.

Corollary fa_wrap70_contract : fa_wrap_contract fa_wrap70.
Proof. intros s _. apply fa_wrap70_ok. Qed.
