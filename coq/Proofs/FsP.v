(* FsP.v — proofs about Model/Fs.v (C09): a run whose operations only read files the run was
   given or has written itself produces the same owned files from any two directories that agree on
   the inputs; it leaves no file it touched other than the ones it still owns; assign_confidence's
   operation list (after the repair of the glob defect) has that discipline. *)
From Coq Require Import Lia FinFun.
From Mokaverif Require Import Model.Base Model.Tdc Model.PinCols Model.Merge Model.Confidence Model.PinTsv Model.Fs Proofs.ConfidenceP.

(* ---------- names ---------- *)
Lemma fname_eqb_refl : forall n, fname_eqb n n = true.
Proof.
  destruct n; cbn; rewrite ?Z.eqb_refl, ?Nat.eqb_refl, ?Bool.eqb_reflx; reflexivity.
Qed.

Lemma fname_eqb_eq : forall a b, fname_eqb a b = true <-> a = b.
Proof.
  intros a b; split.
  - destruct a, b; cbn; intro H; try discriminate;
      repeat (apply andb_true_iff in H; destruct H as [H ?]);
      repeat match goal with
             | E : (_ =? _)%Z = true |- _ => apply Z.eqb_eq in E
             | E : Nat.eqb _ _ = true |- _ => apply Nat.eqb_eq in E
             | E : Bool.eqb _ _ = true |- _ => apply Bool.eqb_prop in E
             end; subst; reflexivity.
  - intros ->; apply fname_eqb_refl.
Qed.

Lemma fname_eqb_sym : forall a b, fname_eqb a b = fname_eqb b a.
Proof.
  intros a b; destruct (fname_eqb a b) eqn:E.
  - apply fname_eqb_eq in E; subst; symmetry; apply fname_eqb_refl.
  - destruct (fname_eqb b a) eqn:E'; [|reflexivity].
    apply fname_eqb_eq in E'; subst; rewrite fname_eqb_refl in E; discriminate.
Qed.

Lemma fname_eqb_neq : forall a b, fname_eqb a b = false <-> a <> b.
Proof.
  intros a b; split.
  - intros E ->; rewrite fname_eqb_refl in E; discriminate.
  - intro N; destruct (fname_eqb a b) eqn:E; [apply fname_eqb_eq in E; contradiction | reflexivity].
Qed.

Lemma fs_mem_In : forall n l, fs_mem n l = true <-> In n l.
Proof.
  intros n l; induction l as [|x r IH]; cbn; [split; [discriminate | tauto]|].
  rewrite orb_true_iff, IH, fname_eqb_eq; tauto.
Qed.

Lemma fs_mem_remove : forall n m l, fs_mem n (fs_remove m l) = fs_mem n l && negb (fname_eqb m n).
Proof.
  intros n m l; unfold fs_remove; induction l as [|x r IH]; cbn; [reflexivity|].
  destruct (fname_eqb x m) eqn:E; cbn.
  - apply fname_eqb_eq in E; subst x. rewrite IH.
    destruct (fname_eqb m n); cbn; [rewrite andb_false_r|]; reflexivity.
  - rewrite IH. destruct (fname_eqb x n) eqn:E2; cbn; [|reflexivity].
    apply fname_eqb_eq in E2; subst x. rewrite fname_eqb_sym, E; reflexivity.
Qed.

Lemma fs_mem_app : forall n a b, fs_mem n (a ++ b) = fs_mem n a || fs_mem n b.
Proof. intros n a b; induction a as [|x r IH]; cbn; [reflexivity|]; rewrite IH, orb_assoc; reflexivity. Qed.

Definition fs_sub (W W' : list fname) : Prop := forall n, fs_mem n W = true -> fs_mem n W' = true.

Lemma fs_sub_refl : forall W, fs_sub W W.
Proof. intros W n H; exact H. Qed.
Lemma fs_sub_trans : forall A B C, fs_sub A B -> fs_sub B C -> fs_sub A C.
Proof. intros A B C H1 H2 n H; auto. Qed.
Lemma fs_sub_cons : forall W W' n, fs_sub W W' -> fs_sub (n :: W) (n :: W').
Proof.
  intros W W' n H m; cbn; rewrite !orb_true_iff; intros [E|E]; [left; exact E | right; apply H; exact E].
Qed.
Lemma fs_sub_remove : forall W W' n, fs_sub W W' -> fs_sub (fs_remove n W) (fs_remove n W').
Proof.
  intros W W' n H m; rewrite !fs_mem_remove, !andb_true_iff; intros [E1 E2]; split; [apply H; exact E1 | exact E2].
Qed.

Section Generic.
Variable content : Type.
Variable fn : Type.
Variable apply : fn -> list content -> option content.
Variable cat : content -> content -> content.

Notation fs := (Fs.fs content).
Notation op := (op fn).
Notation fs_get := (fs_get content).
Notation fs_set := (fs_set content).
Notation fs_del := (fs_del content).
Notation fs_gets := (fs_gets content).
Notation exec_op := (exec_op content fn apply cat).
Notation exec := (exec content fn apply cat).
Notation wf_ops := (wf_ops fn).
Notation owned_after := (owned_after fn).
Notation touched := (touched fn).

Lemma fs_get_del : forall (s : fs) m n, fs_get (fs_del s m) n = if fname_eqb m n then None else fs_get s n.
Proof.
  intros s m n; unfold Fs.fs_del; induction s as [|[x c] r IH]; cbn; [destruct (fname_eqb m n); reflexivity|].
  destruct (fname_eqb x m) eqn:E; cbn.
  - apply fname_eqb_eq in E; subst x. rewrite IH. destruct (fname_eqb m n); reflexivity.
  - rewrite IH. destruct (fname_eqb x n) eqn:E2; [|reflexivity].
    apply fname_eqb_eq in E2; subst x. rewrite fname_eqb_sym, E; reflexivity.
Qed.

Lemma fs_get_set : forall (s : fs) m c n, fs_get (fs_set s m c) n = if fname_eqb m n then Some c else fs_get s n.
Proof.
  intros s m c n; unfold Fs.fs_set; cbn. destruct (fname_eqb m n) eqn:E; [reflexivity|].
  rewrite fs_get_del, E; reflexivity.
Qed.

Definition agree_on (W : list fname) (a b : fs) : Prop :=
  forall n, fs_mem n W = true -> fs_get a n = fs_get b n.

Lemma agree_gets : forall W a b deps, agree_on W a b -> forallb (fun d => fs_mem d W) deps = true ->
  fs_gets a deps = fs_gets b deps.
Proof.
  intros W a b deps HA; induction deps as [|d r IH]; cbn; [reflexivity|].
  intro H; apply andb_true_iff in H; destruct H as [Hd Hr].
  rewrite (HA d Hd), (IH Hr); reflexivity.
Qed.

Lemma agree_set : forall W a b n c, agree_on W a b -> agree_on (n :: W) (fs_set a n c) (fs_set b n c).
Proof.
  intros W a b n c HA m; cbn [fs_mem]; rewrite !fs_get_set.
  destruct (fname_eqb n m) eqn:E; cbn; [reflexivity|]. intro H; apply HA; exact H.
Qed.

Lemma agree_set_same : forall W a b n c c', agree_on W a b -> (fs_mem n W = true -> c = c') ->
  fs_mem n W = true -> agree_on W (fs_set a n c) (fs_set b n c').
Proof.
  intros W a b n c c' HA Hc Hn m Hm; rewrite !fs_get_set.
  destruct (fname_eqb n m); [rewrite (Hc Hn); reflexivity | apply HA; exact Hm].
Qed.

Lemma agree_del : forall W a b n, agree_on W a b -> agree_on (fs_remove n W) (fs_del a n) (fs_del b n).
Proof.
  intros W a b n HA m; rewrite fs_mem_remove, !fs_get_del; intro H; apply andb_true_iff in H.
  destruct H as [H1 H2]; destruct (fname_eqb n m); [discriminate | apply HA; exact H1].
Qed.

(* ---- independence: one operation ---- *)
Definition same_outcome (W : list fname) (x y : option fs) : Prop :=
  match x, y with
  | Some a, Some b => agree_on W a b
  | None, None => True
  | _, _ => False
  end.

Theorem fs_independent : forall ops W a b,
  agree_on W a b -> wf_ops W ops = true ->
  same_outcome (owned_after W ops) (exec ops a) (exec ops b).
Proof.
  induction ops as [|o r IH]; intros W a b HA Hwf; cbn in *; [exact HA|].
  destruct o as [n deps f | n deps f | n | src dst | n p f | p]; cbn in Hwf; try discriminate.
  - (* write *)
    apply andb_true_iff in Hwf; destruct Hwf as [Hd Hr].
    cbn [Fs.exec_op]. rewrite (agree_gets W a b deps HA Hd).
    destruct (fs_gets b deps) as [cs|]; [|exact I].
    destruct (apply f cs) as [c|]; [|exact I].
    apply IH; [apply agree_set; exact HA | exact Hr].
  - (* append *)
    apply andb_true_iff in Hwf; destruct Hwf as [Hn Hr].
    apply andb_true_iff in Hn; destruct Hn as [Hn Hd].
    cbn [Fs.exec_op]. rewrite (agree_gets W a b deps HA Hd).
    destruct (fs_gets b deps) as [cs|]; [|exact I].
    destruct (apply f cs) as [c|]; [|exact I].
    apply IH; [|exact Hr].
    apply agree_set_same; [exact HA | | exact Hn].
    intro Hm; rewrite (HA n Hm); reflexivity.
  - (* unlink *)
    apply andb_true_iff in Hwf; destruct Hwf as [Hn Hr].
    cbn [Fs.exec_op]. rewrite (HA n Hn).
    destruct (fs_get b n) as [c|]; [|exact I].
    apply IH; [apply agree_del; exact HA | exact Hr].
  - (* move *)
    apply andb_true_iff in Hwf; destruct Hwf as [Hn Hr].
    cbn [Fs.exec_op]. rewrite (HA src Hn).
    destruct (fs_get b src) as [c|]; [|exact I].
    apply IH; [|exact Hr]. apply agree_set. apply agree_del; exact HA.
Qed.

(* ---- a well-formed run cannot fail for a missing file ---- *)
Definition present (W : list fname) (s : fs) : Prop :=
  forall n, fs_mem n W = true -> fs_get s n <> None.

Lemma present_gets : forall W s deps, present W s -> forallb (fun d => fs_mem d W) deps = true ->
  exists cs, fs_gets s deps = Some cs.
Proof.
  intros W s deps HP; induction deps as [|d r IH]; cbn; [exists []; reflexivity|].
  intro H; apply andb_true_iff in H; destruct H as [Hd Hr].
  destruct (IH Hr) as [cs Hcs]; rewrite Hcs.
  destruct (fs_get s d) as [c|] eqn:E; [exists (c :: cs); reflexivity | exfalso; apply (HP d Hd); exact E].
Qed.

(* the run stops early only where a computation raises *)
Theorem fs_wf_no_missing_file : forall ops W s,
  present W s -> wf_ops W ops = true ->
  (forall f cs, apply f cs <> None) ->
  exec ops s <> None.
Proof.
  induction ops as [|o r IH]; intros W s HP Hwf Htot; cbn in *; [discriminate|].
  destruct o as [n deps f | n deps f | n | src dst | n p f | p]; cbn in Hwf; try discriminate.
  - apply andb_true_iff in Hwf; destruct Hwf as [Hd Hr].
    cbn [Fs.exec_op]. destruct (present_gets W s deps HP Hd) as [cs ->].
    destruct (apply f cs) as [c|] eqn:E; [|exfalso; apply (Htot f cs); exact E].
    apply (IH (n :: W)); [|exact Hr|exact Htot].
    intros m; cbn [fs_mem]; rewrite fs_get_set. destruct (fname_eqb n m); cbn; [discriminate | apply HP].
  - apply andb_true_iff in Hwf; destruct Hwf as [Hn Hr].
    apply andb_true_iff in Hn; destruct Hn as [Hn Hd].
    cbn [Fs.exec_op]. destruct (present_gets W s deps HP Hd) as [cs ->].
    destruct (apply f cs) as [c|] eqn:E; [|exfalso; apply (Htot f cs); exact E].
    apply (IH W); [|exact Hr|exact Htot].
    intros m Hm; rewrite fs_get_set. destruct (fname_eqb n m); [discriminate | apply HP; exact Hm].
  - apply andb_true_iff in Hwf; destruct Hwf as [Hn Hr].
    cbn [Fs.exec_op]. destruct (fs_get s n) as [c|] eqn:E; [|exfalso; apply (HP n Hn); exact E].
    apply (IH (fs_remove n W)); [|exact Hr|exact Htot].
    intros m; rewrite fs_mem_remove, fs_get_del; intro H; apply andb_true_iff in H; destruct H as [H1 H2].
    destruct (fname_eqb n m); [discriminate | apply HP; exact H1].
  - apply andb_true_iff in Hwf; destruct Hwf as [Hn Hr].
    cbn [Fs.exec_op]. destruct (fs_get s src) as [c|] eqn:E; [|exfalso; apply (HP src Hn); exact E].
    apply (IH (dst :: fs_remove src W)); [|exact Hr|exact Htot].
    intros m; cbn [fs_mem]; rewrite fs_get_set. destruct (fname_eqb dst m); cbn [orb]; [discriminate|].
    rewrite fs_mem_remove, fs_get_del; intro H; apply andb_true_iff in H; destruct H as [H1 H2].
    destruct (fname_eqb src m); [discriminate | apply HP; exact H1].
Qed.

(* ---- files the run never names keep their content ---- *)
Theorem fs_untouched : forall ops W s s',
  wf_ops W ops = true -> exec ops s = Some s' ->
  forall n, fs_mem n (touched ops) = false -> fs_get s' n = fs_get s n.
Proof.
  induction ops as [|o r IH]; intros W s s' Hwf He n Hn; cbn in *; [inversion He; reflexivity|].
  destruct o as [m deps f | m deps f | m | src dst | m p f | p]; cbn in Hwf; try discriminate;
    cbn [Fs.exec_op] in He; cbn in Hn.
  - apply andb_true_iff in Hwf; destruct Hwf as [_ Hr].
    apply orb_false_iff in Hn; destruct Hn as [Hm Hn].
    destruct (fs_gets s deps) as [cs|]; [|discriminate]. destruct (apply f cs) as [c|]; [|discriminate].
    rewrite (IH _ _ _ Hr He n Hn), fs_get_set, Hm; reflexivity.
  - apply andb_true_iff in Hwf; destruct Hwf as [_ Hr].
    apply orb_false_iff in Hn; destruct Hn as [Hm Hn].
    destruct (fs_gets s deps) as [cs|]; [|discriminate]. destruct (apply f cs) as [c|]; [|discriminate].
    rewrite (IH _ _ _ Hr He n Hn), fs_get_set, Hm; reflexivity.
  - apply andb_true_iff in Hwf; destruct Hwf as [_ Hr].
    apply orb_false_iff in Hn; destruct Hn as [Hm Hn].
    destruct (fs_get s m) as [c|]; [|discriminate].
    rewrite (IH _ _ _ Hr He n Hn), fs_get_del, Hm; reflexivity.
  - apply andb_true_iff in Hwf; destruct Hwf as [_ Hr].
    apply orb_false_iff in Hn; destruct Hn as [Hs Hn]. apply orb_false_iff in Hn; destruct Hn as [Hd Hn].
    destruct (fs_get s src) as [c|]; [|discriminate].
    rewrite (IH _ _ _ Hr He n Hn), fs_get_set, Hd, fs_get_del, Hs; reflexivity.
Qed.

(* ---- whatever the run touched and no longer owns is gone ---- *)
Definition gone_or_owned (T W : list fname) (s : fs) : Prop :=
  forall n, fs_mem n T = true -> fs_mem n W = true \/ fs_get s n = None.

Lemma fs_no_intermediates_gen : forall ops T W s s',
  wf_ops W ops = true -> exec ops s = Some s' -> gone_or_owned T W s ->
  gone_or_owned (T ++ touched ops) (owned_after W ops) s'.
Proof.
  induction ops as [|o r IH]; intros T W s s' Hwf He HG; cbn in *.
  - inversion He; subst. intros n Hn. rewrite fs_mem_app in Hn; cbn in Hn; rewrite orb_false_r in Hn. apply HG; exact Hn.
  - assert (Happ : forall x, T ++ x :: touched r = (T ++ [x]) ++ touched r)
      by (intro x; rewrite <- app_assoc; reflexivity).
    destruct o as [m deps f | m deps f | m | src dst | m p f | p]; cbn in Hwf; try discriminate;
      cbn [Fs.exec_op] in He.
    + apply andb_true_iff in Hwf; destruct Hwf as [_ Hr].
      destruct (fs_gets s deps) as [cs|]; [|discriminate]. destruct (apply f cs) as [c|]; [|discriminate].
      rewrite Happ. apply (IH _ _ _ _ Hr He).
      intros n Hn. rewrite fs_mem_app in Hn; cbn in Hn; rewrite orb_false_r in Hn. cbn [fs_mem].
      destruct (fname_eqb m n) eqn:E; [left; reflexivity|]. cbn [orb].
      apply orb_true_iff in Hn; destruct Hn as [Hn|Hn]; [|discriminate].
      destruct (HG n Hn) as [H|H]; [left; exact H | right; rewrite fs_get_set, E; exact H].
    + apply andb_true_iff in Hwf; destruct Hwf as [Hm Hr]. apply andb_true_iff in Hm; destruct Hm as [Hm _].
      destruct (fs_gets s deps) as [cs|]; [|discriminate]. destruct (apply f cs) as [c|]; [|discriminate].
      rewrite Happ. apply (IH _ _ _ _ Hr He).
      intros n Hn. rewrite fs_mem_app in Hn; cbn in Hn; rewrite orb_false_r in Hn.
      destruct (fname_eqb m n) eqn:E; [left; apply fname_eqb_eq in E; subst; exact Hm|].
      apply orb_true_iff in Hn; destruct Hn as [Hn|Hn]; [|discriminate].
      destruct (HG n Hn) as [H|H]; [left; exact H | right; rewrite fs_get_set, E; exact H].
    + apply andb_true_iff in Hwf; destruct Hwf as [Hm Hr].
      destruct (fs_get s m) as [c|]; [|discriminate].
      rewrite Happ. apply (IH _ _ _ _ Hr He).
      intros n Hn. rewrite fs_mem_app in Hn; cbn in Hn; rewrite orb_false_r in Hn.
      rewrite fs_mem_remove, fs_get_del.
      destruct (fname_eqb m n) eqn:E; [right; reflexivity|].
      apply orb_true_iff in Hn; destruct Hn as [Hn|Hn]; [|discriminate].
      destruct (HG n Hn) as [H|H]; [left; rewrite H; reflexivity | right; exact H].
    + apply andb_true_iff in Hwf; destruct Hwf as [Hm Hr].
      destruct (fs_get s src) as [c|]; [|discriminate].
      replace (T ++ src :: dst :: touched r) with ((T ++ [src; dst]) ++ touched r)
        by (rewrite <- app_assoc; reflexivity).
      apply (IH _ _ _ _ Hr He).
      intros n Hn. rewrite fs_mem_app in Hn; cbn in Hn; rewrite orb_false_r in Hn. cbn [fs_mem].
      rewrite fs_get_set, fs_mem_remove, fs_get_del.
      destruct (fname_eqb dst n) eqn:Ed; [left; reflexivity|]. cbn [orb].
      destruct (fname_eqb src n) eqn:Es; [right; reflexivity|].
      cbn in Hn. apply orb_true_iff in Hn; destruct Hn as [Hn|Hn]; [|discriminate].
      destruct (HG n Hn) as [H|H]; [left; rewrite H; reflexivity | right; exact H].
Qed.

Theorem fs_no_intermediates : forall ops W s s',
  wf_ops W ops = true -> exec ops s = Some s' ->
  forall n, fs_mem n (touched ops) = true -> fs_mem n (owned_after W ops) = false -> fs_get s' n = None.
Proof.
  intros ops W s s' Hwf He n Hn Ho.
  destruct (fs_no_intermediates_gen ops [] W s s' Hwf He) with (n := n) as [H|H].
  - intros m Hm; discriminate.
  - exact Hn.
  - rewrite H in Ho; discriminate.
  - exact H.
Qed.

(* ---- composition ---- *)
Lemma wf_ops_app : forall a b W, wf_ops W (a ++ b) = wf_ops W a && wf_ops (owned_after W a) b.
Proof.
  induction a as [|o r IH]; intros b W; cbn; [reflexivity|].
  destruct o; rewrite ?IH, ?andb_assoc; reflexivity.
Qed.

Lemma owned_after_app : forall a b W, owned_after W (a ++ b) = owned_after (owned_after W a) b.
Proof. induction a as [|o r IH]; intros b W; cbn; [reflexivity|]; destruct o; apply IH. Qed.

Lemma touched_app : forall a b, touched (a ++ b) = touched a ++ touched b.
Proof.
  induction a as [|o r IH]; intros b; cbn; [reflexivity|]; destruct o; cbn; rewrite ?IH; reflexivity.
Qed.

Lemma forallb_sub : forall W W' deps, fs_sub W W' ->
  forallb (fun d => fs_mem d W) deps = true -> forallb (fun d => fs_mem d W') deps = true.
Proof.
  intros W W' deps HS; induction deps as [|d r IH]; cbn; [reflexivity|].
  intro H; apply andb_true_iff in H; destruct H as [H1 H2]; rewrite (HS d H1), (IH H2); reflexivity.
Qed.

Lemma wf_ops_mono : forall ops W W', fs_sub W W' -> wf_ops W ops = true ->
  wf_ops W' ops = true /\ fs_sub (owned_after W ops) (owned_after W' ops).
Proof.
  induction ops as [|o r IH]; intros W W' HS Hwf; cbn in *; [split; [reflexivity | exact HS]|].
  destruct o as [n deps f | n deps f | n | src dst | n p f | p]; try discriminate.
  - apply andb_true_iff in Hwf; destruct Hwf as [Hd Hr].
    rewrite (forallb_sub W W' deps HS Hd); cbn. apply IH; [apply fs_sub_cons; exact HS | exact Hr].
  - apply andb_true_iff in Hwf; destruct Hwf as [Hn Hr]. apply andb_true_iff in Hn; destruct Hn as [Hn Hd].
    rewrite (HS n Hn), (forallb_sub W W' deps HS Hd); cbn. apply IH; [exact HS | exact Hr].
  - apply andb_true_iff in Hwf; destruct Hwf as [Hn Hr].
    rewrite (HS n Hn); cbn. apply IH; [apply fs_sub_remove; exact HS | exact Hr].
  - apply andb_true_iff in Hwf; destruct Hwf as [Hn Hr].
    rewrite (HS src Hn); cbn. apply IH; [apply fs_sub_cons; apply fs_sub_remove; exact HS | exact Hr].
Qed.

End Generic.

(* ======================= assign_confidence's operation list ======================= *)
Section Removed.
Variable fn : Type.
Fixpoint removed (ops : list (op fn)) : list fname :=
  match ops with
  | [] => []
  | OUnlink n :: r => n :: removed r
  | OMove a _ :: r => a :: removed r
  | _ :: r => removed r
  end.

Lemma removed_app : forall a b, removed (a ++ b) = removed a ++ removed b.
Proof. induction a as [|o r IH]; intro b; cbn; [reflexivity|]; destruct o; cbn; rewrite ?IH; reflexivity. Qed.

Lemma removed_flat_map : forall {A} (F : A -> list (op fn)) l,
  (forall x, In x l -> removed (F x) = []) -> removed (flat_map F l) = [].
Proof.
  intros A F l H; induction l as [|x r IH]; cbn; [reflexivity|].
  rewrite removed_app, (H x (or_introl eq_refl)), IH; [reflexivity|].
  intros y Hy; apply H; right; exact Hy.
Qed.

(* a name the run owns stays owned as long as it is neither removed nor renamed *)
Lemma owned_persist : forall ops W n,
  fs_mem n W = true -> fs_mem n (removed ops) = false -> fs_mem n (owned_after fn W ops) = true.
Proof.
  induction ops as [|o r IH]; intros W n HW HR; cbn in *; [exact HW|].
  destruct o as [m deps f | m deps f | m | src dst | m p f | p]; cbn in HR.
  - apply IH; [cbn; rewrite HW, orb_true_r; reflexivity | exact HR].
  - apply IH; assumption.
  - apply orb_false_iff in HR; destruct HR as [E HR].
    apply IH; [rewrite fs_mem_remove, HW, E; reflexivity | exact HR].
  - apply orb_false_iff in HR; destruct HR as [E HR].
    apply IH; [cbn; rewrite fs_mem_remove, HW, E, orb_true_r; reflexivity | exact HR].
  - apply IH; [cbn; rewrite HW, orb_true_r; reflexivity | exact HR].
  - apply IH; assumption.
Qed.

Lemma owned_sub : forall ops W, removed ops = [] -> fs_sub W (owned_after fn W ops).
Proof. intros ops W H n Hn; apply owned_persist; [exact Hn | rewrite H; reflexivity]. Qed.
End Removed.
Arguments removed {fn}.

Definition is_result (n : fname) : bool := match n with NResult _ _ _ => true | _ => false end.
Definition is_level (n : fname) : bool := match n with NLevel _ _ => true | _ => false end.
Definition is_chunk (n : fname) : bool := match n with NChunk _ _ _ => true | _ => false end.

Notation cwf := (wf_ops cfn).
Notation cowned := (owned_after cfn).

(* ---- phase A: result files are created ---- *)
Definition init_step (g : fs_cfg) (pfx : Z) (lv : nat) : list cop :=
  OWrite (NResult pfx false lv) [] KEmpty ::
  (if fg_decoys g then [OWrite (NResult pfx true lv) [] KEmpty] else []).

Lemma inits_eq_gen : forall g pfx, fs_result_inits g pfx false = flat_map (init_step g pfx) (fs_res_levels g).
Proof. reflexivity. Qed.

Lemma init_steps_wf : forall g pfx l W, cwf W (flat_map (init_step g pfx) l) = true.
Proof.
  intros g pfx l; induction l as [|lv r IH]; intro W; cbn; [reflexivity|].
  destruct (fg_decoys g); cbn; apply IH.
Qed.

Lemma init_steps_removed : forall g pfx l, removed (flat_map (init_step g pfx) l) = [].
Proof.
  intros g pfx l; apply removed_flat_map; intros lv _; unfold init_step; destruct (fg_decoys g); reflexivity.
Qed.

Lemma init_steps_owned : forall g pfx l W lv d, In lv l -> (d = true -> fg_decoys g = true) ->
  fs_mem (NResult pfx d lv) (cowned W (flat_map (init_step g pfx) l)) = true.
Proof.
  intros g pfx l; induction l as [|x r IH]; intros W lv d Hin Hd; [destruct Hin|].
  cbn [flat_map]. rewrite owned_after_app.
  destruct Hin as [->|Hin]; [|apply IH; assumption].
  apply owned_persist; [|rewrite init_steps_removed; reflexivity].
  unfold init_step. destruct d.
  - rewrite (Hd eq_refl). cbn. rewrite Z.eqb_refl, Nat.eqb_refl. reflexivity.
  - destruct (fg_decoys g); cbn; rewrite Z.eqb_refl, Nat.eqb_refl; cbn; rewrite ?orb_true_r; reflexivity.
Qed.

Lemma inits_wf : forall g pfx ap W, cwf W (fs_result_inits g pfx ap) = true.
Proof. intros g pfx [|] W; [reflexivity | apply init_steps_wf]. Qed.

Lemma inits_removed : forall g pfx ap, removed (fs_result_inits g pfx ap) = [].
Proof. intros g pfx [|]; [reflexivity | apply init_steps_removed]. Qed.

(* ---- phase B: chunk files ---- *)
Definition chunk_step (g : fs_cfg) (pfx : Z) (ic : nat * list cf_row) : list cop :=
  let '(i, ch) := ic in
  let n := NChunk pfx i (fg_ext g) in
  if fg_ext g then [OWrite n [] (KConst ch)] else [OWrite n [] KEmpty; OAppend n [] (KConst ch)].

Lemma chunk_steps_wf : forall g pfx l W, cwf W (flat_map (chunk_step g pfx) l) = true.
Proof.
  intros g pfx l; induction l as [|[i ch] r IH]; intro W; cbn; [reflexivity|].
  destruct (fg_ext g); cbn; rewrite ?Z.eqb_refl, ?Nat.eqb_refl; cbn; apply IH.
Qed.

Lemma chunk_steps_removed : forall g pfx l, removed (flat_map (chunk_step g pfx) l) = [].
Proof.
  intros g pfx l; apply removed_flat_map; intros [i ch] _; unfold chunk_step; destruct (fg_ext g); reflexivity.
Qed.

Lemma chunk_steps_owned : forall g pfx l W i ch, In (i, ch) l ->
  fs_mem (NChunk pfx i (fg_ext g)) (cowned W (flat_map (chunk_step g pfx) l)) = true.
Proof.
  intros g pfx l; induction l as [|x r IH]; intros W i ch Hin; [destruct Hin|].
  cbn [flat_map]. rewrite owned_after_app.
  destruct Hin as [->|Hin]; [|eapply IH; exact Hin].
  apply owned_persist; [|rewrite chunk_steps_removed; reflexivity].
  unfold chunk_step. destruct (fg_ext g); cbn; rewrite Z.eqb_refl, Nat.eqb_refl; reflexivity.
Qed.

Lemma chunk_ops_eq : forall g pfx rows,
  fs_chunk_ops g pfx rows =
  flat_map (chunk_step g pfx) (combine (seq 0 (length (fs_chunk_rows g rows))) (fs_chunk_rows g rows)).
Proof. reflexivity. Qed.

Lemma combine_seq_in : forall {A} (l : list A) s i, (s <= i < s + length l)%nat ->
  exists x, In (i, x) (combine (seq s (length l)) l).
Proof.
  intros A l; induction l as [|y r IH]; intros s i H; cbn in *; [lia|].
  destruct (Nat.eq_dec i s) as [->|N]; [exists y; left; reflexivity|].
  destruct (IH (S s) i) as [x Hx]; [lia|]. exists x; right; exact Hx.
Qed.

Lemma chunk_ops_owned : forall g pfx rows W n, In n (fs_chunk_names g pfx rows) ->
  fs_mem n (cowned W (fs_chunk_ops g pfx rows)) = true.
Proof.
  intros g pfx rows W n Hn. unfold fs_chunk_names in Hn. apply in_map_iff in Hn.
  destruct Hn as [i [<- Hi]]. apply in_seq in Hi.
  destruct (combine_seq_in (fs_chunk_rows g rows) 0 i) as [ch Hch]; [lia|].
  rewrite chunk_ops_eq. eapply chunk_steps_owned; exact Hch.
Qed.

Lemma chunk_names_nodup : forall g pfx rows, NoDup (fs_chunk_names g pfx rows).
Proof.
  intros g pfx rows; unfold fs_chunk_names.
  apply FinFun.Injective_map_NoDup; [|apply seq_NoDup].
  intros a b H; inversion H; reflexivity.
Qed.

(* ---- phase C: level files ---- *)
Lemma ev_step_lt : forall c dedup r todo lv seen added ev nl,
  (lv + todo = nl)%nat -> (forall e, In e ev -> (fst e < nl)%nat) ->
  forall e, In e (snd (fs_levels_ev_step c dedup r lv todo seen added ev)) -> (fst e < nl)%nat.
Proof.
  intros c dedup r todo; induction todo as [|t IH]; intros lv seen added ev nl Hn Hev e; cbn; [apply Hev|].
  set (ev' := if Nat.eqb _ 0 then _ else ev).
  assert (Hev' : forall e, In e ev' -> (fst e < nl)%nat).
  { intros x; unfold ev'; destruct (Nat.eqb _ 0); [|apply Hev].
    intro Hx; apply in_app_or in Hx; destruct Hx as [Hx|[<-|[]]]; [apply Hev; exact Hx | cbn; lia]. }
  destruct (negb (Nat.eqb lv 0) || dedup)%bool.
  - destruct (cf_memz _ _).
    + destruct (Nat.eqb lv 0); [apply Hev|]. apply IH; [lia | exact Hev].
    + apply IH; [lia | exact Hev'].
  - apply IH; [lia | exact Hev'].
Qed.

Lemma level_events_lt : forall c dedup nl stream e,
  In e (fs_level_events c dedup nl stream) -> (fst e < nl)%nat.
Proof.
  intros c dedup nl stream e. unfold fs_level_events.
  set (F := fun st r => let '(seen, added, ev) := st in fs_levels_ev_step c dedup r 0 nl seen added ev).
  assert (H : forall l st, (forall x, In x (snd st) -> (fst x < nl)%nat) ->
                           forall x, In x (snd (fold_left F l st)) -> (fst x < nl)%nat).
  { induction l as [|r l IH]; intros st Hst x; cbn; [apply Hst|].
    apply IH. destruct st as [[seen added] ev]. cbn [F]. intros y Hy.
    eapply (ev_step_lt c dedup r nl 0 seen added ev nl); [lia | exact Hst | exact Hy]. }
  specialize (H stream (repeat [] nl, repeat 0%nat nl, [])).
  destruct (fold_left F stream _) as [[seen added] ev] eqn:E. cbn in H.
  intro Hin. apply in_app_or in Hin. destruct Hin as [Hin|Hin].
  - apply H; [intros x []| exact Hin].
  - apply in_map_iff in Hin. destruct Hin as [lv [<- Hlv]]. apply in_seq in Hlv. cbn. lia.
Qed.

Lemma level_writes_wf : forall g l W, cwf W (map (fun lv => OWrite (NLevel lv (fg_ext g)) [] KEmpty) l) = true.
Proof. intros g l; induction l as [|x r IH]; intro W; cbn; [reflexivity | apply IH]. Qed.

Lemma level_writes_removed : forall g l, removed (map (fun lv => OWrite (NLevel lv (fg_ext g)) [] (KEmpty)) l) = [].
Proof. intros g l; induction l as [|x r IH]; cbn; [reflexivity | exact IH]. Qed.

Lemma level_writes_owned : forall g l W lv, In lv l ->
  fs_mem (NLevel lv (fg_ext g)) (cowned W (map (fun lv => OWrite (NLevel lv (fg_ext g)) [] KEmpty) l)) = true.
Proof.
  intros g l; induction l as [|x r IH]; intros W lv Hin; [destruct Hin|]. cbn [map owned_after].
  destruct Hin as [->|Hin]; [|apply IH; exact Hin].
  apply owned_persist; [cbn; rewrite Nat.eqb_refl, eqb_reflx; reflexivity | rewrite level_writes_removed; reflexivity].
Qed.

Lemma level_appends_wf : forall g deps (F : nat * nat -> cfn) evs W,
  (forall e, In e evs -> fs_mem (NLevel (fst e) (fg_ext g)) W = true) ->
  forallb (fun d => fs_mem d W) deps = true ->
  cwf W (map (fun e => OAppend (NLevel (fst e) (fg_ext g)) deps (F e)) evs) = true /\
  cowned W (map (fun e => OAppend (NLevel (fst e) (fg_ext g)) deps (F e)) evs) = W.
Proof.
  intros g deps F evs W; induction evs as [|e r IH]; intros He Hd; cbn; [split; reflexivity|].
  rewrite (He e (or_introl eq_refl)), Hd; cbn. apply IH; [intros x Hx; apply He; right; exact Hx | exact Hd].
Qed.

Lemma forallb_mem_intro : forall W deps, (forall d, In d deps -> fs_mem d W = true) ->
  forallb (fun d => fs_mem d W) deps = true.
Proof. intros W deps H; apply forallb_forall; exact H. Qed.

Lemma level_ops_wf : forall g pfx rows W,
  (forall n, In n (fs_chunk_names g pfx rows) -> fs_mem n W = true) ->
  cwf W (fs_level_ops g pfx rows) = true /\
  removed (fs_level_ops g pfx rows) = [] /\
  forall lv, (lv < fg_nlevels g)%nat -> fs_mem (NLevel lv (fg_ext g)) (cowned W (fs_level_ops g pfx rows)) = true.
Proof.
  intros g pfx rows W Hch. unfold fs_level_ops.
  set (wr := map (fun lv => OWrite (NLevel lv (fg_ext g)) [] KEmpty) (seq 0 (fg_nlevels g))).
  set (evs := fs_level_events _ _ _ _).
  set (W1 := cowned W wr).
  assert (HL : forall lv, (lv < fg_nlevels g)%nat -> fs_mem (NLevel lv (fg_ext g)) W1 = true).
  { intros lv Hlv; apply level_writes_owned; apply in_seq; lia. }
  assert (HS : fs_sub W W1) by (apply owned_sub; apply level_writes_removed).
  destruct (level_appends_wf g (fs_chunk_names g pfx rows)
              (fun e => KLevelBatch (fg_c g) (fg_dedup g) (fg_nlevels g) (fst e) (snd e)) evs W1) as [Hwf How].
  { intros e He; apply HL; eapply level_events_lt; exact He. }
  { apply forallb_mem_intro; intros d Hd; apply HS; apply Hch; exact Hd. }
  rewrite wf_ops_app, owned_after_app, removed_app. fold W1.
  rewrite Hwf, How. unfold wr at 1; rewrite level_writes_wf. repeat split.
  - unfold wr; rewrite level_writes_removed; cbn.
    clear; induction evs as [|e r IH]; cbn; [reflexivity | exact IH].
  - exact HL.
Qed.

(* ---- phase D: chunk files are removed ---- *)
Lemma unlinks_wf : forall ns W, NoDup ns -> (forall n, In n ns -> fs_mem n W = true) ->
  cwf W (map OUnlink ns) = true /\
  (forall m, fs_mem m (cowned W (map OUnlink ns)) = fs_mem m W && negb (fs_mem m ns)).
Proof.
  induction ns as [|n r IH]; intros W Hnd HW; cbn.
  - split; [reflexivity | intro m; rewrite andb_true_r; reflexivity].
  - inversion Hnd as [|? ? Hnot Hnd']; subst.
    rewrite (HW n (or_introl eq_refl)); cbn.
    destruct (IH (fs_remove n W) Hnd') as [Hwf Hmem].
    { intros m Hm. rewrite fs_mem_remove, (HW m (or_intror Hm)); cbn.
      apply negb_true_iff, fname_eqb_neq. intros ->; contradiction. }
    split; [exact Hwf|]. intro m. rewrite Hmem, fs_mem_remove, negb_orb, andb_assoc. reflexivity.
Qed.

Lemma removed_unlinks : forall (ns : list fname), removed (map (@OUnlink cfn) ns) = ns.
Proof. induction ns as [|n r IH]; cbn; [reflexivity | rewrite IH; reflexivity]. Qed.

(* ---- phase E: result rows, level files removed ---- *)
Definition result_step (g : fs_cfg) (pfx : Z) (il : nat * list cf_row) : list cop :=
  let '(lv, rows) := il in
  flat_map (fun b => OAppend (NResult pfx false lv) [NLevel lv (fg_ext g)] (KResultBatch (fg_c g) lv false b) ::
                     (if fg_decoys g
                      then [OAppend (NResult pfx true lv) [NLevel lv (fg_ext g)] (KResultBatch (fg_c g) lv true b)]
                      else []))
           (seq 0 (length (pc_chunks (fg_c g) rows)))
  ++ [OUnlink (NLevel lv (fg_ext g))].

Lemma result_ops_eq_gen : forall g pfx levels,
  fs_result_ops g pfx levels = flat_map (result_step g pfx) (combine (fs_res_levels g) levels).
Proof. reflexivity. Qed.

Lemma result_appends : forall g pfx lv bs W,
  fs_mem (NResult pfx false lv) W = true -> (fg_decoys g = true -> fs_mem (NResult pfx true lv) W = true) ->
  fs_mem (NLevel lv (fg_ext g)) W = true ->
  let ops := flat_map (fun b => OAppend (NResult pfx false lv) [NLevel lv (fg_ext g)] (KResultBatch (fg_c g) lv false b) ::
                     (if fg_decoys g
                      then [OAppend (NResult pfx true lv) [NLevel lv (fg_ext g)] (KResultBatch (fg_c g) lv true b)]
                      else [])) bs in
  cwf W ops = true /\ cowned W ops = W /\ removed ops = [].
Proof.
  intros g pfx lv bs W H0 H1 HL; induction bs as [|b r IH]; cbn; [repeat split|].
  rewrite H0, HL; cbn. destruct (fg_decoys g); cbn.
  - rewrite (H1 eq_refl), HL; cbn. exact IH.
  - exact IH.
Qed.

Lemma result_steps_wf : forall g pfx l W,
  NoDup (map fst l) ->
  (forall lv rows, In (lv, rows) l ->
     fs_mem (NResult pfx false lv) W = true /\ (fg_decoys g = true -> fs_mem (NResult pfx true lv) W = true) /\
     fs_mem (NLevel lv (fg_ext g)) W = true) ->
  cwf W (flat_map (result_step g pfx) l) = true /\
  forallb is_level (removed (flat_map (result_step g pfx) l)) = true.
Proof.
  intros g pfx l; induction l as [|[lv rows] r IH]; intros W Hnd HW; cbn [flat_map]; [split; reflexivity|].
  destruct (HW lv rows (or_introl eq_refl)) as [H0 [H1 HL]].
  cbn [map fst] in Hnd. inversion Hnd as [|? ? Hnot Hnd']; subst.
  unfold result_step at 1 3.
  destruct (result_appends g pfx lv (seq 0 (length (pc_chunks (fg_c g) rows))) W H0 H1 HL) as [Hwf [How Hrm]].
  rewrite !wf_ops_app, !owned_after_app, !removed_app, Hwf, How, Hrm. cbn [wf_ops owned_after removed app].
  rewrite HL. cbn [andb].
  destruct (IH (fs_remove (NLevel lv (fg_ext g)) W) Hnd') as [Hwf' Hrm'].
  { intros lv' rows' Hin. destruct (HW lv' rows' (or_intror Hin)) as [A [B C]].
    rewrite !fs_mem_remove, A, C; cbn. repeat split.
    - intro Hd; rewrite (B Hd); reflexivity.
    - apply negb_true_iff. cbn. apply andb_false_iff; left. apply Nat.eqb_neq.
      intros ->. apply Hnot. apply in_map_iff. exists (lv', rows'); split; [reflexivity | exact Hin]. }
  rewrite Hwf'. split; [reflexivity|]. cbn. exact Hrm'.
Qed.

(* ---- files that are created ---- *)
Section Created.
Variable fn : Type.
Fixpoint created (ops : list (op fn)) : list fname :=
  match ops with
  | [] => []
  | OWrite n _ _ :: r => n :: created r
  | OMove _ b :: r => b :: created r
  | OWriteGlob n _ _ :: r => n :: created r
  | _ :: r => created r
  end.

Lemma created_app : forall a b, created (a ++ b) = created a ++ created b.
Proof. induction a as [|o r IH]; intro b; cbn; [reflexivity|]; destruct o; cbn; rewrite ?IH; reflexivity. Qed.

Lemma not_owned_persist : forall ops W n,
  fs_mem n W = false -> fs_mem n (created ops) = false -> fs_mem n (owned_after fn W ops) = false.
Proof.
  induction ops as [|o r IH]; intros W n HW HC; cbn in *; [exact HW|].
  destruct o as [m deps f | m deps f | m | src dst | m p f | p]; cbn in HC.
  - apply orb_false_iff in HC; destruct HC as [E HC]. apply IH; [cbn; rewrite E, HW; reflexivity | exact HC].
  - apply IH; assumption.
  - apply IH; [rewrite fs_mem_remove, HW; reflexivity | exact HC].
  - apply orb_false_iff in HC; destruct HC as [E HC].
    apply IH; [cbn; rewrite E, fs_mem_remove, HW; reflexivity | exact HC].
  - apply orb_false_iff in HC; destruct HC as [E HC]. apply IH; [cbn; rewrite E, HW; reflexivity | exact HC].
  - apply IH; assumption.
Qed.

Lemma removed_not_owned : forall ops W n,
  fs_mem n (removed ops) = true -> fs_mem n (created ops) = false -> fs_mem n (owned_after fn W ops) = false.
Proof.
  induction ops as [|o r IH]; intros W n HR HC; cbn in *; [discriminate|].
  destruct o as [m deps f | m deps f | m | src dst | m p f | p]; cbn in HC, HR.
  - apply orb_false_iff in HC; destruct HC as [_ HC]. apply IH; assumption.
  - apply IH; assumption.
  - destruct (fname_eqb m n) eqn:E; cbn in HR.
    + destruct (fs_mem n (removed r)) eqn:E2; [apply IH; [exact E2 | exact HC]|].
      apply not_owned_persist; [rewrite fs_mem_remove, E, andb_false_r; reflexivity | exact HC].
    + apply IH; assumption.
  - apply orb_false_iff in HC; destruct HC as [Ed HC].
    destruct (fname_eqb src n) eqn:E; cbn in HR.
    + destruct (fs_mem n (removed r)) eqn:E2; [apply IH; [exact E2 | exact HC]|].
      apply not_owned_persist; [cbn; rewrite Ed, fs_mem_remove, E, andb_false_r; reflexivity | exact HC].
    + apply IH; assumption.
  - apply orb_false_iff in HC; destruct HC as [_ HC]. apply IH; assumption.
  - apply IH; assumption.
Qed.
End Created.
Arguments created {fn}.

Lemma created_flat_map_forall : forall {A} (P : fname -> bool) (F : A -> list cop) l,
  (forall x, In x l -> forallb P (created (F x)) = true) -> forallb P (created (flat_map F l)) = true.
Proof.
  intros A P F l H; induction l as [|x r IH]; cbn; [reflexivity|].
  rewrite created_app, forallb_app, (H x (or_introl eq_refl)), IH; [reflexivity|].
  intros y Hy; apply H; right; exact Hy.
Qed.

Lemma forallb_not_mem : forall (P : fname -> bool) l n, forallb P l = true -> P n = false -> fs_mem n l = false.
Proof.
  intros P l n H Hn; induction l as [|x r IH]; cbn in *; [reflexivity|].
  apply andb_true_iff in H; destruct H as [Hx Hr]. rewrite (IH Hr), orb_false_r.
  apply fname_eqb_neq; intros ->; rewrite Hn in Hx; discriminate.
Qed.

(* created / removed names of the phases *)
Lemma inits_created : forall g pfx ap, forallb is_result (created (fs_result_inits g pfx ap)) = true.
Proof.
  intros g pfx [|]; [reflexivity|]. rewrite inits_eq_gen. apply created_flat_map_forall.
  intros lv _; unfold init_step; destruct (fg_decoys g); reflexivity.
Qed.

Lemma chunk_ops_created : forall g pfx rows n,
  fs_mem n (created (fs_chunk_ops g pfx rows)) = true -> In n (fs_chunk_names g pfx rows).
Proof.
  intros g pfx rows n. rewrite chunk_ops_eq. unfold fs_chunk_names.
  set (chs := fs_chunk_rows g rows). generalize 0%nat as s.
  induction chs as [|ch r IH]; intros s; cbn [length seq combine flat_map map]; [discriminate|].
  rewrite created_app, fs_mem_app. intro H; apply orb_true_iff in H; destruct H as [H|H].
  - left. unfold chunk_step in H. destruct (fg_ext g); cbn [created fs_mem] in H; rewrite orb_false_r in H;
      apply fname_eqb_eq in H; exact H.
  - right. apply IH; exact H.
Qed.

Lemma chunk_names_are_chunks : forall g pfx rows n, In n (fs_chunk_names g pfx rows) -> is_chunk n = true.
Proof. intros g pfx rows n H; apply in_map_iff in H; destruct H as [i [<- _]]; reflexivity. Qed.

Lemma level_ops_created : forall g pfx rows n,
  fs_mem n (created (fs_level_ops g pfx rows)) = true ->
  exists lv, (lv < fg_nlevels g)%nat /\ n = NLevel lv (fg_ext g).
Proof.
  intros g pfx rows n. unfold fs_level_ops. rewrite created_app, fs_mem_app.
  assert (E : forall evs, created (map (fun e : nat * nat => OAppend (NLevel (fst e) (fg_ext g)) (fs_chunk_names g pfx rows)
                (KLevelBatch (fg_c g) (fg_dedup g) (fg_nlevels g) (fst e) (snd e))) evs) = []).
  { induction evs as [|e r IH]; cbn; [reflexivity | exact IH]. }
  rewrite E; cbn [fs_mem]; rewrite orb_false_r.
  assert (G : forall l, fs_mem n (created (map (fun lv => OWrite (NLevel lv (fg_ext g)) [] KEmpty) l)) = true ->
                        exists lv, In lv l /\ n = NLevel lv (fg_ext g)).
  { induction l as [|x r IH]; cbn [map created fs_mem]; [discriminate|]. intro H; apply orb_true_iff in H; destruct H as [H|H].
    - apply fname_eqb_eq in H; exists x; split; [left; reflexivity | symmetry; exact H].
    - destruct (IH H) as [lv [A B]]; exists lv; split; [right; exact A | exact B]. }
  intro H; destruct (G _ H) as [lv [A B]]. exists lv; split; [apply in_seq in A; lia | exact B].
Qed.

Lemma result_ops_created : forall g pfx levels, created (fs_result_ops g pfx levels) = [].
Proof.
  intros g pfx levels. rewrite result_ops_eq_gen.
  induction (combine (fs_res_levels g) levels) as [|[lv rows] r IH]; cbn [flat_map]; [reflexivity|].
  rewrite created_app, IH, app_nil_r. unfold result_step. rewrite created_app. cbn. rewrite app_nil_r.
  induction (seq 0 (length (pc_chunks (fg_c g) rows))) as [|b bs IHb]; cbn; [reflexivity|].
  destruct (fg_decoys g); cbn; exact IHb.
Qed.

Lemma combine_seq_nth : forall {A} (l : list (list A)) s i, (i < length l)%nat ->
  In ((s + i)%nat, nth i l []) (combine (seq s (length l)) l).
Proof.
  intros A l; induction l as [|x r IH]; intros s i Hi; cbn in *; [lia|].
  destruct i as [|i]; [left; rewrite Nat.add_0_r; reflexivity|].
  right. replace (s + S i)%nat with (S s + i)%nat by lia. apply IH; lia.
Qed.

Lemma nodup_fst_combine : forall {A B} (a : list A) (b : list B), NoDup a -> NoDup (map fst (combine a b)).
Proof.
  intros A B a; induction a as [|x r IH]; intros b Hnd; cbn; [constructor|].
  destruct b as [|y b']; cbn; [constructor|]. inversion Hnd as [|? ? Hnot Hnd']; subst.
  constructor; [|apply IH; exact Hnd'].
  intro Hin. apply in_map_iff in Hin. destruct Hin as [[x' y'] [E Hin]]. cbn in E; subst x'.
  apply in_combine_l in Hin. contradiction.
Qed.

Lemma cf_levels_length : forall c cd dedup n rows,
  length (cf_levels cf_row cf_score cf_lkey c cd dedup n rows) = n.
Proof. intros; rewrite (levels_unfold cf_row cf_score cf_lkey), map_length, seq_length; reflexivity. Qed.

(* ---- one collection ---- *)
(* number of levels with result files: the protein level comes after the rollup levels *)
Definition fs_nres (g : fs_cfg) : nat := if fg_proteins g then S (fg_nlevels g) else fg_nlevels g.

Lemma res_levels_seq : forall g, fs_res_levels g = seq 0 (fs_nres g).
Proof. intro g; unfold fs_res_levels, fs_nres; destruct (fg_proteins g); reflexivity. Qed.

Definition results_in (g : fs_cfg) (pfx : Z) (W : list fname) : Prop :=
  forall lv, (lv < fs_nres g)%nat ->
    fs_mem (NResult pfx false lv) W = true /\ (fg_decoys g = true -> fs_mem (NResult pfx true lv) W = true).

(* a protein level needs a peptide level to read from, and its oracle *)
Definition prot_ok (g : fs_cfg) (cl : fs_coll) : Prop :=
  fg_proteins g = true -> (1 < fg_nlevels g)%nat /\ fc_prot cl <> None.

Lemma coll_ops_shape_g : forall g ap cl, fg_glob g = false ->
  fs_coll_ops g ap cl =
  fs_result_inits g (fc_pfx cl) ap ++ fs_chunk_ops g (fc_pfx cl) (fc_rows cl) ++
  (fs_level_ops g (fc_pfx cl) (fc_rows cl) ++ map OUnlink (fs_chunk_names g (fc_pfx cl) (fc_rows cl))) ++
  fs_prot_ops g cl ++
  fs_result_ops g (fc_pfx cl)
    (cf_levels cf_row cf_score cf_lkey (fg_c g) (fg_dedup g) (fg_dedup g) (fg_nlevels g) (fc_rows cl) ++ fs_prot_levels g cl).
Proof. intros g ap cl H; unfold fs_coll_ops; rewrite H; reflexivity. Qed.

Lemma prot_ops_cases : forall g cl, prot_ok g cl ->
  (fg_proteins g = false /\ fs_prot_ops g cl = [] /\ fs_prot_levels g cl = []) \/
  (fg_proteins g = true /\ (1 < fg_nlevels g)%nat /\ exists ids prows,
     fs_prot_ops g cl = [OWrite (NLevel (fg_nlevels g) (fg_ext g)) [NLevel 1 (fg_ext g)] (KProteins ids prows)] /\
     fs_prot_levels g cl = [prows]).
Proof.
  intros g cl Hok. unfold fs_prot_ops, fs_prot_levels, prot_ok in *. destruct (fg_proteins g) eqn:Ep.
  - right. destruct (Hok eq_refl) as [Hnl Hpr]. split; [reflexivity|]. split; [exact Hnl|].
    destruct (fc_prot cl) as [[ids prows]|]; [|congruence]. exists ids, prows. split; reflexivity.
  - left. repeat split.
Qed.

Lemma coll_ops_wf : forall g ap cl W, fg_glob g = false -> prot_ok g cl ->
  (ap = true -> results_in g (fc_pfx cl) W) ->
  cwf W (fs_coll_ops g ap cl) = true /\
  results_in g (fc_pfx cl) (cowned W (fs_coll_ops g ap cl)) /\
  (forall n, is_result n = true -> fs_mem n W = true -> fs_mem n (cowned W (fs_coll_ops g ap cl)) = true) /\
  (forall n, is_result n = false -> fs_mem n W = false -> fs_mem n (cowned W (fs_coll_ops g ap cl)) = false).
Proof.
  intros g ap cl W Hg Hok Hap. rewrite (coll_ops_shape_g g ap cl Hg).
  set (pfx := fc_pfx cl). set (rows := fc_rows cl).
  set (A := fs_result_inits g pfx ap). set (B := fs_chunk_ops g pfx rows).
  set (C := fs_level_ops g pfx rows). set (names := fs_chunk_names g pfx rows).
  set (levels := cf_levels _ _ _ _ _ _ _ _).
  set (P := fs_prot_ops g cl). set (pl := fs_prot_levels g cl).
  set (E := fs_result_ops g pfx (levels ++ pl)).
  set (W1 := cowned W A). set (W2 := cowned W1 B). set (W3 := cowned W2 C).
  set (W4 := cowned W3 (map OUnlink names)). set (W5 := cowned W4 P).
  (* results are owned after A *)
  assert (R1 : results_in g pfx W1).
  { intros lv Hlv. destruct ap.
    - unfold W1, A; cbn. apply (Hap eq_refl); exact Hlv.
    - unfold W1, A. rewrite inits_eq_gen, res_levels_seq. split; [|intro Hd];
        apply init_steps_owned; try (apply in_seq; lia); [discriminate | intros _; exact Hd]. }
  assert (S12 : fs_sub W1 W2) by (apply owned_sub; unfold B; rewrite chunk_ops_eq; apply chunk_steps_removed).
  assert (N2 : forall n, In n names -> fs_mem n W2 = true) by (intros n Hn; apply chunk_ops_owned; exact Hn).
  destruct (level_ops_wf g pfx rows W2 N2) as [WfC [RmC LvC]]. fold C in WfC, RmC, LvC. fold W3 in LvC.
  assert (S23 : fs_sub W2 W3) by (apply owned_sub; exact RmC).
  destruct (unlinks_wf names W3 (chunk_names_nodup g pfx rows)) as [WfD MemD].
  { intros n Hn; apply S23, N2; exact Hn. }
  fold W4 in MemD.
  assert (notname : forall n, is_chunk n = false -> fs_mem n names = false).
  { intros n Hn. destruct (fs_mem n names) eqn:E1; [|reflexivity].
    apply fs_mem_In in E1. apply chunk_names_are_chunks in E1. rewrite E1 in Hn; discriminate. }
  assert (R4 : results_in g pfx W4).
  { intros lv Hlv. destruct (R1 lv Hlv) as [H0 H1]. split; [|intro Hd].
    - rewrite MemD, (S23 _ (S12 _ H0)), notname; reflexivity.
    - rewrite MemD, (S23 _ (S12 _ (H1 Hd))), notname; reflexivity. }
  assert (L4 : forall lv, (lv < fg_nlevels g)%nat -> fs_mem (NLevel lv (fg_ext g)) W4 = true).
  { intros lv Hlv. rewrite MemD, (LvC lv Hlv), notname; reflexivity. }
  (* the protein step *)
  assert (Hlen : length levels = fg_nlevels g) by apply cf_levels_length.
  assert (HP : cwf W4 P = true /\ removed P = [] /\ fs_sub W4 W5 /\
               (forall lv, (lv < fs_nres g)%nat -> fs_mem (NLevel lv (fg_ext g)) W5 = true) /\
               length (levels ++ pl) = fs_nres g /\
               (forall n, fs_mem n (created P) = true -> n = NLevel (fg_nlevels g) (fg_ext g) /\ fg_proteins g = true) /\
               (forall n, fs_mem n W4 = false -> fs_mem n (created P) = false -> fs_mem n W5 = false)).
  { unfold W5. destruct (prot_ops_cases g cl Hok) as [[Ep [EP Epl]] | [Ep [Hnl [ids [prows [EP Epl]]]]]]; fold P pl in EP, Epl; rewrite EP, Epl.
    - cbn [wf_ops owned_after removed created fs_mem]. unfold fs_nres. rewrite Ep, app_nil_r.
      split; [reflexivity|]. split; [reflexivity|]. split; [apply fs_sub_refl|]. split; [exact L4|].
      split; [exact Hlen|]. split; [intros n Hn; discriminate | intros n Hn _; exact Hn].
    - cbn [wf_ops owned_after removed created forallb]. unfold fs_nres. rewrite Ep.
      rewrite (L4 1%nat Hnl). cbn [andb].
      split; [reflexivity|]. split; [reflexivity|].
      split; [intros n Hn; cbn [fs_mem]; rewrite Hn, orb_true_r; reflexivity|].
      split.
      { intros lv Hlv. cbn [fs_mem]. destruct (Nat.eq_dec lv (fg_nlevels g)) as [->|N].
        - rewrite fname_eqb_refl. reflexivity.
        - rewrite (L4 lv ltac:(lia)), orb_true_r. reflexivity. }
      split; [rewrite app_length, Hlen; cbn; lia|].
      split.
      { intros n Hn. cbn [fs_mem] in Hn. rewrite orb_false_r in Hn. apply fname_eqb_eq in Hn. split; [symmetry; exact Hn | reflexivity]. }
      intros n Hn Hc. cbn [fs_mem] in *. rewrite orb_false_r in Hc. rewrite Hc, Hn. reflexivity. }
  destruct HP as [WfP [RmP [S45 [L5 [Hlen5 [CrP KeepP]]]]]].
  assert (R5 : results_in g pfx W5).
  { intros lv Hlv. destruct (R4 lv Hlv) as [H0 H1]. split; [apply S45; exact H0 | intro Hd; apply S45, H1; exact Hd]. }
  destruct (result_steps_wf g pfx (combine (seq 0 (fs_nres g)) (levels ++ pl)) W5) as [WfE RmE].
  { apply nodup_fst_combine, seq_NoDup. }
  { intros lv rws Hin. apply in_combine_l in Hin. apply in_seq in Hin.
    destruct (R5 lv) as [H0 H1]; [lia|]. repeat split; [exact H0 | exact H1 | apply L5; lia]. }
  assert (EE : E = flat_map (result_step g pfx) (combine (seq 0 (fs_nres g)) (levels ++ pl))).
  { unfold E. rewrite result_ops_eq_gen, res_levels_seq. reflexivity. }
  rewrite <- EE in WfE, RmE.
  (* assemble *)
  rewrite !wf_ops_app, !owned_after_app. fold W1 W2 W3 W4 W5.
  assert (RmAll : forall n, is_result n = true ->
            fs_mem n (removed (A ++ B ++ (C ++ map OUnlink names) ++ P ++ E)) = false).
  { intros n Hn. rewrite !removed_app. unfold A; rewrite inits_removed.
    unfold B; rewrite chunk_ops_eq, chunk_steps_removed. rewrite RmC, removed_unlinks, RmP. cbn [app].
    rewrite fs_mem_app. rewrite notname by (destruct n; try discriminate; reflexivity). cbn [orb].
    apply (forallb_not_mem is_level); [exact RmE | destruct n; try discriminate; reflexivity]. }
  split; [|split; [|split]].
  - unfold A; rewrite inits_wf. unfold B; rewrite chunk_ops_eq, chunk_steps_wf. rewrite WfC, WfD, WfP, WfE. reflexivity.
  - intros lv Hlv. destruct (R5 lv Hlv) as [H0 H1]. split; [|intro Hd].
    + apply owned_persist; [exact H0 | apply (forallb_not_mem is_level); [exact RmE | reflexivity]].
    + apply owned_persist; [exact (H1 Hd) | apply (forallb_not_mem is_level); [exact RmE | reflexivity]].
  - intros n Hn HW.
    pose proof (owned_persist cfn (A ++ B ++ (C ++ map OUnlink names) ++ P ++ E) W n HW (RmAll n Hn)) as Q.
    rewrite !owned_after_app in Q. exact Q.
  - intros n Hn HW.
    assert (F1 : fs_mem n W1 = false).
    { apply not_owned_persist; [exact HW|]. apply (forallb_not_mem is_result); [apply inits_created | exact Hn]. }
    (* a level file of this run (rollup level or protein level) is removed in phase E *)
    assert (LevelGone : forall lv, (lv < fs_nres g)%nat -> n = NLevel lv (fg_ext g) -> fs_mem n (cowned W5 E) = false).
    { intros lv Hlv ->. apply removed_not_owned; [|unfold E; rewrite result_ops_created; reflexivity].
      rewrite EE.
      assert (Hin : In (lv, nth lv (levels ++ pl) []) (combine (seq 0 (fs_nres g)) (levels ++ pl))).
      { rewrite <- Hlen5. rewrite <- Hlen5 in Hlv. apply (combine_seq_nth (levels ++ pl) 0 lv Hlv). }
      revert Hin. generalize (combine (seq 0 (fs_nres g)) (levels ++ pl)) as l.
      induction l as [|y r IH]; intros Hin; [destruct Hin|]. cbn [flat_map]. rewrite removed_app, fs_mem_app.
      destruct Hin as [->|Hin]; [|rewrite (IH Hin), orb_true_r; reflexivity].
      unfold result_step. rewrite removed_app, fs_mem_app. cbn. rewrite Nat.eqb_refl, eqb_reflx, !orb_true_r. reflexivity. }
    destruct (fs_mem n names) eqn:Enames.
    + (* one of this run's chunk files: removed in phase D, never created again *)
      apply not_owned_persist; [|unfold E; rewrite result_ops_created; reflexivity].
      apply KeepP; [rewrite MemD, Enames, andb_false_r; reflexivity|].
      destruct (fs_mem n (created P)) eqn:EP; [|reflexivity]. destruct (CrP n EP) as [-> _].
      apply fs_mem_In in Enames. apply chunk_names_are_chunks in Enames. discriminate.
    + assert (F2 : fs_mem n W2 = false).
      { apply not_owned_persist; [exact F1|]. destruct (fs_mem n (created B)) eqn:EB; [|reflexivity].
        apply chunk_ops_created in EB. apply fs_mem_In in EB. unfold names in Enames. rewrite EB in Enames; discriminate. }
      destruct (fs_mem n (created C)) eqn:EC.
      * apply level_ops_created in EC. destruct EC as [lv [Hlv Heq]].
        apply (LevelGone lv); [unfold fs_nres; destruct (fg_proteins g); lia | exact Heq].
      * destruct (fs_mem n (created P)) eqn:EP.
        -- destruct (CrP n EP) as [Heq Ep]. apply (LevelGone (fg_nlevels g)); [unfold fs_nres; rewrite Ep; lia | exact Heq].
        -- assert (F3 : fs_mem n W3 = false) by (apply not_owned_persist; [exact F2 | exact EC]).
           apply not_owned_persist; [|unfold E; rewrite result_ops_created; reflexivity].
           apply KeepP; [rewrite MemD, F3; reflexivity | exact EP].
Qed.

(* ---- the whole run ---- *)
Lemma colls_ops_wf : forall g cls seen W, fg_glob g = false -> fg_append g = false ->
  (forall cl, In cl cls -> prot_ok g cl) ->
  (seen = true -> results_in g 0 W) ->
  cwf W (fs_colls_ops g seen cls) = true /\
  (forall cl, In cl cls -> results_in g (fc_pfx cl) (cowned W (fs_colls_ops g seen cls))) /\
  (forall n, is_result n = true -> fs_mem n W = true -> fs_mem n (cowned W (fs_colls_ops g seen cls)) = true) /\
  (forall n, is_result n = false -> fs_mem n W = false -> fs_mem n (cowned W (fs_colls_ops g seen cls)) = false).
Proof.
  intros g cls; induction cls as [|cl r IH]; intros seen W Hg Ha Hok Hseen; cbn [fs_colls_ops].
  - cbn. split; [reflexivity|]. split; [intros cl []|]. split; intros n _ H; exact H.
  - rewrite Ha. cbn [orb].
    assert (Hap' : (seen && (fc_pfx cl =? 0))%bool = true -> results_in g (fc_pfx cl) W).
    { intro E. apply andb_true_iff in E. destruct E as [E1 E2]. apply Z.eqb_eq in E2. rewrite E2. apply Hseen; exact E1. }
    destruct (coll_ops_wf g (seen && (fc_pfx cl =? 0))%bool cl W Hg (Hok cl (or_introl eq_refl)) Hap') as [Wf1 [Res1 [Keep1 Out1]]].
    set (W1 := cowned W (fs_coll_ops g (seen && (fc_pfx cl =? 0))%bool cl)) in *.
    destruct (IH (seen || (fc_pfx cl =? 0))%bool W1 Hg Ha) as [Wf2 [Res2 [Keep2 Out2]]].
    { intros cl' Hin; apply Hok; right; exact Hin. }
    { intro E. apply orb_true_iff in E. destruct E as [E|E].
      - intros lv Hlv. destruct (Hseen E lv Hlv) as [A B]. split; [|intro Hd]; apply Keep1; auto.
      - apply Z.eqb_eq in E. rewrite <- E. exact Res1. }
    rewrite wf_ops_app, owned_after_app. fold W1. rewrite Wf1, Wf2. split; [reflexivity|]. split; [|split].
    + intros cl' [<-|Hin]; [|apply Res2; exact Hin].
      intros lv Hlv. destruct (Res1 lv Hlv) as [A B]. split; [|intro Hd]; apply Keep2; auto.
    + intros n Hn HW. apply Keep2; [exact Hn|]. apply Keep1; assumption.
    + intros n Hn HW. apply Out2; [exact Hn|]. apply Out1; assumption.
Qed.

(* [run_okp]: the general guard (a protein level is allowed when there is a peptide level and the oracle is given);
   [run_ok]: no protein level — the guard of the first refinement theorems in FsValP.v (those for [run_okp] follow them) *)
Definition run_okp (g : fs_cfg) : Prop :=
  fg_glob g = false /\ fg_append g = false /\ forall cl, In cl (fg_colls g) -> prot_ok g cl.
Definition run_ok (g : fs_cfg) : Prop := fg_glob g = false /\ fg_append g = false /\ fg_proteins g = false.

Lemma run_ok_okp : forall g, run_ok g -> run_okp g.
Proof. intros g [Hg [Ha Hp]]. split; [exact Hg|]. split; [exact Ha|]. intros cl _ E. congruence. Qed.

Theorem run_ops_wf : forall g, run_okp g -> cwf [] (fs_run_ops g) = true.
Proof.
  intros g [Hg [Ha Hok]]. unfold fs_run_ops.
  apply (colls_ops_wf g (fg_colls g) false [] Hg Ha Hok). discriminate.
Qed.

Lemma result_names_owned : forall g, run_okp g ->
  forall n, In n (fs_result_names g) -> fs_mem n (cowned [] (fs_run_ops g)) = true.
Proof.
  intros g [Hg [Ha Hok]] n Hn. unfold fs_run_ops.
  destruct (colls_ops_wf g (fg_colls g) false [] Hg Ha Hok) as [_ [Res _]]; [discriminate|].
  unfold fs_result_names in Hn. rewrite res_levels_seq in Hn. apply in_flat_map in Hn. destruct Hn as [cl [Hcl Hn]].
  apply in_flat_map in Hn. destruct Hn as [lv [Hlv Hn]]. apply in_seq in Hlv.
  destruct (Res cl Hcl lv) as [A B]; [lia|].
  destruct Hn as [<-|Hn]; [exact A|].
  destruct (fg_decoys g) eqn:Ed; [|destruct Hn]. destruct Hn as [<-|[]]. apply B; reflexivity.
Qed.

Lemma only_results_owned : forall g, run_okp g ->
  forall n, is_result n = false -> fs_mem n (cowned [] (fs_run_ops g)) = false.
Proof.
  intros g [Hg [Ha Hok]] n Hn. unfold fs_run_ops.
  destruct (colls_ops_wf g (fg_colls g) false [] Hg Ha Hok) as [_ [_ [_ Out]]]; [discriminate|].
  apply Out; [exact Hn | reflexivity].
Qed.

(* results are a function of the run's configuration only: two arbitrary directories *)
Theorem run_independent : forall g sA sB, run_okp g ->
  match fs_run g None sA, fs_run g None sB with
  | Some a, Some b => forall n, In n (fs_result_names g) -> fs_get ccontent a n = fs_get ccontent b n
  | None, None => True
  | _, _ => False
  end.
Proof.
  intros g sA sB Hok. unfold fs_run.
  pose proof (fs_independent ccontent cfn capply ccat (fs_run_ops g) [] sA sB) as H.
  unfold same_outcome in H.
  assert (HA : agree_on ccontent [] sA sB) by (intros n Hn; discriminate).
  specialize (H HA (run_ops_wf g Hok)).
  destruct (exec ccontent cfn capply ccat (fs_run_ops g) sA) as [a|],
           (exec ccontent cfn capply ccat (fs_run_ops g) sB) as [b|]; try exact H.
  intros n Hn. apply H. apply result_names_owned; assumption.
Qed.

(* after a successful run: no chunk file or level file the run used is left *)
Theorem run_no_intermediates : forall g s s', run_okp g -> fs_run g None s = Some s' ->
  forall n, fs_mem n (touched cfn (fs_run_ops g)) = true -> is_result n = false ->
  fs_get ccontent s' n = None.
Proof.
  intros g s s' Hok He n Hn Hr.
  apply (fs_no_intermediates ccontent cfn capply ccat (fs_run_ops g) [] s s' (run_ops_wf g Hok) He n Hn).
  apply only_results_owned; assumption.
Qed.

(* files the run does not name are left exactly as they were (in particular every input file) *)
Theorem run_untouched : forall g s s', run_okp g -> fs_run g None s = Some s' ->
  forall n, fs_mem n (touched cfn (fs_run_ops g)) = false -> fs_get ccontent s' n = fs_get ccontent s n.
Proof.
  intros g s s' Hok He n Hn.
  exact (fs_untouched ccontent cfn capply ccat (fs_run_ops g) [] s s' (run_ops_wf g Hok) He n Hn).
Qed.

(* what a run may touch at all: its own chunk, level and result files *)
Lemma touched_flat_map_forall : forall {A} (P : fname -> bool) (F : A -> list cop) l,
  (forall x, In x l -> forallb P (touched cfn (F x)) = true) -> forallb P (touched cfn (flat_map F l)) = true.
Proof.
  intros A P F l H; induction l as [|x r IH]; cbn; [reflexivity|].
  rewrite touched_app, forallb_app, (H x (or_introl eq_refl)), IH; [reflexivity|].
  intros y Hy; apply H; right; exact Hy.
Qed.

Definition run_file (n : fname) : bool := is_chunk n || is_level n || is_result n.

Lemma touched_map_forall : forall {A} (F : A -> cop) l,
  (forall x, In x l -> forallb run_file (touched cfn [F x]) = true) -> forallb run_file (touched cfn (map F l)) = true.
Proof.
  intros A F l H.
  assert (E : map F l = flat_map (fun x => [F x]) l) by (clear H; induction l as [|x r IH]; cbn; [reflexivity | rewrite IH; reflexivity]).
  rewrite E. apply touched_flat_map_forall; exact H.
Qed.

(* with or without protein level (the protein-level file is a level file) *)
Theorem run_touches_own_files_g : forall g, fg_glob g = false ->
  forallb run_file (touched cfn (fs_run_ops g)) = true.
Proof.
  intros g Hg. unfold fs_run_ops. generalize false as seen.
  induction (fg_colls g) as [|cl r IH]; intro seen; cbn [fs_colls_ops]; [reflexivity|].
  rewrite touched_app, forallb_app, IH, andb_true_r.
  set (ap := (fg_append g || (seen && (fc_pfx cl =? 0)))%bool).
  rewrite (coll_ops_shape_g g ap cl Hg), !touched_app, !forallb_app.
  repeat (apply andb_true_iff; split).
  - destruct ap; [reflexivity|]. rewrite inits_eq_gen. apply touched_flat_map_forall.
    intros lv _; unfold init_step; destruct (fg_decoys g); reflexivity.
  - rewrite chunk_ops_eq. apply touched_flat_map_forall.
    intros [i ch] _; unfold chunk_step; destruct (fg_ext g); reflexivity.
  - unfold fs_level_ops. rewrite touched_app, forallb_app. apply andb_true_iff; split;
      apply touched_map_forall; intros; reflexivity.
  - apply touched_map_forall. intros n Hn. apply chunk_names_are_chunks in Hn. cbn. unfold run_file. rewrite Hn. reflexivity.
  - unfold fs_prot_ops. destruct (fg_proteins g); [|reflexivity]. destruct (fc_prot cl) as [[ids prows]|]; reflexivity.
  - rewrite result_ops_eq_gen. apply touched_flat_map_forall. intros [lv rows] _. unfold result_step.
    rewrite touched_app, forallb_app. apply andb_true_iff; split; [|reflexivity].
    apply touched_flat_map_forall. intros b _. destruct (fg_decoys g); reflexivity.
Qed.

Theorem run_touches_own_files : forall g, fg_glob g = false -> fg_proteins g = false ->
  forallb run_file (touched cfn (fs_run_ops g)) = true.
Proof. intros g Hg _. apply run_touches_own_files_g. exact Hg. Qed.

(* ---- the code before the repair: chunk files found by glob ---- *)
Definition gl_row (id spec : Z) (t : bool) (sc : Z) : cf_row :=
  {| cf_id := id; cf_spec := spec; cf_keys := [id]; cf_target := t; cf_score := sc |}.
Definition gl_cfg (glob : bool) : fs_cfg :=
  {| fg_ext := false; fg_c := 10; fg_dedup := true; fg_nlevels := 1; fg_decoys := false; fg_append := false;
     fg_glob := glob; fg_proteins := false;
     fg_colls := [ {| fc_pfx := 0; fc_rows := [gl_row 1 1 true 5; gl_row 2 2 true 3]; fc_prot := None |} ] |}.
(* a chunk file left behind by an earlier run that was killed: index 5, a foreign PSM *)
Definition gl_stale : cfs := [ (NChunk 0 5 false, fs_plain [gl_row 99 99 true 4]) ].

Theorem run_glob_refuted :
  exists g sA sB n, fg_glob g = true /\ In n (fs_result_names g) /\
    match fs_run g None sA, fs_run g None sB with
    | Some a, Some b => fs_get ccontent a n <> fs_get ccontent b n
    | _, _ => False
    end.
Proof.
  exists (gl_cfg true), gl_stale, [], (NResult 0 false 0).
  split; [reflexivity|]. split; [left; reflexivity|].
  vm_compute. intro H. discriminate H.
Qed.

(* ======================= PIN verify step ======================= *)
Notation pwf := (wf_ops pfn).

Lemma verify_ops_wf : forall p txt, pwf [NPin p] (fs_verify_ops false p txt) = true.
Proof.
  intros p txt. unfold fs_verify_ops. destruct (is_valid txt) as [[|]|e]; try reflexivity.
  cbn. rewrite !Z.eqb_refl. reflexivity.
Qed.

(* the user's file after the verify step depends on the user's file only *)
Theorem verify_independent : forall p sA sB,
  fs_get str sA (NPin p) = fs_get str sB (NPin p) ->
  match fs_verify false p sA, fs_verify false p sB with
  | Some a, Some b => fs_get str a (NPin p) = fs_get str b (NPin p)
  | None, None => True
  | _, _ => False
  end.
Proof.
  intros p sA sB Hpin. unfold fs_verify. rewrite <- Hpin.
  destruct (fs_get str sA (NPin p)) as [txt|] eqn:Etxt; [|exact I].
  pose proof (fs_independent str pfn papply pcat (fs_verify_ops false p txt) [NPin p] sA sB) as H.
  assert (HA : agree_on str [NPin p] sA sB).
  { intros n Hn. cbn [fs_mem] in Hn. rewrite orb_false_r in Hn. apply fname_eqb_eq in Hn. subst n. rewrite Etxt, <- Hpin. reflexivity. }
  specialize (H HA (verify_ops_wf p txt)). unfold same_outcome in H.
  destruct (exec str pfn papply pcat _ sA) as [a|], (exec str pfn papply pcat _ sB) as [b|]; try exact H.
  apply H. unfold fs_verify_ops. destruct (is_valid txt) as [[|]|e]; cbn; rewrite Z.eqb_refl; reflexivity.
Qed.

(* and the temporary file is gone afterwards *)
Theorem verify_no_tmp : forall p s s' txt,
  fs_get str s (NPin p) = Some txt -> is_valid txt = Ok false ->
  fs_verify false p s = Some s' -> fs_get str s' (NTmpTsv p) = None.
Proof.
  intros p s s' txt Hpin Hval He. unfold fs_verify in He. rewrite Hpin in He.
  pose proof (verify_ops_wf p txt) as Hwf.
  unfold fs_verify_ops in *. rewrite Hval in *.
  apply (fs_no_intermediates str pfn papply pcat _ [NPin p] s s' Hwf He); cbn; rewrite ?Z.eqb_refl; reflexivity.
Qed.

(* the code before the repair opened <pin>.tsv in append mode *)
Definition vr_pin : str := [97; 9; 80;114;111;116;101;105;110;115; 10;  49; 9; 112; 9; 113; 10].   (* "a\tProteins\n1\tp\tq\n" *)
Theorem verify_append_refuted :
  exists p sA sB, fs_get str sA (NPin p) = fs_get str sB (NPin p) /\
    match fs_verify true p sA, fs_verify true p sB with
    | Some a, Some b => fs_get str a (NPin p) <> fs_get str b (NPin p)
    | _, _ => False
    end.
Proof.
  exists 1%Z, [(NPin 1, vr_pin); (NTmpTsv 1, [120; 10])], [(NPin 1, vr_pin)].
  split; [reflexivity|]. vm_compute. intro H; discriminate H.
Qed.
