(* Proofs about Model/Peps.v (C06). *)
From Coq Require Import Lia Lqa Permutation Sorted.
From Mokaverif Require Import Model.Base Model.Peps.
Open Scope Q_scope.

(* ====================== np.maximum / np.minimum / np.clip ====================== *)
Lemma pep_qmax_cases a b : pep_qmax a b = a \/ pep_qmax a b = b.
Proof. unfold pep_qmax. destruct (Qle_bool a b); auto. Qed.

Lemma pep_qmax_ge_l a b : a <= pep_qmax a b.
Proof.
  unfold pep_qmax. destruct (Qle_bool a b) eqn:E; [apply Qle_bool_iff; exact E | apply Qle_refl].
Qed.

Lemma pep_qmax_ge_r a b : b <= pep_qmax a b.
Proof.
  unfold pep_qmax. destruct (Qle_bool a b) eqn:E; [apply Qle_refl|].
  apply Qlt_le_weak, Qnot_le_lt. intros H. apply Qle_bool_iff in H. congruence.
Qed.

Lemma pep_qmax_lub a b c : a <= c -> b <= c -> pep_qmax a b <= c.
Proof. intros. destruct (pep_qmax_cases a b) as [-> | ->]; assumption. Qed.

Lemma pep_qmin_cases a b : pep_qmin a b = a \/ pep_qmin a b = b.
Proof. unfold pep_qmin. destruct (Qle_bool a b); auto. Qed.

Lemma pep_qmin_le_l a b : pep_qmin a b <= a.
Proof.
  unfold pep_qmin. destruct (Qle_bool a b) eqn:E; [apply Qle_refl|].
  apply Qlt_le_weak, Qnot_le_lt. intros H. apply Qle_bool_iff in H. congruence.
Qed.

Lemma pep_qmin_le_r a b : pep_qmin a b <= b.
Proof.
  unfold pep_qmin. destruct (Qle_bool a b) eqn:E; [apply Qle_bool_iff; exact E | apply Qle_refl].
Qed.

Lemma pep_qmin_glb a b c : c <= a -> c <= b -> c <= pep_qmin a b.
Proof. intros. destruct (pep_qmin_cases a b) as [-> | ->]; assumption. Qed.

Lemma pep_qmin_mono a b a' b' : a <= a' -> b <= b' -> pep_qmin a b <= pep_qmin a' b'.
Proof.
  intros Ha Hb. apply pep_qmin_glb.
  - eapply Qle_trans; [apply pep_qmin_le_l | exact Ha].
  - eapply Qle_trans; [apply pep_qmin_le_r | exact Hb].
Qed.

Lemma pep_qmax_mono a b a' b' : a <= a' -> b <= b' -> pep_qmax a b <= pep_qmax a' b'.
Proof.
  intros Ha Hb. apply pep_qmax_lub.
  - eapply Qle_trans; [exact Ha | apply pep_qmax_ge_l].
  - eapply Qle_trans; [exact Hb | apply pep_qmax_ge_r].
Qed.

Lemma pep_clip01_range x : 0 <= pep_clip01 x /\ pep_clip01 x <= 1.
Proof.
  unfold pep_clip01. split; [|apply pep_qmin_le_r].
  apply pep_qmin_glb; [apply pep_qmax_ge_r | discriminate].
Qed.

Lemma pep_clip01_mono x y : x <= y -> pep_clip01 x <= pep_clip01 y.
Proof.
  intros H. unfold pep_clip01. apply pep_qmin_mono; [|apply Qle_refl].
  apply pep_qmax_mono; [exact H | apply Qle_refl].
Qed.

(* ====================== generic list facts ====================== *)
Lemma pep_nth_map {A B} (f : A -> B) l i da db :
  (i < length l)%nat -> nth i (map f l) db = f (nth i l da).
Proof.
  intros H. rewrite (nth_indep _ db (f da)) by (rewrite map_length; exact H). apply map_nth.
Qed.

Lemma pep_ss_nth {A} (R : A -> A -> Prop) l d i j :
  StronglySorted R l -> (i < j < length l)%nat -> R (nth i l d) (nth j l d).
Proof.
  intros H. revert i j. induction H as [|a l Hs IH Hf]; intros i j Hij; [simpl in Hij; lia|].
  destruct j as [|j]; [lia|]. destruct i as [|i].
  - simpl. rewrite Forall_forall in Hf. apply Hf. apply nth_In. simpl in Hij. lia.
  - simpl. apply IH. simpl in Hij. lia.
Qed.

Lemma pep_ss_app {A} (R : A -> A -> Prop) l1 l2 :
  StronglySorted R l1 -> StronglySorted R l2 -> (forall x y, In x l1 -> In y l2 -> R x y) ->
  StronglySorted R (l1 ++ l2).
Proof.
  intros H1 H2 H. induction H1 as [|a l Hs IH Hf]; [exact H2|]. simpl. constructor.
  - apply IH. intros x y Hx Hy. apply H; [right; exact Hx | exact Hy].
  - rewrite Forall_app. split; [exact Hf|]. rewrite Forall_forall. intros y Hy. apply H; [left; reflexivity | exact Hy].
Qed.

Lemma pep_ss_rev {A} (R : A -> A -> Prop) l :
  StronglySorted R l -> StronglySorted (fun a b => R b a) (rev l).
Proof.
  intros H. induction H as [|a l Hs IH Hf]; [constructor|]. simpl. apply pep_ss_app.
  - exact IH.
  - constructor; constructor.
  - intros x y Hx [<-|[]]. rewrite Forall_forall in Hf. apply Hf. apply in_rev. exact Hx.
Qed.

Lemma pep_ss_map {A B} (R : A -> A -> Prop) (S : B -> B -> Prop) (f : A -> B) l :
  (forall a b, R a b -> S (f a) (f b)) -> StronglySorted R l -> StronglySorted S (map f l).
Proof.
  intros Hf H. induction H as [|a l Hs IH Hall]; [constructor|]. simpl. constructor; [exact IH|].
  rewrite Forall_forall in *. intros y Hy. apply in_map_iff in Hy. destruct Hy as (x & <- & Hx).
  apply Hf, Hall, Hx.
Qed.

Lemma pep_ss_filter {A} (R : A -> A -> Prop) (f : A -> bool) l :
  StronglySorted R l -> StronglySorted R (filter f l).
Proof.
  intros H. induction H as [|a l Hs IH Hall]; [constructor|]. simpl.
  destruct (f a); [|exact IH]. constructor; [exact IH|].
  rewrite Forall_forall in *. intros y Hy. apply filter_In in Hy. apply Hall, Hy.
Qed.

Lemma pep_ss_impl {A} (R S : A -> A -> Prop) l :
  (forall a b, R a b -> S a b) -> StronglySorted R l -> StronglySorted S l.
Proof.
  intros HRS H. induction H as [|a l Hs IH Hall]; [constructor|]. constructor; [exact IH|].
  eapply Forall_impl; [|exact Hall]. intros b. apply HRS.
Qed.

(* ====================== running maximum / minimum ====================== *)
Lemma pep_accum_length f m l : length (pep_accum f m l) = length l.
Proof. revert m. induction l as [|x r IH]; intros m; simpl; [reflexivity|]. rewrite IH. reflexivity. Qed.

Lemma pep_monotonize_simple_length asc l : length (pep_monotonize_simple asc l) = length l.
Proof. destruct l as [|x r]; simpl; [reflexivity|]. rewrite pep_accum_length. reflexivity. Qed.

(* the running maximum never decreases, and is at least its seed *)
Lemma pep_accum_max_sorted m l :
  StronglySorted Qle (pep_accum pep_qmax m l) /\ Forall (Qle m) (pep_accum pep_qmax m l).
Proof.
  revert m. induction l as [|x r IH]; intros m; simpl; [split; constructor|].
  destruct (IH (pep_qmax m x)) as [Hs Hf]. split.
  - constructor; [exact Hs | exact Hf].
  - constructor; [apply pep_qmax_ge_l|].
    eapply Forall_impl; [|exact Hf]. intros a Ha. eapply Qle_trans; [apply pep_qmax_ge_l | exact Ha].
Qed.

Lemma pep_cummax_sorted l : StronglySorted Qle (pep_monotonize_simple true l).
Proof.
  destruct l as [|x r]; simpl; [constructor|].
  destruct (pep_accum_max_sorted x r) as [Hs Hf]. constructor; assumption.
Qed.

Lemma pep_accum_min_sorted m l :
  StronglySorted (fun a b => b <= a) (pep_accum pep_qmin m l) /\ Forall (fun a => a <= m) (pep_accum pep_qmin m l).
Proof.
  revert m. induction l as [|x r IH]; intros m; simpl; [split; constructor|].
  destruct (IH (pep_qmin m x)) as [Hs Hf]. split.
  - constructor; [exact Hs | exact Hf].
  - constructor; [apply pep_qmin_le_l|].
    eapply Forall_impl; [|exact Hf]. intros a Ha. eapply Qle_trans; [exact Ha | apply pep_qmin_le_l].
Qed.

Lemma pep_cummin_sorted l : StronglySorted (fun a b => b <= a) (pep_monotonize_simple false l).
Proof.
  destruct l as [|x r]; simpl; [constructor|].
  destruct (pep_accum_min_sorted x r) as [Hs Hf]. constructor; assumption.
Qed.

(* position-wise: an upper bound of everything seen so far, and one of the values seen *)
Lemma pep_accum_max_nth m l p :
  (p < length l)%nat ->
  let v := nth p (pep_accum pep_qmax m l) 0 in
  m <= v /\ (forall q, (q <= p)%nat -> nth q l 0 <= v) /\
  (v = m \/ exists q, (q <= p)%nat /\ v = nth q l 0).
Proof.
  revert m p. induction l as [|x r IH]; intros m p Hp; [simpl in Hp; lia|].
  destruct p as [|p]; simpl.
  - split; [apply pep_qmax_ge_l|]. split.
    + intros q Hq. replace q with 0%nat by lia. apply pep_qmax_ge_r.
    + destruct (pep_qmax_cases m x) as [E|E]; [left; exact E | right; exists 0%nat; split; [lia | exact E]].
  - simpl in Hp. destruct (IH (pep_qmax m x) p ltac:(lia)) as (H1 & H2 & H3). split; [|split].
    + eapply Qle_trans; [apply pep_qmax_ge_l | exact H1].
    + intros [|q] Hq; [eapply Qle_trans; [apply pep_qmax_ge_r | exact H1] | apply H2; lia].
    + destruct H3 as [E | (q & Hq & E)].
      * rewrite E. destruct (pep_qmax_cases m x) as [E'|E']; [left; exact E' | right; exists 0%nat; split; [lia | exact E']].
      * right. exists (S q). split; [lia | exact E].
Qed.

Lemma pep_cummax_nth l p :
  (p < length l)%nat ->
  let v := nth p (pep_monotonize_simple true l) 0 in
  (forall q, (q <= p)%nat -> nth q l 0 <= v) /\ (exists q, (q <= p)%nat /\ v = nth q l 0).
Proof.
  destruct l as [|x r]; intros Hp; [simpl in Hp; lia|]. destruct p as [|p]; simpl.
  - split; [intros q Hq; replace q with 0%nat by lia; apply Qle_refl | exists 0%nat; split; [lia | reflexivity]].
  - simpl in Hp. destruct (pep_accum_max_nth x r p ltac:(lia)) as (H1 & H2 & H3). split.
    + intros [|q] Hq; [exact H1 | apply H2; lia].
    + destruct H3 as [E | (q & Hq & E)]; [exists 0%nat; split; [lia | exact E] | exists (S q); split; [lia | exact E]].
Qed.

Lemma pep_cummax_lower lo l : Forall (Qle lo) l -> Forall (Qle lo) (pep_monotonize_simple true l).
Proof.
  intros H. rewrite Forall_forall. intros v Hv.
  destruct (In_nth _ _ 0 Hv) as (p & Hp & <-). rewrite pep_monotonize_simple_length in Hp.
  destruct (pep_cummax_nth l p Hp) as (_ & q & Hq & ->).
  rewrite Forall_forall in H. apply H. apply nth_In. lia.
Qed.

(* ====================== cumulative sums ====================== *)
Lemma pep_cumsum_from_length acc l : length (pep_cumsum_from acc l) = length l.
Proof. revert acc. induction l as [|x r IH]; intros acc; simpl; [reflexivity|]. rewrite IH. reflexivity. Qed.

Lemma pep_cumsum_from_sorted acc l :
  Forall (Qle 0) l ->
  StronglySorted Qle (pep_cumsum_from acc l) /\ Forall (Qle acc) (pep_cumsum_from acc l).
Proof.
  revert acc. induction l as [|x r IH]; intros acc H; simpl; [split; constructor|].
  inversion H as [|? ? Hx Hr]; subst.
  destruct (IH (Qred (acc + x)) Hr) as [Hs Hf].
  assert (acc <= Qred (acc + x)) as Hle by (rewrite Qred_correct; lra).
  split.
  - constructor; [exact Hs | exact Hf].
  - constructor; [exact Hle|]. eapply Forall_impl; [|exact Hf]. intros a Ha. eapply Qle_trans; [exact Hle | exact Ha].
Qed.

(* rev (cumsum d): never increases, never negative, when d >= 0 *)
Lemma pep_est_sorted d :
  Forall (Qle 0) d -> StronglySorted (fun a b => b <= a) (pep_est d) /\ Forall (Qle 0) (pep_est d).
Proof.
  intros H. unfold pep_est, pep_cumsum. destruct (pep_cumsum_from_sorted 0 d H) as [Hs Hf]. split.
  - apply pep_ss_rev. exact Hs.
  - rewrite Forall_forall in *. intros a Ha. apply Hf. apply in_rev. exact Ha.
Qed.

Lemma pep_est_length d : length (pep_est d) = length d.
Proof. unfold pep_est, pep_cumsum. rewrite rev_length, pep_cumsum_from_length. reflexivity. Qed.

(* ====================== np.interp ====================== *)
(* interpolation weight t = (x - x0) / (x1 - x0) for x0 <= x < x1 *)
Lemma pep_weight_range x x0 x1 :
  (x0 <= x)%Z -> (x < x1)%Z -> 0 <= (x - x0) # Z.to_pos (x1 - x0) /\ (x - x0) # Z.to_pos (x1 - x0) <= 1.
Proof.
  intros H0 H1. unfold Qle. simpl. rewrite Z2Pos.id by lia. split; lia.
Qed.

Lemma pep_weight_mono x x' x0 x1 :
  (x <= x')%Z -> (x - x0) # Z.to_pos (x1 - x0) <= (x' - x0) # Z.to_pos (x1 - x0).
Proof. intros H. unfold Qle. simpl. apply Z.mul_le_mono_nonneg_r; lia. Qed.

Lemma pep_lin_at_x0 x0 x1 y0 y1 : pep_lin x0 x0 x1 y0 y1 == y0.
Proof.
  unfold pep_lin. rewrite Z.sub_diag.
  assert (0 # Z.to_pos (x1 - x0) == 0) as -> by reflexivity. lra.
Qed.

(* the value used inside the segment [x0, x1) *)
Definition pep_seg (x x0 x1 : Z) (y0 y1 : Q) : Q :=
  if (x0 =? x)%Z then y0 else pep_lin x x0 x1 y0 y1.

Lemma pep_seg_lin x x0 x1 y0 y1 : pep_seg x x0 x1 y0 y1 == pep_lin x x0 x1 y0 y1.
Proof.
  unfold pep_seg. destruct (Z.eqb_spec x0 x) as [->|]; [symmetry; apply pep_lin_at_x0 | reflexivity].
Qed.

Lemma pep_lin_ge lo x x0 x1 y0 y1 :
  (x0 <= x)%Z -> (x < x1)%Z -> lo <= y0 -> lo <= y1 -> lo <= pep_lin x x0 x1 y0 y1.
Proof.
  intros H0 H1 L0 L1. unfold pep_lin. destruct (pep_weight_range x x0 x1 H0 H1) as [T0 T1].
  set (t := (x - x0) # Z.to_pos (x1 - x0)) in *. nra.
Qed.

Lemma pep_lin_le hi x x0 x1 y0 y1 :
  (x0 <= x)%Z -> (x < x1)%Z -> y0 <= hi -> y1 <= hi -> pep_lin x x0 x1 y0 y1 <= hi.
Proof.
  intros H0 H1 L0 L1. unfold pep_lin. destruct (pep_weight_range x x0 x1 H0 H1) as [T0 T1].
  set (t := (x - x0) # Z.to_pos (x1 - x0)) in *. nra.
Qed.

Lemma pep_lin_antitone x x' x0 x1 y0 y1 :
  (x <= x')%Z -> y1 <= y0 -> pep_lin x' x0 x1 y0 y1 <= pep_lin x x0 x1 y0 y1.
Proof.
  intros H Hy. unfold pep_lin. pose proof (pep_weight_mono x x' x0 x1 H) as T.
  set (t := (x - x0) # Z.to_pos (x1 - x0)) in *. set (t' := (x' - x0) # Z.to_pos (x1 - x0)) in *. nra.
Qed.

(* the values never increase along the grid *)
Fixpoint pep_ychain (y0 : Q) (rest : list (Z * Q)) : Prop :=
  match rest with
  | [] => True
  | (_, y1) :: r => y1 <= y0 /\ pep_ychain y1 r
  end.

Lemma pep_go_ge lo rest : forall x x0 y0,
  (x0 <= x)%Z -> lo <= y0 -> Forall (fun p => lo <= snd p) rest -> lo <= pep_interp_go x x0 y0 rest.
Proof.
  induction rest as [|[x1 y1] r IH]; intros x x0 y0 Hx Hy Hf; simpl; [exact Hy|].
  inversion Hf as [|? ? Hy1 Hr]; subst. simpl in Hy1.
  destruct (Z.leb_spec x1 x) as [Hle|Hlt]; [apply IH; assumption|].
  change (lo <= pep_seg x x0 x1 y0 y1). rewrite pep_seg_lin. apply pep_lin_ge; assumption.
Qed.

Lemma pep_go_le hi rest : forall x x0 y0,
  (x0 <= x)%Z -> y0 <= hi -> Forall (fun p => snd p <= hi) rest -> pep_interp_go x x0 y0 rest <= hi.
Proof.
  induction rest as [|[x1 y1] r IH]; intros x x0 y0 Hx Hy Hf; simpl; [exact Hy|].
  inversion Hf as [|? ? Hy1 Hr]; subst. simpl in Hy1.
  destruct (Z.leb_spec x1 x) as [Hle|Hlt]; [apply IH; assumption|].
  change (pep_seg x x0 x1 y0 y1 <= hi). rewrite pep_seg_lin. apply pep_lin_le; assumption.
Qed.

Lemma pep_ychain_bound y0 rest : pep_ychain y0 rest -> Forall (fun p => snd p <= y0) rest.
Proof.
  revert y0. induction rest as [|[x1 y1] r IH]; intros y0 H; [constructor|].
  destruct H as [H1 H2]. constructor; [exact H1|].
  eapply Forall_impl; [|apply IH; exact H2]. intros p Hp. eapply Qle_trans; [exact Hp | exact H1].
Qed.

(* monotone data -> monotone interpolant (values never increase as x grows) *)
Lemma pep_go_antitone rest : forall x x' x0 y0,
  (x0 <= x)%Z -> (x <= x')%Z -> pep_ychain y0 rest ->
  pep_interp_go x' x0 y0 rest <= pep_interp_go x x0 y0 rest.
Proof.
  induction rest as [|[x1 y1] r IH]; intros x x' x0 y0 Hx Hxx Hc; simpl; [apply Qle_refl|].
  destruct Hc as [Hy1 Hc].
  destruct (Z.leb_spec x1 x) as [Hle|Hlt].
  - destruct (Z.leb_spec x1 x') as [_|]; [|lia]. apply IH; assumption.
  - change (if (x0 =? x)%Z then y0 else pep_lin x x0 x1 y0 y1) with (pep_seg x x0 x1 y0 y1).
    destruct (Z.leb_spec x1 x') as [Hle'|Hlt'].
    + (* x in [x0, x1), x' beyond x1 *)
      apply Qle_trans with y1.
      * apply pep_go_le; [exact Hle' | apply Qle_refl | apply pep_ychain_bound; exact Hc].
      * rewrite pep_seg_lin. apply pep_lin_ge; [exact Hx | exact Hlt | exact Hy1 | apply Qle_refl].
    + change (if (x0 =? x')%Z then y0 else pep_lin x' x0 x1 y0 y1) with (pep_seg x' x0 x1 y0 y1).
      rewrite !pep_seg_lin. apply pep_lin_antitone; assumption.
Qed.

Lemma pep_at_antitone p0 rest x x' :
  (x <= x')%Z -> pep_ychain (snd p0) rest -> pep_interp_at p0 rest x' <= pep_interp_at p0 rest x.
Proof.
  intros Hxx Hc. unfold pep_interp_at.
  destruct (Z.ltb_spec x (fst p0)) as [Hlt|Hge]; destruct (Z.ltb_spec x' (fst p0)) as [Hlt'|Hge'].
  - apply Qle_refl.
  - apply pep_go_le; [exact Hge' | apply Qle_refl | apply pep_ychain_bound; exact Hc].
  - lia.
  - apply pep_go_antitone; assumption.
Qed.

Lemma pep_at_ge lo p0 rest x :
  lo <= snd p0 -> Forall (fun p => lo <= snd p) rest -> lo <= pep_interp_at p0 rest x.
Proof.
  intros H0 Hf. unfold pep_interp_at. destruct (Z.ltb_spec x (fst p0)); [exact H0|].
  apply pep_go_ge; assumption.
Qed.

Lemma pep_at_le hi p0 rest x :
  snd p0 <= hi -> Forall (fun p => snd p <= hi) rest -> pep_interp_at p0 rest x <= hi.
Proof.
  intros H0 Hf. unfold pep_interp_at. destruct (Z.ltb_spec x (fst p0)); [exact H0|].
  apply pep_go_le; assumption.
Qed.

(* exact at grid points (strictly increasing grid) *)
Lemma pep_at_exact rest : forall p0 k,
  StronglySorted Z.lt (map fst (p0 :: rest)) -> (k < length (p0 :: rest))%nat ->
  pep_interp_at p0 rest (fst (nth k (p0 :: rest) p0)) = snd (nth k (p0 :: rest) p0).
Proof.
  induction rest as [|[x1 y1] r IH]; intros [x0 y0] k Hs Hk.
  - simpl in Hk. replace k with 0%nat by lia. unfold pep_interp_at. simpl. rewrite Z.ltb_irrefl. reflexivity.
  - simpl map in Hs. apply StronglySorted_inv in Hs. destruct Hs as [Hs Hf].
    destruct k as [|k].
    + unfold pep_interp_at. simpl. rewrite Z.ltb_irrefl.
      inversion Hf as [|? ? H01 _]; subst.
      destruct (Z.leb_spec x1 x0); [lia|]. rewrite Z.eqb_refl. reflexivity.
    + simpl in Hk. specialize (IH (x1, y1) k Hs ltac:(simpl; lia)).
      change (nth (S k) ((x0, y0) :: (x1, y1) :: r) (x0, y0)) with (nth k ((x1, y1) :: r) (x0, y0)).
      rewrite (nth_indep _ (x0, y0) (x1, y1)) by (simpl; lia).
      set (pk := nth k ((x1, y1) :: r) (x1, y1)) in *.
      assert (x1 <= fst pk)%Z as Hge.
      { destruct k as [|k']; [simpl; lia|].
        assert (In (fst pk) (map fst r)) as Hin.
        { unfold pk. simpl. apply in_map. apply nth_In. simpl in Hk. lia. }
        apply StronglySorted_inv in Hs. destruct Hs as [_ Hf1]. rewrite Forall_forall in Hf1.
        specialize (Hf1 _ Hin). lia. }
      inversion Hf as [|? ? H01 _]; subst.
      unfold pep_interp_at in *. simpl fst in *. simpl snd in *.
      destruct (Z.ltb_spec (fst pk) x0); [lia|].
      destruct (Z.ltb_spec (fst pk) x1); [lia|].
      simpl. destruct (Z.leb_spec x1 (fst pk)); [exact IH | lia].
Qed.

(* between two neighbouring grid points of a non-decreasing grid: the straight line through them *)
Lemma pep_at_between rest : forall p0 k x,
  StronglySorted Z.le (map fst (p0 :: rest)) -> (S k < length (p0 :: rest))%nat ->
  let a := nth k (p0 :: rest) p0 in let b := nth (S k) (p0 :: rest) p0 in
  (fst a <= x)%Z -> (x < fst b)%Z ->
  pep_interp_at p0 rest x == pep_lin x (fst a) (fst b) (snd a) (snd b).
Proof.
  induction rest as [|[x1 y1] r IH]; intros [x0 y0] k x Hs Hk; [simpl in Hk; lia|].
  simpl map in Hs. apply StronglySorted_inv in Hs. destruct Hs as [Hs Hf].
  destruct k as [|k]; cbv zeta.
  - simpl nth. simpl fst. simpl snd. intros Ha Hb. unfold pep_interp_at. simpl fst. simpl snd.
    destruct (Z.ltb_spec x x0); [lia|]. simpl. destruct (Z.leb_spec x1 x); [lia|].
    apply (pep_seg_lin x x0 x1 y0 y1).
  - change (nth (S k) ((x0, y0) :: (x1, y1) :: r) (x0, y0)) with (nth k ((x1, y1) :: r) (x0, y0)).
    change (nth (S (S k)) ((x0, y0) :: (x1, y1) :: r) (x0, y0)) with (nth (S k) ((x1, y1) :: r) (x0, y0)).
    simpl in Hk.
    rewrite (nth_indep _ (x0, y0) (x1, y1)) by (simpl; lia).
    rewrite (nth_indep ((x1, y1) :: r) (x0, y0) (x1, y1)) by (simpl; lia).
    intros Ha Hb.
    specialize (IH (x1, y1) k x Hs ltac:(simpl; lia)). cbv zeta in IH. specialize (IH Ha Hb).
    rewrite <- IH.
    assert (x1 <= fst (nth k ((x1, y1) :: r) (x1, y1)))%Z as Hge.
    { destruct k as [|k']; [simpl; lia|].
      assert (In (fst (nth (S k') ((x1, y1) :: r) (x1, y1))) (map fst r)) as Hin.
      { simpl. apply in_map. apply nth_In. lia. }
      apply StronglySorted_inv in Hs. destruct Hs as [_ Hf1]. rewrite Forall_forall in Hf1.
      apply (Hf1 _ Hin). }
    inversion Hf as [|? ? H01 _]; subst.
    unfold pep_interp_at. simpl fst. simpl snd.
    destruct (Z.ltb_spec x x0); [lia|]. destruct (Z.ltb_spec x x1); [lia|].
    simpl. destruct (Z.leb_spec x1 x); [reflexivity | lia].
Qed.

(* end clamping *)
Lemma pep_at_left p0 rest x : (x < fst p0)%Z -> pep_interp_at p0 rest x = snd p0.
Proof. intros H. unfold pep_interp_at. destruct (Z.ltb_spec x (fst p0)); [reflexivity | lia]. Qed.

Lemma pep_last_indep {A} (l : list A) a d d' : last (a :: l) d = last (a :: l) d'.
Proof. revert a. induction l as [|b l IH]; intros a; [reflexivity|]. simpl in *. apply IH. Qed.

Lemma pep_go_right rest : forall x x0 y0,
  Forall (fun p => (fst p <= x)%Z) rest -> pep_interp_go x x0 y0 rest = snd (last rest (x0, y0)).
Proof.
  induction rest as [|[x1 y1] r IH]; intros x x0 y0 Hf; [reflexivity|].
  inversion Hf as [|? ? H1 Hr]; subst. simpl in H1. cbn [pep_interp_go].
  destruct (Z.leb_spec x1 x); [|lia]. rewrite (IH x x1 y1 Hr).
  destruct r as [|p r']; [reflexivity|].
  change (last ((x1, y1) :: p :: r') (x0, y0)) with (last (p :: r') (x0, y0)).
  f_equal. apply pep_last_indep.
Qed.

Lemma pep_at_right p0 rest x :
  Forall (fun p => (fst p <= x)%Z) (p0 :: rest) -> pep_interp_at p0 rest x = snd (last (p0 :: rest) p0).
Proof.
  intros Hf. inversion Hf as [|? ? H0 Hr]; subst. unfold pep_interp_at.
  destruct (Z.ltb_spec x (fst p0)); [lia|]. rewrite (pep_go_right rest x _ _ Hr).
  destruct p0 as [x0 y0]. destruct rest as [|p r]; [reflexivity|]. reflexivity.
Qed.

(* from list-level sortedness to the chain *)
Lemma pep_ychain_of_sorted : forall (xs : list Z) (ys : list Q) p0 rest,
  StronglySorted (fun a b => b <= a) ys ->
  combine xs ys = p0 :: rest -> pep_ychain (snd p0) rest.
Proof.
  induction xs as [|x xs IH]; intros ys p0 rest Hy E; [discriminate|].
  destruct ys as [|y ys]; [discriminate|]. simpl in E. injection E as <- <-.
  apply StronglySorted_inv in Hy. destruct Hy as [Hys Hyf].
  destruct (combine xs ys) as [|[x1 y1] r] eqn:Ec; [exact I|].
  pose proof (IH ys (x1, y1) r Hys Ec) as H2.
  destruct xs as [|x1' xs']; [discriminate|]. destruct ys as [|y1' ys']; [discriminate|].
  simpl in Ec. injection Ec as -> -> _.
  inversion Hyf; subst. simpl. split; assumption.
Qed.

Lemma pep_combine_snd_forall (P : Q -> Prop) : forall (xs : list Z) (ys : list Q),
  Forall P ys -> Forall (fun p => P (snd p)) (combine xs ys).
Proof.
  induction xs as [|x xs IH]; intros ys H; [constructor|].
  destruct ys as [|y ys]; [constructor|]. inversion H; subst. simpl. constructor; [assumption | apply IH; assumption].
Qed.

(* all that is needed about one np.interp call whose values never increase along the grid.
   (That the grid itself is non-decreasing is numpy's precondition, under which the scan of the model
   finds the index numpy's binary search finds; the statements below do not depend on it.) *)
Definition pep_curve_ok (g : Z -> Q) (fp : list Q) : Prop :=
  (forall a b, (a <= b)%Z -> g b <= g a) /\
  (forall lo, Forall (Qle lo) fp -> forall a, lo <= g a) /\
  (forall hi, Forall (fun y => y <= hi) fp -> forall a, g a <= hi).

Lemma pep_interp_all_ok xp fp xs qs :
  pep_interp_all xp fp xs = Ok qs ->
  exists p0 rest, combine xp fp = p0 :: rest /\ length xp = length fp /\
                  qs = map (pep_interp_at p0 rest) xs.
Proof.
  unfold pep_interp_all. destruct (Nat.eqb_spec (length xp) (length fp)) as [El|]; simpl; [|discriminate].
  destruct (combine xp fp) as [|p0 rest]; [discriminate|].
  intros H. injection H as <-. exists p0, rest. repeat split. exact El.
Qed.

Lemma pep_interp_curve xp fp p0 rest :
  combine xp fp = p0 :: rest ->
  StronglySorted (fun a b => b <= a) fp ->
  pep_curve_ok (pep_interp_at p0 rest) fp.
Proof.
  intros E Hy. pose proof (pep_ychain_of_sorted xp fp p0 rest Hy E) as Hyc.
  split; [|split].
  - intros a b Hab. apply pep_at_antitone; assumption.
  - intros lo Hlo a. pose proof (pep_combine_snd_forall (Qle lo) xp fp Hlo) as Hf.
    rewrite E in Hf. inversion Hf; subst. apply pep_at_ge; assumption.
  - intros hi Hhi a. pose proof (pep_combine_snd_forall (fun y => y <= hi) xp fp Hhi) as Hf.
    rewrite E in Hf. inversion Hf; subst. apply pep_at_le; assumption.
Qed.

(* ====================== vectors that are a curve evaluated at each PSM's score ====================== *)
(* take the rows idx (a permutation, a sub-sample, ...) of a vector *)
Definition pep_take {A} (idx : list nat) (l : list A) (d : A) : list A := map (fun i => nth i l d) idx.

Lemma pep_take_map {A B} (g : A -> B) idx l da db :
  Forall (fun i => (i < length l)%nat) idx -> pep_take idx (map g l) db = map g (pep_take idx l da).
Proof.
  intros H. unfold pep_take. rewrite map_map. apply map_ext_in. intros i Hi.
  rewrite Forall_forall in H. apply pep_nth_map. apply H, Hi.
Qed.

Lemma pep_take_length {A} idx (l : list A) d : length (pep_take idx l d) = length idx.
Proof. unfold pep_take. apply map_length. Qed.

Lemma pep_map_nth_seq {A} (l : list A) d : map (fun i => nth i l d) (seq 0 (length l)) = l.
Proof.
  induction l as [|x l IH]; [reflexivity|]. simpl. f_equal.
  rewrite <- seq_shift, map_map. exact IH.
Qed.

Lemma pep_take_perm {A} idx (l : list A) d :
  Permutation idx (seq 0 (length l)) -> Permutation (pep_take idx l d) l.
Proof.
  intros H. unfold pep_take. pose proof (Permutation_map (fun i => nth i l d) H) as HP.
  rewrite pep_map_nth_seq in HP. exact HP.
Qed.

Lemma pep_same_length_true {A B} (a : list A) (b : list B) : pep_same_length a b = true <-> length a = length b.
Proof. unfold pep_same_length. apply Nat.eqb_eq. Qed.

(* ====================== kde_nnls / hist_nnls ====================== *)
Lemma pep_scale_to_one_ok est est' :
  pep_scale_to_one est = Ok est' ->
  StronglySorted (fun a b => b <= a) est -> Forall (Qle 0) est ->
  StronglySorted (fun a b => b <= a) est' /\ length est' = length est.
Proof.
  unfold pep_scale_to_one. destruct est as [|e0 r]; [discriminate|].
  destruct (Qle_bool 1 e0); [intros H; injection H as <-; auto|].
  destruct (Qeq_bool e0 0) eqn:E0; [discriminate|].
  intros H Hs Hf.
  assert (est' = map (fun e => Qred (e / e0)) (e0 :: r)) as -> by congruence.
  split; [|apply map_length].
  assert (0 < e0) as Hpos.
  { inversion Hf as [|? ? H0 _]; subst. apply Qeq_bool_neq in E0.
    destruct (Qlt_le_dec 0 e0) as [Hlt|Hle]; [exact Hlt|]. exfalso. apply E0. apply Qle_antisym; assumption. }
  apply (pep_ss_map (fun a b => b <= a) (fun a b => b <= a) (fun e => Qred (e / e0))); [|exact Hs].
  intros a b Hab. rewrite !Qred_correct. unfold Qdiv. apply Qmult_le_compat_r; [exact Hab|].
  apply Qinv_le_0_compat. apply Qlt_le_weak. exact Hpos.
Qed.

(* the fitted curve: depends on the oracles only, not on the PSMs it is evaluated at *)
Lemma pep_nnls_curve (scale : bool) (grid : list Z) (d : list Q) :
  (exists (est : list Q) (p0 : Z * Q) (rest : list (Z * Q)),
      (if scale then pep_scale_to_one (pep_est d) else Ok (pep_est d)) = Ok est /\
      combine grid est = p0 :: rest /\
      forall scores targets, length scores = length targets ->
        pep_nnls_peps scale scores targets grid d
        = Ok (map (fun s => pep_clip01 (pep_interp_at p0 rest s)) scores))
  \/ (exists e, forall scores targets, length scores = length targets ->
        pep_nnls_peps scale scores targets grid d = Err e).
Proof.
  assert (forall scores targets, length scores = length targets ->
            pep_nnls_peps scale scores targets grid d =
            bind (if scale then pep_scale_to_one (pep_est d) else Ok (pep_est d)) (fun est =>
            bind (pep_interp_all grid est scores) (fun ps => Ok (map pep_clip01 ps)))) as Hunf.
  { intros scores targets H. unfold pep_nnls_peps. apply pep_same_length_true in H. rewrite H. reflexivity. }
  destruct (if scale then pep_scale_to_one (pep_est d) else Ok (pep_est d)) as [est|e] eqn:Eest.
  2:{ right. exists e. intros scores targets H. rewrite (Hunf _ _ H). reflexivity. }
  destruct (Nat.eqb (length grid) (length est)) eqn:El.
  2:{ right. exists EValue. intros scores targets H. rewrite (Hunf _ _ H). cbn [bind].
      unfold pep_interp_all. rewrite El. reflexivity. }
  destruct (combine grid est) as [|p0 rest] eqn:Ec.
  { right. exists EValue. intros scores targets H. rewrite (Hunf _ _ H). cbn [bind].
    unfold pep_interp_all. rewrite El, Ec. reflexivity. }
  left. exists est, p0, rest. split; [reflexivity|]. split; [exact Ec|].
  intros scores targets H. rewrite (Hunf _ _ H). cbn [bind].
  unfold pep_interp_all. rewrite El, Ec. cbn [negb bind]. rewrite map_map. reflexivity.
Qed.

Lemma pep_nnls_lengths scale scores targets grid d ps :
  pep_nnls_peps scale scores targets grid d = Ok ps -> length scores = length targets.
Proof.
  unfold pep_nnls_peps. destruct (pep_same_length scores targets) eqn:E; [|discriminate].
  intros _. apply pep_same_length_true. exact E.
Qed.

Lemma pep_nnls_run scale scores targets grid d ps :
  pep_nnls_peps scale scores targets grid d = Ok ps ->
  exists (est : list Q) (p0 : Z * Q) (rest : list (Z * Q)),
    (if scale then pep_scale_to_one (pep_est d) else Ok (pep_est d)) = Ok est /\
    combine grid est = p0 :: rest /\
    ps = map (fun s => pep_clip01 (pep_interp_at p0 rest s)) scores /\
    forall scores' targets', length scores' = length targets' ->
      pep_nnls_peps scale scores' targets' grid d
      = Ok (map (fun s => pep_clip01 (pep_interp_at p0 rest s)) scores').
Proof.
  intros H. pose proof (pep_nnls_lengths _ _ _ _ _ _ H) as Hl.
  destruct (pep_nnls_curve scale grid d) as [(est & p0 & rest & He & Hc & Hall) | (e & Hall)].
  - exists est, p0, rest. rewrite (Hall scores targets Hl) in H. injection H as <-. auto.
  - rewrite (Hall scores targets Hl) in H. discriminate.
Qed.

Theorem pep_nnls_range scale scores targets grid d ps :
  pep_nnls_peps scale scores targets grid d = Ok ps ->
  length ps = length scores /\
  forall i, (i < length scores)%nat -> 0 <= nth i ps 0 /\ nth i ps 0 <= 1.
Proof.
  intros H. destruct (pep_nnls_run _ _ _ _ _ _ H) as (est & p0 & rest & _ & _ & -> & _).
  split; [apply map_length|]. intros i Hi.
  rewrite (pep_nth_map _ scores i 0%Z 0 Hi). apply pep_clip01_range.
Qed.

Theorem pep_nnls_monotone scale scores targets grid d ps :
  pep_nnls_peps scale scores targets grid d = Ok ps -> Forall (Qle 0) d ->
  forall i j, (i < length scores)%nat -> (j < length scores)%nat ->
    (nth i scores 0 <= nth j scores 0)%Z -> nth j ps 0 <= nth i ps 0.
Proof.
  intros H Hd i j Hi Hj Hs.
  destruct (pep_nnls_run _ _ _ _ _ _ H) as (est & p0 & rest & He & Hc & -> & _).
  rewrite (pep_nth_map _ scores i 0%Z 0 Hi), (pep_nth_map _ scores j 0%Z 0 Hj).
  apply pep_clip01_mono.
  destruct (pep_est_sorted d Hd) as [Hs0 Hf0].
  assert (StronglySorted (fun a b => b <= a) est) as Hsorted.
  { destruct scale; [|injection He as <-; exact Hs0].
    destruct (pep_scale_to_one_ok _ _ He Hs0 Hf0) as [Hs1 _]. exact Hs1. }
  destruct (pep_interp_curve grid est p0 rest Hc Hsorted) as (Hanti & _ & _).
  apply Hanti. exact Hs.
Qed.

Theorem pep_nnls_ties scale scores targets grid d ps :
  pep_nnls_peps scale scores targets grid d = Ok ps ->
  forall i j, (i < length scores)%nat -> (j < length scores)%nat ->
    nth i scores 0%Z = nth j scores 0%Z -> nth i ps 0 = nth j ps 0.
Proof.
  intros H i j Hi Hj Hs.
  destruct (pep_nnls_run _ _ _ _ _ _ H) as (est & p0 & rest & _ & _ & -> & _).
  rewrite (pep_nth_map _ scores i 0%Z 0 Hi), (pep_nth_map _ scores j 0%Z 0 Hj), Hs. reflexivity.
Qed.

(* permutation equivariance: reorder (or sub-sample) the PSMs and the values move with them *)
Theorem pep_nnls_aligned scale scores targets grid d ps idx :
  pep_nnls_peps scale scores targets grid d = Ok ps ->
  Forall (fun i => (i < length scores)%nat) idx ->
  pep_nnls_peps scale (pep_take idx scores 0%Z) (pep_take idx targets false) grid d = Ok (pep_take idx ps 0).
Proof.
  intros H Hidx.
  destruct (pep_nnls_run _ _ _ _ _ _ H) as (est & p0 & rest & _ & _ & -> & Hall).
  rewrite (Hall (pep_take idx scores 0%Z) (pep_take idx targets false))
    by (rewrite !pep_take_length; reflexivity).
  f_equal. symmetry. apply pep_take_map. exact Hidx.
Qed.

(* ====================== qvalues_from_counts ====================== *)
Definition pep_top_is_decoy (srt : list (Z * bool)) : bool :=
  match srt with (_, false) :: _ => true | _ => false end.

Definition pep_counts_factor (targets : list bool) (pi0 : Q) : Q :=
  pi0 * (pep_ntrue targets # Z.to_pos (pep_nfalse targets)).

Definition pep_counts_fp (targets : list bool) (srt : list (Z * bool)) (pi0 : Q) : list Q :=
  rev (pep_monotonize_simple true (pep_count_fdr (pep_counts_factor targets pi0) 0 0 srt)).

Lemma pep_counts_unfold scores targets srt pi0 :
  pep_qvalues_from_counts scores targets srt pi0 =
  if negb (pep_same_length scores targets) then Err EIndex
  else if (pep_ntrue targets =? 0)%Z || (pep_nfalse targets =? 0)%Z then Err EValue
  else if pep_top_is_decoy srt then Ok (PepAllInf (length scores))
  else bind (pep_interp_all (rev (map fst srt)) (pep_counts_fp targets srt pi0) scores)
            (fun r => Ok (PepFinite r)).
Proof.
  unfold pep_qvalues_from_counts, pep_counts_fp, pep_counts_factor.
  destruct (negb (pep_same_length scores targets)); [reflexivity|].
  destruct ((pep_ntrue targets =? 0)%Z || (pep_nfalse targets =? 0)%Z); [reflexivity|].
  destruct srt as [|[s [|]] r]; reflexivity.
Qed.

Lemma pep_count_fdr_nonneg c : 0 <= c -> forall l ct cd, (0 <= cd)%Z -> Forall (Qle 0) (pep_count_fdr c ct cd l).
Proof.
  intros Hc. induction l as [|[s t] r IH]; intros ct cd Hcd; [constructor|]. cbn [pep_count_fdr].
  assert (0 <= (if t then cd else cd + 1))%Z as Hcd' by (destruct t; lia).
  constructor; [|apply IH; exact Hcd'].
  apply Qmult_le_0_compat; [exact Hc|]. unfold Qle. simpl. lia.
Qed.

Lemma pep_ntrue_nonneg l : (0 <= pep_ntrue l)%Z.
Proof. unfold pep_ntrue. lia. Qed.

Lemma pep_counts_factor_nonneg targets pi0 : 0 <= pi0 -> 0 <= pep_counts_factor targets pi0.
Proof.
  intros H. unfold pep_counts_factor. apply Qmult_le_0_compat; [exact H|].
  unfold Qle. simpl. pose proof (pep_ntrue_nonneg targets). lia.
Qed.

Lemma pep_forall_rev {A} (P : A -> Prop) l : Forall P l -> Forall P (rev l).
Proof. rewrite !Forall_forall. intros H x Hx. apply H. apply in_rev. exact Hx. Qed.

Lemma pep_counts_fp_props targets srt pi0 :
  StronglySorted (fun a b => b <= a) (pep_counts_fp targets srt pi0) /\
  (0 <= pi0 -> Forall (Qle 0) (pep_counts_fp targets srt pi0)).
Proof.
  unfold pep_counts_fp. split.
  - apply pep_ss_rev. apply pep_cummax_sorted.
  - intros H. apply pep_forall_rev. apply pep_cummax_lower. apply pep_count_fdr_nonneg; [|lia].
    apply pep_counts_factor_nonneg. exact H.
Qed.

Lemma pep_counts_run scores targets srt pi0 qs :
  pep_qvalues_from_counts scores targets srt pi0 = Ok (PepFinite qs) ->
  length scores = length targets /\ pep_ntrue targets <> 0%Z /\ pep_nfalse targets <> 0%Z /\
  pep_top_is_decoy srt = false /\
  exists p0 rest, combine (rev (map fst srt)) (pep_counts_fp targets srt pi0) = p0 :: rest /\
                  qs = map (pep_interp_at p0 rest) scores.
Proof.
  rewrite pep_counts_unfold.
  destruct (pep_same_length scores targets) eqn:El; [|discriminate]. cbn [negb].
  destruct (Z.eqb_spec (pep_ntrue targets) 0) as [|Hnt]; [discriminate|].
  destruct (Z.eqb_spec (pep_nfalse targets) 0) as [|Hnf]; [discriminate|]. cbn [orb].
  destruct (pep_top_is_decoy srt); [discriminate|].
  destruct (pep_interp_all (rev (map fst srt)) (pep_counts_fp targets srt pi0) scores) as [r|e] eqn:Ei; [|discriminate].
  cbn [bind]. intros H. assert (r = qs) as -> by congruence.
  apply pep_same_length_true in El. repeat split; try assumption.
  destruct (pep_interp_all_ok _ _ _ _ Ei) as (p0 & rest & Ec & _ & ->). exists p0, rest. split; [exact Ec | reflexivity].
Qed.

(* every PSM gets +inf exactly when the best-ranked row is a decoy *)
Theorem pep_counts_allinf scores targets srt pi0 n :
  pep_qvalues_from_counts scores targets srt pi0 = Ok (PepAllInf n) <->
  length scores = length targets /\ pep_ntrue targets <> 0%Z /\ pep_nfalse targets <> 0%Z /\
  pep_top_is_decoy srt = true /\ n = length scores.
Proof.
  rewrite pep_counts_unfold. split.
  - destruct (pep_same_length scores targets) eqn:El; [|discriminate]. cbn [negb].
    destruct (Z.eqb_spec (pep_ntrue targets) 0) as [|Hnt]; [discriminate|].
    destruct (Z.eqb_spec (pep_nfalse targets) 0) as [|Hnf]; [discriminate|]. cbn [orb].
    destruct (pep_top_is_decoy srt).
    + intros H. apply pep_same_length_true in El. repeat split; try assumption. congruence.
    + destruct (pep_interp_all _ _ _); discriminate.
  - intros (El & Hnt & Hnf & Ht & ->). apply pep_same_length_true in El. rewrite El. cbn [negb].
    destruct (Z.eqb_spec (pep_ntrue targets) 0) as [|_]; [contradiction|].
    destruct (Z.eqb_spec (pep_nfalse targets) 0) as [|_]; [contradiction|]. cbn [orb].
    rewrite Ht. reflexivity.
Qed.

Theorem pep_counts_nonneg_monotone scores targets srt pi0 qs :
  pep_qvalues_from_counts scores targets srt pi0 = Ok (PepFinite qs) -> 0 <= pi0 ->
  length qs = length scores /\
  (forall i, (i < length scores)%nat -> 0 <= nth i qs 0) /\
  (forall i j, (i < length scores)%nat -> (j < length scores)%nat ->
     (nth i scores 0 <= nth j scores 0)%Z -> nth j qs 0 <= nth i qs 0) /\
  (forall i j, (i < length scores)%nat -> (j < length scores)%nat ->
     nth i scores 0%Z = nth j scores 0%Z -> nth i qs 0 = nth j qs 0).
Proof.
  intros H Hpi. destruct (pep_counts_run _ _ _ _ _ H) as (_ & _ & _ & _ & p0 & rest & Ec & ->).
  destruct (pep_counts_fp_props targets srt pi0) as [Hs Hn]. specialize (Hn Hpi).
  destruct (pep_interp_curve _ _ p0 rest Ec Hs) as (Hanti & Hlo & _).
  split; [apply map_length|]. split; [|split].
  - intros i Hi. rewrite (pep_nth_map _ scores i 0%Z 0 Hi). apply (Hlo 0 Hn).
  - intros i j Hi Hj Hij. rewrite (pep_nth_map _ scores i 0%Z 0 Hi), (pep_nth_map _ scores j 0%Z 0 Hj).
    apply Hanti. exact Hij.
  - intros i j Hi Hj Hij. rewrite (pep_nth_map _ scores i 0%Z 0 Hi), (pep_nth_map _ scores j 0%Z 0 Hj), Hij.
    reflexivity.
Qed.

Lemma pep_ntrue_perm l l' : Permutation l l' -> pep_ntrue l = pep_ntrue l'.
Proof.
  unfold pep_ntrue. intros H. f_equal.
  induction H as [|x l l' H IH|x y l|l l' l'' H1 IH1 H2 IH2]; simpl.
  - reflexivity.
  - destruct x; simpl; lia.
  - destruct x, y; simpl; lia.
  - lia.
Qed.

Lemma pep_nfalse_perm l l' : Permutation l l' -> pep_nfalse l = pep_nfalse l'.
Proof.
  unfold pep_nfalse. intros H. f_equal.
  induction H as [|x l l' H IH|x y l|l l' l'' H1 IH1 H2 IH2]; simpl.
  - reflexivity.
  - destruct x; simpl; lia.
  - destruct x, y; simpl; lia.
  - lia.
Qed.

Lemma pep_perm_idx_bound idx n : Permutation idx (seq 0 n) -> Forall (fun i => (i < n)%nat) idx.
Proof.
  intros H. rewrite Forall_forall. intros i Hi.
  apply (Permutation_in _ H) in Hi. apply in_seq in Hi. lia.
Qed.

(* reorder the PSMs (same recorded oracles): the values move with them *)
Theorem pep_counts_aligned scores targets srt pi0 qs idx :
  pep_qvalues_from_counts scores targets srt pi0 = Ok (PepFinite qs) ->
  Permutation idx (seq 0 (length scores)) ->
  pep_qvalues_from_counts (pep_take idx scores 0%Z) (pep_take idx targets false) srt pi0
  = Ok (PepFinite (pep_take idx qs 0)).
Proof.
  intros H Hidx. destruct (pep_counts_run _ _ _ _ _ H) as (El & Hnt & Hnf & Ht & p0 & rest & Ec & ->).
  assert (Permutation (pep_take idx targets false) targets) as HP
    by (apply pep_take_perm; rewrite <- El; exact Hidx).
  rewrite pep_counts_unfold.
  assert (pep_same_length (pep_take idx scores 0%Z) (pep_take idx targets false) = true) as ->
    by (apply pep_same_length_true; rewrite !pep_take_length; reflexivity).
  cbn [negb].
  assert (pep_counts_fp (pep_take idx targets false) srt pi0 = pep_counts_fp targets srt pi0) as ->.
  { unfold pep_counts_fp, pep_counts_factor. rewrite (pep_ntrue_perm _ _ HP), (pep_nfalse_perm _ _ HP). reflexivity. }
  rewrite (pep_ntrue_perm _ _ HP), (pep_nfalse_perm _ _ HP).
  destruct (Z.eqb_spec (pep_ntrue targets) 0) as [|_]; [contradiction|].
  destruct (Z.eqb_spec (pep_nfalse targets) 0) as [|_]; [contradiction|]. cbn [orb].
  rewrite Ht. unfold pep_interp_all.
  assert (length (rev (map fst srt)) = length (pep_counts_fp targets srt pi0)) as Hl.
  { destruct (Nat.eqb_spec (length (rev (map fst srt))) (length (pep_counts_fp targets srt pi0))) as [E|N]; [exact E|].
    exfalso. rewrite pep_counts_unfold in H. apply pep_same_length_true in El. rewrite El in H. cbn [negb] in H.
    destruct (Z.eqb_spec (pep_ntrue targets) 0) as [|_]; [contradiction|].
    destruct (Z.eqb_spec (pep_nfalse targets) 0) as [|_]; [contradiction|]. cbn [orb] in H.
    rewrite Ht in H. unfold pep_interp_all in H.
    destruct (Nat.eqb_spec (length (rev (map fst srt))) (length (pep_counts_fp targets srt pi0))); [contradiction|].
    discriminate. }
  rewrite Hl, Nat.eqb_refl, Ec. cbn [negb bind]. f_equal. f_equal. symmetry.
  apply pep_take_map. apply pep_perm_idx_bound. exact Hidx.
Qed.

(* ====================== qvalues_from_peps ====================== *)
Definition pep_frompeps_fp (srt : list (Z * (bool * Q))) : list Q :=
  let tg := filter (fun r => fst (snd r)) srt in
  rev (pep_monotonize_simple true (pep_div_by_index 1 (pep_cumsum (map (fun r => snd (snd r)) tg)))).

Definition pep_frompeps_xp (srt : list (Z * (bool * Q))) : list Z :=
  rev (map fst (filter (fun r => fst (snd r)) srt)).

Lemma pep_frompeps_unfold scores targets srt :
  pep_qvalues_from_peps scores targets srt =
  if negb (pep_same_length scores targets) then Err EIndex
  else pep_interp_all (pep_frompeps_xp srt) (pep_frompeps_fp srt) scores.
Proof. reflexivity. Qed.

Lemma pep_div_by_index_nonneg l : forall k, (1 <= k)%Z -> Forall (Qle 0) l -> Forall (Qle 0) (pep_div_by_index k l).
Proof.
  induction l as [|x r IH]; intros k Hk H; [constructor|]. inversion H; subst. cbn [pep_div_by_index].
  constructor; [|apply IH; [lia | assumption]].
  apply Qmult_le_0_compat; [assumption|]. unfold Qle. simpl. lia.
Qed.

Lemma pep_frompeps_fp_props srt :
  StronglySorted (fun a b => b <= a) (pep_frompeps_fp srt) /\
  (Forall (fun r => 0 <= snd (snd r)) srt -> Forall (Qle 0) (pep_frompeps_fp srt)).
Proof.
  unfold pep_frompeps_fp. split.
  - apply pep_ss_rev. apply pep_cummax_sorted.
  - intros H. apply pep_forall_rev. apply pep_cummax_lower. apply pep_div_by_index_nonneg; [lia|].
    unfold pep_cumsum. apply pep_cumsum_from_sorted.
    rewrite Forall_forall in *. intros q Hq. apply in_map_iff in Hq. destruct Hq as (r & <- & Hr).
    apply filter_In in Hr. apply H, Hr.
Qed.

Lemma pep_frompeps_run scores targets srt qs :
  pep_qvalues_from_peps scores targets srt = Ok qs ->
  length scores = length targets /\
  exists p0 rest, combine (pep_frompeps_xp srt) (pep_frompeps_fp srt) = p0 :: rest /\
                  length (pep_frompeps_xp srt) = length (pep_frompeps_fp srt) /\
                  qs = map (pep_interp_at p0 rest) scores.
Proof.
  rewrite pep_frompeps_unfold. destruct (pep_same_length scores targets) eqn:El; [|discriminate]. cbn [negb].
  intros H. apply pep_same_length_true in El. split; [exact El|].
  destruct (pep_interp_all_ok _ _ _ _ H) as (p0 & rest & Ec & Hl & ->). exists p0, rest. auto.
Qed.

Theorem pep_frompeps_nonneg_monotone scores targets srt qs :
  pep_qvalues_from_peps scores targets srt = Ok qs -> Forall (fun r => 0 <= snd (snd r)) srt ->
  length qs = length scores /\
  (forall i, (i < length scores)%nat -> 0 <= nth i qs 0) /\
  (forall i j, (i < length scores)%nat -> (j < length scores)%nat ->
     (nth i scores 0 <= nth j scores 0)%Z -> nth j qs 0 <= nth i qs 0) /\
  (forall i j, (i < length scores)%nat -> (j < length scores)%nat ->
     nth i scores 0%Z = nth j scores 0%Z -> nth i qs 0 = nth j qs 0).
Proof.
  intros H Hp. destruct (pep_frompeps_run _ _ _ _ H) as (_ & p0 & rest & Ec & _ & ->).
  destruct (pep_frompeps_fp_props srt) as [Hs Hn]. specialize (Hn Hp).
  destruct (pep_interp_curve _ _ p0 rest Ec Hs) as (Hanti & Hlo & _).
  split; [apply map_length|]. split; [|split].
  - intros i Hi. rewrite (pep_nth_map _ scores i 0%Z 0 Hi). apply (Hlo 0 Hn).
  - intros i j Hi Hj Hij. rewrite (pep_nth_map _ scores i 0%Z 0 Hi), (pep_nth_map _ scores j 0%Z 0 Hj).
    apply Hanti. exact Hij.
  - intros i j Hi Hj Hij. rewrite (pep_nth_map _ scores i 0%Z 0 Hi), (pep_nth_map _ scores j 0%Z 0 Hj), Hij.
    reflexivity.
Qed.

(* PEPs that are at most 1 give q-values that are at most 1 *)
Lemma pep_cumsum_from_le_count l : forall acc k,
  Forall (fun x => x <= 1) l -> acc <= inject_Z k ->
  Forall2 (fun v j => v <= inject_Z j) (pep_cumsum_from acc l) (pep_zseq (k + 1) (length l)).
Proof.
  induction l as [|x r IH]; intros acc k H Ha; [constructor|]. inversion H as [|? ? Hx Hr]; subst.
  cbn [pep_cumsum_from length pep_zseq].
  assert (Qred (acc + x) <= inject_Z (k + 1)) as Hle.
  { rewrite Qred_correct, inject_Z_plus. change (inject_Z 1) with 1. lra. }
  constructor; [exact Hle | apply IH; assumption].
Qed.

Lemma pep_div_by_index_le_one l : forall k, (1 <= k)%Z ->
  Forall2 (fun v j => v <= inject_Z j) l (pep_zseq k (length l)) ->
  Forall (fun v => v <= 1) (pep_div_by_index k l).
Proof.
  induction l as [|x r IH]; intros k Hk H; [constructor|]. cbn [length pep_zseq] in H.
  inversion H as [|? ? ? ? Hx Hr]; subst. cbn [pep_div_by_index]. constructor; [|apply IH; [lia | exact Hr]].
  assert (inject_Z k * (1 # Z.to_pos k) == 1) as E.
  { unfold Qeq, Qmult, inject_Z. simpl. rewrite Z2Pos.id by lia. lia. }
  rewrite <- E. apply Qmult_le_compat_r; [exact Hx|]. unfold Qle. simpl. lia.
Qed.

Theorem pep_frompeps_le_one scores targets srt qs :
  pep_qvalues_from_peps scores targets srt = Ok qs -> Forall (fun r => snd (snd r) <= 1) srt ->
  forall i, (i < length scores)%nat -> nth i qs 0 <= 1.
Proof.
  intros H Hp i Hi. destruct (pep_frompeps_run _ _ _ _ H) as (_ & p0 & rest & Ec & _ & ->).
  destruct (pep_frompeps_fp_props srt) as [Hs _].
  destruct (pep_interp_curve _ _ p0 rest Ec Hs) as (_ & _ & Hhi).
  rewrite (pep_nth_map _ scores i 0%Z 0 Hi). apply Hhi.
  unfold pep_frompeps_fp, pep_cumsum. apply pep_forall_rev.
  set (tp := map (fun r => snd (snd r)) (filter (fun r => fst (snd r)) srt)).
  assert (Forall (fun x => x <= 1) tp) as Htp.
  { unfold tp. rewrite Forall_forall in *. intros q Hq. apply in_map_iff in Hq. destruct Hq as (r & <- & Hr).
    apply filter_In in Hr. apply Hp, Hr. }
  pose proof (pep_cumsum_from_le_count tp 0 0 Htp ltac:(apply Qle_refl)) as Hc.
  rewrite <- (pep_cumsum_from_length 0 tp) in Hc.
  pose proof (pep_div_by_index_le_one _ 1 ltac:(lia) Hc) as Hd.
  rewrite Forall_forall. intros v Hv.
  destruct (In_nth _ _ 0 Hv) as (p & Hpl & <-). rewrite pep_monotonize_simple_length in Hpl.
  destruct (pep_cummax_nth _ p Hpl) as (_ & q & Hq & ->).
  rewrite Forall_forall in Hd. apply Hd. apply nth_In. lia.
Qed.

Theorem pep_frompeps_aligned scores targets srt qs idx :
  pep_qvalues_from_peps scores targets srt = Ok qs ->
  Forall (fun i => (i < length scores)%nat) idx ->
  pep_qvalues_from_peps (pep_take idx scores 0%Z) (pep_take idx targets false) srt = Ok (pep_take idx qs 0).
Proof.
  intros H Hidx. destruct (pep_frompeps_run _ _ _ _ H) as (_ & p0 & rest & Ec & Hl & ->).
  rewrite pep_frompeps_unfold.
  assert (pep_same_length (pep_take idx scores 0%Z) (pep_take idx targets false) = true) as ->
    by (apply pep_same_length_true; rewrite !pep_take_length; reflexivity).
  cbn [negb]. unfold pep_interp_all. rewrite Hl, Nat.eqb_refl, Ec. cbn [negb]. f_equal. symmetry.
  apply pep_take_map. exact Hidx.
Qed.

(* ====================== sorting, un-sorting ====================== *)
Definition pep_kle {A} (a b : Z * A) : Prop := (fst a <= fst b)%Z.

Lemma pep_insert_perm {A} (x : Z * A) l : Permutation (pep_insert x l) (x :: l).
Proof.
  induction l as [|y l IH]; simpl; [reflexivity|].
  destruct (fst x <=? fst y)%Z; [reflexivity|]. rewrite IH. apply perm_swap.
Qed.

Lemma pep_sort_perm {A} (l : list (Z * A)) : Permutation (pep_sort l) l.
Proof.
  induction l as [|x l IH]; simpl; [reflexivity|]. rewrite pep_insert_perm. constructor. exact IH.
Qed.

Lemma pep_insert_sorted {A} (x : Z * A) l : StronglySorted pep_kle l -> StronglySorted pep_kle (pep_insert x l).
Proof.
  induction l as [|y l IH]; simpl; intros H; [constructor; constructor|].
  inversion H as [|? ? Hs Hf]; subst.
  destruct (Z.leb_spec (fst x) (fst y)) as [Hle|Hgt].
  - constructor; [exact H|]. constructor; [exact Hle|].
    eapply Forall_impl; [|exact Hf]. intros z Hz. unfold pep_kle in *. lia.
  - constructor; [apply IH; exact Hs|].
    assert (Forall (pep_kle y) (x :: l)) as Hf' by (constructor; [unfold pep_kle; lia | exact Hf]).
    eapply Permutation_Forall; [|exact Hf']. symmetry. apply pep_insert_perm.
Qed.

Lemma pep_sort_sorted {A} (l : list (Z * A)) : StronglySorted pep_kle (pep_sort l).
Proof. induction l as [|x l IH]; simpl; [constructor | apply pep_insert_sorted; exact IH]. Qed.

(* a stable sort leaves sorted input alone *)
Lemma pep_sort_id {A} (l : list (Z * A)) : StronglySorted pep_kle l -> pep_sort l = l.
Proof.
  intros H. induction H as [|a l Hs IH Hf]; [reflexivity|]. simpl. rewrite IH.
  destruct l as [|y t]; [reflexivity|]. simpl.
  inversion Hf as [|? ? Hay _]; subst. unfold pep_kle in Hay.
  destruct (Z.leb_spec (fst a) (fst y)); [reflexivity | lia].
Qed.

Lemma pep_sorted_perm_eq (l1 : list Z) : forall l2,
  StronglySorted Z.le l1 -> StronglySorted Z.le l2 -> Permutation l1 l2 -> l1 = l2.
Proof.
  induction l1 as [|a l1 IH]; intros l2 H1 H2 HP.
  - apply Permutation_nil in HP. symmetry. exact HP.
  - destruct l2 as [|b l2]; [apply Permutation_sym, Permutation_nil in HP; discriminate|].
    apply StronglySorted_inv in H1. destruct H1 as [H1 F1].
    apply StronglySorted_inv in H2. destruct H2 as [H2 F2].
    rewrite Forall_forall in F1, F2.
    assert (a = b) as ->.
    { assert (In b (a :: l1)) as Hb by (apply (Permutation_in _ (Permutation_sym HP)); left; reflexivity).
      assert (In a (b :: l2)) as Ha by (apply (Permutation_in _ HP); left; reflexivity).
      destruct Hb as [Hb|Hb]; [exact Hb|]. destruct Ha as [Ha|Ha]; [symmetry; exact Ha|].
      specialize (F1 _ Hb). specialize (F2 _ Ha). lia. }
    f_equal. apply IH; [exact H1 | exact H2 | eapply Permutation_cons_inv; exact HP].
Qed.

Lemma pep_zseq_length n : forall s, length (pep_zseq s n) = n.
Proof. induction n as [|n IH]; intros s; simpl; [reflexivity|]. rewrite IH. reflexivity. Qed.

Lemma pep_zseq_nth n : forall s k, (k < n)%nat -> nth k (pep_zseq s n) 0%Z = (s + Z.of_nat k)%Z.
Proof.
  induction n as [|n IH]; intros s k Hk; [lia|]. destruct k as [|k]; simpl; [lia|].
  rewrite IH by lia. lia.
Qed.

Lemma pep_zseq_in n : forall s z, In z (pep_zseq s n) -> (s <= z < s + Z.of_nat n)%Z.
Proof.
  induction n as [|n IH]; intros s z H; [destruct H|]. destruct H as [<-|H]; [lia|].
  apply IH in H. lia.
Qed.

Lemma pep_zseq_sorted n : forall s, StronglySorted Z.lt (pep_zseq s n).
Proof.
  induction n as [|n IH]; intros s; simpl; [constructor|]. constructor; [apply IH|].
  rewrite Forall_forall. intros z Hz. apply pep_zseq_in in Hz. lia.
Qed.

Lemma pep_zseq_sorted_le n s : StronglySorted Z.le (pep_zseq s n).
Proof. eapply pep_ss_impl; [|apply pep_zseq_sorted]. intros a b. lia. Qed.

Lemma pep_map_fst_combine {A B} (a : list A) (b : list B) : length a = length b -> map fst (combine a b) = a.
Proof. revert b; induction a as [|x a IH]; intros [|y b] H; simpl in *; try lia; [reflexivity|]. rewrite IH by lia. reflexivity. Qed.

Lemma pep_map_snd_combine {A B} (a : list A) (b : list B) : length a = length b -> map snd (combine a b) = b.
Proof. revert b; induction a as [|x a IH]; intros [|y b] H; simpl in *; try lia; [reflexivity|]. rewrite IH by lia. reflexivity. Qed.

Lemma pep_combine_sorted {A} (keys : list Z) (b : list A) :
  StronglySorted Z.le keys -> StronglySorted pep_kle (combine keys b).
Proof.
  intros H. revert b. induction H as [|k keys Hs IH Hf]; intros b; [constructor|].
  destruct b as [|y b]; [constructor|]. simpl. constructor; [apply IH|].
  rewrite Forall_forall in *. intros [k' y'] Hin. apply in_combine_l in Hin. unfold pep_kle. simpl. apply Hf, Hin.
Qed.

(* out[idx] = vals puts the p-th value at position idx[p] *)
Lemma pep_scatter_spec idx vals n :
  Permutation idx (pep_zseq 0 n) -> length vals = n ->
  length (pep_scatter idx vals) = n /\
  forall p, (p < n)%nat -> nth (Z.to_nat (nth p idx 0%Z)) (pep_scatter idx vals) 0 = nth p vals 0.
Proof.
  intros HP Hv.
  assert (length idx = n) as Hi by (rewrite (Permutation_length HP); apply pep_zseq_length).
  unfold pep_scatter. set (S := pep_sort (combine idx vals)).
  assert (Permutation S (combine idx vals)) as HS by apply pep_sort_perm.
  assert (length S = n) as HSl by (rewrite (Permutation_length HS), combine_length, Hi, Hv; apply Nat.min_id).
  assert (map fst S = pep_zseq 0 n) as Hfst.
  { apply pep_sorted_perm_eq.
    - apply (pep_ss_map pep_kle Z.le fst); [intros a b H; exact H | apply pep_sort_sorted].
    - apply pep_zseq_sorted_le.
    - rewrite (Permutation_map fst HS), pep_map_fst_combine by lia. exact HP. }
  split; [rewrite map_length; exact HSl|].
  intros p Hp.
  assert (In (nth p idx 0%Z, nth p vals 0) S) as Hin.
  { apply (Permutation_in _ (Permutation_sym HS)). rewrite <- combine_nth by lia.
    apply nth_In. rewrite combine_length, Hi, Hv, Nat.min_id. exact Hp. }
  destruct (In_nth _ _ (0%Z, 0) Hin) as (r & Hr & Er).
  assert (nth r (map fst S) 0%Z = nth p idx 0%Z) as E1.
  { change 0%Z with (fst (0%Z, 0)) at 1. rewrite map_nth, Er. reflexivity. }
  rewrite Hfst, pep_zseq_nth in E1 by lia.
  rewrite <- E1. replace (Z.to_nat (0 + Z.of_nat r)) with r by lia.
  change 0 with (snd (0%Z, 0)) at 1. rewrite map_nth, Er. reflexivity.
Qed.

(* ====================== peps_from_scores(..., "qvality") ====================== *)
(* the scores in descending order *)
Definition pep_sorted_desc (scores : list Z) : list Z := map (fun r => (- fst r)%Z) (pep_desc_order scores).

(* v is the largest f-value among the scores at least as good as s *)
Definition pep_is_sup (f : Z -> Q) (scores : list Z) (s : Z) (v : Q) : Prop :=
  (forall s', In s' scores -> (s <= s')%Z -> f s' <= v) /\
  (exists s', In s' scores /\ (s <= s')%Z /\ v = f s').

Lemma pep_is_sup_unique f scores s v w : pep_is_sup f scores s v -> pep_is_sup f scores s w -> v == w.
Proof.
  intros (Hv & sv & Iv & Lv & Ev) (Hw & sw & Iw & Lw & Ew). apply Qle_antisym.
  - rewrite Ev. apply Hw; assumption.
  - rewrite Ew. apply Hv; assumption.
Qed.

Lemma pep_is_sup_perm f scores scores' s v : Permutation scores scores' -> pep_is_sup f scores s v -> pep_is_sup f scores' s v.
Proof.
  intros HP (Hv & sv & Iv & Lv & Ev). split.
  - intros s' Hs'. apply Hv. apply (Permutation_in _ (Permutation_sym HP)). exact Hs'.
  - exists sv. repeat split; try assumption. apply (Permutation_in _ HP). exact Iv.
Qed.

Lemma pep_is_sup_antitone f scores s1 s2 v1 v2 :
  pep_is_sup f scores s1 v1 -> pep_is_sup f scores s2 v2 -> (s1 <= s2)%Z -> v2 <= v1.
Proof.
  intros (H1 & _) (_ & s' & I' & L' & ->) Hs. apply H1; [exact I' | lia].
Qed.

Section DescOrder.
Variable scores : list Z.
Let n := length scores.
Let rows := combine (map Z.opp scores) (pep_zseq 0 n).
Let srt := pep_desc_order scores.

Lemma pep_rows_nth i : (i < n)%nat -> nth i rows (0%Z, 0%Z) = ((- nth i scores 0)%Z, Z.of_nat i).
Proof.
  intros Hi. unfold rows. rewrite combine_nth by (rewrite map_length, pep_zseq_length; reflexivity).
  rewrite pep_zseq_nth by exact Hi. f_equal.
  change 0%Z with (- 0)%Z at 1. apply map_nth.
Qed.

Lemma pep_rows_length : length rows = n.
Proof. unfold rows. rewrite combine_length, map_length, pep_zseq_length. apply Nat.min_id. Qed.

Lemma pep_srt_perm : Permutation srt rows.
Proof. apply pep_sort_perm. Qed.

Lemma pep_srt_length : length srt = n.
Proof. rewrite (Permutation_length pep_srt_perm). apply pep_rows_length. Qed.

Lemma pep_srt_sorted : StronglySorted pep_kle srt.
Proof. apply pep_sort_sorted. Qed.

Lemma pep_srt_idx_perm : Permutation (map snd srt) (pep_zseq 0 n).
Proof.
  rewrite (Permutation_map snd pep_srt_perm). unfold rows.
  rewrite pep_map_snd_combine by (rewrite map_length, pep_zseq_length; reflexivity). reflexivity.
Qed.

(* every sorted position holds some input row *)
Lemma pep_srt_row p : (p < n)%nat ->
  exists i, (i < n)%nat /\ nth p srt (0%Z, 0%Z) = ((- nth i scores 0)%Z, Z.of_nat i).
Proof.
  intros Hp. assert (In (nth p srt (0%Z, 0%Z)) rows) as Hin.
  { apply (Permutation_in _ pep_srt_perm). apply nth_In. rewrite pep_srt_length. exact Hp. }
  destruct (In_nth _ _ (0%Z, 0%Z) Hin) as (i & Hi & Ei). rewrite pep_rows_length in Hi.
  exists i. split; [exact Hi|]. rewrite <- Ei. apply pep_rows_nth. exact Hi.
Qed.

(* every input row sits at some sorted position *)
Lemma pep_srt_pos i : (i < n)%nat ->
  exists p, (p < n)%nat /\ nth p srt (0%Z, 0%Z) = ((- nth i scores 0)%Z, Z.of_nat i).
Proof.
  intros Hi. assert (In ((- nth i scores 0)%Z, Z.of_nat i) srt) as Hin.
  { apply (Permutation_in _ (Permutation_sym pep_srt_perm)). rewrite <- pep_rows_nth by exact Hi.
    apply nth_In. rewrite pep_rows_length. exact Hi. }
  destruct (In_nth _ _ (0%Z, 0%Z) Hin) as (p & Hp & Ep). rewrite pep_srt_length in Hp.
  exists p. split; [exact Hp | exact Ep].
Qed.

Lemma pep_sorted_desc_spec :
  Permutation (pep_sorted_desc scores) scores /\ StronglySorted (fun a b => (b <= a)%Z) (pep_sorted_desc scores).
Proof.
  unfold pep_sorted_desc. fold srt. split.
  - rewrite (Permutation_map (fun r => (- fst r)%Z) pep_srt_perm). unfold rows.
    rewrite <- (map_map fst Z.opp), pep_map_fst_combine by (rewrite map_length, pep_zseq_length; reflexivity).
    rewrite map_map. rewrite (map_ext _ (fun x => x)) by (intros; lia). rewrite map_id. reflexivity.
  - apply (pep_ss_map pep_kle (fun a b => (b <= a)%Z) (fun r : Z * Z => (- fst r)%Z)); [|apply pep_srt_sorted].
    intros a b H. unfold pep_kle in H. lia.
Qed.

Variables (targets : list bool) (fs : list Q) (ps : list Q).
Hypothesis Hrun : pep_qvality scores targets fs = Ok ps.

Lemma pep_qvality_lengths : length targets = n /\ length fs = n /\
  ps = pep_scatter (map snd srt) (pep_qvality_sorted_order fs).
Proof.
  unfold pep_qvality in Hrun.
  destruct (pep_same_length scores targets) eqn:E1; [|discriminate].
  destruct (pep_same_length scores fs) eqn:E2; [|discriminate]. cbn [negb] in Hrun.
  apply pep_same_length_true in E1, E2. repeat split; [symmetry; exact E1 | symmetry; exact E2 |].
  unfold srt. injection Hrun as E. symmetry. exact E.
Qed.

Lemma pep_vals_length : length (pep_qvality_sorted_order fs) = n.
Proof.
  destruct pep_qvality_lengths as (_ & Hf & _).
  unfold pep_qvality_sorted_order, pep_qvality_monotonize. rewrite map_length, pep_monotonize_simple_length. exact Hf.
Qed.

Lemma pep_qvality_out_length : length ps = n.
Proof.
  destruct pep_qvality_lengths as (_ & _ & E). rewrite E.
  apply (pep_scatter_spec _ _ n pep_srt_idx_perm pep_vals_length).
Qed.

(* the value of input row i is the value computed at its sorted position *)
Lemma pep_qvality_position i : (i < n)%nat ->
  exists p, (p < n)%nat /\ nth p srt (0%Z, 0%Z) = ((- nth i scores 0)%Z, Z.of_nat i) /\
            nth i ps 0 = nth p (pep_qvality_sorted_order fs) 0.
Proof.
  intros Hi. destruct (pep_srt_pos i Hi) as (p & Hp & Ep). exists p. split; [exact Hp|]. split; [exact Ep|].
  destruct pep_qvality_lengths as (_ & _ & E). rewrite E.
  destruct (pep_scatter_spec _ _ n pep_srt_idx_perm pep_vals_length) as [_ Hsc].
  rewrite <- (Hsc p Hp).
  change 0%Z with (snd (0%Z, 0%Z)) at 2. rewrite map_nth, Ep. simpl snd. rewrite Nat2Z.id. reflexivity.
Qed.

Variable f : Z -> Q.
Hypothesis Hf : fs = map f (pep_sorted_desc scores).

Lemma pep_fs_nth q : (q < n)%nat -> nth q fs 0 = f (- fst (nth q srt (0%Z, 0%Z)))%Z.
Proof.
  intros Hq. rewrite Hf. unfold pep_sorted_desc. fold srt. rewrite map_map.
  apply (pep_nth_map (fun r : Z * Z => f (- fst r)%Z) srt q (0%Z, 0%Z) 0). rewrite pep_srt_length. exact Hq.
Qed.

Theorem pep_qvality_spec_sec i : (i < n)%nat ->
  exists v, pep_is_sup f scores (nth i scores 0%Z) v /\ nth i ps 0 = pep_qmin 1 v.
Proof.
  intros Hi. destruct (pep_qvality_position i Hi) as (p & Hp & Ep & Eps). rewrite Eps.
  destruct pep_qvality_lengths as (_ & Hfl & _).
  unfold pep_qvality_sorted_order, pep_qvality_monotonize.
  rewrite (pep_nth_map (pep_qmin 1) _ p 0 0) by (rewrite pep_monotonize_simple_length, Hfl; exact Hp).
  exists (nth p (pep_monotonize_simple true fs) 0). split; [|reflexivity].
  destruct (pep_cummax_nth fs p ltac:(rewrite Hfl; exact Hp)) as (Hub & q & Hq & Eq). cbv zeta in *.
  split.
  - intros s' Hs' Hle. destruct (In_nth _ _ 0%Z Hs') as (i' & Hi' & <-). fold n in Hi'.
    destruct (pep_srt_pos i' Hi') as (p' & Hp' & Ep').
    destruct (Nat.le_gt_cases p' p) as [Hpp|Hpp].
    + specialize (Hub p' Hpp). rewrite (pep_fs_nth p' Hp'), Ep' in Hub. simpl fst in Hub.
      rewrite Z.opp_involutive in Hub. exact Hub.
    + pose proof (pep_ss_nth pep_kle srt (0%Z, 0%Z) p p' pep_srt_sorted ltac:(rewrite pep_srt_length; lia)) as Hs.
      unfold pep_kle in Hs. rewrite Ep, Ep' in Hs. simpl in Hs.
      assert (nth i' scores 0%Z = nth i scores 0%Z) as -> by lia.
      specialize (Hub p (Nat.le_refl p)). rewrite (pep_fs_nth p Hp), Ep in Hub. simpl fst in Hub.
      rewrite Z.opp_involutive in Hub. exact Hub.
  - assert (q < n)%nat as Hqn by lia.
    destruct (pep_srt_row q Hqn) as (iq & Hiq & Eqr).
    exists (nth iq scores 0%Z). split; [apply nth_In; exact Hiq|]. split.
    + destruct (Nat.eq_dec q p) as [->|Hne].
      * rewrite Ep in Eqr. injection Eqr as E1 _. lia.
      * pose proof (pep_ss_nth pep_kle srt (0%Z, 0%Z) q p pep_srt_sorted ltac:(rewrite pep_srt_length; lia)) as Hs.
        unfold pep_kle in Hs. rewrite Ep, Eqr in Hs. simpl in Hs. lia.
    + rewrite Eq, (pep_fs_nth q Hqn), Eqr. simpl fst. rewrite Z.opp_involutive. reflexivity.
Qed.
End DescOrder.

(* what the harness checks on the recorded spline values: one value per score, equal scores equal values *)
Definition pep_f_table (f : Z -> Q) (scores : list Z) (fs : list Q) : Prop :=
  fs = map f (pep_sorted_desc scores).

Theorem pep_qvality_spec scores targets fs ps f :
  pep_qvality scores targets fs = Ok ps -> pep_f_table f scores fs ->
  length ps = length scores /\
  forall i, (i < length scores)%nat ->
    exists v, pep_is_sup f scores (nth i scores 0%Z) v /\ nth i ps 0 = pep_qmin 1 v.
Proof.
  intros H Hf. split; [apply (pep_qvality_out_length scores targets fs ps H)|].
  intros i Hi. apply (pep_qvality_spec_sec scores targets fs ps H f Hf i Hi).
Qed.

Theorem pep_qvality_range scores targets fs ps f :
  pep_qvality scores targets fs = Ok ps -> pep_f_table f scores fs ->
  (forall s, In s scores -> 0 <= f s) ->
  forall i, (i < length scores)%nat -> 0 <= nth i ps 0 /\ nth i ps 0 <= 1.
Proof.
  intros H Hf Hpos i Hi. destruct (pep_qvality_spec _ _ _ _ _ H Hf) as [_ Hs].
  destruct (Hs i Hi) as (v & (_ & s' & Is' & _ & Ev) & ->). split; [|apply pep_qmin_le_l].
  apply pep_qmin_glb; [discriminate|]. rewrite Ev. apply Hpos. exact Is'.
Qed.

Theorem pep_qvality_monotone scores targets fs ps f :
  pep_qvality scores targets fs = Ok ps -> pep_f_table f scores fs ->
  forall i j, (i < length scores)%nat -> (j < length scores)%nat ->
    (nth i scores 0 <= nth j scores 0)%Z -> nth j ps 0 <= nth i ps 0.
Proof.
  intros H Hf i j Hi Hj Hs. destruct (pep_qvality_spec _ _ _ _ _ H Hf) as [_ Hsp].
  destruct (Hsp i Hi) as (vi & Si & ->). destruct (Hsp j Hj) as (vj & Sj & ->).
  apply pep_qmin_mono; [apply Qle_refl|]. eapply pep_is_sup_antitone; eassumption.
Qed.

Theorem pep_qvality_ties scores targets fs ps f :
  pep_qvality scores targets fs = Ok ps -> pep_f_table f scores fs ->
  forall i j, (i < length scores)%nat -> (j < length scores)%nat ->
    nth i scores 0%Z = nth j scores 0%Z -> nth i ps 0 == nth j ps 0.
Proof.
  intros H Hf i j Hi Hj Hs.
  apply Qle_antisym; eapply pep_qvality_monotone; try eassumption; lia.
Qed.

(* the descending list of scores does not depend on the input order *)
Lemma pep_sorted_desc_perm scores scores' : Permutation scores scores' -> pep_sorted_desc scores = pep_sorted_desc scores'.
Proof.
  intros HP.
  destruct (pep_sorted_desc_spec scores) as [P1 S1]. destruct (pep_sorted_desc_spec scores') as [P2 S2].
  assert (map Z.opp (pep_sorted_desc scores) = map Z.opp (pep_sorted_desc scores')) as E.
  { apply pep_sorted_perm_eq.
    - apply (pep_ss_map (fun a b => (b <= a)%Z) Z.le Z.opp); [intros a b; lia | exact S1].
    - apply (pep_ss_map (fun a b => (b <= a)%Z) Z.le Z.opp); [intros a b; lia | exact S2].
    - apply Permutation_map. eapply Permutation_trans; [exact P1|]. eapply Permutation_trans; [exact HP|]. apply Permutation_sym. exact P2. }
  apply (f_equal (map Z.opp)) in E. rewrite !map_map in E.
  rewrite !(map_ext (fun x => (- - x)%Z) (fun x => x)) in E by (intros; lia). rewrite !map_id in E. exact E.
Qed.

(* aligned whatever the input order: the same PSMs in another order get the same values *)
Theorem pep_qvality_input_order scores targets fs ps scores' targets' ps' f i j :
  pep_qvality scores targets fs = Ok ps -> pep_qvality scores' targets' fs = Ok ps' ->
  pep_f_table f scores fs -> Permutation scores scores' ->
  (i < length scores)%nat -> (j < length scores')%nat -> nth i scores 0%Z = nth j scores' 0%Z ->
  nth i ps 0 == nth j ps' 0.
Proof.
  intros H H' Hf HP Hi Hj E.
  assert (pep_f_table f scores' fs) as Hf' by (unfold pep_f_table in *; rewrite <- (pep_sorted_desc_perm _ _ HP); exact Hf).
  destruct (pep_qvality_spec _ _ _ _ _ H Hf) as [_ Hs]. destruct (pep_qvality_spec _ _ _ _ _ H' Hf') as [_ Hs'].
  destruct (Hs i Hi) as (v & Sv & ->). destruct (Hs' j Hj) as (w & Sw & ->).
  rewrite <- E in Sw. apply (pep_is_sup_perm _ _ _ _ _ HP) in Sv.
  pose proof (pep_is_sup_unique _ _ _ _ _ Sv Sw) as Evw.
  apply Qle_antisym; apply pep_qmin_mono; try apply Qle_refl; rewrite Evw; apply Qle_refl.
Qed.

(* on input that is already in descending order (what the pipeline feeds) the un-sorting is the identity:
   the vector triqler returns is the answer *)
Theorem pep_qvality_sorted_input scores targets fs :
  StronglySorted (fun a b => (b <= a)%Z) scores ->
  length targets = length scores -> length fs = length scores ->
  pep_qvality scores targets fs = Ok (pep_qvality_sorted_order fs).
Proof.
  intros Hs Ht Hfl. unfold pep_qvality.
  assert (pep_same_length scores targets = true) as -> by (apply pep_same_length_true; lia).
  assert (pep_same_length scores fs = true) as -> by (apply pep_same_length_true; lia).
  cbn [negb]. f_equal. unfold pep_desc_order.
  rewrite pep_sort_id.
  2:{ apply pep_combine_sorted. apply (pep_ss_map (fun a b => (b <= a)%Z) Z.le Z.opp); [intros a b; lia | exact Hs]. }
  rewrite pep_map_snd_combine by (rewrite map_length, pep_zseq_length; reflexivity).
  unfold pep_scatter. rewrite pep_sort_id by (apply pep_combine_sorted, pep_zseq_sorted_le).
  apply pep_map_snd_combine. rewrite pep_zseq_length.
  unfold pep_qvality_sorted_order, pep_qvality_monotonize. rewrite map_length, pep_monotonize_simple_length. lia.
Qed.

(* ... and on other input it is not: a better score can carry the larger value *)
Theorem pep_qvality_unsorted_refuted :
  exists (scores : list Z) (f : Z -> Q) (fs : list Q),
    pep_f_table f scores fs /\ (forall s, 0 <= f s) /\
    exists i j, (i < length scores)%nat /\ (j < length scores)%nat /\
      (nth i scores 0 < nth j scores 0)%Z /\
      nth i (pep_qvality_sorted_order fs) 0 < nth j (pep_qvality_sorted_order fs) 0.
Proof.
  exists [1; 2]%Z, (fun s => if (s =? 2)%Z then 1 # 10 else 1 # 2), [1 # 10; 1 # 2].
  split; [vm_compute; reflexivity|]. split; [intros s; destruct (s =? 2)%Z; discriminate|].
  exists 0%nat, 1%nat. repeat split; try (simpl; lia); vm_compute; reflexivity.
Qed.

(* ====================== monotonize_simple, both directions ====================== *)
Theorem pep_monotonize_simple_spec asc l :
  length (pep_monotonize_simple asc l) = length l /\
  (if asc then StronglySorted Qle (pep_monotonize_simple asc l)
   else StronglySorted (fun a b => b <= a) (pep_monotonize_simple asc l)).
Proof.
  split; [apply pep_monotonize_simple_length|]. destruct asc; [apply pep_cummax_sorted | apply pep_cummin_sorted].
Qed.
