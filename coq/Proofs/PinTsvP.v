(* Proofs about Model/PinTsv.v (C19). *)
From Coq Require Import Lia.
From Mokaverif Require Import Model.Base Model.PinTsv.
Open Scope Z_scope.

(* ---------- string equality ---------- *)
Lemma str_eqb_eq a b : str_eqb a b = true <-> a = b.
Proof.
  revert b; induction a as [|x a IH]; intros [|y b]; simpl; try (split; congruence).
  rewrite andb_true_iff, Z.eqb_eq, IH. split; [intros [-> ->]; reflexivity | intros H; inversion H; auto].
Qed.

Lemma str_eqb_refl a : str_eqb a a = true.
Proof. apply str_eqb_eq; reflexivity. Qed.

Lemma str_eqb_neq a b : str_eqb a b = false <-> a <> b.
Proof.
  split.
  - intros H E. apply str_eqb_eq in E. congruence.
  - intros H. destruct (str_eqb a b) eqn:E; [apply str_eqb_eq in E; contradiction | reflexivity].
Qed.

Lemma index_str_app x pre post :
  ~ In x pre -> index_str x (pre ++ x :: post) = Some (length pre).
Proof.
  induction pre as [|y pre IH]; simpl; intros H.
  - rewrite str_eqb_refl. reflexivity.
  - destruct (str_eqb x y) eqn:E.
    + apply str_eqb_eq in E. subst. exfalso. apply H. left; reflexivity.
    + rewrite IH; [reflexivity | intros Hin; apply H; right; exact Hin].
Qed.

Lemma index_str_none x l : index_str x l = None <-> ~ In x l.
Proof.
  induction l as [|y l IH]; simpl.
  - split; [intros _ []| reflexivity].
  - destruct (str_eqb x y) eqn:E.
    + apply str_eqb_eq in E. subst. split; [discriminate | intros H; exfalso; apply H; left; reflexivity].
    + apply str_eqb_neq in E. destruct (index_str x l) eqn:I.
      * split; [discriminate|]. intros H. exfalso.
        assert (~ In x l) as Hn by (intros Hin; apply H; right; exact Hin).
        apply IH in Hn. discriminate.
      * split; [|reflexivity]. intros _ [H|H]; [congruence|]. apply (proj1 IH); auto.
Qed.

(* ---------- split / join ---------- *)
Lemma split_aux_nosep sep cur f :
  ~ In sep f -> split_aux sep cur f = [rev cur ++ f].
Proof.
  revert cur; induction f as [|c f IH]; simpl; intros cur H.
  - rewrite app_nil_r. reflexivity.
  - destruct (c =? sep) eqn:E.
    + apply Z.eqb_eq in E. exfalso. apply H. left. exact E.
    + rewrite IH by (intros Hin; apply H; right; exact Hin).
      simpl. rewrite <- app_assoc. reflexivity.
Qed.

Lemma split_aux_app sep cur f s :
  ~ In sep f -> split_aux sep cur (f ++ sep :: s) = (rev cur ++ f) :: split_aux sep [] s.
Proof.
  revert cur; induction f as [|c f IH]; simpl; intros cur H.
  - rewrite Z.eqb_refl, app_nil_r. reflexivity.
  - destruct (c =? sep) eqn:E.
    + apply Z.eqb_eq in E. exfalso. apply H. left. exact E.
    + rewrite IH by (intros Hin; apply H; right; exact Hin).
      simpl. rewrite <- app_assoc. reflexivity.
Qed.

Lemma split_join sep fs :
  Forall (fun f => ~ In sep f) fs -> fs <> [] -> split sep (join sep fs) = fs.
Proof.
  unfold split. induction fs as [|f fs IH]; intros HF Hne; [congruence|].
  inversion HF as [|? ? Hf HF']; subst.
  destruct fs as [|g fs].
  - simpl. rewrite split_aux_nosep by exact Hf. reflexivity.
  - change (join sep (f :: g :: fs)) with (f ++ sep :: join sep (g :: fs)).
    rewrite split_aux_app by exact Hf. simpl rev. simpl app at 1.
    f_equal. apply IH; [exact HF' | discriminate].
Qed.

Lemma split_length sep s : length (split sep s) = S (zcount sep s).
Proof.
  unfold split. generalize (@nil Z) as cur.
  induction s as [|c s IH]; simpl; intros cur; [reflexivity|].
  destruct (c =? sep) eqn:E; simpl; rewrite IH; reflexivity.
Qed.

Lemma zcount_app c a b : zcount c (a ++ b) = (zcount c a + zcount c b)%nat.
Proof. induction a as [|x a IH]; simpl; [reflexivity|]. rewrite IH. lia. Qed.

Lemma zcount_notin c a : ~ In c a -> zcount c a = 0%nat.
Proof.
  induction a as [|x a IH]; simpl; intros H; [reflexivity|].
  destruct (x =? c) eqn:E.
  - apply Z.eqb_eq in E. exfalso; apply H; left; exact E.
  - rewrite IH; [reflexivity | intros Hin; apply H; right; exact Hin].
Qed.

Lemma zcount_join sep fs :
  Forall (fun f => ~ In sep f) fs -> fs <> [] -> S (zcount sep (join sep fs)) = length fs.
Proof.
  intros HF Hne. rewrite <- split_length, split_join by assumption. reflexivity.
Qed.

Lemma join_notin sep c fs :
  c <> sep -> Forall (fun f => ~ In c f) fs -> ~ In c (join sep fs).
Proof.
  intros Hc. induction fs as [|f fs IH]; intros HF; [intros []|].
  inversion HF as [|? ? Hf HF']; subst.
  destruct fs as [|g fs]; [exact Hf|].
  change (join sep (f :: g :: fs)) with (f ++ sep :: join sep (g :: fs)).
  intros Hin. apply in_app_or in Hin. destruct Hin as [Hin|[Hin|Hin]].
  - exact (Hf Hin).
  - congruence.
  - exact (IH HF' Hin).
Qed.

(* ---------- joins (string separator) ---------- *)
Lemma joins_cons2 sep f g fs : joins sep (f :: g :: fs) = f ++ sep ++ joins sep (g :: fs).
Proof. reflexivity. Qed.

Lemma joins_single c fs : joins [c] fs = join c fs.
Proof.
  induction fs as [|f fs IH]; [reflexivity|]. destruct fs as [|g fs]; [reflexivity|].
  rewrite joins_cons2, IH. reflexivity.
Qed.

Lemma joins_notin sep c fs :
  ~ In c sep -> Forall (fun f => ~ In c f) fs -> ~ In c (joins sep fs).
Proof.
  intros Hc. induction fs as [|f fs IH]; intros HF; [intros []|].
  inversion HF as [|? ? Hf HF']; subst.
  destruct fs as [|g fs]; [exact Hf|].
  rewrite joins_cons2.
  intros Hin. apply in_app_or in Hin. destruct Hin as [Hin|Hin]; [exact (Hf Hin)|].
  apply in_app_or in Hin. destruct Hin as [Hin|Hin]; [exact (Hc Hin)|exact (IH HF' Hin)].
Qed.

(* ---------- strip ---------- *)
Definition first_ok (l : str) : Prop := exists c r, l = c :: r /\ is_ws c = false.
Definition last_ok (l : str) : Prop := exists c r, l = r ++ [c] /\ is_ws c = false.

Lemma lstrip_first_ok l : first_ok l -> lstrip l = l.
Proof. intros (c & r & -> & H). simpl. rewrite H. reflexivity. Qed.

Lemma rstrip_last_ok l : last_ok l -> rstrip l = l.
Proof.
  intros (c & r & -> & H). unfold rstrip. rewrite rev_app_distr. simpl. rewrite H.
  simpl. rewrite rev_involutive. reflexivity.
Qed.

Lemma rstrip_ws l c : is_ws c = true -> rstrip (l ++ [c]) = rstrip l.
Proof. intros H. unfold rstrip. rewrite rev_app_distr. simpl. rewrite H. reflexivity. Qed.

Lemma strip_id l : first_ok l -> last_ok l -> strip l = l.
Proof. intros Hf Hl. unfold strip. rewrite lstrip_first_ok by exact Hf. apply rstrip_last_ok; exact Hl. Qed.

Lemma strip_nl l : first_ok l -> last_ok l -> strip (l ++ [NL]) = l.
Proof.
  intros Hf Hl. unfold strip.
  assert (first_ok (l ++ [NL])) as Hf'.
  { destruct Hf as (c & r & -> & H). exists c, (r ++ [NL]). split; [reflexivity|exact H]. }
  rewrite lstrip_first_ok by exact Hf'. rewrite rstrip_ws by reflexivity.
  apply rstrip_last_ok; exact Hl.
Qed.

Lemma first_ok_join sep f fs : first_ok f -> first_ok (join sep (f :: fs)).
Proof.
  intros (c & r & -> & H). destruct fs as [|g fs].
  - exists c, r. split; [reflexivity|exact H].
  - change (join sep ((c :: r) :: g :: fs)) with ((c :: r) ++ sep :: join sep (g :: fs)).
    exists c, (r ++ sep :: join sep (g :: fs)). split; [reflexivity|exact H].
Qed.

Lemma last_ok_join sep fs : fs <> [] -> last_ok (last fs []) -> last_ok (join sep fs).
Proof.
  induction fs as [|f fs IH]; intros Hne Hl; [congruence|].
  destruct fs as [|g fs]; [exact Hl|].
  change (join sep (f :: g :: fs)) with (f ++ sep :: join sep (g :: fs)).
  assert (last_ok (join sep (g :: fs))) as (c & r & E & H).
  { apply IH; [discriminate|exact Hl]. }
  exists c, (f ++ sep :: r). split; [|exact H].
  rewrite E. rewrite <- app_assoc. reflexivity.
Qed.

Lemma first_ok_joins sep f fs : first_ok f -> first_ok (joins sep (f :: fs)).
Proof.
  intros (c & r & -> & H). destruct fs as [|g fs].
  - exists c, r. split; [reflexivity|exact H].
  - rewrite joins_cons2.
    exists c, (r ++ sep ++ joins sep (g :: fs)). split; [reflexivity|exact H].
Qed.

Lemma last_ok_joins sep fs : fs <> [] -> last_ok (last fs []) -> last_ok (joins sep fs).
Proof.
  induction fs as [|f fs IH]; intros Hne Hl; [congruence|].
  destruct fs as [|g fs]; [exact Hl|].
  rewrite joins_cons2.
  assert (last_ok (joins sep (g :: fs))) as (c & r & E & H).
  { apply IH; [discriminate|exact Hl]. }
  exists c, (f ++ sep ++ r). split; [|exact H].
  rewrite <- !app_assoc. do 2 f_equal. exact E.
Qed.

(* ---------- prefix ---------- *)
Lemma prefixb_field p f sep s :
  ~ In sep p -> prefixb p (f ++ sep :: s) = prefixb p f.
Proof.
  revert f; induction p as [|x p IH]; intros f H; [destruct f; reflexivity|].
  destruct f as [|c f]; simpl.
  - destruct (x =? sep) eqn:E; [|reflexivity].
    apply Z.eqb_eq in E. exfalso. apply H. left. exact E.
  - rewrite IH; [reflexivity | intros Hin; apply H; right; exact Hin].
Qed.

Lemma prefixb_join p sep f fs :
  ~ In sep p -> prefixb p (join sep (f :: fs)) = prefixb p f.
Proof.
  intros H. destruct fs as [|g fs]; [reflexivity|].
  change (join sep (f :: g :: fs)) with (f ++ sep :: join sep (g :: fs)).
  apply prefixb_field; exact H.
Qed.

(* ---------- lines ---------- *)
Fixpoint with_nl (final_nl : bool) (ls : list str) : list str :=
  match ls with
  | [] => []
  | [l] => if final_nl then [l ++ [NL]] else [l]
  | l :: r => (l ++ [NL]) :: with_nl final_nl r
  end.

Lemma lines_aux_nonl cur l :
  ~ In NL l -> lines_aux cur (l ++ [NL]) = [rev cur ++ l ++ [NL]].
Proof.
  revert cur; induction l as [|c l IH]; simpl; intros cur H.
  - reflexivity.
  - destruct (c =? NL) eqn:E.
    + apply Z.eqb_eq in E. exfalso; apply H; left; exact E.
    + rewrite IH by (intros Hin; apply H; right; exact Hin).
      simpl. rewrite <- app_assoc. reflexivity.
Qed.

Lemma lines_aux_app cur l s :
  ~ In NL l -> lines_aux cur (l ++ NL :: s) = (rev cur ++ l ++ [NL]) :: lines_aux [] s.
Proof.
  revert cur; induction l as [|c l IH]; simpl; intros cur H.
  - reflexivity.
  - destruct (c =? NL) eqn:E.
    + apply Z.eqb_eq in E. exfalso; apply H; left; exact E.
    + rewrite IH by (intros Hin; apply H; right; exact Hin).
      simpl. rewrite <- app_assoc. reflexivity.
Qed.

Lemma lines_aux_last cur l :
  ~ In NL l -> rev cur ++ l <> [] -> lines_aux cur l = [rev cur ++ l].
Proof.
  revert cur; induction l as [|c l IH]; simpl; intros cur H Hne.
  - rewrite app_nil_r in *. destruct cur; [simpl in Hne; congruence | reflexivity].
  - destruct (c =? NL) eqn:E.
    + apply Z.eqb_eq in E. exfalso; apply H; left; exact E.
    + rewrite IH.
      * simpl. rewrite <- app_assoc. reflexivity.
      * intros Hin; apply H; right; exact Hin.
      * simpl. rewrite <- app_assoc. simpl. destruct (rev cur); discriminate.
Qed.

Lemma lines_render final_nl ls :
  Forall (fun l => ~ In NL l /\ l <> []) ls ->
  lines_of (render_lines final_nl ls) = with_nl final_nl ls.
Proof.
  unfold lines_of. induction ls as [|l ls IH]; intros HF; [reflexivity|].
  inversion HF as [|? ? [Hl Hne] HF']; subst.
  destruct ls as [|m ls].
  - simpl. destruct final_nl.
    + rewrite lines_aux_nonl by exact Hl. reflexivity.
    + rewrite lines_aux_last; [reflexivity | exact Hl | exact Hne].
  - change (render_lines final_nl (l :: m :: ls)) with (l ++ NL :: render_lines final_nl (m :: ls)).
    rewrite lines_aux_app by exact Hl. rewrite IH by exact HF'. reflexivity.
Qed.

(* ---------- convert_line ---------- *)
Definition field_ok (sepc : Z) (f : str) : Prop := ~ In sepc f /\ ~ In NL f.

Lemma pyslice_mid {A} (a b c : list A) :
  pyslice (a ++ b ++ c) (length a) (length a + length b) = b.
Proof.
  unfold pyslice. rewrite skipn_app, skipn_all, Nat.sub_diag. simpl.
  replace (length a + length b - length a)%nat with (length b + 0)%nat by lia.
  rewrite firstn_app_2. simpl. apply app_nil_r.
Qed.

Lemma convert_line_ok sepc sepp (pre prots post : list str) idx ncol :
  Forall (fun f => ~ In sepc f) (pre ++ prots ++ post) ->
  length pre = idx -> prots <> [] -> ncol = (idx + 1 + length post)%nat ->
  convert_line_sep sepc sepp (join sepc (pre ++ prots ++ post)) idx ncol
  = join sepc (pre ++ [joins sepp prots] ++ post).
Proof.
  intros HF Hpre Hne Hncol. unfold convert_line_sep. cbv zeta.
  rewrite split_join; [|exact HF| destruct pre; [destruct prots; [congruence|discriminate]|discriminate]].
  assert (length prots <> 0)%nat as Hlp by (destruct prots; [congruence|simpl; lia]).
  rewrite !app_length.
  assert (norm_bound (length pre + (length prots + length post))
            (Z.of_nat idx + (Z.of_nat (length pre + (length prots + length post)) - Z.of_nat ncol) + 1)
          = (length pre + length prots)%nat) as ->.
  { unfold norm_bound.
    destruct (Z.ltb_spec (Z.of_nat idx + (Z.of_nat (length pre + (length prots + length post)) - Z.of_nat ncol) + 1) 0); lia. }
  subst idx.
  rewrite pyslice_mid.
  rewrite firstn_app, firstn_all, Nat.sub_diag. simpl firstn. rewrite app_nil_r.
  replace (pre ++ prots ++ post) with ((pre ++ prots) ++ post) at 1 by (rewrite app_assoc; reflexivity).
  rewrite skipn_app, <- app_length, skipn_all, Nat.sub_diag. simpl. reflexivity.
Qed.

(* ---------- whole-file theorems ---------- *)
(* [wf sepc p]: the structured document p, written with column separator sepc, is a PIN:
   no field contains sepc or NL; every row has the header's columns and at least one protein;
   the first and last character of every line survive strip(); the header has no column
   "Proteins" before the protein column; the first PSM line (if there is one) does not start
   with "DefaultDirection"; the optional DefaultDirection line does.  The number of PSM rows is
   not restricted: [rows p = []] (a PIN that is only its header, or header + DefaultDirection
   line) is well-formed. *)
Definition wf_row (sepc : Z) (p : pin) (r : pinrow) : Prop :=
  Forall (field_ok sepc) (pre r ++ prots r ++ post r) /\
  length (pre r) = length (hdr_pre p) /\ prots r <> [] /\
  length (post r) = length (hdr_post p) /\
  first_ok (hd [] (pre r ++ prots r)) /\ last_ok (last (prots r ++ post r) []).

Definition wf (sepc : Z) (p : pin) : Prop :=
  Forall (field_ok sepc) (hdr p) /\ ~ In PROTEINS (hdr_pre p) /\
  first_ok (hd [] (hdr p)) /\ last_ok (last (hdr p) []) /\
  Forall (wf_row sepc p) (rows p) /\
  match rows p with
  | r :: _ => prefixb DEFAULTDIRECTION (row_line sepc r) = false
  | [] => True
  end /\
  match dd p with
  | Some d => prefixb DEFAULTDIRECTION d = true /\ ~ In NL d /\ last_ok d
  | None => True
  end.

(* [out_ok sepc sepp p]: what the protein separator must satisfy for the OUTPUT to be a PIN
   again: it contains neither the column separator nor NL, and joining the proteins of the
   first PSM with it does not create a line starting with "DefaultDirection". *)
Definition out_ok (sepc : Z) (sepp : str) (p : pin) : Prop :=
  ~ In sepc sepp /\ ~ In NL sepp /\
  match rows p with
  | r :: _ => prefixb DEFAULTDIRECTION (row_tsv sepc sepp r) = false
  | [] => True
  end.

Definition line_ok (l : str) : Prop := ~ In NL l /\ first_ok l /\ last_ok l.

Lemma first_ok_nonempty l : first_ok l -> l <> [].
Proof. intros (c & r & -> & _). discriminate. Qed.

Lemma last_app_ne {A} (a b : list A) d : b <> [] -> last (a ++ b) d = last b d.
Proof.
  intros Hb. induction a as [|x a IH]; [reflexivity|].
  simpl. destruct (a ++ b) eqn:E; [|exact IH].
  apply app_eq_nil in E. destruct E; congruence.
Qed.

Lemma fields_line_ok sepc (fs : list str) : sepc <> NL ->
  Forall (field_ok sepc) fs -> first_ok (hd [] fs) -> last_ok (last fs []) -> line_ok (join sepc fs).
Proof.
  intros Hs HF Hf Hl.
  assert (fs <> []) as Hne.
  { destruct fs; [|discriminate]. simpl in Hf. destruct Hf as (c & r & E & _). discriminate. }
  split; [|split].
  - apply join_notin; [congruence|]. eapply Forall_impl; [|exact HF]. intros f [_ H]; exact H.
  - destruct fs as [|f fs]; [congruence|]. apply first_ok_join. exact Hf.
  - apply last_ok_join; assumption.
Qed.

Lemma row_fields_ok sepc p r : wf_row sepc p r ->
  first_ok (hd [] (pre r ++ prots r ++ post r)) /\ last_ok (last (pre r ++ prots r ++ post r) []).
Proof.
  intros (HF & Hpre & Hne & Hpost & Hf & Hl). split.
  - destruct (pre r) as [|a pr]; [|exact Hf]. simpl in *.
    destruct (prots r) as [|b ps]; [congruence|exact Hf].
  - rewrite last_app_ne; [exact Hl|]. destruct (prots r); [congruence|discriminate].
Qed.

Lemma row_line_ok sepc p r : sepc <> NL -> wf_row sepc p r -> line_ok (row_line sepc r).
Proof.
  intros Hs H. destruct (row_fields_ok sepc p r H) as [Hf Hl].
  destruct H as (HF & _). apply fields_line_ok; assumption.
Qed.

Lemma tsv_fields_ok sepc sepp p r : ~ In sepc sepp -> ~ In NL sepp -> wf_row sepc p r ->
  Forall (field_ok sepc) (pre r ++ [joins sepp (prots r)] ++ post r) /\
  first_ok (hd [] (pre r ++ [joins sepp (prots r)])) /\
  last_ok (last ([joins sepp (prots r)] ++ post r) []).
Proof.
  intros Hsc Hsn (HF & Hpre & Hne & Hpost & Hf & Hl).
  apply Forall_app in HF. destruct HF as [HF1 HF23]. apply Forall_app in HF23. destruct HF23 as [HF2 HF3].
  split; [|split].
  - apply Forall_app; split; [exact HF1|]. apply Forall_app; split; [|exact HF3].
    constructor; [|constructor]. split.
    + apply joins_notin; [exact Hsc|]. eapply Forall_impl; [|exact HF2]. intros f [H _]; exact H.
    + apply joins_notin; [exact Hsn|]. eapply Forall_impl; [|exact HF2]. intros f [_ H]; exact H.
  - destruct (pre r) as [|a pr]; [|exact Hf]. simpl in *.
    destruct (prots r) as [|b ps]; [congruence|]. apply first_ok_joins. exact Hf.
  - destruct (post r) as [|a po] eqn:Epo.
    + simpl. rewrite app_nil_r in Hl. apply last_ok_joins; assumption.
    + rewrite last_app_ne by discriminate. rewrite last_app_ne in Hl by discriminate. exact Hl.
Qed.

Lemma wf_tsv_row sepc sepp p r : ~ In sepc sepp -> ~ In NL sepp ->
  wf_row sepc p r -> wf_row sepc (tsv_pin sepp p) (tsv_row sepp r).
Proof.
  intros Hsc Hsn H. destruct (tsv_fields_ok sepc sepp p r Hsc Hsn H) as (HF & Hf & Hl).
  destruct H as (_ & Hpre & Hne & Hpost & _ & _).
  unfold wf_row, tsv_row; simpl. repeat split; try assumption; discriminate.
Qed.

Lemma strip_with_nl final_nl ls :
  Forall line_ok ls -> map strip (with_nl final_nl ls) = ls.
Proof.
  induction ls as [|l ls IH]; intros HF; [reflexivity|].
  inversion HF as [|? ? (Hn & Hf & Hl) HF']; subst.
  destruct ls as [|m ls].
  - simpl. destruct final_nl; simpl; [rewrite strip_nl|rewrite strip_id]; auto.
  - change (with_nl final_nl (l :: m :: ls)) with ((l ++ [NL]) :: with_nl final_nl (m :: ls)).
    simpl map. rewrite strip_nl by assumption. f_equal. apply IH. exact HF'.
Qed.

Lemma flat_map_map {A B C} (f : A -> B) (g : B -> list C) l :
  flat_map g (map f l) = flat_map (fun x => g (f x)) l.
Proof. induction l as [|x l IH]; simpl; [reflexivity|]. rewrite IH. reflexivity. Qed.

Lemma render_lines_true ls : render_lines true ls = flat_map (fun l => l ++ [NL]) ls.
Proof.
  induction ls as [|l ls IH]; [reflexivity|]. destruct ls as [|m ls].
  - simpl. rewrite app_nil_r. reflexivity.
  - change (render_lines true (l :: m :: ls)) with (l ++ NL :: render_lines true (m :: ls)).
    rewrite IH. cbn [flat_map]. rewrite <- !app_assoc. reflexivity.
Qed.

Lemma with_nl_cons final_nl l ls : ls <> [] ->
  with_nl final_nl (l :: ls) = (l ++ [NL]) :: with_nl final_nl ls.
Proof. destruct ls; [congruence|reflexivity]. Qed.

Lemma header_ok sepc p : sepc <> NL -> wf sepc p -> line_ok (join sepc (hdr p)).
Proof. intros Hs (HF & _ & Hf & Hl & _). apply fields_line_ok; assumption. Qed.

Lemma parse_header_ok sepc p : sepc <> NL -> wf sepc p ->
  parse_header_sep sepc (join sepc (hdr p)) = Ok (length (hdr p), length (hdr_pre p)).
Proof.
  intros Hs Hwf. pose proof (header_ok sepc p Hs Hwf) as (_ & Hf & Hl).
  destruct Hwf as (HF & Hnp & _).
  unfold parse_header_sep. rewrite strip_id by assumption.
  rewrite split_join.
  - unfold hdr at 1. simpl. rewrite index_str_app by exact Hnp. reflexivity.
  - eapply Forall_impl; [|exact HF]. intros f [H _]; exact H.
  - unfold hdr. destruct (hdr_pre p); discriminate.
Qed.

Lemma convert_rows sepc sepp p : wf sepc p ->
  flat_map (fun l => convert_line_sep sepc sepp l (length (hdr_pre p)) (length (hdr p)) ++ [NL])
           (map (row_line sepc) (rows p))
  = flat_map (fun l => l ++ [NL]) (map (row_tsv sepc sepp) (rows p)).
Proof.
  intros (_ & _ & _ & _ & HR & _). rewrite !flat_map_map.
  induction HR as [|r rs Hr HR IH]; [reflexivity|]. simpl. rewrite IH. f_equal. f_equal.
  destruct Hr as (HF & Hpre & Hne & Hpost & _).
  unfold row_line, row_tsv. apply convert_line_ok.
  - eapply Forall_impl; [|exact HF]. intros f [H _]; exact H.
  - exact Hpre.
  - exact Hne.
  - unfold hdr. rewrite app_length. simpl. rewrite Hpost. lia.
Qed.

Lemma flat_map_strip (F : str -> str) final_nl ls :
  Forall line_ok ls ->
  flat_map (fun l => F (strip l)) (with_nl final_nl ls) = flat_map F ls.
Proof.
  intros H. rewrite <- (flat_map_map strip F). rewrite strip_with_nl by exact H. reflexivity.
Qed.

Lemma rows_lines_ok sepc p : sepc <> NL -> wf sepc p -> Forall line_ok (map (row_line sepc) (rows p)).
Proof.
  intros Hs (_ & _ & _ & _ & HR & _). apply Forall_map.
  eapply Forall_impl; [|exact HR]. intros r Hr. eapply row_line_ok; [exact Hs|exact Hr].
Qed.

Lemma line_ok_render l : line_ok l -> ~ In NL l /\ l <> [].
Proof. intros (H & Hf & _). split; [exact H|apply first_ok_nonempty; exact Hf]. Qed.

Lemma dd_line_ok d : prefixb DEFAULTDIRECTION d = true -> ~ In NL d -> last_ok d -> line_ok d.
Proof.
  intros Hp Hn Hl. split; [exact Hn|split; [|exact Hl]].
  destruct d as [|c r]; [discriminate|]. unfold DEFAULTDIRECTION in Hp. cbn [prefixb] in Hp. apply andb_true_iff in Hp. destruct Hp as [Hc _].
  apply Z.eqb_eq in Hc. subst c. exists 68, r. split; reflexivity.
Qed.

Local Arguments prefixb : simpl never.
Local Arguments convert_line_sep : simpl never.
Local Arguments strip : simpl never.

Theorem convert_file_ok sepc sepp final_nl p : sepc <> NL -> wf sepc p ->
  convert_file_sep sepc sepp (render_pin sepc final_nl p) = Ok (render_tsv sepc sepp p).
Proof.
  intros Hs Hwf.
  pose proof (header_ok sepc p Hs Hwf) as Hh.
  pose proof (rows_lines_ok sepc p Hs Hwf) as HRL.
  pose proof (parse_header_ok sepc p Hs Hwf) as HPH.
  pose proof (convert_rows sepc sepp p Hwf) as HCR.
  destruct Hwf as (HF & Hnp & Hf & Hl & HR & Hfirst & Hdd).
  unfold convert_file_sep, render_pin, render_tsv, tsv_lines. cbv zeta.
  assert (Forall line_ok (pin_lines sepc p)) as HL.
  { unfold pin_lines. constructor; [exact Hh|]. apply Forall_app. split; [|exact HRL].
    destruct (dd p) as [d|]; [|constructor]. destruct Hdd as (Hp & Hn & Hld).
    constructor; [|constructor]. apply dd_line_ok; assumption. }
  rewrite lines_render by (eapply Forall_impl; [|exact HL]; intros l; apply line_ok_render).
  (* whatever the final newline: the stripped lines are the lines of the document *)
  pose proof (strip_with_nl final_nl _ HL) as HS.
  unfold pin_lines in HS |- *.
  destruct (with_nl final_nl
              (join sepc (hdr p) :: (match dd p with Some d => [d] | None => [] end) ++ map (row_line sepc) (rows p)))
    as [|h' rest'] eqn:EW; [discriminate HS|].
  cbn [map] in HS. injection HS as HSh HSr.
  rewrite HSh, HPH. rewrite render_lines_true. cbn [flat_map].
  set (F := fun l : str => convert_line_sep sepc sepp l (length (hdr_pre p)) (length (hdr p)) ++ [NL]) in *.
  destruct rest' as [|l2 more].
  - (* only the header: no DefaultDirection line, no PSM *)
    cbn [map] in HSr. symmetry in HSr. apply app_eq_nil in HSr. destruct HSr as [_ HSr].
    apply map_eq_nil in HSr. rewrite HSr. cbn [map flat_map]. rewrite app_nil_r. reflexivity.
  - cbn [map] in HSr.
    change (flat_map (fun l : str => convert_line_sep sepc sepp (strip l) (length (hdr_pre p)) (length (hdr p)) ++ [NL]) more)
      with (flat_map (fun l : str => F (strip l)) more).
    rewrite <- (flat_map_map strip F).
    destruct (dd p) as [d|].
    + (* the second line is the DefaultDirection line *)
      destruct Hdd as (Hp & _). cbn [app] in HSr. injection HSr as HS2 HSm.
      rewrite HS2, Hp, HSm, HCR. cbn [app]. rewrite <- app_assoc. reflexivity.
    + (* the second line is the first PSM *)
      cbn [app] in HSr. destruct (rows p) as [|r rs]; [discriminate HSr|].
      cbn [map] in HSr. injection HSr as HS2 HSm.
      rewrite HS2, Hfirst, HSm. rewrite <- HCR. cbn [map flat_map]. unfold F.
      rewrite <- !app_assoc. reflexivity.
Qed.

Lemma wf_tsv_pin sepc sepp p : wf sepc p -> out_ok sepc sepp p -> wf sepc (tsv_pin sepp p).
Proof.
  intros (HF & Hnp & Hf & Hl & HR & Hfirst & Hdd) (Hsc & Hsn & Hout).
  unfold wf. simpl. repeat split; try assumption.
  - apply Forall_map. eapply Forall_impl; [|exact HR]. intros r Hr. apply wf_tsv_row; assumption.
  - destruct (rows p) as [|r rs]; [exact I|]. exact Hout.
Qed.

Lemma render_tsv_as_pin sepc sepp p : render_tsv sepc sepp p = render_pin sepc true (tsv_pin sepp p).
Proof.
  unfold render_tsv, render_pin, tsv_lines, pin_lines. simpl. rewrite map_map. reflexivity.
Qed.

(* converting the converted document again joins one protein: nothing to join *)
Lemma render_tsv_tsv sepc sepp sepp' p : render_tsv sepc sepp' (tsv_pin sepp p) = render_tsv sepc sepp p.
Proof.
  unfold render_tsv, tsv_lines. simpl. rewrite map_map. reflexivity.
Qed.

Theorem convert_idempotent sepc sepp p : sepc <> NL -> wf sepc p -> out_ok sepc sepp p ->
  convert_file_sep sepc sepp (render_tsv sepc sepp p) = Ok (render_tsv sepc sepp p).
Proof.
  intros Hs Hwf Hout. rewrite render_tsv_as_pin at 1.
  rewrite convert_file_ok by (try exact Hs; apply wf_tsv_pin; assumption).
  rewrite render_tsv_tsv. reflexivity.
Qed.

(* ---------- is_valid ---------- *)
Lemma nfields_count sepc l : nfields_sep sepc l = S (zcount sepc l).
Proof. apply split_length. Qed.

(* a text is reported valid exactly when it has a first line (the header), its second line -- if
   there is one -- does not start with "DefaultDirection", and every line after the header has the
   header's number of separators.  A text that is only its header is valid. *)
Theorem is_valid_iff sepc txt :
  is_valid_sep sepc txt = Ok true <->
  exists h rest, lines_of txt = h :: rest /\
    match rest with l2 :: _ => prefixb DEFAULTDIRECTION l2 = false | [] => True end /\
    Forall (fun l => zcount sepc l = zcount sepc h) rest.
Proof.
  unfold is_valid_sep. destruct (lines_of txt) as [|h [|l2 more]].
  - split; [discriminate|intros (? & ? & ? & _); discriminate].
  - split; [|reflexivity]. intros _. exists h, []. split; [reflexivity|]. split; [exact I|constructor].
  - destruct (prefixb DEFAULTDIRECTION l2) eqn:Ep.
    { split; [discriminate|]. intros (h' & rest' & E & Hp & _). injection E as <- <-. congruence. }
    rewrite !nfields_count.
    destruct (Nat.eqb_spec (S (zcount sepc l2)) (S (zcount sepc h))) as [E2|E2]; simpl.
    + split.
      * intros H. injection H as H. exists h, (l2 :: more). split; [reflexivity|]. split; [exact Ep|].
        constructor; [lia|]. apply Forall_forall. intros l Hl.
        rewrite forallb_forall in H. specialize (H l Hl). rewrite !nfields_count in H.
        apply Nat.eqb_eq in H. lia.
      * intros (h' & rest' & E & _ & HF). injection E as <- <-. f_equal.
        apply forallb_forall. intros l Hl. inversion HF as [|? ? _ HF']; subst.
        rewrite Forall_forall in HF'. rewrite !nfields_count. apply Nat.eqb_eq. rewrite (HF' l Hl). reflexivity.
    + split; [discriminate|]. intros (h' & rest' & E & _ & HF). injection E as <- <-.
      inversion HF; subst. lia.
Qed.

(* is_valid_tsv answers (does not raise) on every text but the empty one *)
Lemma lines_aux_nil cur s : lines_aux cur s = [] -> cur = [] /\ s = [].
Proof.
  revert cur; induction s as [|c s IH]; simpl; intros cur H.
  - destruct cur; [split; reflexivity|discriminate].
  - destruct (c =? NL); [discriminate|]. apply IH in H. destruct H as [H _]. discriminate.
Qed.

Theorem is_valid_decided sepc txt :
  (txt <> [] -> exists b, is_valid_sep sepc txt = Ok b) /\
  (txt = [] -> is_valid_sep sepc txt = Err EStopIteration).
Proof.
  split.
  - intros Hne. unfold is_valid_sep. destruct (lines_of txt) as [|h [|l2 more]] eqn:EL.
    + apply lines_aux_nil in EL. destruct EL as [_ EL]. congruence.
    + eexists; reflexivity.
    + destruct (prefixb DEFAULTDIRECTION l2); [eexists; reflexivity|].
      destruct (negb _); eexists; reflexivity.
  - intros ->. reflexivity.
Qed.

Lemma with_nl_true ls : with_nl true ls = map (fun l => l ++ [NL]) ls.
Proof.
  induction ls as [|l ls IH]; [reflexivity|]. destruct ls as [|m ls]; [reflexivity|].
  change (with_nl true (l :: m :: ls)) with ((l ++ [NL]) :: with_nl true (m :: ls)). rewrite IH. reflexivity.
Qed.

Lemma nl_not_in_dd : ~ In NL DEFAULTDIRECTION.
Proof.
  intros Hin. simpl in Hin. repeat (destruct Hin as [Hin|Hin]; [discriminate|]). exact Hin.
Qed.

Theorem valid_output sepc sepp p : sepc <> NL -> wf sepc p -> out_ok sepc sepp p ->
  is_valid_sep sepc (render_tsv sepc sepp p) = Ok true.
Proof.
  intros Hs Hwf Hout. pose proof (wf_tsv_pin sepc sepp p Hwf Hout) as Hwt.
  destruct Hout as (Hsc & Hsn & _).
  apply is_valid_iff.
  rewrite render_tsv_as_pin. unfold render_pin.
  pose proof (header_ok _ _ Hs Hwt) as Hh. pose proof (rows_lines_ok _ _ Hs Hwt) as HRL.
  assert (Forall line_ok (pin_lines sepc (tsv_pin sepp p))) as HL.
  { unfold pin_lines. simpl. constructor; assumption. }
  rewrite lines_render by (eapply Forall_impl; [|exact HL]; intros l; apply line_ok_render).
  rewrite with_nl_true. unfold pin_lines. simpl dd. cbn [app map].
  destruct Hwt as (HF & Hnp & Hf & Hl & HR & Hfirst & _).
  destruct (rows (tsv_pin sepp p)) as [|r rs] eqn:ER.
  { (* no PSM: the table is its header line *)
    cbn [map]. eexists _, []. split; [reflexivity|]. split; [exact I|constructor]. }
  cbn [map]. eexists _, (_ :: _). split; [reflexivity|]. split.
  - change (prefixb DEFAULTDIRECTION (row_line sepc r ++ [NL]) = false).
    replace (row_line sepc r ++ [NL]) with (row_line sepc r ++ NL :: []) by reflexivity.
    rewrite prefixb_field by exact nl_not_in_dd. exact Hfirst.
  - assert (Forall (fun r' => wf_row sepc (tsv_pin sepp p) r' /\ length (prots r') = 1%nat) (r :: rs)) as HR1.
    { rewrite <- ER. simpl. apply Forall_map. destruct Hwf as (_ & _ & _ & _ & HR0 & _).
      eapply Forall_impl; [|exact HR0]. intros r0 Hr0. split; [apply wf_tsv_row; assumption|reflexivity]. }
    assert (forall r', wf_row sepc (tsv_pin sepp p) r' /\ length (prots r') = 1%nat ->
              zcount sepc (row_line sepc r' ++ [NL]) = zcount sepc (join sepc (hdr (tsv_pin sepp p)) ++ [NL])) as Hcnt.
    { intros r' [(HFr & Hpre & Hpn & Hpost & _) Hone].
      rewrite !zcount_app. f_equal.
      apply Nat.succ_inj. unfold row_line. rewrite !zcount_join.
      - unfold hdr. rewrite !app_length. simpl in *. lia.
      - eapply Forall_impl; [|exact HF]. intros f [H _]; exact H.
      - unfold hdr. destruct (hdr_pre (tsv_pin sepp p)); discriminate.
      - eapply Forall_impl; [|exact HFr]. intros f [H _]; exact H.
      - destruct (pre r'); [destruct (prots r'); [congruence|discriminate]|discriminate]. }
    change ((row_line sepc r ++ [NL]) :: map (fun l => l ++ [NL]) (map (row_line sepc) rs))
      with (map (fun l => l ++ [NL]) (map (row_line sepc) (r :: rs))).
    rewrite map_map. apply Forall_map.
    eapply Forall_impl; [|exact HR1]. intros r' Hr'. apply Hcnt. exact Hr'.
Qed.

(* ---------- a sufficient, field-level condition for the two "DefaultDirection" clauses ---------- *)
(* If the column separator is not a letter of "DefaultDirection" and the first field of the first
   PSM does not start with "DefaultDirection", then the PSM line does not either (clause of [wf]);
   the converted line does not either (clause of [out_ok]) provided the first field is not the
   protein field, or there is one protein, or the protein separator starts with a character that
   is not a letter of "DefaultDirection". *)
Lemma dd_clause_line sepc r :
  ~ In sepc DEFAULTDIRECTION -> prots r <> [] ->
  prefixb DEFAULTDIRECTION (hd [] (pre r ++ prots r)) = false ->
  prefixb DEFAULTDIRECTION (row_line sepc r) = false.
Proof.
  intros Hs Hne Hf. unfold row_line.
  destruct (pre r) as [|a pr].
  - destruct (prots r) as [|b ps]; [congruence|]. simpl app. simpl hd in Hf.
    rewrite prefixb_join by exact Hs. exact Hf.
  - simpl app. simpl hd in Hf. rewrite prefixb_join by exact Hs. exact Hf.
Qed.

Lemma dd_clause_tsv sepc sepp r :
  ~ In sepc DEFAULTDIRECTION -> prots r <> [] ->
  prefixb DEFAULTDIRECTION (hd [] (pre r ++ prots r)) = false ->
  (pre r <> [] \/ length (prots r) = 1%nat \/ exists c s, sepp = c :: s /\ ~ In c DEFAULTDIRECTION) ->
  prefixb DEFAULTDIRECTION (row_tsv sepc sepp r) = false.
Proof.
  intros Hs Hne Hf Hcase. unfold row_tsv.
  destruct (pre r) as [|a pr].
  - destruct (prots r) as [|b ps]; [congruence|]. simpl app. simpl hd in Hf.
    rewrite prefixb_join by exact Hs.
    destruct ps as [|b2 ps]; [exact Hf|].
    destruct Hcase as [Hc|[Hc|(c & s & -> & Hc)]]; [congruence|simpl in Hc; lia|].
    simpl app. rewrite prefixb_field by exact Hc. exact Hf.
  - simpl app. simpl hd in Hf. rewrite prefixb_join by exact Hs. exact Hf.
Qed.

(* ---------- the default separators (sep_column="\t", sep_protein=":"), as used by Model/Fs.v ---------- *)
Lemma convert_file_default_ok final_nl p : wf TAB p ->
  convert_file (render_pin TAB final_nl p) = Ok (render_tsv TAB [COLON] p).
Proof. intros Hwf. unfold convert_file. apply convert_file_ok; [discriminate|exact Hwf]. Qed.

Lemma is_valid_default_iff txt :
  is_valid txt = Ok true <->
  exists h rest, lines_of txt = h :: rest /\
    match rest with l2 :: _ => prefixb DEFAULTDIRECTION l2 = false | [] => True end /\
    Forall (fun l => zcount TAB l = zcount TAB h) rest.
Proof. unfold is_valid. apply is_valid_iff. Qed.

Lemma default_out_ok p : wf TAB p ->
  match rows p with
  | r :: _ => prefixb DEFAULTDIRECTION (hd [] (pre r ++ prots r)) = false
  | [] => True
  end -> out_ok TAB [COLON] p.
Proof.
  intros (_ & _ & _ & _ & HR & _) Hf.
  split; [intros [H|[]]; discriminate|]. split; [intros [H|[]]; discriminate|].
  destruct (rows p) as [|r rs]; [exact I|].
  inversion HR as [|? ? (_ & _ & Hne & _) _]; subst.
  apply dd_clause_tsv; [|exact Hne|exact Hf|].
  - intros Hin. simpl in Hin. repeat (destruct Hin as [Hin|Hin]; [discriminate|]). exact Hin.
  - right. right. exists COLON, []. split; [reflexivity|].
    intros Hin. simpl in Hin. repeat (destruct Hin as [Hin|Hin]; [discriminate|]). exact Hin.
Qed.
