(* MergeP.v — specification and proofs for Model/Merge.v (C14; reused by C03).

   Declarative vocabulary (independent of the algorithm):
     Permutation out (concat inputs)            every input row exactly once, unmodified
     mg_sorted score desc l                     StronglySorted by score in the declared direction
     filter (score = s) out = filter (score = s) (concat inputs)
                                                among rows of equal score: input number, then position
   Structure: Section MergeDesc proves everything for the descending direction (first maximum);
   Section MergeDir transfers it to the ascending direction, which is the descending merge for
   the negated score (mg_chk_loop_asc). *)
From Mokaverif Require Import Model.Base Model.Merge.
From Coq Require Import Lia Permutation Sorted.
Open Scope Z_scope.

(* ---------- list surgery ---------- *)
Lemma mg_remove_nth_app {A} (pre : list A) x post :
  mg_remove_nth (length pre) (pre ++ x :: post) = pre ++ post.
Proof. induction pre as [|a pre IH]; simpl; [reflexivity | now rewrite IH]. Qed.

Lemma mg_replace_nth_app {A} (pre : list A) x v post :
  mg_replace_nth (length pre) v (pre ++ x :: post) = pre ++ v :: post.
Proof. induction pre as [|a pre IH]; simpl; [reflexivity | now rewrite IH]. Qed.

(* ---------- first maximum / first minimum ---------- *)
Lemma mg_argmax_aux_spec : forall l best bi i,
  (mg_argmax_first_aux best bi i l = bi /\ Forall (fun y => y <= best) l) \/
  (exists pre x post, l = pre ++ x :: post /\
     mg_argmax_first_aux best bi i l = (i + length pre)%nat /\
     best < x /\ Forall (fun y => y < x) pre /\ Forall (fun y => y <= x) post).
Proof.
  induction l as [|x r IH]; intros best bi i; cbn [mg_argmax_first_aux].
  - left. split; [reflexivity | constructor].
  - destruct (best <? x) eqn:E.
    + apply Z.ltb_lt in E.
      destruct (IH x i (S i)) as [[H1 H2] | (pre & x' & post & Hl & Hj & Hb & Hpre & Hpost)].
      * right. exists [], x, r. cbn [app length]. rewrite H1.
        repeat split; auto; lia.
      * right. exists (x :: pre), x', post. subst r. cbn [app length]. rewrite Hj.
        repeat split; auto; try lia; constructor; auto.
    + apply Z.ltb_ge in E.
      destruct (IH best bi (S i)) as [[H1 H2] | (pre & x' & post & Hl & Hj & Hb & Hpre & Hpost)].
      * left. split; auto.
      * right. exists (x :: pre), x', post. subst r. cbn [app length]. rewrite Hj.
        repeat split; auto; try lia; constructor; auto; lia.
Qed.

(* the chosen index splits the list: strictly smaller before, not larger after *)
Lemma mg_argmax_first_split : forall l, l <> [] ->
  exists pre x post, l = pre ++ x :: post /\ mg_argmax_first l = length pre /\
    Forall (fun y => y < x) pre /\ Forall (fun y => y <= x) post.
Proof.
  intros [|x0 r] Hne; [congruence|]. unfold mg_argmax_first.
  destruct (mg_argmax_aux_spec r x0 0%nat 1%nat)
    as [[H1 H2] | (pre & x & post & Hl & Hj & Hb & Hpre & Hpost)].
  - exists [], x0, r. cbn [app length]. repeat split; auto.
  - exists (x0 :: pre), x, post. subst r. cbn [app length]. repeat split; auto.
Qed.

(* bounds lemma for the `nth i st d` of the model *)
Lemma mg_argmax_first_lt : forall l, l <> [] -> (mg_argmax_first l < length l)%nat.
Proof.
  intros l Hne. destruct (mg_argmax_first_split l Hne) as (pre & x & post & Hl & Hi & _).
  rewrite Hi, Hl, app_length. cbn [length]. lia.
Qed.

Lemma mg_argmin_aux_opp : forall l best bi i,
  mg_argmin_first_aux best bi i l = mg_argmax_first_aux (- best) bi i (map Z.opp l).
Proof.
  induction l as [|x r IH]; intros best bi i; cbn [mg_argmin_first_aux mg_argmax_first_aux map].
  - reflexivity.
  - destruct (Z.ltb_spec x best) as [H|H]; destruct (Z.ltb_spec (- best) (- x)) as [H'|H']; try lia.
    + apply IH.
    + apply IH.
Qed.

Lemma mg_argmin_opp : forall l, mg_argmin_first l = mg_argmax_first (map Z.opp l).
Proof. intros [|x r]; [reflexivity|]. cbn [mg_argmin_first mg_argmax_first map]. apply mg_argmin_aux_opp. Qed.

Lemma mg_argmin_first_lt : forall l, l <> [] -> (mg_argmin_first l < length l)%nat.
Proof.
  intros l Hne. rewrite mg_argmin_opp. rewrite <- (map_length Z.opp l).
  apply mg_argmax_first_lt. destruct l; [congruence | discriminate].
Qed.

(* a sorted list of integers is determined by its multiset *)
Lemma mg_sorted_perm_eq : forall l1 l2 : list Z,
  StronglySorted Z.ge l1 -> StronglySorted Z.ge l2 -> Permutation l1 l2 -> l1 = l2.
Proof.
  induction l1 as [|a l1 IH]; intros l2 S1 S2 P.
  - apply Permutation_nil in P. now subst.
  - destruct l2 as [|b l2]; [apply Permutation_sym, Permutation_nil in P; discriminate|].
    apply StronglySorted_inv in S1. destruct S1 as [S1 F1].
    apply StronglySorted_inv in S2. destruct S2 as [S2 F2].
    assert (Hab : a = b).
    { assert (Ia : In a (b :: l2)) by (eapply Permutation_in; [exact P | now left]).
      assert (Ib : In b (a :: l1)) by (eapply Permutation_in; [apply Permutation_sym; exact P | now left]).
      rewrite Forall_forall in F1, F2.
      destruct Ia as [Ia|Ia]; [now subst|]. destruct Ib as [Ib|Ib]; [now subst|].
      specialize (F1 _ Ib). specialize (F2 _ Ia). lia. }
    subst b. f_equal. apply IH; auto. eapply Permutation_cons_inv; exact P.
Qed.

Lemma mg_StronglySorted_impl {A} (R R' : A -> A -> Prop) :
  (forall a b, R a b -> R' a b) -> forall l, StronglySorted R l -> StronglySorted R' l.
Proof.
  intros HR l S. induction S as [|a l S IH F]; constructor; auto.
  eapply Forall_impl; [|exact F]. intros b; apply HR.
Qed.

(* ======================================================================================== *)
Section MergeDesc.
Variable row : Type.
Variable score : row -> Z.

Notation live := (mg_live row).
Notation sc := (fun p : live => score (fst p)).

(* all rows an input state still holds, in input order *)
Definition mg_rows (st : list live) : list row := flat_map (fun p => fst p :: snd p) st.
(* the slot content after its current row was taken *)
Definition mg_next (rest : list row) : list live :=
  match rest with [] => [] | r' :: rest' => [(r', rest')] end.

Definition mg_ge (a b : row) : Prop := score a >= score b.
Definition mg_live_sorted (p : live) : Prop := StronglySorted mg_ge (fst p :: snd p).

Lemma mg_rows_app : forall a b, mg_rows (a ++ b) = mg_rows a ++ mg_rows b.
Proof. intros. apply flat_map_app. Qed.

Lemma mg_rows_next : forall rest, mg_rows (mg_next rest) = rest.
Proof. intros [|r' rest']; cbn; [reflexivity | now rewrite app_nil_r]. Qed.

Lemma mg_rows_split : forall pre r rest post,
  mg_rows (pre ++ (r, rest) :: post) = mg_rows pre ++ r :: rest ++ mg_rows post.
Proof. intros. rewrite mg_rows_app. reflexivity. Qed.

Lemma mg_rows_stepped : forall pre rest post,
  mg_rows (pre ++ mg_next rest ++ post) = mg_rows pre ++ rest ++ mg_rows post.
Proof. intros. now rewrite !mg_rows_app, mg_rows_next. Qed.

Lemma mg_rows_init : forall inputs : list (list row), mg_rows (mg_init inputs) = concat inputs.
Proof.
  induction inputs as [|l ls IH]; [reflexivity|].
  unfold mg_init in *. cbn [flat_map concat]. rewrite mg_rows_app, IH.
  destruct l; [reflexivity|]. cbn. now rewrite app_nil_r.
Qed.

Lemma mg_rows_nil : forall st, mg_rows st = [] -> st = [].
Proof. intros [|[r rest] st] H; [reflexivity | discriminate]. Qed.

Lemma mg_advance_split : forall pre r rest post,
  mg_advance (length pre) rest (pre ++ (r, rest) :: post) = pre ++ mg_next rest ++ post.
Proof.
  intros. unfold mg_advance, mg_next. destruct rest as [|r' rest'].
  - apply mg_remove_nth_app.
  - apply mg_replace_nth_app.
Qed.

(* ---------- one step of either merge, on a split state ---------- *)
Lemma mg_pick_split : forall st : list live, st <> [] ->
  exists pre r rest post, st = pre ++ (r, rest) :: post /\
    mg_argmax_first (map sc st) = length pre /\
    Forall (fun p => score (fst p) < score r) pre /\
    Forall (fun p => score (fst p) <= score r) post.
Proof.
  intros st Hne.
  destruct (mg_argmax_first_split (map sc st)) as (pre & x & post & Hl & Hi & Hpre & Hpost).
  { destruct st; [congruence | discriminate]. }
  apply map_eq_app in Hl. destruct Hl as (pre' & tl & Hst & Hp & Htl).
  apply map_eq_cons in Htl. destruct Htl as ([r rest] & post' & Htl & Hx & Hpost').
  subst tl st. cbn [fst] in Hx. subst x pre post.
  exists pre', r, rest, post'. rewrite map_length in Hi.
  rewrite Forall_map in Hpre, Hpost. repeat split; auto.
Qed.

Lemma mg_merge_S : forall f (st : list live) d, hd_error st = Some d ->
  mg_merge score (S f) st =
  let i := mg_argmax_first (map sc st) in
  let '(r, rest) := nth i st d in r :: mg_merge score f (mg_advance i rest st).
Proof. intros f [|d0 st0] d H; inversion H; reflexivity. Qed.

Lemma mg_chk_S : forall desc f (st : list live) d, hd_error st = Some d ->
  mg_chk_loop score desc (S f) st =
  let i := mg_pick desc (map sc st) in
  let '(r, rest) := nth i st d in
  let inv := match rest with [] => false | r' :: _ => mg_inversion desc (score r') (score r) end in
  if inv then ([r], Some EValue)
  else let '(out, e) := mg_chk_loop score desc f (mg_advance i rest st) in (r :: out, e).
Proof. intros desc f [|d0 st0] d H; inversion H; reflexivity. Qed.

Definition mg_inv_desc (r : row) (rest : list row) : bool :=
  match rest with [] => false | r' :: _ => score r <? score r' end.

(* the same decomposition serves both loops (descending direction) *)
Lemma mg_step_split : forall st : list live, st <> [] ->
  exists pre r rest post, st = pre ++ (r, rest) :: post /\
    Forall (fun p => score (fst p) < score r) pre /\
    Forall (fun p => score (fst p) <= score r) post /\
    (forall f, mg_merge score (S f) st = r :: mg_merge score f (pre ++ mg_next rest ++ post)) /\
    (forall f, mg_chk_loop score true (S f) st =
               if mg_inv_desc r rest then ([r], Some EValue)
               else let '(out, e) := mg_chk_loop score true f (pre ++ mg_next rest ++ post) in
                    (r :: out, e)).
Proof.
  intros st Hne. destruct (mg_pick_split st Hne) as (pre & r & rest & post & Hst & Hi & Hpre & Hpost).
  exists pre, r, rest, post.
  assert (Hd : exists d, hd_error st = Some d) by (destruct st as [|d st0]; [congruence | now exists d]).
  destruct Hd as [d Hd]. repeat split; auto.
  - intros f. rewrite (mg_merge_S f st d Hd). cbv zeta. rewrite Hi, Hst.
    rewrite nth_middle, mg_advance_split. reflexivity.
  - intros f. rewrite (mg_chk_S true f st d Hd). cbv zeta. unfold mg_pick. rewrite Hi, Hst.
    rewrite nth_middle, mg_advance_split. unfold mg_inv_desc, mg_inversion. reflexivity.
Qed.

Lemma mg_merge_nil : forall fuel, mg_merge score fuel [] = [].
Proof. intros [|f]; reflexivity. Qed.

(* ---------- every row exactly once ---------- *)
Lemma mg_merge_perm : forall fuel (st : list live),
  (length (mg_rows st) <= fuel)%nat -> Permutation (mg_merge score fuel st) (mg_rows st).
Proof.
  induction fuel as [|f IH]; intros st Hlen.
  - destruct (mg_rows st) eqn:E; [|cbn in Hlen; lia]. cbn. constructor.
  - destruct st as [|d st0] eqn:Est; [cbn; constructor|]. rewrite <- Est in *.
    destruct (mg_step_split st) as (pre & r & rest & post & Hst & _ & _ & Hm & _); [subst; discriminate|].
    rewrite Hm. rewrite Hst, mg_rows_split. apply Permutation_cons_app.
    rewrite <- mg_rows_stepped. apply IH.
    rewrite Hst, mg_rows_split in Hlen. rewrite mg_rows_stepped.
    rewrite !app_length in *. cbn [length] in Hlen. rewrite app_length in Hlen. lia.
Qed.

(* more fuel than rows changes nothing: the out-of-fuel branch (truncation) is unreachable *)
Lemma mg_merge_fuel_irrel : forall fuel k (st : list live),
  (length (mg_rows st) <= fuel)%nat -> mg_merge score (fuel + k) st = mg_merge score fuel st.
Proof.
  induction fuel as [|f IH]; intros k st Hlen.
  - destruct (mg_rows st) eqn:E; [|cbn in Hlen; lia]. apply mg_rows_nil in E. subst st.
    now rewrite !mg_merge_nil.
  - destruct st as [|d st0] eqn:Est; [reflexivity|]. rewrite <- Est in *.
    destruct (mg_step_split st) as (pre & r & rest & post & Hst & _ & _ & Hm & _); [subst; discriminate|].
    cbn [Nat.add]. rewrite !Hm. f_equal. apply IH.
    rewrite Hst, mg_rows_split in Hlen. rewrite mg_rows_stepped.
    rewrite !app_length in *. cbn [length] in Hlen. rewrite app_length in Hlen. lia.
Qed.

(* ---------- sortedness ---------- *)
Lemma mg_rows_bound : forall (st : list live) z,
  Forall mg_live_sorted st -> Forall (fun p => score (fst p) <= z) st ->
  Forall (fun x => score x <= z) (mg_rows st).
Proof.
  induction st as [|[r rest] st IH]; intros z Hs Hb; [constructor|].
  inversion Hs as [|? ? Hs1 Hs2]; subst. inversion Hb as [|? ? Hb1 Hb2]; subst.
  cbn [mg_rows flat_map fst snd]. cbn [fst] in Hb1.
  change (Forall (fun x => score x <= z) ((r :: rest) ++ mg_rows st)).
  apply Forall_app. split; [|apply IH; auto].
  constructor; [exact Hb1|].
  unfold mg_live_sorted in Hs1. cbn [fst snd] in Hs1. apply StronglySorted_inv in Hs1.
  destruct Hs1 as [_ F]. eapply Forall_impl; [|exact F]. intros a Ha. unfold mg_ge in Ha. lia.
Qed.

Lemma mg_next_sorted : forall r rest, mg_live_sorted (r, rest) -> Forall mg_live_sorted (mg_next rest).
Proof.
  intros r [|r' rest'] H; cbn; constructor; [|constructor].
  unfold mg_live_sorted in *. cbn [fst snd] in *. now apply StronglySorted_inv in H.
Qed.

Lemma mg_stepped_sorted : forall pre r rest post,
  Forall mg_live_sorted (pre ++ (r, rest) :: post) -> Forall mg_live_sorted (pre ++ mg_next rest ++ post).
Proof.
  intros pre r rest post H. apply Forall_app in H. destruct H as [H1 H2].
  inversion H2 as [|? ? H3 H4]; subst.
  apply Forall_app. split; [exact H1|]. apply Forall_app. split; [|exact H4].
  eapply mg_next_sorted; exact H3.
Qed.

(* after the step every remaining row scores at most the emitted one *)
Lemma mg_stepped_bound : forall pre r rest post,
  Forall mg_live_sorted (pre ++ (r, rest) :: post) ->
  Forall (fun p => score (fst p) < score r) pre -> Forall (fun p => score (fst p) <= score r) post ->
  Forall (fun x => score x <= score r) (mg_rows pre ++ rest ++ mg_rows post).
Proof.
  intros pre r rest post Hs Hpre Hpost. apply Forall_app in Hs. destruct Hs as [H1 H2].
  inversion H2 as [|? ? H3 H4]; subst.
  apply Forall_app. split; [|apply Forall_app; split].
  - apply mg_rows_bound; auto. eapply Forall_impl; [|exact Hpre]. cbn. intros; lia.
  - unfold mg_live_sorted in H3. cbn [fst snd] in H3. apply StronglySorted_inv in H3.
    destruct H3 as [_ F]. eapply Forall_impl; [|exact F]. intros a Ha. unfold mg_ge in Ha. lia.
  - apply mg_rows_bound; auto.
Qed.

Lemma mg_len_stepped : forall pre r rest post f,
  (length (mg_rows (pre ++ (r, rest) :: post)) <= S f)%nat ->
  (length (mg_rows (pre ++ mg_next rest ++ post)) <= f)%nat.
Proof.
  intros pre r rest post f H. rewrite mg_rows_split in H. rewrite mg_rows_stepped.
  rewrite !app_length in *. cbn [length] in H. rewrite app_length in H. lia.
Qed.

Lemma mg_merge_sorted : forall fuel (st : list live),
  (length (mg_rows st) <= fuel)%nat -> Forall mg_live_sorted st ->
  StronglySorted mg_ge (mg_merge score fuel st).
Proof.
  induction fuel as [|f IH]; intros st Hlen Hs; [constructor|].
  destruct st as [|d st0] eqn:Est; [constructor|]. rewrite <- Est in *.
  destruct (mg_step_split st) as (pre & r & rest & post & Hst & Hpre & Hpost & Hm & _); [subst; discriminate|].
  rewrite Hm. rewrite Hst in Hlen, Hs.
  assert (Hlen' := mg_len_stepped _ _ _ _ _ Hlen).
  constructor.
  - apply IH; auto. now apply mg_stepped_sorted in Hs.
  - eapply Permutation_Forall; [apply Permutation_sym, mg_merge_perm; exact Hlen'|].
    rewrite mg_rows_stepped. eapply Forall_impl; [|apply mg_stepped_bound; eauto].
    intros a Ha. unfold mg_ge. cbn in Ha. lia.
Qed.

(* ---------- ties: rows of equal score come out in input order, then position ---------- *)
Definition mg_at (s : Z) (l : list row) : list row := filter (fun x => score x =? s) l.

Lemma mg_at_none : forall s l, Forall (fun x => score x < s) l -> mg_at s l = [].
Proof.
  intros s l F. induction F as [|x l Hx F IH]; [reflexivity|].
  cbn. destruct (Z.eqb_spec (score x) s); [lia | exact IH].
Qed.

Lemma mg_merge_ties : forall s fuel (st : list live),
  (length (mg_rows st) <= fuel)%nat -> Forall mg_live_sorted st ->
  mg_at s (mg_merge score fuel st) = mg_at s (mg_rows st).
Proof.
  intros s. induction fuel as [|f IH]; intros st Hlen Hs.
  - destruct (mg_rows st) eqn:E; [reflexivity | cbn in Hlen; lia].
  - destruct st as [|d st0] eqn:Est; [reflexivity|]. rewrite <- Est in *.
    destruct (mg_step_split st) as (pre & r & rest & post & Hst & Hpre & Hpost & Hm & _); [subst; discriminate|].
    rewrite Hm. rewrite Hst in Hlen, Hs. rewrite Hst.
    assert (Hlen' := mg_len_stepped _ _ _ _ _ Hlen).
    assert (Hs' := mg_stepped_sorted _ _ _ _ Hs).
    rewrite mg_rows_split. unfold mg_at in *. rewrite filter_app. cbn [filter].
    rewrite (IH _ Hlen' Hs'), mg_rows_stepped, filter_app.
    destruct (Z.eqb_spec (score r) s) as [E|E]; [|reflexivity].
    assert (Hn : filter (fun x => score x =? s) (mg_rows pre) = []).
    { apply mg_at_none. apply Forall_app in Hs. destruct Hs as [Hs1 _].
      assert (B : Forall (fun x => score x <= s - 1) (mg_rows pre)).
      { apply mg_rows_bound; auto. eapply Forall_impl; [|exact Hpre]. cbn. intros; lia. }
      eapply Forall_impl; [|exact B]. cbn. intros; lia. }
    rewrite Hn. reflexivity.
Qed.

(* ---------- the table merger (descending): sorted inputs, unsorted inputs, prefix ---------- *)
Lemma mg_chk_nil : forall desc fuel, mg_chk_loop score desc fuel [] = ([], None).
Proof. intros desc [|f]; reflexivity. Qed.

Lemma mg_inv_desc_sorted : forall r rest, mg_live_sorted (r, rest) -> mg_inv_desc r rest = false.
Proof.
  intros r [|r' rest'] H; [reflexivity|]. unfold mg_live_sorted in H. cbn [fst snd] in H.
  apply StronglySorted_inv in H. destruct H as [_ F]. inversion F as [|? ? Hge _]; subst.
  unfold mg_ge in Hge. cbn. apply Z.ltb_ge. lia.
Qed.

(* sorted inputs: the check never fires and the output is that of the unchecked merge *)
Lemma mg_chk_sorted : forall fuel (st : list live),
  (length (mg_rows st) <= fuel)%nat -> Forall mg_live_sorted st ->
  mg_chk_loop score true fuel st = (mg_merge score fuel st, None).
Proof.
  induction fuel as [|f IH]; intros st Hlen Hs.
  - destruct (mg_rows st) eqn:E; [|cbn in Hlen; lia]. apply mg_rows_nil in E. subst st. reflexivity.
  - destruct st as [|d st0] eqn:Est; [reflexivity|]. rewrite <- Est in *.
    destruct (mg_step_split st) as (pre & r & rest & post & Hst & Hpre & Hpost & Hm & Hc); [subst; discriminate|].
    rewrite Hm, Hc. rewrite Hst in Hlen, Hs.
    assert (Hi : mg_inv_desc r rest = false).
    { apply mg_inv_desc_sorted. apply Forall_app in Hs. destruct Hs as [_ Hs]. now inversion Hs. }
    rewrite Hi. rewrite IH; [reflexivity | eapply mg_len_stepped; eauto | now apply mg_stepped_sorted in Hs].
Qed.

Lemma mg_next_unsorted : forall r rest,
  ~ mg_live_sorted (r, rest) -> mg_inv_desc r rest = false ->
  Exists (fun p => ~ mg_live_sorted p) (mg_next rest).
Proof.
  intros r [|r' rest'] Hn Hi.
  - exfalso. apply Hn. unfold mg_live_sorted. cbn. constructor; constructor.
  - cbn [mg_next]. apply Exists_cons_hd. intros Hs'. apply Hn.
    unfold mg_live_sorted in *. cbn [fst snd] in *. cbn in Hi. apply Z.ltb_ge in Hi.
    constructor; [exact Hs'|]. constructor; [unfold mg_ge; lia|].
    apply StronglySorted_inv in Hs'. destruct Hs' as [_ F].
    eapply Forall_impl; [|exact F]. intros a Ha. unfold mg_ge in *. lia.
Qed.

(* an input with an inversion anywhere: the merge ends with ValueError *)
Lemma mg_chk_unsorted : forall fuel (st : list live),
  (length (mg_rows st) <= fuel)%nat -> Exists (fun p => ~ mg_live_sorted p) st ->
  snd (mg_chk_loop score true fuel st) = Some EValue.
Proof.
  induction fuel as [|f IH]; intros st Hlen Hex.
  - destruct (mg_rows st) eqn:E; [|cbn in Hlen; lia]. apply mg_rows_nil in E. subst st. inversion Hex.
  - destruct st as [|d st0] eqn:Est; [inversion Hex|]. rewrite <- Est in *.
    destruct (mg_step_split st) as (pre & r & rest & post & Hst & Hpre & Hpost & _ & Hc); [subst; discriminate|].
    rewrite Hc. destruct (mg_inv_desc r rest) eqn:Ei; [reflexivity|].
    rewrite Hst in Hlen, Hex.
    assert (Hex' : Exists (fun p => ~ mg_live_sorted p) (pre ++ mg_next rest ++ post)).
    { apply Exists_app in Hex. destruct Hex as [H|H]; [apply Exists_app; now left|].
      apply Exists_cons in H. destruct H as [H|H].
      - apply Exists_app; right. apply Exists_app; left. eapply mg_next_unsorted; eauto.
      - apply Exists_app; right. apply Exists_app; now right. }
    specialize (IH _ (mg_len_stepped _ _ _ _ _ Hlen) Hex').
    destruct (mg_chk_loop score true f (pre ++ mg_next rest ++ post)) as [out e]. exact IH.
Qed.

(* whatever the inputs: the rows yielded (also those before a ValueError) are in order *)
Lemma mg_chk_prefix_bounded : forall fuel (st : list live) z,
  Forall (fun p => score (fst p) <= z) st ->
  StronglySorted mg_ge (fst (mg_chk_loop score true fuel st)) /\
  Forall (fun x => score x <= z) (fst (mg_chk_loop score true fuel st)).
Proof.
  induction fuel as [|f IH]; intros st z Hb.
  - destruct st; cbn; split; constructor.
  - destruct st as [|d st0] eqn:Est; [cbn; split; constructor|]. rewrite <- Est in *.
    destruct (mg_step_split st) as (pre & r & rest & post & Hst & Hpre & Hpost & _ & Hc); [subst; discriminate|].
    rewrite Hc.
    assert (Hr : score r <= z).
    { rewrite Hst in Hb. apply Forall_app in Hb. destruct Hb as [_ Hb]. now inversion Hb. }
    destruct (mg_inv_desc r rest) eqn:Ei.
    + cbn. split; repeat constructor; auto.
    + assert (Hb' : Forall (fun p => score (fst p) <= score r) (pre ++ mg_next rest ++ post)).
      { apply Forall_app. split; [eapply Forall_impl; [|exact Hpre]; cbn; intros; lia|].
        apply Forall_app. split; [|exact Hpost].
        destruct rest as [|r' rest']; cbn; constructor; [|constructor].
        cbn in Ei. apply Z.ltb_ge in Ei. cbn. lia. }
      destruct (IH _ _ Hb') as [S1 F1].
      destruct (mg_chk_loop score true f (pre ++ mg_next rest ++ post)) as [out e]. cbn [fst] in *.
      split.
      * constructor; [exact S1|]. eapply Forall_impl; [|exact F1]. intros a Ha. unfold mg_ge. cbn in Ha. lia.
      * constructor; [exact Hr|]. eapply Forall_impl; [|exact F1]. cbn. intros; lia.
Qed.

Lemma mg_heads_bounded : forall st : list live, exists z, Forall (fun p => score (fst p) <= z) st.
Proof.
  induction st as [|p st [z IH]]; [exists 0; constructor|].
  exists (Z.max z (score (fst p))). constructor; [lia|].
  eapply Forall_impl; [|exact IH]. cbn. intros; lia.
Qed.

Lemma mg_chk_prefix_sorted : forall fuel (st : list live),
  StronglySorted mg_ge (fst (mg_chk_loop score true fuel st)).
Proof. intros fuel st. destruct (mg_heads_bounded st) as [z Hz]. now apply (mg_chk_prefix_bounded fuel st z). Qed.

(* a run that ends normally has delivered every row exactly once (no fuel assumption) *)
Lemma mg_chk_ok_perm : forall fuel (st : list live) out,
  mg_chk_loop score true fuel st = (out, None) -> Permutation out (mg_rows st).
Proof.
  induction fuel as [|f IH]; intros st out H.
  - destruct st; cbn in H; inversion H; subst. constructor.
  - destruct st as [|d st0] eqn:Est; [cbn in H; inversion H; constructor|]. rewrite <- Est in *.
    destruct (mg_step_split st) as (pre & r & rest & post & Hst & _ & _ & _ & Hc); [subst; discriminate|].
    rewrite Hc in H. destruct (mg_inv_desc r rest); [discriminate|].
    destruct (mg_chk_loop score true f (pre ++ mg_next rest ++ post)) as [out' e] eqn:E.
    inversion H; subst out e. rewrite Hst, mg_rows_split. apply Permutation_cons_app.
    rewrite <- mg_rows_stepped. apply IH. exact E.
Qed.

(* the model's own failure mode is unreachable from enough fuel *)
Lemma mg_chk_fuel : forall fuel (st : list live),
  (length (mg_rows st) <= fuel)%nat -> snd (mg_chk_loop score true fuel st) <> Some EFuel.
Proof.
  induction fuel as [|f IH]; intros st Hlen.
  - destruct (mg_rows st) eqn:E; [|cbn in Hlen; lia]. apply mg_rows_nil in E. subst st. discriminate.
  - destruct st as [|d st0] eqn:Est; [discriminate|]. rewrite <- Est in *.
    destruct (mg_step_split st) as (pre & r & rest & post & Hst & _ & _ & _ & Hc); [subst; discriminate|].
    rewrite Hc. destruct (mg_inv_desc r rest); [discriminate|]. rewrite Hst in Hlen.
    specialize (IH _ (mg_len_stepped _ _ _ _ _ Hlen)).
    destruct (mg_chk_loop score true f (pre ++ mg_next rest ++ post)) as [out e]. exact IH.
Qed.

(* ---------- inputs <-> initial state ---------- *)
Lemma mg_sorted_ge_dec : forall l : list row, {StronglySorted mg_ge l} + {~ StronglySorted mg_ge l}.
Proof.
  induction l as [|a l [IH|IH]].
  - left. constructor.
  - destruct (Forall_dec (mg_ge a) (fun b => Z_ge_dec (score a) (score b)) l) as [F|F].
    + left. now constructor.
    + right. intros H. apply StronglySorted_inv in H. tauto.
  - right. intros H. apply StronglySorted_inv in H. tauto.
Qed.

Lemma mg_init_sorted : forall inputs : list (list row),
  Forall (StronglySorted mg_ge) inputs <-> Forall mg_live_sorted (mg_init inputs).
Proof.
  induction inputs as [|l ls IH]; [split; constructor|].
  unfold mg_init in *. cbn [flat_map]. rewrite Forall_app, Forall_cons_iff, <- IH.
  destruct l as [|r t]; [|unfold mg_live_sorted; cbn [fst snd]; rewrite Forall_cons_iff].
  - split; [intros [_ H]; split; [constructor | exact H] | intros [_ H]; split; [constructor | exact H]].
  - split; [intros [H1 H2]; repeat split; auto | intros [[H1 _] H2]; split; auto].
Qed.

Lemma mg_init_unsorted : forall inputs : list (list row),
  Exists (fun l => ~ StronglySorted mg_ge l) inputs <-> Exists (fun p => ~ mg_live_sorted p) (mg_init inputs).
Proof.
  induction inputs as [|l ls IH]; [split; intros H; inversion H|].
  unfold mg_init in *. cbn [flat_map]. rewrite Exists_app, Exists_cons, <- IH.
  destruct l as [|r t].
  - split; [intros [H|H]; [exfalso; apply H; constructor | now right] | intros [H|H]; [inversion H | now right]].
  - unfold mg_live_sorted. rewrite Exists_cons. cbn [fst snd].
    split; [intros [H|H]; [left; now left | now right] | intros [[H|H]|H]; [now left | inversion H | now right]].
Qed.

Lemma mg_no_empty : forall inputs : list (list row),
  existsb mg_is_nil inputs = false <-> Forall (fun l => l <> []) inputs.
Proof.
  induction inputs as [|l ls IH]; [split; [constructor | reflexivity]|].
  cbn [existsb]. rewrite Forall_cons_iff, <- IH, orb_false_iff.
  destruct l; cbn; split; intros [H1 H2]; split; auto; congruence.
Qed.

End MergeDesc.

Arguments mg_rows {row} st.
Arguments mg_next {row} rest.
Arguments mg_ge {row} score a b.
Arguments mg_live_sorted {row} score p.
Arguments mg_at {row} score s l.

(* ======================================================================================== *)
Section MergeDir.
Variable row : Type.
Variable score : row -> Z.

(* ---------- specification vocabulary ---------- *)
(* "l is sorted as declared": non-increasing (desc) / non-decreasing (asc) score, all pairs *)
Definition mg_dir (desc : bool) (a b : row) : Prop :=
  if desc then score a >= score b else score a <= score b.
Definition mg_sorted (desc : bool) (l : list row) : Prop := StronglySorted (mg_dir desc) l.
(* the declared shape of a merge call: at least one input, every input has a row *)
Definition mg_wf (inputs : list (list row)) : Prop := inputs <> [] /\ Forall (fun l => l <> []) inputs.

(* ascending = descending for the negated score *)
Definition mg_neg (r : row) : Z := - score r.
Definition mg_key (desc : bool) : row -> Z := if desc then score else mg_neg.

Lemma mg_sorted_key : forall desc l, mg_sorted desc l <-> StronglySorted (mg_ge (mg_key desc)) l.
Proof.
  intros [|] l; unfold mg_sorted; split; apply mg_StronglySorted_impl; intros a b;
    unfold mg_dir, mg_ge, mg_key, mg_neg; lia.
Qed.

Lemma mg_sorted_dec : forall desc l, {mg_sorted desc l} + {~ mg_sorted desc l}.
Proof.
  intros desc l. destruct (mg_sorted_ge_dec row (mg_key desc) l) as [H|H].
  - left. now apply mg_sorted_key.
  - right. intros H'. apply H. now apply mg_sorted_key.
Qed.

(* equivalently: no adjacent inversion (what a streaming check can see) *)
Lemma mg_sorted_adjacent : forall desc l, mg_sorted desc l <-> Sorted (mg_dir desc) l.
Proof.
  intros desc l. split; [apply StronglySorted_Sorted|]. apply Sorted_StronglySorted.
  intros a b c. destruct desc; unfold mg_dir; lia.
Qed.

Lemma mg_chk_loop_asc : forall fuel (st : list (mg_live row)),
  mg_chk_loop score false fuel st = mg_chk_loop mg_neg true fuel st.
Proof.
  induction fuel as [|f IH]; intros [|d st0]; try reflexivity.
  rewrite (mg_chk_S row score false f (d :: st0) d eq_refl).
  rewrite (mg_chk_S row mg_neg true f (d :: st0) d eq_refl). cbv zeta.
  unfold mg_pick. rewrite mg_argmin_opp, map_map.
  change (map (fun x : mg_live row => - score (fst x)) (d :: st0))
    with (map (fun p : mg_live row => mg_neg (fst p)) (d :: st0)).
  destruct (nth (mg_argmax_first (map (fun p : mg_live row => mg_neg (fst p)) (d :: st0))) (d :: st0) d)
    as [r rest].
  assert (E : match rest with [] => false | r' :: _ => mg_inversion false (score r') (score r) end =
              match rest with [] => false | r' :: _ => mg_inversion true (mg_neg r') (mg_neg r) end).
  { destruct rest as [|r' rest']; [reflexivity|]. unfold mg_inversion, mg_neg.
    destruct (Z.ltb_spec (score r') (score r)); destruct (Z.ltb_spec (- score r) (- score r')); try lia;
      reflexivity. }
  rewrite E. rewrite IH. reflexivity.
Qed.

Lemma mg_chk_loop_key : forall desc fuel (st : list (mg_live row)),
  mg_chk_loop score desc fuel st = mg_chk_loop (mg_key desc) true fuel st.
Proof. intros [|] fuel st; [reflexivity | apply mg_chk_loop_asc]. Qed.

Lemma mg_stream_key : forall desc inputs,
  mg_merge_stream score desc inputs = mg_merge_stream (mg_key desc) true inputs.
Proof.
  intros desc inputs. unfold mg_merge_stream. destruct inputs as [|l ls]; [reflexivity|].
  destruct (existsb mg_is_nil (l :: ls)); [reflexivity | apply mg_chk_loop_key].
Qed.

Lemma mg_stream_wf : forall desc inputs, mg_wf inputs ->
  mg_merge_stream score desc inputs = mg_chk_loop score desc (length (concat inputs)) (mg_init inputs).
Proof.
  intros desc inputs [H1 H2]. unfold mg_merge_stream. destruct inputs as [|l ls]; [congruence|].
  apply mg_no_empty in H2. rewrite H2. reflexivity.
Qed.

Lemma mg_at_key : forall desc s l, mg_at (mg_key desc) (if desc then s else - s) l = mg_at score s l.
Proof.
  intros [|] s l; [reflexivity|]. unfold mg_at. apply filter_ext. intros a. unfold mg_key, mg_neg.
  destruct (Z.eqb_spec (- score a) (- s)); destruct (Z.eqb_spec (score a) s); try lia; reflexivity.
Qed.

(* ---------- (1) the row-dict merge: utils.merge_sort ---------- *)
Lemma mg_merge_all_perm : forall inputs, Permutation (mg_merge_all score inputs) (concat inputs).
Proof.
  intros inputs. unfold mg_merge_all. rewrite <- (mg_rows_init row inputs) at 2.
  apply mg_merge_perm. rewrite mg_rows_init. lia.
Qed.

Lemma mg_merge_all_sorted : forall inputs,
  Forall (mg_sorted true) inputs -> mg_sorted true (mg_merge_all score inputs).
Proof.
  intros inputs H. unfold mg_merge_all. apply (mg_merge_sorted row score).
  - rewrite mg_rows_init. lia.
  - apply mg_init_sorted. exact H.
Qed.

Lemma mg_merge_all_ties : forall inputs, Forall (mg_sorted true) inputs ->
  forall s, mg_at score s (mg_merge_all score inputs) = mg_at score s (concat inputs).
Proof.
  intros inputs H s. unfold mg_merge_all. rewrite <- (mg_rows_init row inputs) at 2.
  apply mg_merge_ties; [rewrite mg_rows_init; lia | apply mg_init_sorted; exact H].
Qed.

Lemma mg_merge_all_fuel : forall inputs k,
  mg_merge score (length (concat inputs) + k) (mg_init inputs) = mg_merge_all score inputs.
Proof. intros. unfold mg_merge_all. apply mg_merge_fuel_irrel. rewrite mg_rows_init. lia. Qed.

Lemma mg_merge_all_length : forall inputs, length (mg_merge_all score inputs) = length (concat inputs).
Proof. intros. apply Permutation_length, mg_merge_all_perm. Qed.

(* a sorted list is determined by its rows of each score, in order: with mg_merge_all_perm/_sorted/_ties
   this makes the specification complete (it has exactly one solution) *)
Lemma mg_sorted_ties_unique : forall l1 l2 : list row,
  mg_sorted true l1 -> mg_sorted true l2 ->
  (forall s, mg_at score s l1 = mg_at score s l2) -> l1 = l2.
Proof.
  assert (In_at : forall x l, In x l -> In x (mg_at score (score x) l)).
  { intros x l H. unfold mg_at. apply filter_In. split; [exact H | apply Z.eqb_refl]. }
  assert (At_in : forall x s l, In x (mg_at score s l) -> In x l).
  { intros x s l H. unfold mg_at in H. apply filter_In in H. tauto. }
  induction l1 as [|a l1 IH]; intros l2 S1 S2 H.
  - destruct l2 as [|b l2]; [reflexivity|]. exfalso.
    specialize (H (score b)). cbn in H. rewrite Z.eqb_refl in H. discriminate.
  - destruct l2 as [|b l2].
    { exfalso. specialize (H (score a)). cbn in H. rewrite Z.eqb_refl in H. discriminate. }
    apply StronglySorted_inv in S1. destruct S1 as [S1 F1].
    apply StronglySorted_inv in S2. destruct S2 as [S2 F2].
    rewrite Forall_forall in F1, F2. unfold mg_dir in F1, F2.
    assert (Hs : score a = score b).
    { assert (Ia : In a (b :: l2)).
      { apply (At_in a (score a)). rewrite <- H. apply In_at. now left. }
      assert (Ib : In b (a :: l1)).
      { apply (At_in b (score b)). rewrite H. apply In_at. now left. }
      destruct Ia as [Ia|Ia]; [now subst|]. destruct Ib as [Ib|Ib]; [now subst|].
      specialize (F1 _ Ib). specialize (F2 _ Ia). lia. }
    assert (Hab : a = b).
    { specialize (H (score a)). cbn in H. rewrite Z.eqb_refl in H.
      rewrite <- Hs, Z.eqb_refl in H. now inversion H. }
    subst b. f_equal. apply IH; auto.
    intros s. specialize (H s). cbn in H. destruct (score a =? s); [now inversion H | exact H].
Qed.

Lemma mg_merge_all_unique : forall inputs out,
  Forall (mg_sorted true) inputs -> mg_sorted true out ->
  (forall s, mg_at score s out = mg_at score s (concat inputs)) ->
  out = mg_merge_all score inputs.
Proof.
  intros inputs out Hin Hout Hties. apply mg_sorted_ties_unique; auto.
  - now apply mg_merge_all_sorted.
  - intros s. now rewrite Hties, mg_merge_all_ties.
Qed.

(* what does not depend on how the rows are spread over inputs: the multiset and the score sequence
   (the order among equal scores does: C14_ties_depend_on_split in Props/C14.v) *)
Lemma mg_sorted_map : forall l, mg_sorted true l -> StronglySorted Z.ge (map score l).
Proof.
  intros l S. induction S as [|a l S IH F]; cbn; constructor; auto.
  apply Forall_map. eapply Forall_impl; [|exact F]. intros b Hb. exact Hb.
Qed.

Lemma mg_inputs_split : forall A B,
  Forall (mg_sorted true) A -> Forall (mg_sorted true) B -> Permutation (concat A) (concat B) ->
  Permutation (mg_merge_all score A) (mg_merge_all score B) /\
  map score (mg_merge_all score A) = map score (mg_merge_all score B).
Proof.
  intros A B HA HB P.
  assert (PP : Permutation (mg_merge_all score A) (mg_merge_all score B)).
  { eapply Permutation_trans; [apply mg_merge_all_perm|].
    eapply Permutation_trans; [exact P | apply Permutation_sym, mg_merge_all_perm]. }
  split; [exact PP|].
  apply mg_sorted_perm_eq; try (apply mg_sorted_map, mg_merge_all_sorted; assumption).
  now apply Permutation_map.
Qed.

Lemma mg_merge_sort_spec : forall inputs,
  (inputs = [] -> mg_merge_sort score inputs = Err EIndex) /\
  (inputs <> [] -> Exists (fun l => l = []) inputs -> mg_merge_sort score inputs = Err ERuntime) /\
  (mg_wf inputs -> mg_merge_sort score inputs = Ok (mg_merge_all score inputs)).
Proof.
  intros inputs. unfold mg_merge_sort. repeat split.
  - intros ->. reflexivity.
  - intros Hne Hex. destruct inputs as [|l ls]; [congruence|].
    destruct (existsb mg_is_nil (l :: ls)) eqn:E; [reflexivity|].
    apply mg_no_empty in E. rewrite Forall_forall in E. apply Exists_exists in Hex.
    destruct Hex as (x & Hx & ->). exfalso. now apply (E [] Hx).
  - intros [Hne Hall]. destruct inputs as [|l ls]; [congruence|].
    apply mg_no_empty in Hall. now rewrite Hall.
Qed.

(* ---------- (2) the table merger: streaming.MergedTabularDataReader ---------- *)
Lemma mg_stream_sorted_inputs : forall desc inputs,
  mg_wf inputs -> Forall (mg_sorted desc) inputs ->
  mg_merge_stream score desc inputs = (mg_merge_all (mg_key desc) inputs, None).
Proof.
  intros desc inputs Hwf Hs. rewrite mg_stream_wf by exact Hwf. rewrite mg_chk_loop_key.
  unfold mg_merge_all. apply mg_chk_sorted.
  - rewrite mg_rows_init. lia.
  - apply mg_init_sorted. eapply Forall_impl; [|exact Hs]. intros l. apply mg_sorted_key.
Qed.

Lemma mg_stream_unsorted : forall desc inputs,
  mg_wf inputs -> Exists (fun l => ~ mg_sorted desc l) inputs ->
  snd (mg_merge_stream score desc inputs) = Some EValue.
Proof.
  intros desc inputs Hwf Hex. rewrite mg_stream_wf by exact Hwf. rewrite mg_chk_loop_key.
  apply mg_chk_unsorted.
  - rewrite mg_rows_init. lia.
  - apply mg_init_unsorted. apply Exists_exists in Hex. destruct Hex as (l & Hl & Hn).
    apply Exists_exists. exists l. split; [exact Hl|]. intros H. apply Hn. now apply mg_sorted_key.
Qed.

Lemma mg_stream_prefix_sorted : forall desc inputs,
  mg_sorted desc (fst (mg_merge_stream score desc inputs)).
Proof.
  intros desc inputs. apply mg_sorted_key. rewrite mg_stream_key. unfold mg_merge_stream.
  destruct inputs as [|l ls]; [constructor|].
  destruct (existsb mg_is_nil (l :: ls)); [constructor | apply mg_chk_prefix_sorted].
Qed.

Lemma mg_stream_no_fuel_error : forall desc inputs,
  snd (mg_merge_stream score desc inputs) <> Some EFuel.
Proof.
  intros desc inputs. rewrite mg_stream_key. unfold mg_merge_stream.
  destruct inputs as [|l ls]; [discriminate|].
  destruct (existsb mg_is_nil (l :: ls)); [discriminate|].
  apply mg_chk_fuel. rewrite mg_rows_init. lia.
Qed.

Lemma mg_checked_sorted_inputs : forall desc inputs,
  mg_wf inputs -> Forall (mg_sorted desc) inputs ->
  mg_merge_checked score desc inputs = Ok (mg_merge_all (mg_key desc) inputs).
Proof. intros. unfold mg_merge_checked. now rewrite mg_stream_sorted_inputs. Qed.

Lemma mg_checked_rejects : forall desc inputs,
  mg_wf inputs -> Exists (fun l => ~ mg_sorted desc l) inputs ->
  mg_merge_checked score desc inputs = Err EValue.
Proof.
  intros desc inputs Hwf Hex. unfold mg_merge_checked.
  assert (H := mg_stream_unsorted desc inputs Hwf Hex).
  destruct (mg_merge_stream score desc inputs) as [out e]. cbn in H. now subst e.
Qed.

Lemma mg_checked_err_iff : forall desc inputs, mg_wf inputs ->
  (mg_merge_checked score desc inputs = Err EValue <-> Exists (fun l => ~ mg_sorted desc l) inputs).
Proof.
  intros desc inputs Hwf. split; [|now apply mg_checked_rejects].
  intros H. destruct (Forall_Exists_dec (mg_sorted desc) (mg_sorted_dec desc) inputs) as [F|E]; [|exact E].
  rewrite mg_checked_sorted_inputs in H by assumption. discriminate.
Qed.

Lemma mg_checked_no_inputs : forall desc, mg_merge_checked score desc [] = Err EAssertion.
Proof. reflexivity. Qed.

Lemma mg_checked_empty_input : forall desc inputs,
  inputs <> [] -> Exists (fun l => l = []) inputs -> mg_merge_checked score desc inputs = Err ERuntime.
Proof.
  intros desc inputs Hne Hex. unfold mg_merge_checked, mg_merge_stream.
  destruct inputs as [|l ls]; [congruence|].
  destruct (existsb mg_is_nil (l :: ls)) eqn:E; [reflexivity|].
  apply mg_no_empty in E. rewrite Forall_forall in E. apply Exists_exists in Hex.
  destruct Hex as (x & Hx & ->). exfalso. now apply (E [] Hx).
Qed.

Lemma mg_checked_wf_of_ok : forall desc inputs out,
  mg_merge_checked score desc inputs = Ok out -> mg_wf inputs.
Proof.
  intros desc inputs out H. unfold mg_merge_checked, mg_merge_stream in H.
  destruct inputs as [|l ls]; [discriminate|].
  destruct (existsb mg_is_nil (l :: ls)) eqn:E; [discriminate|].
  split; [discriminate | now apply mg_no_empty].
Qed.

(* a result is only ever returned for inputs sorted as declared, and then it is THE sorted merge *)
Lemma mg_checked_ok : forall desc inputs out,
  mg_merge_checked score desc inputs = Ok out ->
  mg_wf inputs /\ Forall (mg_sorted desc) inputs /\
  Permutation out (concat inputs) /\ mg_sorted desc out /\
  (forall s, mg_at score s out = mg_at score s (concat inputs)).
Proof.
  intros desc inputs out H. assert (Hwf := mg_checked_wf_of_ok _ _ _ H).
  destruct (Forall_Exists_dec (mg_sorted desc) (mg_sorted_dec desc) inputs) as [F|E].
  2:{ rewrite mg_checked_rejects in H by assumption. discriminate. }
  rewrite mg_checked_sorted_inputs in H by assumption. inversion H; subst out. clear H.
  assert (F' : Forall (StronglySorted (mg_ge (mg_key desc))) inputs).
  { eapply Forall_impl; [|exact F]. intros l. apply mg_sorted_key. }
  split; [exact Hwf|]. split; [exact F|]. split; [|split].
  - unfold mg_merge_all. rewrite <- (mg_rows_init row inputs) at 2.
    apply mg_merge_perm. rewrite mg_rows_init. lia.
  - apply mg_sorted_key. unfold mg_merge_all. apply mg_merge_sorted.
    + rewrite mg_rows_init. lia.
    + now apply mg_init_sorted.
  - intros s. rewrite <- !(mg_at_key desc). unfold mg_merge_all.
    rewrite <- (mg_rows_init row inputs) at 2.
    apply mg_merge_ties; [rewrite mg_rows_init; lia | now apply mg_init_sorted].
Qed.

Lemma mg_checked_no_fuel_error : forall desc inputs, mg_merge_checked score desc inputs <> Err EFuel.
Proof.
  intros desc inputs H. unfold mg_merge_checked in H.
  assert (N := mg_stream_no_fuel_error desc inputs).
  destruct (mg_merge_stream score desc inputs) as [out [e|]]; [|discriminate].
  inversion H; subst e. now apply N.
Qed.

Lemma mg_merge_all_fuel_spec : forall inputs k,
  mg_merge score (length (concat inputs) + k) (mg_init inputs) = mg_merge_all score inputs /\
  length (mg_merge_all score inputs) = length (concat inputs).
Proof. intros. split; [apply mg_merge_all_fuel | apply mg_merge_all_length]. Qed.

Lemma mg_checked_malformed : forall desc inputs,
  (inputs = [] -> mg_merge_checked score desc inputs = Err EAssertion) /\
  (inputs <> [] -> Exists (fun l => l = []) inputs -> mg_merge_checked score desc inputs = Err ERuntime).
Proof. intros. split; [intros ->; apply mg_checked_no_inputs | apply mg_checked_empty_input]. Qed.

Lemma mg_no_fuel_error : forall desc inputs,
  mg_merge_checked score desc inputs <> Err EFuel /\
  snd (mg_merge_stream score desc inputs) <> Some EFuel.
Proof. intros. split; [apply mg_checked_no_fuel_error | apply mg_stream_no_fuel_error]. Qed.

End MergeDir.

Arguments mg_dir {row} score desc a b.
Arguments mg_sorted {row} score desc l.
Arguments mg_wf {row} inputs.
Arguments mg_neg {row} score r.
Arguments mg_key {row} score desc.
