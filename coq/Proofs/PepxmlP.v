(* Proofs about Model/Pepxml.v (C20). *)
From Coq Require Import Lia Sorted.
From Mokaverif Require Import Model.Base Model.Pepxml.
Open Scope Z_scope.

(* ====================================================================== *)
(* Declarative notions used by the specifications                         *)
(* ====================================================================== *)
Definition px_has_prefix (p s : str) : Prop := exists t, s = p ++ t.
Definition px_ends_with (suf s : str) : Prop := exists t, s = t ++ suf.

(* t is the part of s before its first blank (all of s if there is none) *)
Definition px_is_first_token (t s : str) : Prop :=
  ~ In px_SP t /\ (s = t \/ exists rest, s = t ++ px_SP :: rest).

(* the search hits of a document with their enclosing run and spectrum, in document order *)
Definition px_ctx : Type := (px_run * px_spectrum * px_hit)%type.
Definition px_hits_of_spectrum (r : px_run) (s : px_spectrum) : list px_ctx :=
  flat_map (fun res => flat_map (fun h => [(r, s, h)]) res) (s_results s).
Definition px_hits_of_run (r : px_run) : list px_ctx :=
  flat_map (px_hits_of_spectrum r) (r_spectra r).
Definition px_hits_of_file (f : px_file) : list px_ctx := flat_map px_hits_of_run (f_runs f).
Definition px_hits_of (files : list px_file) : list px_ctx := flat_map px_hits_of_file files.

(* "[mass]" of every listed modification whose position is i, in list order *)
Definition px_tags_at (mods : list (Z * str)) (i : Z) : str :=
  flat_map (fun pm => if fst pm =? i then px_tag (snd pm) else []) mods.

(* residues numbered i, i+1, ...: each residue directly followed by the tags listed for its number *)
Fixpoint px_spec_from (i : Z) (pep : str) (mods : list (Z * str)) : str :=
  match pep with
  | [] => []
  | c :: r => c :: px_tags_at mods i ++ px_spec_from (i + 1) r mods
  end.

(* positions are 1-based residue numbers; position 0 (before the first residue) is allowed too *)
Definition px_mods_spec (pep : str) (mods : list (Z * str)) : str :=
  px_tags_at mods 0 ++ px_spec_from 1 pep mods.

(* positions ascending (not necessarily strictly), none below k *)
Fixpoint px_asc (k : Z) (mods : list (Z * str)) : Prop :=
  match mods with
  | [] => True
  | pm :: r => k <= fst pm /\ px_asc (fst pm) r
  end.

(* ====================================================================== *)
(* Strings                                                                *)
(* ====================================================================== *)
Lemma px_str_eqb_eq a b : str_eqb a b = true <-> a = b.
Proof.
  revert b; induction a as [|x a IH]; intros [|y b]; simpl; try (split; congruence).
  rewrite andb_true_iff, Z.eqb_eq, IH. split; [intros [-> ->]; reflexivity | intros H; inversion H; auto].
Qed.

Lemma px_str_eqb_refl a : str_eqb a a = true.
Proof. apply px_str_eqb_eq; reflexivity. Qed.

Lemma px_prefixb_spec p s : prefixb p s = true <-> px_has_prefix p s.
Proof.
  unfold px_has_prefix. revert s; induction p as [|x p IH]; intros s.
  - simpl. split; [intros _; exists s; reflexivity | reflexivity].
  - destruct s as [|y s]; simpl.
    + split; [discriminate | intros [t H]; discriminate].
    + rewrite andb_true_iff, Z.eqb_eq, IH. split.
      * intros [-> [t ->]]. exists t. reflexivity.
      * intros [t H]. inversion H; subst. split; [reflexivity | exists t; reflexivity].
Qed.

Lemma px_suffixb_spec suf s : px_suffixb suf s = true <-> px_ends_with suf s.
Proof.
  unfold px_suffixb, px_ends_with. rewrite px_prefixb_spec. unfold px_has_prefix. split.
  - intros [t H]. exists (rev t).
    rewrite <- (rev_involutive s), H, rev_app_distr, rev_involutive. reflexivity.
  - intros [t ->]. exists (rev t). apply rev_app_distr.
Qed.

Lemma px_file_name_spec base raw :
  (px_ends_with raw base /\ px_file_name base raw = base) \/
  (~ px_ends_with raw base /\ px_file_name base raw = base ++ raw).
Proof.
  unfold px_file_name. destruct (px_suffixb raw base) eqn:E.
  - left. split; [apply px_suffixb_spec; exact E | reflexivity].
  - right. split; [|reflexivity]. intros H. apply px_suffixb_spec in H. congruence.
Qed.

Lemma px_file_name_ends base raw : px_ends_with raw (px_file_name base raw).
Proof.
  destruct (px_file_name_spec base raw) as [[H ->]|[_ ->]]; [exact H | exists base; reflexivity].
Qed.

Lemma px_first_token_spec s : px_is_first_token (px_first_token s) s.
Proof.
  unfold px_is_first_token. induction s as [|c s [IHn IHs]]; simpl.
  - split; [intros [] | left; reflexivity].
  - destruct (c =? px_SP) eqn:E.
    + apply Z.eqb_eq in E. subst c. split; [intros [] | right; exists s; reflexivity].
    + apply Z.eqb_neq in E. split.
      * intros [H|H]; [congruence | exact (IHn H)].
      * destruct IHs as [H|[rest H]].
        -- left. f_equal. exact H.
        -- right. exists rest. simpl. f_equal. exact H.
Qed.

Lemma px_first_token_nosp t : ~ In px_SP t -> px_first_token t = t.
Proof.
  induction t as [|c t IH]; simpl; intros H; [reflexivity|].
  destruct (c =? px_SP) eqn:E.
  - apply Z.eqb_eq in E. exfalso; apply H; left; exact E.
  - f_equal. apply IH. intros Hin; apply H; right; exact Hin.
Qed.

Lemma px_first_token_app t rest : ~ In px_SP t -> px_first_token (t ++ px_SP :: rest) = t.
Proof.
  induction t as [|c t IH]; simpl; intros H.
  - reflexivity.
  - destruct (c =? px_SP) eqn:E.
    + apply Z.eqb_eq in E. exfalso; apply H; left; exact E.
    + f_equal. apply IH. intros Hin; apply H; right; exact Hin.
Qed.

Lemma px_first_token_unique t s : px_is_first_token t s -> t = px_first_token s.
Proof.
  intros [Hn [->|[rest ->]]].
  - symmetry. apply px_first_token_nosp. exact Hn.
  - symmetry. apply px_first_token_app. exact Hn.
Qed.

(* ====================================================================== *)
(* Label                                                                  *)
(* ====================================================================== *)
Lemma px_label_loop_eq prefix b alts :
  px_label_loop prefix b alts
  = b || existsb (fun a => negb (prefixb prefix (px_first_token a))) alts.
Proof.
  revert b; induction alts as [|a alts IH]; intros b; simpl.
  - rewrite orb_false_r. reflexivity.
  - rewrite IH. destruct b; simpl; reflexivity.
Qed.

Lemma px_label_false prefix primary alts :
  px_label prefix primary alts = false <->
  Forall (px_has_prefix prefix) (map px_first_token (primary :: alts)).
Proof.
  unfold px_label. rewrite px_label_loop_eq. simpl map.
  rewrite orb_false_iff, negb_false_iff. split.
  - intros [Hp Ha]. constructor; [apply px_prefixb_spec; exact Hp|].
    apply Forall_forall. intros t Ht. apply in_map_iff in Ht. destruct Ht as [a [<- Hin]].
    apply px_prefixb_spec.
    destruct (prefixb prefix (px_first_token a)) eqn:E; [reflexivity|].
    assert (existsb (fun a0 => negb (prefixb prefix (px_first_token a0))) alts = true) as Hc.
    { apply existsb_exists. exists a. split; [exact Hin | rewrite E; reflexivity]. }
    congruence.
  - intros HF. inversion HF as [|? ? Hp Ha]; subst. split; [apply px_prefixb_spec; exact Hp|].
    destruct (existsb (fun a => negb (prefixb prefix (px_first_token a))) alts) eqn:E; [|reflexivity].
    apply existsb_exists in E. destruct E as [a [Hin Hn]].
    rewrite Forall_forall in Ha. specialize (Ha (px_first_token a) (in_map _ _ _ Hin)).
    apply px_prefixb_spec in Ha. rewrite Ha in Hn. discriminate.
Qed.

(* ====================================================================== *)
(* Modifications                                                          *)
(* ====================================================================== *)
Lemma px_tags_at_cons pm mods i :
  px_tags_at (pm :: mods) i = (if fst pm =? i then px_tag (snd pm) else []) ++ px_tags_at mods i.
Proof. reflexivity. Qed.

Lemma px_tags_at_none mods i :
  Forall (fun pm => fst pm <> i) mods -> px_tags_at mods i = [].
Proof.
  induction 1 as [|pm mods Hp _ IH]; [reflexivity|].
  rewrite px_tags_at_cons, IH. apply Z.eqb_neq in Hp. rewrite Hp. reflexivity.
Qed.

Lemma px_spec_from_nil i pep : px_spec_from i pep [] = pep.
Proof. revert i; induction pep as [|c pep IH]; intros i; simpl; [reflexivity|]. rewrite IH. reflexivity. Qed.

Lemma px_spec_from_app i a b mods :
  px_spec_from i (a ++ b) mods
  = px_spec_from i a mods ++ px_spec_from (i + Z.of_nat (length a)) b mods.
Proof.
  revert i; induction a as [|c a IH]; intros i.
  - simpl. rewrite Z.add_0_r. reflexivity.
  - cbn [app px_spec_from length]. rewrite IH. rewrite <- app_assoc.
    replace (i + 1 + Z.of_nat (length a)) with (i + Z.of_nat (S (length a))) by lia. reflexivity.
Qed.

Lemma px_spec_from_drop_head i b pm mods :
  fst pm < i -> px_spec_from i b (pm :: mods) = px_spec_from i b mods.
Proof.
  revert i; induction b as [|c b IH]; intros i H; [reflexivity|].
  cbn [px_spec_from]. rewrite px_tags_at_cons.
  assert (fst pm =? i = false) as -> by (apply Z.eqb_neq; lia).
  rewrite IH by lia. reflexivity.
Qed.

(* residues k+1..p carry no tag except the last one when every listed position is >= p *)
Lemma px_spec_from_untagged a k p mods :
  Forall (fun pm => p <= fst pm) mods -> p = k + Z.of_nat (length a) ->
  px_tags_at mods k ++ px_spec_from (k + 1) a mods = a ++ px_tags_at mods p.
Proof.
  revert k; induction a as [|c a IH]; intros k HF Hp.
  - simpl in *. rewrite Z.add_0_r in Hp. subst p. rewrite app_nil_r. reflexivity.
  - cbn [length] in Hp. rewrite px_tags_at_none.
    + cbn [px_spec_from app]. f_equal. apply IH; [exact HF | lia].
    + eapply Forall_impl; [|exact HF]. intros pm H. cbn beta in H. lia.
Qed.

Lemma px_asc_lower k mods : px_asc k mods -> Forall (fun pm => k <= fst pm) mods.
Proof.
  revert k; induction mods as [|pm mods IH]; intros k H; [constructor|].
  destruct H as [H1 H2]. constructor; [exact H1|].
  eapply Forall_impl; [|apply IH; exact H2]. intros q Hq. cbn beta in Hq. lia.
Qed.

Lemma px_insert_at_mid done rest idx ins d :
  idx = Z.of_nat (length done) + Z.of_nat d -> (d <= length rest)%nat ->
  px_insert_at (done ++ rest) idx ins = done ++ firstn d rest ++ ins ++ skipn d rest.
Proof.
  intros Hidx Hd. unfold px_insert_at, norm_bound.
  destruct (Z.ltb_spec idx 0) as [Hneg|_]; [lia|].
  replace (Z.to_nat idx) with (length done + d)%nat by lia.
  rewrite firstn_app_2.
  rewrite skipn_app. rewrite skipn_all2 by lia.
  replace (length done + d - length done)%nat with d by lia.
  rewrite <- app_assoc. reflexivity.
Qed.

Lemma px_mods_loop_spec mods : forall done rest offset k,
  Z.of_nat (length done) = offset + k ->
  px_asc k mods ->
  Forall (fun pm => fst pm <= k + Z.of_nat (length rest)) mods ->
  px_mods_loop (done ++ rest) offset mods
  = done ++ px_tags_at mods k ++ px_spec_from (k + 1) rest mods.
Proof.
  induction mods as [|[p m] r IH]; intros done rest offset k Hlen Hasc Hrng.
  - simpl. rewrite px_spec_from_nil. reflexivity.
  - cbn [px_mods_loop]. destruct Hasc as [Hkp Hasc]. cbn [fst] in Hkp, Hasc.
    inversion Hrng as [|? ? Hp Hrng']; subst. cbn [fst] in Hp.
    set (d := Z.to_nat (p - k)).
    assert (d <= length rest)%nat as Hd by (unfold d; lia).
    rewrite (px_insert_at_mid done rest (offset + p) (px_tag m) d) by (unfold d; lia || exact Hd).
    replace (done ++ firstn d rest ++ px_tag m ++ skipn d rest)
      with ((done ++ firstn d rest ++ px_tag m) ++ skipn d rest)
      by (rewrite <- !app_assoc; reflexivity).
    assert (length (firstn d rest) = d) as Hfl by (apply firstn_length_le; exact Hd).
    rewrite (IH _ _ _ p).
    + (* the two descriptions of the result agree *)
      pose proof (px_asc_lower _ _ Hasc) as Hlow.
      replace (px_spec_from (k + 1) rest ((p, m) :: r))
        with (px_spec_from (k + 1) (firstn d rest ++ skipn d rest) ((p, m) :: r))
        by (rewrite firstn_skipn; reflexivity).
      rewrite px_spec_from_app. rewrite Hfl.
      replace (k + 1 + Z.of_nat d) with (p + 1) by (unfold d; lia).
      rewrite (px_spec_from_drop_head (p + 1) _ (p, m)) by (cbn [fst]; lia).
      rewrite (app_assoc (px_tags_at ((p, m) :: r) k)).
      rewrite (px_spec_from_untagged (firstn d rest) k p ((p, m) :: r)).
      * rewrite px_tags_at_cons. cbn [fst snd]. rewrite Z.eqb_refl.
        rewrite <- !app_assoc. reflexivity.
      * constructor; [cbn [fst]; lia | exact Hlow].
      * rewrite Hfl. unfold d. lia.
    + rewrite !app_length, Hfl. unfold px_tag. cbn [length]. rewrite app_length. cbn [length].
      unfold d. lia.
    + exact Hasc.
    + rewrite skipn_length. eapply Forall_impl; [|exact Hrng'].
      intros q Hq. cbn beta in Hq. unfold d. lia.
Qed.

Theorem px_insert_mods_spec pep mods :
  px_asc 0 mods -> Forall (fun pm => fst pm <= Z.of_nat (length pep)) mods ->
  px_insert_mods pep mods = px_mods_spec pep mods.
Proof.
  intros Hasc Hrng. unfold px_insert_mods, px_mods_spec.
  change pep with ([] ++ pep) at 1.
  rewrite (px_mods_loop_spec mods [] pep 0 0); [reflexivity | reflexivity | exact Hasc | exact Hrng].
Qed.

Lemma px_asc_of_sorted k mods :
  Sorted Z.le (map fst mods) -> Forall (fun pm => k <= fst pm) mods -> px_asc k mods.
Proof.
  revert k; induction mods as [|pm mods IH]; intros k HS HF; [exact I|].
  simpl in HS. inversion HS as [|? ? HS' Hhd]; subst. inversion HF as [|? ? Hk HF']; subst.
  split; [exact Hk|]. apply IH; [exact HS'|].
  destruct mods as [|qm mods]; [constructor|].
  simpl in Hhd. inversion Hhd as [|? ? Hle]; subst.
  assert (px_asc (fst qm) (qm :: mods)) as Hq.
  { apply IH; [exact HS'|]. clear - HS'. simpl in HS'.
    apply Sorted_StronglySorted in HS'; [|intros x y z; apply Z.le_trans].
    inversion HS' as [|? ? _ Hall]; subst. constructor; [lia|].
    rewrite Forall_map in Hall. exact Hall. }
  constructor; [exact Hle|].
  apply px_asc_lower in Hq. inversion Hq as [|? ? _ Hq']; subst.
  eapply Forall_impl; [|exact Hq']. intros x Hx. cbn beta in Hx. lia.
Qed.

(* the statement of DESIGN: strictly ascending positions inside 1..length *)
Theorem px_insert_mods_strict pep mods :
  StronglySorted Z.lt (map fst mods) ->
  Forall (fun p => 1 <= p <= Z.of_nat (length pep)) (map fst mods) ->
  px_insert_mods pep mods = px_mods_spec pep mods.
Proof.
  intros HS HF. rewrite Forall_map in HF. apply px_insert_mods_spec.
  - apply px_asc_of_sorted.
    + apply StronglySorted_Sorted.
      clear HF. induction HS as [|a l HS IH Hall]; constructor; [exact IH|].
      eapply Forall_impl; [|exact Hall]. intros x Hx. lia.
    + eapply Forall_impl; [|exact HF]. intros pm H. cbn beta in H. lia.
  - eapply Forall_impl; [|exact HF]. intros pm H. cbn beta in H. lia.
Qed.

(* removing the inserted tags gives the peptide back *)
Fixpoint px_strip_tags (inside : bool) (s : str) : str :=
  match s with
  | [] => []
  | c :: r => if inside then (if c =? px_RB then px_strip_tags false r else px_strip_tags true r)
              else (if c =? px_LB then px_strip_tags true r else c :: px_strip_tags false r)
  end.

Definition px_plain (s : str) : Prop := ~ In px_LB s /\ ~ In px_RB s.

Lemma px_strip_plain_app a b : ~ In px_LB a ->
  px_strip_tags false (a ++ b) = a ++ px_strip_tags false b.
Proof.
  induction a as [|c a IH]; intros H; [reflexivity|]. simpl.
  destruct (c =? px_LB) eqn:E.
  - apply Z.eqb_eq in E. exfalso; apply H; left; exact E.
  - rewrite IH; [reflexivity | intros Hin; apply H; right; exact Hin].
Qed.

Lemma px_strip_inside m b : ~ In px_RB m ->
  px_strip_tags true (m ++ px_RB :: b) = px_strip_tags false b.
Proof.
  induction m as [|c m IH]; intros H; simpl.
  - reflexivity.
  - destruct (c =? px_RB) eqn:E.
    + apply Z.eqb_eq in E. exfalso; apply H; left; exact E.
    + apply IH. intros Hin; apply H; right; exact Hin.
Qed.

Lemma px_strip_tags_at mods i b :
  Forall (fun pm => ~ In px_RB (snd pm)) mods ->
  px_strip_tags false (px_tags_at mods i ++ b) = px_strip_tags false b.
Proof.
  induction 1 as [|pm mods Hm _ IH]; [reflexivity|].
  rewrite px_tags_at_cons.
  match goal with |- context [if ?c then _ else _] => destruct c end; [|cbn [app]; exact IH].
  unfold px_tag. rewrite <- app_assoc. cbn [app px_strip_tags]. rewrite Z.eqb_refl.
  rewrite <- app_assoc. cbn [app]. rewrite px_strip_inside by exact Hm. exact IH.
Qed.

Theorem px_strip_spec pep mods :
  ~ In px_LB pep -> Forall (fun pm => ~ In px_RB (snd pm)) mods ->
  px_strip_tags false (px_mods_spec pep mods) = pep.
Proof.
  intros Hp Hm. unfold px_mods_spec. rewrite px_strip_tags_at by exact Hm.
  generalize 1 as i. induction pep as [|c pep IH]; intros i; [reflexivity|].
  cbn [px_spec_from px_strip_tags].
  destruct (c =? px_LB) eqn:E.
  - apply Z.eqb_eq in E. exfalso; apply Hp; left; exact E.
  - rewrite px_strip_tags_at by exact Hm. rewrite IH; [reflexivity|].
    intros Hin; apply Hp; right; exact Hin.
Qed.

(* ====================================================================== *)
(* Score dictionary                                                       *)
(* ====================================================================== *)
Lemma px_dict_set_in d k v k' :
  In k' (map fst (px_dict_set d k v)) <-> k' = k \/ In k' (map fst d).
Proof.
  induction d as [|[k0 v0] d IH]; simpl.
  - intuition.
  - destruct (str_eqb k k0) eqn:E; simpl.
    + apply px_str_eqb_eq in E. subst k0. intuition.
    + rewrite IH. intuition.
Qed.

Lemma px_dict_set_fresh d k v :
  ~ In k (map fst d) -> px_dict_set d k v = d ++ [(k, v)].
Proof.
  induction d as [|[k0 v0] d IH]; simpl; intros H; [reflexivity|].
  destruct (str_eqb k k0) eqn:E.
  - apply px_str_eqb_eq in E. subst k0. exfalso. apply H. left. reflexivity.
  - rewrite IH; [reflexivity | intros Hin; apply H; right; exact Hin].
Qed.

Lemma px_dict_set_nodup d k v :
  NoDup (map fst d) -> NoDup (map fst (px_dict_set d k v)).
Proof.
  induction d as [|[k0 v0] d IH]; simpl; intros H.
  - constructor; [intros [] | constructor].
  - inversion H as [|? ? Hn Hd]; subst.
    destruct (str_eqb k k0) eqn:E; simpl.
    + constructor; assumption.
    + constructor; [|apply IH; exact Hd].
      rewrite px_dict_set_in. intros [Hk|Hin]; [|exact (Hn Hin)].
      subst k0. rewrite px_str_eqb_refl in E. discriminate.
Qed.

Definition px_fold_scores (acc l : list (str * str)) : list (str * str) :=
  fold_left (fun d kv => px_dict_set d (fst kv) (snd kv)) l acc.

Lemma px_fold_scores_in acc l k :
  In k (map fst (px_fold_scores acc l)) <-> In k (map fst acc) \/ In k (map fst l).
Proof.
  unfold px_fold_scores. revert acc; induction l as [|[k0 v0] l IH]; intros acc; simpl.
  - intuition.
  - rewrite IH, px_dict_set_in. simpl. intuition.
Qed.

Lemma px_fold_scores_nodup acc l :
  NoDup (map fst acc) -> NoDup (map fst (px_fold_scores acc l)).
Proof.
  unfold px_fold_scores. revert acc; induction l as [|[k0 v0] l IH]; intros acc H; simpl; [exact H|].
  apply IH. apply px_dict_set_nodup. exact H.
Qed.

Lemma px_fold_scores_id acc l :
  NoDup (map fst (acc ++ l)) -> px_fold_scores acc l = acc ++ l.
Proof.
  unfold px_fold_scores. revert acc; induction l as [|[k0 v0] l IH]; intros acc H; simpl.
  - rewrite app_nil_r. reflexivity.
  - rewrite px_dict_set_fresh.
    + rewrite IH; rewrite <- app_assoc; [reflexivity | exact H].
    + rewrite map_app in H. simpl in H. apply NoDup_remove_2 in H.
      intros Hin. apply H. apply in_or_app. left. exact Hin.
Qed.

(* the value kept for a name is the one of its last occurrence *)
Fixpoint px_lookup (k : str) (d : list (str * str)) : option str :=
  match d with
  | [] => None
  | (k0, v0) :: r => if str_eqb k k0 then Some v0 else px_lookup k r
  end.

Fixpoint px_last_val (k : str) (l : list (str * str)) (cur : option str) : option str :=
  match l with
  | [] => cur
  | (k0, v0) :: r => px_last_val k r (if str_eqb k k0 then Some v0 else cur)
  end.

Lemma px_lookup_set d k v k' :
  px_lookup k' (px_dict_set d k v) = if str_eqb k' k then Some v else px_lookup k' d.
Proof.
  induction d as [|[k0 v0] d IH]; simpl.
  - destruct (str_eqb k' k); reflexivity.
  - destruct (str_eqb k k0) eqn:E; simpl.
    + apply px_str_eqb_eq in E. subst k0. destruct (str_eqb k' k); reflexivity.
    + rewrite IH. destruct (str_eqb k' k0) eqn:E0; [|reflexivity].
      apply px_str_eqb_eq in E0. subst k0.
      destruct (str_eqb k' k) eqn:E1; [|reflexivity].
      apply px_str_eqb_eq in E1. subst k'. rewrite px_str_eqb_refl in E. discriminate.
Qed.

Lemma px_lookup_fold acc l k :
  px_lookup k (px_fold_scores acc l) = px_last_val k l (px_lookup k acc).
Proof.
  unfold px_fold_scores. revert acc; induction l as [|[k0 v0] l IH]; intros acc; simpl; [reflexivity|].
  rewrite IH, px_lookup_set. reflexivity.
Qed.

Lemma px_scores_dict_fold l : px_scores_dict l = px_fold_scores [] l.
Proof. reflexivity. Qed.

(* ====================================================================== *)
(* The nested flattening                                                  *)
(* ====================================================================== *)
Lemma px_collect_Forall2 {A B C} (f : A -> result (list B)) (g : A -> list C) (R : C -> B -> Prop) :
  (forall x p, f x = Ok p -> Forall2 R (g x) p) ->
  forall l rows, px_collect f l = Ok rows -> Forall2 R (flat_map g l) rows.
Proof.
  intros Hf. induction l as [|x l IH]; intros rows H; simpl in *.
  - injection H as <-. constructor.
  - destruct (f x) as [a|e] eqn:Ef; [|discriminate].
    destruct (px_collect f l) as [b|e] eqn:Ec; [|discriminate].
    injection H as <-. apply Forall2_app; [apply Hf; exact Ef | apply IH; reflexivity].
Qed.

Lemma px_collect_total {A B} (f : A -> result (list B)) l :
  Forall (fun x => exists p, f x = Ok p) l -> exists rows, px_collect f l = Ok rows.
Proof.
  induction 1 as [|x l [p Hp] _ [rows IH]]; simpl.
  - exists []. reflexivity.
  - rewrite Hp, IH. exists (p ++ rows). reflexivity.
Qed.

Lemma px_collect_ok_all {A B} (f : A -> result (list B)) l rows :
  px_collect f l = Ok rows -> Forall (fun x => exists p, f x = Ok p) l.
Proof.
  revert rows; induction l as [|x l IH]; intros rows H; simpl in *; [constructor|].
  destruct (f x) as [a|e] eqn:Ef; [|discriminate].
  destruct (px_collect f l) as [b|e] eqn:Ec; [|discriminate].
  constructor; [exists a; exact Ef | eapply IH; reflexivity].
Qed.

Lemma px_collect_app {A B} (f : A -> result (list B)) l1 l2 r1 r2 :
  px_collect f l1 = Ok r1 -> px_collect f l2 = Ok r2 -> px_collect f (l1 ++ l2) = Ok (r1 ++ r2).
Proof.
  revert r1; induction l1 as [|x l1 IH]; intros r1 H1 H2; simpl in *.
  - injection H1 as <-. exact H2.
  - destruct (f x) as [a|e] eqn:Ef; [|discriminate].
    destruct (px_collect f l1) as [b|e] eqn:Ec; [|discriminate].
    injection H1 as <-. rewrite (IH b eq_refl H2). rewrite app_assoc. reflexivity.
Qed.

Lemma px_collect_app_inv {A B} (f : A -> result (list B)) l1 l2 rows :
  px_collect f (l1 ++ l2) = Ok rows ->
  exists r1 r2, px_collect f l1 = Ok r1 /\ px_collect f l2 = Ok r2 /\ rows = r1 ++ r2.
Proof.
  revert rows; induction l1 as [|x l1 IH]; intros rows H; simpl in *.
  - exists [], rows. auto.
  - destruct (f x) as [a|e] eqn:Ef; [|discriminate].
    destruct (px_collect f (l1 ++ l2)) as [b|e] eqn:Ec; [|discriminate].
    injection H as <-. destruct (IH b eq_refl) as (r1 & r2 & H1 & H2 & ->).
    rewrite H1. exists (a ++ r1), r2. rewrite app_assoc. auto.
Qed.

(* what one row says about the hit it comes from (algorithmic form; the theorems below turn
   every component into its declarative reading) *)
Definition px_row_of (prefix : str) (c : px_ctx) (row : px_psm) : Prop :=
  let '(r, s, h) := c in
  (exists raw, r_raw r = Some raw /\ p_file row = px_file_name (r_base r) raw) /\
  s_scan s = Some (p_scan row) /\ s_charge s = Some (p_charge row) /\
  s_rt s = Some (p_rt row) /\ s_mass s = Some (p_exp row) /\
  h_calc h = Some (p_calc row) /\
  p_peptide row = px_peptide (h_peptide h) (h_modinfos h) /\
  p_proteins row = map px_first_token (h_protein h :: h_alts h) /\
  p_label row = px_label prefix (h_protein h) (h_alts h) /\
  p_mc row = h_mc h /\ p_ntt row = h_ntt h /\ p_nmp row = h_nmp h /\
  p_scores row = px_scores_dict (h_scores h).

Lemma px_parse_spectrum_rows prefix r raw s rows :
  r_raw r = Some raw ->
  px_parse_spectrum prefix (px_file_name (r_base r) raw) s = Ok rows ->
  Forall2 (px_row_of prefix) (px_hits_of_spectrum r s) rows.
Proof.
  intros Hraw H. unfold px_parse_spectrum, px_need, bind in H.
  destruct (s_scan s) as [scan|] eqn:E1; [|discriminate].
  destruct (s_charge s) as [charge|] eqn:E2; [|discriminate].
  destruct (s_rt s) as [rt|] eqn:E3; [|discriminate].
  destruct (s_mass s) as [mass|] eqn:E4; [|discriminate].
  unfold px_hits_of_spectrum.
  eapply px_collect_Forall2; [|exact H].
  intros res p Hres. eapply px_collect_Forall2; [|exact Hres].
  intros h q Hq. unfold px_parse_hit in Hq.
  destruct (h_calc h) as [calc|] eqn:E5; [|discriminate].
  injection Hq as <-. constructor; [|constructor].
  unfold px_row_of. cbn.
  repeat split; try assumption; try reflexivity.
  exists raw. split; [exact Hraw | reflexivity].
Qed.

Lemma px_parse_run_rows prefix r rows :
  px_parse_run prefix r = Ok rows -> Forall2 (px_row_of prefix) (px_hits_of_run r) rows.
Proof.
  unfold px_parse_run. destruct (r_raw r) as [raw|] eqn:Hraw; [|discriminate].
  intros H. unfold px_hits_of_run. eapply px_collect_Forall2; [|exact H].
  intros s p Hs. eapply px_parse_spectrum_rows; eassumption.
Qed.

Lemma px_parse_file_ok prefix f rows :
  px_parse_file prefix f = Ok rows <->
  px_collect (px_parse_run prefix) (f_runs f) = Ok rows /\ f_broken f = false /\ rows <> [].
Proof.
  unfold px_parse_file. destruct (px_collect (px_parse_run prefix) (f_runs f)) as [rs|e].
  - destruct (f_broken f).
    + split; [discriminate | intros (_ & H & _); discriminate].
    + destruct rs as [|x rs].
      * split; [discriminate | intros (H & _ & Hne); injection H as <-; congruence].
      * split.
        -- intros H. injection H as <-. repeat split; discriminate.
        -- intros (H & _). exact H.
  - split; [discriminate | intros (H & _); discriminate].
Qed.

Lemma px_parse_file_rows prefix f rows :
  px_parse_file prefix f = Ok rows -> Forall2 (px_row_of prefix) (px_hits_of_file f) rows.
Proof.
  intros H. apply px_parse_file_ok in H. destruct H as (H & _).
  unfold px_hits_of_file. eapply px_collect_Forall2; [|exact H].
  intros r p. apply px_parse_run_rows.
Qed.

Lemma px_read_ok prefix files rows :
  px_read prefix files = Ok rows <->
  px_collect (px_parse_file prefix) files = Ok rows /\ files <> [] /\ px_has_illegal rows = false.
Proof.
  unfold px_read. destruct (px_collect (px_parse_file prefix) files) as [rs|e].
  - destruct files as [|f files].
    + split; [discriminate | intros (_ & H & _); congruence].
    + destruct (px_has_illegal rs) eqn:E.
      * split; [discriminate|]. intros (H & _ & Hi). injection H as <-. congruence.
      * split.
        -- intros H. injection H as <-. repeat split; [discriminate | exact E].
        -- intros (H & _). exact H.
  - split; [discriminate | intros (H & _); discriminate].
Qed.

Theorem px_read_rows prefix files rows :
  px_read prefix files = Ok rows -> Forall2 (px_row_of prefix) (px_hits_of files) rows.
Proof.
  intros H. apply px_read_ok in H. destruct H as (H & _).
  unfold px_hits_of. eapply px_collect_Forall2; [|exact H].
  intros f p. apply px_parse_file_rows.
Qed.

Lemma px_Forall2_impl {A B} (R S : A -> B -> Prop) l1 l2 :
  (forall a b, R a b -> S a b) -> Forall2 R l1 l2 -> Forall2 S l1 l2.
Proof. intros H; induction 1; constructor; auto. Qed.

Lemma px_Forall2_length {A B} (R : A -> B -> Prop) l1 l2 : Forall2 R l1 l2 -> length l1 = length l2.
Proof. induction 1; simpl; congruence. Qed.

(* ====================================================================== *)
(* Well-formed documents: exactly those that are accepted                 *)
(* ====================================================================== *)
Definition px_wf_hit (h : px_hit) : Prop := h_calc h <> None.
Definition px_wf_spectrum (s : px_spectrum) : Prop :=
  s_scan s <> None /\ s_charge s <> None /\ s_rt s <> None /\ s_mass s <> None /\
  Forall (Forall px_wf_hit) (s_results s).
Definition px_wf_run (r : px_run) : Prop := r_raw r <> None /\ Forall px_wf_spectrum (r_spectra r).
Definition px_wf_file (f : px_file) : Prop :=
  f_broken f = false /\ Forall px_wf_run (f_runs f) /\ px_hits_of_file f <> [].
Definition px_no_percolator (files : list px_file) : Prop :=
  Forall (fun c : px_ctx => Forall (fun kv => px_illegal (fst kv) = false) (h_scores (snd c))) (px_hits_of files).
Definition px_wf (files : list px_file) : Prop :=
  files <> [] /\ Forall px_wf_file files /\ px_no_percolator files.

Lemma px_parse_spectrum_total prefix file s :
  px_wf_spectrum s -> exists rows, px_parse_spectrum prefix file s = Ok rows.
Proof.
  intros (H1 & H2 & H3 & H4 & HF). unfold px_parse_spectrum, px_need, bind.
  destruct (s_scan s) as [scan|]; [|congruence].
  destruct (s_charge s) as [charge|]; [|congruence].
  destruct (s_rt s) as [rt|]; [|congruence].
  destruct (s_mass s) as [mass|]; [|congruence].
  apply px_collect_total. eapply Forall_impl; [|exact HF].
  intros res Hres. apply px_collect_total. eapply Forall_impl; [|exact Hres].
  intros h Hh. unfold px_wf_hit in Hh. unfold px_parse_hit.
  destruct (h_calc h) as [calc|]; [|congruence]. eexists. reflexivity.
Qed.

Lemma px_parse_run_total prefix r :
  px_wf_run r -> exists rows, px_parse_run prefix r = Ok rows.
Proof.
  intros (H1 & HF). unfold px_parse_run. destruct (r_raw r) as [raw|]; [|congruence].
  apply px_collect_total. eapply Forall_impl; [|exact HF].
  intros s. apply px_parse_spectrum_total.
Qed.

Lemma px_parse_file_total prefix f :
  px_wf_file f -> exists rows, px_parse_file prefix f = Ok rows.
Proof.
  intros (Hb & HF & Hne).
  destruct (px_collect_total (px_parse_run prefix) (f_runs f)) as [rows Hrows].
  { eapply Forall_impl; [|exact HF]. intros r. apply px_parse_run_total. }
  exists rows. apply px_parse_file_ok. repeat split; [exact Hrows | exact Hb |].
  assert (Forall2 (px_row_of prefix) (px_hits_of_file f) rows) as H2.
  { unfold px_hits_of_file. eapply px_collect_Forall2; [|exact Hrows]. intros r p. apply px_parse_run_rows. }
  intros ->. inversion H2 as [E|]. congruence.
Qed.

Lemma px_has_illegal_false rows :
  px_has_illegal rows = false <->
  Forall (fun p => Forall (fun kv => px_illegal (fst kv) = false) (p_scores p)) rows.
Proof.
  unfold px_has_illegal. induction rows as [|p rows IH]; simpl.
  - split; [constructor | reflexivity].
  - rewrite orb_false_iff, IH. split.
    + intros [H1 H2]. constructor; [|exact H2].
      apply Forall_forall. intros kv Hin.
      destruct (px_illegal (fst kv)) eqn:E; [|reflexivity].
      assert (existsb (fun kv0 => px_illegal (fst kv0)) (p_scores p) = true) as Hc
        by (apply existsb_exists; exists kv; split; assumption).
      congruence.
    + intros H. inversion H as [|? ? H1 H2]; subst. split; [|exact H2].
      destruct (existsb (fun kv => px_illegal (fst kv)) (p_scores p)) eqn:E; [|reflexivity].
      apply existsb_exists in E. destruct E as [kv [Hin Hi]].
      rewrite Forall_forall in H1. rewrite (H1 kv Hin) in Hi. discriminate.
Qed.

Lemma px_names_legal_iff (l : list (str * str)) :
  Forall (fun kv => px_illegal (fst kv) = false) (px_scores_dict l) <->
  Forall (fun kv => px_illegal (fst kv) = false) l.
Proof.
  assert (forall d : list (str * str), Forall (fun kv => px_illegal (fst kv) = false) d <->
            (forall k, In k (map fst d) -> px_illegal k = false)) as Hn.
  { intros d. rewrite Forall_forall. split.
    - intros H k Hk. apply in_map_iff in Hk. destruct Hk as [kv [<- Hin]]. apply H. exact Hin.
    - intros H kv Hin. apply H. apply in_map. exact Hin. }
  rewrite !Hn. rewrite px_scores_dict_fold. split; intros H k Hk; apply H.
  - apply px_fold_scores_in. right. exact Hk.
  - apply px_fold_scores_in in Hk. destruct Hk as [[]|Hk]. exact Hk.
Qed.

Lemma px_illegal_rows prefix cs rows :
  Forall2 (px_row_of prefix) cs rows ->
  (px_has_illegal rows = false <->
   Forall (fun c : px_ctx => Forall (fun kv => px_illegal (fst kv) = false) (h_scores (snd c))) cs).
Proof.
  intros H2. rewrite px_has_illegal_false.
  induction H2 as [|c row cs rows Hrow _ IH].
  - split; constructor.
  - assert (p_scores row = px_scores_dict (h_scores (snd c))) as Hs.
    { destruct c as [[r s] h]. unfold px_row_of in Hrow. cbn [snd]. apply Hrow. }
    split; intros H; inversion H as [|? ? Ha Hb]; subst; constructor.
    + apply px_names_legal_iff. rewrite <- Hs. exact Ha.
    + apply IH. exact Hb.
    + rewrite Hs. apply px_names_legal_iff. exact Ha.
    + apply IH. exact Hb.
Qed.

Theorem px_read_total prefix files :
  px_wf files -> exists rows, px_read prefix files = Ok rows.
Proof.
  intros (Hne & HF & Hperc).
  destruct (px_collect_total (px_parse_file prefix) files) as [rows Hrows].
  { eapply Forall_impl; [|exact HF]. intros f. apply px_parse_file_total. }
  exists rows. apply px_read_ok. repeat split; [exact Hrows | exact Hne |].
  assert (Forall2 (px_row_of prefix) (px_hits_of files) rows) as H2.
  { unfold px_hits_of. eapply px_collect_Forall2; [|exact Hrows]. intros f p. apply px_parse_file_rows. }
  apply (px_illegal_rows _ _ _ H2). exact Hperc.
Qed.

(* the converse: whatever is accepted is well-formed *)
Lemma px_parse_spectrum_wf prefix file s rows :
  px_parse_spectrum prefix file s = Ok rows -> px_wf_spectrum s.
Proof.
  unfold px_parse_spectrum, px_need, bind, px_wf_spectrum.
  destruct (s_scan s) as [scan|]; [|discriminate].
  destruct (s_charge s) as [charge|]; [|discriminate].
  destruct (s_rt s) as [rt|]; [|discriminate].
  destruct (s_mass s) as [mass|]; [|discriminate].
  intros H. repeat split; try discriminate.
  apply px_collect_ok_all in H. eapply Forall_impl; [|exact H].
  intros res [p Hp]. apply px_collect_ok_all in Hp. eapply Forall_impl; [|exact Hp].
  intros h [q Hq]. unfold px_parse_hit in Hq. unfold px_wf_hit.
  destruct (h_calc h); [discriminate|discriminate].
Qed.

Lemma px_parse_run_wf prefix r rows : px_parse_run prefix r = Ok rows -> px_wf_run r.
Proof.
  unfold px_parse_run, px_wf_run. destruct (r_raw r) as [raw|]; [|discriminate].
  intros H. split; [discriminate|]. apply px_collect_ok_all in H.
  eapply Forall_impl; [|exact H]. intros s [p Hp]. eapply px_parse_spectrum_wf; exact Hp.
Qed.

Lemma px_parse_file_wf prefix f rows : px_parse_file prefix f = Ok rows -> px_wf_file f.
Proof.
  intros H. pose proof (px_parse_file_rows _ _ _ H) as H2.
  apply px_parse_file_ok in H. destruct H as (Hc & Hb & Hne).
  repeat split; [exact Hb | |].
  - apply px_collect_ok_all in Hc. eapply Forall_impl; [|exact Hc].
    intros r [p Hp]. eapply px_parse_run_wf; exact Hp.
  - intros E. rewrite E in H2. inversion H2. congruence.
Qed.

Theorem px_read_wf prefix files rows : px_read prefix files = Ok rows -> px_wf files.
Proof.
  intros H. pose proof (px_read_rows _ _ _ H) as H2.
  apply px_read_ok in H. destruct H as (Hc & Hne & Hi).
  repeat split; [exact Hne | |].
  - apply px_collect_ok_all in Hc. eapply Forall_impl; [|exact Hc].
    intros f [p Hp]. eapply px_parse_file_wf; exact Hp.
  - apply (px_illegal_rows _ _ _ H2). exact Hi.
Qed.

Theorem px_accepts_iff prefix files :
  (exists rows, px_read prefix files = Ok rows) <-> px_wf files.
Proof.
  split; [intros [rows H]; eapply px_read_wf; exact H | apply px_read_total].
Qed.

(* ====================================================================== *)
(* The theorems of Props/C20.v                                            *)
(* ====================================================================== *)
Theorem px_one_per_hit prefix files :
  px_wf files ->
  exists rows, px_read prefix files = Ok rows /\ length rows = length (px_hits_of files).
Proof.
  intros Hwf. destruct (px_read_total prefix files Hwf) as [rows H]. exists rows.
  split; [exact H|]. symmetry. eapply px_Forall2_length. apply px_read_rows. exact H.
Qed.

(* scan, charge, retention time, precursor mass of the hit's own spectrum; file name of its own run *)
Definition px_carries (c : px_ctx) (row : px_psm) : Prop :=
  let '(r, s, h) := c in
  s_scan s = Some (p_scan row) /\ s_charge s = Some (p_charge row) /\
  s_rt s = Some (p_rt row) /\ s_mass s = Some (p_exp row) /\ h_calc h = Some (p_calc row) /\
  p_mc row = h_mc h /\ p_ntt row = h_ntt h /\ p_nmp row = h_nmp h /\
  exists raw, r_raw r = Some raw /\
    ((px_ends_with raw (r_base r) /\ p_file row = r_base r) \/
     (~ px_ends_with raw (r_base r) /\ p_file row = r_base r ++ raw)).

Theorem px_read_carries prefix files rows :
  px_read prefix files = Ok rows -> Forall2 px_carries (px_hits_of files) rows.
Proof.
  intros H. eapply px_Forall2_impl; [|apply px_read_rows; exact H].
  intros [[r s] h] row Hrow. unfold px_row_of in Hrow. unfold px_carries.
  destruct Hrow as ((raw & Hraw & Hf) & H1 & H2 & H3 & H4 & H5 & _ & _ & _ & H6 & H7 & H8 & _).
  repeat split; try assumption. exists raw. split; [exact Hraw|].
  rewrite Hf. apply px_file_name_spec.
Qed.

(* the peptide column *)
Definition px_peptide_ok (c : px_ctx) (row : px_psm) : Prop :=
  let h := snd c in
  (h_modinfos h = [] -> p_peptide row = h_peptide h) /\
  (forall mods, h_modinfos h = [mods] ->
     Sorted Z.le (map fst mods) ->
     Forall (fun p => 0 <= p <= Z.of_nat (length (h_peptide h))) (map fst mods) ->
     p_peptide row = px_mods_spec (h_peptide h) mods).

Theorem px_read_peptide prefix files rows :
  px_read prefix files = Ok rows -> Forall2 px_peptide_ok (px_hits_of files) rows.
Proof.
  intros H. eapply px_Forall2_impl; [|apply px_read_rows; exact H].
  intros [[r s] h] row Hrow. unfold px_row_of in Hrow. unfold px_peptide_ok. cbn [snd].
  destruct Hrow as (_ & _ & _ & _ & _ & _ & Hp & _). rewrite Hp. split.
  - intros ->. reflexivity.
  - intros mods -> HS HF. unfold px_peptide. cbn [fold_left].
    rewrite Forall_map in HF. apply px_insert_mods_spec.
    + apply px_asc_of_sorted; [exact HS|]. eapply Forall_impl; [|exact HF]. intros pm Hpm. cbn beta in Hpm. lia.
    + eapply Forall_impl; [|exact HF]. intros pm Hpm. cbn beta in Hpm. lia.
Qed.

(* proteins and label *)
Definition px_proteins_ok (c : px_ctx) (row : px_psm) : Prop :=
  let h := snd c in Forall2 px_is_first_token (p_proteins row) (h_protein h :: h_alts h).

Theorem px_read_proteins prefix files rows :
  px_read prefix files = Ok rows -> Forall2 px_proteins_ok (px_hits_of files) rows.
Proof.
  intros H. eapply px_Forall2_impl; [|apply px_read_rows; exact H].
  intros [[r s] h] row Hrow. unfold px_row_of in Hrow. unfold px_proteins_ok. cbn [snd].
  destruct Hrow as (_ & _ & _ & _ & _ & _ & _ & Hp & _). rewrite Hp.
  generalize (h_protein h :: h_alts h) as l. induction l as [|x l IH]; simpl; constructor.
  - apply px_first_token_spec.
  - exact IH.
Qed.

Definition px_label_ok (prefix : str) (c : px_ctx) (row : px_psm) : Prop :=
  p_label row = false <-> Forall (px_has_prefix prefix) (p_proteins row).

Theorem px_read_label prefix files rows :
  px_read prefix files = Ok rows -> Forall2 (px_label_ok prefix) (px_hits_of files) rows.
Proof.
  intros H. eapply px_Forall2_impl; [|apply px_read_rows; exact H].
  intros [[r s] h] row Hrow. unfold px_row_of in Hrow. unfold px_label_ok.
  destruct Hrow as (_ & _ & _ & _ & _ & _ & _ & Hp & Hl & _). rewrite Hp, Hl.
  apply px_label_false.
Qed.

(* search scores *)
Definition px_scores_ok (c : px_ctx) (row : px_psm) : Prop :=
  let h := snd c in
  (forall n, In n (map fst (h_scores h)) <-> In n (map fst (p_scores row))) /\
  NoDup (map fst (p_scores row)) /\
  (forall n, px_lookup n (p_scores row) = px_last_val n (h_scores h) None) /\
  (NoDup (map fst (h_scores h)) -> p_scores row = h_scores h).

Theorem px_read_scores prefix files rows :
  px_read prefix files = Ok rows -> Forall2 px_scores_ok (px_hits_of files) rows.
Proof.
  intros H. eapply px_Forall2_impl; [|apply px_read_rows; exact H].
  intros [[r s] h] row Hrow. unfold px_row_of in Hrow. unfold px_scores_ok. cbn [snd].
  destruct Hrow as (_ & _ & _ & _ & _ & _ & _ & _ & _ & _ & _ & _ & Hs).
  rewrite Hs, px_scores_dict_fold. repeat split.
  - intros Hin. apply px_fold_scores_in. right. exact Hin.
  - intros Hin. apply px_fold_scores_in in Hin. destruct Hin as [[]|Hin]. exact Hin.
  - apply px_fold_scores_nodup. constructor.
  - intros n. apply px_lookup_fold.
  - intros Hnd. apply (px_fold_scores_id [] (h_scores h)). exact Hnd.
Qed.

(* several files *)
Lemma px_has_illegal_app a b : px_has_illegal (a ++ b) = px_has_illegal a || px_has_illegal b.
Proof. unfold px_has_illegal. apply existsb_app. Qed.

Theorem px_read_concat prefix fs1 fs2 r1 r2 :
  px_read prefix fs1 = Ok r1 -> px_read prefix fs2 = Ok r2 ->
  px_read prefix (fs1 ++ fs2) = Ok (r1 ++ r2).
Proof.
  intros H1 H2. apply px_read_ok in H1. apply px_read_ok in H2.
  destruct H1 as (C1 & N1 & I1). destruct H2 as (C2 & N2 & I2).
  apply px_read_ok. repeat split.
  - apply px_collect_app; assumption.
  - destruct fs1; [congruence | discriminate].
  - rewrite px_has_illegal_app, I1, I2. reflexivity.
Qed.

Theorem px_read_concat_inv prefix fs1 fs2 rows :
  fs1 <> [] -> fs2 <> [] -> px_read prefix (fs1 ++ fs2) = Ok rows ->
  exists r1 r2, px_read prefix fs1 = Ok r1 /\ px_read prefix fs2 = Ok r2 /\ rows = r1 ++ r2.
Proof.
  intros N1 N2 H. apply px_read_ok in H. destruct H as (C & _ & I).
  apply px_collect_app_inv in C. destruct C as (r1 & r2 & C1 & C2 & ->).
  rewrite px_has_illegal_app in I. apply orb_false_iff in I. destruct I as [I1 I2].
  exists r1, r2. repeat split; try reflexivity; apply px_read_ok; repeat split; assumption.
Qed.

(* rejection *)
Theorem px_read_rejects prefix files :
  files = [] \/ Exists (fun f => f_broken f = true) files \/
  Exists (fun f => px_hits_of_file f = []) files \/
  Exists (fun c : px_ctx => Exists (fun kv => px_illegal (fst kv) = true) (h_scores (snd c))) (px_hits_of files) ->
  exists e, px_read prefix files = Err e.
Proof.
  intros H. destruct (px_read prefix files) as [rows|e] eqn:E; [|exists e; reflexivity].
  exfalso. apply px_read_wf in E. destruct E as (Hne & HF & Hp).
  destruct H as [H|[H|[H|H]]].
  - congruence.
  - apply Exists_exists in H. destruct H as [f [Hin Hb]].
    rewrite Forall_forall in HF. destruct (HF f Hin) as (Hb' & _). congruence.
  - apply Exists_exists in H. destruct H as [f [Hin Hb]].
    rewrite Forall_forall in HF. destruct (HF f Hin) as (_ & _ & Hb'). congruence.
  - apply Exists_exists in H. destruct H as [c [Hin Hc]].
    unfold px_no_percolator in Hp. rewrite Forall_forall in Hp. specialize (Hp c Hin).
    apply Exists_exists in Hc. destruct Hc as [kv [Hkv Hi]].
    rewrite Forall_forall in Hp. rewrite (Hp kv Hkv) in Hi. discriminate.
Qed.

(* a broken file or a Percolator score anywhere is a ValueError unless an earlier error wins *)
Lemma px_illegal_iff n : px_illegal n = true <-> n = px_PERC_Q \/ n = px_PERC_PEP \/ n = px_PERC_SVM.
Proof.
  unfold px_illegal. rewrite !orb_true_iff, !px_str_eqb_eq. tauto.
Qed.
