(* Proofs about Model/Pepxml.v (C20). *)
From Coq Require Import Lia.
From Mokaverif Require Import Model.Base Model.Pepxml.
Open Scope Z_scope.

Lemma px_collect_nil {A B} (f : A -> result (list B)) : px_collect f [] = Ok [].
Proof. reflexivity. Qed.
