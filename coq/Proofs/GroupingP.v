(* GroupingP.v — specification and proofs for Model/Grouping.v (C16). *)
From Mokaverif Require Import Model.Base Model.Grouping.
From Coq Require Import Lia Permutation.
